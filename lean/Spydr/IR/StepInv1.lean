import Spydr.IR.Lemmas
namespace Spydr.IR

macro "inv_tac" : tactic => `(tactic| (constructor <;> grind [mem_insertAt, nodup_insertAt, List.Nodup.erase, List.Nodup.mem_erase_iff, List.nodup_append, nodup_filter, isReorder_iff, pinIn_some, pinIn_none]))

macro "op_inv" : tactic => `(tactic| (
  intro h
  obtain ⟨h1,h2,h3,h4,h5,h6,h7,h8,h9,h10,h11,h12,h13,h14,h15,h16,h17,h18,h19,h20,h21,h22⟩ := h
  simp only [step]
  repeat' split
  all_goals first
    | exact ⟨h1,h2,h3,h4,h5,h6,h7,h8,h9,h10,h11,h12,h13,h14,h15,h16,h17,h18,h19,h20,h21,h22⟩
    | inv_tac))

theorem addLibrary_inv (s : S) (n l pos veto) : Inv s → Inv (step s (.addLibrary n l pos veto)).1 := by op_inv
theorem removeLibrary_inv (s : S) (n l) : Inv s → Inv (step s (.removeLibrary n l)).1 := by op_inv
theorem removeLibrariesFrom_inv (s : S) (n ls) : Inv s → Inv (step s (.removeLibrariesFrom n ls)).1 := by op_inv
theorem setLibraries_inv (s : S) (n ls) : Inv s → Inv (step s (.setLibraries n ls)).1 := by op_inv
theorem addDefinition_inv (s : S) (l d pos veto) : Inv s → Inv (step s (.addDefinition l d pos veto)).1 := by op_inv
theorem removeDefinition_inv (s : S) (l d) : Inv s → Inv (step s (.removeDefinition l d)).1 := by op_inv
theorem removeDefinitionsFrom_inv (s : S) (l ds) : Inv s → Inv (step s (.removeDefinitionsFrom l ds)).1 := by op_inv
theorem setDefinitions_inv (s : S) (l ds) : Inv s → Inv (step s (.setDefinitions l ds)).1 := by op_inv
theorem addCable_inv (s : S) (d c pos veto) : Inv s → Inv (step s (.addCable d c pos veto)).1 := by op_inv
theorem removeCable_inv (s : S) (d c) : Inv s → Inv (step s (.removeCable d c)).1 := by op_inv
theorem removeCablesFrom_inv (s : S) (d cs) : Inv s → Inv (step s (.removeCablesFrom d cs)).1 := by op_inv
theorem setCables_inv (s : S) (d cs) : Inv s → Inv (step s (.setCables d cs)).1 := by op_inv
theorem addChild_inv (s : S) (d i pos veto) : Inv s → Inv (step s (.addChild d i pos veto)).1 := by op_inv
theorem removeChild_inv (s : S) (d i) : Inv s → Inv (step s (.removeChild d i)).1 := by op_inv
theorem removeChildrenFrom_inv (s : S) (d is) : Inv s → Inv (step s (.removeChildrenFrom d is)).1 := by op_inv
theorem setChildren_inv (s : S) (d is) : Inv s → Inv (step s (.setChildren d is)).1 := by op_inv
theorem addWire_inv (s : S) (c w pos) : Inv s → Inv (step s (.addWire c w pos)).1 := by op_inv
theorem removeWire_inv (s : S) (c w) : Inv s → Inv (step s (.removeWire c w)).1 := by op_inv
theorem removeWiresFrom_inv (s : S) (c ws) : Inv s → Inv (step s (.removeWiresFrom c ws)).1 := by op_inv
theorem setWires_inv (s : S) (c ws) : Inv s → Inv (step s (.setWires c ws)).1 := by op_inv
theorem setPorts_inv (s : S) (d ps) : Inv s → Inv (step s (.setPorts d ps)).1 := by op_inv
theorem setPins_inv (s : S) (p qs) : Inv s → Inv (step s (.setPins p qs)).1 := by op_inv
theorem setWirePins_inv (s : S) (w rs) : Inv s → Inv (step s (.setWirePins w rs)).1 := by op_inv
theorem setTop_inv (s : S) (n i) : Inv s → Inv (step s (.setTop n i)).1 := by op_inv
end Spydr.IR
