import Spydr.IR.StepInv1
namespace Spydr.IR

theorem addPort_inv (s : S) (d p pos veto) : Inv s → Inv (step s (.addPort d p pos veto)).1 := by op_inv
theorem removePort_inv (s : S) (d p) : Inv s → Inv (step s (.removePort d p)).1 := by op_inv
theorem addPin_inv (s : S) (p q pos) : Inv s → Inv (step s (.addPin p q pos)).1 := by op_inv
theorem removePin_inv (s : S) (p q) : Inv s → Inv (step s (.removePin p q)).1 := by op_inv
theorem connectInner_inv (s : S) (w q pos) : Inv s → Inv (step s (.connectInner w q pos)).1 := by op_inv
theorem connectOuter_inv (s : S) (w i q pos) : Inv s → Inv (step s (.connectOuter w i q pos)).1 := by op_inv
theorem disconnect_inv (s : S) (w r) : Inv s → Inv (step s (.disconnect w r)).1 := by op_inv
end Spydr.IR
