import Spydr.IR.StepInv1
namespace Spydr.IR

theorem removePortsFrom_inv (s : S) (d ps) : Inv s → Inv (step s (.removePortsFrom d ps)).1 := by op_inv
theorem removePinsFrom_inv (s : S) (p qs) : Inv s → Inv (step s (.removePinsFrom p qs)).1 := by op_inv
theorem disconnectFrom_inv (s : S) (w rs) : Inv s → Inv (step s (.disconnectFrom w rs)).1 := by op_inv
end Spydr.IR
