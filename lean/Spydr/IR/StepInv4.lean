import Spydr.IR.StepInv1
namespace Spydr.IR

theorem mem_flat (s : S) (h : Inv s) (d q : OId) :
    q ∈ s.flat d ↔ ∃ p, s.portDef p = some d ∧ s.pinPort q = some p := by
  simp only [S.flat, List.mem_flatMap]
  constructor
  · rintro ⟨p, hp, hq⟩
    exact ⟨p, (h.ports_iff d p).1 hp, (h.pins_iff p q).1 hq⟩
  · rintro ⟨p, hp, hq⟩
    exact ⟨p, (h.ports_iff d p).2 hp, (h.pins_iff p q).2 hq⟩

theorem nodup_flatMap_of {α β} (l : List α) (f : α → List β) (hl : l.Nodup) (hf : ∀ a ∈ l, (f a).Nodup)
    (hd : ∀ a ∈ l, ∀ b ∈ l, a ≠ b → ∀ x, x ∈ f a → x ∉ f b) : (l.flatMap f).Nodup := by
  induction l with
  | nil => simp
  | cons a t ih =>
    simp only [List.flatMap_cons, List.nodup_append]
    refine ⟨hf a (by simp), ?_, ?_⟩
    · apply ih
      · exact (List.nodup_cons.1 hl).2
      · intro b hb; exact hf b (by simp [hb])
      · intro b hb c hc; exact hd b (by simp [hb]) c (by simp [hc])
    · intro x hx y hy hxy
      subst hxy
      rcases List.mem_flatMap.1 hy with ⟨b, hb, hxb⟩
      have hne : a ≠ b := by
        intro e; subst e; exact (List.nodup_cons.1 hl).1 hb
      exact hd a (by simp) b (by simp [hb]) hne x hx hxb

theorem flat_nodup (s : S) (h : Inv s) (d : OId) : (s.flat d).Nodup := by
  apply nodup_flatMap_of
  · exact h.ports_nd d
  · intro p _; exact h.pins_nd p
  · intro a _ b _ hab x hxa hxb
    have h1 := (h.pins_iff a x).1 hxa
    have h2 := (h.pins_iff b x).1 hxb
    rw [h1] at h2
    exact hab (Option.some.inj h2)

theorem dropRef_inv (s : S) (i) (h : Inv s) : Inv (s.dropRef i) := by
  obtain ⟨h1,h2,h3,h4,h5,h6,h7,h8,h9,h10,h11,h12,h13,h14,h15,h16,h17,h18,h19,h20,h21,h22⟩ := h
  simp only [S.dropRef]
  constructor <;> grind [nodup_filter, PinRef.isOuterOf]

theorem firstRef_inv (s : S) (i d') (h : Inv s) (hn : s.instRef i = none) : Inv (s.firstRef i d') := by
  have hm := mem_flat s h d'
  have hf := flat_nodup s h d'
  obtain ⟨h1,h2,h3,h4,h5,h6,h7,h8,h9,h10,h11,h12,h13,h14,h15,h16,h17,h18,h19,h20,h21,h22⟩ := h
  simp only [S.firstRef]
  constructor <;> grind

theorem addChildTail_inv (s : S) (d i) (h : Inv s) (hp : s.instParent i = none) :
    Inv { s with children := fun d' => if d' = d then s.children d' ++ [i] else s.children d'
                 instParent := fun i' => if i' = i then some d else s.instParent i' } := by
  obtain ⟨h1,h2,h3,h4,h5,h6,h7,h8,h9,h10,h11,h12,h13,h14,h15,h16,h17,h18,h19,h20,h21,h22⟩ := h
  constructor <;> grind [List.nodup_append]

theorem createChild_inv (s : S) (d i ref veto) (h : Inv s) : Inv (step s (.createChild d i ref veto)).1 := by
  simp only [step]
  split
  · exact h
  · split
    · exact h
    · rename_i hg _
      have hp : s.instParent i = none := by grind
      have hr : s.instRef i = none := by grind
      cases ref with
      | none => exact addChildTail_inv s d i h hp
      | some r =>
        have h' := firstRef_inv s i r h hr
        exact addChildTail_inv (s.firstRef i r) d i h' (by simpa [S.firstRef] using hp)

theorem setTopDef_inv (s : S) (n d t) (h : Inv s) : Inv (step s (.setTopDef n d t)).1 := by
  simp only [step]
  split
  · exact h
  · rename_i hg
    have hr : s.instRef t = none := by grind
    have h' := firstRef_inv s t d h hr
    obtain ⟨h1,h2,h3,h4,h5,h6,h7,h8,h9,h10,h11,h12,h13,h14,h15,h16,h17,h18,h19,h20,h21,h22⟩ := h'
    exact ⟨h1,h2,h3,h4,h5,h6,h7,h8,h9,h10,h11,h12,h13,h14,h15,h16,h17,h18,h19,h20,h21,h22⟩

end Spydr.IR
