import Spydr.IR.Lemmas
namespace Spydr.IR

theorem lookup_zip_mem (l1 l2 : List OId) (a b : OId) (h : (l1.zip l2).lookup a = some b) : a ∈ l1 ∧ b ∈ l2 := by
  induction l1 generalizing l2 with
  | nil => simp at h
  | cons x xs ih =>
    cases l2 with
    | nil => simp at h
    | cons y ys =>
      simp only [List.zip_cons_cons, List.lookup_cons] at h
      by_cases e : a = x
      · subst e; simp at h; subst h; simp
      · have : (a == x) = false := by simpa using e
        rw [this] at h
        have := ih ys h
        exact ⟨List.mem_cons_of_mem _ this.1, List.mem_cons_of_mem _ this.2⟩

theorem lookup_zip_of_mem (l1 l2 : List OId) (hl : l1.length = l2.length) (a : OId) (h : a ∈ l1) :
    ∃ b, (l1.zip l2).lookup a = some b := by
  induction l1 generalizing l2 with
  | nil => simp at h
  | cons x xs ih =>
    cases l2 with
    | nil => simp at hl
    | cons y ys =>
      simp only [List.zip_cons_cons, List.lookup_cons]
      by_cases e : a = x
      · subst e; exact ⟨y, by simp⟩
      · have he : (a == x) = false := by simpa using e
        rw [he]
        have hm : a ∈ xs := by
          rcases List.mem_cons.1 h with h | h
          · exact absurd h e
          · exact h
        exact ih ys (by simpa using hl) hm

theorem lookup_zip_symm (l1 l2 : List OId) (h1 : l1.Nodup) (h2 : l2.Nodup) (a b : OId)
    (h : (l1.zip l2).lookup a = some b) : (l2.zip l1).lookup b = some a := by
  induction l1 generalizing l2 with
  | nil => simp at h
  | cons x xs ih =>
    cases l2 with
    | nil => simp at h
    | cons y ys =>
      simp only [List.zip_cons_cons, List.lookup_cons] at h ⊢
      by_cases e : a = x
      · subst e
        simp at h; subst h; simp
      · have he : (a == x) = false := by simpa using e
        rw [he] at h
        have hm := lookup_zip_mem xs ys a b h
        have hy : b ≠ y := by
          intro e2; subst e2
          exact (List.nodup_cons.1 h2).1 hm.2
        have he2 : (b == y) = false := by simpa using hy
        rw [he2]
        exact ih ys (List.nodup_cons.1 h1).2 (List.nodup_cons.1 h2).2 h

theorem length_flatMap_eq (l : List OId) (f : OId → List OId) :
    (l.flatMap f).length = ((l.map (fun p => (f p).length))).sum := by
  induction l with
  | nil => simp
  | cons a t ih => simp [List.flatMap_cons, ih]

theorem flat_length_of_shape (s : S) (d d' : OId) (h : s.shape d = s.shape d') :
    (s.flat d).length = (s.flat d').length := by
  simp only [S.flat, length_flatMap_eq]
  simp only [S.shape] at h
  rw [h]

end Spydr.IR
