import Spydr.Names.Props.C17
#print axioms Spydr.Names.makeValid_legal
#print axioms Spydr.Names.makeValid_fresh
#print axioms Spydr.Names.conflictsFix_finished
#print axioms Spydr.Names.makeValid_fresh_bounded
#print axioms Spydr.Names.rename_recorded
#print axioms Spydr.Names.rename_written
#print axioms Spydr.Names.reread_name
#print axioms Spydr.Names.assign_all_distinct
#print axioms Spydr.Names.assign_all_netIdents_distinct
#print axioms Spydr.Names.assign_all_scopeOk
#print axioms Spydr.Names.pinned_violates_scopeOk
#print axioms Spydr.Names.pinned_violates_legal_dash
#print axioms Spydr.Names.pinned_violates_legal_length
#print axioms Spydr.Names.pinned_violates_legal_suffix
#print axioms Spydr.Names.unrepaired_violates_netIdents
