import Spydr.Names.Props.C17
import Spydr.Names.Props.C17Export
import Spydr.Names.Props.C17ExportExample
#print axioms Spydr.Names.makeValid_legal
#print axioms Spydr.Names.makeValid_fresh
#print axioms Spydr.Names.conflictsFix_finished
#print axioms Spydr.Names.makeValid_fresh_bounded
#print axioms Spydr.Names.rename_recorded
#print axioms Spydr.Names.rename_written
#print axioms Spydr.Names.reread_name
#print axioms Spydr.Names.assign_all_distinct
#print axioms Spydr.Names.assign_all_netIdents_distinct
#print axioms Spydr.Names.assign_all_scopeOk
#print axioms Spydr.Names.pinned_violates_scopeOk
#print axioms Spydr.Names.pinned_violates_legal_dash
#print axioms Spydr.Names.pinned_violates_legal_length
#print axioms Spydr.Names.pinned_violates_legal_suffix
#print axioms Spydr.Names.unrepaired_violates_netIdents
#print axioms Spydr.Names.Bridge.checkEdifIdentifier_eq
#print axioms Spydr.Names.Bridge.fromPrepass_named_distinct
#print axioms Spydr.Names.Bridge.wfNet_of_prepass
#print axioms Spydr.Names.Bridge.prepass_file_readable
#print axioms Spydr.Names.Bridge.bus_bit_identifier_can_be_too_long
#print axioms Spydr.Names.Bridge.names_of_passNet
#print axioms Spydr.Names.Bridge.view03_passNet
#print axioms Spydr.Names.Bridge.export_readable
#print axioms Spydr.Names.Bridge.passNet_naming_clauses
#print axioms Spydr.Names.Bridge.export_readable_outside_pinned_classes
#print axioms Spydr.Names.Bridge.Example3.n0_nameHyp
#print axioms Spydr.Names.Bridge.Example3.n1_residual
#print axioms Spydr.Names.Bridge.Example3.example_export
