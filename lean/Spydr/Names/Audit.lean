import Spydr.Names.Props.C17
