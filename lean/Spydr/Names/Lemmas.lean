/-
  Spydr.Names.Lemmas — character facts, the `_sdn_N_` suffix, `lengthFix`, `charsFix`, `bump`,
  and the shape invariant (`Good`) that every candidate identifier satisfies.
-/
import Spydr.Names.Model
import Spydr.Names.Spec

namespace Spydr.Names

/-! ### characters -/

theorem toLower_cases (c : Char) :
    (c.isUpper = false ∧ c.toLower = c) ∨
    (c.isUpper = true ∧ c.toLower.toNat = c.toNat + 32 ∧ 65 ≤ c.toNat ∧ c.toNat ≤ 90) := by
  simp only [Char.toLower, Char.isUpper]
  split <;> rename_i h
  · right
    simp only [ge_iff_le, UInt32.le_iff_toNat_le, Char.toNat] at h ⊢
    simp only [seval] at h
    refine ⟨by simpa [UInt32.le_iff_toNat_le] using h, ?_, h.1, h.2⟩
    simp only [UInt32.toNat_add, seval]
    omega
  · left
    exact ⟨by simpa using h, rfl⟩

theorem isAlpha_iff (c : Char) :
    c.isAlpha = true ↔ (65 ≤ c.toNat ∧ c.toNat ≤ 90) ∨ (97 ≤ c.toNat ∧ c.toNat ≤ 122) := by
  simp [Char.isAlpha, Char.isUpper, Char.isLower, UInt32.le_iff_toNat_le]

theorem isDigit_iff (c : Char) : c.isDigit = true ↔ (48 ≤ c.toNat ∧ c.toNat ≤ 57) := by
  simp [Char.isDigit, UInt32.le_iff_toNat_le]

theorem isUpper_iff (c : Char) : c.isUpper = true ↔ (65 ≤ c.toNat ∧ c.toNat ≤ 90) := by
  simp [Char.isUpper, UInt32.le_iff_toNat_le]

theorem char_eq_iff_toNat (c d : Char) : c = d ↔ c.toNat = d.toNat := by
  constructor
  · rintro rfl; rfl
  · intro h; exact Char.ext (UInt32.toNat_inj.mp h)

theorem toLower_isAlpha (c : Char) : c.toLower.isAlpha = c.isAlpha := by
  rcases toLower_cases c with ⟨_, h⟩ | ⟨_, h, h1, h2⟩
  · rw [h]
  · rw [Bool.eq_iff_iff, isAlpha_iff, isAlpha_iff]; omega

theorem toLower_isDigit (c : Char) : c.toLower.isDigit = c.isDigit := by
  rcases toLower_cases c with ⟨_, h⟩ | ⟨_, h, h1, h2⟩
  · rw [h]
  · rw [Bool.eq_iff_iff, isDigit_iff, isDigit_iff]; omega

theorem toLower_eq_underscore (c : Char) : c.toLower = '_' ↔ c = '_' := by
  rcases toLower_cases c with ⟨_, h⟩ | ⟨_, h, h1, h2⟩
  · rw [h]
  · rw [char_eq_iff_toNat, char_eq_iff_toNat]; simp only [Char.reduceToNat]; omega

theorem toLower_eq_amp (c : Char) : c.toLower = '&' ↔ c = '&' := by
  rcases toLower_cases c with ⟨_, h⟩ | ⟨_, h, h1, h2⟩
  · rw [h]
  · rw [char_eq_iff_toNat, char_eq_iff_toNat]; simp only [Char.reduceToNat]; omega

theorem toLower_not_upper (c : Char) : c.toLower.isUpper = false := by
  rcases toLower_cases c with ⟨h0, h⟩ | ⟨_, h, h1, h2⟩
  · rw [h]; exact h0
  · rw [Bool.eq_false_iff]; intro hh; rw [isUpper_iff] at hh; omega

theorem toLower_of_not_upper (c : Char) (h : c.isUpper = false) : c.toLower = c := by
  rcases toLower_cases c with ⟨_, h'⟩ | ⟨h', _⟩
  · exact h'
  · rw [h] at h'; cases h'

theorem isDigit_not_upper (c : Char) (h : c.isDigit = true) : c.isUpper = false := by
  rw [Bool.eq_false_iff]; intro hh; rw [isUpper_iff] at hh; rw [isDigit_iff] at h; omega

theorem isDigit_ne_underscore (c : Char) (h : c.isDigit = true) : c ≠ '_' := by
  rintro rfl; revert h; decide

/-- characters allowed after the first one: `[0-9A-Za-z_]` -/
def okChar (c : Char) : Bool := c.isAlphanum || c == '_'

theorem okChar_sub (c : Char) : okChar (sub c) = true := by
  unfold okChar sub; split <;> simp_all

theorem okChar_toLower (c : Char) : okChar c.toLower = okChar c := by
  unfold okChar Char.isAlphanum
  rw [toLower_isAlpha, toLower_isDigit]
  congr 1
  rw [Bool.eq_iff_iff]; simp [toLower_eq_underscore]

theorem okChar_of_isDigit (c : Char) (h : c.isDigit = true) : okChar c = true := by
  simp [okChar, Char.isAlphanum, h]

theorem isLetter_eq (c : Char) : Spec.isLetter c = c.isAlpha := by
  simp only [Spec.isLetter, Char.isAlpha, Char.isUpper, Char.isLower, Char.toNat, ge_iff_le,
    UInt32.le_iff_toNat_le]
  rw [Bool.or_comm]
  simp [Bool.decide_and]

theorem idChar_eq (c : Char) : Spec.idChar c = okChar c := by
  simp only [Spec.idChar, okChar, isLetter_eq, Char.isAlphanum, Char.isDigit, Char.toNat, ge_iff_le,
    UInt32.le_iff_toNat_le]

theorem foldChar_eq (c : Char) : Spec.foldChar c = c.toLower := by
  unfold Spec.foldChar
  rcases toLower_cases c with ⟨h0, h⟩ | ⟨h0, h, h1, h2⟩
  · rw [h, if_neg]
    intro hh
    have : c.isUpper = true := (isUpper_iff c).mpr (by simpa using hh)
    rw [h0] at this; cases this
  · rw [if_pos (by simpa using ⟨h1, h2⟩)]
    rw [char_eq_iff_toNat, h]
    have : (c.toNat + 32).isValidChar := by left; omega
    simp [Char.ofNat, this, Char.ofNatAux]
    omega

theorem ciEq_iff (a b : Str) : Spec.ciEq a b = true ↔ lower a = lower b := by
  have : ∀ s : Str, s.map Spec.foldChar = lower s := by
    intro s; unfold lower; congr 1; funext c; exact foldChar_eq c
  simp [Spec.ciEq, this]

/-! ### no upper-case letters -/

def NoUpper (s : Str) : Prop := ∀ c ∈ s, c.isUpper = false

theorem noUpper_lower (s : Str) : NoUpper (lower s) := by
  intro c hc
  simp only [lower, List.mem_map] at hc
  obtain ⟨d, _, rfl⟩ := hc
  exact toLower_not_upper d

theorem lower_of_noUpper {s : Str} (h : NoUpper s) : lower s = s := by
  unfold lower
  conv => rhs; rw [← List.map_id s]
  apply List.map_congr_left
  intro c hc
  exact toLower_of_not_upper c (h c hc)

theorem NoUpper.append {s t : Str} (hs : NoUpper s) (ht : NoUpper t) : NoUpper (s ++ t) := by
  intro c hc
  rcases List.mem_append.mp hc with h | h
  · exact hs c h
  · exact ht c h

theorem NoUpper.take {s : Str} (hs : NoUpper s) (n : Nat) : NoUpper (s.take n) :=
  fun c hc => hs c (List.mem_of_mem_take hc)

theorem NoUpper.drop {s : Str} (hs : NoUpper s) (n : Nat) : NoUpper (s.drop n) :=
  fun c hc => hs c (List.mem_of_mem_drop hc)

theorem noUpper_of_digits {s : Str} (h : ∀ c ∈ s, c.isDigit = true) : NoUpper s :=
  fun c hc => isDigit_not_upper c (h c hc)

theorem noUpper_sdnPre : NoUpper sdnPre := by
  intro c hc; simp only [sdnPre, List.mem_cons, List.not_mem_nil, or_false] at hc
  rcases hc with rfl | rfl | rfl | rfl | rfl <;> decide

theorem lower_length (s : Str) : (lower s).length = s.length := by simp [lower]

/-! ### the `_sdn_N_` suffix -/

theorem sdnPreRev_reverse : sdnPreRev.reverse = sdnPre := by decide

/-- digit strings -/
def Digits (ds : Str) : Prop := ds ≠ [] ∧ ∀ c ∈ ds, c.isDigit = true

theorem mem_takeWhile_imp {p : Char → Bool} {a : Char} {l : Str} (h : a ∈ l.takeWhile p) : p a = true := by
  induction l with
  | nil => simp at h
  | cons x xs ih =>
    rw [List.takeWhile_cons] at h
    split at h
    · rename_i hx
      rcases List.mem_cons.mp h with rfl | h'
      · exact hx
      · exact ih h'
    · simp at h

theorem sdnDigits_some {s ds : Str} (h : sdnDigits s = some ds) :
    Digits ds ∧ ∃ base, s = base ++ sdnPre ++ ds ++ ['_'] := by
  unfold sdnDigits at h
  split at h
  · rename_i r hr
    simp only at h
    have hdig : ∀ c ∈ List.takeWhile Char.isDigit r, c.isDigit = true := fun c hc => mem_takeWhile_imp hc
    have hsplit := List.takeWhile_append_dropWhile (p := Char.isDigit) (l := r)
    generalize List.takeWhile Char.isDigit r = t at *
    generalize List.dropWhile Char.isDigit r = d at *
    subst hsplit
    split at h
    · rename_i hc
      obtain ⟨hne, hpre⟩ := hc
      simp only [Option.some.injEq] at h
      subst h
      rw [List.isPrefixOf_iff_prefix] at hpre
      obtain ⟨rest, hrest⟩ := hpre
      subst hrest
      refine ⟨⟨by simpa using hne, ?_⟩, rest.reverse, ?_⟩
      · intro c hc
        rw [List.mem_reverse] at hc
        exact hdig c hc
      · have h1 : s = (s.reverse).reverse := by simp
        rw [h1, hr]
        simp [sdnPreRev_reverse]
    · cases h
  · cases h

theorem sdnDigits_append {ds : Str} (hd : Digits ds) (base : Str) :
    sdnDigits (base ++ sdnPre ++ ds ++ ['_']) = some ds := by
  obtain ⟨hne, hdig⟩ := hd
  have hrev : (base ++ sdnPre ++ ds ++ ['_']).reverse = '_' :: (ds.reverse ++ (sdnPreRev ++ base.reverse)) := by
    simp [← sdnPreRev_reverse]
  unfold sdnDigits
  rw [hrev]
  have hall : ∀ a ∈ ds.reverse, Char.isDigit a = true := by
    intro a ha; exact hdig a (List.mem_reverse.mp ha)
  have ht : List.takeWhile Char.isDigit (ds.reverse ++ (sdnPreRev ++ base.reverse)) = ds.reverse := by
    rw [List.takeWhile_append_of_pos hall]
    simp [sdnPreRev]
  have hdw : List.dropWhile Char.isDigit (ds.reverse ++ (sdnPreRev ++ base.reverse)) = sdnPreRev ++ base.reverse := by
    rw [List.dropWhile_append_of_pos hall]
    simp [sdnPreRev]
  simp only [ht, hdw]
  rw [if_pos]
  · simp
  · refine ⟨by simpa using hne, ?_⟩
    rw [List.isPrefixOf_iff_prefix]
    exact List.prefix_append _ _

theorem sdnDigits_none_of_getLast {s : Str} {c : Char} (hc : c ≠ '_') :
    sdnDigits (s ++ [c]) = none := by
  unfold sdnDigits
  simp only [List.reverse_append, List.reverse_cons, List.reverse_nil, List.nil_append, List.cons_append]
  split
  · rename_i r hr
    simp only [List.cons.injEq] at hr
    exact absurd hr.1 hc
  · rfl

/-! ### the shape every candidate has -/

/-- head is a letter, or `&` followed by something; all later characters are `[0-9A-Za-z_]` -/
def Shape : Str → Prop
  | [] => False
  | c :: r => (c.isAlpha = true ∨ (c = '&' ∧ r ≠ [])) ∧ r.all okChar = true

def Good (s : Str) : Prop := Shape s ∧ s.length ≤ limit

theorem all_okChar_take {r : Str} (h : r.all okChar = true) (n : Nat) : (r.take n).all okChar = true := by
  rw [List.all_eq_true] at h ⊢
  exact fun x hx => h x (List.mem_of_mem_take hx)

theorem all_okChar_drop {r : Str} (h : r.all okChar = true) (n : Nat) : (r.drop n).all okChar = true := by
  rw [List.all_eq_true] at h ⊢
  exact fun x hx => h x (List.mem_of_mem_drop hx)

theorem Shape.ne_nil {s : Str} (h : Shape s) : s ≠ [] := by
  cases s with
  | nil => exact h.elim
  | cons c r => simp

theorem Shape.head_ne_underscore {c : Char} {r : Str} (h : Shape (c :: r)) : c ≠ '_' := by
  rintro rfl
  rcases h.1 with h1 | ⟨h1, _⟩
  · revert h1; decide
  · revert h1; decide

/-- a prefix of length ≥ 1 followed by ok characters keeps the shape, provided the whole is
    longer than one character when it starts with `&` -/
theorem Shape.take_append {s t : Str} (h : Shape s) (n : Nat) (hn : 1 ≤ n)
    (ht : t.all okChar = true) (hlen : 2 ≤ (s.take n ++ t).length) : Shape (s.take n ++ t) := by
  cases s with
  | nil => exact h.elim
  | cons c r =>
    obtain ⟨m, rfl⟩ : ∃ m, n = m + 1 := ⟨n - 1, by omega⟩
    simp only [List.take_succ_cons, List.cons_append]
    refine ⟨?_, ?_⟩
    · rcases h.1 with h1 | ⟨h1, _⟩
      · exact Or.inl h1
      · refine Or.inr ⟨h1, ?_⟩
        intro hnil
        simp only [List.take_succ_cons, List.cons_append, List.length_cons, hnil, List.length_nil] at hlen
        omega
    · rw [List.all_append, all_okChar_take h.2, ht]; rfl

theorem Shape.take {s : Str} (h : Shape s) (n : Nat) (hn : 2 ≤ n) (hs : 2 ≤ s.length) : Shape (s.take n) := by
  have := Shape.take_append h n (by omega) (t := []) rfl (by simp [List.length_take]; omega)
  simpa using this

theorem Shape.append {s t : Str} (h : Shape s) (ht : t.all okChar = true) (hne : t ≠ []) : Shape (s ++ t) := by
  have h1 : 1 ≤ s.length := List.length_pos_iff.mpr h.ne_nil
  have h2 : 1 ≤ t.length := List.length_pos_iff.mpr hne
  have := Shape.take_append h s.length h1 ht (by simp; omega)
  simpa using this

theorem Shape.lower {s : Str} (h : Shape s) : Shape (lower s) := by
  cases s with
  | nil => exact h.elim
  | cons c r =>
    simp only [Spydr.Names.lower, List.map_cons]
    refine ⟨?_, ?_⟩
    · rcases h.1 with h1 | ⟨h1, h2⟩
      · left; rw [toLower_isAlpha]; exact h1
      · right; exact ⟨(toLower_eq_amp c).mpr h1, by simpa using h2⟩
    · have := h.2
      rw [List.all_eq_true] at this ⊢
      intro x hx
      obtain ⟨y, hy, rfl⟩ := List.mem_map.mp hx
      rw [okChar_toLower]; exact this y hy

theorem Good.lower {s : Str} (h : Good s) : Good (lower s) :=
  ⟨h.1.lower, by rw [lower_length]; exact h.2⟩

theorem Good.legal {s : Str} (h : Good s) : Spec.checkEdifIdentifier s = true := by
  obtain ⟨hs, hl⟩ := h
  cases s with
  | nil => exact hs.elim
  | cons c r =>
    have hall : r.all Spec.idChar = true := by
      have := hs.2
      rw [List.all_eq_true] at this ⊢
      intro x hx; rw [idChar_eq]; exact this x hx
    unfold Spec.checkEdifIdentifier
    simp only [limit, List.length_cons] at hl ⊢
    rcases hs.1 with h1 | ⟨h1, h2⟩
    · have hne : (c == '&') = false := by
        rw [beq_eq_false_iff_ne]; rintro rfl; revert h1; decide
      simp only [hne, Bool.false_eq_true, if_false, isLetter_eq, h1, hall, Bool.and_true, decide_eq_true_eq]
      omega
    · subst h1
      have : 1 ≤ r.length := List.length_pos_iff.mpr h2
      simp only [beq_self_eq_true, if_true, hall, Bool.and_true, Bool.and_eq_true, decide_eq_true_eq]
      omega

/-! ### `lengthFix` -/

theorem lengthFix_of_le {s : Str} (h : s.length ≤ limit) : lengthFix s = s := by
  unfold lengthFix; rw [if_pos h]

theorem sdnPre_ok : sdnPre.all okChar = true := by decide

theorem all_okChar_digits {ds : Str} (h : ∀ c ∈ ds, c.isDigit = true) : ds.all okChar = true := by
  rw [List.all_eq_true]; exact fun x hx => okChar_of_isDigit x (h x hx)

/-- the suffix `_sdn_N_` as one string -/
def suffixOf (ds : Str) : Str := sdnPre ++ ds ++ ['_']

theorem suffixOf_length (ds : Str) : (suffixOf ds).length = ds.length + 6 := by
  simp [suffixOf, sdnPre]

theorem suffixOf_ok {ds : Str} (h : Digits ds) : (suffixOf ds).all okChar = true := by
  simp only [suffixOf, List.all_append, sdnPre_ok, all_okChar_digits h.2, Bool.true_and]; decide

theorem suffixOf_ne_nil (ds : Str) : suffixOf ds ≠ [] := by simp [suffixOf, sdnPre]

theorem sdnDigits_some' {s ds : Str} (h : sdnDigits s = some ds) :
    Digits ds ∧ ∃ base, s = base ++ suffixOf ds := by
  obtain ⟨hd, base, hb⟩ := sdnDigits_some h
  exact ⟨hd, base, by rw [hb]; simp [suffixOf]⟩

theorem sdnDigits_append' {ds : Str} (hd : Digits ds) (base : Str) :
    sdnDigits (base ++ suffixOf ds) = some ds := by
  have := sdnDigits_append hd base
  simpa [suffixOf] using this

/-- closed form of `lengthFix` on a too long string that ends with a suffix leaving room -/
theorem lengthFix_suffix {base ds : Str} (hd : Digits ds)
    (hlen : limit < (base ++ suffixOf ds).length) (hroom : ds.length + 6 < limit) :
    lengthFix (base ++ suffixOf ds) = base.take (limit - (ds.length + 6)) ++ suffixOf ds := by
  unfold lengthFix
  rw [if_neg (by omega), sdnDigits_append' hd]
  simp only
  rw [if_neg (by omega)]
  have hk : (suffixOf ds).length = ds.length + 6 := suffixOf_length ds
  have hb : limit - (ds.length + 6) ≤ base.length := by
    simp only [List.length_append, hk] at hlen; omega
  congr 1
  · rw [List.take_append_of_le_length hb]
  · rw [List.length_append, hk]
    have : base.length + (ds.length + 6) - (ds.length + 6) = base.length := by omega
    rw [this, List.drop_left]

theorem lengthFix_length_le (s : Str) : (lengthFix s).length ≤ limit := by
  unfold lengthFix
  split
  · assumption
  · rename_i hlen
    split
    · simp [List.length_take]; omega
    · rename_i ds hds
      simp only
      split
      · simp [List.length_take]; omega
      · rename_i hroom
        obtain ⟨hd, base, rfl⟩ := sdnDigits_some' hds
        have hk := suffixOf_length ds
        simp only [List.length_append, List.length_take, List.length_drop, hk] at hlen ⊢
        omega

theorem Shape.lengthFix {s : Str} (h : Shape s) : Shape (lengthFix s) := by
  by_cases hle : s.length ≤ limit
  · rw [lengthFix_of_le hle]; exact h
  · have h2 : 2 ≤ s.length := by simp only [limit] at hle; omega
    unfold Spydr.Names.lengthFix
    rw [if_neg hle]
    split
    · exact h.take limit (by decide) h2
    · rename_i ds hds
      simp only
      split
      · exact h.take limit (by decide) h2
      · rename_i hroom
        obtain ⟨hd, base, rfl⟩ := sdnDigits_some' hds
        have hk := suffixOf_length ds
        have hdrop : List.drop ((base ++ suffixOf ds).length - (ds.length + 6)) (base ++ suffixOf ds) = suffixOf ds := by
          rw [List.length_append, hk]
          have : base.length + (ds.length + 6) - (ds.length + 6) = base.length := by omega
          rw [this, List.drop_left]
        rw [hdrop]
        apply Shape.take_append h _ (by omega) (suffixOf_ok hd)
        rw [List.length_append, hk]; omega

theorem Good_lengthFix {s : Str} (h : Shape s) : Good (lengthFix s) :=
  ⟨h.lengthFix, lengthFix_length_le s⟩

theorem lengthFix_ne_nil {s : Str} (h : s ≠ []) : lengthFix s ≠ [] := by
  by_cases hle : s.length ≤ limit
  · rw [lengthFix_of_le hle]; exact h
  · unfold lengthFix
    rw [if_neg hle]
    have h1 : s.take limit ≠ [] := by
      cases s with
      | nil => exact absurd rfl h
      | cons c r => simp [limit]
    split
    · exact h1
    · rename_i ds hds
      simp only
      split
      · exact h1
      · obtain ⟨hd, base, rfl⟩ := sdnDigits_some' hds
        have hk := suffixOf_length ds
        intro hnil
        have := congrArg List.length hnil
        simp only [List.length_append, List.length_take, List.length_drop, hk, List.length_nil] at this
        omega

theorem NoUpper.lengthFix {s : Str} (h : NoUpper s) : NoUpper (lengthFix s) := by
  unfold Spydr.Names.lengthFix
  split
  · exact h
  · split
    · exact h.take _
    · simp only
      split
      · exact h.take _
      · exact (h.take _).append (h.drop _)

/-! ### `charsFix` -/

theorem all_okChar_map_sub (r : Str) : (r.map sub).all okChar = true := by
  rw [List.all_eq_true]
  intro x hx
  obtain ⟨y, _, rfl⟩ := List.mem_map.mp hx
  exact okChar_sub y

theorem sub_of_isAlpha {c : Char} (h : c.isAlpha = true) : sub c = c := by
  unfold sub; rw [if_pos]; simp [Char.isAlphanum, h]

theorem Good_charsFix {s : Str} (h : s ≠ []) : Good (charsFix s) := by
  unfold charsFix
  apply Good_lengthFix
  cases s with
  | nil => exact absurd rfl h
  | cons c r =>
    split
    · rename_i hg
      simp only [charsGood, List.all_cons, Bool.and_eq_true] at hg
      exact ⟨Or.inl hg.1, hg.2.2⟩
    · simp only
      split
      · rename_i hc
        simp only [List.map_cons, sub_of_isAlpha hc]
        exact ⟨Or.inl hc, all_okChar_map_sub r⟩
      · exact ⟨Or.inr ⟨rfl, by simp⟩, all_okChar_map_sub (c :: r)⟩

/-! ### decimal digits -/

theorem digits_toDigits (n : Nat) : Digits (Nat.toDigits 10 n) :=
  ⟨Nat.toDigits_ne_nil, fun _ hc => Nat.isDigit_of_mem_toDigits (by decide) (by decide) hc⟩

theorem ofDigitChars_lt {ds : Str} (h : ∀ c ∈ ds, c.isDigit = true) :
    Nat.ofDigitChars 10 ds 0 < 10 ^ ds.length := by
  induction ds with
  | nil => simp
  | cons c cs ih =>
    have hc : c.isDigit = true := h c (by simp)
    have ih' := ih (fun x hx => h x (by simp [hx]))
    rw [Nat.ofDigitChars_cons, Nat.ofDigitChars_eq_ofDigitChars_zero]
    rw [isDigit_iff] at hc
    simp only [List.length_cons, Nat.pow_succ, Char.reduceToNat, Nat.mul_zero, Nat.zero_add]
    have hm : 10 ^ cs.length * (c.toNat - 48) ≤ 10 ^ cs.length * 9 := Nat.mul_le_mul_left _ (by omega)
    omega

/-! ### `bump` -/

theorem bump_none {c : Str} (h : sdnDigits c = none) : bump c = c ++ suffixOf ['1'] := by
  unfold bump; rw [h]; simp [suffixOf]

theorem bump_some {base ds : Str} (hd : Digits ds) :
    bump (base ++ suffixOf ds) =
      base ++ suffixOf (Nat.toDigits 10 (Nat.ofDigitChars 10 ds 0 + 1)) := by
  unfold bump; rw [sdnDigits_append' hd]
  simp only
  have : (base ++ suffixOf ds).length - (ds.length + 1) = (base ++ sdnPre).length := by
    simp [suffixOf, sdnPre]; omega
  rw [this]
  have h2 : base ++ suffixOf ds = (base ++ sdnPre) ++ (ds ++ ['_']) := by simp [suffixOf]
  rw [h2, List.take_left]
  simp [suffixOf]

theorem digits_one : Digits ['1'] := ⟨by simp, by intro c hc; simp at hc; subst hc; decide⟩

theorem NoUpper.suffixOf {ds : Str} (hd : Digits ds) : NoUpper (suffixOf ds) := by
  unfold Spydr.Names.suffixOf
  refine (noUpper_sdnPre.append (noUpper_of_digits hd.2)).append ?_
  intro c hc; simp at hc; subst hc; decide

theorem NoUpper.bump {c : Str} (h : NoUpper c) : NoUpper (bump c) := by
  cases hs : sdnDigits c with
  | none => rw [bump_none hs]; exact h.append (NoUpper.suffixOf digits_one)
  | some ds =>
    obtain ⟨hd, base, rfl⟩ := sdnDigits_some' hs
    rw [bump_some hd]
    refine NoUpper.append ?_ (NoUpper.suffixOf (digits_toDigits _))
    intro x hx; exact h x (List.mem_append_left _ hx)

/-- a candidate whose shape is fine never has an empty stem before its suffix -/
theorem base_ne_nil_of_shape {base ds : Str} (h : Shape (base ++ suffixOf ds)) : base ≠ [] := by
  rintro rfl
  simp only [List.nil_append, suffixOf, sdnPre, List.cons_append] at h
  exact h.head_ne_underscore rfl

theorem Shape.bump {c : Str} (h : Shape c) : Shape (bump c) := by
  cases hs : sdnDigits c with
  | none => rw [bump_none hs]; exact h.append (suffixOf_ok digits_one) (suffixOf_ne_nil _)
  | some ds =>
    obtain ⟨hd, base, rfl⟩ := sdnDigits_some' hs
    rw [bump_some hd]
    have hb : base ≠ [] := base_ne_nil_of_shape h
    have hbs : Shape (base ++ suffixOf ds) := h
    -- the stem alone followed by the new suffix
    have h1 : 1 ≤ base.length := List.length_pos_iff.mpr hb
    have := Shape.take_append hbs base.length h1 (suffixOf_ok (digits_toDigits (Nat.ofDigitChars 10 ds 0 + 1)))
      (by simp [suffixOf_length]; omega)
    simpa using this

end Spydr.Names
