import Spydr.Names.Model
import Spydr.Names.Spec
