/-
  Spydr.Names.Lemmas — character facts, the `_sdn_N_` suffix, `lengthFix`, `charsFix`, `bump`,
  and the shape invariant (`Good`) that every candidate identifier satisfies.
-/
import Spydr.Names.Model
import Spydr.Names.Spec

namespace Spydr.Names

/-! ### characters -/

theorem toLower_cases (c : Char) :
    (c.isUpper = false ∧ c.toLower = c) ∨
    (c.isUpper = true ∧ c.toLower.toNat = c.toNat + 32 ∧ 65 ≤ c.toNat ∧ c.toNat ≤ 90) := by
  simp only [Char.toLower, Char.isUpper]
  split <;> rename_i h
  · right
    simp only [ge_iff_le, UInt32.le_iff_toNat_le, Char.toNat] at h ⊢
    simp only [seval] at h
    refine ⟨by simpa [UInt32.le_iff_toNat_le] using h, ?_, h.1, h.2⟩
    simp only [UInt32.toNat_add, seval]
    omega
  · left
    exact ⟨by simpa using h, rfl⟩

theorem isAlpha_iff (c : Char) :
    c.isAlpha = true ↔ (65 ≤ c.toNat ∧ c.toNat ≤ 90) ∨ (97 ≤ c.toNat ∧ c.toNat ≤ 122) := by
  simp [Char.isAlpha, Char.isUpper, Char.isLower, UInt32.le_iff_toNat_le]

theorem isDigit_iff (c : Char) : c.isDigit = true ↔ (48 ≤ c.toNat ∧ c.toNat ≤ 57) := by
  simp [Char.isDigit, UInt32.le_iff_toNat_le]

theorem isUpper_iff (c : Char) : c.isUpper = true ↔ (65 ≤ c.toNat ∧ c.toNat ≤ 90) := by
  simp [Char.isUpper, UInt32.le_iff_toNat_le]

theorem char_eq_iff_toNat (c d : Char) : c = d ↔ c.toNat = d.toNat := by
  constructor
  · rintro rfl; rfl
  · intro h; exact Char.ext (UInt32.toNat_inj.mp h)

theorem toLower_isAlpha (c : Char) : c.toLower.isAlpha = c.isAlpha := by
  rcases toLower_cases c with ⟨_, h⟩ | ⟨_, h, h1, h2⟩
  · rw [h]
  · rw [Bool.eq_iff_iff, isAlpha_iff, isAlpha_iff]; omega

theorem toLower_isDigit (c : Char) : c.toLower.isDigit = c.isDigit := by
  rcases toLower_cases c with ⟨_, h⟩ | ⟨_, h, h1, h2⟩
  · rw [h]
  · rw [Bool.eq_iff_iff, isDigit_iff, isDigit_iff]; omega

theorem toLower_eq_underscore (c : Char) : c.toLower = '_' ↔ c = '_' := by
  rcases toLower_cases c with ⟨_, h⟩ | ⟨_, h, h1, h2⟩
  · rw [h]
  · rw [char_eq_iff_toNat, char_eq_iff_toNat]; simp only [Char.reduceToNat]; omega

theorem toLower_eq_amp (c : Char) : c.toLower = '&' ↔ c = '&' := by
  rcases toLower_cases c with ⟨_, h⟩ | ⟨_, h, h1, h2⟩
  · rw [h]
  · rw [char_eq_iff_toNat, char_eq_iff_toNat]; simp only [Char.reduceToNat]; omega

theorem toLower_not_upper (c : Char) : c.toLower.isUpper = false := by
  rcases toLower_cases c with ⟨h0, h⟩ | ⟨_, h, h1, h2⟩
  · rw [h]; exact h0
  · rw [Bool.eq_false_iff]; intro hh; rw [isUpper_iff] at hh; omega

theorem toLower_of_not_upper (c : Char) (h : c.isUpper = false) : c.toLower = c := by
  rcases toLower_cases c with ⟨_, h'⟩ | ⟨h', _⟩
  · exact h'
  · rw [h] at h'; cases h'

theorem isDigit_not_upper (c : Char) (h : c.isDigit = true) : c.isUpper = false := by
  rw [Bool.eq_false_iff]; intro hh; rw [isUpper_iff] at hh; rw [isDigit_iff] at h; omega

theorem isDigit_ne_underscore (c : Char) (h : c.isDigit = true) : c ≠ '_' := by
  rintro rfl; revert h; decide

/-- characters allowed after the first one: `[0-9A-Za-z_]` -/
def okChar (c : Char) : Bool := c.isAlphanum || c == '_'

theorem okChar_sub (c : Char) : okChar (sub c) = true := by
  unfold okChar sub; split <;> simp_all

theorem okChar_toLower (c : Char) : okChar c.toLower = okChar c := by
  unfold okChar Char.isAlphanum
  rw [toLower_isAlpha, toLower_isDigit]
  congr 1
  rw [Bool.eq_iff_iff]; simp [toLower_eq_underscore]

theorem okChar_of_isDigit (c : Char) (h : c.isDigit = true) : okChar c = true := by
  simp [okChar, Char.isAlphanum, h]

theorem isLetter_eq (c : Char) : Spec.isLetter c = c.isAlpha := by
  simp only [Spec.isLetter, Char.isAlpha, Char.isUpper, Char.isLower, Char.toNat, ge_iff_le,
    UInt32.le_iff_toNat_le]
  rw [Bool.or_comm]
  simp [Bool.decide_and]

theorem idChar_eq (c : Char) : Spec.idChar c = okChar c := by
  simp only [Spec.idChar, okChar, isLetter_eq, Char.isAlphanum, Char.isDigit, Char.toNat, ge_iff_le,
    UInt32.le_iff_toNat_le]

theorem foldChar_eq (c : Char) : Spec.foldChar c = c.toLower := by
  unfold Spec.foldChar
  rcases toLower_cases c with ⟨h0, h⟩ | ⟨h0, h, h1, h2⟩
  · rw [h, if_neg]
    intro hh
    have : c.isUpper = true := (isUpper_iff c).mpr (by simpa using hh)
    rw [h0] at this; cases this
  · rw [if_pos (by simpa using ⟨h1, h2⟩)]
    rw [char_eq_iff_toNat, h]
    have : (c.toNat + 32).isValidChar := by left; omega
    simp [Char.ofNat, this, Char.ofNatAux]
    omega

theorem ciEq_iff (a b : Str) : Spec.ciEq a b = true ↔ lower a = lower b := by
  have : ∀ s : Str, s.map Spec.foldChar = lower s := by
    intro s; unfold lower; congr 1; funext c; exact foldChar_eq c
  simp [Spec.ciEq, this]

/-! ### no upper-case letters -/

def NoUpper (s : Str) : Prop := ∀ c ∈ s, c.isUpper = false

theorem noUpper_lower (s : Str) : NoUpper (lower s) := by
  intro c hc
  simp only [lower, List.mem_map] at hc
  obtain ⟨d, _, rfl⟩ := hc
  exact toLower_not_upper d

theorem lower_of_noUpper {s : Str} (h : NoUpper s) : lower s = s := by
  unfold lower
  conv => rhs; rw [← List.map_id s]
  apply List.map_congr_left
  intro c hc
  exact toLower_of_not_upper c (h c hc)

theorem NoUpper.append {s t : Str} (hs : NoUpper s) (ht : NoUpper t) : NoUpper (s ++ t) := by
  intro c hc
  rcases List.mem_append.mp hc with h | h
  · exact hs c h
  · exact ht c h

theorem NoUpper.take {s : Str} (hs : NoUpper s) (n : Nat) : NoUpper (s.take n) :=
  fun c hc => hs c (List.mem_of_mem_take hc)

theorem NoUpper.drop {s : Str} (hs : NoUpper s) (n : Nat) : NoUpper (s.drop n) :=
  fun c hc => hs c (List.mem_of_mem_drop hc)

theorem noUpper_of_digits {s : Str} (h : ∀ c ∈ s, c.isDigit = true) : NoUpper s :=
  fun c hc => isDigit_not_upper c (h c hc)

theorem noUpper_sdnPre : NoUpper sdnPre := by
  intro c hc; simp only [sdnPre, List.mem_cons, List.not_mem_nil, or_false] at hc
  rcases hc with rfl | rfl | rfl | rfl | rfl <;> decide

theorem lower_length (s : Str) : (lower s).length = s.length := by simp [lower]

/-! ### the `_sdn_N_` suffix -/

theorem sdnPreRev_reverse : sdnPreRev.reverse = sdnPre := by decide

/-- digit strings -/
def Digits (ds : Str) : Prop := ds ≠ [] ∧ ∀ c ∈ ds, c.isDigit = true

theorem mem_takeWhile_imp {p : Char → Bool} {a : Char} {l : Str} (h : a ∈ l.takeWhile p) : p a = true := by
  induction l with
  | nil => simp at h
  | cons x xs ih =>
    rw [List.takeWhile_cons] at h
    split at h
    · rename_i hx
      rcases List.mem_cons.mp h with rfl | h'
      · exact hx
      · exact ih h'
    · simp at h

theorem sdnDigits_some {s ds : Str} (h : sdnDigits s = some ds) :
    Digits ds ∧ ∃ base, s = base ++ sdnPre ++ ds ++ ['_'] := by
  unfold sdnDigits at h
  split at h
  · rename_i r hr
    simp only at h
    have hdig : ∀ c ∈ List.takeWhile Char.isDigit r, c.isDigit = true := fun c hc => mem_takeWhile_imp hc
    have hsplit := List.takeWhile_append_dropWhile (p := Char.isDigit) (l := r)
    generalize List.takeWhile Char.isDigit r = t at *
    generalize List.dropWhile Char.isDigit r = d at *
    subst hsplit
    split at h
    · rename_i hc
      obtain ⟨hne, hpre⟩ := hc
      simp only [Option.some.injEq] at h
      subst h
      rw [List.isPrefixOf_iff_prefix] at hpre
      obtain ⟨rest, hrest⟩ := hpre
      subst hrest
      refine ⟨⟨by simpa using hne, ?_⟩, rest.reverse, ?_⟩
      · intro c hc
        rw [List.mem_reverse] at hc
        exact hdig c hc
      · have h1 : s = (s.reverse).reverse := by simp
        rw [h1, hr]
        simp [sdnPreRev_reverse]
    · cases h
  · cases h

theorem sdnDigits_append {ds : Str} (hd : Digits ds) (base : Str) :
    sdnDigits (base ++ sdnPre ++ ds ++ ['_']) = some ds := by
  obtain ⟨hne, hdig⟩ := hd
  have hrev : (base ++ sdnPre ++ ds ++ ['_']).reverse = '_' :: (ds.reverse ++ (sdnPreRev ++ base.reverse)) := by
    simp [← sdnPreRev_reverse]
  unfold sdnDigits
  rw [hrev]
  have hall : ∀ a ∈ ds.reverse, Char.isDigit a = true := by
    intro a ha; exact hdig a (List.mem_reverse.mp ha)
  have ht : List.takeWhile Char.isDigit (ds.reverse ++ (sdnPreRev ++ base.reverse)) = ds.reverse := by
    rw [List.takeWhile_append_of_pos hall]
    simp [sdnPreRev]
  have hdw : List.dropWhile Char.isDigit (ds.reverse ++ (sdnPreRev ++ base.reverse)) = sdnPreRev ++ base.reverse := by
    rw [List.dropWhile_append_of_pos hall]
    simp [sdnPreRev]
  simp only [ht, hdw]
  rw [if_pos]
  · simp
  · refine ⟨by simpa using hne, ?_⟩
    rw [List.isPrefixOf_iff_prefix]
    exact List.prefix_append _ _

theorem sdnDigits_none_of_getLast {s : Str} {c : Char} (hc : c ≠ '_') :
    sdnDigits (s ++ [c]) = none := by
  unfold sdnDigits
  simp only [List.reverse_append, List.reverse_cons, List.reverse_nil, List.nil_append, List.cons_append]
  split
  · rename_i r hr
    simp only [List.cons.injEq] at hr
    exact absurd hr.1 hc
  · rfl

end Spydr.Names
