/-
  Spydr.Names.LemmasBridge — the identifier notions of the names engine (Spec.lean / Model.lean) and
  of the EDIF engine's model (Spydr/Edif/ModelRead.lean, ModelWrite.lean, LemmasWF.lean) coincide, and
  what the pre-pass `assignAll` delivers for one scope is what the EDIF model's well-formedness
  (`NamedOK`, `Distinct`, the per-bit clauses of `CableWF.bus_ok`) asks of that scope.
-/
import Spydr.Names.LemmasPass
import Spydr.Edif.LemmasWF

namespace Spydr.Names.Bridge
open Spydr Spydr.Names

/-! ### the two engines talk about the same things -/

theorem lower_eq (s : Str) : Edif.lower s = lower s := rfl

theorem bitIdent_eq (id : Str) (i : Nat) : Edif.bitIdent id i = bitIdent id i := by
  simp [Edif.bitIdent, bitIdent, Edif.natStr]

theorem char_le_iff (a b : Char) : a ≤ b ↔ a.toNat ≤ b.toNat := by
  show a.val ≤ b.val ↔ _
  rw [UInt32.le_iff_toNat_le]; exact Iff.rfl

theorem isAsciiAlpha_eq (c : Char) : Edif.isAsciiAlpha c = c.isAlpha := by
  rw [Bool.eq_iff_iff, isAlpha_iff]
  simp only [Edif.isAsciiAlpha, Bool.or_eq_true, Bool.and_eq_true, decide_eq_true_eq, char_le_iff,
    Char.reduceToNat]
  omega

theorem isIdChar_eq (c : Char) : Edif.isIdChar c = okChar c := by
  simp [Edif.isIdChar, okChar, Char.isAlphanum, isAsciiAlpha_eq, Edif.isAsciiDigit]

theorem all_isIdChar_eq (r : Str) : r.all Edif.isIdChar = r.all Spec.idChar := by
  have : Edif.isIdChar = Spec.idChar := by
    funext c; rw [isIdChar_eq, idChar_eq]
  rw [this] -- [isIdChar_eq, idChar_eq]

theorem edif_check_cons (c : Char) (r : Str) :
    Edif.checkEdifIdentifier (c :: r) =
      if c = '&' then decide (2 ≤ (c :: r).length) && decide ((c :: r).length ≤ 256) && r.all Edif.isIdChar
      else decide ((c :: r).length ≤ 255) && Edif.isAsciiAlpha c && (c :: r).all Edif.isIdChar := by
  unfold Edif.checkEdifIdentifier
  split
  · rename_i h; cases h
  · rename_i r' h
    simp only [List.cons.injEq] at h
    obtain ⟨rfl, rfl⟩ := h
    simp
  · rename_i c' t hne h
    simp only [List.cons.injEq] at h
    obtain ⟨rfl, rfl⟩ := h
    rw [if_neg hne]

/-- **the EDIF model's identifier legality is the names engine's** (both transcribe
    `EdifNamespace._check_EDIF_identifier`) -/
theorem checkEdifIdentifier_eq (s : Str) : Edif.checkEdifIdentifier s = Spec.checkEdifIdentifier s := by
  cases s with
  | nil => rfl
  | cons c r =>
    rw [edif_check_cons]
    by_cases hc : c = '&'
    · subst hc
      simp [Spec.checkEdifIdentifier, all_isIdChar_eq]
    · have hne : (c == '&') = false := by simpa using hc
      rw [if_neg hc]
      simp only [Spec.checkEdifIdentifier, hne, Bool.false_eq_true, if_false, List.all_cons,
        all_isIdChar_eq, isAsciiAlpha_eq, isLetter_eq, isIdChar_eq]
      cases hA : c.isAlpha with
      | false => simp
      | true => simp [okChar, Char.isAlphanum, hA]

/-! ### one element: the dictionary the writer sees -/

/-- the element dictionary `d` carries the name and the identifier of sibling `y` -/
def Carries (d : Edif.Data) (y : Sib) : Prop :=
  Edif.identOf d = y.ident ∧ d.get? Edif.kNAME = some (.str y.name)

theorem Carries.idOf {d : Edif.Data} {y : Sib} {i : Str} (h : Carries d y) (hi : y.ident = some i) :
    Edif.idOf d = i := by
  simp [Edif.idOf, h.1, hi]

theorem Carries.nmOf {d : Edif.Data} {y : Sib} (h : Carries d y) : Edif.nmOf d = y.name := by
  simp [Edif.nmOf, Edif.nameOf, Edif.Data.getStr?, h.2]

/-- names the EDIF string token can carry: anything but `"`, CR, LF -/
def QuoteFree (s : Str) : Prop := s.all Edif.isStringChar = true

theorem namedOK_of {d : Edif.Data} {y : Sib} {i : Str} (h : Carries d y) (hi : y.ident = some i)
    (hl : Spec.checkEdifIdentifier i = true) (hq : QuoteFree y.name) :
    Edif.NamedOK d (Edif.idOf d) (Edif.nmOf d) := by
  rw [h.idOf hi, h.nmOf]
  exact ⟨by rw [h.1, hi], by rw [checkEdifIdentifier_eq]; exact hl, h.2, hq⟩

/-! ### invariants of the pass that the bridge needs in addition -/

theorem assignGo_forall (P : Sib → Prop)
    (hP : ∀ x others, x.name ≠ [] → P x → P (assignOne x others)) (todo done : List Sib)
    (hok : PassOk (done ++ todo)) (h : ∀ y ∈ done ++ todo, P y) : ∀ y ∈ assignGo done todo, P y := by
  refine assignGo_induct (fun L => ∀ y ∈ L, P y) ?_ todo done hok h
  intro done x rest hok h y hy
  simp only [List.mem_append, List.mem_cons] at hy
  rcases hy with hy | rfl | hy
  · exact h y (by simp [hy])
  · exact hP x _ (hok.1 x (by simp)) (h x (by simp))
  · exact h y (by simp [hy])

/-- every identifier present is legal -/
def LegalId (y : Sib) : Prop := ∀ i, y.ident = some i → Spec.checkEdifIdentifier i = true

theorem assignOne_legalId (x : Sib) (others : List Sib) (hn : x.name ≠ []) (h : LegalId x) :
    LegalId (assignOne x others) := by
  cases hx : x.ident with
  | some i => rw [assignOne_of_some hx]; exact h
  | none =>
    rw [assignOne_of_none hx]
    intro i hi
    simp only [Option.some.injEq] at hi
    subst hi
    exact (makeValid_good _ others hn).legal

/-- what the bridge assumes of a scope before the pass (the hypotheses of the C17 theorems, plus the
    two facts about the NAMES that the EDIF model's `Distinct` / `NamedOK` state: sibling names are
    different, and free of `"`, CR, LF) -/
structure ScopeHyp (l : List Sib) : Prop where
  named : ∀ x ∈ l, x.name ≠ []
  size : totalWeight l ≤ weightBound
  names : (l.map (·.name)).Nodup
  quoteFree : ∀ x ∈ l, QuoteFree x.name
  preLegal : ∀ x ∈ l, LegalId x
  preDistinct : l.Pairwise FormsDiffer2

theorem ScopeHyp.passOk {l : List Sib} (h : ScopeHyp l) : PassOk ([] ++ l) :=
  ⟨by simpa using h.named, by simpa using h.size⟩

/-- after the pass: everybody has a legal identifier, names are what they were, written forms differ -/
theorem after_pass {l : List Sib} (h : ScopeHyp l) :
    (∀ y ∈ assignAll l, ∃ i, y.ident = some i ∧ Spec.checkEdifIdentifier i = true) ∧
    (assignAll l).map (·.name) = l.map (·.name) ∧
    (assignAll l).map (·.bits) = l.map (·.bits) ∧
    (assignAll l).Pairwise FormsDiffer2 := by
  have hsome : ∀ y ∈ assignAll l, y.ident.isSome = true := assignGo_all_some l [] (by simp)
  have hlegal : ∀ y ∈ assignAll l, LegalId y :=
    assignGo_forall LegalId (fun x o hn hx => assignOne_legalId x o hn hx) l [] h.passOk (by simpa using h.preLegal)
  refine ⟨?_, by simpa [assignAll] using assignGo_names l [], by simpa [assignAll] using assignGo_bits l [], ?_⟩
  · intro y hy
    obtain ⟨i, hi⟩ := Option.isSome_iff_exists.mp (hsome y hy)
    exact ⟨i, hi, hlegal y hy i hi⟩
  · exact assignGo_formsDiffer l [] h.passOk (by simpa using h.preDistinct)

/-! ### one scope: `NamedOK` for every element and `Distinct` for the list -/

/-- position-wise relation between two lists (core has no `List.Forall₂`) -/
inductive Forall2 {α β : Type} (R : α → β → Prop) : List α → List β → Prop
  | nil : Forall2 R [] []
  | cons {a b as bs} : R a b → Forall2 R as bs → Forall2 R (a :: as) (b :: bs)

theorem forall₂_mem_left {α β : Type} {R : α → β → Prop} {as : List α} {bs : List β}
    (h : Forall2 R as bs) {a : α} (ha : a ∈ as) : ∃ b ∈ bs, R a b := by
  induction h with
  | nil => cases ha
  | cons hr _ ih =>
    rcases List.mem_cons.mp ha with rfl | ha
    · exact ⟨_, by simp, hr⟩
    · obtain ⟨b, hb, hab⟩ := ih ha; exact ⟨b, by simp [hb], hab⟩

theorem pairwise_of_forall₂ {α β : Type} {R : α → β → Prop} {Q : β → β → Prop} {P : α → α → Prop}
    {as : List α} {bs : List β} (h : Forall2 R as bs) (hq : bs.Pairwise Q)
    (himp : ∀ a a' b b', R a b → R a' b' → Q b b' → P a a') : as.Pairwise P := by
  induction h with
  | nil => exact List.Pairwise.nil
  | @cons a b as bs hr hrest ih =>
    rw [List.pairwise_cons] at hq ⊢
    refine ⟨?_, ih hq.2⟩
    intro a' ha'
    obtain ⟨b', hb', hab'⟩ := forall₂_mem_left hrest ha'
    exact himp a a' b b' hr hab' (hq.1 b' hb')

/-- **scope bridge**: the dictionaries of one scope after the writer's pre-pass satisfy the EDIF
    model's naming clauses — `NamedOK` for each, `Distinct` for the list. -/
theorem scope_named_distinct {l : List Sib} (h : ScopeHyp l) {ds : List Edif.Data}
    (hc : Forall2 Carries ds (assignAll l)) :
    (∀ d ∈ ds, Edif.NamedOK d (Edif.idOf d) (Edif.nmOf d)) ∧ Edif.Distinct ds := by
  obtain ⟨hleg, hnames, _, hforms⟩ := after_pass h
  have hqf : ∀ y ∈ assignAll l, QuoteFree y.name := by
    intro y hy
    have : y.name ∈ (assignAll l).map (·.name) := List.mem_map_of_mem hy
    rw [hnames] at this
    obtain ⟨x, hx, hxe⟩ := List.mem_map.mp this
    rw [← hxe]; exact h.quoteFree x hx
  refine ⟨?_, ?_⟩
  · intro d hd
    obtain ⟨y, hy, hdy⟩ := forall₂_mem_left hc hd
    obtain ⟨i, hi, hl⟩ := hleg y hy
    exact namedOK_of hdy hi hl (hqf y hy)
  · unfold Edif.Distinct
    have hnd : (assignAll l).Pairwise (fun a b => a.name ≠ b.name) := by
      have := h.names
      rw [← hnames, List.Nodup, List.pairwise_map] at this
      exact this
    have hboth : (assignAll l).Pairwise (fun a b => a.name ≠ b.name ∧ FormsDiffer2 a b) :=
      List.pairwise_and_iff.mpr ⟨hnd, hforms⟩
    have hfull : (assignAll l).Pairwise (fun a b => (a.name ≠ b.name ∧ FormsDiffer2 a b) ∧
        (∃ i, a.ident = some i) ∧ (∃ i', b.ident = some i')) := by
      apply List.Pairwise.imp_of_mem _ hboth
      intro a b ha hb hab
      obtain ⟨i, hi, _⟩ := hleg a ha
      obtain ⟨i', hi', _⟩ := hleg b hb
      exact ⟨hab, ⟨i, hi⟩, ⟨i', hi'⟩⟩
    refine pairwise_of_forall₂ hc hfull ?_
    intro a a' b b' hab hab' hq
    obtain ⟨⟨hne, hfd⟩, ⟨i, hi⟩, ⟨i', hi'⟩⟩ := hq
    refine ⟨by rw [hab.nmOf, hab'.nmOf]; exact hne, ?_⟩
    intro hlow
    rw [lower_eq, lower_eq, hab.idOf hi, hab'.idOf hi'] at hlow
    exact hfd.1 i i' hi hi' (lower i) (by simp [forms]) (by rw [hlow]; simp [forms])

/-! ### the per-wire clauses of a bus cable (`CableWF.bus_ok`) -/

theorem check_append {i t : Str} (hi : Spec.checkEdifIdentifier i = true) (ht : t.all okChar = true)
    (hlen : (i ++ t).length ≤ 255) : Spec.checkEdifIdentifier (i ++ t) = true := by
  have ht' : t.all Spec.idChar = true := by
    rw [List.all_eq_true] at ht ⊢; intro x hx; rw [idChar_eq]; exact ht x hx
  cases i with
  | nil => simp [Spec.checkEdifIdentifier] at hi
  | cons c r =>
    simp only [List.cons_append, List.length_cons, List.length_append] at hlen
    simp only [Spec.checkEdifIdentifier, List.cons_append] at hi ⊢
    by_cases hc : (c == '&') = true
    · rw [if_pos hc] at hi ⊢
      simp only [Bool.and_eq_true, decide_eq_true_eq, List.length_cons] at hi
      simp only [Bool.and_eq_true, decide_eq_true_eq, List.length_cons, List.length_append, List.all_append]
      exact ⟨⟨by omega, by omega⟩, hi.2, ht'⟩
    · rw [if_neg hc] at hi ⊢
      simp only [Bool.and_eq_true, decide_eq_true_eq, List.length_cons] at hi
      simp only [Bool.and_eq_true, decide_eq_true_eq, List.length_cons, List.length_append, List.all_append]
      exact ⟨⟨by omega, hi.1.2⟩, hi.2, ht'⟩

theorem bitSuffix_ok (k : Nat) : (bitSuffix k).all okChar = true := by
  simp only [bitSuffix, List.all_append, all_okChar_digits (digits_toDigits k).2]
  decide

/-- the per-wire identifier is legal as soon as it is short enough (its characters always are) -/
theorem bitIdent_legal {i : Str} (k : Nat) (hi : Spec.checkEdifIdentifier i = true)
    (hlen : i.length + (Edif.natStr k).length + 2 ≤ 255) :
    Edif.checkEdifIdentifier (Edif.bitIdent i k) = true := by
  rw [checkEdifIdentifier_eq, bitIdent_eq, Names.bitIdent_eq]
  apply check_append hi (bitSuffix_ok k)
  simp only [List.length_append, bitSuffix, List.length_cons, List.length_nil, Edif.natStr] at hlen ⊢
  omega

theorem isStringChar_digit {c : Char} (h : c.isDigit = true) : Edif.isStringChar c = true := by
  rw [isDigit_iff] at h
  simp only [Edif.isStringChar, Bool.and_eq_true, bne_iff_ne, ne_eq, char_eq_iff_toNat, Char.reduceToNat]
  omega

/-- the per-wire name `name[k]` is a string token whenever the name is -/
theorem bitName_quoteFree {name : Str} (k : Nat) (h : QuoteFree name) : QuoteFree (Edif.bitName name k) := by
  unfold QuoteFree at *
  have hd : (Edif.natStr k).all Edif.isStringChar = true := by
    rw [List.all_eq_true]
    intro c hc
    exact isStringChar_digit ((digits_toDigits k).2 c hc)
  have h1 : Edif.isStringChar '[' = true := by decide
  have h2 : Edif.isStringChar ']' = true := by decide
  simp only [Edif.bitName, List.all_append, List.all_cons, List.all_nil, h, hd, h1, h2, Bool.and_self]

end Spydr.Names.Bridge
