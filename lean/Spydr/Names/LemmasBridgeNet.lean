/-
  Spydr.Names.LemmasBridgeNet — the writer's naming pre-pass (`assignAll`, Model.lean) applied to every
  namespace scope of a value-level netlist of the EDIF engine (`Edif.CNetlist`): `passNet`.  Every scope
  of `passNet n` is `FromPrepass`, with the sibling list read off the netlist itself — no witness has
  to be supplied.
-/
import Spydr.Names.Props.C17Bridge

namespace Spydr.Names.Bridge
open Spydr Spydr.Names
open Spydr.Edif (CNetlist CLib CDef CPort CCable CInst Data)

def kRENAME : Str := Edif.S "EDIF.rename"

/-- the sibling `make_valid` sees for an element dictionary (`bits`: wire indices of a cable that is
    written wire by wire) -/
def sibOf (p : List Nat × Data) : Sib :=
  { name := Edif.nmOf p.2, ident := Edif.identOf p.2, rename := Edif.renameFlagOf p.2, bits := p.1 }

/-- what `_add_rename_property` stores into the dictionary -/
def store (d : Data) (y : Sib) : Data :=
  match y.ident with
  | none => d
  | some i =>
      let d1 := d.set Edif.kIDENT (.str i)
      if y.rename then d1.set kRENAME (.bool true) else d1

/-- the pre-pass over one scope, on dictionaries -/
def passList (ps : List (List Nat × Data)) : List Data :=
  List.zipWith store (ps.map (·.2)) (assignAll (ps.map sibOf))

theorem kNAME_ne_kIDENT : Edif.kNAME ≠ Edif.kIDENT := by decide
theorem kNAME_ne_kRENAME : Edif.kNAME ≠ kRENAME := by decide
theorem kIDENT_ne_kRENAME : Edif.kIDENT ≠ kRENAME := by decide

theorem carries_store {d : Data} {y : Sib} {i nm : Str} (hi : y.ident = some i)
    (hn : d.get? Edif.kNAME = some (.str nm)) (hy : y.name = nm) : Carries (store d y) y := by
  unfold store Carries
  rw [hi]
  simp only
  split
  · refine ⟨?_, ?_⟩
    · simp [Edif.identOf, Edif.Data.getStr?, Edif.Data.get?_set_other _ _ _ _ kIDENT_ne_kRENAME,
        Edif.Data.get?_set_self]
    · rw [Edif.Data.get?_set_other _ _ _ _ kNAME_ne_kRENAME, Edif.Data.get?_set_other _ _ _ _ kNAME_ne_kIDENT, hn, hy]
  · refine ⟨?_, ?_⟩
    · simp [Edif.identOf, Edif.Data.getStr?, Edif.Data.get?_set_self]
    · rw [Edif.Data.get?_set_other _ _ _ _ kNAME_ne_kIDENT, hn, hy]

theorem forall2_of_map_eq {α β γ : Type} {g : β → γ} {h : α → γ} :
    ∀ {xs : List α} {ys : List β}, ys.map g = xs.map h → Forall2 (fun x y => g y = h x) xs ys
  | [], [], _ => .nil
  | [], _ :: _, e => by simp at e
  | _ :: _, [], e => by simp at e
  | x :: xs, y :: ys, e => by
      simp only [List.map_cons, List.cons.injEq] at e
      exact .cons e.1 (forall2_of_map_eq e.2)

theorem forall2_zipWith {α β : Type} {Q R : α → β → Prop} {f : α → β → α} {P : β → Prop}
    {xs : List α} {ys : List β} (h : Forall2 Q xs ys) (hP : ∀ y ∈ ys, P y)
    (himp : ∀ x y, Q x y → P y → R (f x y) y) : Forall2 R (List.zipWith f xs ys) ys := by
  induction h with
  | nil => exact .nil
  | cons hq _ ih =>
    exact .cons (himp _ _ hq (hP _ (by simp))) (ih (fun y hy => hP y (by simp [hy])))

/-- hypotheses on one scope of the netlist as it is BEFORE the pre-pass: every element has a string
    name, and the sibling list read off the dictionaries is inside `ScopeHyp` -/
structure ScopeOK (ps : List (List Nat × Data)) : Prop where
  named : ∀ p ∈ ps, ∃ nm, p.2.get? Edif.kNAME = some (.str nm)
  hyp : ScopeHyp (ps.map sibOf)

theorem nmOf_of_get {d : Data} {nm : Str} (h : d.get? Edif.kNAME = some (.str nm)) : Edif.nmOf d = nm := by
  simp [Edif.nmOf, Edif.nameOf, Edif.Data.getStr?, h]

/-- **every scope the pre-pass has visited is `FromPrepass`** -/
theorem fromPrepass_passList {ps : List (List Nat × Data)} (h : ScopeOK ps) : FromPrepass (passList ps) := by
  refine ⟨ps.map sibOf, h.hyp, ?_⟩
  obtain ⟨hleg, hnames, _, _⟩ := after_pass h.hyp
  have hq : Forall2 (fun (d : Data) (y : Sib) => y.name = Edif.nmOf d ∧ ∃ nm, d.get? Edif.kNAME = some (.str nm))
      (ps.map (·.2)) (assignAll (ps.map sibOf)) := by
    have h1 : (assignAll (ps.map sibOf)).map (·.name) = (ps.map (·.2)).map Edif.nmOf := by
      rw [hnames]; simp [sibOf, Function.comp_def]
    have h2 := forall2_of_map_eq h1
    -- add the `named` facts position-wise
    have hnamed : ∀ d ∈ ps.map (·.2), ∃ nm, d.get? Edif.kNAME = some (.str nm) := by
      intro d hd
      obtain ⟨p, hp, rfl⟩ := List.mem_map.mp hd
      exact h.named p hp
    clear h1 hnames
    revert hnamed
    generalize ps.map (·.2) = ds at h2 ⊢
    generalize assignAll (ps.map sibOf) = ys at h2 ⊢
    intro hnamed
    induction h2 with
    | nil => exact .nil
    | cons hxy _ ih =>
      exact .cons ⟨hxy, hnamed _ (by simp)⟩ (ih (fun d hd => hnamed d (by simp [hd])))
  unfold passList
  refine forall2_zipWith (P := fun y => ∃ i, y.ident = some i) hq ?_ ?_
  · intro y hy
    obtain ⟨i, hi, _⟩ := hleg y hy
    exact ⟨i, hi⟩
  · rintro d y ⟨hname, nm, hnm⟩ ⟨i, hi⟩
    exact carries_store hi hnm (by rw [hname, nmOf_of_get hnm])

/-! ### the pass over a whole netlist -/

/-- run the scope pass over the elements `xs`, putting the new dictionaries back -/
def passOver {α : Type} (get : α → Data) (put : α → Data → α) (bits : α → List Nat) (xs : List α) : List α :=
  List.zipWith put xs (passList (xs.map fun x => (bits x, get x)))

theorem passList_length (ps : List (List Nat × Data)) : (passList ps).length = ps.length := by
  have : (assignAll (ps.map sibOf)).length = ps.length := by
    have := congrArg List.length (show (assignAll (ps.map sibOf)).map (·.name) = (ps.map sibOf).map (·.name) by
      simpa [assignAll] using assignGo_names (ps.map sibOf) [])
    simpa using this
  simp [passList, this]

theorem map_zipWith_put {α : Type} (get : α → Data) (put : α → Data → α) (hgp : ∀ x d, get (put x d) = d) :
    ∀ (xs : List α) (ds : List Data), ds.length = xs.length → (List.zipWith put xs ds).map get = ds
  | [], [], _ => rfl
  | [], _ :: _, e => by simp at e
  | _ :: _, [], e => by simp at e
  | x :: xs, d :: ds, e => by
      simp only [List.zipWith_cons_cons, List.map_cons, hgp, List.cons.injEq, true_and]
      exact map_zipWith_put get put hgp xs ds (by simpa using e)

theorem passOver_data {α : Type} (get : α → Data) (put : α → Data → α) (bits : α → List Nat)
    (hgp : ∀ x d, get (put x d) = d) (xs : List α) :
    (passOver get put bits xs).map get = passList (xs.map fun x => (bits x, get x)) :=
  map_zipWith_put get put hgp xs _ (by rw [passList_length]; simp)

theorem mem_zipWith_put {α β : Type} (put : α → β → α) :
    ∀ (xs : List α) (ds : List β) (z : α), z ∈ List.zipWith put xs ds → ∃ x ∈ xs, ∃ d, z = put x d
  | [], _, z, h => by simp at h
  | _ :: _, [], z, h => by simp at h
  | x :: xs, d :: ds, z, h => by
      simp only [List.zipWith_cons_cons, List.mem_cons] at h
      rcases h with rfl | h
      · exact ⟨x, by simp, d, rfl⟩
      · obtain ⟨x', hx', d', hz⟩ := mem_zipWith_put put xs ds z h
        exact ⟨x', by simp [hx'], d', hz⟩

/-- wire indices of a cable the writer emits wire by wire (`_output_name_of_cable_wire_`) -/
def cableBits (c : CCable) : List Nat :=
  if c.wires.length = 1 ∧ c.isArray = false then [] else (List.range c.wires.length).map (· + c.lower)

def passPorts (ps : List CPort) : List CPort := passOver (·.data) (fun p d => { p with data := d }) (fun _ => []) ps
def passInsts (is : List CInst) : List CInst := passOver (·.data) (fun i d => { i with data := d }) (fun _ => []) is
def passCables (cs : List CCable) : List CCable := passOver (·.data) (fun c d => { c with data := d }) cableBits cs

def passDef (d : CDef) : CDef :=
  { d with ports := passPorts d.ports, insts := passInsts d.insts, cables := passCables d.cables }

def passDefs (ds : List CDef) : List CDef :=
  (passOver (·.data) (fun d x => { d with data := x }) (fun _ => []) ds).map passDef

def passLib (l : CLib) : CLib := { l with defs := passDefs l.defs }

def passLibs (ls : List CLib) : List CLib :=
  (passOver (·.data) (fun l x => { l with data := x }) (fun _ => []) ls).map passLib

/-- a scope with a single element and no siblings (the netlist, the top instance) -/
def passOne (d : Data) : Data := (passList [([], d)]).headD d

def passTop (t : CInst) : CInst := { t with data := passOne t.data }

/-- `_edifify_netlist`'s naming phase on the value-level netlist -/
def passNet (n : CNetlist) : CNetlist :=
  { n with data := passOne n.data, top := n.top.map passTop, libs := passLibs n.libs }

/-- what C17 assumes of the names in the netlist before export -/
structure NameHyp (n : CNetlist) (t : CInst) : Prop where
  libs : ScopeOK (n.libs.map fun l => ([], l.data))
  defs : ∀ l ∈ n.libs, ScopeOK (l.defs.map fun d => ([], d.data))
  ports : ∀ l ∈ n.libs, ∀ d ∈ l.defs, ScopeOK (d.ports.map fun p => ([], p.data))
  insts : ∀ l ∈ n.libs, ∀ d ∈ l.defs, ScopeOK (d.insts.map fun i => ([], i.data))
  cables : ∀ l ∈ n.libs, ∀ d ∈ l.defs, ScopeOK (d.cables.map fun c => (cableBits c, c.data))
  design : ScopeOK [([], n.data)]
  top : ScopeOK [([], t.data)]

theorem passOne_singleton (d : Data) : [passOne d] = passList [([], d)] := by
  have hl := passList_length [([], d)]
  cases h : passList [([], d)] with
  | nil => rw [h] at hl; simp at hl
  | cons a r =>
    rw [h] at hl
    cases r with
    | nil => simp [passOne, h]
    | cons _ _ => simp at hl

theorem mem_passLibs {ls : List CLib} {l' : CLib} (h : l' ∈ passLibs ls) :
    ∃ l ∈ ls, l'.defs = passDefs l.defs := by
  obtain ⟨z, hz, rfl⟩ := List.mem_map.mp h
  obtain ⟨l, hl, d, rfl⟩ := mem_zipWith_put _ _ _ z hz
  exact ⟨l, hl, rfl⟩

theorem mem_passDefs {ds : List CDef} {d' : CDef} (h : d' ∈ passDefs ds) :
    ∃ d ∈ ds, d'.ports = passPorts d.ports ∧ d'.insts = passInsts d.insts ∧ d'.cables = passCables d.cables := by
  obtain ⟨z, hz, rfl⟩ := List.mem_map.mp h
  obtain ⟨d, hd, x, rfl⟩ := mem_zipWith_put _ _ _ z hz
  exact ⟨d, hd, rfl, rfl, rfl⟩

/-- **all scopes of `passNet n` come out of the pre-pass** -/
theorem names_of_passNet (n : CNetlist) (t : CInst) (h : NameHyp n t) : NamesFromPrepass (passNet n) (passTop t) := by
  refine ⟨?_, ?_, ?_, ?_, ?_, ?_, ?_⟩
  · show FromPrepass ((passLibs n.libs).map (·.data))
    have : (passLibs n.libs).map (·.data) = passList (n.libs.map fun l => ([], l.data)) := by
      unfold passLibs
      rw [List.map_map]
      have hf : ((·.data) ∘ passLib) = (·.data) := by funext x; rfl
      rw [hf]
      exact passOver_data (·.data) (fun (l : CLib) x => { l with data := x }) (fun _ => []) (fun _ _ => rfl) n.libs
    rw [this]; exact fromPrepass_passList h.libs
  · intro l' hl'
    obtain ⟨l, hl, he⟩ := mem_passLibs hl'
    have : l'.defs.map (·.data) = passList (l.defs.map fun d => ([], d.data)) := by
      rw [he]; unfold passDefs
      rw [List.map_map]
      have hf : ((·.data) ∘ passDef) = (·.data) := by funext x; rfl
      rw [hf]
      exact passOver_data (·.data) (fun (d : CDef) x => { d with data := x }) (fun _ => []) (fun _ _ => rfl) l.defs
    rw [this]; exact fromPrepass_passList (h.defs l hl)
  · intro l' hl' d' hd'
    obtain ⟨l, hl, he⟩ := mem_passLibs hl'
    rw [he] at hd'
    obtain ⟨d, hd, hp, _, _⟩ := mem_passDefs hd'
    rw [hp]
    have := passOver_data (·.data) (fun (p : CPort) x => { p with data := x }) (fun _ => []) (fun _ _ => rfl) d.ports
    unfold passPorts; rw [this]; exact fromPrepass_passList (h.ports l hl d hd)
  · intro l' hl' d' hd'
    obtain ⟨l, hl, he⟩ := mem_passLibs hl'
    rw [he] at hd'
    obtain ⟨d, hd, _, hi, _⟩ := mem_passDefs hd'
    rw [hi]
    have := passOver_data (·.data) (fun (i : CInst) x => { i with data := x }) (fun _ => []) (fun _ _ => rfl) d.insts
    unfold passInsts; rw [this]; exact fromPrepass_passList (h.insts l hl d hd)
  · intro l' hl' d' hd'
    obtain ⟨l, hl, he⟩ := mem_passLibs hl'
    rw [he] at hd'
    obtain ⟨d, hd, _, _, hc⟩ := mem_passDefs hd'
    rw [hc]
    have := passOver_data (·.data) (fun (c : CCable) x => { c with data := x }) cableBits (fun _ _ => rfl) d.cables
    unfold passCables; rw [this]; exact fromPrepass_passList (h.cables l hl d hd)
  · show FromPrepass [passOne n.data]
    rw [passOne_singleton]; exact fromPrepass_passList h.design
  · show FromPrepass [passOne t.data]
    rw [passOne_singleton]; exact fromPrepass_passList h.top

end Spydr.Names.Bridge
