/-
  Spydr.Names.LemmasKey — the candidate sequence of `_conflicts_fix`: its key advances by one or two
  modulo `10^248 + 1`, hence no candidate repeats within a window shorter than that; pigeonhole;
  termination within the fuel; freshness and legality of the result.
-/
import Spydr.Names.Lemmas

namespace Spydr.Names

/-! ### the candidate sequence of `_conflicts_fix` and its key -/

/-- a lower-case candidate: good shape, within the limit, no upper-case letter -/
def Cand (l : Str) : Prop := Good l ∧ NoUpper l

/-- one round of `_conflicts_fix` on a lower-case candidate -/
def step (l : Str) : Str := lower (lengthFix (bump l))

/-- `0` without suffix, `N + 1` with suffix `_sdn_N_` -/
def key (l : Str) : Nat :=
  match sdnDigits l with
  | none => 0
  | some ds => Nat.ofDigitChars 10 ds 0 + 1

/-- the largest key a candidate can have: 248 digits fit beside a one-character stem -/
def keyMax : Nat := 10 ^ 248

theorem step_eq {l : Str} (h : NoUpper l) : step l = lengthFix (bump l) :=
  lower_of_noUpper h.bump.lengthFix

theorem Cand.step {l : Str} (h : Cand l) : Cand (step l) := by
  rw [step_eq h.2]
  exact ⟨Good_lengthFix h.1.1.bump, h.2.bump.lengthFix⟩

theorem Cand.of_good {s : Str} (h : Good s) : Cand (lower s) := ⟨h.lower, noUpper_lower s⟩

theorem key_le {l : Str} (h : Cand l) : key l ≤ keyMax := by
  unfold key
  cases hs : sdnDigits l with
  | none => simp [keyMax]
  | some ds =>
    obtain ⟨hd, base, rfl⟩ := sdnDigits_some' hs
    have hb : 1 ≤ base.length := List.length_pos_iff.mpr (base_ne_nil_of_shape h.1.1)
    have hl := h.1.2
    simp only [List.length_append, suffixOf_length, limit] at hl
    have h1 := ofDigitChars_lt hd.2
    have h2 : 10 ^ ds.length ≤ 10 ^ 248 := Nat.pow_le_pow_right (by decide) (by omega)
    simp only [keyMax]
    omega

theorem key_suffix {base ds : Str} (hd : Digits ds) : key (base ++ suffixOf ds) = Nat.ofDigitChars 10 ds 0 + 1 := by
  unfold key; rw [sdnDigits_append' hd]

/-- `lengthFix` keeps a suffix that leaves room -/
theorem sdnDigits_lengthFix {base ds : Str} (hd : Digits ds) (hroom : ds.length + 6 < limit) :
    ∃ base', lengthFix (base ++ suffixOf ds) = base' ++ suffixOf ds := by
  by_cases hle : (base ++ suffixOf ds).length ≤ limit
  · exact ⟨base, lengthFix_of_le hle⟩
  · exact ⟨_, lengthFix_suffix hd (by omega) hroom⟩

theorem key_step {l : Str} (h : Cand l) :
    (key l = 0 ∧ key (step l) = 2) ∨
    (key (step l) = key l + 1) ∨
    (key l = keyMax ∧ key (step l) = 0) := by
  rw [step_eq h.2]
  cases hs : sdnDigits l with
  | none =>
    left
    refine ⟨by simp [key, hs], ?_⟩
    rw [bump_none hs]
    obtain ⟨b', hb'⟩ := sdnDigits_lengthFix (base := l) digits_one (by decide)
    rw [hb', key_suffix digits_one]
    rfl
  | some ds =>
    obtain ⟨hd, base, rfl⟩ := sdnDigits_some' hs
    right
    rw [bump_some hd, key_suffix hd]
    have hd' := digits_toDigits (Nat.ofDigitChars 10 ds 0 + 1)
    by_cases hroom : (Nat.toDigits 10 (Nat.ofDigitChars 10 ds 0 + 1)).length + 6 < limit
    · left
      obtain ⟨b', hb'⟩ := sdnDigits_lengthFix (base := base) hd' hroom
      rw [hb', key_suffix hd', Nat.ofDigitChars_ten_toDigits]
    · right
      have hkl := key_le h
      rw [key_suffix hd] at hkl
      -- the number needs at least 249 digits
      have hbig : ¬ (Nat.ofDigitChars 10 ds 0 + 1 < 10 ^ 248) := by
        intro hlt
        have := (Nat.length_toDigits_le_iff (b := 10) (k := 248) (by decide) (by decide)).mpr hlt
        simp only [limit] at hroom; omega
      refine ⟨by simp only [keyMax] at hkl ⊢; omega, ?_⟩
      -- and at most 249
      have hlen249 : (Nat.toDigits 10 (Nat.ofDigitChars 10 ds 0 + 1)).length ≤ 249 := by
        apply (Nat.length_toDigits_le_iff (b := 10) (k := 249) (by decide) (by decide)).mpr
        simp only [keyMax] at hkl
        have : (10:Nat) ^ 248 < 10 ^ 249 := Nat.pow_lt_pow_right (by decide) (by decide)
        omega
      generalize hD : Nat.toDigits 10 (Nat.ofDigitChars 10 ds 0 + 1) = D at *
      have hDlen : D.length = 249 := by simp only [limit] at hroom; omega
      have hb : 1 ≤ base.length := List.length_pos_iff.mpr (base_ne_nil_of_shape h.1.1)
      have hl := h.1.2
      simp only [List.length_append, suffixOf_length, limit] at hl
      have hdl : 1 ≤ ds.length := List.length_pos_iff.mpr hd.1
      -- lengthFix truncates plainly
      have hfix : lengthFix (base ++ suffixOf D) = (base ++ suffixOf D).take limit := by
        unfold lengthFix
        rw [if_neg (by simp only [List.length_append, suffixOf_length, limit]; omega),
          sdnDigits_append' hd']
        simp only
        rw [if_pos (by simp only [limit]; omega)]
      rw [hfix]
      -- the last character kept is a digit
      have hsplit : (base ++ suffixOf D).take limit = (base ++ sdnPre) ++ D.take (limit - (base.length + 5)) := by
        have : base ++ suffixOf D = (base ++ sdnPre) ++ (D ++ ['_']) := by simp [suffixOf]
        rw [this, List.take_append]
        have hl5 : (base ++ sdnPre).length = base.length + 5 := by simp [sdnPre]
        rw [hl5, List.take_of_length_le (by rw [hl5]; simp only [limit]; omega)]
        congr 1
        rw [List.take_append_of_le_length (by simp only [limit]; omega)]
      rw [hsplit]
      have hne : D.take (limit - (base.length + 5)) ≠ [] := by
        intro hnil
        have := congrArg List.length hnil
        simp only [List.length_take, limit, List.length_nil] at this
        omega
      obtain ⟨init, d, hid⟩ : ∃ init d, D.take (limit - (base.length + 5)) = init ++ [d] :=
        ⟨_, _, (List.dropLast_concat_getLast hne).symm⟩
      have hdd : d.isDigit = true := by
        apply hd'.2 d
        apply List.mem_of_mem_take (i := limit - (base.length + 5))
        rw [hid]; simp
      rw [hid, ← List.append_assoc]
      unfold key
      rw [sdnDigits_none_of_getLast (isDigit_ne_underscore d hdd)]

/-! ### no candidate repeats within a window -/

def iter : Nat → Str → Str
  | 0, l => l
  | i + 1, l => iter i (step l)

theorem iter_add (i j : Nat) (l : Str) : iter (i + j) l = iter j (iter i l) := by
  induction i generalizing l with
  | zero => simp [iter]
  | succ i ih => rw [Nat.succ_add]; simp only [iter]; exact ih (step l)

theorem Cand.iter {l : Str} (h : Cand l) (i : Nat) : Cand (iter i l) := by
  induction i generalizing l with
  | zero => exact h
  | succ i ih => exact ih h.step

theorem key_iter {l : Str} (h : Cand l) (i : Nat) :
    ∃ d, i ≤ d ∧ d ≤ 2 * i ∧ key (iter i l) % (keyMax + 1) = (key l + d) % (keyMax + 1) := by
  induction i generalizing l with
  | zero => exact ⟨0, by omega, by omega, by simp [iter]⟩
  | succ i ih =>
    obtain ⟨d, hd1, hd2, hk⟩ := ih h.step
    simp only [iter]
    have hle := key_le h
    simp only [keyMax] at hk hle ⊢
    rcases key_step h with ⟨h0, h2⟩ | h1 | ⟨hm, h0⟩
    · exact ⟨d + 2, by omega, by omega, by rw [hk, h2, h0]; congr 1; omega⟩
    · exact ⟨d + 1, by omega, by omega, by rw [hk, h1]; congr 1; omega⟩
    · refine ⟨d + 1, by omega, by omega, ?_⟩
      rw [hk, h0, hm]; simp only [keyMax]; omega

theorem iter_ne {l : Str} (h : Cand l) {i j : Nat} (hij : i < j) (hj : 2 * j < keyMax + 1) :
    iter i l ≠ iter j l := by
  intro heq
  obtain ⟨k, rfl⟩ : ∃ k, j = i + k := ⟨j - i, by omega⟩
  rw [iter_add] at heq
  obtain ⟨d, hd1, hd2, hk⟩ := key_iter (h.iter i) k
  rw [← heq] at hk
  simp only [keyMax] at hk hj
  omega

/-! ### the recursion of `conflictsFix` unrolled -/

/-- the lower-cased candidate examined at recursion depth `i` -/
def candAt (i : Nat) (ident : Str) : Str := iter i (lower ident)

theorem candAt_succ (i : Nat) (ident : Str) :
    candAt (i + 1) ident = candAt i (lengthFix (bump (lower ident))) := by
  simp [candAt, iter, step]

theorem conflictsFix_unfinished (bits : List Nat) (others : List Sib) (fuel : Nat) (ident : Str)
    (h : (conflictsFix bits others fuel ident).2 = false) :
    ∀ i, i ≤ fuel → conflictsGood bits (candAt i ident) others = false := by
  induction fuel generalizing ident with
  | zero =>
    intro i hi
    obtain rfl : i = 0 := by omega
    simpa [conflictsFix, candAt, iter] using h
  | succ fuel ih =>
    intro i hi
    simp only [conflictsFix] at h
    split at h
    · cases h
    · rename_i hbad
      cases i with
      | zero => simpa [candAt, iter] using hbad
      | succ i => rw [candAt_succ]; exact ih _ h i (by omega)

/-! ### written forms -/

/-- `_<index>_` -/
def bitSuffix (i : Nat) : Str := ['_'] ++ Nat.toDigits 10 i ++ ['_']

theorem bitIdent_eq (id : Str) (i : Nat) : bitIdent id i = id ++ bitSuffix i := by
  simp [bitIdent, bitSuffix]

/-- the identifier a per-wire form was made from -/
def unbit (i : Nat) (f : Str) : Str := f.take (f.length - (bitSuffix i).length)

theorem unbit_bitIdent (c : Str) (i : Nat) : unbit i (bitIdent c i) = c := by
  simp [unbit, bitIdent_eq]

theorem noUpper_bitSuffix (i : Nat) : NoUpper (bitSuffix i) := by
  unfold bitSuffix
  refine NoUpper.append (NoUpper.append ?_ (noUpper_of_digits (digits_toDigits i).2)) ?_ <;>
    (intro c hc; simp at hc; subst hc; decide)

theorem lower_append (s t : Str) : lower (s ++ t) = lower s ++ lower t := by simp [lower]

theorem lower_bitIdent (id : Str) (i : Nat) : lower (bitIdent id i) = bitIdent (lower id) i := by
  rw [bitIdent_eq, bitIdent_eq, lower_append, lower_of_noUpper (noUpper_bitSuffix i)]

theorem forms_lower (bits : List Nat) (id : Str) : forms bits (lower id) = (forms bits id).map lower := by
  simp [forms, lower_bitIdent, Function.comp_def]

theorem bitIdent_inj_index {id : Str} {i j : Nat} (h : bitIdent id i = bitIdent id j) : i = j := by
  rw [bitIdent_eq, bitIdent_eq] at h
  have h1 := List.append_cancel_left h
  simp only [bitSuffix, List.cons_append, List.nil_append, List.cons.injEq, true_and] at h1
  have h2 : Nat.toDigits 10 i = Nat.toDigits 10 j := List.append_cancel_right h1
  have := congrArg (fun d => Nat.ofDigitChars 10 d 0) h2
  simpa using this

/-- every candidate that could conflict: for each string of the siblings, the string itself and
    what it would be a per-wire form of -/
def conflictSet (bits : List Nat) (others : List Sib) : List Str :=
  (others.flatMap theirForms).flatMap fun f => f :: bits.map (fun i => unbit i f)

theorem conflictSet_length (bits : List Nat) (others : List Sib) :
    (conflictSet bits others).length + 1 = fuelFor bits others := by
  unfold conflictSet fuelFor
  generalize others.flatMap theirForms = F
  induction F with
  | nil => simp
  | cons f fs ih =>
    simp only [List.flatMap_cons, List.length_append, List.length_cons, List.length_map] at ih ⊢
    rw [Nat.add_mul]
    omega

theorem conflictsGood_iff (bits : List Nat) (c : Str) (others : List Sib) :
    conflictsGood bits c others = true ↔
      ∀ e ∈ others, ∀ m ∈ forms bits c, m ∉ theirForms e := by
  simp [conflictsGood, List.all_eq_true]

theorem mem_conflictSet_of_bad {bits : List Nat} {c : Str} {others : List Sib}
    (h : conflictsGood bits c others = false) : c ∈ conflictSet bits others := by
  have : ¬ (∀ e ∈ others, ∀ m ∈ forms bits c, m ∉ theirForms e) := by
    rw [← conflictsGood_iff, h]; simp
  simp only [Classical.not_forall, Decidable.not_not] at this
  obtain ⟨e, he, m, hm, hme⟩ := this
  simp only [conflictSet, List.mem_flatMap]
  refine ⟨m, ⟨e, he, hme⟩, ?_⟩
  simp only [forms, List.mem_cons, List.mem_map] at hm
  rcases hm with rfl | ⟨i, hi, rfl⟩
  · simp
  · simp only [List.mem_cons, List.mem_map]
    exact Or.inr ⟨i, hi, unbit_bitIdent c i⟩

/-- how large a scope the termination theorem allows: the fuel (number of strings a candidate can
    conflict with, plus one) must stay below this (any `B` with `2B ≤ 10^248` works) -/
def sibBound : Nat := 10 ^ 200

theorem conflictsFix_finished_aux (bits : List Nat) (others : List Sib) (fuel : Nat) (ident : Str)
    (hg : Good ident) (hfuel : fuelFor bits others ≤ fuel + 1) (hb : fuelFor bits others ≤ sibBound) :
    (conflictsFix bits others fuel ident).2 = true := by
  cases hfin : (conflictsFix bits others fuel ident).2 with
  | true => rfl
  | false =>
    exfalso
    have hbad := conflictsFix_unfinished bits others fuel ident hfin
    have hlen := conflictSet_length bits others
    let n := fuelFor bits others
    let cands := (List.range n).map fun i => candAt i ident
    have hc : Cand (lower ident) := Cand.of_good hg
    have hnodup : cands.Nodup := by
      simp only [cands, List.Nodup, List.pairwise_map]
      apply List.Pairwise.imp_of_mem _ List.pairwise_lt_range
      intro a b ha hb' hab
      rw [List.mem_range] at ha hb'
      apply iter_ne hc hab
      simp only [keyMax, sibBound, n] at hb hb' ⊢
      omega
    have hsub : cands ⊆ conflictSet bits others := by
      intro c hc'
      simp only [cands, List.mem_map, List.mem_range] at hc'
      obtain ⟨i, hi, rfl⟩ := hc'
      exact mem_conflictSet_of_bad (hbad i (by simp only [n] at hi; omega))
    have h1 := hnodup.length_le_of_subset hsub
    simp only [cands, List.length_map, List.length_range, n] at h1
    omega

/-! ### freshness and legality of the result -/

theorem conflictsFix_fresh (bits : List Nat) (others : List Sib) (fuel : Nat) (ident : Str)
    (h : (conflictsFix bits others fuel ident).2 = true) :
    conflictsGood bits (lower (conflictsFix bits others fuel ident).1) others = true := by
  induction fuel generalizing ident with
  | zero => simpa [conflictsFix] using h
  | succ fuel ih =>
    simp only [conflictsFix] at h ⊢
    split
    · rename_i hgood; exact hgood
    · rename_i hbad
      rw [if_neg hbad] at h
      exact ih _ h

theorem conflictsFix_good (bits : List Nat) (others : List Sib) (fuel : Nat) (ident : Str) (hg : Good ident) :
    Good (conflictsFix bits others fuel ident).1 := by
  induction fuel generalizing ident with
  | zero => simpa [conflictsFix] using hg
  | succ fuel ih =>
    simp only [conflictsFix]
    split
    · exact hg
    · exact ih _ (Good_lengthFix hg.lower.1.bump)

end Spydr.Names
