/-
  Spydr.Names.LemmasPass — `make_valid` as a whole, and the writer's pre-pass over a sibling list:
  an induction principle for `assignGo` and the invariants it keeps (pairwise freshness, pairwise
  distinct identifiers, per-element legality and rename flag), linked to `Spec.scopeOk`.
-/
import Spydr.Names.LemmasKey
import Spydr.Names.ModelObs

namespace Spydr.Names

/-! ### `make_valid` as a whole -/

theorem makeValid_good {name : Str} (others : List Sib) (h : name ≠ []) : Good (makeValid name others) := by
  unfold makeValid makeValidF
  exact conflictsFix_good _ _ _ (Good_charsFix (lengthFix_ne_nil h))

theorem makeValidF_finished {name : Str} (others : List Sib) (h : name ≠ [])
    (hb : others.length < sibBound) : (makeValidF name others).2 = true := by
  unfold makeValidF
  exact conflictsFix_finished_aux _ _ _ (Good_charsFix (lengthFix_ne_nil h)) (by simp [fuelFor]) hb

theorem makeValid_fresh_of_finished {name : Str} (others : List Sib)
    (hfin : (makeValidF name others).2 = true) :
    ∀ e ∈ others, lower e.name ≠ lower (makeValid name others) ∧
      ∀ i, e.ident = some i → lower i ≠ lower (makeValid name others) := by
  unfold makeValid makeValidF at *
  exact (conflictsGood_iff _ _).mp (conflictsFix_fresh _ _ _ hfin)

/-! ### the pre-pass -/

@[simp] theorem assignOne_name (x : Sib) (others : List Sib) : (assignOne x others).name = x.name := by
  unfold assignOne; split <;> rfl

theorem assignOne_of_some {x : Sib} {i : Str} (h : x.ident = some i) (others : List Sib) :
    assignOne x others = x := by
  unfold assignOne; rw [h]

theorem assignOne_of_none {x : Sib} (h : x.ident = none) (others : List Sib) :
    assignOne x others =
      { x with ident := some (makeValid x.name others),
               rename := x.rename || (makeValid x.name others != x.name), assigned := true } := by
  unfold assignOne; rw [h]

/-- side conditions carried through the pass: every element is named, the scope is not astronomically large -/
def PassOk (l : List Sib) : Prop := (∀ y ∈ l, y.name ≠ []) ∧ l.length ≤ sibBound

theorem assignGo_induct (I : List Sib → Prop)
    (hstep : ∀ done x rest, PassOk (done ++ x :: rest) → I (done ++ x :: rest) →
      I (done ++ assignOne x (done ++ rest) :: rest)) :
    ∀ todo done, PassOk (done ++ todo) → I (done ++ todo) → I (assignGo done todo) := by
  intro todo
  induction todo with
  | nil => intro done _ h; simpa [assignGo] using h
  | cons x rest ih =>
    intro done hok h
    simp only [assignGo]
    apply ih
    · refine ⟨?_, ?_⟩
      · intro y hy
        simp only [List.append_assoc, List.cons_append, List.nil_append, List.mem_append, List.mem_cons] at hy
        rcases hy with hy | rfl | hy
        · exact hok.1 y (by simp [hy])
        · rw [assignOne_name]; exact hok.1 x (by simp)
        · exact hok.1 y (by simp [hy])
      · have := hok.2; simp only [List.length_append, List.length_cons, List.length_nil] at this ⊢; omega
    · have := hstep done x rest hok h
      simpa using this

theorem pairwise_replace {Q : Sib → Sib → Prop} {done rest : List Sib} {x x' : Sib}
    (h : List.Pairwise Q (done ++ x :: rest))
    (h1 : ∀ a ∈ done, Q a x → Q a x') (h2 : ∀ b ∈ rest, Q x b → Q x' b) :
    List.Pairwise Q (done ++ x' :: rest) := by
  rw [List.pairwise_append, List.pairwise_cons] at h ⊢
  obtain ⟨hd, ⟨hx, hr⟩, hdr⟩ := h
  refine ⟨hd, ⟨fun b hb => h2 b hb (hx b hb), hr⟩, ?_⟩
  intro a ha b hb
  rcases List.mem_cons.mp hb with rfl | hb'
  · exact h1 a ha (hdr a ha x (by simp))
  · exact hdr a ha b (by simp [hb'])

/-- `a`'s identifier, if the writer assigned it, differs (ignoring case) from `b`'s name and identifier -/
def FreshAgainst (a b : Sib) : Prop :=
  a.assigned = true → ∀ i, a.ident = some i →
    lower i ≠ lower b.name ∧ ∀ j, b.ident = some j → lower i ≠ lower j

/-- identifiers of `a` and `b` differ ignoring case -/
def IdentsDiffer (a b : Sib) : Prop :=
  ∀ i j, a.ident = some i → b.ident = some j → lower i ≠ lower j

theorem assignOne_fresh {x : Sib} {others : List Sib} (hn : x.name ≠ [])
    (hb : others.length < sibBound) :
    ∀ e ∈ others, lower e.name ≠ lower (makeValid x.name others) ∧
      ∀ i, e.ident = some i → lower i ≠ lower (makeValid x.name others) :=
  makeValid_fresh_of_finished others (makeValidF_finished others hn hb)

theorem step_freshAgainst {done rest : List Sib} {x : Sib} (hok : PassOk (done ++ x :: rest)) :
    ∀ a ∈ done ++ rest,
      (FreshAgainst a x → FreshAgainst a (assignOne x (done ++ rest))) ∧
      (FreshAgainst x a → FreshAgainst (assignOne x (done ++ rest)) a) ∧
      (IdentsDiffer a x → IdentsDiffer a (assignOne x (done ++ rest))) ∧
      (IdentsDiffer x a → IdentsDiffer (assignOne x (done ++ rest)) a) := by
  intro a ha
  cases hx : x.ident with
  | some i =>
    rw [assignOne_of_some hx]
    exact ⟨id, id, id, id⟩
  | none =>
    have hlen : (done ++ rest).length < sibBound := by
      have := hok.2; simp only [List.length_append, List.length_cons] at this ⊢; omega
    have hfresh := assignOne_fresh (hok.1 x (by simp)) hlen a ha
    rw [assignOne_of_none hx]
    refine ⟨?_, ?_, ?_, ?_⟩
    · intro h ha' i hi
      obtain ⟨h1, _⟩ := h ha' i hi
      refine ⟨h1, ?_⟩
      intro j hj
      simp only [Option.some.injEq] at hj
      subst hj
      exact hfresh.2 i hi
    · intro _ _ i hi
      simp only [Option.some.injEq] at hi
      subst hi
      exact ⟨fun h => hfresh.1 h.symm, fun j hj h => hfresh.2 j hj h.symm⟩
    · intro _ i j hi hj
      simp only [Option.some.injEq] at hj
      subst hj
      exact hfresh.2 i hi
    · intro _ i j hi hj
      simp only [Option.some.injEq] at hi
      subst hi
      exact fun h => hfresh.2 j hj h.symm


/-- what holds between any two elements of a scope during and after the pass -/
def PairOk (a b : Sib) : Prop := FreshAgainst a b ∧ FreshAgainst b a

theorem assignGo_pairOk (todo done : List Sib) (hok : PassOk (done ++ todo))
    (h : List.Pairwise PairOk (done ++ todo)) : List.Pairwise PairOk (assignGo done todo) := by
  refine assignGo_induct (fun L => List.Pairwise PairOk L) ?_ todo done hok h
  intro done x rest hok h
  have hs := step_freshAgainst hok
  refine pairwise_replace h ?_ ?_
  · intro a ha hq
    have := hs a (by simp [ha])
    exact ⟨this.1 hq.1, this.2.1 hq.2⟩
  · intro b hb hq
    have := hs b (by simp [hb])
    exact ⟨this.2.1 hq.1, this.1 hq.2⟩

theorem assignGo_identsDiffer (todo done : List Sib) (hok : PassOk (done ++ todo))
    (h : List.Pairwise IdentsDiffer (done ++ todo)) : List.Pairwise IdentsDiffer (assignGo done todo) := by
  refine assignGo_induct (fun L => List.Pairwise IdentsDiffer L) ?_ todo done hok h
  intro done x rest hok h
  have hs := step_freshAgainst hok
  refine pairwise_replace h ?_ ?_
  · intro a ha hq; exact (hs a (by simp [ha])).2.2.1 hq
  · intro b hb hq; exact (hs b (by simp [hb])).2.2.2 hq

/-- what holds of every single element the writer named: the identifier is well-shaped and a
    changed name is flagged -/
def ElemOk (y : Sib) : Prop :=
  y.assigned = true → ∃ i, y.ident = some i ∧ Good i ∧ (i ≠ y.name → y.rename = true)

theorem assignOne_elemOk {x : Sib} (others : List Sib) (hn : x.name ≠ []) (h : ElemOk x) :
    ElemOk (assignOne x others) := by
  cases hx : x.ident with
  | some i => rw [assignOne_of_some hx]; exact h
  | none =>
    rw [assignOne_of_none hx]
    intro _
    refine ⟨_, rfl, makeValid_good others hn, ?_⟩
    intro hne
    simp only [Bool.or_eq_true, bne_iff_ne, ne_eq]
    exact Or.inr hne

theorem assignGo_elemOk (todo done : List Sib) (hok : PassOk (done ++ todo))
    (h : ∀ y ∈ done ++ todo, ElemOk y) : ∀ y ∈ assignGo done todo, ElemOk y := by
  refine assignGo_induct (fun L => ∀ y ∈ L, ElemOk y) ?_ todo done hok h
  intro done x rest hok h y hy
  simp only [List.mem_append, List.mem_cons] at hy
  rcases hy with hy | rfl | hy
  · exact h y (by simp [hy])
  · exact assignOne_elemOk _ (hok.1 x (by simp)) (h x (by simp))
  · exact h y (by simp [hy])

theorem assignGo_names (todo done : List Sib) :
    (assignGo done todo).map (·.name) = (done ++ todo).map (·.name) := by
  induction todo generalizing done with
  | nil => simp [assignGo]
  | cons x rest ih => simp only [assignGo]; rw [ih]; simp

theorem assignOne_ident_isSome (x : Sib) (others : List Sib) : (assignOne x others).ident.isSome = true := by
  cases hx : x.ident with
  | some i => rw [assignOne_of_some hx, hx]; rfl
  | none => rw [assignOne_of_none hx]; rfl

theorem assignGo_all_some (todo done : List Sib) (h : ∀ y ∈ done, y.ident.isSome = true) :
    ∀ y ∈ assignGo done todo, y.ident.isSome = true := by
  induction todo generalizing done with
  | nil => simpa [assignGo] using h
  | cons x rest ih =>
    simp only [assignGo]
    apply ih
    intro y hy
    simp only [List.mem_append, List.mem_cons, List.not_mem_nil, or_false] at hy
    rcases hy with hy | rfl
    · exact h y hy
    · exact assignOne_ident_isSome _ _

theorem assignOne_assigned_iff (x : Sib) (others : List Sib) (h : x.assigned = false) :
    (assignOne x others).assigned = true ↔ x.ident = none := by
  cases hx : x.ident with
  | some i => rw [assignOne_of_some hx, h]; simp
  | none => rw [assignOne_of_none hx]; simp

/-! ### link to the specification -/

theorem mem_splits {α : Type} {l p q : List α} {x : α} (h : (p, x, q) ∈ Spec.splits l) : l = p ++ x :: q := by
  induction l generalizing p with
  | nil => simp [Spec.splits] at h
  | cons a as ih =>
    simp only [Spec.splits, List.mem_cons, List.mem_map, Prod.mk.injEq] at h
    rcases h with ⟨rfl, rfl, rfl⟩ | ⟨⟨p', y, q'⟩, hm, rfl, rfl, rfl⟩
    · rfl
    · rw [ih hm]; rfl

theorem pairwise_split {Q : Sib → Sib → Prop} {p q : List Sib} {x : Sib}
    (h : List.Pairwise (fun a b => Q a b ∧ Q b a) (p ++ x :: q)) : ∀ z ∈ p ++ q, Q x z := by
  rw [List.pairwise_append, List.pairwise_cons] at h
  obtain ⟨_, ⟨hx, _⟩, hpx⟩ := h
  intro z hz
  rcases List.mem_append.mp hz with hz | hz
  · exact (hpx z hz x (by simp)).2
  · exact (hx z hz).1

theorem lower_eq_nil {s : Str} (h : lower s = []) : s = [] := by
  simpa [lower] using h

theorem scopeOk_of_invariants {L : List Sib}
    (hpair : List.Pairwise PairOk L) (helem : ∀ y ∈ L, ElemOk y) :
    Spec.scopeOk (observe L) = true := by
  unfold Spec.scopeOk
  rw [List.all_eq_true]
  rintro ⟨P, X, Qs⟩ hmem
  have hdec := mem_splits hmem
  simp only [observe] at hdec
  rw [List.map_eq_append_iff] at hdec
  obtain ⟨p, r, rfl, rfl, hr⟩ := hdec
  rw [List.map_eq_cons_iff] at hr
  obtain ⟨x, q, rfl, rfl, rfl⟩ := hr
  simp only [Bool.or_eq_true, Bool.not_eq_true']
  cases hass : (observeOne x).assigned with
  | false => left; rfl
  | true =>
    right
    have hxa : x.assigned = true := hass
    obtain ⟨i, hi, hgood, hren⟩ := helem x (by simp) hxa
    have hXi : (observeOne x).ident = i := by simp [observeOne, hi]
    have hfresh := pairwise_split (Q := FreshAgainst) hpair
    unfold Spec.elemOk
    simp only [Bool.and_eq_true]
    refine ⟨⟨?_, ?_⟩, ?_⟩
    · rw [hXi]; exact hgood.legal
    · rw [List.all_eq_true]
      intro Y hY
      rw [← List.map_append] at hY
      obtain ⟨z, hz, rfl⟩ := List.mem_map.mp hY
      obtain ⟨h1, h2⟩ := hfresh z hz hxa i hi
      simp only [Bool.and_eq_true, Bool.not_eq_true']
      rw [hXi]
      refine ⟨?_, ?_⟩
      · rw [Bool.eq_false_iff]; intro hc; exact h1 ((ciEq_iff _ _).mp hc)
      · rw [Bool.eq_false_iff]; intro hc
        have hc' := (ciEq_iff _ _).mp hc
        cases hz' : z.ident with
        | none =>
          simp only [observeOne, hz', Option.getD_none] at hc'
          have : i = [] := lower_eq_nil (by rw [hc']; rfl)
          exact hgood.1.ne_nil this
        | some j =>
          simp only [observeOne, hz', Option.getD_some] at hc'
          exact h2 j hz' hc'
    · rw [hXi]
      by_cases hne : i = x.name
      · simp [observeOne, hne]
      · have := hren hne
        simp [observeOne, this]

theorem identsDistinct_of_pairwise {L : List Sib} (hsome : ∀ y ∈ L, y.ident.isSome = true)
    (h : List.Pairwise IdentsDiffer L) : Spec.identsDistinct (observe L) = true := by
  induction L with
  | nil => rfl
  | cons x xs ih =>
    rw [List.pairwise_cons] at h
    simp only [observe, List.map_cons, Spec.identsDistinct, Bool.and_eq_true]
    refine ⟨?_, ih (fun y hy => hsome y (by simp [hy])) h.2⟩
    rw [List.all_eq_true]
    intro Y hY
    obtain ⟨z, hz, rfl⟩ := List.mem_map.mp hY
    obtain ⟨i, hi⟩ := Option.isSome_iff_exists.mp (hsome x (by simp))
    obtain ⟨j, hj⟩ := Option.isSome_iff_exists.mp (hsome z (by simp [hz]))
    simp only [Bool.not_eq_true']
    rw [Bool.eq_false_iff]; intro hc
    have hc' := (ciEq_iff _ _).mp hc
    simp only [observeOne, hi, hj, Option.getD_some] at hc'
    exact h.1 z hz i j hi hj hc'

end Spydr.Names
