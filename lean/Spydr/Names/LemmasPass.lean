/-
  Spydr.Names.LemmasPass — `make_valid` as a whole, and the writer's pre-pass over a sibling list:
  an induction principle for `assignGo` and the invariants it keeps (pairwise freshness of all written
  forms, per-element legality and rename flag), linked to `Spec.scopeOk` / `Spec.netIdents`.
-/
import Spydr.Names.LemmasKey
import Spydr.Names.ModelObs

namespace Spydr.Names

/-! ### `make_valid` as a whole -/

theorem makeValid_good {name : Str} (bits : List Nat) (others : List Sib) (h : name ≠ []) :
    Good (makeValid bits name others) := by
  unfold makeValid makeValidF
  exact conflictsFix_good _ _ _ _ (Good_charsFix (lengthFix_ne_nil h))

theorem makeValidF_finished {name : Str} (bits : List Nat) (others : List Sib) (h : name ≠ [])
    (hb : fuelFor bits others ≤ sibBound) : (makeValidF bits name others).2 = true := by
  unfold makeValidF
  exact conflictsFix_finished_aux _ _ _ _ (Good_charsFix (lengthFix_ne_nil h)) (by omega) hb

theorem makeValid_fresh_of_finished {name : Str} (bits : List Nat) (others : List Sib)
    (hfin : (makeValidF bits name others).2 = true) :
    ∀ e ∈ others, ∀ m ∈ (forms bits (makeValid bits name others)).map lower, m ∉ theirForms e := by
  unfold makeValid makeValidF at *
  have := (conflictsGood_iff _ _ _).mp (conflictsFix_fresh _ _ _ _ hfin)
  rw [forms_lower] at this
  exact this

/-! ### size of a scope -/

/-- upper bound for the number of strings one element contributes to a conflict check, in any state -/
def weight (e : Sib) : Nat := 2 + e.bits.length

def totalWeight (l : List Sib) : Nat := (l.map weight).sum

theorem theirForms_length_le (e : Sib) : (theirForms e).length ≤ weight e := by
  unfold theirForms weight forms
  cases e.ident <;> simp <;> omega

theorem flatMap_theirForms_length_le (l : List Sib) : (l.flatMap theirForms).length ≤ totalWeight l := by
  induction l with
  | nil => simp [totalWeight]
  | cons e es ih =>
    have := theirForms_length_le e
    simp only [List.flatMap_cons, List.length_append, totalWeight, List.map_cons, List.sum_cons] at ih ⊢
    omega

theorem totalWeight_append (a b : List Sib) : totalWeight (a ++ b) = totalWeight a + totalWeight b := by
  simp [totalWeight]

/-- the fuel of any `make_valid` call inside a scope of total weight `W` is at most `W²` -/
theorem fuelFor_le (done rest : List Sib) (x : Sib) :
    fuelFor x.bits (done ++ rest) ≤ totalWeight (done ++ x :: rest) * totalWeight (done ++ x :: rest) := by
  have h1 := flatMap_theirForms_length_le (done ++ rest)
  have hw : totalWeight (done ++ x :: rest) = totalWeight (done ++ rest) + weight x := by
    simp only [totalWeight, List.map_append, List.map_cons, List.sum_append, List.sum_cons]; omega
  rw [hw]
  unfold fuelFor
  generalize (List.flatMap theirForms (done ++ rest)).length = F at *
  generalize totalWeight (done ++ rest) = W at *
  have hx : 1 + x.bits.length ≤ weight x := by unfold weight; omega
  have hx2 : 2 ≤ weight x := by unfold weight; omega
  generalize weight x = w at *
  generalize 1 + x.bits.length = b at *
  calc F * b + 1 ≤ W * w + 1 := by have := Nat.mul_le_mul h1 hx; omega
    _ ≤ (W + w) * (W + w) := by
        rw [Nat.add_mul, Nat.mul_add, Nat.mul_add]
        have : 1 ≤ w * w := Nat.mul_pos (by omega) (by omega)
        omega

/-! ### the pre-pass -/

@[simp] theorem assignOne_name (x : Sib) (others : List Sib) : (assignOne x others).name = x.name := by
  unfold assignOne; split <;> rfl

@[simp] theorem assignOne_bits (x : Sib) (others : List Sib) : (assignOne x others).bits = x.bits := by
  unfold assignOne; split <;> rfl

theorem assignOne_of_some {x : Sib} {i : Str} (h : x.ident = some i) (others : List Sib) :
    assignOne x others = x := by
  unfold assignOne; rw [h]

theorem assignOne_of_none {x : Sib} (h : x.ident = none) (others : List Sib) :
    assignOne x others =
      { x with ident := some (makeValid x.bits x.name others),
               rename := x.rename || (makeValid x.bits x.name others != x.name), assigned := true } := by
  unfold assignOne; rw [h]

/-- how heavy a scope the pass theorems allow: `totalWeight² ≤ sibBound` -/
def weightBound : Nat := 10 ^ 100

/-- side conditions carried through the pass: every element is named, the scope is not astronomically large -/
def PassOk (l : List Sib) : Prop := (∀ y ∈ l, y.name ≠ []) ∧ totalWeight l ≤ weightBound

theorem PassOk.fuel {done rest : List Sib} {x : Sib} (h : PassOk (done ++ x :: rest)) :
    fuelFor x.bits (done ++ rest) ≤ sibBound := by
  refine Nat.le_trans (fuelFor_le done rest x) ?_
  have := Nat.mul_le_mul h.2 h.2
  refine Nat.le_trans this ?_
  simp [weightBound, sibBound]

theorem assignGo_induct (I : List Sib → Prop)
    (hstep : ∀ done x rest, PassOk (done ++ x :: rest) → I (done ++ x :: rest) →
      I (done ++ assignOne x (done ++ rest) :: rest)) :
    ∀ todo done, PassOk (done ++ todo) → I (done ++ todo) → I (assignGo done todo) := by
  intro todo
  induction todo with
  | nil => intro done _ h; simpa [assignGo] using h
  | cons x rest ih =>
    intro done hok h
    simp only [assignGo]
    apply ih
    · refine ⟨?_, ?_⟩
      · intro y hy
        simp only [List.append_assoc, List.cons_append, List.nil_append, List.mem_append, List.mem_cons] at hy
        rcases hy with hy | rfl | hy
        · exact hok.1 y (by simp [hy])
        · rw [assignOne_name]; exact hok.1 x (by simp)
        · exact hok.1 y (by simp [hy])
      · have := hok.2
        simp only [totalWeight, List.map_append, List.map_cons, List.sum_append, List.sum_cons, weight,
          assignOne_bits, List.map_nil, List.sum_nil] at this ⊢
        omega
    · have := hstep done x rest hok h
      simpa using this

theorem pairwise_replace {Q : Sib → Sib → Prop} {done rest : List Sib} {x x' : Sib}
    (h : List.Pairwise Q (done ++ x :: rest))
    (h1 : ∀ a ∈ done, Q a x → Q a x') (h2 : ∀ b ∈ rest, Q x b → Q x' b) :
    List.Pairwise Q (done ++ x' :: rest) := by
  rw [List.pairwise_append, List.pairwise_cons] at h ⊢
  obtain ⟨hd, ⟨hx, hr⟩, hdr⟩ := h
  refine ⟨hd, ⟨fun b hb => h2 b hb (hx b hb), hr⟩, ?_⟩
  intro a ha b hb
  rcases List.mem_cons.mp hb with rfl | hb'
  · exact h1 a ha (hdr a ha x (by simp))
  · exact hdr a ha b (by simp [hb'])

/-- every identifier written for `a`, if the writer assigned `a`'s identifier, differs (ignoring case)
    from `b`'s name and from every identifier written for `b` -/
def FreshAgainst (a b : Sib) : Prop :=
  a.assigned = true → ∀ i, a.ident = some i →
    ∀ m ∈ (forms a.bits i).map lower, m ∉ theirForms b

/-- the identifiers written for `a` and for `b` differ ignoring case -/
def FormsDiffer (a b : Sib) : Prop :=
  ∀ i j, a.ident = some i → b.ident = some j →
    ∀ m ∈ (forms a.bits i).map lower, m ∉ (forms b.bits j).map lower

theorem mem_theirForms_of_ident {a : Sib} {i m : Str} (hi : a.ident = some i)
    (hm : m ∈ (forms a.bits i).map lower) : m ∈ theirForms a := by
  unfold theirForms; rw [hi]; exact List.mem_cons_of_mem _ hm

theorem step_freshAgainst {done rest : List Sib} {x : Sib} (hok : PassOk (done ++ x :: rest)) :
    ∀ a ∈ done ++ rest,
      (FreshAgainst a x → FreshAgainst a (assignOne x (done ++ rest))) ∧
      (FreshAgainst x a → FreshAgainst (assignOne x (done ++ rest)) a) ∧
      (FormsDiffer a x → FormsDiffer a (assignOne x (done ++ rest))) ∧
      (FormsDiffer x a → FormsDiffer (assignOne x (done ++ rest)) a) := by
  intro a ha
  cases hx : x.ident with
  | some i =>
    rw [assignOne_of_some hx]
    exact ⟨id, id, id, id⟩
  | none =>
    have hfin := makeValidF_finished x.bits (done ++ rest) (hok.1 x (by simp)) hok.fuel
    have hfresh := makeValid_fresh_of_finished x.bits (done ++ rest) hfin a ha
    rw [assignOne_of_none hx]
    refine ⟨?_, ?_, ?_, ?_⟩
    · intro h ha' i hi m hm hmem
      have hold := h ha' i hi m hm
      simp only [theirForms, hx, List.mem_cons, List.not_mem_nil, or_false] at hold
      simp only [theirForms, List.mem_cons] at hmem
      rcases hmem with hmem | hmem
      · exact hold hmem
      · exact hfresh m hmem (mem_theirForms_of_ident hi hm)
    · intro _ _ i hi m hm
      simp only [Option.some.injEq] at hi
      subst hi
      exact hfresh m hm
    · intro _ i j hi hj m hm hmem
      simp only [Option.some.injEq] at hj
      subst hj
      exact hfresh m hmem (mem_theirForms_of_ident hi hm)
    · intro _ i j hi hj m hm hmem
      simp only [Option.some.injEq] at hi
      subst hi
      exact hfresh m hm (mem_theirForms_of_ident hj hmem)

/-- what holds between any two elements of a scope during and after the pass -/
def PairOk (a b : Sib) : Prop := FreshAgainst a b ∧ FreshAgainst b a

theorem assignGo_pairOk (todo done : List Sib) (hok : PassOk (done ++ todo))
    (h : List.Pairwise PairOk (done ++ todo)) : List.Pairwise PairOk (assignGo done todo) := by
  refine assignGo_induct (fun L => List.Pairwise PairOk L) ?_ todo done hok h
  intro done x rest hok h
  have hs := step_freshAgainst hok
  refine pairwise_replace h ?_ ?_
  · intro a ha hq
    have := hs a (by simp [ha])
    exact ⟨this.1 hq.1, this.2.1 hq.2⟩
  · intro b hb hq
    have := hs b (by simp [hb])
    exact ⟨this.2.1 hq.1, this.1 hq.2⟩

/-- both directions, so that the relation is symmetric under `pairwise_replace` -/
def FormsDiffer2 (a b : Sib) : Prop := FormsDiffer a b ∧ FormsDiffer b a

theorem assignGo_formsDiffer (todo done : List Sib) (hok : PassOk (done ++ todo))
    (h : List.Pairwise FormsDiffer2 (done ++ todo)) : List.Pairwise FormsDiffer2 (assignGo done todo) := by
  refine assignGo_induct (fun L => List.Pairwise FormsDiffer2 L) ?_ todo done hok h
  intro done x rest hok h
  have hs := step_freshAgainst hok
  refine pairwise_replace h ?_ ?_
  · intro a ha hq
    have := hs a (by simp [ha])
    exact ⟨this.2.2.1 hq.1, this.2.2.2 hq.2⟩
  · intro b hb hq
    have := hs b (by simp [hb])
    exact ⟨this.2.2.2 hq.1, this.2.2.1 hq.2⟩

/-- what holds of every single element the writer named: the identifier is well-shaped and a
    changed name is flagged -/
def ElemOk (y : Sib) : Prop :=
  y.assigned = true → ∃ i, y.ident = some i ∧ Good i ∧ (i ≠ y.name → y.rename = true)

theorem assignOne_elemOk {x : Sib} (others : List Sib) (hn : x.name ≠ []) (h : ElemOk x) :
    ElemOk (assignOne x others) := by
  cases hx : x.ident with
  | some i => rw [assignOne_of_some hx]; exact h
  | none =>
    rw [assignOne_of_none hx]
    intro _
    refine ⟨_, rfl, makeValid_good _ others hn, ?_⟩
    intro hne
    simp only [Bool.or_eq_true, bne_iff_ne, ne_eq]
    exact Or.inr hne

theorem assignGo_elemOk (todo done : List Sib) (hok : PassOk (done ++ todo))
    (h : ∀ y ∈ done ++ todo, ElemOk y) : ∀ y ∈ assignGo done todo, ElemOk y := by
  refine assignGo_induct (fun L => ∀ y ∈ L, ElemOk y) ?_ todo done hok h
  intro done x rest hok h y hy
  simp only [List.mem_append, List.mem_cons] at hy
  rcases hy with hy | rfl | hy
  · exact h y (by simp [hy])
  · exact assignOne_elemOk _ (hok.1 x (by simp)) (h x (by simp))
  · exact h y (by simp [hy])

theorem assignGo_names (todo done : List Sib) :
    (assignGo done todo).map (·.name) = (done ++ todo).map (·.name) := by
  induction todo generalizing done with
  | nil => simp [assignGo]
  | cons x rest ih => simp only [assignGo]; rw [ih]; simp

theorem assignGo_bits (todo done : List Sib) :
    (assignGo done todo).map (·.bits) = (done ++ todo).map (·.bits) := by
  induction todo generalizing done with
  | nil => simp [assignGo]
  | cons x rest ih => simp only [assignGo]; rw [ih]; simp

theorem assignOne_ident_isSome (x : Sib) (others : List Sib) : (assignOne x others).ident.isSome = true := by
  cases hx : x.ident with
  | some i => rw [assignOne_of_some hx, hx]; rfl
  | none => rw [assignOne_of_none hx]; rfl

theorem assignGo_all_some (todo done : List Sib) (h : ∀ y ∈ done, y.ident.isSome = true) :
    ∀ y ∈ assignGo done todo, y.ident.isSome = true := by
  induction todo generalizing done with
  | nil => simpa [assignGo] using h
  | cons x rest ih =>
    simp only [assignGo]
    apply ih
    intro y hy
    simp only [List.mem_append, List.mem_cons, List.not_mem_nil, or_false] at hy
    rcases hy with hy | rfl
    · exact h y hy
    · exact assignOne_ident_isSome _ _

/-! ### link to the specification -/

theorem mem_splits {α : Type} {l p q : List α} {x : α} (h : (p, x, q) ∈ Spec.splits l) : l = p ++ x :: q := by
  induction l generalizing p with
  | nil => simp [Spec.splits] at h
  | cons a as ih =>
    simp only [Spec.splits, List.mem_cons, List.mem_map, Prod.mk.injEq] at h
    rcases h with ⟨rfl, rfl, rfl⟩ | ⟨⟨p', y, q'⟩, hm, rfl, rfl, rfl⟩
    · rfl
    · rw [ih hm]; rfl

theorem pairwise_split {Q : Sib → Sib → Prop} {p q : List Sib} {x : Sib}
    (h : List.Pairwise (fun a b => Q a b ∧ Q b a) (p ++ x :: q)) : ∀ z ∈ p ++ q, Q x z := by
  rw [List.pairwise_append, List.pairwise_cons] at h
  obtain ⟨_, ⟨hx, _⟩, hpx⟩ := h
  intro z hz
  rcases List.mem_append.mp hz with hz | hz
  · exact (hpx z hz x (by simp)).2
  · exact (hx z hz).1

theorem wireIdent_eq (id : Str) (i : Nat) : Spec.wireIdent id i = bitIdent id i := by
  simp [Spec.wireIdent, bitIdent]

theorem emitted_observeOne (x : Sib) : Spec.emitted (observeOne x) = forms x.bits (x.ident.getD []) := by
  simp only [Spec.emitted, observeOne, forms]
  congr 1
  apply List.map_congr_left
  intro i _
  exact wireIdent_eq _ i

theorem scopeOk_of_invariants {L : List Sib} (hsome : ∀ y ∈ L, y.ident.isSome = true)
    (hpair : List.Pairwise PairOk L) (helem : ∀ y ∈ L, ElemOk y) :
    Spec.scopeOk (observe L) = true := by
  unfold Spec.scopeOk
  rw [List.all_eq_true]
  rintro ⟨P, X, Qs⟩ hmem
  have hdec := mem_splits hmem
  simp only [observe] at hdec
  rw [List.map_eq_append_iff] at hdec
  obtain ⟨p, r, rfl, rfl, hr⟩ := hdec
  rw [List.map_eq_cons_iff] at hr
  obtain ⟨x, q, rfl, rfl, rfl⟩ := hr
  simp only [Bool.or_eq_true, Bool.not_eq_true']
  cases hass : (observeOne x).assigned with
  | false => left; rfl
  | true =>
    right
    have hxa : x.assigned = true := hass
    obtain ⟨i, hi, hgood, hren⟩ := helem x (by simp) hxa
    have hXi : (observeOne x).ident = i := by simp [observeOne, hi]
    have hfresh := pairwise_split (Q := FreshAgainst) hpair
    unfold Spec.elemOk
    simp only [Bool.and_eq_true]
    refine ⟨⟨?_, ?_⟩, ?_⟩
    · rw [hXi]; exact hgood.legal
    · rw [List.all_eq_true]
      intro Y hY
      rw [← List.map_append] at hY
      obtain ⟨z, hz, rfl⟩ := List.mem_map.mp hY
      have hfz := hfresh z hz hxa i hi
      obtain ⟨j, hj⟩ := Option.isSome_iff_exists.mp (hsome z (by
        simp only [List.mem_append, List.mem_cons] at hz ⊢
        rcases hz with hz | hz
        · exact Or.inl hz
        · exact Or.inr (Or.inr hz)))
      rw [List.all_eq_true]
      intro m hm
      rw [emitted_observeOne, hi, Option.getD_some] at hm
      have hml : lower m ∈ (forms x.bits i).map lower := List.mem_map_of_mem hm
      have hnot := hfz (lower m) hml
      simp only [theirForms, hj, List.mem_cons, List.mem_map, not_or, not_exists, not_and] at hnot
      simp only [Bool.and_eq_true, Bool.not_eq_true']
      refine ⟨?_, ?_⟩
      · rw [Bool.eq_false_iff]; intro hc
        exact hnot.1 ((ciEq_iff _ _).mp hc)
      · rw [List.all_eq_true]
        intro m' hm'
        rw [emitted_observeOne, hj, Option.getD_some] at hm'
        simp only [Bool.not_eq_true']
        rw [Bool.eq_false_iff]; intro hc
        exact hnot.2 m' hm' ((ciEq_iff _ _).mp hc).symm
    · rw [hXi]
      by_cases hne : i = x.name
      · simp [observeOne, hne]
      · have := hren hne
        simp [observeOne, this]

theorem allDistinct_iff (l : List Str) :
    Spec.allDistinct l = true ↔ l.Pairwise (fun a b => lower a ≠ lower b) := by
  induction l with
  | nil => simp [Spec.allDistinct]
  | cons x xs ih =>
    simp only [Spec.allDistinct, Bool.and_eq_true, List.all_eq_true, Bool.not_eq_true', List.pairwise_cons, ih]
    constructor
    · rintro ⟨h1, h2⟩
      refine ⟨fun y hy hc => ?_, h2⟩
      have := h1 y hy
      rw [Bool.eq_false_iff] at this
      exact this ((ciEq_iff _ _).mpr hc)
    · rintro ⟨h1, h2⟩
      refine ⟨fun y hy => ?_, h2⟩
      rw [Bool.eq_false_iff]; intro hc
      exact h1 y hy ((ciEq_iff _ _).mp hc)

theorem identsDistinct_of_pairwise {L : List Sib} (hsome : ∀ y ∈ L, y.ident.isSome = true)
    (h : List.Pairwise FormsDiffer2 L) : Spec.identsDistinct (observe L) = true := by
  induction L with
  | nil => rfl
  | cons x xs ih =>
    rw [List.pairwise_cons] at h
    simp only [observe, List.map_cons, Spec.identsDistinct, Bool.and_eq_true]
    refine ⟨?_, ih (fun y hy => hsome y (by simp [hy])) h.2⟩
    rw [List.all_eq_true]
    intro Y hY
    obtain ⟨z, hz, rfl⟩ := List.mem_map.mp hY
    obtain ⟨i, hi⟩ := Option.isSome_iff_exists.mp (hsome x (by simp))
    obtain ⟨j, hj⟩ := Option.isSome_iff_exists.mp (hsome z (by simp [hz]))
    simp only [Bool.not_eq_true']
    rw [Bool.eq_false_iff]; intro hc
    have hc' := (ciEq_iff _ _).mp hc
    simp only [observeOne, hi, hj, Option.getD_some] at hc'
    refine (h.1 z hz).1 i j hi hj (lower i) ?_ ?_
    · simp [forms]
    · rw [hc']; simp [forms]

/-- the net identifiers of `Spec.netIdents` on the observation are the model's `emittedNetIdents` -/
theorem netIdents_observe {L : List Sib} (hsome : ∀ y ∈ L, y.ident.isSome = true) :
    Spec.netIdents (observe L) = emittedNetIdents L := by
  induction L with
  | nil => rfl
  | cons x xs ih =>
    obtain ⟨i, hi⟩ := Option.isSome_iff_exists.mp (hsome x (by simp))
    have := ih (fun y hy => hsome y (by simp [hy]))
    simp only [Spec.netIdents, observe, emittedNetIdents, List.map_cons, List.flatMap_cons] at this ⊢
    rw [this]
    congr 1
    simp only [observeOne, hi, Option.getD_some]
    split
    · rfl
    · apply List.map_congr_left; intro k _; exact wireIdent_eq _ k

theorem netIdents_distinct_of_pairwise {L : List Sib}
    (hbits : ∀ y ∈ L, y.bits.Nodup) (h : List.Pairwise FormsDiffer2 L) :
    Spec.allDistinct (emittedNetIdents L) = true := by
  rw [allDistinct_iff]
  unfold emittedNetIdents
  rw [List.pairwise_flatMap]
  refine ⟨?_, ?_⟩
  · intro a ha
    cases hi : a.ident with
    | none => simp
    | some i =>
      simp only
      split
      · simp
      · rw [List.pairwise_map]
        apply List.Pairwise.imp _ (hbits a ha)
        intro k k' hkk hc
        rw [lower_bitIdent, lower_bitIdent] at hc
        exact hkk (bitIdent_inj_index hc)
  · apply List.Pairwise.imp _ h
    intro a b hab m hm m' hm' hc
    cases hi : a.ident with
    | none => simp [hi] at hm
    | some i =>
      cases hj : b.ident with
      | none => simp [hj] at hm'
      | some j =>
        simp only [hi, hj] at hm hm'
        have hmf : m ∈ forms a.bits i := by
          split at hm
          · simp only [List.mem_cons, List.not_mem_nil, or_false] at hm; subst hm; simp [forms]
          · exact List.mem_cons_of_mem _ hm
        have hmf' : m' ∈ forms b.bits j := by
          split at hm'
          · simp only [List.mem_cons, List.not_mem_nil, or_false] at hm'; subst hm'; simp [forms]
          · exact List.mem_cons_of_mem _ hm'
        exact hab.1 i j hi hj (lower m) (List.mem_map_of_mem hmf) (by rw [hc]; exact List.mem_map_of_mem hmf')

/-! ### reading a written name back -/

theorem Good.no_blank {i : Str} (h : Good i) : ∀ c ∈ i, (c != ' ') = true := by
  obtain ⟨hs, _⟩ := h
  cases i with
  | nil => exact hs.elim
  | cons c r =>
    intro d hd
    rcases List.mem_cons.mp hd with rfl | hd
    · rcases hs.1 with h1 | ⟨h1, _⟩
      · rw [bne_iff_ne]; rintro rfl; revert h1; decide
      · subst h1; decide
    · have := hs.2
      rw [List.all_eq_true] at this
      have hk := this d hd
      rw [bne_iff_ne]; rintro rfl; revert hk; decide

theorem takeWhile_append_stop {p : Char → Bool} {l r : Str} {c : Char}
    (hl : ∀ a ∈ l, p a = true) (hc : p c = false) :
    (l ++ c :: r).takeWhile p = l ∧ (l ++ c :: r).dropWhile p = c :: r := by
  rw [List.takeWhile_append_of_pos hl, List.dropWhile_append_of_pos hl]
  simp [hc]

theorem readName_rename {i n : Str} (hi : Good i) (hn : ∀ c ∈ n, (c != '"') = true) :
    readName (true, ['r', 'e', 'n', 'a', 'm', 'e', ' '] ++ i ++ [' ', '"'] ++ n ++ ['"']) = some (i, n) := by
  have h1 : List.drop 7 (['r', 'e', 'n', 'a', 'm', 'e', ' '] ++ i ++ [' ', '"'] ++ n ++ ['"'])
      = i ++ ' ' :: ('"' :: (n ++ ['"'])) := by simp
  obtain ⟨ht, hd⟩ := takeWhile_append_stop (p := (· != ' ')) (l := i) (r := '"' :: (n ++ ['"'])) (c := ' ')
    hi.no_blank (by decide)
  obtain ⟨ht2, hd2⟩ := takeWhile_append_stop (p := (· != '"')) (l := n) (r := []) (c := '"') hn (by decide)
  simp only [readName, Bool.not_true, Bool.false_eq_true, if_false, h1, ht, hd, ht2, hd2]
  simp

end Spydr.Names
