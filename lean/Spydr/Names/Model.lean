/-
  Spydr.Names.Model — executable, total model of

    spydrnet/composers/edif/edifify_names.py   (EdififyNames.make_valid and its helpers)
    spydrnet/composers/edif/composer.py        (_add_rename_property and the pre-pass of
                                                _edifify_netlist over one sibling list)

  AS REPAIRED by docs/fixes/names_*.diff (limit 255 with `<=`; `_` instead of `-` in
  `_characters_good`; case-folded comparison in `_conflicts_good`; `_length_fix` keeps a trailing
  `_sdn_N_` only when it leaves room for at least one leading character).  The rules of the pinned,
  unrepaired commit are in `ModelOld.lean`.

  Strings are `List Char`; the model is meant for printable ASCII (0x20..0x7e), where
  `str.isalpha/isalnum/lower` agree with `Char.isAlpha/isAlphanum/toLower`.
  No Mathlib (the driver links this file).
-/
namespace Spydr.Names

abbrev Str := List Char

/-- `EdififyNames.name_length_target` (repaired: 255, compared with `<=`). -/
def limit : Nat := 255

/-- replacement of one character in `_characters_fix`. -/
def sub (c : Char) : Char := if c.isAlphanum then c else '_'

/-- `str.lower()` on ASCII. -/
def lower (s : Str) : Str := s.map Char.toLower

def sdnPre : Str := ['_', 's', 'd', 'n', '_']
def sdnPreRev : Str := ['_', 'n', 'd', 's', '_']

/-- The digits `N` of a trailing `_sdn_N_` — what `re.compile("_sdn_[0-9]+_$").search` finds
    (the match, if any, is unique: the last character is `_`, before it the maximal digit run,
    before that `_sdn_`). -/
def sdnDigits (s : Str) : Option Str :=
  match s.reverse with
  | '_' :: r =>
      let ds := r.takeWhile Char.isDigit
      if ds ≠ [] ∧ sdnPreRev.isPrefixOf (r.dropWhile Char.isDigit) = true then some ds.reverse else none
  | _ => none

/-- `_length_fix` (with `_length_good` inlined). `k` is `r.end() - r.start()`. -/
def lengthFix (s : Str) : Str :=
  if s.length ≤ limit then s
  else match sdnDigits s with
    | none => s.take limit
    | some ds =>
        let k := ds.length + 6
        if limit ≤ k then s.take limit
        else s.take (limit - k) ++ s.drop (s.length - k)

/-- `_characters_good` (repaired: letters, digits and `_`; first character a letter). -/
def charsGood (s : Str) : Bool :=
  match s with
  | [] => false
  | c :: _ => c.isAlpha && s.all (fun x => x.isAlphanum || x == '_')

/-- `_characters_fix`. On the empty string Python raises `IndexError`; the model returns `[]`
    (names are non-empty, hypothesis of every theorem). -/
def charsFix (s : Str) : Str :=
  lengthFix
    (if charsGood s then s
     else match s with
       | [] => []
       | c :: r => if c.isAlpha then (c :: r).map sub else '&' :: (c :: r).map sub)

/-- One sibling as `make_valid` sees it: `.name`, `data.get("EDIF.identifier")`, `EDIF.rename`.
    `bits`: for a cable that the writer emits wire by wire (`len(wires) > 1 or is_array`) the wire
    indices `lower_index .. lower_index + len(wires) - 1`; `[]` for everything else (written under
    its own identifier).  `assigned` is model book-keeping: the identifier was given by this pre-pass. -/
structure Sib where
  name : Str
  ident : Option Str := none
  rename : Bool := false
  assigned : Bool := false
  bits : List Nat := []
  deriving Repr, DecidableEq

/-- `cable["EDIF.identifier"] + "_" + str(index) + "_"` (`_output_name_of_cable_wire_`) -/
def bitIdent (id : Str) (i : Nat) : Str := id ++ ['_'] ++ Nat.toDigits 10 i ++ ['_']

/-- `_written_forms(element, identifier)`: every identifier the writer emits for the element -/
def forms (bits : List Nat) (id : Str) : List Str := id :: bits.map (bitIdent id)

/-- the lower-cased strings a candidate is compared with for one sibling (`theirs`) -/
def theirForms (e : Sib) : List Str :=
  lower e.name ::
    (match e.ident with
     | none => []
     | some i => (forms e.bits i).map lower)

/-- `_conflicts_good(obj, cand, objects)` where `others` = `objects` without `obj` and `bits` are
    `obj`'s wire indices: no form of the candidate equals any form of any sibling. -/
def conflictsGood (bits : List Nat) (cand : Str) (others : List Sib) : Bool :=
  others.all fun e => (forms bits cand).all fun m => !(theirForms e).contains m

/-- the new candidate built inside `_conflicts_fix` (before `_length_fix`). -/
def bump (c : Str) : Str :=
  match sdnDigits c with
  | none => c ++ sdnPre ++ ['1', '_']
  | some ds =>
      c.take (c.length - (ds.length + 1)) ++ Nat.toDigits 10 (Nat.ofDigitChars 10 ds 0 + 1) ++ ['_']

/-- `_conflicts_fix`: the Python loop, with fuel.  Second component: the loop ended because a
    conflict-free candidate was found (`finished`). -/
def conflictsFix (bits : List Nat) (others : List Sib) : Nat → Str → Str × Bool
  | 0, ident => (ident, conflictsGood bits (lower ident) others)
  | fuel + 1, ident =>
      let l := lower ident
      if conflictsGood bits l others then (ident, true)
      else conflictsFix bits others fuel (lengthFix (bump l))

/-- fuel that is always enough (theorem `conflictsFix_finished`): every string of `theirForms` can
    be hit by at most `1 + |bits|` different candidates. -/
def fuelFor (bits : List Nat) (others : List Sib) : Nat :=
  (others.flatMap theirForms).length * (1 + bits.length) + 1

/-- `make_valid(obj, objects)`; `name = obj.name`, `bits` = `obj`'s wire indices, `others` = the other
    elements of `objects`. -/
def makeValidF (bits : List Nat) (name : Str) (others : List Sib) : Str × Bool :=
  conflictsFix bits others (fuelFor bits others) (charsFix (lengthFix name))

def makeValid (bits : List Nat) (name : Str) (others : List Sib) : Str := (makeValidF bits name others).1

/-- `_add_rename_property(obj, namespace_list, names)` for a named object. -/
def assignOne (x : Sib) (others : List Sib) : Sib :=
  match x.ident with
  | some _ => x
  | none =>
      let id := makeValid x.bits x.name others
      { x with ident := some id, rename := x.rename || (id != x.name), assigned := true }

/-- the loop `for x in namespace_list: _add_rename_property(x, namespace_list, names)`:
    `done` already visited (in order), `x :: rest` still to visit. -/
def assignGo : List Sib → List Sib → List Sib
  | done, [] => done
  | done, x :: rest => assignGo (done ++ [assignOne x (done ++ rest)]) rest

def assignAll (l : List Sib) : List Sib := assignGo [] l

/-- the net identifiers the writer emits for the cables of one definition (`_output_cable_`):
    the cable's identifier, or one `bitIdent` per wire. -/
def emittedNetIdents (l : List Sib) : List Str :=
  l.flatMap fun s =>
    match s.ident with
    | none => []
    | some i => if s.bits.isEmpty then [i] else s.bits.map (bitIdent i)

/-- what the reader makes of a name written by `nameString` (`parse_nameDef` / `parse_rename`:
    identifier up to the blank, then the string token between the next two `"`):
    `(EDIF.identifier, name)`. -/
def readName (t : Bool × Str) : Option (Str × Str) :=
  if !t.1 then some (t.2, t.2)
  else
    let rest := t.2.drop 7
    let id := rest.takeWhile (· != ' ')
    match rest.dropWhile (· != ' ') with
    | ' ' :: '"' :: q =>
        let nm := q.takeWhile (· != '"')
        if q.dropWhile (· != '"') == ['"'] then some (id, nm) else none
    | _ => none

/-- `ComposeEdif._get_name_string_(obj)` for a named object that has an identifier: `(rename?, text)`;
    the text is the identifier itself, or `rename <identifier> "<original name>"`. -/
def nameString (x : Sib) : Option (Bool × Str) :=
  match x.ident with
  | none => none
  | some i =>
      if x.name == i && !x.rename then some (false, i)
      else some (true, ['r', 'e', 'n', 'a', 'm', 'e', ' '] ++ i ++ [' ', '"'] ++ x.name ++ ['"'])

/-- all fuel-bounded recursions of the pre-pass ended by themselves (reported by the driver). -/
def assignGoFinished : List Sib → List Sib → Bool
  | _, [] => true
  | done, x :: rest =>
      (match x.ident with
       | some _ => true
       | none => (makeValidF x.bits x.name (done ++ rest)).2) &&
      assignGoFinished (done ++ [assignOne x (done ++ rest)]) rest

end Spydr.Names
