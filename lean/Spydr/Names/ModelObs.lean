/-
  Spydr.Names.ModelObs — the observation of a sibling list that the specification (Spec.lean) looks
  at.  Shared by the driver and by the theorems, so that `Spec.scopeOk` is evaluated by the driver on
  exactly the value the theorem `assign_all_scopeOk` is about.
-/
import Spydr.Names.Model
import Spydr.Names.Spec

namespace Spydr.Names

def observeOne (s : Sib) : Spec.Obs :=
  { name := s.name, ident := s.ident.getD [], rename := s.rename, assigned := s.assigned,
    bits := s.bits }

def observe (l : List Sib) : List Spec.Obs := l.map observeOne

end Spydr.Names
