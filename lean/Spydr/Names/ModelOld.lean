/-
  Spydr.Names.ModelOld — the same algorithm with the rules of the pinned (unrepaired) commit
  selectable one by one.  Used (a) for the `decide`-checked counterexamples in Props/C17.lean that
  document each open finding formally, (b) by the driver, so the harness can attribute a
  divergence between the implementation and the repaired model to exactly one known defect.
  `Rules.repaired` gives back the functions of Model.lean (checked at run time by the driver on
  every request; the theorems are about Model.lean only).
-/
import Spydr.Names.Model

namespace Spydr.Names.Old
open Spydr.Names

structure Rules where
  /-- true: `name_length_target = 255`, `_length_good = len <= target`;
      false (pinned): `256`, `len < target` (a 256-character result is returned). -/
  len255 : Bool
  /-- true: `_characters_good` accepts `_`; false (pinned): accepts `-` (and not `_`). -/
  underscore : Bool
  /-- true: `_conflicts_good` compares case-folded names/identifiers; false (pinned): exact. -/
  foldCase : Bool
  /-- true: `_length_fix` ignores a `_sdn_N_` suffix that leaves no room;
      false (pinned): python slice `identifier[: target - k]` with a possibly zero/negative bound. -/
  room : Bool
  /-- true: `_conflicts_good` compares all written forms (per-wire identifiers of bus cables too);
      false (before names_8): only the candidate itself against each sibling's name and identifier. -/
  bitForms : Bool
  deriving Repr, DecidableEq

def Rules.repaired : Rules := ⟨true, true, true, true, true⟩
def Rules.pinned : Rules := ⟨false, false, false, false, false⟩

def target (R : Rules) : Nat := if R.len255 then 255 else 256

def lengthGood (R : Rules) (s : Str) : Bool :=
  if R.len255 then decide (s.length ≤ 255) else decide (s.length < 256)

/-- python `s[:i]` for an integer `i` -/
def pySliceTo (s : Str) (i : Int) : Str :=
  if 0 ≤ i then s.take i.toNat else s.take (s.length - (-i).toNat)

def lengthFix (R : Rules) (s : Str) : Str :=
  if lengthGood R s then s
  else match sdnDigits s with
    | none => s.take (target R)
    | some ds =>
        let k := ds.length + 6
        if R.room && decide (target R ≤ k) then s.take (target R)
        else pySliceTo s ((target R : Int) - (k : Int)) ++ s.drop (s.length - k)

def charsGood (R : Rules) (s : Str) : Bool :=
  match s with
  | [] => false
  | c :: _ => c.isAlpha && s.all (fun x => x.isAlphanum || x == (if R.underscore then '_' else '-'))

def charsFix (R : Rules) (s : Str) : Str :=
  lengthFix R
    (if charsGood R s then s
     else match s with
       | [] => []
       | c :: r => if c.isAlpha then (c :: r).map sub else '&' :: (c :: r).map sub)

def conflictsGood (R : Rules) (bits : List Nat) (cand : Str) (others : List Sib) : Bool :=
  if R.bitForms then
    others.all fun e =>
      (forms bits cand).all fun m =>
        !((if R.foldCase then lower e.name else e.name) :: (match e.ident with
            | none => []
            | some i => (forms e.bits i).map (fun f => if R.foldCase then lower f else f))).contains m
  else
    others.all fun e =>
      !((if R.foldCase then lower e.name else e.name) == cand) &&
      (match e.ident with
       | none => true
       | some i => !((if R.foldCase then lower i else i) == cand))

def conflictsFix (R : Rules) (bits : List Nat) (others : List Sib) : Nat → Str → Str × Bool
  | 0, ident => (ident, conflictsGood R bits (lower ident) others)
  | fuel + 1, ident =>
      let l := lower ident
      if conflictsGood R bits l others then (ident, true)
      else conflictsFix R bits others fuel (lengthFix R (bump l))

def makeValidF (R : Rules) (bits : List Nat) (name : Str) (others : List Sib) : Str × Bool :=
  conflictsFix R bits others (fuelFor bits others) (charsFix R (lengthFix R name))

def makeValid (R : Rules) (bits : List Nat) (name : Str) (others : List Sib) : Str :=
  (makeValidF R bits name others).1

def assignOne (R : Rules) (x : Sib) (others : List Sib) : Sib :=
  match x.ident with
  | some _ => x
  | none =>
      let id := makeValid R x.bits x.name others
      { x with ident := some id, rename := x.rename || (id != x.name), assigned := true }

def assignGo (R : Rules) : List Sib → List Sib → List Sib
  | done, [] => done
  | done, x :: rest => assignGo R (done ++ [assignOne R x (done ++ rest)]) rest

def assignAll (R : Rules) (l : List Sib) : List Sib := assignGo R [] l

end Spydr.Names.Old
