/-
  Spydr.Names.ModelReach — executable (Bool) transcriptions of the DECIDABLE hypotheses of the headline
  theorems of Props/C17.lean and Props/C17Export.lean, evaluated by the driver on every generated scope
  so that the evidence shows how much of the generated input space lies inside each theorem's
  hypotheses (`theorem_fragment:<theorem>:in` / `:out:<first failing hypothesis>`).  Reporting only:
  no verdict depends on these values.  No Mathlib.
-/
import Spydr.Names.LemmasPass
import Spydr.Edif.ModelWrite

namespace Spydr.Names.Reach
open Spydr Spydr.Names

/-- `"in"`, or the label of the first hypothesis that is false -/
def firstFail (checks : List (String × Bool)) : String :=
  match checks.find? (fun c => !c.2) with
  | none => "in"
  | some c => c.1

/-- `∀ x ∈ l, x.name ≠ []` -/
def namedB (l : List Sib) : Bool := l.all fun x => !x.name.isEmpty

/-- `fuelFor x.bits (others of x) ≤ sibBound` for every element (hypothesis `hb` of the per-call theorems) -/
def fuelOkB (l : List Sib) : Bool :=
  (List.range l.length).all fun k =>
    match l[k]? with
    | none => true
    | some x => decide (fuelFor x.bits (l.eraseIdx k) ≤ sibBound)

/-- `totalWeight l ≤ weightBound` -/
def weightOkB (l : List Sib) : Bool := decide (totalWeight l ≤ weightBound)

/-- the lower-cased written forms of an element that has an identifier -/
def lowForms (x : Sib) : List Str :=
  match x.ident with
  | none => []
  | some i => (forms x.bits i).map lower

/-- `PreDistinct l`: what is written for two different elements that already have identifiers differs -/
def preDistinctB : List Sib → Bool
  | [] => true
  | x :: xs => xs.all (fun y => (lowForms x).all fun m => !(lowForms y).contains m) && preDistinctB xs

/-- `ScopeHyp.preLegal` -/
def preLegalB (l : List Sib) : Bool :=
  l.all fun x => match x.ident with
    | none => true
    | some i => Spec.checkEdifIdentifier i

def bitsNodupB (l : List Sib) : Bool := l.all fun x => decide x.bits.Nodup

def namesNodupB (l : List Sib) : Bool := decide (l.map (·.name)).Nodup

def quoteFreeB (l : List Sib) : Bool := l.all fun x => x.name.all Edif.isStringChar

/-- `AvoidsPinnedClasses.scalarPlain` on the cables of one cell (`bits = []` = written under its own name) -/
def scalarPlainB (l : List Sib) : Bool :=
  l.all fun x => !x.bits.isEmpty || (Edif.sepName x.name).1.isNone

/-- `AvoidsPinnedClasses.busBracket` -/
def busBracketB (l : List Sib) : Bool :=
  l.all fun x => x.bits.all fun k => Edif.bracketAllowed (Edif.bitName x.name k)

/-- `AvoidsPinnedClasses.busLength`, on the identifiers AFTER the pre-pass -/
def busLengthB (out : List Sib) : Bool :=
  out.all fun x => x.bits.all fun k =>
    decide ((x.ident.getD []).length + (Edif.natStr k).length + 2 ≤ 255)

/-- for one scope `l` (as given to the pre-pass) and its outcome `out`: theorem ↦ "in" / first failing
    hypothesis.  `cables`: the scope is the cable list of a cell (the pinned-class clauses apply). -/
def fragments (cables : Bool) (l out : List Sib) : List (String × String) :=
  let hn := ("hn:empty-name", namedB l)
  let hbW := ("hb:totalWeight>weightBound", weightOkB l)
  let hpre := ("hpre:pre-existing-written-forms-collide", preDistinctB l)
  [ ("makeValid_legal", firstFail [hn]),
    ("makeValid_fresh_bounded", firstFail [hn, ("hb:fuelFor>sibBound", fuelOkB l)]),
    ("assign_all_scopeOk", firstFail [hn, hbW, ("hfl:assigned-flag-set", l.all fun x => !x.assigned)]),
    ("assign_all_distinct", firstFail [hn, hbW, hpre]),
    ("assign_all_netIdents_distinct", firstFail [hn, hbW, ("hbits:wire-indices-repeat", bitsNodupB l), hpre]),
    ("export_readable", firstFail ([
        ("NameHyp.named:empty-name", namedB l),
        ("NameHyp.size:totalWeight>weightBound", weightOkB l),
        ("NameHyp.names:sibling-names-equal", namesNodupB l),
        ("NameHyp.quoteFree:name-has-quote-CR-LF", quoteFreeB l),
        ("NameHyp.preLegal:pre-existing-identifier-illegal", preLegalB l),
        ("NameHyp.preDistinct:pre-existing-written-forms-collide", preDistinctB l)] ++
      (if cables then [
        ("AvoidsPinnedClasses.scalarPlain:cable-name-bracket-index", scalarPlainB l),
        ("AvoidsPinnedClasses.busBracket:backslash-bus-cable", busBracketB l),
        ("AvoidsPinnedClasses.busLength:bus-bit-identifier-too-long", busLengthB out)] else []))) ]

end Spydr.Names.Reach
