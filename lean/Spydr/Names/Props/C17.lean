/-
  Property C17 — EDIF export gives every object a legal, case-insensitively unique identifier and
  records the original name as a rename; the written name reads back as the original.

  Model: Spydr/Names/Model.lean (`makeValid`, `assignAll`, `emittedNetIdents`, `nameString`,
  `readName` = EdififyNames.make_valid, the writer's pre-pass, the per-wire net identifiers of
  `_output_name_of_cable_wire_`, `_get_name_string_`, the reader's `parse_nameDef/parse_rename`),
  following the code as repaired by docs/fixes/names_1..9.  Specification: Spydr/Names/Spec.lean
  (`checkEdifIdentifier`, `ciEq`, `scopeOk`, `identsDistinct`, `netIdents`, `allDistinct`), written
  without the model.

  All theorems hold for ALL names (any characters, any length ≥ 1) and ALL sibling lists, with one
  unavoidable size hypothesis on the theorems that need the conflict loop to end:
  `fuelFor bits others ≤ sibBound = 10^200` for one call (the fuel is the number of strings a
  candidate can conflict with, plus one) resp. `totalWeight l ≤ weightBound = 10^100` for a whole
  scope (`weight e = 2 + number of wires written one by one`).  Identifiers have at most 255
  characters, so no algorithm whatsoever can serve arbitrarily many siblings; the bound is what the
  counting argument of `conflictsFix_finished` needs (twice the fuel must stay below `10^248`).
-/
import Spydr.Names.LemmasPass
import Spydr.Names.ModelOld

namespace Spydr.Names

/-- **Legality.** For any non-empty name, any wire indices and any siblings, `make_valid` returns an
    identifier the EDIF reader accepts.  (No bound, no assumption on the characters.) -/
theorem makeValid_legal (bits : List Nat) (name : Str) (others : List Sib) (h : name ≠ []) :
    Spec.checkEdifIdentifier (makeValid bits name others) = true :=
  (makeValid_good bits others h).legal

/-- **Freshness**, given that the conflict-fix loop ended by itself (the flag the driver reports):
    every identifier the writer emits for the element (`forms`: the identifier, and `<id>_<k>_` for
    every wire of a bus) differs, ignoring case, from the name of every other sibling and from every
    identifier written for it. -/
theorem makeValid_fresh (bits : List Nat) (name : Str) (others : List Sib)
    (hfin : (makeValidF bits name others).2 = true) :
    ∀ e ∈ others, ∀ m ∈ forms bits (makeValid bits name others),
      Spec.ciEq m e.name = false ∧
      ∀ i, e.ident = some i → ∀ m' ∈ forms e.bits i, Spec.ciEq m m' = false := by
  intro e he m hm
  have h := makeValid_fresh_of_finished bits others hfin e he (lower m) (List.mem_map_of_mem hm)
  refine ⟨?_, fun i hi m' hm' => ?_⟩
  · rw [Bool.eq_false_iff]; intro hc
    apply h; rw [(ciEq_iff _ _).mp hc]; simp [theirForms]
  · rw [Bool.eq_false_iff]; intro hc
    apply h; rw [(ciEq_iff _ _).mp hc]
    exact mem_theirForms_of_ident hi (List.mem_map_of_mem hm')

/-- **Termination** of `_conflicts_fix`: any fuel `≥ fuelFor − 1` is enough (the model uses
    `fuelFor`).  Proved, not assumed: the candidates' keys advance by 1 or 2 modulo `10^248 + 1`, so
    `fuelFor` consecutive candidates are pairwise different, and at most `fuelFor − 1` candidates can
    conflict (each string of a sibling is hit by the candidate itself or by one of its per-wire forms). -/
theorem conflictsFix_finished (bits : List Nat) (name : Str) (others : List Sib) (fuel : Nat) (hn : name ≠ [])
    (hb : fuelFor bits others ≤ sibBound) (hf : fuelFor bits others ≤ fuel + 1) :
    (conflictsFix bits others fuel (charsFix (lengthFix name))).2 = true :=
  conflictsFix_finished_aux _ _ _ _ (Good_charsFix (lengthFix_ne_nil hn)) hf hb

/-- Freshness without the run-time flag. -/
theorem makeValid_fresh_bounded (bits : List Nat) (name : Str) (others : List Sib) (hn : name ≠ [])
    (hb : fuelFor bits others ≤ sibBound) :
    ∀ e ∈ others, ∀ m ∈ forms bits (makeValid bits name others),
      Spec.ciEq m e.name = false ∧
      ∀ i, e.ident = some i → ∀ m' ∈ forms e.bits i, Spec.ciEq m m' = false :=
  makeValid_fresh bits name others (makeValidF_finished bits others hn hb)

/-- **Rename recorded** (`_add_rename_property`): an element without identifier gets
    `make_valid`'s result, keeps its name, and is flagged as renamed whenever the two differ. -/
theorem rename_recorded (x : Sib) (others : List Sib) (hx : x.ident = none) :
    (assignOne x others).ident = some (makeValid x.bits x.name others) ∧
    (assignOne x others).name = x.name ∧
    (makeValid x.bits x.name others ≠ x.name → (assignOne x others).rename = true) := by
  rw [assignOne_of_none hx]
  refine ⟨rfl, rfl, ?_⟩
  intro hne
  simp only [Bool.or_eq_true, bne_iff_ne, ne_eq]
  exact Or.inr hne

/-- **What the writer puts into the file** (`_get_name_string_` after `_add_rename_property`): when
    the identifier differs from the name, the text is `rename <identifier> "` followed by the
    characters of the name, unchanged and unescaped, and `"`; when they coincide (and no rename was
    pending) it is the bare identifier.  This describes the text only — whether it reads back is
    `reread_name` (it does not when the name contains `"`: finding `compose_parse.quote-in-name`). -/
theorem rename_written (x : Sib) (others : List Sib) (hx : x.ident = none) :
    (makeValid x.bits x.name others ≠ x.name →
      nameString (assignOne x others) =
        some (true, ['r', 'e', 'n', 'a', 'm', 'e', ' '] ++ makeValid x.bits x.name others ++ [' ', '"'] ++ x.name ++ ['"'])) ∧
    (makeValid x.bits x.name others = x.name → x.rename = false →
      nameString (assignOne x others) = some (false, x.name)) := by
  rw [assignOne_of_none hx]
  refine ⟨fun hne => ?_, fun heq hr => ?_⟩
  · have : (x.name == makeValid x.bits x.name others) = false := by
      rw [beq_eq_false_iff_ne]; exact fun h => hne h.symm
    simp [nameString, this]
  · simp [nameString, heq, hr]

/-- **The written name reads back** ("hence the file shows the original names", for the safe
    alphabet): if the name contains no `"`, the reader's rename handling (`readName`: identifier up
    to the blank, string token up to the next `"`, no unescaping) applied to what the writer emits
    for a freshly named element returns exactly the assigned identifier and the original name. -/
theorem reread_name (x : Sib) (others : List Sib) (hx : x.ident = none) (hn : x.name ≠ [])
    (hq : ∀ c ∈ x.name, (c != '"') = true) :
    ∃ t, nameString (assignOne x others) = some t ∧
      readName t = some (makeValid x.bits x.name others, x.name) := by
  have hg := makeValid_good x.bits others hn
  rw [assignOne_of_none hx]
  simp only [nameString]
  split
  · rename_i hc
    simp only [Bool.and_eq_true, beq_iff_eq] at hc
    refine ⟨_, rfl, ?_⟩
    have h1 := hc.1
    simp only [readName, Bool.not_false, if_true]
    exact congrArg some (Prod.ext rfl h1.symm)
  · exact ⟨_, rfl, readName_rename hg hq⟩

/-- what `assign_all_distinct` assumes about identifiers that existed before the pass: everything
    written for two different elements differs ignoring case (as in a file a reader accepted) -/
def PreDistinct (l : List Sib) : Prop :=
  l.Pairwise fun a b => ∀ i j, a.ident = some i → b.ident = some j →
    ∀ m ∈ forms a.bits i, ∀ m' ∈ forms b.bits j, lower m ≠ lower m'

theorem PreDistinct.formsDiffer2 {l : List Sib} (h : PreDistinct l) : l.Pairwise FormsDiffer2 := by
  apply List.Pairwise.imp _ h
  intro a b hab
  refine ⟨?_, ?_⟩
  · intro i j hi hj m hm hm'
    obtain ⟨m0, hm0, rfl⟩ := List.mem_map.mp hm
    obtain ⟨m1, hm1, he⟩ := List.mem_map.mp hm'
    exact hab i j hi hj m0 hm0 m1 hm1 he.symm
  · intro j i hj hi m hm hm'
    obtain ⟨m0, hm0, rfl⟩ := List.mem_map.mp hm
    obtain ⟨m1, hm1, he⟩ := List.mem_map.mp hm'
    exact hab i j hi hj m1 hm1 m0 hm0 he

/-- **All identifiers distinct after the pre-pass** (induction over the sibling list): if what was
    written for the elements that already had identifiers is pairwise different ignoring case, then
    after the writer's pre-pass every element has an identifier, names are untouched, and all
    identifiers of the scope are pairwise different ignoring case. -/
theorem assign_all_distinct (l : List Sib) (hn : ∀ x ∈ l, x.name ≠ []) (hb : totalWeight l ≤ weightBound)
    (hpre : PreDistinct l) :
    Spec.identsDistinct (observe (assignAll l)) = true ∧
    (∀ y ∈ assignAll l, y.ident.isSome = true) ∧
    (assignAll l).map (·.name) = l.map (·.name) := by
  have hok : PassOk ([] ++ l) := ⟨by simpa using hn, by simpa using hb⟩
  have hsome : ∀ y ∈ assignAll l, y.ident.isSome = true := assignGo_all_some l [] (by simp)
  refine ⟨identsDistinct_of_pairwise hsome ?_, hsome, by simpa [assignAll] using assignGo_names l []⟩
  exact assignGo_formsDiffer l [] hok (by simp only [List.nil_append]; exact hpre.formsDiffer2)

/-- **Every net of a cell gets its own identifier.** For the cables of one definition (`bits` = the
    wire indices of a cable written wire by wire, without repetition): after the pre-pass the net
    identifiers the writer emits — the cable's identifier for a scalar cable, `<identifier>_<k>_`
    for every wire of a bus — are pairwise different ignoring case. -/
theorem assign_all_netIdents_distinct (l : List Sib) (hn : ∀ x ∈ l, x.name ≠ [])
    (hb : totalWeight l ≤ weightBound) (hbits : ∀ x ∈ l, x.bits.Nodup) (hpre : PreDistinct l) :
    Spec.allDistinct (Spec.netIdents (observe (assignAll l))) = true := by
  have hok : PassOk ([] ++ l) := ⟨by simpa using hn, by simpa using hb⟩
  have hsome : ∀ y ∈ assignAll l, y.ident.isSome = true := assignGo_all_some l [] (by simp)
  rw [netIdents_observe hsome]
  apply netIdents_distinct_of_pairwise
  · intro y hy
    have hb' : y.bits ∈ (assignAll l).map (·.bits) := List.mem_map_of_mem hy
    rw [show (assignAll l).map (·.bits) = l.map (·.bits) by simpa [assignAll] using assignGo_bits l []] at hb'
    obtain ⟨z, hz, hzb⟩ := List.mem_map.mp hb'
    rw [← hzb]; exact hbits z hz
  · exact assignGo_formsDiffer l [] hok (by simp only [List.nil_append]; exact hpre.formsDiffer2)

/-- **P for a whole scope.** After the pre-pass over any sibling list (elements with or without
    previous identifiers, in any state of their rename flags), every element the writer named has
    a legal identifier, everything written for it differs, ignoring case, from the name and from
    everything written for every other element of the scope, and it carries the rename flag if its
    identifier is not its name. -/
theorem assign_all_scopeOk (l : List Sib) (hn : ∀ x ∈ l, x.name ≠ []) (hb : totalWeight l ≤ weightBound)
    (hfl : ∀ x ∈ l, x.assigned = false) :
    Spec.scopeOk (observe (assignAll l)) = true := by
  have hok : PassOk ([] ++ l) := ⟨by simpa using hn, by simpa using hb⟩
  apply scopeOk_of_invariants (assignGo_all_some l [] (by simp))
  · apply assignGo_pairOk l [] hok
    simp only [List.nil_append]
    apply List.Pairwise.imp_of_mem (R := fun _ _ => True)
    · intro a b ha hb' _
      refine ⟨fun h => ?_, fun h => ?_⟩
      · rw [hfl a ha] at h; cases h
      · rw [hfl b hb'] at h; cases h
    · exact List.pairwise_of_forall (fun _ _ => trivial)
  · apply assignGo_elemOk l [] hok
    intro y hy h
    rw [hfl y (by simpa using hy)] at h; cases h

/-! ### non-vacuity: concrete inputs satisfying the hypotheses, with the values computed -/

/-- `ABC`, `ABc`, `a-b`, `a b` as siblings (the shapes of the first findings) -/
def exSibs : List Sib :=
  [{ name := ['A', 'B', 'C'] }, { name := ['A', 'B', 'c'] }, { name := ['a', '-', 'b'] },
   { name := ['a', ' ', 'b'], ident := some ['a', '_', 'B'], rename := true }]

example : (assignAll exSibs).map (·.ident) =
    [some ['a','b','c','_','s','d','n','_','1','_'], some ['a','b','c','_','s','d','n','_','2','_'],
     some ['a','_','b','_','s','d','n','_','1','_'], some ['a','_','B']] := by decide

example : (∀ x ∈ exSibs, x.name ≠ []) ∧ totalWeight exSibs ≤ weightBound ∧ (∀ x ∈ exSibs, x.assigned = false) := by
  refine ⟨by decide, by simp [exSibs, weightBound, totalWeight, weight], by decide⟩

example : Spec.scopeOk (observe (assignAll exSibs)) = true := by decide

example : (makeValidF [] ['A', 'B', 'c'] [{ name := ['A', 'B', 'C'] }]) = (['a','b','c','_','s','d','n','_','1','_'], true) := by
  decide

set_option maxRecDepth 100000 in
/-- a 300-character name: truncated to 255 and legal -/
example : (makeValid [] (List.replicate 300 'a') []).length = 255 ∧
    Spec.checkEdifIdentifier (makeValid [] (List.replicate 300 'a') []) = true := by decide

/-- a two-wire cable `A` beside a scalar cable `a_0_` (the shape of finding
    `compose.bus-bit-identifier-collision`), in both orders -/
def exCables : List Sib := [{ name := ['A'], bits := [0, 1] }, { name := ['a', '_', '0', '_'] }]

example : PreDistinct exCables ∧ (∀ x ∈ exCables, x.bits.Nodup) ∧ (∀ x ∈ exCables, x.name ≠ []) := by
  refine ⟨?_, by decide, by decide⟩
  simp [PreDistinct, exCables]

example : emittedNetIdents (assignAll exCables) =
    [['a','_','s','d','n','_','1','_','_','0','_'], ['a','_','s','d','n','_','1','_','_','1','_'],
     ['a','_','0','_']] := by decide

example : emittedNetIdents (assignAll exCables.reverse) =
    [['a','_','0','_'], ['a','_','s','d','n','_','1','_','_','0','_'],
     ['a','_','s','d','n','_','1','_','_','1','_']] := by decide

example : readName (true, ['r','e','n','a','m','e',' ','&','_','b',' ','"','-','b','"']) = some (['&','_','b'], ['-','b']) := by
  decide

/-! ### the unrepaired rules violate the statements — formal record of the findings -/

open Old in
/-- finding `make_valid.case-insensitive-collision`: `ABC` and `ABc` both keep their spelling. -/
theorem pinned_violates_scopeOk :
    ¬ ∀ l : List Sib, (∀ x ∈ l, x.name ≠ []) → (∀ x ∈ l, x.assigned = false) →
        Spec.scopeOk (observe (Old.assignAll Rules.pinned l)) = true := by
  intro h
  have := h [{ name := ['A', 'B', 'C'] }, { name := ['A', 'B', 'c'] }] (by decide) (by decide)
  revert this; decide

open Old in
/-- the same with only the case rule unrepaired -/
example : Spec.scopeOk (observe (Old.assignAll ⟨true, true, false, true, true⟩
    [{ name := ['A', 'B', 'C'] }, { name := ['A', 'B', 'c'] }])) = false := by decide

open Old in
/-- finding `make_valid.dash-kept`: `a-b` is returned unchanged and is not an identifier. -/
theorem pinned_violates_legal_dash :
    ¬ ∀ (name : Str) (others : List Sib), name ≠ [] →
        Spec.checkEdifIdentifier (Old.makeValid Rules.pinned [] name others) = true := by
  intro h
  have := h ['a', '-', 'b'] [] (by decide)
  revert this; decide

open Old in
example : Old.makeValid ⟨true, false, true, true, true⟩ [] ['a', '-', 'b'] [] = ['a', '-', 'b'] := by decide

set_option maxRecDepth 100000 in
open Old in
/-- finding `make_valid.length-256`: a 256-character name is returned unchanged (limit is 255). -/
theorem pinned_violates_legal_length :
    ¬ ∀ (name : Str) (others : List Sib), name ≠ [] →
        Spec.checkEdifIdentifier (Old.makeValid Rules.pinned [] name others) = true := by
  intro h
  have := h (List.replicate 256 'a') [] (by decide)
  revert this; decide

set_option maxRecDepth 100000 in
open Old in
example : (Old.makeValid ⟨false, true, true, true, true⟩ [] (List.replicate 300 'a') []).length = 256 := by decide

/-- `a_sdn_111…1_` with 290 digits -/
def longSuffixName : Str := ['a'] ++ sdnPre ++ List.replicate 290 '1' ++ ['_']

set_option maxRecDepth 100000 in
open Old in
/-- finding `make_valid.length-over-256`: a `_sdn_N_` suffix longer than the limit makes the python
    slice bound negative and the result longer than the input. -/
theorem pinned_violates_legal_suffix :
    ¬ ∀ (name : Str) (others : List Sib), name ≠ [] →
        Spec.checkEdifIdentifier (Old.makeValid Rules.pinned [] name others) = true := by
  intro h
  have := h longSuffixName [] (by decide)
  revert this; decide

set_option maxRecDepth 100000 in
open Old in
example : 256 < (Old.makeValid ⟨true, true, true, false, true⟩ [] longSuffixName []).length := by decide

open Old in
/-- finding `compose.bus-bit-identifier-collision`: with names_1..7 applied but `_conflicts_good`
    still blind to the per-wire identifiers, the two-wire cable `A` emits `A_0_`, which equals,
    ignoring case, the identifier of the scalar cable `a_0_` of the same cell. -/
theorem unrepaired_violates_netIdents :
    ¬ ∀ l : List Sib, (∀ x ∈ l, x.name ≠ []) → (∀ x ∈ l, x.bits.Nodup) → PreDistinct l →
        Spec.allDistinct (Spec.netIdents (observe (Old.assignAll ⟨true, true, true, true, false⟩ l))) = true := by
  intro h
  have := h exCables (by decide) (by decide) (by simp [PreDistinct, exCables])
  revert this; decide

end Spydr.Names
