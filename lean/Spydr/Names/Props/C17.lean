import Spydr.Names.Lemmas
