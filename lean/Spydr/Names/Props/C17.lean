/-
  Property C17 — EDIF export gives every object a legal, case-insensitively unique identifier and
  records the original name as a rename.

  Model: Spydr/Names/Model.lean (`makeValid`, `assignAll` = EdififyNames.make_valid and the writer's
  pre-pass, as repaired by docs/fixes/names_1..5).  Specification: Spydr/Names/Spec.lean
  (`checkEdifIdentifier`, `ciEq`, `scopeOk`, `identsDistinct`), written without the model.

  All theorems hold for ALL names (any characters, any length ≥ 1) and ALL sibling lists, with one
  unavoidable size hypothesis on the theorems that need the conflict loop to end:
  `others.length < sibBound = 10^200`.  (Identifiers have at most 255 characters, so no algorithm
  whatsoever can give pairwise distinct identifiers to arbitrarily many siblings; the bound is what
  the counting argument of `conflictsFix_finished` needs: 4·n + 2 ≤ 10^248.)
-/
import Spydr.Names.LemmasPass
import Spydr.Names.ModelOld

namespace Spydr.Names

/-- **Legality.** For any non-empty name and any siblings, `make_valid` returns an identifier the
    EDIF reader accepts.  (No bound, no assumption on the characters.) -/
theorem makeValid_legal (name : Str) (others : List Sib) (h : name ≠ []) :
    Spec.checkEdifIdentifier (makeValid name others) = true :=
  (makeValid_good others h).legal

/-- **Freshness**, given that the conflict-fix recursion ended by itself (the flag the driver
    reports): the result differs, ignoring case, from the name and the identifier of every other
    sibling. -/
theorem makeValid_fresh (name : Str) (others : List Sib)
    (hfin : (makeValidF name others).2 = true) :
    ∀ e ∈ others, Spec.ciEq (makeValid name others) e.name = false ∧
      ∀ i, e.ident = some i → Spec.ciEq (makeValid name others) i = false := by
  intro e he
  obtain ⟨h1, h2⟩ := makeValid_fresh_of_finished others hfin e he
  refine ⟨?_, fun i hi => ?_⟩
  · rw [Bool.eq_false_iff]; intro hc; exact h1 ((ciEq_iff _ _).mp hc).symm
  · rw [Bool.eq_false_iff]; intro hc; exact h2 i hi ((ciEq_iff _ _).mp hc).symm

/-- **Termination** of `_conflicts_fix`: any fuel `≥ 2·|others|` is enough (the model uses
    `2·|others| + 1`).  Proved, not assumed: the candidates' keys advance by 1 or 2 modulo
    `10^248 + 1`, so `2·|others| + 1` consecutive candidates are pairwise different, and at most
    `2·|others|` strings can conflict. -/
theorem conflictsFix_finished (name : Str) (others : List Sib) (fuel : Nat) (hn : name ≠ [])
    (hb : others.length < sibBound) (hf : 2 * others.length ≤ fuel) :
    (conflictsFix others fuel (charsFix (lengthFix name))).2 = true :=
  conflictsFix_finished_aux _ _ _ (Good_charsFix (lengthFix_ne_nil hn)) hf hb

/-- Freshness without the run-time flag. -/
theorem makeValid_fresh_bounded (name : Str) (others : List Sib) (hn : name ≠ [])
    (hb : others.length < sibBound) :
    ∀ e ∈ others, Spec.ciEq (makeValid name others) e.name = false ∧
      ∀ i, e.ident = some i → Spec.ciEq (makeValid name others) i = false :=
  makeValid_fresh name others (makeValidF_finished others hn hb)

/-- **Rename recorded** (`_add_rename_property`): an element without identifier gets
    `make_valid`'s result, keeps its name, and is flagged as renamed whenever the two differ. -/
theorem rename_recorded (x : Sib) (others : List Sib) (hx : x.ident = none) :
    (assignOne x others).ident = some (makeValid x.name others) ∧
    (assignOne x others).name = x.name ∧
    (makeValid x.name others ≠ x.name → (assignOne x others).rename = true) := by
  rw [assignOne_of_none hx]
  refine ⟨rfl, rfl, ?_⟩
  intro hne
  simp only [Bool.or_eq_true, bne_iff_ne, ne_eq]
  exact Or.inr hne

/-- **The original name is what is written** (`_get_name_string_` after `_add_rename_property`):
    when the identifier differs from the name the writer emits `rename <identifier> "<name>"` with the
    untouched original name; when they coincide (and no rename was pending) it emits the identifier. -/
theorem rename_written (x : Sib) (others : List Sib) (hx : x.ident = none) :
    (makeValid x.name others ≠ x.name →
      nameString (assignOne x others) =
        some (true, ['r', 'e', 'n', 'a', 'm', 'e', ' '] ++ makeValid x.name others ++ [' ', '"'] ++ x.name ++ ['"'])) ∧
    (makeValid x.name others = x.name → x.rename = false →
      nameString (assignOne x others) = some (false, x.name)) := by
  rw [assignOne_of_none hx]
  refine ⟨fun hne => ?_, fun heq hr => ?_⟩
  · have : (x.name == makeValid x.name others) = false := by
      rw [beq_eq_false_iff_ne]; exact fun h => hne h.symm
    simp [nameString, this]
  · simp [nameString, heq, hr]

/-- **All identifiers distinct after the pre-pass** (induction over the sibling list): if the
    identifiers that existed before are pairwise different ignoring case, then after the writer's
    pre-pass every element has an identifier, names are untouched, and all identifiers of the
    scope are pairwise different ignoring case. -/
theorem assign_all_distinct (l : List Sib) (hn : ∀ x ∈ l, x.name ≠ []) (hb : l.length ≤ sibBound)
    (hpre : l.Pairwise fun a b => ∀ i j, a.ident = some i → b.ident = some j → lower i ≠ lower j) :
    Spec.identsDistinct (observe (assignAll l)) = true ∧
    (∀ y ∈ assignAll l, y.ident.isSome = true) ∧
    (assignAll l).map (·.name) = l.map (·.name) := by
  have hok : PassOk ([] ++ l) := ⟨by simpa using hn, by simpa using hb⟩
  have hsome : ∀ y ∈ assignAll l, y.ident.isSome = true := assignGo_all_some l [] (by simp)
  refine ⟨identsDistinct_of_pairwise hsome ?_, hsome, by simpa [assignAll] using assignGo_names l []⟩
  exact assignGo_identsDiffer l [] hok (by simp only [List.nil_append]; exact hpre)

/-- **P for a whole scope.** After the pre-pass over any sibling list (elements with or without
    previous identifiers, in any state of their rename flags), every element the writer named has
    a legal identifier that differs, ignoring case, from the name and the identifier of every other
    element of the scope, and carries the rename flag if its identifier is not its name. -/
theorem assign_all_scopeOk (l : List Sib) (hn : ∀ x ∈ l, x.name ≠ []) (hb : l.length ≤ sibBound)
    (hfl : ∀ x ∈ l, x.assigned = false) :
    Spec.scopeOk (observe (assignAll l)) = true := by
  have hok : PassOk ([] ++ l) := ⟨by simpa using hn, by simpa using hb⟩
  apply scopeOk_of_invariants
  · apply assignGo_pairOk l [] hok
    simp only [List.nil_append]
    apply List.Pairwise.imp_of_mem (R := fun _ _ => True)
    · intro a b ha hb' _
      refine ⟨fun h => ?_, fun h => ?_⟩
      · rw [hfl a ha] at h; cases h
      · rw [hfl b hb'] at h; cases h
    · exact List.pairwise_of_forall (fun _ _ => trivial)
  · apply assignGo_elemOk l [] hok
    intro y hy h
    rw [hfl y (by simpa using hy)] at h; cases h

/-! ### non-vacuity: concrete inputs satisfying the hypotheses, with the values computed -/

/-- `ABC`, `ABc`, `a-b`, `a b` as siblings (the shapes of the open findings) -/
def exSibs : List Sib :=
  [{ name := ['A', 'B', 'C'] }, { name := ['A', 'B', 'c'] }, { name := ['a', '-', 'b'] },
   { name := ['a', ' ', 'b'], ident := some ['a', '_', 'B'], rename := true }]

example : (assignAll exSibs).map (·.ident) =
    [some ['a','b','c','_','s','d','n','_','1','_'], some ['a','b','c','_','s','d','n','_','2','_'],
     some ['a','_','b','_','s','d','n','_','1','_'], some ['a','_','B']] := by decide

example : (∀ x ∈ exSibs, x.name ≠ []) ∧ exSibs.length ≤ sibBound ∧ (∀ x ∈ exSibs, x.assigned = false) := by
  refine ⟨by decide, by simp [exSibs, sibBound], by decide⟩

example : Spec.scopeOk (observe (assignAll exSibs)) = true := by decide

example : (makeValidF ['A', 'B', 'c'] [{ name := ['A', 'B', 'C'] }]) = (['a','b','c','_','s','d','n','_','1','_'], true) := by
  decide

set_option maxRecDepth 100000 in
/-- a 300-character name: truncated to 255 and legal -/
example : (makeValid (List.replicate 300 'a') []).length = 255 ∧
    Spec.checkEdifIdentifier (makeValid (List.replicate 300 'a') []) = true := by decide

/-! ### the pinned (unrepaired) rules violate the statements — formal record of the open findings -/

open Old in
/-- finding `make_valid.case-insensitive-collision`: `ABC` and `ABc` both keep their spelling. -/
theorem pinned_violates_scopeOk :
    ¬ ∀ l : List Sib, (∀ x ∈ l, x.name ≠ []) → (∀ x ∈ l, x.assigned = false) →
        Spec.scopeOk (observe (Old.assignAll Rules.pinned l)) = true := by
  intro h
  have := h [{ name := ['A', 'B', 'C'] }, { name := ['A', 'B', 'c'] }] (by decide) (by decide)
  revert this; decide

open Old in
/-- the same with only the case rule unrepaired -/
example : Spec.scopeOk (observe (Old.assignAll ⟨true, true, false, true⟩
    [{ name := ['A', 'B', 'C'] }, { name := ['A', 'B', 'c'] }])) = false := by decide

open Old in
/-- finding `make_valid.dash-kept`: `a-b` is returned unchanged and is not an identifier. -/
theorem pinned_violates_legal_dash :
    ¬ ∀ (name : Str) (others : List Sib), name ≠ [] →
        Spec.checkEdifIdentifier (Old.makeValid Rules.pinned name others) = true := by
  intro h
  have := h ['a', '-', 'b'] [] (by decide)
  revert this; decide

open Old in
example : Old.makeValid ⟨true, false, true, true⟩ ['a', '-', 'b'] [] = ['a', '-', 'b'] := by decide

set_option maxRecDepth 100000 in
open Old in
/-- finding `make_valid.length-256`: a 256-character name is returned unchanged (limit is 255). -/
theorem pinned_violates_legal_length :
    ¬ ∀ (name : Str) (others : List Sib), name ≠ [] →
        Spec.checkEdifIdentifier (Old.makeValid Rules.pinned name others) = true := by
  intro h
  have := h (List.replicate 256 'a') [] (by decide)
  revert this; decide

set_option maxRecDepth 100000 in
open Old in
example : (Old.makeValid ⟨false, true, true, true⟩ (List.replicate 300 'a') []).length = 256 := by decide

/-- `a_sdn_111…1_` with 290 digits -/
def longSuffixName : Str := ['a'] ++ sdnPre ++ List.replicate 290 '1' ++ ['_']

set_option maxRecDepth 100000 in
open Old in
/-- finding `make_valid.length-over-256`: a `_sdn_N_` suffix longer than the limit makes the python
    slice bound negative and the result longer than the input. -/
theorem pinned_violates_legal_suffix :
    ¬ ∀ (name : Str) (others : List Sib), name ≠ [] →
        Spec.checkEdifIdentifier (Old.makeValid Rules.pinned name others) = true := by
  intro h
  have := h longSuffixName [] (by decide)
  revert this; decide

set_option maxRecDepth 100000 in
open Old in
example : 256 < (Old.makeValid ⟨true, true, true, false⟩ longSuffixName []).length := by decide

end Spydr.Names
