/-
  C17, last clause — "hence the exported file is always readable again and the re-read netlist shows
  the original names" — by a BRIDGE between the two engines' models:

    names engine : `assignAll` (the writer's pre-pass over one sibling list, Model.lean) and its theorems
                   (`makeValid_legal`, `assign_all_distinct`, … in Props/C17.lean)
    edif engine  : `WFNet` (LemmasWF.lean), the hypothesis of `Edif.C03.edif_roundtrip_text`
                   ("the text the writer lays out is accepted by the reader and has the same view,
                   names included").

  `WFNet` speaks about the netlist AFTER the pre-pass (every dictionary carries `EDIF.identifier`).
  Its clauses fall into three groups:

  (A) discharged here from the names engine's theorems, for every scope that is the outcome of the
      pre-pass (`FromPrepass`): `NamedOK` of every library / cell / port / instance / cable, of the
      netlist and of the top instance (identifier present, legal, name present, name a string token);
      `Distinct` of every sibling list (names different, identifiers different ignoring case):
        NetNames.libNamed libDistinct defNamed defDistinct portDistinct, PortWF.named, InstWF.named,
        CellWF.instDistinct cableDistinct, CableWF.named, WFNet.named, WFNet.tnamed;
      and of `CableWF.bus_ok` the string-token clause for `name[k]` and — given the length bound
      below — the legality of the per-wire identifier `<id>_<k>_`; of `CableWF.scalar_plain`: `name ≠ []`.
  (B) hypotheses about the NAMES the user chose (not about identifiers): names of siblings pairwise
      different and free of `"`, CR, LF (`ScopeHyp.names`, `.quoteFree`); a scalar net is not named like
      a bus bit `x[3]` (`Residual.scalarPlain`; finding compose_parse.cable-name-bracket-index); a bus
      net's name does not start with a backslash unless it has the escaped-identifier form
      (`Residual.busBracket`; finding compose_parse.backslash-bus-cable).
  (C) NOT delivered by the pre-pass, assumed: the per-wire identifier of a bus fits the limit
      (`Residual.busLength`: |id| + |digits k| + 2 ≤ 255; `bus_bit_identifier_can_be_too_long` shows
      on a witness that the pre-pass output alone does not give it — finding
      compose_parse.bus-bit-identifier-too-long); and the structural clauses unrelated to names: port
      widths, instance references to preceding cells, canonical property dictionaries, non-empty cables,
      pins in range and on one wire, status strings, a top instance referencing a cell.
-/
import Spydr.Names.LemmasBridge
import Spydr.Edif.Props.C03

namespace Spydr.Names.Bridge
open Spydr Spydr.Names
open Spydr.Edif (CNetlist CLib CDef CPort CCable CInst Data)

/-- the dictionaries `ds` of one namespace scope are what the writer's pre-pass leaves for some sibling
    list inside the hypotheses of the C17 theorems (names non-empty, different, free of `"`; scope not
    astronomically large; identifiers that existed before legal and written forms pairwise different) -/
def FromPrepass (ds : List Data) : Prop := ∃ l, ScopeHyp l ∧ Forall2 Carries ds (assignAll l)

/-- **(A) for one scope.** -/
theorem fromPrepass_named_distinct {ds : List Data} (h : FromPrepass ds) :
    (∀ d ∈ ds, Edif.NamedOK d (Edif.idOf d) (Edif.nmOf d)) ∧ Edif.Distinct ds := by
  obtain ⟨l, hl, hc⟩ := h
  exact scope_named_distinct hl hc

/-- every namespace scope of the netlist comes out of the pre-pass -/
structure NamesFromPrepass (n : CNetlist) (t : CInst) : Prop where
  libs : FromPrepass (n.libs.map (·.data))
  defs : ∀ l ∈ n.libs, FromPrepass (l.defs.map (·.data))
  ports : ∀ l ∈ n.libs, ∀ d ∈ l.defs, FromPrepass (d.ports.map (·.data))
  insts : ∀ l ∈ n.libs, ∀ d ∈ l.defs, FromPrepass (d.insts.map (·.data))
  cables : ∀ l ∈ n.libs, ∀ d ∈ l.defs, FromPrepass (d.cables.map (·.data))
  design : FromPrepass [n.data]
  top : FromPrepass [t.data]

/-- the clauses of `WFNet` that the pre-pass does not deliver: groups (B) (last two fields of the cable
    part) and (C) of the header -/
structure Residual (n : CNetlist) (prog ver : Option Edif.Str) (t : CInst) (li di : Nat) : Prop where
  portWidth : ∀ l ∈ n.libs, ∀ d ∈ l.defs, ∀ p ∈ d.ports, 1 ≤ p.width ∧ (p.isArray = false → p.width = 1)
  instRef : ∀ L l, n.libs[L]? = some l → ∀ D d, l.defs[D]? = some d → ∀ i ∈ d.insts,
    ∃ li di l2 rd, i.ref = some (li, di) ∧ n.libs[li]? = some l2 ∧ l2.defs[di]? = some rd ∧ Edif.Before L D li di
  instProps : ∀ l ∈ n.libs, ∀ d ∈ l.defs, ∀ i ∈ d.insts,
    i.data.get? Edif.kPROPS = none ∨
      ∃ ps, i.data.get? Edif.kPROPS = some (.list ps) ∧
        ∀ v ∈ ps, ∃ t, Edif.decodeProp v = some t ∧ Edif.PropOK t.1 t.2.1 t.2.2
  cableWires : ∀ l ∈ n.libs, ∀ d ∈ l.defs, ∀ c ∈ d.cables, c.wires ≠ []
  cablePins : ∀ l ∈ n.libs, ∀ d ∈ l.defs, ∀ c ∈ d.cables, ∀ w ∈ c.wires, ∀ pin ∈ w, Edif.PinWF n.libs d pin
  pinsOnce : ∀ l ∈ n.libs, ∀ d ∈ l.defs, (d.cables.flatMap (fun c => c.wires.flatten)).Nodup
  /-- (B) a scalar net is not named like a bus bit -/
  scalarPlain : ∀ l ∈ n.libs, ∀ d ∈ l.defs, ∀ c ∈ d.cables, c.wires.length = 1 → c.isArray = false →
    (Edif.sepName (Edif.nmOf c.data)).1 = none
  /-- (B) the reader splits `[k]` off the per-wire name of a bus -/
  busBracket : ∀ l ∈ n.libs, ∀ d ∈ l.defs, ∀ c ∈ d.cables, ¬ (c.wires.length = 1 ∧ c.isArray = false) →
    ∀ k, k < c.wires.length → Edif.bracketAllowed (Edif.bitName (Edif.nmOf c.data) (k + c.lower)) = true
  /-- (C) the per-wire identifier of a bus fits the limit -/
  busLength : ∀ l ∈ n.libs, ∀ d ∈ l.defs, ∀ c ∈ d.cables, ¬ (c.wires.length = 1 ∧ c.isArray = false) →
    ∀ k, k < c.wires.length → (Edif.idOf c.data).length + (Edif.natStr (k + c.lower)).length + 2 ≤ 255
  status : Edif.StatusOK n.data prog ver
  top : n.top = some t
  tref : t.ref = some (li, di)
  ttarget : ∃ l d, n.libs[li]? = some l ∧ l.defs[di]? = some d

theorem named_of_scope {α : Type} {f : α → Data} {xs : List α} (h : FromPrepass (xs.map f)) {x : α} (hx : x ∈ xs) :
    Edif.NamedOK (f x) (Edif.idOf (f x)) (Edif.nmOf (f x)) :=
  (fromPrepass_named_distinct h).1 (f x) (List.mem_map_of_mem hx)

/-- **bridge**: pre-pass output in every scope + the residual clauses ⇒ the EDIF model's `WFNet`. -/
theorem wfNet_of_prepass (n : CNetlist) (prog ver : Option Edif.Str) (t : CInst) (li di : Nat)
    (hp : NamesFromPrepass n t) (hr : Residual n prog ver t li di) : Edif.WFNet n prog ver t li di := by
  refine
    { names :=
        { libNamed := fun l hl => named_of_scope hp.libs hl
          libDistinct := (fromPrepass_named_distinct hp.libs).2
          defNamed := fun l hl d hd => named_of_scope (hp.defs l hl) hd
          defDistinct := fun l hl => (fromPrepass_named_distinct (hp.defs l hl)).2
          portWF := fun l hl d hd p hpp =>
            ⟨named_of_scope (hp.ports l hl d hd) hpp, (hr.portWidth l hl d hd p hpp).1, (hr.portWidth l hl d hd p hpp).2⟩
          portDistinct := fun l hl d hd => (fromPrepass_named_distinct (hp.ports l hl d hd)).2 }
      cells := ?_
      named := by simpa using (fromPrepass_named_distinct hp.design).1 n.data (by simp)
      status := hr.status
      top := hr.top
      tnamed := by simpa using (fromPrepass_named_distinct hp.top).1 t.data (by simp)
      tref := hr.tref
      ttarget := hr.ttarget }
  intro L l hL D d hD
  have hl : l ∈ n.libs := List.mem_of_getElem? hL
  have hd : d ∈ l.defs := List.mem_of_getElem? hD
  refine
    { insts := fun i hi =>
        ⟨named_of_scope (hp.insts l hl d hd) hi, hr.instRef L l hL D d hD i hi, hr.instProps l hl d hd i hi⟩
      instDistinct := (fromPrepass_named_distinct (hp.insts l hl d hd)).2
      cables := ?_
      cableDistinct := (fromPrepass_named_distinct (hp.cables l hl d hd)).2
      nodup := hr.pinsOnce l hl d hd }
  intro c hc
  have hnamed := named_of_scope (hp.cables l hl d hd) hc
  refine
    { named := hnamed
      wires_ne := hr.cableWires l hl d hd c hc
      pins := hr.cablePins l hl d hd c hc
      scalar_plain := fun h1 h2 => ⟨hr.scalarPlain l hl d hd c hc h1 h2, ?_⟩
      bus_ok := fun hb k hk =>
        ⟨hr.busBracket l hl d hd c hc hb k hk,
         bitIdent_legal _ (by rw [← checkEdifIdentifier_eq]; exact hnamed.hc) (hr.busLength l hl d hd c hc hb k hk),
         bitName_quoteFree _ hnamed.hs⟩ }
  -- the name of a cable is not empty: it is the name of a sibling of the pre-pass
  obtain ⟨sl, hsl, hcar⟩ := hp.cables l hl d hd
  obtain ⟨y, hy, hcy⟩ := forall₂_mem_left hcar (List.mem_map_of_mem (f := (·.data)) hc)
  rw [hcy.nmOf]
  have : y.name ∈ (assignAll sl).map (·.name) := List.mem_map_of_mem hy
  rw [(after_pass hsl).2.1] at this
  obtain ⟨x, hx, hxe⟩ := List.mem_map.mp this
  rw [← hxe]; exact hsl.named x hx

/-- **C17's last clause on the models**: a netlist whose every namespace scope is the outcome of the
    writer's pre-pass (names different and free of `"`, CR, LF) and which satisfies the residual
    clauses is written to a TEXT that the reader accepts (tokenizer, s-expression reader, `ofSExp`), and
    the netlist read back has the same view — the same libraries, cells, ports, instances, nets and
    the same ORIGINAL NAMES. -/
theorem prepass_file_readable (n : CNetlist) (prog ver : Option Edif.Str) (t : CInst) (li di : Nat)
    (y mo d h mi s : Nat) (hp : NamesFromPrepass n t) (hr : Residual n prog ver t li di)
    (h0 : Edif.ScalarLower0 n) :
    ∃ text n', Edif.composeE [y, mo, d, h, mi, s] n = .ok text ∧ Edif.readEdif text = .ok n' ∧
      Edif.view03 n' = Edif.view03 n :=
  Edif.C03.edif_roundtrip_text n prog ver t li di y mo d h mi s (wfNet_of_prepass n prog ver t li di hp hr) h0

/-- the same legality predicate, stated for the bridge's users -/
theorem legal_iff (s : Str) : Edif.checkEdifIdentifier s = true ↔ Spec.checkEdifIdentifier s = true := by
  rw [checkEdifIdentifier_eq]

/-- `ciEq`-distinct identifiers are `Edif.lower`-distinct -/
theorem ciDistinct_iff (a b : Str) : Spec.ciEq a b = false ↔ Edif.lower a ≠ Edif.lower b := by
  rw [Bool.eq_false_iff, ne_eq, ciEq_iff, lower_eq, lower_eq]

/-! ### what does NOT follow: the per-wire identifier of a bus can be too long -/

/-- a cable named `a…a` (254 letters) with two wires -/
def longBus : Sib := { name := List.replicate 254 'a', bits := [0, 1] }

set_option maxRecDepth 100000 in
/-- (C) on a witness: the pre-pass gives the 254-character name itself as (legal) identifier, and the
    identifier the writer forms for wire 0, `<id>_0_`, has 257 characters: `WFNet`'s
    `CableWF.bus_ok` does not follow from the pre-pass (finding compose_parse.bus-bit-identifier-too-long;
    `WFNet` is right to demand it — the reader rejects that file). -/
theorem bus_bit_identifier_can_be_too_long :
    ∃ i, (assignAll [longBus]).map (·.ident) = [some i] ∧ Spec.checkEdifIdentifier i = true ∧
      Edif.checkEdifIdentifier (Edif.bitIdent i 0) = false := by
  refine ⟨List.replicate 254 'a', by decide, by decide, by decide⟩

/-! ### non-vacuity: a scope that is `FromPrepass` -/

/-- dictionaries for `ABC` / `ABc` after the pre-pass -/
def exData : List Data :=
  [[(Edif.kNAME, .str ['A', 'B', 'C']), (Edif.kIDENT, .str ['a','b','c','_','s','d','n','_','1','_'])],
   [(Edif.kNAME, .str ['A', 'B', 'c']), (Edif.kIDENT, .str ['a','b','c','_','s','d','n','_','2','_'])]]

theorem exData_fromPrepass : FromPrepass exData := by
  refine ⟨[{ name := ['A', 'B', 'C'] }, { name := ['A', 'B', 'c'] }], ?_, ?_⟩
  · refine ⟨by decide, by simp [totalWeight, weight, weightBound], by decide, ?_, ?_, ?_⟩
    · intro x hx; simp only [List.mem_cons, List.not_mem_nil, or_false] at hx
      rcases hx with rfl | rfl <;> (show List.all _ _ = true; decide)
    · intro x hx i hi; simp only [List.mem_cons, List.not_mem_nil, or_false] at hx
      rcases hx with rfl | rfl <;> cases hi
    · simp [FormsDiffer2, FormsDiffer]
  · have : assignAll [{ name := ['A', 'B', 'C'] }, { name := ['A', 'B', 'c'] }] =
        [{ name := ['A', 'B', 'C'], ident := some ['a','b','c','_','s','d','n','_','1','_'], rename := true, assigned := true },
         { name := ['A', 'B', 'c'], ident := some ['a','b','c','_','s','d','n','_','2','_'], rename := true, assigned := true }] := by
      decide
    rw [this]
    exact .cons ⟨rfl, rfl⟩ (.cons ⟨rfl, rfl⟩ .nil)

example : (∀ d ∈ exData, Edif.NamedOK d (Edif.idOf d) (Edif.nmOf d)) ∧ Edif.Distinct exData :=
  fromPrepass_named_distinct exData_fromPrepass

end Spydr.Names.Bridge

/-! ### non-vacuity of the bridge: a whole netlist inside `NamesFromPrepass` and `Residual` -/
namespace Spydr.Names.Bridge.Example
open Spydr Spydr.Names Spydr.Names.Bridge
open Spydr.Edif (CNetlist CLib CDef CPort CCable CInst Data)

def dat (name ident : String) : Data := [(Edif.kNAME, .str name.toList), (Edif.kIDENT, .str ident.toList)]

/-- one sibling whose name is already an identifier: the pre-pass keeps it -/
theorem single (nm : Str) (hn : nm ≠ []) (hq : QuoteFree nm)
    (hid : assignAll [{ name := nm }] = [{ name := nm, ident := some nm, rename := false, assigned := true }]) :
    FromPrepass [[(Edif.kNAME, .str nm), (Edif.kIDENT, .str nm)]] := by
  refine ⟨[{ name := nm }], ⟨?_, by simp [totalWeight, weight, weightBound], by simp, ?_, ?_, by simp⟩, ?_⟩
  · intro x hx; simp only [List.mem_cons, List.not_mem_nil, or_false] at hx; subst hx; exact hn
  · intro x hx; simp only [List.mem_cons, List.not_mem_nil, or_false] at hx; subst hx; exact hq
  · intro x hx i hi; simp only [List.mem_cons, List.not_mem_nil, or_false] at hx; subst hx; cases hi
  · rw [hid]; exact .cons ⟨rfl, rfl⟩ .nil

theorem nil_fromPrepass : FromPrepass [] :=
  ⟨[], ⟨by simp, by simp [totalWeight, weightBound], by simp, by simp, by simp, by simp⟩, by
    show Forall2 Carries [] (assignAll []); exact .nil⟩

/-- the ports `a b` and `a$b` of the top cell after the pre-pass: `a_b` and `a_b_sdn_1_` -/
def portData : List Data :=
  [[(Edif.kNAME, .str ['a', ' ', 'b']), (Edif.kIDENT, .str ['a', '_', 'b'])],
   [(Edif.kNAME, .str ['a', '$', 'b']), (Edif.kIDENT, .str ['a','_','b','_','s','d','n','_','1','_'])]]

theorem ports_fromPrepass : FromPrepass portData := by
  refine ⟨[{ name := ['a', ' ', 'b'] }, { name := ['a', '$', 'b'] }], ?_, ?_⟩
  · refine ⟨by decide, by simp [totalWeight, weight, weightBound], by decide, ?_, ?_, ?_⟩
    · intro x hx; simp only [List.mem_cons, List.not_mem_nil, or_false] at hx
      rcases hx with rfl | rfl <;> (show List.all _ _ = true; decide)
    · intro x hx i hi; simp only [List.mem_cons, List.not_mem_nil, or_false] at hx
      rcases hx with rfl | rfl <;> cases hi
    · simp [FormsDiffer2, FormsDiffer]
  · have : assignAll [{ name := ['a', ' ', 'b'] }, { name := ['a', '$', 'b'] }] =
        [{ name := ['a', ' ', 'b'], ident := some ['a', '_', 'b'], rename := true, assigned := true },
         { name := ['a', '$', 'b'], ident := some ['a','_','b','_','s','d','n','_','1','_'], rename := true, assigned := true }] := by
      decide
    rw [this]
    exact .cons ⟨rfl, rfl⟩ (.cons ⟨rfl, rfl⟩ .nil)

def topCell : CDef :=
  { data := [(Edif.kNAME, .str ['t', 'o', 'p']), (Edif.kIDENT, .str ['t', 'o', 'p'])],
    ports := [{ data := portData[0]!, dir := .inp, width := 1 }, { data := portData[1]!, dir := .out, width := 1 }] }

def lib0 : CLib := { data := [(Edif.kNAME, .str ['w', 'o', 'r', 'k']), (Edif.kIDENT, .str ['w', 'o', 'r', 'k'])], defs := [topCell] }

def tinst : CInst := { data := [(Edif.kNAME, .str ['t']), (Edif.kIDENT, .str ['t'])], ref := some (0, 0) }

def n1 : CNetlist := { data := [(Edif.kNAME, .str ['n']), (Edif.kIDENT, .str ['n'])], libs := [lib0], top := some tinst }

theorem n1_names : NamesFromPrepass n1 tinst := by
  refine ⟨?_, ?_, ?_, ?_, ?_, ?_, ?_⟩
  · exact single ['w', 'o', 'r', 'k'] (by decide) (by show List.all _ _ = true; decide) (by decide)
  · intro l hl; simp only [n1, List.mem_cons, List.not_mem_nil, or_false] at hl; subst hl
    exact single ['t', 'o', 'p'] (by decide) (by show List.all _ _ = true; decide) (by decide)
  · intro l hl d hd
    simp only [n1, List.mem_cons, List.not_mem_nil, or_false] at hl; subst hl
    simp only [lib0, List.mem_cons, List.not_mem_nil, or_false] at hd; subst hd
    exact ports_fromPrepass
  · intro l hl d hd
    simp only [n1, List.mem_cons, List.not_mem_nil, or_false] at hl; subst hl
    simp only [lib0, List.mem_cons, List.not_mem_nil, or_false] at hd; subst hd
    exact nil_fromPrepass
  · intro l hl d hd
    simp only [n1, List.mem_cons, List.not_mem_nil, or_false] at hl; subst hl
    simp only [lib0, List.mem_cons, List.not_mem_nil, or_false] at hd; subst hd
    exact nil_fromPrepass
  · exact single ['n'] (by decide) (by show List.all _ _ = true; decide) (by decide)
  · exact single ['t'] (by decide) (by show List.all _ _ = true; decide) (by decide)

theorem n1_residual : Residual n1 none none tinst 0 0 := by
  refine
    { portWidth := ?_, instRef := ?_, instProps := ?_, cableWires := ?_, cablePins := ?_, pinsOnce := ?_,
      scalarPlain := ?_, busBracket := ?_, busLength := ?_,
      status := ⟨rfl, by simp, by simp, by simp⟩, top := rfl, tref := rfl, ttarget := ⟨lib0, topCell, rfl, rfl⟩ }
  · intro l hl d hd p hp
    simp only [n1, List.mem_cons, List.not_mem_nil, or_false] at hl; subst hl
    simp only [lib0, List.mem_cons, List.not_mem_nil, or_false] at hd; subst hd
    simp only [topCell, List.mem_cons, List.not_mem_nil, or_false] at hp
    rcases hp with rfl | rfl <;> exact ⟨by decide, fun _ => rfl⟩
  all_goals
    first
    | (intro L l hL D d hD i hi
       have hl : l = lib0 := by
         have := List.mem_of_getElem? hL; simpa [n1] using this
       subst hl
       have hd : d = topCell := by
         have := List.mem_of_getElem? hD; simpa [lib0] using this
       subst hd
       simp [topCell] at hi)
    | (intro l hl d hd
       simp only [n1, List.mem_cons, List.not_mem_nil, or_false] at hl; subst hl
       simp only [lib0, List.mem_cons, List.not_mem_nil, or_false] at hd; subst hd
       simp [topCell])

/-- the example netlist is written to a text that reads back with the original names `a b`, `a$b` -/
example : ∃ text n', Edif.composeE [2026, 9, 28, 1, 2, 3] n1 = .ok text ∧ Edif.readEdif text = .ok n' ∧
    Edif.view03 n' = Edif.view03 n1 :=
  prepass_file_readable n1 none none tinst 0 0 2026 9 28 1 2 3 n1_names n1_residual (by
    intro l hl d hd c hc
    simp only [n1, List.mem_cons, List.not_mem_nil, or_false] at hl; subst hl
    simp only [lib0, List.mem_cons, List.not_mem_nil, or_false] at hd; subst hd
    simp [topCell] at hc)

end Spydr.Names.Bridge.Example
