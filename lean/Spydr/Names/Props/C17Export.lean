/-
  C17, last clause, end to end on the models: for ANY value-level netlist `n` whose names are inside
  C17's quantifier (`NameHyp`: every element named, sibling names different, free of `"`, CR, LF;
  identifiers that exist already legal and distinct; scopes not astronomically large), the netlist the
  writer's naming pre-pass produces, `passNet n`,

    * satisfies every naming clause of the EDIF model's `WFNet` (`names_of_passNet`),
    * hence — with the residual clauses (`Residual`, see Props/C17Bridge.lean) — is written to a text
      the reader accepts, and
    * the netlist read back has the view of the ORIGINAL netlist `n`: same libraries, cells, ports,
      instances, nets, and the same original names (`view03_passNet`).
-/
import Spydr.Names.LemmasBridgeNet

namespace Spydr.Names.Bridge
open Spydr Spydr.Names
open Spydr.Edif (CNetlist CLib CDef CPort CCable CInst Data)

/-! ### the pre-pass changes nothing the view looks at -/

theorem get?_store (d : Data) (y : Sib) (k : Str) (h1 : k ≠ Edif.kIDENT) (h2 : k ≠ kRENAME) :
    (store d y).get? k = d.get? k := by
  unfold store
  split
  · rfl
  · simp only
    split
    · rw [Edif.Data.get?_set_other _ _ _ _ h2, Edif.Data.get?_set_other _ _ _ _ h1]
    · rw [Edif.Data.get?_set_other _ _ _ _ h1]

theorem specName_store (d : Data) (y : Sib) : Edif.specName (store d y) = Edif.specName d := by
  unfold Edif.specName Edif.Data.getStr?
  rw [get?_store d y _ kNAME_ne_kIDENT kNAME_ne_kRENAME]

theorem kPROPSs_ne_kIDENT : ("EDIF.properties".toList : Str) ≠ Edif.kIDENT := by decide
theorem kPROPSs_ne_kRENAME : ("EDIF.properties".toList : Str) ≠ kRENAME := by decide

theorem specProps_store (d : Data) (y : Sib) : Edif.specProps (store d y) = Edif.specProps d := by
  unfold Edif.specProps
  rw [get?_store d y _ kPROPSs_ne_kIDENT kPROPSs_ne_kRENAME]

theorem assignAll_length (l : List Sib) : (assignAll l).length = l.length := by
  have := congrArg List.length (show (assignAll l).map (·.name) = l.map (·.name) by
    simpa [assignAll] using assignGo_names l [])
  simpa using this

theorem map_passOver {α β : Type} (get : α → Data) (put : α → Data → α) (bits : α → List Nat) (v : α → β)
    (hv : ∀ x y, v (put x (store (get x) y)) = v x) (xs : List α) :
    (passOver get put bits xs).map v = xs.map v := by
  unfold passOver passList
  have hlen : (assignAll ((xs.map fun x => (bits x, get x)).map sibOf)).length = xs.length := by
    rw [assignAll_length]; simp
  rw [List.map_map]
  have hfun : ((·.2) ∘ fun x => (bits x, get x)) = get := by funext x; rfl
  rw [hfun]
  generalize assignAll ((xs.map fun x => (bits x, get x)).map sibOf) = ys at hlen
  induction xs generalizing ys with
  | nil => simp
  | cons x xs ih =>
    cases ys with
    | nil => simp at hlen
    | cons y ys =>
      simp only [List.map_cons, List.zipWith_cons_cons, hv, List.cons.injEq, true_and]
      exact ih ys (by simpa using hlen)

theorem view03Cell_passDef (d : CDef) : Edif.view03Cell (passDef d) = Edif.view03Cell d := by
  simp only [Edif.view03Cell, passDef, passPorts, passInsts, passCables]
  rw [map_passOver (·.data) (fun (p : CPort) x => { p with data := x }) _ Edif.view03Port
        (fun x y => by simp [Edif.view03Port, specName_store, CPort.isArray, CPort.isScalar]),
      map_passOver (·.data) (fun (i : CInst) x => { i with data := x }) _ Edif.view03Inst
        (fun x y => by simp [Edif.view03Inst, specName_store, specProps_store]),
      map_passOver (·.data) (fun (c : CCable) x => { c with data := x }) _ Edif.view03Net
        (fun x y => by simp [Edif.view03Net, specName_store])]

theorem view03Lib_passLib (l : CLib) : Edif.view03Lib (passLib l) = Edif.view03Lib l := by
  simp only [Edif.view03Lib, passLib, passDefs, List.map_map]
  congr 1
  have hf : (Edif.view03Cell ∘ passDef) = Edif.view03Cell := by funext d; exact view03Cell_passDef d
  rw [hf]
  exact map_passOver (·.data) (fun (d : CDef) x => { d with data := x }) _ Edif.view03Cell
    (fun x y => by simp [Edif.view03Cell, specName_store]) l.defs

theorem passOne_eq_store (d : Data) : ∃ y, passOne d = store d y := by
  have h := passOne_singleton d
  unfold passList at h
  cases hys : assignAll ([([], d)].map sibOf) with
  | nil =>
    have := assignAll_length ([([], d)].map sibOf)
    rw [hys] at this; simp at this
  | cons y ys =>
    rw [hys] at h
    simp only [List.map_cons, List.map_nil, List.zipWith_cons_cons] at h
    exact ⟨y, (List.cons.inj h).1⟩

/-- **the pre-pass does not change the view**: names, structure, properties of `passNet n` are those
    of `n` (it only adds `EDIF.identifier` / `EDIF.rename`). -/
theorem view03_passNet (n : CNetlist) : Edif.view03 (passNet n) = Edif.view03 n := by
  obtain ⟨y, hy⟩ := passOne_eq_store n.data
  simp only [Edif.view03, passNet, hy, specName_store]
  congr 1
  · simp only [passLibs, List.map_map]
    have hf : (Edif.view03Lib ∘ passLib) = Edif.view03Lib := by funext l; exact view03Lib_passLib l
    rw [hf]
    exact map_passOver (·.data) (fun (l : CLib) x => { l with data := x }) (fun _ => []) Edif.view03Lib
      (fun x y => by simp [Edif.view03Lib, specName_store]) n.libs
  · cases n.top with
    | none => rfl
    | some t =>
      obtain ⟨yt, hyt⟩ := passOne_eq_store t.data
      simp [passTop, hyt, specName_store]

/-! ### the theorem -/

/-- **export_readable** — C17's "hence" on the models, CONDITIONAL on `Residual`.  For every netlist `n`
    with top instance `t` whose names are inside `NameHyp` (every element named; sibling names different
    and free of `"`, CR, LF; identifiers that exist before the pass legal and their written forms
    pairwise different; scopes not astronomically large), IF the netlist after the naming pre-pass
    satisfies `Residual` — which contains, besides the structural clauses, three clauses about names /
    identifiers that are exactly the open findings (`busLength`: compose_parse.bus-bit-identifier-too-long;
    `scalarPlain`: compose_parse.cable-name-bracket-index; `busBracket`: compose_parse.backslash-bus-cable) —
    then the TEXT the writer lays out for it is accepted by the reader and the netlist read back shows the
    view of the ORIGINAL `n`, original names included.  In short: readable provided the three pinned name
    classes are avoided (see `export_readable_outside_pinned_classes` for the statement with the two
    groups of hypotheses separated). -/
theorem export_readable (n : CNetlist) (prog ver : Option Edif.Str) (t : CInst) (li di : Nat)
    (y mo d h mi s : Nat) (hn : NameHyp n t)
    (hr : Residual (passNet n) prog ver (passTop t) li di) (h0 : Edif.ScalarLower0 (passNet n)) :
    ∃ text n', Edif.composeE [y, mo, d, h, mi, s] (passNet n) = .ok text ∧ Edif.readEdif text = .ok n' ∧
      Edif.view03 n' = Edif.view03 n := by
  obtain ⟨text, n', hw, hrd, hv⟩ :=
    prepass_file_readable (passNet n) prog ver (passTop t) li di y mo d h mi s (names_of_passNet n t hn) hr h0
  exact ⟨text, n', hw, hrd, by rw [hv, view03_passNet]⟩

/-- the naming clauses of `WFNet` hold for `passNet n` outright -/
theorem passNet_naming_clauses (n : CNetlist) (t : CInst) (hn : NameHyp n t) :
    (∀ l ∈ (passNet n).libs, Edif.NamedOK l.data (Edif.idOf l.data) (Edif.nmOf l.data)) ∧
    Edif.Distinct ((passNet n).libs.map (·.data)) ∧
    (∀ l ∈ (passNet n).libs, (∀ d ∈ l.defs, Edif.NamedOK d.data (Edif.idOf d.data) (Edif.nmOf d.data)) ∧
      Edif.Distinct (l.defs.map (·.data)) ∧
      ∀ d ∈ l.defs,
        (∀ p ∈ d.ports, Edif.NamedOK p.data (Edif.idOf p.data) (Edif.nmOf p.data)) ∧ Edif.Distinct (d.ports.map (·.data)) ∧
        (∀ i ∈ d.insts, Edif.NamedOK i.data (Edif.idOf i.data) (Edif.nmOf i.data)) ∧ Edif.Distinct (d.insts.map (·.data)) ∧
        (∀ c ∈ d.cables, Edif.NamedOK c.data (Edif.idOf c.data) (Edif.nmOf c.data)) ∧ Edif.Distinct (d.cables.map (·.data))) := by
  have hp := names_of_passNet n t hn
  refine ⟨fun l hl => named_of_scope hp.libs hl, (fromPrepass_named_distinct hp.libs).2, ?_⟩
  intro l hl
  refine ⟨fun d hd => named_of_scope (hp.defs l hl) hd, (fromPrepass_named_distinct (hp.defs l hl)).2, ?_⟩
  intro d hd
  exact ⟨fun p hpp => named_of_scope (hp.ports l hl d hd) hpp, (fromPrepass_named_distinct (hp.ports l hl d hd)).2,
    fun i hi => named_of_scope (hp.insts l hl d hd) hi, (fromPrepass_named_distinct (hp.insts l hl d hd)).2,
    fun c hc => named_of_scope (hp.cables l hl d hd) hc, (fromPrepass_named_distinct (hp.cables l hl d hd)).2⟩

/-! ### the same, with the residual split into "avoids the pinned name classes" and "structure" -/

/-- the three clauses of `Residual` that concern names / identifiers — each is the negation of an open
    finding's sub-domain -/
structure AvoidsPinnedClasses (n : CNetlist) : Prop where
  /-- not compose_parse.cable-name-bracket-index: a scalar net is not named like a bus bit `x[3]` -/
  scalarPlain : ∀ l ∈ n.libs, ∀ d ∈ l.defs, ∀ c ∈ d.cables, c.wires.length = 1 → c.isArray = false →
    (Edif.sepName (Edif.nmOf c.data)).1 = none
  /-- not compose_parse.backslash-bus-cable: the reader splits `[k]` off the per-wire name of a bus -/
  busBracket : ∀ l ∈ n.libs, ∀ d ∈ l.defs, ∀ c ∈ d.cables, ¬ (c.wires.length = 1 ∧ c.isArray = false) →
    ∀ k, k < c.wires.length → Edif.bracketAllowed (Edif.bitName (Edif.nmOf c.data) (k + c.lower)) = true
  /-- not compose_parse.bus-bit-identifier-too-long: the per-wire identifier of a bus fits the limit -/
  busLength : ∀ l ∈ n.libs, ∀ d ∈ l.defs, ∀ c ∈ d.cables, ¬ (c.wires.length = 1 ∧ c.isArray = false) →
    ∀ k, k < c.wires.length → (Edif.idOf c.data).length + (Edif.natStr (k + c.lower)).length + 2 ≤ 255

/-- the clauses of `Residual` that have nothing to do with names -/
structure Structural (n : CNetlist) (prog ver : Option Edif.Str) (t : CInst) (li di : Nat) : Prop where
  portWidth : ∀ l ∈ n.libs, ∀ d ∈ l.defs, ∀ p ∈ d.ports, 1 ≤ p.width ∧ (p.isArray = false → p.width = 1)
  instRef : ∀ L l, n.libs[L]? = some l → ∀ D d, l.defs[D]? = some d → ∀ i ∈ d.insts,
    ∃ li di l2 rd, i.ref = some (li, di) ∧ n.libs[li]? = some l2 ∧ l2.defs[di]? = some rd ∧ Edif.Before L D li di
  instProps : ∀ l ∈ n.libs, ∀ d ∈ l.defs, ∀ i ∈ d.insts,
    i.data.get? Edif.kPROPS = none ∨
      ∃ ps, i.data.get? Edif.kPROPS = some (.list ps) ∧
        ∀ v ∈ ps, ∃ t, Edif.decodeProp v = some t ∧ Edif.PropOK t.1 t.2.1 t.2.2
  cableWires : ∀ l ∈ n.libs, ∀ d ∈ l.defs, ∀ c ∈ d.cables, c.wires ≠ []
  cablePins : ∀ l ∈ n.libs, ∀ d ∈ l.defs, ∀ c ∈ d.cables, ∀ w ∈ c.wires, ∀ pin ∈ w, Edif.PinWF n.libs d pin
  pinsOnce : ∀ l ∈ n.libs, ∀ d ∈ l.defs, (d.cables.flatMap (fun c => c.wires.flatten)).Nodup
  status : Edif.StatusOK n.data prog ver
  top : n.top = some t
  tref : t.ref = some (li, di)
  ttarget : ∃ l d, n.libs[li]? = some l ∧ l.defs[di]? = some d

theorem residual_of_parts {n : CNetlist} {prog ver : Option Edif.Str} {t : CInst} {li di : Nat}
    (ha : AvoidsPinnedClasses n) (hs : Structural n prog ver t li di) : Residual n prog ver t li di :=
  { portWidth := hs.portWidth, instRef := hs.instRef, instProps := hs.instProps, cableWires := hs.cableWires,
    cablePins := hs.cablePins, pinsOnce := hs.pinsOnce, scalarPlain := ha.scalarPlain, busBracket := ha.busBracket,
    busLength := ha.busLength, status := hs.status, top := hs.top, tref := hs.tref, ttarget := hs.ttarget }

/-- **export_readable_outside_pinned_classes** — names inside `NameHyp`, the three pinned name classes
    avoided, the netlist structurally sound ⇒ the written text is accepted by the reader and shows the
    original names. -/
theorem export_readable_outside_pinned_classes (n : CNetlist) (prog ver : Option Edif.Str) (t : CInst) (li di : Nat)
    (y mo d h mi s : Nat) (hn : NameHyp n t) (ha : AvoidsPinnedClasses (passNet n))
    (hs : Structural (passNet n) prog ver (passTop t) li di) (h0 : Edif.ScalarLower0 (passNet n)) :
    ∃ text n', Edif.composeE [y, mo, d, h, mi, s] (passNet n) = .ok text ∧ Edif.readEdif text = .ok n' ∧
      Edif.view03 n' = Edif.view03 n :=
  export_readable n prog ver t li di y mo d h mi s hn (residual_of_parts ha hs) h0

end Spydr.Names.Bridge

/-! ### non-vacuity of `export_readable`: a netlist with the ports `a b` and `a$b`, no identifiers yet -/
namespace Spydr.Names.Bridge.Example2
open Spydr Spydr.Names Spydr.Names.Bridge
open Spydr.Edif (CNetlist CLib CDef CPort CCable CInst Data)

def nmd (s : List Char) : Data := [(Edif.kNAME, .str s)]
def mkd (s i : List Char) (r : Bool) : Data :=
  if r then [(Edif.kNAME, .str s), (Edif.kIDENT, .str i), (kRENAME, .bool true)] else [(Edif.kNAME, .str s), (Edif.kIDENT, .str i)]

def cell0 : CDef :=
  { data := nmd ['t','o','p'],
    ports := [{ data := nmd ['a',' ','b'], dir := .inp, width := 1 }, { data := nmd ['a','$','b'], dir := .out, width := 1 }] }
def t0 : CInst := { data := nmd ['t'], ref := some (0, 0) }
def lib0 : CLib := { data := nmd ['w','o','r','k'], defs := [cell0] }
def n0 : CNetlist := { data := nmd ['n'], libs := [lib0], top := some t0 }

def cell1 : CDef :=
  { data := mkd ['t','o','p'] ['t','o','p'] false,
    ports := [{ data := mkd ['a',' ','b'] ['a','_','b'] true, dir := .inp, width := 1 },
              { data := mkd ['a','$','b'] ['a','_','b','_','s','d','n','_','1','_'] true, dir := .out, width := 1 }] }
def t1 : CInst := { data := mkd ['t'] ['t'] false, ref := some (0, 0) }
def lib1 : CLib := { data := mkd ['w','o','r','k'] ['w','o','r','k'] false, defs := [cell1] }
def n1 : CNetlist := { data := mkd ['n'] ['n'] false, libs := [lib1], top := some t1 }

theorem pass_n0 : passNet n0 = n1 := by with_unfolding_all rfl
theorem pass_t0 : passTop t0 = t1 := by with_unfolding_all rfl

theorem scopeOK_single (s : List Char) (hs : s ≠ []) (hq : QuoteFree s) : ScopeOK [([], nmd s)] := by
  refine ⟨?_, ?_⟩
  · intro p hp; simp only [List.mem_cons, List.not_mem_nil, or_false] at hp; subst hp; exact ⟨s, rfl⟩
  · have hsib : [(([] : List Nat), nmd s)].map sibOf = [{ name := s }] := by
      with_unfolding_all rfl
    rw [hsib]
    refine ⟨?_, by simp [totalWeight, weight, weightBound], by simp, ?_, ?_, by simp⟩
    · intro x hx; simp only [List.mem_cons, List.not_mem_nil, or_false] at hx; subst hx; exact hs
    · intro x hx; simp only [List.mem_cons, List.not_mem_nil, or_false] at hx; subst hx; exact hq
    · intro x hx i hi; simp only [List.mem_cons, List.not_mem_nil, or_false] at hx; subst hx; cases hi

theorem scopeOK_nil : ScopeOK [] :=
  ⟨by simp, ⟨by simp, by simp [totalWeight, weightBound], by simp, by simp, by simp, by simp⟩⟩

theorem n0_nameHyp : NameHyp n0 t0 := by
  have hports : ScopeOK (cell0.ports.map fun p => ([], p.data)) := by
    refine ⟨?_, ?_⟩
    · intro p hp
      simp only [cell0, List.map_cons, List.map_nil, List.mem_cons, List.not_mem_nil, or_false] at hp
      rcases hp with rfl | rfl
      · exact ⟨_, rfl⟩
      · exact ⟨_, rfl⟩
    · have hsib : (cell0.ports.map fun p => (([] : List Nat), p.data)).map sibOf =
          [{ name := ['a',' ','b'] }, { name := ['a','$','b'] }] := by
        with_unfolding_all rfl
      rw [hsib]
      refine ⟨by decide, by simp [totalWeight, weight, weightBound], by decide, ?_, ?_, ?_⟩
      · intro x hx; simp only [List.mem_cons, List.not_mem_nil, or_false] at hx
        rcases hx with rfl | rfl <;> (show List.all _ _ = true; decide)
      · intro x hx i hi; simp only [List.mem_cons, List.not_mem_nil, or_false] at hx
        rcases hx with rfl | rfl <;> cases hi
      · simp [FormsDiffer2, FormsDiffer]
  refine ⟨?_, ?_, ?_, ?_, ?_, ?_, ?_⟩
  · exact scopeOK_single _ (by decide) (by show List.all _ _ = true; decide)
  · intro l hl; simp only [n0, List.mem_cons, List.not_mem_nil, or_false] at hl; subst hl
    exact scopeOK_single _ (by decide) (by show List.all _ _ = true; decide)
  · intro l hl d hd
    simp only [n0, List.mem_cons, List.not_mem_nil, or_false] at hl; subst hl
    simp only [lib0, List.mem_cons, List.not_mem_nil, or_false] at hd; subst hd
    exact hports
  · intro l hl d hd
    simp only [n0, List.mem_cons, List.not_mem_nil, or_false] at hl; subst hl
    simp only [lib0, List.mem_cons, List.not_mem_nil, or_false] at hd; subst hd
    exact scopeOK_nil
  · intro l hl d hd
    simp only [n0, List.mem_cons, List.not_mem_nil, or_false] at hl; subst hl
    simp only [lib0, List.mem_cons, List.not_mem_nil, or_false] at hd; subst hd
    exact scopeOK_nil
  · exact scopeOK_single _ (by decide) (by show List.all _ _ = true; decide)
  · exact scopeOK_single _ (by decide) (by show List.all _ _ = true; decide)

theorem n1_residual : Residual n1 none none t1 0 0 := by
  refine
    { portWidth := ?_, instRef := ?_, instProps := ?_, cableWires := ?_, cablePins := ?_, pinsOnce := ?_,
      scalarPlain := ?_, busBracket := ?_, busLength := ?_,
      status := ⟨rfl, by simp, by simp, by simp⟩, top := rfl, tref := rfl, ttarget := ⟨lib1, cell1, rfl, rfl⟩ }
  · intro l hl d hd p hp
    simp only [n1, List.mem_cons, List.not_mem_nil, or_false] at hl; subst hl
    simp only [lib1, List.mem_cons, List.not_mem_nil, or_false] at hd; subst hd
    simp only [cell1, List.mem_cons, List.not_mem_nil, or_false] at hp
    rcases hp with rfl | rfl <;> exact ⟨by decide, fun _ => rfl⟩
  all_goals
    first
    | (intro L l hL D d hD i hi
       have hl : l = lib1 := by
         have := List.mem_of_getElem? hL; simpa [n1] using this
       subst hl
       have hd : d = cell1 := by
         have := List.mem_of_getElem? hD; simpa [lib1] using this
       subst hd
       simp [cell1] at hi)
    | (intro l hl d hd
       simp only [n1, List.mem_cons, List.not_mem_nil, or_false] at hl; subst hl
       simp only [lib1, List.mem_cons, List.not_mem_nil, or_false] at hd; subst hd
       simp [cell1])

/-- the netlist with ports `a b`, `a$b` and no identifiers: after the naming pre-pass the written text is
    accepted by the reader and shows the original names -/
example : ∃ text n', Edif.composeE [2026, 9, 28, 1, 2, 3] (passNet n0) = .ok text ∧ Edif.readEdif text = .ok n' ∧
    Edif.view03 n' = Edif.view03 n0 :=
  export_readable n0 none none t0 0 0 2026 9 28 1 2 3 n0_nameHyp (by rw [pass_n0, pass_t0]; exact n1_residual) (by
    rw [pass_n0]
    intro l hl d hd c hc
    simp only [n1, List.mem_cons, List.not_mem_nil, or_false] at hl; subst hl
    simp only [lib1, List.mem_cons, List.not_mem_nil, or_false] at hd; subst hd
    simp [cell1] at hc)

end Spydr.Names.Bridge.Example2
