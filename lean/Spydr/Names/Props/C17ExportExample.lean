/-
  Non-vacuity of the bridge (`export_readable`) on a netlist that exercises every clause of
  `NameHyp`, `Residual` and `ScalarLower0` non-trivially: two cells, two instances of one in the other,
  a bus with two wires on instance pins, scalar nets, names that need sanitising, a case collision and a
  sanitised-to-same collision.  Everything is PROVED for this netlist (no hypothesis left).
-/
import Spydr.Names.Props.C17Export
namespace Spydr.Names.Bridge.Example3
open Spydr Spydr.Names Spydr.Names.Bridge
open Spydr.Edif (CNetlist CLib CDef CPort CCable CInst Data CPin)

def nmd (s : String) : Data := [(Edif.kNAME, .str s.toList)]

def leaf0 : CDef :=
  { data := nmd "leaf",
    ports := [{ data := nmd "A", dir := .inp, width := 1 }, { data := nmd "B.out", dir := .out, width := 2, scalarFlag := false }] }

def top0 : CDef :=
  { data := nmd "top$",
    ports := [{ data := nmd "a$b", dir := .inp, width := 1 }],
    insts := [{ data := nmd "U1", ref := some (0, 0) }, { data := nmd "u1", ref := some (0, 0) }],
    cables := [{ data := nmd "n-1", wires := [[.port 0 0, .inst 0 0 0]] },
               { data := nmd "Data[3]", scalarFlag := false, lower := 3, wires := [[.inst 0 1 0], [.inst 0 1 1]] },
               { data := nmd "N-1", wires := [[.inst 1 0 0]] }] }

def lib0 : CLib := { data := nmd "work lib", defs := [leaf0, top0] }
def t0 : CInst := { data := nmd "t", ref := some (0, 1) }
def n0 : CNetlist := { data := nmd "my design", libs := [lib0], top := some t0 }


def mkd (s i : String) : Data :=
  if s = i then [(Edif.kNAME, .str s.toList), (Edif.kIDENT, .str i.toList)]
  else [(Edif.kNAME, .str s.toList), (Edif.kIDENT, .str i.toList), (kRENAME, .bool true)]

def leaf1 : CDef :=
  { data := mkd "leaf" "leaf",
    ports := [{ data := mkd "A" "A", dir := .inp, width := 1 },
              { data := mkd "B.out" "B_out", dir := .out, width := 2, scalarFlag := false }] }

def top1 : CDef :=
  { data := mkd "top$" "top_",
    ports := [{ data := mkd "a$b" "a_b", dir := .inp, width := 1 }],
    insts := [{ data := mkd "U1" "u1_sdn_1_", ref := some (0, 0) }, { data := mkd "u1" "u1_sdn_2_", ref := some (0, 0) }],
    cables := [{ data := mkd "n-1" "n_1", wires := [[.port 0 0, .inst 0 0 0]] },
               { data := mkd "Data[3]" "Data_3_", scalarFlag := false, lower := 3, wires := [[.inst 0 1 0], [.inst 0 1 1]] },
               { data := mkd "N-1" "n_1_sdn_1_", wires := [[.inst 1 0 0]] }] }

def lib1 : CLib := { data := mkd "work lib" "work_lib", defs := [leaf1, top1] }
def t1 : CInst := { data := mkd "t" "t", ref := some (0, 1) }
def n1 : CNetlist := { data := mkd "my design" "my_design", libs := [lib1], top := some t1 }

/-- the writer's naming pre-pass on `n0`, computed: `U1`/`u1` collide ignoring case, `n-1`/`N-1` sanitise
    to the same identifier in different case, `a$b`, `top$`, `B.out`, `work lib`, `my design`, `Data[3]`
    need sanitising -/
theorem pass_n0 : passNet n0 = n1 := by with_unfolding_all rfl
theorem pass_t0 : passTop t0 = t1 := by with_unfolding_all rfl

instance (s : Str) : Decidable (QuoteFree s) := by unfold QuoteFree; infer_instance

/-- a scope none of whose elements has an identifier yet -/
theorem scopeOK_fresh (ps : List (List Nat × Data)) (l : List Sib) (hsib : ps.map sibOf = l)
    (hnamed : ∀ p ∈ ps, ∃ nm, p.2.get? Edif.kNAME = some (.str nm))
    (hn : ∀ x ∈ l, x.name ≠ []) (hw : totalWeight l ≤ weightBound) (hnd : (l.map (·.name)).Nodup)
    (hq : ∀ x ∈ l, QuoteFree x.name) (hnone : ∀ x ∈ l, x.ident = none) : ScopeOK ps := by
  refine ⟨hnamed, ?_⟩
  rw [hsib]
  refine ⟨hn, hw, hnd, hq, ?_, ?_⟩
  · intro x hx i hi; rw [hnone x hx] at hi; cases hi
  · apply List.Pairwise.imp_of_mem (R := fun _ _ => True)
    · intro a b ha hb _
      refine ⟨fun i j hi _ => ?_, fun i j hi _ => ?_⟩
      · rw [hnone a ha] at hi; cases hi
      · rw [hnone b hb] at hi; cases hi
    · exact List.pairwise_of_forall (fun _ _ => trivial)

theorem named_nmd (s : String) : ∃ nm, (nmd s).get? Edif.kNAME = some (.str nm) := ⟨s.toList, rfl⟩

theorem wb (k : Nat) (h : k ≤ 100) : k ≤ weightBound := by simp only [weightBound]; omega

theorem scope_libs : ScopeOK (n0.libs.map fun l => ([], l.data)) :=
  scopeOK_fresh _ [{ name := "work lib".toList }] (by with_unfolding_all rfl)
    (by intro p hp; simp only [n0, List.map_cons, List.map_nil, List.mem_cons, List.not_mem_nil, or_false] at hp
        subst hp; exact named_nmd _)
    (by decide) (wb _ (by decide)) (by decide) (by decide) (by decide)

theorem scope_defs : ScopeOK (lib0.defs.map fun d => ([], d.data)) :=
  scopeOK_fresh _ [{ name := "leaf".toList }, { name := "top$".toList }] (by with_unfolding_all rfl)
    (by intro p hp; simp only [lib0, List.map_cons, List.map_nil, List.mem_cons, List.not_mem_nil, or_false] at hp
        rcases hp with rfl | rfl <;> exact named_nmd _)
    (by decide) (wb _ (by decide)) (by decide) (by decide) (by decide)

theorem scope_leaf_ports : ScopeOK (leaf0.ports.map fun p => ([], p.data)) :=
  scopeOK_fresh _ [{ name := "A".toList }, { name := "B.out".toList }] (by with_unfolding_all rfl)
    (by intro p hp; simp only [leaf0, List.map_cons, List.map_nil, List.mem_cons, List.not_mem_nil, or_false] at hp
        rcases hp with rfl | rfl <;> exact named_nmd _)
    (by decide) (wb _ (by decide)) (by decide) (by decide) (by decide)

theorem scope_top_ports : ScopeOK (top0.ports.map fun p => ([], p.data)) :=
  scopeOK_fresh _ [{ name := "a$b".toList }] (by with_unfolding_all rfl)
    (by intro p hp; simp only [top0, List.map_cons, List.map_nil, List.mem_cons, List.not_mem_nil, or_false] at hp
        subst hp; exact named_nmd _)
    (by decide) (wb _ (by decide)) (by decide) (by decide) (by decide)

theorem scope_top_insts : ScopeOK (top0.insts.map fun i => ([], i.data)) :=
  scopeOK_fresh _ [{ name := "U1".toList }, { name := "u1".toList }] (by with_unfolding_all rfl)
    (by intro p hp; simp only [top0, List.map_cons, List.map_nil, List.mem_cons, List.not_mem_nil, or_false] at hp
        rcases hp with rfl | rfl <;> exact named_nmd _)
    (by decide) (wb _ (by decide)) (by decide) (by decide) (by decide)

theorem scope_top_cables : ScopeOK (top0.cables.map fun c => (cableBits c, c.data)) :=
  scopeOK_fresh _ [{ name := "n-1".toList }, { name := "Data[3]".toList, bits := [3, 4] }, { name := "N-1".toList }]
    (by with_unfolding_all rfl)
    (by intro p hp; simp only [top0, List.map_cons, List.map_nil, List.mem_cons, List.not_mem_nil, or_false] at hp
        rcases hp with rfl | rfl | rfl <;> exact named_nmd _)
    (by decide) (wb _ (by decide)) (by decide) (by decide) (by decide)

theorem scope_nil : ScopeOK [] := scopeOK_fresh [] [] rfl (by simp) (by simp) (wb _ (by decide)) (by simp) (by simp) (by simp)

theorem n0_nameHyp : NameHyp n0 t0 := by
  have hlib : ∀ l ∈ n0.libs, l = lib0 := by intro l hl; simpa [n0] using hl
  have hdef : ∀ d ∈ lib0.defs, d = leaf0 ∨ d = top0 := by intro d hd; simpa [lib0] using hd
  refine ⟨scope_libs, ?_, ?_, ?_, ?_, ?_, ?_⟩
  · intro l hl; rw [hlib l hl]; exact scope_defs
  · intro l hl d hd; rw [hlib l hl] at hd
    rcases hdef d hd with rfl | rfl
    · exact scope_leaf_ports
    · exact scope_top_ports
  · intro l hl d hd; rw [hlib l hl] at hd
    rcases hdef d hd with rfl | rfl
    · exact scope_nil
    · exact scope_top_insts
  · intro l hl d hd; rw [hlib l hl] at hd
    rcases hdef d hd with rfl | rfl
    · exact scope_nil
    · exact scope_top_cables
  · exact scopeOK_fresh _ [{ name := "my design".toList }] (by with_unfolding_all rfl)
      (by intro p hp; simp only [List.mem_cons, List.not_mem_nil, or_false] at hp; subst hp; exact named_nmd _)
      (by decide) (wb _ (by decide)) (by decide) (by decide) (by decide)
  · exact scopeOK_fresh _ [{ name := "t".toList }] (by with_unfolding_all rfl)
      (by intro p hp; simp only [List.mem_cons, List.not_mem_nil, or_false] at hp; subst hp; exact named_nmd _)
      (by decide) (wb _ (by decide)) (by decide) (by decide) (by decide)

theorem libs_eq {L : Nat} {l : CLib} (h : n1.libs[L]? = some l) : L = 0 ∧ l = lib1 := by
  match L, h with
  | 0, h => exact ⟨rfl, by simpa [n1] using h.symm⟩
  | L + 1, h => simp [n1] at h

theorem defs_eq {D : Nat} {d : CDef} (h : lib1.defs[D]? = some d) : (D = 0 ∧ d = leaf1) ∨ (D = 1 ∧ d = top1) := by
  match D, h with
  | 0, h => exact Or.inl ⟨rfl, by simpa [lib1] using h.symm⟩
  | 1, h => exact Or.inr ⟨rfl, by simpa [lib1] using h.symm⟩
  | D + 2, h => simp [lib1] at h

theorem mem_libs {l : CLib} (h : l ∈ n1.libs) : l = lib1 := by simpa [n1] using h
theorem mem_defs {d : CDef} (h : d ∈ lib1.defs) : d = leaf1 ∨ d = top1 := by simpa [lib1] using h

/-- pins of `top1` are in range: port 0 bit 0; instance 0/1 port `A` bit 0; instance 0 port `B.out` bits 0, 1 -/
theorem pin_port : Edif.PinWF n1.libs top1 (.port 0 0) :=
  ⟨_, rfl, by decide, fun _ => rfl⟩

theorem pin_inst (ii pi bi : Nat) (hii : ii < 2) (h : (pi = 0 ∧ bi = 0) ∨ (pi = 1 ∧ bi < 2)) :
    Edif.PinWF n1.libs top1 (.inst ii pi bi) := by
  have hi : ii = 0 ∨ ii = 1 := by omega
  rcases h with ⟨rfl, rfl⟩ | ⟨rfl, hb⟩
  · rcases hi with rfl | rfl
    · exact ⟨_, 0, 0, lib1, leaf1, _, rfl, rfl, rfl, rfl, rfl, by decide, fun _ => rfl⟩
    · exact ⟨_, 0, 0, lib1, leaf1, _, rfl, rfl, rfl, rfl, rfl, by decide, fun _ => rfl⟩
  · rcases hi with rfl | rfl
    · exact ⟨_, 0, 0, lib1, leaf1, _, rfl, rfl, rfl, rfl, rfl, hb, fun h => by simp [CPort.isArray, CPort.isScalar] at h⟩
    · exact ⟨_, 0, 0, lib1, leaf1, _, rfl, rfl, rfl, rfl, rfl, hb, fun h => by simp [CPort.isArray, CPort.isScalar] at h⟩

theorem n1_residual : Residual n1 none none t1 0 1 := by
  refine
    { portWidth := by decide +kernel
      instRef := ?_
      instProps := ?_
      cableWires := by decide +kernel
      cablePins := ?_
      pinsOnce := by decide +kernel
      scalarPlain := by decide +kernel
      busBracket := by decide +kernel
      busLength := by decide +kernel
      status := ⟨by with_unfolding_all rfl, by simp, by simp, by simp⟩
      top := rfl, tref := rfl, ttarget := ⟨lib1, top1, rfl, rfl⟩ }
  · intro L l hL D d hD i hi
    obtain ⟨rfl, rfl⟩ := libs_eq hL
    rcases defs_eq hD with ⟨rfl, rfl⟩ | ⟨rfl, rfl⟩
    · simp [leaf1] at hi
    · simp only [top1, List.mem_cons, List.not_mem_nil, or_false] at hi
      rcases hi with rfl | rfl <;> exact ⟨0, 0, lib1, leaf1, rfl, rfl, rfl, Or.inr ⟨rfl, by decide⟩⟩
  · intro l hl d hd i hi
    rw [mem_libs hl] at hd
    rcases mem_defs hd with rfl | rfl
    · simp [leaf1] at hi
    · simp only [top1, List.mem_cons, List.not_mem_nil, or_false] at hi
      rcases hi with rfl | rfl <;> exact Or.inl (by decide +kernel)
  · intro l hl d hd c hc w hw pin hp
    rw [mem_libs hl] at hd
    rcases mem_defs hd with rfl | rfl
    · simp [leaf1] at hc
    · simp only [top1, List.mem_cons, List.not_mem_nil, or_false] at hc
      rcases hc with rfl | rfl | rfl
      · simp only [List.mem_cons, List.not_mem_nil, or_false] at hw; subst hw
        simp only [List.mem_cons, List.not_mem_nil, or_false] at hp
        rcases hp with rfl | rfl
        · exact pin_port
        · exact pin_inst 0 0 0 (by decide) (Or.inl ⟨rfl, rfl⟩)
      · simp only [List.mem_cons, List.not_mem_nil, or_false] at hw
        rcases hw with rfl | rfl <;> (simp only [List.mem_cons, List.not_mem_nil, or_false] at hp; subst hp)
        · exact pin_inst 0 1 0 (by decide) (Or.inr ⟨rfl, by decide⟩)
        · exact pin_inst 0 1 1 (by decide) (Or.inr ⟨rfl, by decide⟩)
      · simp only [List.mem_cons, List.not_mem_nil, or_false] at hw; subst hw
        simp only [List.mem_cons, List.not_mem_nil, or_false] at hp; subst hp
        exact pin_inst 1 0 0 (by decide) (Or.inl ⟨rfl, rfl⟩)

theorem n1_scalarLower0 : Edif.ScalarLower0 n1 := by unfold Edif.ScalarLower0; decide +kernel

/-- **non-vacuity of `export_readable` on a netlist that exercises every clause**: two cells, two
    instances of one in the other whose names collide ignoring case, a two-wire bus `Data[3]` (base
    index 3) on instance pins, two scalar nets whose names sanitise to the same identifier in different
    case, names that need sanitising.  The text written after the naming pre-pass is accepted by the
    reader and shows the original names. -/
theorem example_export : ∃ text n', Edif.composeE [2026, 9, 28, 1, 2, 3] (passNet n0) = .ok text ∧
    Edif.readEdif text = .ok n' ∧ Edif.view03 n' = Edif.view03 n0 :=
  export_readable n0 none none t0 0 1 2026 9 28 1 2 3 n0_nameHyp
    (by rw [pass_n0, pass_t0]; exact n1_residual) (by rw [pass_n0]; exact n1_scalarLower0)

end Spydr.Names.Bridge.Example3
