/-
  Spydr.Names.Spec — what property C17 demands, written without reference to the model.

  * `checkEdifIdentifier` : identifier legality exactly as the EDIF namespace enforces it on read
    (`EdifNamespace._check_EDIF_identifier`, spydrnet/plugins/namespace_manager/edif_namespace.py:26-38):
      `&` form : 2 ≤ length ≤ 256 and `^&[0-9A-Za-z_]+$`
      plain    : 1 ≤ length ≤ 255, first character a letter, `^[0-9A-Za-z_]+$`
  * `scopeOk` : P for one namespace scope after the writer's pre-pass, on observations
    (name, identifier, rename flag, "the writer assigned this identifier").
  No Mathlib, no import of the model.
-/
namespace Spydr.Names.Spec

/-- `[A-Za-z]` -/
def isLetter (c : Char) : Bool :=
  (decide ('a'.toNat ≤ c.toNat) && decide (c.toNat ≤ 'z'.toNat)) ||
  (decide ('A'.toNat ≤ c.toNat) && decide (c.toNat ≤ 'Z'.toNat))

/-- `[0-9A-Za-z_]` -/
def idChar (c : Char) : Bool :=
  isLetter c || (decide ('0'.toNat ≤ c.toNat) && decide (c.toNat ≤ '9'.toNat)) || c == '_'

def checkEdifIdentifier (s : List Char) : Bool :=
  match s with
  | [] => false
  | c :: r =>
      if c == '&' then decide (2 ≤ s.length) && decide (s.length ≤ 256) && r.all idChar
      else decide (s.length ≤ 255) && isLetter c && r.all idChar

/-- ASCII case folding, written out (A-Z ↦ a-z by code point). -/
def foldChar (c : Char) : Char :=
  if 'A'.toNat ≤ c.toNat ∧ c.toNat ≤ 'Z'.toNat then Char.ofNat (c.toNat + 32) else c

/-- equal ignoring (ASCII) letter case -/
def ciEq (a b : List Char) : Bool := a.map foldChar == b.map foldChar

/-- what is observed of one element after the pre-pass -/
structure Obs where
  name : List Char
  ident : List Char
  rename : Bool
  /-- the identifier was assigned by the writer in this pass (it had none before) -/
  assigned : Bool
  /-- wire indices of a cable that is written wire by wire (several wires, or an array); `[]` otherwise -/
  bits : List Nat := []
  deriving Repr

/-- identifier of one wire of a bus as the writer forms it: `<identifier>_<index>_` -/
def wireIdent (id : List Char) (i : Nat) : List Char := id ++ '_' :: (toString i).toList ++ ['_']

/-- every identifier the file contains for an element: its own, and one per wire of a bus -/
def emitted (o : Obs) : List (List Char) := o.ident :: o.bits.map (wireIdent o.ident)

/-- all ways to write `l = pre ++ x :: post` -/
def splits {α : Type} : List α → List (List α × α × List α)
  | [] => []
  | x :: xs => ([], x, xs) :: (splits xs).map (fun (p, y, q) => (x :: p, y, q))

/-- P for one element in its scope: identifier legal; every identifier written for it differs,
    ignoring case, from the name and from every written identifier of every sibling; a changed name
    is flagged as a rename. -/
def elemOk (pre : List Obs) (x : Obs) (post : List Obs) : Bool :=
  checkEdifIdentifier x.ident &&
  (pre ++ post).all (fun y =>
    (emitted x).all fun m => !ciEq m y.name && (emitted y).all fun m' => !ciEq m m') &&
  (x.ident == x.name || x.rename)

/-- P for one namespace scope: every element the writer named is `elemOk`. -/
def scopeOk (obs : List Obs) : Bool :=
  (splits obs).all fun (p, x, q) => !x.assigned || elemOk p x q

/-- identifiers of a scope pairwise distinct ignoring case -/
def identsDistinct : List Obs → Bool
  | [] => true
  | x :: xs => xs.all (fun y => !ciEq x.ident y.ident) && identsDistinct xs

/-- the net identifiers the cables of one cell put into the file -/
def netIdents (obs : List Obs) : List (List Char) :=
  obs.flatMap fun o => if o.bits.isEmpty then [o.ident] else o.bits.map (wireIdent o.ident)

/-- pairwise different ignoring case -/
def allDistinct : List (List Char) → Bool
  | [] => true
  | x :: xs => xs.all (fun y => !ciEq x y) && allDistinct xs

end Spydr.Names.Spec
