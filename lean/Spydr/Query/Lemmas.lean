/-
  Lemmas for C13, part 1: the matcher of the model decides the relations of the Spec.
  (No Mathlib: the driver imports this file for the `Decidable` instances.)
-/
import Spydr.Query.Model
import Spydr.Query.Spec

namespace Spydr.Query
open Spydr.Query.Spec

/-! ## token-level relation (bridge between the matcher and the two textual relations) -/

inductive TokRel (ci : Bool) : List Tok → Str → Prop
  | nil : TokRel ci [] []
  | starSkip {p v} : TokRel ci p v → TokRel ci (.star :: p) v
  | starEat {p d v} : TokRel ci (.star :: p) v → TokRel ci (.star :: p) (d :: v)
  | one {p d v} : TokRel ci p v → TokRel ci (.one :: p) (d :: v)
  | lit {p c d v} : chEq ci c d = true → TokRel ci p v → TokRel ci (.lit c :: p) (d :: v)

theorem tokRel_star_nil {ci p} : TokRel ci (.star :: p) [] ↔ TokRel ci p [] := by
  constructor
  · intro h; cases h with | starSkip h => exact h
  · exact TokRel.starSkip

theorem tokRel_star_cons {ci p d v} :
    TokRel ci (.star :: p) (d :: v) ↔ TokRel ci p (d :: v) ∨ TokRel ci (.star :: p) v := by
  constructor
  · intro h
    cases h with
    | starSkip h => exact Or.inl h
    | starEat h => exact Or.inr h
  · intro h
    cases h with
    | inl h => exact TokRel.starSkip h
    | inr h => exact TokRel.starEat h

theorem starAny_tokRel {ci p} (ih : ∀ v, tokMatch ci p v = true ↔ TokRel ci p v) :
    ∀ v, starAny (tokMatch ci p) v = true ↔ TokRel ci (.star :: p) v := by
  intro v
  induction v with
  | nil => simp [starAny, ih, tokRel_star_nil]
  | cons d v ihv => simp [starAny, ih, ihv, tokRel_star_cons]

theorem tokMatch_iff {ci : Bool} : ∀ (t : List Tok) (v : Str), tokMatch ci t v = true ↔ TokRel ci t v := by
  intro t
  induction t with
  | nil =>
      intro v
      cases v with
      | nil => simp [tokMatch]; exact TokRel.nil
      | cons d v => simp [tokMatch]; intro h; cases h
  | cons tk t ih =>
      intro v
      cases tk with
      | star => simpa [tokMatch] using starAny_tokRel ih v
      | one =>
          cases v with
          | nil => simp [tokMatch]; intro h; cases h
          | cons d v =>
              simp [tokMatch, ih]
              constructor
              · exact TokRel.one
              · intro h; cases h with | one h => exact h
      | lit c =>
          cases v with
          | nil => simp [tokMatch]; intro h; cases h
          | cons d v =>
              simp only [tokMatch, Bool.and_eq_true, ih]
              constructor
              · intro ⟨h1, h2⟩; exact TokRel.lit h1 h2
              · intro h; cases h with | lit h1 h2 => exact ⟨h1, h2⟩

theorem chEq_iff {ci c d} : chEq ci c d = true ↔ SameCh ci c d := by
  cases ci <;> simp [chEq, SameCh]

/-! ## glob -/

theorem globTok_star : globTok '*' = .star := by decide
theorem globTok_one : globTok '?' = .one := by decide
theorem globTok_lit {c : Char} (h1 : c ≠ '*') (h2 : c ≠ '?') : globTok c = .lit c := by
  simp [globTok, h1, h2]

theorem globTok_eq_star {c : Char} : globTok c = .star ↔ c = '*' := by
  unfold globTok; split
  · simp_all
  · split <;> simp_all
theorem globTok_eq_one {c : Char} : globTok c = .one ↔ c = '?' := by
  unfold globTok; split
  · simp_all
  · split <;> simp_all
theorem globTok_eq_lit {c d : Char} : globTok c = .lit d ↔ (c = d ∧ c ≠ '*' ∧ c ≠ '?') := by
  unfold globTok; split
  · simp_all
  · split <;> simp_all

theorem globRel_of_tokRel {ci t v} (h : TokRel ci t v) : ∀ p, t = globToks p → GlobRel ci p v := by
  induction h with
  | nil =>
      intro p hp
      cases p with
      | nil => exact GlobRel.nil
      | cons c p => simp [globToks] at hp
  | starSkip _ ih =>
      intro p hp
      cases p with
      | nil => simp [globToks] at hp
      | cons c p =>
          simp only [globToks, List.map_cons, List.cons.injEq] at hp
          have hc : c = '*' := globTok_eq_star.mp hp.1.symm
          subst hc
          exact GlobRel.starSkip (ih p hp.2)
  | starEat _ ih =>
      intro p hp
      cases p with
      | nil => simp [globToks] at hp
      | cons c p =>
          have hp' := hp
          simp only [globToks, List.map_cons, List.cons.injEq] at hp'
          have hc : c = '*' := globTok_eq_star.mp hp'.1.symm
          subst hc
          exact GlobRel.starEat (ih _ hp)
  | one _ ih =>
      intro p hp
      cases p with
      | nil => simp [globToks] at hp
      | cons c p =>
          simp only [globToks, List.map_cons, List.cons.injEq] at hp
          have hc : c = '?' := globTok_eq_one.mp hp.1.symm
          subst hc
          exact GlobRel.one (ih p hp.2)
  | lit hch _ ih =>
      intro p hp
      cases p with
      | nil => simp [globToks] at hp
      | cons c p =>
          simp only [globToks, List.map_cons, List.cons.injEq] at hp
          obtain ⟨h1, h2, h3⟩ := globTok_eq_lit.mp hp.1.symm
          subst h1
          exact GlobRel.lit h2 h3 (chEq_iff.mp hch) (ih p hp.2)

theorem tokRel_of_globRel {ci p v} (h : GlobRel ci p v) : TokRel ci (globToks p) v := by
  induction h with
  | nil => exact TokRel.nil
  | starSkip _ ih => simpa [globToks, globTok_star] using TokRel.starSkip ih
  | starEat _ ih =>
      simp only [globToks, List.map_cons, globTok_star] at ih ⊢
      exact TokRel.starEat ih
  | one _ ih => simpa [globToks, globTok_one] using TokRel.one ih
  | lit h1 h2 hs _ ih =>
      simp only [globToks, List.map_cons, globTok_lit h1 h2]
      exact TokRel.lit (chEq_iff.mpr hs) ih

theorem tokMatch_glob_iff {ci p v} : tokMatch ci (globToks p) v = true ↔ GlobRel ci p v :=
  (tokMatch_iff _ _).trans ⟨fun h => globRel_of_tokRel h p rfl, tokRel_of_globRel⟩

/-! ## regex sub-language -/

theorem reToks_esc (c : Char) (r : Str) : reToks ('\\' :: c :: r) = if c.isAlphanum then none else (reToks r).map (Tok.lit c :: ·) := by
  simp [reToks]
theorem reToks_dotstar (r : Str) : reToks ('.' :: '*' :: r) = (reToks r).map (Tok.star :: ·) := by
  simp [reToks]
theorem reToks_dot (r : Str) (h : ∀ r', r ≠ '*' :: r') : reToks ('.' :: r) = (reToks r).map (Tok.one :: ·) := by
  cases r with
  | nil => simp [reToks]
  | cons d r' =>
    have : d ≠ '*' := fun hd => h r' (by rw [hd])
    rw [reToks]
    · simp
    all_goals (intros; simp_all)
theorem reToks_other (c : Char) (r : Str) (h1 : c ≠ '\\') (h2 : c ≠ '.') :
    reToks (c :: r) = if isReSpecial c then none else (reToks r).map (Tok.lit c :: ·) := by
  rw [reToks]
  · simp [h2]
  all_goals (intros; simp_all)
theorem reToks_lit (c : Char) (r : Str) (h : c ∉ reSpecials) : reToks (c :: r) = (reToks r).map (Tok.lit c :: ·) := by
  have h1 : c ≠ '\\' := fun hc => h (by rw [hc]; decide)
  have h2 : c ≠ '.' := fun hc => h (by rw [hc]; decide)
  have h3 : isReSpecial c = false := by simp [isReSpecial, h]
  rw [reToks_other c r h1 h2]; simp [h3]

theorem reToks_inv {p : Str} {t : List Tok} (h : reToks p = some t) :
    (p = [] ∧ t = []) ∨
    (∃ c r t', p = '\\' :: c :: r ∧ c.isAlphanum = false ∧ reToks r = some t' ∧ t = .lit c :: t') ∨
    (∃ r t', p = '.' :: '*' :: r ∧ reToks r = some t' ∧ t = .star :: t') ∨
    (∃ r t', p = '.' :: r ∧ (∀ r', r ≠ '*' :: r') ∧ reToks r = some t' ∧ t = .one :: t') ∨
    (∃ c r t', p = c :: r ∧ c ∉ reSpecials ∧ reToks r = some t' ∧ t = .lit c :: t') := by
  cases p with
  | nil => left; simp [reToks] at h; exact ⟨rfl, h⟩
  | cons c r =>
    right
    by_cases hb : c = '\\'
    · subst hb
      cases r with
      | nil => simp [reToks] at h
      | cons c' r' =>
        rw [reToks_esc] at h
        by_cases ha : c'.isAlphanum = true
        · simp [ha] at h
        · simp [ha] at h
          obtain ⟨t', ht', rfl⟩ := h
          left; exact ⟨c', r', t', rfl, by simpa using ha, ht', rfl⟩
    · by_cases hd : c = '.'
      · subst hd
        right
        by_cases hs : ∃ r', r = '*' :: r'
        · obtain ⟨r', rfl⟩ := hs
          rw [reToks_dotstar] at h
          simp at h
          obtain ⟨t', ht', rfl⟩ := h
          left; exact ⟨r', t', rfl, ht', rfl⟩
        · have hs' : ∀ r', r ≠ '*' :: r' := fun r' hr => hs ⟨r', hr⟩
          rw [reToks_dot r hs'] at h
          simp at h
          obtain ⟨t', ht', rfl⟩ := h
          right; left; exact ⟨r, t', rfl, hs', ht', rfl⟩
      · rw [reToks_other c r hb hd] at h
        by_cases hsp : isReSpecial c = true
        · simp [hsp] at h
        · simp [hsp] at h
          obtain ⟨t', ht', rfl⟩ := h
          right; right; right
          refine ⟨c, r, t', rfl, ?_, ht', rfl⟩
          simpa [isReSpecial] using hsp

theorem reRel_of_tokRel {ci t v} (h : TokRel ci t v) : ∀ p, reToks p = some t → ReRel ci p v := by
  induction h with
  | nil =>
      intro p hp
      rcases reToks_inv hp with ⟨rfl, _⟩ | ⟨_, _, _, _, _, _, h⟩ | ⟨_, _, _, _, h⟩ | ⟨_, _, _, _, _, h⟩ | ⟨_, _, _, _, _, _, h⟩ <;>
        first | exact ReRel.nil | cases h
  | starSkip _ ih =>
      intro p hp
      rcases reToks_inv hp with ⟨_, h⟩ | ⟨_, _, _, _, _, _, h⟩ | ⟨r, t', rfl, hr, h⟩ | ⟨_, _, _, _, _, h⟩ | ⟨_, _, _, _, _, _, h⟩ <;>
        first
          | (cases h; exact ReRel.dotStarSkip (ih _ hr))
          | cases h
  | starEat _ ih =>
      intro p hp
      rcases reToks_inv hp with ⟨_, h⟩ | ⟨_, _, _, _, _, _, h⟩ | ⟨r, t', rfl, hr, h⟩ | ⟨_, _, _, _, _, h⟩ | ⟨_, _, _, _, _, _, h⟩ <;>
        first
          | (cases h; exact ReRel.dotStarEat (ih _ hp))
          | cases h
  | one _ ih =>
      intro p hp
      rcases reToks_inv hp with ⟨_, h⟩ | ⟨_, _, _, _, _, _, h⟩ | ⟨_, _, _, _, h⟩ | ⟨r, t', rfl, hs, hr, h⟩ | ⟨_, _, _, _, _, _, h⟩ <;>
        first
          | (cases h; exact ReRel.dot hs (ih _ hr))
          | cases h
  | lit hch _ ih =>
      intro p hp
      rcases reToks_inv hp with ⟨_, h⟩ | ⟨c, r, t', rfl, ha, hr, h⟩ | ⟨_, _, _, _, h⟩ | ⟨_, _, _, _, _, h⟩ | ⟨c, r, t', rfl, hm, hr, h⟩
      · cases h
      · cases h; exact ReRel.esc ha (chEq_iff.mp hch) (ih _ hr)
      · cases h
      · cases h
      · cases h; exact ReRel.lit hm (chEq_iff.mp hch) (ih _ hr)

theorem tokRel_of_reRel {ci p v} (h : ReRel ci p v) : ∃ t, reToks p = some t ∧ TokRel ci t v := by
  induction h with
  | nil => exact ⟨[], by simp [reToks], TokRel.nil⟩
  | esc ha hs _ ih =>
      obtain ⟨t, ht, hr⟩ := ih
      exact ⟨_, by rw [reToks_esc]; simp [ha, ht], TokRel.lit (chEq_iff.mpr hs) hr⟩
  | dotStarSkip _ ih =>
      obtain ⟨t, ht, hr⟩ := ih
      exact ⟨_, by rw [reToks_dotstar]; simp [ht], TokRel.starSkip hr⟩
  | dotStarEat _ ih =>
      obtain ⟨t, ht, hr⟩ := ih
      refine ⟨t, ht, ?_⟩
      rcases reToks_inv ht with ⟨h, _⟩ | ⟨_, _, _, h, _⟩ | ⟨r, t', h, _, rfl⟩ | ⟨r, _, h, hs, _⟩ | ⟨_, _, _, h, hm, _⟩
      · cases h
      · cases h
      · exact TokRel.starEat hr
      · cases h; exact absurd rfl (hs _)
      · cases h; exact absurd (by decide) hm
  | dot hs _ ih =>
      obtain ⟨t, ht, hr⟩ := ih
      exact ⟨_, by rw [reToks_dot _ hs]; simp [ht], TokRel.one hr⟩
  | lit hm hs _ ih =>
      obtain ⟨t, ht, hr⟩ := ih
      exact ⟨_, by rw [reToks_lit _ _ hm]; simp [ht], TokRel.lit (chEq_iff.mpr hs) hr⟩

/-! ## case folding -/

theorem lowerC_of_not_upper {d : Char} (h : d.isUpper = false) : lowerC d = d := by
  unfold lowerC; split <;> first | (revert h; decide) | rfl

theorem lowerC_not_upper (c : Char) : (lowerC c).isUpper = false ∨ lowerC c = c := by
  unfold lowerC; split <;> first | (left; decide) | (right; rfl)

theorem lowerC_idem (c : Char) : lowerC (lowerC c) = lowerC c := by
  rcases lowerC_not_upper c with h | h
  · exact lowerC_of_not_upper h
  · rw [h]; exact h

theorem lowerC_eq_iff {c s : Char} (hs : lowerC s = s) (hl : s.isLower = false) : lowerC c = s ↔ c = s := by
  constructor
  · intro h
    unfold lowerC at h
    split at h <;> first | (subst h; revert hl; decide) | exact h
  · intro h; subst h; exact hs

theorem lowerC_isAlphanum (c : Char) : (lowerC c).isAlphanum = c.isAlphanum := by
  unfold lowerC; split <;> first | decide | rfl

theorem lowerC_isReSpecial (c : Char) : isReSpecial (lowerC c) = isReSpecial c := by
  unfold lowerC; split <;> first | decide | rfl

theorem lowerC_star {c : Char} : lowerC c = '*' ↔ c = '*' := lowerC_eq_iff (by decide) (by decide)
theorem lowerC_qm {c : Char} : lowerC c = '?' ↔ c = '?' := lowerC_eq_iff (by decide) (by decide)
theorem lowerC_dot {c : Char} : lowerC c = '.' ↔ c = '.' := lowerC_eq_iff (by decide) (by decide)
theorem lowerC_bs {c : Char} : lowerC c = '\\' ↔ c = '\\' := lowerC_eq_iff (by decide) (by decide)

theorem globTok_lower (c : Char) : globTok (lowerC c) = (globTok c).lower := by
  by_cases h1 : c = '*'
  · subst h1; decide
  · by_cases h2 : c = '?'
    · subst h2; decide
    · rw [globTok_lit h1 h2, globTok_lit (mt lowerC_star.mp h1) (mt lowerC_qm.mp h2)]; rfl

theorem globToks_lower (p : Str) : globToks (lower p) = lowerToks (globToks p) := by
  simp [globToks, lower, lowerToks, List.map_map, Function.comp_def, globTok_lower]

theorem starAny_congr_lower {f g : Str → Bool} (h : ∀ v, f v = g (lower v)) :
    ∀ v, starAny f v = starAny g (lower v) := by
  intro v
  induction v with
  | nil => simp [starAny, lower, h]
  | cons d v ih =>
      have := h (d :: v)
      simp only [lower, List.map_cons] at this ih ⊢
      simp [starAny, this, ih]

theorem chEq_ci (c d : Char) : chEq true c d = chEq false (lowerC c) (lowerC d) := by
  simp [chEq]

/-- ignoring case = comparing the lower-cased token list with the lower-cased value -/
theorem tokMatch_ci : ∀ (t : List Tok) (v : Str),
    tokMatch true t v = tokMatch false (lowerToks t) (lower v) := by
  intro t
  induction t with
  | nil => intro v; cases v <;> simp [tokMatch, lowerToks, lower]
  | cons tk t ih =>
      intro v
      cases tk with
      | star =>
          simp only [lowerToks, List.map_cons, Tok.lower, tokMatch]
          exact starAny_congr_lower (fun v => by simpa [lowerToks] using ih v) v
      | one =>
          cases v with
          | nil => simp [tokMatch, lowerToks, lower, Tok.lower]
          | cons d v => simpa [tokMatch, lowerToks, lower, Tok.lower] using ih v
      | lit c =>
          cases v with
          | nil => simp [tokMatch, lowerToks, lower, Tok.lower]
          | cons d v =>
              have := ih v
              simp only [lowerToks, lower] at this
              simp [tokMatch, lowerToks, lower, Tok.lower, chEq_ci, this]

theorem lower_idem (s : Str) : lower (lower s) = lower s := by
  simp [lower, List.map_map, Function.comp_def, lowerC_idem]

theorem lower_not_star {r : Str} (h : ∀ r', r ≠ '*' :: r') : ∀ r', lower r ≠ '*' :: r' := by
  intro r' hr
  cases r with
  | nil => simp [lower] at hr
  | cons d r =>
      simp only [lower, List.map_cons, List.cons.injEq] at hr
      exact h r (by rw [lowerC_star.mp hr.1])

theorem reToks_lower : ∀ (p : Str), reToks (lower p) = (reToks p).map lowerToks
  | [] => by simp [lower, reToks, lowerToks]
  | c :: r => by
      have ih := reToks_lower r
      by_cases hb : c = '\\'
      · subst hb
        cases r with
        | nil => simp [lower, reToks, lowerC]
        | cons c' r' =>
            have ih' := reToks_lower r'
            have : lower ('\\' :: c' :: r') = '\\' :: lowerC c' :: lower r' := by simp [lower, lowerC]
            rw [this, reToks_esc, reToks_esc, lowerC_isAlphanum, ih']
            by_cases ha : c'.isAlphanum = true
            · simp [ha]
            · simp [ha]; cases reToks r' <;> simp [lowerToks, Tok.lower]
      · by_cases hd : c = '.'
        · subst hd
          by_cases hs : ∃ r', r = '*' :: r'
          · obtain ⟨r', rfl⟩ := hs
            have ih' := reToks_lower r'
            have : lower ('.' :: '*' :: r') = '.' :: '*' :: lower r' := by simp [lower, lowerC]
            rw [this, reToks_dotstar, reToks_dotstar, ih']
            cases reToks r' <;> simp [lowerToks, Tok.lower]
          · have hs' : ∀ r', r ≠ '*' :: r' := fun r' hr => hs ⟨r', hr⟩
            have : lower ('.' :: r) = '.' :: lower r := by simp [lower, lowerC]
            rw [this, reToks_dot _ hs', reToks_dot _ (lower_not_star hs'), ih]
            cases reToks r <;> simp [lowerToks, Tok.lower]
        · have : lower (c :: r) = lowerC c :: lower r := by simp [lower]
          rw [this, reToks_other _ _ (mt lowerC_bs.mp hb) (mt lowerC_dot.mp hd), reToks_other _ _ hb hd,
            lowerC_isReSpecial, ih]
          by_cases hsp : isReSpecial c = true
          · simp [hsp]
          · simp [hsp]; cases reToks r <;> simp [lowerToks, Tok.lower]


/-! ## the matcher decides the Spec -/

/-- the model's `_value_matches_pattern` decides the Spec relation -/
theorem valueMatches_iff (ic ir : Bool) (p v : Str) :
    valueMatches ic ir p v = true ↔ Matches ic ir p v := by
  unfold valueMatches Matches
  cases ir with
  | true =>
      simp only [if_true]
      constructor
      · intro h
        cases ht : reToks p with
        | none => simp [ht] at h
        | some t =>
            simp only [ht] at h
            exact reRel_of_tokRel ((tokMatch_iff _ _).mp h) p ht
      · intro h
        obtain ⟨t, ht, hr⟩ := tokRel_of_reRel h
        simp only [ht]
        exact (tokMatch_iff _ _).mpr hr
  | false =>
      cases ic with
      | true => simpa [globMatch] using (tokMatch_glob_iff (ci := false) (p := p) (v := v))
      | false =>
          simp only [Bool.false_eq_true, if_false, globMatch, globToks_lower, ← tokMatch_ci]
          simpa using (tokMatch_glob_iff (ci := true) (p := p) (v := v))

instance (ic ir : Bool) (p v : Str) : Decidable (Matches ic ir p v) :=
  decidable_of_iff _ (valueMatches_iff ic ir p v)

theorem isAbsolute_iff (ic ir : Bool) (p : Str) : isAbsolute p ic ir = true ↔ Absolute ic ir p := by
  simp [isAbsolute, Absolute, isWild, List.all_eq_true, and_assoc]

instance (ic ir : Bool) (p : Str) : Decidable (Absolute ic ir p) :=
  decidable_of_iff _ (isAbsolute_iff ic ir p)

instance (c : Cfg) (p v : Str) : Decidable (MatchesCfg c p v) := by
  unfold MatchesCfg; exact inferInstance

/-- for a wildcard-free pattern, glob matching is equality -/
theorem tokMatch_lits (p v : Str) (h : ∀ ch ∈ p, ch ≠ '*' ∧ ch ≠ '?') :
    tokMatch false (globToks p) v = true ↔ p = v := by
  induction p generalizing v with
  | nil => cases v <;> simp [globToks, tokMatch]
  | cons c p ih =>
      have hc := h c (by simp)
      have hp : ∀ ch ∈ p, ch ≠ '*' ∧ ch ≠ '?' := fun ch hch => h ch (by simp [hch])
      cases v with
      | nil => simp [globToks, globTok_lit hc.1 hc.2, tokMatch]
      | cons d v =>
          have := ih v hp
          simp only [globToks] at this
          simp [globToks, globTok_lit hc.1 hc.2, tokMatch, chEq, this]


/-! ## exact = wildcard-free glob = escaped regex -/

theorem specials_not_alnum : ∀ c ∈ reSpecials, c.isAlphanum = false := by decide

theorem tokMatch_map_lit (s v : Str) : tokMatch false (s.map Tok.lit) v = true ↔ s = v := by
  induction s generalizing v with
  | nil => cases v <;> simp [tokMatch]
  | cons c s ih => cases v with
    | nil => simp [tokMatch]
    | cons d v => simp [tokMatch, chEq, ih]

theorem reEscapeC_special {c : Char} (h : c ∈ reSpecials) : reEscapeC c = ['\\', c] := by
  simp [reEscapeC, isReSpecial, h]
theorem reEscapeC_plain {c : Char} (h : c ∉ reSpecials) : reEscapeC c = [c] := by
  simp [reEscapeC, isReSpecial, h]

/-- one escaped character in front of a parsable rest parses to its literal -/
theorem reToks_reEscapeC (c : Char) (r : Str) :
    reToks (reEscapeC c ++ r) = (reToks r).map (Tok.lit c :: ·) := by
  by_cases hm : c ∈ reSpecials
  · rw [reEscapeC_special hm]
    simp only [List.cons_append, List.nil_append]
    rw [reToks_esc, specials_not_alnum c hm]; simp
  · rw [reEscapeC_plain hm]
    simp only [List.cons_append, List.nil_append]
    rw [reToks_lit _ _ hm]

theorem reToks_reEscape (s : Str) : reToks (reEscape s) = some (s.map Tok.lit) := by
  induction s with
  | nil => simp [reEscape, reToks]
  | cons c s ih => simp [reEscape, reToks_reEscapeC, ih]

/-- an escaped regular expression is an exact match -/
theorem re_escape_exact (s v : Str) : valueMatches true true (reEscape s) v = true ↔ s = v := by
  simp [valueMatches, reToks_reEscape, tokMatch_map_lit]

theorem globToReC_star : globToReC '*' = ['.', '*'] := by decide
theorem globToReC_qm : globToReC '?' = ['.'] := by decide
theorem globToReC_other {c : Char} (h1 : c ≠ '*') (h2 : c ≠ '?') : globToReC c = reEscapeC c := by
  simp [globToReC, h1, h2]

theorem reEscapeC_not_star (c : Char) (h1 : c ≠ '*') (r r' : Str) : reEscapeC c ++ r ≠ '*' :: r' := by
  by_cases hm : c ∈ reSpecials
  · rw [reEscapeC_special hm]; simp
  · rw [reEscapeC_plain hm]; simp [h1]

theorem globToRe_not_star (p : Str) : ∀ r, globToRe p ≠ '*' :: r := by
  intro r
  cases p with
  | nil => simp [globToRe]
  | cons c p =>
      simp only [globToRe]
      by_cases h1 : c = '*'
      · subst h1; simp [globToReC_star]
      · by_cases h2 : c = '?'
        · subst h2; simp [globToReC_qm]
        · rw [globToReC_other h1 h2]; exact reEscapeC_not_star c h1 _ _

theorem reToks_globToRe (p : Str) : reToks (globToRe p) = some (globToks p) := by
  induction p with
  | nil => simp [globToRe, reToks, globToks]
  | cons c p ih =>
      have hns := globToRe_not_star p
      simp only [globToRe, globToks, List.map_cons] at ih ⊢
      by_cases h1 : c = '*'
      · subst h1
        rw [globToReC_star, globTok_star]
        simp only [List.cons_append, List.nil_append]
        rw [reToks_dotstar, ih]; rfl
      · by_cases h2 : c = '?'
        · subst h2
          rw [globToReC_qm, globTok_one]
          simp only [List.cons_append, List.nil_append]
          rw [reToks_dot _ hns, ih]; rfl
        · rw [globToReC_other h1 h2, globTok_lit h1 h2, reToks_reEscapeC, ih]; rfl

/-- the regex translation of a wildcard pattern matches the same values, in both case modes -/
theorem re_of_glob (ic : Bool) (p v : Str) :
    valueMatches ic true (globToRe p) v = valueMatches ic false p v := by
  cases ic with
  | true => simp [valueMatches, reToks_globToRe, globMatch]
  | false => simp [valueMatches, reToks_globToRe, globMatch, globToks_lower, ← tokMatch_ci]


end Spydr.Query
