/-
  Lemmas for C13, part 2: the stage variants compute a permutation of a filter.
-/
import Spydr.Query.Lemmas

namespace Spydr.Query
open Spydr.Query.Spec
open List

/-! ## generic: "yield what the pattern hits, drop it from the remaining set" -/

theorem filter_split_perm {α} (a b : α → Bool) (l : List α) :
    l.filter a ++ (l.filter (fun e => !a e)).filter b ~ l.filter (fun e => a e || b e) := by
  induction l with
  | nil => simp
  | cons x l ih =>
      cases ha : a x <;> cases hb : b x <;> simp only [List.filter_cons, ha, hb, Bool.not_false,
        Bool.not_true, Bool.or_false, Bool.or_true, Bool.false_eq_true, if_true, if_false, List.cons_append]
      · exact ih
      · exact (perm_middle).trans (Perm.cons _ ih)
      · exact Perm.cons _ ih
      · exact Perm.cons _ ih

/-- the generic consuming stage over any element type -/
def stageGen {α} (hit : Str → α → Bool) : List α → List Str → List α
  | _, [] => []
  | rem, p :: ps => rem.filter (hit p) ++ stageGen hit (rem.filter (fun e => !hit p e)) ps

theorem stageGen_perm {α} (hit : Str → α → Bool) (pats : List Str) :
    ∀ rem : List α, stageGen hit rem pats ~ rem.filter (fun e => pats.any (fun p => hit p e)) := by
  induction pats with
  | nil => intro rem; simp [stageGen]
  | cons p ps ih =>
      intro rem
      simp only [stageGen, List.any_cons]
      exact (Perm.append_left _ (ih _)).trans (filter_split_perm _ _ rem)

theorem stageFound_eq (c : Cfg) (found : List Cand) (pats : List Str) :
    stageFound c found pats = stageGen (foundHit c) found pats := by
  induction pats generalizing found with
  | nil => rfl
  | cons p ps ih => simp [stageFound, stageGen, ih]

/-! ## hits versus the Spec; get_netlists -/

theorem matches_abs {ic ir : Bool} {p : Str} (h : Absolute ic ir p) (v : Str) :
    Matches ic ir p v ↔ p = v := by
  obtain ⟨h1, h2, h3⟩ := h
  subst h1; subst h2
  rw [← valueMatches_iff]
  simp only [valueMatches, Bool.false_eq_true, if_false, if_true, globMatch]
  exact tokMatch_lits p v h3

theorem matchesCfg_plain {c : Cfg} {p v : Str} (h : c.ci = false) :
    MatchesCfg c p v ↔ Matches c.isCase c.isRe p v := by
  unfold MatchesCfg
  constructor
  · rintro (⟨⟨_, h2⟩, _⟩ | ⟨_, hm⟩)
    · rw [h] at h2; cases h2
    · exact hm
  · intro hm
    refine Or.inr ⟨?_, hm⟩
    rintro ⟨_, h2⟩
    rw [h] at h2; cases h2

theorem second_of_noci {c : Cfg} (h : c.ci = false) : c.second = c := by
  cases c; simp [Cfg.second] at *; exact h

theorem matchesCfg_second (c : Cfg) (p v : Str) :
    MatchesCfg c.second p v ↔ Matches c.isCase c.isRe p v :=
  matchesCfg_plain (c := c.second) rfl

theorem cfg_abs_iff (c : Cfg) (p : Str) : c.abs p = true ↔ Absolute c.isCase c.isRe p := isAbsolute_iff _ _ _
theorem cfg_vm_iff (c : Cfg) (p v : Str) : c.vm p v = true ↔ Matches c.isCase c.isRe p v := valueMatches_iff _ _ _ _

theorem val_of_key {e : Cand} {k : Str} (h : e.key = some k) : e.val = k := by simp [Cand.val, h]

theorem key_eq_iff_val {e : Cand} {p : Str} (hk : e.key.isSome = true ∨ p ≠ []) :
    e.key = some p ↔ p = e.val := by
  cases hkey : e.key with
  | none =>
      simp [Cand.val, hkey] at hk ⊢
      exact hk
  | some k => simp [Cand.val, hkey, eq_comm]

theorem foundHit_iff {c : Cfg} {p : Str} {e : Cand}
    (hk : e.key.isSome = true ∨ p ≠ []) : foundHit c p e = true ↔ MatchesCfg c.second p e.val := by
  rw [matchesCfg_second]
  unfold foundHit
  by_cases ha : c.abs p = true
  · simp only [ha, if_true, beq_iff_eq]
    rw [matches_abs ((cfg_abs_iff c p).mp ha)]
    exact key_eq_iff_val hk
  · simp only [ha, Bool.false_eq_true, if_false]
    exact cfg_vm_iff c p e.val

theorem any_eq_spec {c : Cfg} {hit : Str → Cand → Bool} {pats : List Str} {e : Cand}
    (h : ∀ p ∈ pats, (hit p e = true ↔ MatchesCfg c p e.val)) :
    pats.any (fun p => hit p e) = decide (∃ p ∈ pats, MatchesCfg c p e.val) := by
  rw [Bool.eq_iff_iff]
  simp only [List.any_eq_true, decide_eq_true_eq]
  constructor
  · rintro ⟨p, hp, hh⟩; exact ⟨p, hp, (h p hp).mp hh⟩
  · rintro ⟨p, hp, hh⟩; exact ⟨p, hp, (h p hp).mpr hh⟩

theorem stage_spec_found_aux (c : Cfg) (cands : List Cand) (pats : List Str)
    (hk : AllKeyed cands ∨ [] ∉ pats) :
    stageFound c cands pats ~ filterSpec c.second cands pats := by
  rw [stageFound_eq]
  refine (stageGen_perm _ _ _).trans (Perm.of_eq ?_)
  unfold filterSpec
  apply List.filter_congr
  intro e he
  apply any_eq_spec
  intro p hp
  apply foundHit_iff
  cases hk with
  | inl h => exact Or.inl (h e he)
  | inr h => exact Or.inr (fun hp0 => h (hp0 ▸ hp))


/-! ## name maps -/

def MapOk (m : NameMap) : Prop := ∀ kv ∈ m, ∀ e ∈ kv.2, e.val = kv.1

theorem nmInsert_ok {m : NameMap} (h : MapOk m) (e : Cand) : MapOk (nmInsert m e) := by
  induction m with
  | nil =>
      intro kv hkv x hx
      simp [nmInsert] at hkv
      subst hkv
      simp at hx; subst hx; rfl
  | cons a r ih =>
      obtain ⟨k, es⟩ := a
      have hr : MapOk r := fun kv hkv => h kv (List.mem_cons_of_mem _ hkv)
      have ha := h (k, es) (by simp)
      simp only [nmInsert]
      by_cases hk : (k == e.val) = true
      · simp only [hk, if_true]
        intro kv hkv x hx
        rcases List.mem_cons.mp hkv with rfl | hkv
        · rcases List.mem_append.mp hx with hx | hx
          · exact ha x hx
          · simp at hx; subst hx; exact (beq_iff_eq.mp hk).symm
        · exact hr kv hkv x hx
      · simp only [hk, Bool.false_eq_true, if_false]
        intro kv hkv x hx
        rcases List.mem_cons.mp hkv with rfl | hkv
        · exact ha x hx
        · exact ih hr kv hkv x hx

theorem nmFlat_insert (m : NameMap) (e : Cand) : nmFlat (nmInsert m e) ~ nmFlat m ++ [e] := by
  induction m with
  | nil => simp [nmInsert, nmFlat]
  | cons a r ih =>
      obtain ⟨k, es⟩ := a
      simp only [nmInsert]
      by_cases hk : (k == e.val) = true
      · simp only [hk, if_true, nmFlat, List.flatMap_cons, List.append_assoc]
        refine Perm.append_left es ?_
        exact perm_append_comm
      · simp only [hk, Bool.false_eq_true, if_false, nmFlat, List.flatMap_cons, List.append_assoc]
        exact Perm.append_left es ih

theorem foldl_insert (l : List Cand) : ∀ m : NameMap, MapOk m →
    MapOk (l.foldl nmInsert m) ∧ nmFlat (l.foldl nmInsert m) ~ nmFlat m ++ l := by
  induction l with
  | nil => intro m hm; simp [hm]
  | cons e r ih =>
      intro m hm
      obtain ⟨h1, h2⟩ := ih (nmInsert m e) (nmInsert_ok hm e)
      refine ⟨h1, h2.trans ?_⟩
      have := Perm.append_right r (nmFlat_insert m e)
      simpa [List.append_assoc] using this

theorem buildMap_ok (l : List Cand) : MapOk (buildMap l) :=
  (foldl_insert l [] (fun _ h => by simp at h)).1

theorem buildMap_flat (l : List Cand) : nmFlat (buildMap l) ~ l := by
  have := (foldl_insert l [] (fun _ h => by simp at h)).2
  simpa [nmFlat, buildMap] using this

/-- what a pattern does to a value in the name map -/
def valHit (c : Cfg) (p v : Str) : Bool := if c.abs p then v == p else c.vm p v

theorem mapHit_eq (c : Cfg) (p : Str) (kv : Str × List Cand) : mapHit c p kv = valHit c p kv.1 := rfl

theorem nmFlat_filter {m : NameMap} (h : MapOk m) (f : Str → Bool) :
    nmFlat (m.filter (fun kv => f kv.1)) = (nmFlat m).filter (fun e => f e.val) := by
  induction m with
  | nil => simp [nmFlat]
  | cons a r ih =>
      have hr : MapOk r := fun kv hkv => h kv (List.mem_cons_of_mem _ hkv)
      have ha := h a (by simp)
      have ih' := ih hr
      simp only [nmFlat] at ih' ⊢
      simp only [List.filter_cons, List.flatMap_cons, List.filter_append]
      have hes : a.2.filter (fun e => f e.val) = if f a.1 then a.2 else [] := by
        by_cases hf : f a.1 = true
        · simp only [hf, if_true]
          apply List.filter_eq_self.mpr
          intro e he; rw [ha e he]; exact hf
        · simp only [hf, Bool.false_eq_true, if_false]
          apply List.filter_eq_nil_iff.mpr
          intro e he; rw [ha e he]; exact hf
      rw [hes, ← ih']
      by_cases hf : f a.1 = true <;> simp [hf]

theorem stageMapGo_eq (c : Cfg) (pats : List Str) : ∀ m : NameMap,
    stageMapGo c m pats = nmFlat (stageGen (mapHit c) m pats) := by
  induction pats with
  | nil => intro m; simp [stageMapGo, stageGen, nmFlat]
  | cons p ps ih =>
      intro m
      simp only [stageMapGo, stageGen, ih]
      simp [nmFlat, List.flatMap_append]

theorem stageMapGo_perm (c : Cfg) (pats : List Str) (m : NameMap) (hm : MapOk m) :
    stageMapGo c m pats ~ (nmFlat m).filter (fun e => pats.any (fun p => valHit c p e.val)) := by
  rw [stageMapGo_eq]
  have h1 := stageGen_perm (mapHit c) pats m
  have h2 : nmFlat (stageGen (mapHit c) m pats) ~
      nmFlat (m.filter (fun kv => pats.any (fun p => mapHit c p kv))) := Perm.flatMap_right _ h1
  refine h2.trans (Perm.of_eq ?_)
  exact nmFlat_filter hm (fun v => pats.any (fun p => valHit c p v))

theorem valHit_iff {c : Cfg} {p v : Str} :
    valHit c p v = true ↔ MatchesCfg c.second p v := by
  rw [matchesCfg_second]
  unfold valHit
  by_cases ha : c.abs p = true
  · simp only [ha, if_true, beq_iff_eq]
    rw [matches_abs ((cfg_abs_iff c p).mp ha)]
    exact eq_comm
  · simp only [ha, Bool.false_eq_true, if_false]
    exact cfg_vm_iff c p v

/-- namemap stage on the fresh elements -/
theorem stageMap_perm (c : Cfg) (found others : List Cand) (pats : List Str) :
    stageMap c found others pats ~ filterSpec c.second (freshOnes found others) pats := by
  unfold stageMap
  refine (stageMapGo_perm c pats _ (buildMap_ok _)).trans ?_
  refine (Perm.filter _ (buildMap_flat _)).trans (Perm.of_eq ?_)
  unfold filterSpec
  apply List.filter_congr
  intro e _
  exact any_eq_spec (hit := fun p e => valHit c p e.val) (fun p _ => valHit_iff)


/-! ## freshOnes / dedup -/

theorem freshOnes_congr (l : List Cand) : ∀ (F1 F2 : List Cand), (∀ e, e ∈ F1 ↔ e ∈ F2) →
    freshOnes F1 l = freshOnes F2 l := by
  induction l with
  | nil => intros; rfl
  | cons e r ih =>
      intro F1 F2 h
      have hc : F1.contains e = F2.contains e := by
        rw [Bool.eq_iff_iff]; simp [h e]
      simp only [freshOnes, hc]
      by_cases h2 : F2.contains e = true
      · simp only [h2, if_true]; exact ih F1 F2 h
      · simp only [h2, Bool.false_eq_true, if_false]
        rw [ih (F1 ++ [e]) (F2 ++ [e]) (fun x => by simp [h x])]

theorem mem_freshOnes (l : List Cand) : ∀ (F : List Cand) (x : Cand),
    x ∈ freshOnes F l ↔ x ∈ l ∧ x ∉ F := by
  induction l with
  | nil => intro F x; simp [freshOnes]
  | cons e r ih =>
      intro F x
      simp only [freshOnes]
      by_cases h : F.contains e = true
      · have he : e ∈ F := by simpa using h
        simp only [h, if_true, ih, List.mem_cons]
        constructor
        · rintro ⟨h1, h2⟩; exact ⟨Or.inr h1, h2⟩
        · rintro ⟨h1 | h1, h2⟩
          · subst h1; exact absurd he h2
          · exact ⟨h1, h2⟩
      · have he : e ∉ F := by simpa using h
        simp only [h, Bool.false_eq_true, if_false, List.mem_cons, ih, List.mem_append]
        constructor
        · rintro (h1 | ⟨h1, h2⟩)
          · subst h1; exact ⟨Or.inl rfl, he⟩
          · exact ⟨Or.inr h1, fun hx => h2 (Or.inl hx)⟩
        · rintro ⟨h1 | h1, h2⟩
          · exact Or.inl h1
          · by_cases hxe : x = e
            · exact Or.inl hxe
            · exact Or.inr ⟨h1, fun hx => hx.elim h2 (fun h3 => hxe (by simpa using h3))⟩

theorem nodup_freshOnes (l : List Cand) : ∀ F : List Cand, (freshOnes F l).Nodup := by
  induction l with
  | nil => intro F; simp [freshOnes]
  | cons e r ih =>
      intro F
      simp only [freshOnes]
      by_cases h : F.contains e = true
      · simp only [h, if_true]; exact ih F
      · simp only [h, Bool.false_eq_true, if_false, List.nodup_cons]
        refine ⟨?_, ih _⟩
        intro hm
        have := (mem_freshOnes r (F ++ [e]) e).mp hm
        exact this.2 (by simp)

theorem freshOnes_self (l : List Cand) : ∀ F : List Cand, l.Nodup → (∀ e ∈ l, e ∉ F) →
    freshOnes F l = l := by
  induction l with
  | nil => intros; rfl
  | cons e r ih =>
      intro F hn hd
      have he : F.contains e = false := by simpa using hd e (by simp)
      simp only [freshOnes, he, Bool.false_eq_true, if_false]
      rw [ih (F ++ [e]) (List.nodup_cons.mp hn).2]
      intro x hx
      simp only [List.mem_append, List.mem_singleton, not_or]
      refine ⟨hd x (List.mem_cons_of_mem _ hx), ?_⟩
      intro hxe; subst hxe
      exact (List.nodup_cons.mp hn).1 hx

/-- elements that the filter rejects may be added to the found set without changing the outcome -/
theorem freshOnes_filter_ext (s : Cand → Bool) (l : List Cand) : ∀ (F X : List Cand),
    (∀ x ∈ X, s x = false) → (freshOnes F l).filter s = (freshOnes (F ++ X) l).filter s := by
  induction l with
  | nil => intros; rfl
  | cons e r ih =>
      intro F X hX
      simp only [freshOnes]
      by_cases hF : F.contains e = true
      · have : (F ++ X).contains e = true := by
          have : e ∈ F := by simpa using hF
          simp [this]
        simp only [hF, this, if_true]
        exact ih F X hX
      · have heF : e ∉ F := by simpa using hF
        simp only [hF, Bool.false_eq_true, if_false]
        by_cases hXe : e ∈ X
        · have : (F ++ X).contains e = true := by simp [hXe]
          simp only [this, if_true, List.filter_cons, hX e hXe, Bool.false_eq_true, if_false]
          rw [ih (F ++ [e]) X hX]
          congr 1
          apply freshOnes_congr
          intro x
          simp only [List.mem_append, List.mem_singleton]
          constructor
          · rintro ((h | h) | h)
            · exact Or.inl h
            · subst h; exact Or.inr hXe
            · exact Or.inr h
          · rintro (h | h)
            · exact Or.inl (Or.inl h)
            · exact Or.inr h
        · have : (F ++ X).contains e = false := by simp [heF, hXe]
          simp only [this, Bool.false_eq_true, if_false, List.filter_cons]
          have hrec : (freshOnes (F ++ [e]) r).filter s = (freshOnes (F ++ X ++ [e]) r).filter s := by
            rw [ih (F ++ [e]) X hX]
            congr 1
            apply freshOnes_congr
            intro x
            simp only [List.mem_append, List.mem_singleton]
            constructor
            · rintro ((h | h) | h)
              · exact Or.inl (Or.inl h)
              · exact Or.inr h
              · exact Or.inl (Or.inr h)
            · rintro ((h | h) | h)
              · exact Or.inl (Or.inl h)
              · exact Or.inr h
              · exact Or.inl (Or.inr h)
          rw [hrec]

theorem mem_dedup (l : List Cand) (x : Cand) : x ∈ dedup l ↔ x ∈ l := by
  induction l with
  | nil => simp [dedup]
  | cons e r ih =>
      simp only [dedup, List.mem_cons, List.mem_filter, ih]
      constructor
      · rintro (h | ⟨h, _⟩)
        · exact Or.inl h
        · exact Or.inr h
      · rintro (h | h)
        · exact Or.inl h
        · by_cases hxe : x = e
          · exact Or.inl hxe
          · exact Or.inr ⟨h, by simpa using hxe⟩

theorem nodup_dedup (l : List Cand) : (dedup l).Nodup := by
  induction l with
  | nil => simp [dedup]
  | cons e r ih =>
      simp only [dedup, List.nodup_cons, List.mem_filter]
      refine ⟨?_, ih.sublist List.filter_sublist⟩
      rintro ⟨_, h⟩
      simp at h

theorem dedup_self (l : List Cand) (h : l.Nodup) : dedup l = l := by
  induction l with
  | nil => rfl
  | cons e r ih =>
      have hn := List.nodup_cons.mp h
      simp only [dedup, ih hn.2]
      congr 1
      apply List.filter_eq_self.mpr
      intro x hx
      have : x ≠ e := fun hxe => hn.1 (hxe ▸ hx)
      simpa using this


/-! ## direct stage -/

/-- the target an index is asked for -/
def indexTarget (c : Cfg) (p : Str) : Str := if c.ci then lower p else p

theorem absEq_indexed {c : Cfg} (hi : c.indexed = true) (p : Str) (e : Cand) :
    absEq c p e = (indexKey c e == some (indexTarget c p)) := by
  unfold absEq indexKey indexTarget
  cases hk : e.key with
  | none => cases c.ci <;> simp
  | some k => cases hci : c.ci <;> simp [hi]

theorem find_toList_eq_filter {α β} [BEq β] [LawfulBEq β] (f : α → Option β) (t : β) (l : List α)
    (h : (l.filterMap f).Nodup) :
    (l.find? (fun e => f e == some t)).toList = l.filter (fun e => f e == some t) := by
  induction l with
  | nil => rfl
  | cons x r ih =>
      by_cases hx : f x = some t
      · have hq : (f x == some t) = true := by simp [hx]
        simp only [List.find?_cons, hq, List.filter_cons, if_true, Option.toList]
        congr 1
        symm
        apply List.filter_eq_nil_iff.mpr
        intro e he hfe
        have hfe' : f e = some t := by simpa using hfe
        simp only [List.filterMap_cons, hx] at h
        have := (List.nodup_cons.mp h).1
        exact this (List.mem_filterMap.mpr ⟨e, he, hfe'⟩)
      · have hq : (f x == some t) = false := by simp [hx]
        simp only [List.find?_cons, hq, List.filter_cons, Bool.false_eq_true, if_false]
        apply ih
        cases hfx : f x with
        | none => simpa [List.filterMap_cons, hfx] using h
        | some b =>
            simp only [List.filterMap_cons, hfx] at h
            exact (List.nodup_cons.mp h).2

/-- with unique sibling keys the index and the linear search return the same elements -/
theorem lookupAll_eq_filter (c : Cfg) (p : Str) (g : List Cand)
    (hu : c.indexed = true → UniqueKeys c g) : lookupAll c p g = g.filter (absEq c p) := by
  unfold lookupAll
  by_cases hi : c.indexed = true
  · simp only [hi, if_true]
    have : absEq c p = fun e => indexKey c e == some (indexTarget c p) := by
      funext e; exact absEq_indexed hi p e
    rw [this]
    exact find_toList_eq_filter (indexKey c) (indexTarget c p) g (hu hi)
  · simp [hi]

/-- what one pattern selects among the children of a directly visited parent -/
def dHit (c : Cfg) (keyed : Bool) (p : Str) (e : Cand) : Bool :=
  if c.abs p then absEq c p e else scanHit c keyed p e

theorem directPat_eq (c : Cfg) (keyed : Bool) (g found : List Cand) (p : Str)
    (hu : c.indexed = true → UniqueKeys c g) :
    directPat c keyed g found p = g.filter (fun e => !found.contains e && dHit c keyed p e) := by
  unfold directPat dHit
  by_cases ha : c.abs p = true
  · simp only [ha, if_true, lookupAll_eq_filter c p g hu, List.filter_filter]
  · simp only [ha, Bool.false_eq_true, if_false]

theorem directGroup_found (c : Cfg) (keyed : Bool) (g : List Cand) (pats : List Str) :
    ∀ found, (directGroup c keyed g found pats).2 = found ++ (directGroup c keyed g found pats).1 := by
  induction pats with
  | nil => intro found; simp [directGroup]
  | cons p ps ih => intro found; simp [directGroup, ih, List.append_assoc]

theorem directGroup_perm (c : Cfg) (keyed : Bool) (g : List Cand) (pats : List Str)
    (hu : c.indexed = true → UniqueKeys c g) : ∀ found,
    (directGroup c keyed g found pats).1 ~
      g.filter (fun e => !found.contains e && pats.any (fun p => dHit c keyed p e)) := by
  induction pats with
  | nil => intro found; simp [directGroup]
  | cons p ps ih =>
      intro found
      simp only [directGroup, directPat_eq c keyed g found p hu, List.any_cons]
      refine (Perm.append_left _ (ih _)).trans ?_
      have hcongr : g.filter (fun e => !(found ++ g.filter (fun e => !found.contains e && dHit c keyed p e)).contains e
            && ps.any (fun p => dHit c keyed p e)) =
          (g.filter (fun e => !(!found.contains e && dHit c keyed p e))).filter
            (fun e => !found.contains e && ps.any (fun p => dHit c keyed p e)) := by
        rw [List.filter_filter]
        apply List.filter_congr
        intro e he
        by_cases hf : e ∈ found <;> by_cases hd : dHit c keyed p e = true <;>
          simp [hf, hd, he]
      rw [hcongr]
      refine (filter_split_perm _ _ g).trans (Perm.of_eq ?_)
      apply List.filter_congr
      intro e _
      exact (Bool.and_or_distrib_left _ _ _).symm

theorem stageDirect_found (c : Cfg) (keyed : Bool) (pats : List Str) (groups : List (List Cand)) :
    ∀ found, (stageDirect c keyed pats groups found).2 = found ++ (stageDirect c keyed pats groups found).1 := by
  induction groups with
  | nil => intro found; simp [stageDirect]
  | cons g gs ih =>
      intro found
      simp only [stageDirect, ih, directGroup_found, List.append_assoc]

theorem freshOnes_append (a : List Cand) : ∀ (F b : List Cand),
    freshOnes F (a ++ b) = freshOnes F a ++ freshOnes (F ++ a) b := by
  induction a with
  | nil => intro F b; simp [freshOnes]
  | cons e r ih =>
      intro F b
      simp only [List.cons_append, freshOnes]
      by_cases h : F.contains e = true
      · have he : e ∈ F := by simpa using h
        simp only [h, if_true, ih]
        congr 1
        apply freshOnes_congr
        intro x
        simp only [List.mem_append, List.mem_cons]
        constructor
        · rintro (h1 | h1)
          · exact Or.inl h1
          · exact Or.inr (Or.inr h1)
        · rintro (h1 | h1 | h1)
          · exact Or.inl h1
          · exact Or.inl (h1 ▸ he)
          · exact Or.inr h1
      · simp only [h, Bool.false_eq_true, if_false, ih, List.cons_append, List.append_assoc,
          List.nil_append]

/-- on a duplicate-free list `freshOnes` is just "not found yet" -/
theorem freshOnes_nodup_eq_filter (l : List Cand) : ∀ F : List Cand, l.Nodup →
    freshOnes F l = l.filter (fun e => !F.contains e) := by
  induction l with
  | nil => intros; rfl
  | cons e r ih =>
      intro F hn
      have hn' := List.nodup_cons.mp hn
      simp only [freshOnes, List.filter_cons]
      by_cases h : F.contains e = true
      · simp only [h, if_true, Bool.not_true, Bool.false_eq_true, if_false]
        exact ih F hn'.2
      · simp only [h, Bool.false_eq_true, if_false, Bool.not_false, if_true]
        congr 1
        rw [ih (F ++ [e]) hn'.2]
        apply List.filter_congr
        intro x hx
        have : x ≠ e := fun hxe => hn'.1 (hxe ▸ hx)
        simp [this]

theorem stageDirect_perm (c : Cfg) (keyed : Bool) (pats : List Str) (groups : List (List Cand))
    (hn : ∀ g ∈ groups, g.Nodup) (hu : c.indexed = true → ∀ g ∈ groups, UniqueKeys c g) : ∀ found,
    (stageDirect c keyed pats groups found).1 ~
      (freshOnes found groups.flatten).filter (fun e => pats.any (fun p => dHit c keyed p e)) := by
  induction groups with
  | nil => intro found; simp [stageDirect, freshOnes]
  | cons g gs ih =>
      intro found
      have hug : c.indexed = true → UniqueKeys c g := fun hi => hu hi g (by simp)
      have hugs : c.indexed = true → ∀ g ∈ gs, UniqueKeys c g :=
        fun hi g' hg' => hu hi g' (List.mem_cons_of_mem _ hg')
      have hng : g.Nodup := hn g (by simp)
      have hngs : ∀ g ∈ gs, g.Nodup := fun g' hg' => hn g' (List.mem_cons_of_mem _ hg')
      let H : Cand → Bool := fun e => pats.any (fun p => dHit c keyed p e)
      have hA := directGroup_perm c keyed g pats hug found
      simp only [stageDirect, List.flatten_cons, directGroup_found, freshOnes_append, List.filter_append]
      refine Perm.append ?_ ?_
      · refine hA.trans (Perm.of_eq ?_)
        rw [freshOnes_nodup_eq_filter g found hng, List.filter_filter]
        apply List.filter_congr
        intro e _
        exact Bool.and_comm _ _
      · refine (ih hngs hugs _).trans (Perm.of_eq ?_)
        -- the children of g that were not returned do not match: adding them to `found` changes nothing
        let Y := (directGroup c keyed g found pats).1
        let X := g.filter (fun e => !H e)
        have hX : ∀ x ∈ X, H x = false := by
          intro x hx; simpa using (List.mem_filter.mp hx).2
        have hmem : ∀ e, e ∈ (found ++ Y) ++ X ↔ e ∈ found ++ g := by
          intro e
          simp only [List.mem_append]
          rw [hA.mem_iff]
          simp only [List.mem_filter, X]
          constructor
          · rintro ((h | ⟨h, _⟩) | ⟨h, _⟩)
            · exact Or.inl h
            · exact Or.inr h
            · exact Or.inr h
          · rintro (h | h)
            · exact Or.inl (Or.inl h)
            · by_cases hf : e ∈ found
              · exact Or.inl (Or.inl hf)
              · by_cases hs : H e = true
                · exact Or.inl (Or.inr ⟨h, by simpa [hf, H] using hs⟩)
                · exact Or.inr ⟨h, by simpa using hs⟩
        show (freshOnes (found ++ Y) gs.flatten).filter H = (freshOnes (found ++ g) gs.flatten).filter H
        rw [freshOnes_filter_ext H gs.flatten (found ++ Y) X hX, freshOnes_congr gs.flatten _ _ hmem]

theorem direct_ci (c : Cfg) : c.direct.ci = (c.indexed && c.ci) := rfl

theorem dHit_iff {c : Cfg} {keyed : Bool} {p : Str} {e : Cand}
    (hk : e.key.isSome = true ∨ (keyed = false ∧ p ≠ [])) :
    dHit c keyed p e = true ↔ MatchesCfg c.direct p e.val := by
  unfold dHit
  have hcase : c.direct.isCase = c.isCase := rfl
  have hre : c.direct.isRe = c.isRe := rfl
  by_cases ha : c.abs p = true
  · have hA := (cfg_abs_iff c p).mp ha
    simp only [ha, if_true]
    unfold absEq
    cases hkey : e.key with
    | none =>
        have hp : p ≠ [] := by
          cases hk with
          | inl h => simp [hkey] at h
          | inr h => exact h.2
        simp only [Bool.false_eq_true, false_iff]
        unfold MatchesCfg
        rintro (⟨_, hl⟩ | ⟨_, hm⟩)
        · simp [Cand.val, hkey, lower] at hl
          exact hp hl
        · rw [hcase, hre, matches_abs hA] at hm
          simp [Cand.val, hkey] at hm
          exact hp hm
    | some k =>
        have hv : e.val = k := val_of_key hkey
        rw [hv]
        by_cases hic : (c.indexed && c.ci) = true
        · simp only [hic, if_true, beq_iff_eq]
          unfold MatchesCfg
          rw [hcase, hre, direct_ci, hic]
          constructor
          · intro h; exact Or.inl ⟨⟨hA, rfl⟩, h⟩
          · rintro (⟨_, h⟩ | ⟨hn, _⟩)
            · exact h
            · exact absurd ⟨hA, rfl⟩ hn
        · have hf : (c.indexed && c.ci) = false := by simpa using hic
          simp only [hf, Bool.false_eq_true, if_false, beq_iff_eq]
          rw [matchesCfg_plain (c := c.direct) (by rw [direct_ci]; exact hf), hcase, hre, matches_abs hA]
          exact eq_comm
  · simp only [ha, Bool.false_eq_true, if_false]
    have hnA : ¬ Absolute c.isCase c.isRe p := fun h => ha ((cfg_abs_iff c p).mpr h)
    have hm : MatchesCfg c.direct p e.val ↔ Matches c.isCase c.isRe p e.val := by
      unfold MatchesCfg
      rw [hcase, hre]
      constructor
      · rintro (⟨⟨h, _⟩, _⟩ | ⟨_, hm⟩)
        · exact absurd h hnA
        · exact hm
      · intro hm; exact Or.inr ⟨fun h => hnA h.1, hm⟩
    rw [hm, ← cfg_vm_iff]
    unfold scanHit
    cases hk with
    | inl h => simp [h]
    | inr h => simp [h.1]

/-- a child lacking the key is never returned by get_instances' direct stage -/
theorem dHit_keyless {c : Cfg} {p : Str} {e : Cand} (h : e.key.isSome = false) :
    dHit c true p e = false := by
  unfold dHit absEq scanHit
  cases hk : e.key with
  | none => by_cases ha : c.abs p = true <;> simp [ha]
  | some k => simp [hk] at h

theorem filter_keyedPart (keyed : Bool) (l : List Cand) (f : Cand → Bool)
    (hf : keyed = true → ∀ e ∈ l, e.key.isSome = false → f e = false) :
    l.filter f = (keyedPart keyed l).filter f := by
  unfold keyedPart
  cases keyed with
  | false => simp
  | true =>
      simp only [if_true, List.filter_filter]
      apply List.filter_congr
      intro e he
      cases hk : e.key.isSome with
      | true => simp
      | false => simp [hf rfl e he hk]

/-- direct stage from an empty found set -/
theorem stageDirect_spec (c : Cfg) (keyed : Bool) (groups : List (List Cand)) (pats : List Str)
    (h : HypDirect c keyed groups pats) :
    (stageDirect c keyed pats groups []).1 ~
      filterSpec c.direct (keyedPart keyed (freshOnes [] groups.flatten)) pats := by
  obtain ⟨hn, hu, hk⟩ := h
  refine (stageDirect_perm c keyed pats groups hn hu []).trans (Perm.of_eq ?_)
  rw [filter_keyedPart keyed]
  · unfold filterSpec
    apply List.filter_congr
    intro e he
    apply any_eq_spec
    intro p hp
    apply dHit_iff
    have heG : e ∈ groups.flatten := by
      have : e ∈ freshOnes [] groups.flatten := by
        unfold keyedPart at he
        cases keyed with
        | false => simpa using he
        | true => simp only [if_true] at he; exact (List.mem_filter.mp he).1
      exact ((mem_freshOnes _ _ _).mp this).1
    rcases hk with hk | hk | hk
    · subst hk
      simp only [keyedPart, if_true] at he
      exact Or.inl (List.mem_filter.mp he).2
    · exact Or.inl (hk e heG)
    · cases hkd : keyed with
      | true =>
          subst hkd
          simp only [keyedPart, if_true] at he
          exact Or.inl (List.mem_filter.mp he).2
      | false => exact Or.inr ⟨rfl, fun hp0 => hk (hp0 ▸ hp)⟩
  · intro hkd e _ hkey
    subst hkd
    rw [List.any_eq_false]
    intro p _
    simp [dHit_keyless hkey]

theorem filterSpec_append (c : Cfg) (a b : List Cand) (pats : List Str) :
    filterSpec c (a ++ b) pats = filterSpec c a pats ++ filterSpec c b pats := by
  simp [filterSpec, List.filter_append]

theorem stageMapGo_nil (c : Cfg) (pats : List Str) : stageMapGo c [] pats = [] := by
  induction pats with
  | nil => rfl
  | cons p ps ih => simp [stageMapGo, nmFlat, ih]

/-- an exact match that respects case is also one that ignores it -/
theorem matchesCfg_second_imp {c : Cfg} {p v : Str} (h : MatchesCfg c.second p v) :
    MatchesCfg c.direct p v := by
  rw [matchesCfg_second] at h
  unfold MatchesCfg
  have hcase : c.direct.isCase = c.isCase := rfl
  have hre : c.direct.isRe = c.isRe := rfl
  rw [hcase, hre]
  by_cases hA : Absolute c.isCase c.isRe p ∧ c.direct.ci = true
  · exact Or.inl ⟨hA, by rw [(matches_abs hA.1 v).mp h]⟩
  · exact Or.inr ⟨hA, h⟩

/-- the whole query, as the code behaves: the children of the visited parents are compared the way the
    direct stage compares (ignoring case only through the index), the elements reached otherwise are
    compared case-sensitively -/
theorem pipeline_split (c : Cfg) (keyed : Bool) (groups : List (List Cand)) (others : List Cand)
    (pats : List Str) (h : HypPipeline c keyed groups others pats) :
    pipeline c keyed groups others pats ~
      filterSpec c.direct (keyedPart keyed (freshOnes [] groups.flatten)) pats ++
      filterSpec c.second
        (freshOnes (keyedPart keyed (freshOnes [] groups.flatten)) others) pats := by
  have h1 := stageDirect_spec c keyed groups pats h
  unfold pipeline
  simp only [stageDirect_found, List.nil_append]
  refine Perm.append h1 ?_
  refine (stageMap_perm c _ others pats).trans (Perm.of_eq ?_)
  let G := keyedPart keyed (freshOnes [] groups.flatten)
  let s : Cand → Bool := fun e => decide (∃ p ∈ pats, MatchesCfg c.second p e.val)
  let sd : Cand → Bool := fun e => decide (∃ p ∈ pats, MatchesCfg c.direct p e.val)
  let Y := (stageDirect c keyed pats groups []).1
  let X := G.filter (fun e => !sd e)
  have hX : ∀ x ∈ X, s x = false := by
    intro x hx
    have hsd : sd x = false := by simpa using (List.mem_filter.mp hx).2
    cases hs : s x with
    | false => rfl
    | true =>
        exfalso
        have : sd x = true := by
          simp only [s, sd, decide_eq_true_eq] at hs ⊢
          obtain ⟨p, hp, hm⟩ := hs
          exact ⟨p, hp, matchesCfg_second_imp hm⟩
        rw [hsd] at this; cases this
  have hmem : ∀ e, e ∈ Y ++ X ↔ e ∈ G := by
    intro e
    simp only [List.mem_append]
    rw [h1.mem_iff]
    simp only [filterSpec, List.mem_filter, X]
    constructor
    · rintro (⟨h, _⟩ | ⟨h, _⟩) <;> exact h
    · intro h
      by_cases hs : sd e = true
      · exact Or.inl ⟨h, hs⟩
      · exact Or.inr ⟨h, by simpa using hs⟩
  show (freshOnes Y others).filter s = (freshOnes G others).filter s
  rw [freshOnes_filter_ext s others Y X hX, freshOnes_congr others _ _ hmem]

/-- where the code is consistent (`CiConsistent`) this is the property's statement -/
theorem pipeline_spec (c : Cfg) (keyed : Bool) (groups : List (List Cand)) (others : List Cand)
    (pats : List Str) (h : HypPipeline c keyed groups others pats) (hc : CiConsistent c others) :
    pipeline c keyed groups others pats ~
      filterSpec c (keyedPart keyed (freshOnes [] groups.flatten) ++
        freshOnes (keyedPart keyed (freshOnes [] groups.flatten)) others) pats := by
  refine (pipeline_split c keyed groups others pats h).trans (Perm.of_eq ?_)
  rw [filterSpec_append]
  by_cases hci : c.ci = true
  · obtain ⟨hi, ho⟩ := hc hci
    subst ho
    have hd : c.direct = c := by cases c; simp [Cfg.direct] at *; simp [hi, hci]
    rw [hd]
    simp [freshOnes, filterSpec]
  · have hci' : c.ci = false := by simpa using hci
    have hd : c.direct = c := by cases c; simp [Cfg.direct] at *; simp [hci']
    rw [hd, second_of_noci hci']


/-! ## hierarchical stage -/

theorem takeFrom_nodup (l : List Cand) : ∀ (inSet : List Cand), l.Nodup →
    takeFrom inSet l = (l.filter (fun e => inSet.contains e), inSet.filter (fun x => !l.contains x)) := by
  induction l with
  | nil => intro inSet _; simp [takeFrom, List.filter_eq_self.mpr]
  | cons h r ih =>
      intro inSet hn
      have hn' := List.nodup_cons.mp hn
      simp only [takeFrom]
      by_cases hc : inSet.contains h = true
      · simp only [hc, if_true, ih _ hn'.2, List.filter_cons]
        congr 1
        · congr 1
          apply List.filter_congr
          intro x hx
          have hxh : x ≠ h := fun e => hn'.1 (e ▸ hx)
          rw [Bool.eq_iff_iff]
          simp [List.mem_filter, hxh]
        · rw [List.filter_filter]
          apply List.filter_congr
          intro x _
          by_cases hxh : x = h <;> simp [hxh, Bool.and_comm]
      · simp only [hc, Bool.false_eq_true, if_false, ih _ hn'.2, List.filter_cons]
        congr 1
        apply List.filter_congr
        intro x hx
        have hxh : x ≠ h := by
          intro e; subst e
          exact hc (by simpa using hx)
        simp [hxh]

theorem stageHGo_perm (c : Cfg) (m : NameMap) (hm : MapOk m) (hn : (nmFlat m).Nodup)
    (pats : List Str) : ∀ inSet : List Cand,
    stageHGo c m inSet pats ~
      (nmFlat m).filter (fun e => inSet.contains e && pats.any (fun p => valHit c p e.val)) := by
  induction pats with
  | nil => intro inSet; simp [stageHGo]
  | cons p ps ih =>
      intro inSet
      have hflat : nmFlat (m.filter (mapHit c p)) = (nmFlat m).filter (fun e => valHit c p e.val) :=
        nmFlat_filter hm (fun v => valHit c p v)
      have hnd : (nmFlat (m.filter (mapHit c p))).Nodup := by
        rw [hflat]; exact hn.sublist List.filter_sublist
      simp only [stageHGo, takeFrom_nodup _ _ hnd, List.any_cons]
      refine (Perm.append_left _ (ih _)).trans ?_
      rw [hflat, List.filter_filter]
      have hcongr : (nmFlat m).filter (fun e =>
            (inSet.filter (fun x => !((nmFlat m).filter (fun e => valHit c p e.val)).contains x)).contains e
              && ps.any (fun p => valHit c p e.val)) =
          ((nmFlat m).filter (fun e => !(inSet.contains e && valHit c p e.val))).filter
            (fun e => inSet.contains e && ps.any (fun p => valHit c p e.val)) := by
        rw [List.filter_filter]
        apply List.filter_congr
        intro e he
        by_cases h1 : e ∈ inSet <;> by_cases h2 : valHit c p e.val = true <;>
          simp [h1, h2, he, List.mem_filter]
      rw [hcongr]
      refine (filter_split_perm _ _ _).trans (Perm.of_eq ?_)
      apply List.filter_congr
      intro e _
      exact (Bool.and_or_distrib_left _ _ _).symm

/-- hierarchical stage: the elements yielded before the name search, then the named ones that match -/
theorem stageH_perm (c : Cfg) (bypass named : List Cand) (pats : List Str) :
    stageH c bypass named pats ~
      dedup bypass ++ filterSpec c.second ((freshOnes [] named).filter (fun e => !(dedup bypass).contains e)) pats := by
  unfold stageH
  refine Perm.append_left _ ?_
  have hflat := buildMap_flat (freshOnes [] named)
  have hnd : (nmFlat (buildMap (freshOnes [] named))).Nodup := (hflat.nodup_iff).mpr (nodup_freshOnes _ _)
  refine (stageHGo_perm c _ (buildMap_ok _) hnd pats _).trans ?_
  refine (Perm.filter _ hflat).trans (Perm.of_eq ?_)
  unfold filterSpec
  rw [List.filter_filter]
  apply List.filter_congr
  intro e he
  have hspec := any_eq_spec (c := c.second) (hit := fun p e => valHit c p e.val) (pats := pats) (e := e)
    (fun p _ => valHit_iff)
  rw [hspec]
  by_cases hb : e ∈ dedup bypass
  · simp [hb, he, List.mem_filter]
  · simp [hb, he, List.mem_filter, Bool.and_comm]


end Spydr.Query
