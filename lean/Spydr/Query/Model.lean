/-
  Executable model of the *filter stage* of spydrnet's query functions (property C13).

  What is modelled (spydrnet/util/patterns.py and the pattern/found/namemap part of every
  spydrnet/util/get_*.py), as REPAIRED by docs/fixes/query_*.diff:

  * `isAbsolute`      = `_is_pattern_absolute`
  * `valueMatches`    = `_value_matches_pattern`, on the sub-language the property quantifies over:
        glob: literals, `*`, `?`          (no `[seq]`: DESIGN decision 6)
        regex: literals, `\c` for a non-alphanumeric c, `.`, `.*`   (what `re.escape` and a
               translation of `*`/`?` produce); everything else is `unsupported` (reToks = none)
        is_case=False: ASCII case folding of pattern and value (repaired: the pinned code calls
               fnmatch.fnmatch, which does not fold case on POSIX)
  * the stage variants, over candidates `(id, key value or none)`:
        `stageFound`   get_netlists: found-set + namemap keyed by `obj.get(key)`
        `stageDirect`  get_libraries/definitions/ports/cables/instances on their parent kind:
                       per parent, per pattern: absolute -> lookup (indexed: at most one hit;
                       otherwise every child whose value equals the pattern), else scan of the
                       children not yet found.  `keyed` = get_instances' extra `key in instance` test
        `stageMap`     second stage of the same five functions (elements reached through other
                       root kinds): namemap keyed by value ("" when absent), entries consumed
        `stageH`       get_hinstances/hports/hpins/hcables/hwires: namemap + `in_namemap` set,
                       preceded by the elements yielded without a name search (`in_yield`)
        `stageNone`    get_pins/get_wires: no patterns, `found` set only
  * `applyFilter`    the `filter=` callback on top.

  No Mathlib; everything is structurally recursive and total.
-/
namespace Spydr.Query

abbrev Str := List Char

/-! ## patterns.py -/

def isWild (c : Char) : Bool := c == '*' || c == '?'

/-- `_is_pattern_absolute(pattern, is_case, is_re)` -/
def isAbsolute (p : Str) (isCase isRe : Bool) : Bool :=
  isCase && !isRe && p.all (fun c => !isWild c)

inductive Tok where
  | lit (c : Char)
  | one
  | star
deriving DecidableEq, Repr

/-- ASCII lower-casing of one character, as a table (so that every fact about it is a finite
    case split; it agrees with `Char.toLower`). -/
def lowerC : Char → Char
  | 'A' => 'a'
  | 'B' => 'b'
  | 'C' => 'c'
  | 'D' => 'd'
  | 'E' => 'e'
  | 'F' => 'f'
  | 'G' => 'g'
  | 'H' => 'h'
  | 'I' => 'i'
  | 'J' => 'j'
  | 'K' => 'k'
  | 'L' => 'l'
  | 'M' => 'm'
  | 'N' => 'n'
  | 'O' => 'o'
  | 'P' => 'p'
  | 'Q' => 'q'
  | 'R' => 'r'
  | 'S' => 's'
  | 'T' => 't'
  | 'U' => 'u'
  | 'V' => 'v'
  | 'W' => 'w'
  | 'X' => 'x'
  | 'Y' => 'y'
  | 'Z' => 'z'
  | c => c

/-- `str.lower()` on the ASCII alphabet. -/
def lower (s : Str) : Str := s.map lowerC

def Tok.lower : Tok → Tok
  | .lit c => .lit (lowerC c)
  | t => t

def lowerToks (t : List Tok) : List Tok := t.map Tok.lower

/-- character comparison; `ci` = ignore ASCII case (re.IGNORECASE on a literal) -/
def chEq (ci : Bool) (c d : Char) : Bool :=
  if ci then lowerC c == lowerC d else c == d

/-- `f` holds for some suffix of the value (what `.*` followed by the rest does). -/
def starAny (f : Str → Bool) : Str → Bool
  | [] => f []
  | d :: v => f (d :: v) || starAny f v

/-- full match of a token list against a value -/
def tokMatch (ci : Bool) : List Tok → Str → Bool
  | [], v => v.isEmpty
  | .star :: p, v => starAny (tokMatch ci p) v
  | .one :: _, [] => false
  | .one :: p, _ :: v => tokMatch ci p v
  | .lit _ :: _, [] => false
  | .lit c :: p, d :: v => chEq ci c d && tokMatch ci p v

/-- fnmatch's translation of a pattern without `[`: `*` -> `.*`, `?` -> `.`, else the literal. -/
def globTok (c : Char) : Tok :=
  if c == '*' then .star else if c == '?' then .one else .lit c

def globToks (p : Str) : List Tok := p.map globTok

/-- `fnmatch.fnmatchcase(v, p)` for patterns without `[`. -/
def globMatch (p v : Str) : Bool := tokMatch false (globToks p) v

/-- characters `re.escape` puts a backslash in front of (CPython 3.7+) -/
def reSpecials : List Char :=
  ['(', ')', '[', ']', '{', '}', '?', '*', '+', '-', '|', '^', '$', '\\', '.', '&', '~', '#',
   ' ', '\t', '\n', '\r', '\x0b', '\x0c']

def isReSpecial (c : Char) : Bool := reSpecials.contains c

/-- parser of the modelled regex sub-language; `none` = outside it. -/
def reToks : Str → Option (List Tok)
  | [] => some []
  | ['\\'] => none
  | '\\' :: c :: r =>
      if c.isAlphanum then none else (reToks r).map (Tok.lit c :: ·)
  | '.' :: '*' :: r => (reToks r).map (Tok.star :: ·)
  | c :: r =>
      if c == '.' then (reToks r).map (Tok.one :: ·)
      else if isReSpecial c then none
      else (reToks r).map (Tok.lit c :: ·)

/-- `re.escape` -/
def reEscapeC (c : Char) : Str := if isReSpecial c then ['\\', c] else [c]

def reEscape : Str → Str
  | [] => []
  | c :: s => reEscapeC c ++ reEscape s

/-- `fnmatch.translate` restricted to `*`, `?`, literals (without the anchors) -/
def globToReC (c : Char) : Str :=
  if c == '*' then ['.', '*'] else if c == '?' then ['.'] else reEscapeC c

def globToRe : Str → Str
  | [] => []
  | c :: p => globToReC c ++ globToRe p

/-- `_value_matches_pattern(value, pattern, is_case, is_re)` (value `None` is passed as ""). -/
def valueMatches (isCase isRe : Bool) (p v : Str) : Bool :=
  if isRe then
    match reToks p with
    | none => false
    | some t => tokMatch (!isCase) t v
  else if isCase then globMatch p v
  else globMatch (lower p) (lower v)

def reSupported (p : Str) : Bool := (reToks p).isSome

/-! ## candidates -/

structure Cand where
  id : Nat
  key : Option Str
deriving DecidableEq, Repr

/-- `element[key] if key in element else ""` -/
def Cand.val (e : Cand) : Str := e.key.getD []

structure Cfg where
  isCase : Bool
  isRe : Bool
  /-- a registered lookup indexes this key (namespace plugin registered, and the policy of the
      parents indexes the key: `.NAME` always, `EDIF.identifier` under the EDIF policy) -/
  indexed : Bool
  /-- the key is one the documentation compares case-insensitively (`EDIF.identifier` of elements
      under the EDIF policy); the code does so only through the index (`indexed && ci`) -/
  ci : Bool
deriving Repr

/-- how the direct stage compares an absolute pattern: ignoring case only where the index answers -/
def Cfg.direct (c : Cfg) : Cfg := { c with ci := c.indexed && c.ci }
/-- how every other code path compares: case-sensitively -/
def Cfg.second (c : Cfg) : Cfg := { c with ci := false }

def Cfg.abs (c : Cfg) (p : Str) : Bool := isAbsolute p c.isCase c.isRe
def Cfg.vm (c : Cfg) (p v : Str) : Bool := valueMatches c.isCase c.isRe p v

/-! ## get_netlists: found set + namemap keyed by `obj.get(key, None)` -/

/-- which of the still-unreturned netlists one pattern returns -/
def foundHit (c : Cfg) (p : Str) (e : Cand) : Bool :=
  if c.abs p then e.key == some p else c.vm p e.val

def stageFound (c : Cfg) : List Cand → List Str → List Cand
  | _, [] => []
  | found, p :: ps =>
      found.filter (foundHit c p) ++ stageFound c (found.filter (fun e => !foundHit c p e)) ps

/-! ## direct stage: lookup for absolute patterns, scan otherwise, shared `found` set -/

/-- equality used by a lookup -/
def absEq (c : Cfg) (p : Str) (e : Cand) : Bool :=
  match e.key with
  | none => false
  | some k => if c.indexed && c.ci then lower k == lower p else k == p

/-- results of the lookup for an absolute pattern (repaired `lookup`: an indexed key answers from
    the dictionary, i.e. at most one element; otherwise the linear search returns every child whose
    value equals the pattern). -/
def lookupAll (c : Cfg) (p : Str) (children : List Cand) : List Cand :=
  if c.indexed then (children.find? (absEq c p)).toList
  else children.filter (absEq c p)

/-- `keyed`: get_instances tests `key in instance` before matching. -/
def scanHit (c : Cfg) (keyed : Bool) (p : Str) (e : Cand) : Bool :=
  (!keyed || e.key.isSome) && c.vm p e.val

/-- the elements one pattern adds for one parent, given what was found so far -/
def directPat (c : Cfg) (keyed : Bool) (children found : List Cand) (p : Str) : List Cand :=
  if c.abs p then (lookupAll c p children).filter (fun e => !found.contains e)
  else children.filter (fun e => !found.contains e && scanHit c keyed p e)

/-- all patterns on one parent: returns (yielded, found') -/
def directGroup (c : Cfg) (keyed : Bool) (children : List Cand) :
    List Cand → List Str → List Cand × List Cand
  | found, [] => ([], found)
  | found, p :: ps =>
      let y := directPat c keyed children found p
      let r := directGroup c keyed children (found ++ y) ps
      (y ++ r.1, r.2)

/-- all parents in visiting order: returns (yielded, found') -/
def stageDirect (c : Cfg) (keyed : Bool) (pats : List Str) :
    List (List Cand) → List Cand → List Cand × List Cand
  | [], found => ([], found)
  | g :: gs, found =>
      let a := directGroup c keyed g found pats
      let b := stageDirect c keyed pats gs a.2
      (a.1 ++ b.1, b.2)

/-! ## namemap stage -/

abbrev NameMap := List (Str × List Cand)

/-- `namemap.setdefault(name, []).append(e)` -/
def nmInsert : NameMap → Cand → NameMap
  | [], e => [(e.val, [e])]
  | (k, es) :: r, e => if k == e.val then (k, es ++ [e]) :: r else (k, es) :: nmInsert r e

def nmFlat (m : NameMap) : List Cand := m.flatMap (·.2)

/-- first loop of the second stage: skip what is already found, remember the rest -/
def freshOnes : List Cand → List Cand → List Cand
  | _, [] => []
  | found, e :: r => if found.contains e then freshOnes found r else e :: freshOnes (found ++ [e]) r

def buildMap (l : List Cand) : NameMap := l.foldl nmInsert []

def mapHit (c : Cfg) (p : Str) (kv : Str × List Cand) : Bool :=
  if c.abs p then kv.1 == p else c.vm p kv.1

/-- every pattern returns the entries it hits and deletes them -/
def stageMapGo (c : Cfg) : NameMap → List Str → List Cand
  | _, [] => []
  | m, p :: ps =>
      nmFlat (m.filter (mapHit c p)) ++ stageMapGo c (m.filter (fun kv => !mapHit c p kv)) ps

def stageMap (c : Cfg) (found others : List Cand) (pats : List Str) : List Cand :=
  stageMapGo c (buildMap (freshOnes found others)) pats

/-- a whole query of get_libraries/definitions/instances/ports/cables: direct stage over the
    parents visited, then the namemap stage over the elements reached otherwise. -/
def pipeline (c : Cfg) (keyed : Bool) (groups : List (List Cand)) (others : List Cand)
    (pats : List Str) : List Cand :=
  let d := stageDirect c keyed pats groups []
  d.1 ++ stageMap c d.2 others pats

/-! ## hierarchical stage: namemap that is never pruned + `in_namemap` set -/

/-- `for href in result: if href in in_namemap: in_namemap.remove(href); yield href` -/
def takeFrom : List Cand → List Cand → List Cand × List Cand
  | inSet, [] => ([], inSet)
  | inSet, h :: r =>
      if inSet.contains h then
        let t := takeFrom (inSet.filter (fun x => !(x == h))) r
        (h :: t.1, t.2)
      else takeFrom inSet r

def stageHGo (c : Cfg) (m : NameMap) : List Cand → List Str → List Cand
  | _, [] => []
  | inSet, p :: ps =>
      let t := takeFrom inSet (nmFlat (m.filter (mapHit c p)))
      t.1 ++ stageHGo c m t.2 ps

/-- de-duplication through a `found` set (first occurrence kept) -/
def dedup : List Cand → List Cand
  | [] => []
  | e :: r => e :: (dedup r).filter (fun x => !(x == e))

/-- `bypass` = elements yielded before the name search (`in_yield`); `named` = the elements entered
    in the namemap (each once: the `found` set of `_update_*_namemap`). -/
def stageH (c : Cfg) (bypass named : List Cand) (pats : List Str) : List Cand :=
  let b := dedup bypass
  let n := freshOnes [] named
  b ++ stageHGo c (buildMap n) (n.filter (fun e => !b.contains e)) pats

/-! ## no patterns -/
def stageNone (cands : List Cand) : List Cand := dedup cands

/-! ## the callback -/
def applyFilter (f : Cand → Bool) (out : List Cand) : List Cand := out.filter f

end Spydr.Query
