/-
  C13 — query filters mean what they say.  ONLY the property theorems and non-vacuity examples.
  Model: Spydr/Query/Model.lean (patterns.py and the filter stage of every get_*.py, as repaired by
  docs/fixes/query_*.diff).  Spec: Spydr/Query/Spec.lean (inductive relations on the pattern text,
  `filterSpec`).  All statements are for ALL patterns, values, candidate lists, pattern lists OF THE MODEL.
  The model is the code as repaired: in particular `[` is an ordinary character in wildcard mode
  (docs/fixes/query_glob_bracket_literal.diff; the pinned code hands the pattern to fnmatch, where `[`
  opens a character class -- open finding `_value_matches_pattern.glob_bracket.character_class`), and
  regular expressions are the sub-language literal / escaped literal / `.` / `.*`.
-/
import Spydr.Query.LemmasStage

namespace Spydr.Query
open Spydr.Query.Spec
open List

/-! ## the matcher -/

/-- `fnmatchcase` (patterns without `[`) is exactly the shell-wildcard relation. -/
theorem glob_spec (p v : Str) : globMatch p v = true ↔ GlobRel false p v :=
  tokMatch_glob_iff

/-- `_value_matches_pattern` decides the Spec relation in all four option combinations
    (glob / regex sub-language × case-sensitive / ignoring case). -/
theorem matches_spec (isCase isRe : Bool) (p v : Str) :
    valueMatches isCase isRe p v = true ↔ Matches isCase isRe p v :=
  valueMatches_iff isCase isRe p v

/-- For an absolute pattern matching is equality: the lookup path (which compares for equality) and
    the scan path (which matches) agree. -/
theorem absolute_match (isCase isRe : Bool) (p v : Str) (h : isAbsolute p isCase isRe = true) :
    valueMatches isCase isRe p v = true ↔ p = v := by
  rw [matches_spec]
  exact matches_abs ((isAbsolute_iff isCase isRe p).mp h) v

/-- `is_case=False` is matching of the lower-cased pattern against the lower-cased value, in glob
    mode and in regex mode. -/
theorem nocase_spec (isRe : Bool) (p v : Str) :
    valueMatches false isRe p v = valueMatches true isRe (lower p) (lower v) := by
  cases isRe with
  | false => simp [valueMatches]
  | true =>
      simp only [valueMatches, if_true, reToks_lower, Bool.not_false, Bool.not_true]
      cases reToks p with
      | none => rfl
      | some t => simp [tokMatch_ci]

/-- ... and it is the relation in which literal characters are compared ignoring ASCII case. -/
theorem nocase_rel (isRe : Bool) (p v : Str) :
    valueMatches false isRe p v = true ↔ (if isRe then ReRel true p v else GlobRel true p v) := by
  rw [matches_spec]; cases isRe <;> simp [Matches]

/-- exact = wildcard-free glob = escaped regex -/
theorem exact_glob_regex_agree (p v : Str) (h : ∀ ch ∈ p, ch ≠ '*' ∧ ch ≠ '?') :
    (valueMatches true false p v = true ↔ p = v) ∧
    (valueMatches true true (reEscape p) v = true ↔ p = v) := by
  refine ⟨?_, re_escape_exact p v⟩
  apply absolute_match
  simp only [isAbsolute, Bool.not_false, Bool.and_true, Bool.true_and, List.all_eq_true, isWild]
  intro ch hch
  have := h ch hch
  simp [this.1, this.2]

/-- a wildcard pattern and its regex translation (`*` -> `.*`, `?` -> `.`, rest escaped) match the
    same values, case-sensitively and ignoring case -/
theorem re_of_glob_spec (isCase : Bool) (p v : Str) :
    valueMatches isCase true (globToRe p) v = valueMatches isCase false p v :=
  re_of_glob isCase p v

example : globMatch "a*b?".toList "axxbc".toList = true := by decide
example : valueMatches false false "AB*".toList "abxx".toList = true := by decide
example : valueMatches false true "a\\[1\\].*".toList "A[1]zz".toList = true := by decide
example : isAbsolute "a[1]".toList true false = true := by decide

/-! ## the stages

`c.second` = the configuration with case-sensitive exact comparison (what every code path except the
indexed lookup does), `c.direct` = exact comparison ignores case iff `c.indexed ∧ c.ci` (what the direct
stage does).  `filterSpec c` itself grants case-insensitive exact comparison whenever `c.ci`
(identifiers under the EDIF policy), as the property does. -/

/-- get_netlists (no index is involved: exact comparison is case-sensitive) -/
theorem stage_spec_found (c : Cfg) (cands : List Cand) (pats : List Str) (h : HypFound cands pats) :
    stageFound c cands pats ~ filterSpec c.second cands pats :=
  stage_spec_found_aux c cands pats h.2

/-- direct stage (lookup for absolute patterns / scan), any number of parents, the same parent possibly
    visited several times; `keyedPart`: get_instances never returns a child lacking the key -/
theorem stage_spec_direct (c : Cfg) (keyed : Bool) (groups : List (List Cand)) (pats : List Str)
    (h : HypDirect c keyed groups pats) :
    (stageDirect c keyed pats groups []).1 ~
      filterSpec c.direct (keyedPart keyed (freshOnes [] groups.flatten)) pats :=
  stageDirect_spec c keyed groups pats h

/-- get_instances' direct stage skips children lacking the key whatever the pattern is (they are not
    part of its unfiltered result either, so this is consistent with the property's base set) -/
theorem stage_direct_keyed_skips (c : Cfg) (groups : List (List Cand)) (pats : List Str)
    (h : HypDirect c true groups pats) :
    ∀ e ∈ (stageDirect c true pats groups []).1, e.key.isSome = true := by
  intro e he
  have := (stage_spec_direct c true groups pats h).mem_iff.mp he
  simp only [filterSpec, keyedPart, if_true, List.mem_filter] at this
  exact this.1.2

/-- namemap stage on a duplicate-free list of elements not found before: always case-sensitive -/
theorem stage_spec_map (c : Cfg) (found others : List Cand) (pats : List Str)
    (hn : others.Nodup) (hd : ∀ e ∈ others, e ∉ found) :
    stageMap c found others pats ~ filterSpec c.second others pats := by
  have := stageMap_perm c found others pats
  rwa [freshOnes_self others found hn hd] at this

/-- a whole query of get_libraries / definitions / instances / ports / cables AS THE CODE BEHAVES:
    children of the visited parents are compared as the direct stage compares, elements reached
    through other root kinds case-sensitively.  No hypothesis on `ci`. -/
theorem stage_spec_pipeline_split (c : Cfg) (keyed : Bool) (groups : List (List Cand))
    (others : List Cand) (pats : List Str) (h : HypPipeline c keyed groups others pats) :
    pipeline c keyed groups others pats ~
      filterSpec c.direct (keyedPart keyed (freshOnes [] groups.flatten)) pats ++
      filterSpec c.second
        (freshOnes (keyedPart keyed (freshOnes [] groups.flatten)) others) pats :=
  pipeline_split c keyed groups others pats h

/-- ... which is the property's statement wherever the code is as case-insensitive as documented
    (`CiConsistent`: not an EDIF-policy identifier query, or the index answers and nothing comes through
    the second stage) -/
theorem stage_spec_pipeline (c : Cfg) (keyed : Bool) (groups : List (List Cand)) (others : List Cand)
    (pats : List Str) (h : HypPipeline c keyed groups others pats) (hc : CiConsistent c others) :
    pipeline c keyed groups others pats ~
      filterSpec c (keyedPart keyed (freshOnes [] groups.flatten) ++
        freshOnes (keyedPart keyed (freshOnes [] groups.flatten)) others) pats :=
  pipeline_spec c keyed groups others pats h hc

/-- ... and is NOT where it is not: without the index an exact identifier pattern is compared
    case-sensitively although `c.ci` (open finding `edif_identifier.exact_case_variant.*`): the result
    depends on whether the accelerated lookup is available -/
theorem stage_spec_pipeline_unindexed (c : Cfg) (keyed : Bool) (groups : List (List Cand))
    (others : List Cand) (pats : List Str) (h : HypPipeline c keyed groups others pats)
    (hi : c.indexed = false) :
    pipeline c keyed groups others pats ~
      filterSpec c.second (keyedPart keyed (freshOnes [] groups.flatten) ++
        freshOnes (keyedPart keyed (freshOnes [] groups.flatten)) others) pats := by
  have hd : c.direct = c.second := by cases c; simp [Cfg.direct, Cfg.second] at *; simp [hi]
  have := stage_spec_pipeline_split c keyed groups others pats h
  rwa [hd, ← filterSpec_append] at this

/-- concrete witness of the inconsistency: identifier `Abc`, exact pattern `aBC`, EDIF policy -/
example :
    (pipeline ⟨true, false, true, true⟩ false [[⟨1, some "Abc".toList⟩]] [] ["aBC".toList]).map (·.id) = [1] ∧
    (pipeline ⟨true, false, false, true⟩ false [[⟨1, some "Abc".toList⟩]] [] ["aBC".toList]).map (·.id) = [] ∧
    (pipeline ⟨true, false, true, true⟩ false [] [⟨1, some "Abc".toList⟩] ["aBC".toList]).map (·.id) = [] := by
  decide

/-- hierarchical queries.  `bypass` (elements reached through root kinds for which the code performs
    no name search) is returned unfiltered: this is the open finding `get_h*.pattern_ignored_for_root`;
    with `bypass = []` the statement is the full one. -/
theorem stage_spec_h (c : Cfg) (bypass named : List Cand) (pats : List Str) :
    stageH c bypass named pats ~
      dedup bypass ++
        filterSpec c.second ((freshOnes [] named).filter (fun e => !(dedup bypass).contains e)) pats :=
  stageH_perm c bypass named pats

theorem stage_spec_h_full (c : Cfg) (named : List Cand) (pats : List Str) (hn : named.Nodup) :
    stageH c [] named pats ~ filterSpec c.second named pats := by
  have := stageH_perm c [] named pats
  simpa [dedup, freshOnes_self named [] hn (fun _ _ => by simp), List.filter_eq_self.mpr] using this

/-- get_pins / get_wires: every element once -/
theorem stage_spec_none (cands : List Cand) :
    (stageNone cands).Nodup ∧ ∀ e, e ∈ stageNone cands ↔ e ∈ cands :=
  ⟨nodup_dedup cands, fun e => mem_dedup cands e⟩

theorem mem_keyedPart (keyed : Bool) (l : List Cand) (x : Cand) :
    x ∈ keyedPart keyed l ↔ x ∈ l ∧ (keyed = true → x.key.isSome = true) := by
  unfold keyedPart; cases keyed <;> simp [List.mem_filter]

theorem matchesCfg_congr {c1 c2 : Cfg} (h1 : c1.isCase = c2.isCase) (h2 : c1.isRe = c2.isRe)
    (h3 : c1.ci = c2.ci) (p v : Str) : MatchesCfg c1 p v ↔ MatchesCfg c2 p v := by
  unfold MatchesCfg; rw [h1, h2, h3]

theorem filterSpec_congr_cfg {c1 c2 : Cfg} (h1 : c1.isCase = c2.isCase) (h2 : c1.isRe = c2.isRe)
    (h3 : c1.ci = c2.ci) (l : List Cand) (pats : List Str) :
    filterSpec c1 l pats = filterSpec c2 l pats := by
  unfold filterSpec
  apply List.filter_congr
  intro e _
  rw [Bool.eq_iff_iff]
  simp only [decide_eq_true_eq]
  constructor
  · rintro ⟨p, hp, hm⟩; exact ⟨p, hp, (matchesCfg_congr h1 h2 h3 p _).mp hm⟩
  · rintro ⟨p, hp, hm⟩; exact ⟨p, hp, (matchesCfg_congr h1 h2 h3 p _).mpr hm⟩

theorem nodup_keyedPart (keyed : Bool) (l : List Cand) (h : l.Nodup) : (keyedPart keyed l).Nodup := by
  unfold keyedPart; cases keyed
  · simpa using h
  · simpa using h.sublist List.filter_sublist

/-- no element is returned twice -- from per-parent duplicate-freeness only: parents may be visited
    several times, groups may overlap, second-stage elements may repeat and overlap the groups -/
theorem stage_nodup (c : Cfg) (keyed : Bool) (groups : List (List Cand)) (others : List Cand)
    (pats : List Str) (h : HypPipeline c keyed groups others pats) :
    (pipeline c keyed groups others pats).Nodup := by
  refine ((stage_spec_pipeline_split c keyed groups others pats h).nodup_iff).mpr ?_
  have hA : (keyedPart keyed (freshOnes [] groups.flatten)).Nodup :=
    nodup_keyedPart _ _ (nodup_freshOnes _ _)
  unfold filterSpec
  refine List.nodup_append.mpr ⟨hA.sublist List.filter_sublist,
    (nodup_freshOnes _ _).sublist List.filter_sublist, ?_⟩
  intro a ha b hb hab
  subst hab
  exact ((mem_freshOnes others _ a).mp (List.mem_filter.mp hb).1).2 (List.mem_filter.mp ha).1

theorem stage_nodup_found (c : Cfg) (cands : List Cand) (pats : List Str) (h : HypFound cands pats) :
    (stageFound c cands pats).Nodup :=
  ((stage_spec_found c cands pats h).nodup_iff).mpr (h.1.sublist List.filter_sublist)

theorem stage_nodup_h (c : Cfg) (named : List Cand) (pats : List Str) (hn : named.Nodup) :
    (stageH c [] named pats).Nodup :=
  ((stage_spec_h_full c named pats hn).nodup_iff).mpr (hn.sublist List.filter_sublist)

theorem filterSpec_pats_congr (c : Cfg) (cands : List Cand) (pats pats' : List Str)
    (hp : ∀ p, p ∈ pats ↔ p ∈ pats') : filterSpec c cands pats = filterSpec c cands pats' := by
  unfold filterSpec
  apply List.filter_congr
  intro e _
  rw [Bool.eq_iff_iff]
  simp only [decide_eq_true_eq]
  constructor
  · rintro ⟨p, h1, h2⟩; exact ⟨p, (hp p).mp h1, h2⟩
  · rintro ⟨p, h1, h2⟩; exact ⟨p, (hp p).mpr h1, h2⟩

/-- the result is the union over the patterns and does not depend on their order or repetition:
    two pattern lists with the same members give the same multiset (no hypothesis on `ci`) -/
theorem stage_pattern_order (c : Cfg) (keyed : Bool) (groups : List (List Cand)) (others : List Cand)
    (pats pats' : List Str) (hp : ∀ p, p ∈ pats ↔ p ∈ pats')
    (h : HypPipeline c keyed groups others pats) :
    pipeline c keyed groups others pats ~ pipeline c keyed groups others pats' := by
  have h' : HypPipeline c keyed groups others pats' := by
    obtain ⟨h1, h2, h3⟩ := h
    refine ⟨h1, h2, ?_⟩
    rcases h3 with h3 | h3 | h3
    · exact Or.inl h3
    · exact Or.inr (Or.inl h3)
    · exact Or.inr (Or.inr (fun hm => h3 ((hp []).mpr hm)))
  refine (stage_spec_pipeline_split c keyed groups others pats h).trans ?_
  rw [filterSpec_pats_congr c.direct _ pats pats' hp, filterSpec_pats_congr c.second _ pats pats' hp]
  exact (stage_spec_pipeline_split c keyed groups others pats' h').symm

/-- union over the patterns, element-wise (where the code is consistent) -/
theorem stage_union (c : Cfg) (keyed : Bool) (groups : List (List Cand)) (others : List Cand)
    (pats : List Str) (h : HypPipeline c keyed groups others pats) (hc : CiConsistent c others)
    (e : Cand) :
    e ∈ pipeline c keyed groups others pats ↔
      (e ∈ keyedPart keyed groups.flatten ∨ e ∈ others) ∧ ∃ p ∈ pats, MatchesCfg c p e.val := by
  rw [(stage_spec_pipeline c keyed groups others pats h hc).mem_iff]
  have hk : ∀ x, x ∈ keyedPart keyed (freshOnes [] groups.flatten) ↔ x ∈ keyedPart keyed groups.flatten := by
    intro x
    rw [mem_keyedPart, mem_keyedPart, mem_freshOnes]
    simp
  simp only [filterSpec, List.mem_filter, List.mem_append, mem_freshOnes, decide_eq_true_eq, hk]
  constructor
  · rintro ⟨h1 | ⟨h1, _⟩, h2⟩
    · exact ⟨Or.inl h1, h2⟩
    · exact ⟨Or.inr h1, h2⟩
  · rintro ⟨h1 | h1, h2⟩
    · exact ⟨Or.inl h1, h2⟩
    · by_cases hg : e ∈ keyedPart keyed groups.flatten
      · exact ⟨Or.inl hg, h2⟩
      · exact ⟨Or.inr ⟨h1, hg⟩, h2⟩

/-- the registered fast lookup and the linear fallback give the same result for every key that is not
    an EDIF-policy identifier (for those the answer DOES depend on the lookup: see
    `stage_spec_pipeline_unindexed` and the `example` above) -/
theorem fast_eq_scan (c : Cfg) (keyed : Bool) (groups : List (List Cand)) (others : List Cand)
    (pats : List Str) (hci : c.ci = false)
    (h : HypPipeline { c with indexed := true } keyed groups others pats) :
    pipeline { c with indexed := true } keyed groups others pats ~
      pipeline { c with indexed := false } keyed groups others pats := by
  have h' : HypPipeline { c with indexed := false } keyed groups others pats := by
    obtain ⟨h1, _, h3⟩ := h
    exact ⟨h1, fun hf => by simp at hf, h3⟩
  have a := stage_spec_pipeline_split _ keyed groups others pats h
  have b := stage_spec_pipeline_split _ keyed groups others pats h'
  refine a.trans (Perm.trans (Perm.of_eq ?_) b.symm)
  rw [filterSpec_congr_cfg (c1 := Cfg.direct { c with indexed := true })
        (c2 := Cfg.direct { c with indexed := false }) rfl rfl (by simp [Cfg.direct, hci]),
      filterSpec_congr_cfg (c1 := Cfg.second { c with indexed := true })
        (c2 := Cfg.second { c with indexed := false }) rfl rfl rfl]

/-- the callback is applied on top of the pattern filter (immediate from `stage_spec_pipeline_split`
    and `List.Perm.filter`; listed for completeness, not a headline result) -/
theorem filter_commutes (c : Cfg) (keyed : Bool) (groups : List (List Cand)) (others : List Cand)
    (pats : List Str) (f : Cand → Bool) (h : HypPipeline c keyed groups others pats) :
    applyFilter f (pipeline c keyed groups others pats) ~
      (filterSpec c.direct (keyedPart keyed (freshOnes [] groups.flatten)) pats ++
       filterSpec c.second
        (freshOnes (keyedPart keyed (freshOnes [] groups.flatten)) others) pats).filter f :=
  Perm.filter f (stage_spec_pipeline_split c keyed groups others pats h)

/-! ## non-vacuity -/

private def ex_c : Cfg := ⟨true, false, true, false⟩
private def ex_groups : List (List Cand) :=
  [[⟨1, some "Ia".toList⟩, ⟨2, some "Ib".toList⟩], [⟨3, some "Ic".toList⟩, ⟨4, none⟩],
   [⟨1, some "Ia".toList⟩, ⟨2, some "Ib".toList⟩]]
private def ex_others : List Cand := [⟨5, none⟩, ⟨1, some "Ia".toList⟩, ⟨6, some "Ix".toList⟩, ⟨5, none⟩]
private def ex_pats : List Str := ["Ia".toList, "I?".toList, "Ia".toList, "a[1]*".toList]

example : HypPipeline ex_c false ex_groups ex_others ex_pats := by decide
example : HypPipeline ex_c true ex_groups ex_others ex_pats := by decide
example : CiConsistent ex_c ex_others := by decide
example : HypFound [⟨1, some "n".toList⟩, ⟨2, none⟩] ["n*".toList] := by decide
example : (pipeline ex_c false ex_groups ex_others ex_pats).map (·.id) = [1, 2, 3, 6] := by decide
example : globMatch "bus[3]*".toList "bus[3]x".toList = true := by decide
example : valueMatches false false "BUS[3]".toList "bus[3]".toList = true := by decide

end Spydr.Query
