/-
  C13 — query filters mean what they say.  ONLY the property theorems and non-vacuity examples.
  Model: Spydr/Query/Model.lean (patterns.py and the filter stage of every get_*.py, as repaired by
  docs/fixes/query_*.diff).  Spec: Spydr/Query/Spec.lean (inductive relations on the pattern text,
  `filterSpec`).  All statements are for ALL patterns, values, candidate lists, pattern lists.
-/
import Spydr.Query.LemmasStage

namespace Spydr.Query
open Spydr.Query.Spec
open List

/-! ## the matcher -/

/-- `fnmatchcase` (patterns without `[`) is exactly the shell-wildcard relation. -/
theorem glob_spec (p v : Str) : globMatch p v = true ↔ GlobRel false p v :=
  tokMatch_glob_iff

/-- `_value_matches_pattern` decides the Spec relation in all four option combinations
    (glob / regex sub-language × case-sensitive / ignoring case). -/
theorem matches_spec (isCase isRe : Bool) (p v : Str) :
    valueMatches isCase isRe p v = true ↔ Matches isCase isRe p v :=
  valueMatches_iff isCase isRe p v

/-- For an absolute pattern matching is equality: the lookup path (which compares for equality) and
    the scan path (which matches) agree. -/
theorem absolute_match (isCase isRe : Bool) (p v : Str) (h : isAbsolute p isCase isRe = true) :
    valueMatches isCase isRe p v = true ↔ p = v := by
  rw [matches_spec]
  exact matches_abs ((isAbsolute_iff isCase isRe p).mp h) v

/-- `is_case=False` is matching of the lower-cased pattern against the lower-cased value, in glob
    mode and in regex mode. -/
theorem nocase_spec (isRe : Bool) (p v : Str) :
    valueMatches false isRe p v = valueMatches true isRe (lower p) (lower v) := by
  cases isRe with
  | false => simp [valueMatches]
  | true =>
      simp only [valueMatches, if_true, reToks_lower, Bool.not_false, Bool.not_true]
      cases reToks p with
      | none => rfl
      | some t => simp [tokMatch_ci]

/-- ... and it is the relation in which literal characters are compared ignoring ASCII case. -/
theorem nocase_rel (isRe : Bool) (p v : Str) :
    valueMatches false isRe p v = true ↔ (if isRe then ReRel true p v else GlobRel true p v) := by
  rw [matches_spec]; cases isRe <;> simp [Matches]

/-- exact = wildcard-free glob = escaped regex -/
theorem exact_glob_regex_agree (p v : Str) (h : ∀ ch ∈ p, ch ≠ '*' ∧ ch ≠ '?') :
    (valueMatches true false p v = true ↔ p = v) ∧
    (valueMatches true true (reEscape p) v = true ↔ p = v) := by
  refine ⟨?_, re_escape_exact p v⟩
  apply absolute_match
  simp only [isAbsolute, Bool.not_false, Bool.and_true, Bool.true_and, List.all_eq_true, isWild]
  intro ch hch
  have := h ch hch
  simp [this.1, this.2]

/-- a wildcard pattern and its regex translation (`*` -> `.*`, `?` -> `.`, rest escaped) match the
    same values, case-sensitively and ignoring case -/
theorem re_of_glob_spec (isCase : Bool) (p v : Str) :
    valueMatches isCase true (globToRe p) v = valueMatches isCase false p v :=
  re_of_glob isCase p v

example : globMatch "a*b?".toList "axxbc".toList = true := by decide
example : valueMatches false false "AB*".toList "abxx".toList = true := by decide
example : valueMatches false true "a\\[1\\].*".toList "A[1]zz".toList = true := by decide
example : isAbsolute "a[1]".toList true false = true := by decide

/-! ## the stages -/

/-- get_netlists -/
theorem stage_spec_found (c : Cfg) (cands : List Cand) (pats : List Str)
    (hci : ¬ (c.indexed = true ∧ c.ci = true)) (h : HypFound cands pats) :
    stageFound c cands pats ~ filterSpec c cands pats :=
  stage_spec_found_aux c cands pats hci h.2

/-- direct stage (lookup for absolute patterns / scan), any number of parents -/
theorem stage_spec_direct (c : Cfg) (keyed : Bool) (groups : List (List Cand)) (pats : List Str)
    (h : HypDirect c keyed groups pats) :
    (stageDirect c keyed pats groups []).1 ~ filterSpec c groups.flatten pats :=
  stageDirect_spec c keyed groups pats h

/-- namemap stage on a duplicate-free list of elements not found before -/
theorem stage_spec_map (c : Cfg) (found others : List Cand) (pats : List Str)
    (hci : ¬ (c.indexed = true ∧ c.ci = true)) (hn : others.Nodup) (hd : ∀ e ∈ others, e ∉ found) :
    stageMap c found others pats ~ filterSpec c others pats := by
  have := stageMap_perm c found others pats hci
  rwa [freshOnes_self others found hn hd] at this

/-- a whole query of get_libraries / definitions / instances / ports / cables -/
theorem stage_spec_pipeline (c : Cfg) (keyed : Bool) (groups : List (List Cand)) (others : List Cand)
    (pats : List Str) (h : HypPipeline c keyed groups others pats) :
    pipeline c keyed groups others pats ~
      filterSpec c (groups.flatten ++ freshOnes groups.flatten others) pats :=
  pipeline_spec c keyed groups others pats h

/-- hierarchical queries.  `bypass` (elements reached through root kinds for which the code performs
    no name search) is returned unfiltered: this is the open finding `get_h*.pattern_ignored_for_root`;
    with `bypass = []` the statement is the full one. -/
theorem stage_spec_h (c : Cfg) (bypass named : List Cand) (pats : List Str)
    (hci : ¬ (c.indexed = true ∧ c.ci = true)) :
    stageH c bypass named pats ~
      dedup bypass ++
        filterSpec c ((freshOnes [] named).filter (fun e => !(dedup bypass).contains e)) pats :=
  stageH_perm c bypass named pats hci

theorem stage_spec_h_full (c : Cfg) (named : List Cand) (pats : List Str)
    (hci : ¬ (c.indexed = true ∧ c.ci = true)) (hn : named.Nodup) :
    stageH c [] named pats ~ filterSpec c named pats := by
  have := stageH_perm c [] named pats hci
  simpa [dedup, freshOnes_self named [] hn (fun _ _ => by simp), List.filter_eq_self.mpr] using this

/-- get_pins / get_wires: every element once -/
theorem stage_spec_none (cands : List Cand) :
    (stageNone cands).Nodup ∧ ∀ e, e ∈ stageNone cands ↔ e ∈ cands :=
  ⟨nodup_dedup cands, fun e => mem_dedup cands e⟩

/-- the candidate list of a whole query is duplicate-free, hence so is the result:
    no element is returned twice -/
theorem stage_nodup (c : Cfg) (keyed : Bool) (groups : List (List Cand)) (others : List Cand)
    (pats : List Str) (h : HypPipeline c keyed groups others pats) :
    (pipeline c keyed groups others pats).Nodup := by
  refine ((stage_spec_pipeline c keyed groups others pats h).nodup_iff).mpr ?_
  unfold filterSpec
  refine List.Nodup.sublist List.filter_sublist ?_
  refine List.nodup_append.mpr ⟨h.1.1, nodup_freshOnes _ _, ?_⟩
  intro a ha b hb hab
  subst hab
  exact ((mem_freshOnes others groups.flatten a).mp hb).2 ha

theorem stage_nodup_found (c : Cfg) (cands : List Cand) (pats : List Str)
    (hci : ¬ (c.indexed = true ∧ c.ci = true)) (h : HypFound cands pats) :
    (stageFound c cands pats).Nodup :=
  ((stage_spec_found c cands pats hci h).nodup_iff).mpr (h.1.sublist List.filter_sublist)

theorem stage_nodup_h (c : Cfg) (named : List Cand) (pats : List Str)
    (hci : ¬ (c.indexed = true ∧ c.ci = true)) (hn : named.Nodup) :
    (stageH c [] named pats).Nodup :=
  ((stage_spec_h_full c named pats hci hn).nodup_iff).mpr (hn.sublist List.filter_sublist)

theorem filterSpec_pats_congr (c : Cfg) (cands : List Cand) (pats pats' : List Str)
    (hp : ∀ p, p ∈ pats ↔ p ∈ pats') : filterSpec c cands pats = filterSpec c cands pats' := by
  unfold filterSpec
  apply List.filter_congr
  intro e _
  rw [Bool.eq_iff_iff]
  simp only [decide_eq_true_eq]
  constructor
  · rintro ⟨p, h1, h2⟩; exact ⟨p, (hp p).mp h1, h2⟩
  · rintro ⟨p, h1, h2⟩; exact ⟨p, (hp p).mpr h1, h2⟩

/-- the result is the union over the patterns and does not depend on their order or repetition:
    two pattern lists with the same members give the same multiset -/
theorem stage_pattern_order (c : Cfg) (keyed : Bool) (groups : List (List Cand)) (others : List Cand)
    (pats pats' : List Str) (hp : ∀ p, p ∈ pats ↔ p ∈ pats')
    (h : HypPipeline c keyed groups others pats) :
    pipeline c keyed groups others pats ~ pipeline c keyed groups others pats' := by
  have h' : HypPipeline c keyed groups others pats' := by
    obtain ⟨⟨h1, h2, h3⟩, h4⟩ := h
    refine ⟨⟨h1, h2, ?_⟩, h4⟩
    cases h3 with
    | inl h3 => exact Or.inl h3
    | inr h3 => exact Or.inr ⟨h3.1, fun hm => h3.2 ((hp []).mpr hm)⟩
  refine (stage_spec_pipeline c keyed groups others pats h).trans ?_
  rw [filterSpec_pats_congr c _ pats pats' hp]
  exact (stage_spec_pipeline c keyed groups others pats' h').symm

/-- union over the patterns, element-wise -/
theorem stage_union (c : Cfg) (keyed : Bool) (groups : List (List Cand)) (others : List Cand)
    (pats : List Str) (h : HypPipeline c keyed groups others pats) (e : Cand) :
    e ∈ pipeline c keyed groups others pats ↔
      (e ∈ groups.flatten ∨ e ∈ others) ∧ ∃ p ∈ pats, MatchesCfg c p e.val := by
  rw [(stage_spec_pipeline c keyed groups others pats h).mem_iff]
  simp only [filterSpec, List.mem_filter, List.mem_append, mem_freshOnes, decide_eq_true_eq]
  constructor
  · rintro ⟨h1 | ⟨h1, _⟩, h2⟩
    · exact ⟨Or.inl h1, h2⟩
    · exact ⟨Or.inr h1, h2⟩
  · rintro ⟨h1 | h1, h2⟩
    · exact ⟨Or.inl h1, h2⟩
    · by_cases hg : e ∈ groups.flatten
      · exact ⟨Or.inl hg, h2⟩
      · exact ⟨Or.inr ⟨h1, hg⟩, h2⟩

/-- the registered fast lookup and the linear fallback give the same result (where the index is
    case-sensitive; the documented exception is the case-insensitive EDIF identifier index) -/
theorem fast_eq_scan (c : Cfg) (keyed : Bool) (groups : List (List Cand)) (others : List Cand)
    (pats : List Str) (hci : c.ci = false)
    (h : HypPipeline { c with indexed := true } keyed groups others pats) :
    pipeline { c with indexed := true } keyed groups others pats ~
      pipeline { c with indexed := false } keyed groups others pats := by
  have h' : HypPipeline { c with indexed := false } keyed groups others pats := by
    obtain ⟨⟨h1, _, h3⟩, _⟩ := h
    exact ⟨⟨h1, fun hf => by simp at hf, h3⟩, fun hf => by simp at hf⟩
  refine (stage_spec_pipeline _ keyed groups others pats h).trans ?_
  refine Perm.trans (Perm.of_eq ?_) (stage_spec_pipeline _ keyed groups others pats h').symm
  unfold filterSpec
  apply List.filter_congr
  intro e _
  rw [Bool.eq_iff_iff]
  simp only [decide_eq_true_eq]
  have hm : ∀ p, MatchesCfg { c with indexed := true } p e.val ↔
      MatchesCfg { c with indexed := false } p e.val := by
    intro p
    rw [matchesCfg_plain (by simp [hci]), matchesCfg_plain (by simp)]
  constructor
  · rintro ⟨p, h1, h2⟩; exact ⟨p, h1, (hm p).mp h2⟩
  · rintro ⟨p, h1, h2⟩; exact ⟨p, h1, (hm p).mpr h2⟩

/-- the callback is applied on top of the pattern filter -/
theorem filter_commutes (c : Cfg) (keyed : Bool) (groups : List (List Cand)) (others : List Cand)
    (pats : List Str) (f : Cand → Bool) (h : HypPipeline c keyed groups others pats) :
    applyFilter f (pipeline c keyed groups others pats) ~
      (filterSpec c (groups.flatten ++ freshOnes groups.flatten others) pats).filter f :=
  Perm.filter f (stage_spec_pipeline c keyed groups others pats h)

/-! ## non-vacuity -/

private def ex_c : Cfg := ⟨true, false, true, false⟩
private def ex_groups : List (List Cand) :=
  [[⟨1, some "Ia".toList⟩, ⟨2, some "Ib".toList⟩], [⟨3, some "Ia".toList⟩, ⟨4, none⟩]]
private def ex_others : List Cand := [⟨5, none⟩, ⟨1, some "Ia".toList⟩, ⟨6, some "Ix".toList⟩, ⟨5, none⟩]
private def ex_pats : List Str := ["Ia".toList, "I?".toList, "Ia".toList]

example : HypPipeline ex_c false ex_groups ex_others ex_pats := by decide
example : HypFound [⟨1, some "n".toList⟩, ⟨2, none⟩] ["n*".toList] := by decide
example : (pipeline ex_c false ex_groups ex_others ex_pats).map (·.id) = [1, 2, 3, 6] := by decide
example : HypPipeline ⟨true, false, true, true⟩ false [[⟨1, some "Abc".toList⟩, ⟨2, some "x".toList⟩]] []
    ["aBC".toList] := by decide
example : (pipeline ⟨true, false, true, true⟩ false [[⟨1, some "Abc".toList⟩, ⟨2, some "x".toList⟩]] []
    ["aBC".toList]).map (·.id) = [1] := by decide

end Spydr.Query
