/-
  Specification side of C13: what "matches" means, as inductive relations written directly on the
  pattern text (no tokenizer, no matcher from the model is used; only the data types `Str`, `Cand`,
  `Cfg` are shared), and `filterSpec`, the property's "unfiltered result restricted to the elements
  whose value under the chosen key matches a pattern".
-/
import Spydr.Query.Model

namespace Spydr.Query.Spec
open Spydr.Query

/-- equality of characters, optionally ignoring ASCII letter case -/
def SameCh (ci : Bool) (c d : Char) : Prop :=
  if ci then lowerC c = lowerC d else c = d

/-- shell wildcards: `*` any run of characters (possibly empty), `?` exactly one character,
    everything else itself. -/
inductive GlobRel (ci : Bool) : Str → Str → Prop
  | nil : GlobRel ci [] []
  | starSkip {p v} : GlobRel ci p v → GlobRel ci ('*' :: p) v
  | starEat {p d v} : GlobRel ci ('*' :: p) v → GlobRel ci ('*' :: p) (d :: v)
  | one {p d v} : GlobRel ci p v → GlobRel ci ('?' :: p) (d :: v)
  | lit {p c d v} : c ≠ '*' → c ≠ '?' → SameCh ci c d → GlobRel ci p v →
      GlobRel ci (c :: p) (d :: v)

/-- characters with a meaning in a regular expression (the set `re.escape` escapes) -/
def metaChars : List Char :=
  ['(', ')', '[', ']', '{', '}', '?', '*', '+', '-', '|', '^', '$', '\\', '.', '&', '~', '#',
   ' ', '\t', '\n', '\r', '\x0b', '\x0c']

/-- full-match semantics of the regular expressions the property quantifies over: an ordinary
    character, a backslash-escaped non-alphanumeric character, `.` (any one character) and `.*`.
    Any other construct is related to no value (it is outside the modelled sub-language). -/
inductive ReRel (ci : Bool) : Str → Str → Prop
  | nil : ReRel ci [] []
  | esc {p c d v} : c.isAlphanum = false → SameCh ci c d → ReRel ci p v →
      ReRel ci ('\\' :: c :: p) (d :: v)
  | dotStarSkip {p v} : ReRel ci p v → ReRel ci ('.' :: '*' :: p) v
  | dotStarEat {p d v} : ReRel ci ('.' :: '*' :: p) v → ReRel ci ('.' :: '*' :: p) (d :: v)
  | dot {p d v} : (∀ r, p ≠ '*' :: r) → ReRel ci p v → ReRel ci ('.' :: p) (d :: v)
  | lit {p c d v} : c ∉ metaChars → SameCh ci c d → ReRel ci p v → ReRel ci (c :: p) (d :: v)

/-- "value matches pattern" under the two option flags -/
def Matches (isCase isRe : Bool) (p v : Str) : Prop :=
  if isRe then ReRel (!isCase) p v else GlobRel (!isCase) p v

/-- a pattern the documentation calls absolute: case-sensitive, not a regex, no wildcard -/
def Absolute (isCase isRe : Bool) (p : Str) : Prop :=
  isCase = true ∧ isRe = false ∧ ∀ ch ∈ p, ch ≠ '*' ∧ ch ≠ '?'

/-- identifiers under the EDIF policy (`c.ci`) compare case-insensitively when the pattern is an exact
    string (the property's documented exception); everything else is `Matches`. -/
def MatchesCfg (c : Cfg) (p v : Str) : Prop :=
  ((Absolute c.isCase c.isRe p ∧ c.ci = true) ∧ lower v = lower p) ∨
  (¬ (Absolute c.isCase c.isRe p ∧ c.ci = true) ∧ Matches c.isCase c.isRe p v)

/-- the elements of the unfiltered result whose value matches some pattern -/
def filterSpec (c : Cfg) (cands : List Cand) (pats : List Str)
    [DecidablePred (fun e : Cand => ∃ p ∈ pats, MatchesCfg c p e.val)] : List Cand :=
  cands.filter (fun e => decide (∃ p ∈ pats, MatchesCfg c p e.val))

/-! ## decidable hypotheses of the stage theorems (the driver reports them, the harness checks
    that generated inputs satisfy them) -/

def AllKeyed (l : List Cand) : Prop := ∀ e ∈ l, e.key.isSome = true

/-- what an index keys an element by -/
def indexKey (c : Cfg) (e : Cand) : Option Str :=
  if c.ci then e.key.map lower else e.key

/-- sibling values are unique where an index serves the key (C10's invariant) -/
def UniqueKeys (c : Cfg) (g : List Cand) : Prop := (g.filterMap (indexKey c)).Nodup

def HypFound (cands : List Cand) (pats : List Str) : Prop :=
  cands.Nodup ∧ (AllKeyed cands ∨ [] ∉ pats)

/-- `keyed` = get_instances: children lacking the key are never looked at by the direct stage -/
def keyedPart (keyed : Bool) (l : List Cand) : List Cand :=
  if keyed then l.filter (fun e => e.key.isSome) else l

/-- hypotheses of the direct stage: every visited parent lists a child once (the same parent may be
    visited several times and parents may overlap), sibling keys are unique where an index answers,
    and -- except for get_instances, which skips them -- children lacking the key are not asked for
    the empty pattern -/
def HypDirect (c : Cfg) (keyed : Bool) (groups : List (List Cand)) (pats : List Str) : Prop :=
  (∀ g ∈ groups, g.Nodup) ∧
  (c.indexed = true → ∀ g ∈ groups, UniqueKeys c g) ∧
  (keyed = true ∨ AllKeyed groups.flatten ∨ [] ∉ pats)

/-- a whole query needs nothing more (the second-stage elements may repeat and overlap the groups) -/
def HypPipeline (c : Cfg) (keyed : Bool) (groups : List (List Cand)) (_others : List Cand)
    (pats : List Str) : Prop :=
  HypDirect c keyed groups pats

/-- where the code is as case-insensitive as the documentation says: no such key, or the index
    answers and no element comes through the second stage -/
def CiConsistent (c : Cfg) (others : List Cand) : Prop :=
  c.ci = true → (c.indexed = true ∧ others = [])

instance (l : List Cand) : Decidable (AllKeyed l) := by unfold AllKeyed; exact inferInstance
instance (c : Cfg) (g : List Cand) : Decidable (UniqueKeys c g) := by
  unfold UniqueKeys; exact inferInstance
instance (cands : List Cand) (pats : List Str) : Decidable (HypFound cands pats) := by
  unfold HypFound; exact inferInstance
instance (c : Cfg) (keyed : Bool) (groups : List (List Cand)) (pats : List Str) :
    Decidable (HypDirect c keyed groups pats) := by unfold HypDirect; exact inferInstance
instance (c : Cfg) (keyed : Bool) (groups : List (List Cand)) (others : List Cand)
    (pats : List Str) : Decidable (HypPipeline c keyed groups others pats) := by
  unfold HypPipeline; exact inferInstance
instance (c : Cfg) (others : List Cand) : Decidable (CiConsistent c others) := by
  unfold CiConsistent; exact inferInstance

end Spydr.Query.Spec
