import Spydr.Verilog.Props.C04
import Spydr.Verilog.Props.C06
import Spydr.Verilog.RoundTripShape
import Spydr.Verilog.RoundTripSingle
import Spydr.Verilog.RoundTripBits
import Spydr.Verilog.RoundTripView
import Spydr.Verilog.RoundTripTokD
import Spydr.Verilog.RoundTripText
import Spydr.Verilog.WFStruct
import Spydr.Verilog.RoundTripRenderB
import Spydr.Verilog.RoundTripLexB
import Spydr.Verilog.RoundTripStruct
import Spydr.Verilog.RoundTripLeafF
import Spydr.Verilog.RoundTripLeafI
import Spydr.Verilog.RoundTripLeafJ
import Spydr.Verilog.RoundTripHierE
import Spydr.Verilog.RoundTripHierH
import Spydr.Verilog.RoundTripHierI
import Spydr.Verilog.RoundTripAsgE
import Spydr.Verilog.RoundTripAsgI
import Spydr.Verilog.WFWiresC

#print axioms Spydr.Verilog.getWires_spec
#print axioms Spydr.Verilog.getWires_spec_single_all
#print axioms Spydr.Verilog.concat_spec
#print axioms Spydr.Verilog.connect_low_aligned
#print axioms Spydr.Verilog.connect_low_aligned_fresh
#print axioms Spydr.Verilog.lowAligned_bit
#print axioms Spydr.Verilog.connect_too_wide
#print axioms Spydr.Verilog.resize_stable
#print axioms Spydr.Verilog.resize_keeps_index
#print axioms Spydr.Verilog.resize_port_stable
#print axioms Spydr.Verilog.emit_eval
#print axioms Spydr.Verilog.emit_eval_spec
#print axioms Spydr.Verilog.decl_range_roundtrip
#print axioms Spydr.Verilog.alias_header_roundtrip
#print axioms Spydr.Verilog.assign_regen
#print axioms Spydr.Verilog.assign_regen_all
#print axioms Spydr.Verilog.write_order_defined
#print axioms Spydr.Verilog.visit_order_defined
#print axioms Spydr.Verilog.verilog_reader_spec_partial
#print axioms Spydr.Verilog.verilog_roundtrip_partial
#print axioms Spydr.Verilog.connect_assign_spec
#print axioms Spydr.Verilog.connect_alias_spec
#print axioms Spydr.Verilog.elab_connection_spec
#print axioms Spydr.Verilog.write_order_total
#print axioms Spydr.Verilog.elab_connection_total
#print axioms Spydr.Verilog.Elab.instantiate_named
#print axioms Spydr.Verilog.Elab.instances_fold
#print axioms Spydr.Verilog.Elab.header_fold
#print axioms Spydr.Verilog.Elab.wires_fold
#print axioms Spydr.Verilog.Elab.elabModule_frag
#print axioms Spydr.Verilog.Elab.elabDesign_frag
#print axioms Spydr.Verilog.Elab.exDesign_frag
#print axioms Spydr.Verilog.Elab.reader_shape_frag
#print axioms Spydr.Verilog.Elab.reader_rows_roundtrip
#print axioms Spydr.Verilog.Elab.portDecl_stub
#print axioms Spydr.Verilog.Elab.fold_local
#print axioms Spydr.Verilog.Elab.elabModule_wshape
#print axioms Spydr.Verilog.Elab.exW_builds
#print axioms Spydr.Verilog.Elab.instantiate_first
#print axioms Spydr.Verilog.Elab.elabDesign_wsingle
#print axioms Spydr.Verilog.Elab.exWI_builds
#print axioms Spydr.Verilog.Elab.exprWires_bits
#print axioms Spydr.Verilog.Elab.buildW3_WF
#print axioms Spydr.Verilog.Elab.instStep2_den
#print axioms Spydr.Verilog.Elab.row_roundtrip
#print axioms Spydr.Verilog.Elab.buildW3_cab
#print axioms Spydr.Verilog.Elab.buildW3_ports
#print axioms Spydr.Verilog.Elab.buildW3_PC
#print axioms Spydr.Verilog.Elab.cables_view
#print axioms Spydr.Verilog.Elab.ports_view
#print axioms Spydr.Verilog.Elab.inst_view_step
#print axioms Spydr.Verilog.Elab.c04_view
#print axioms Spydr.Verilog.Elab.c04_ast
#print axioms Spydr.Verilog.Elab.exNet_frag
#print axioms Spydr.Verilog.Elab.expr_toks
#print axioms Spydr.Verilog.Elab.star_toks
#print axioms Spydr.Verilog.Elab.paramMap_toks
#print axioms Spydr.Verilog.Elab.namedMapGo_toks
#print axioms Spydr.Verilog.Elab.instP_toks
#print axioms Spydr.Verilog.Elab.portDeclP_toks
#print axioms Spydr.Verilog.Elab.cableDeclGo_toks
#print axioms Spydr.Verilog.Elab.bodyGo_items
#print axioms Spydr.Verilog.Elab.moduleP_toks
#print axioms Spydr.Verilog.Elab.parseV_toks
#print axioms Spydr.Verilog.Elab.parse_tokens
#print axioms Spydr.Verilog.Elab.c04_tokens
#print axioms Spydr.Verilog.Elab.exNet_tokens
#print axioms Spydr.Verilog.Elab.c04_text
#print axioms Spydr.Verilog.Elab.exNet_full
#print axioms Spydr.Verilog.Elab.exNet_roundtrip
#print axioms Spydr.Verilog.Elab.regrow_wf
#print axioms Spydr.Verilog.Elab.createOrUpdateCable_wf
#print axioms Spydr.Verilog.Elab.createOrUpdatePort_wf
#print axioms Spydr.Verilog.Elab.reorderPorts_wf
#print axioms Spydr.Verilog.Elab.portDecl_wf
#print axioms Spydr.Verilog.Elab.connectInstRow_wf
#print axioms Spydr.Verilog.Elab.instantiate_wf
#print axioms Spydr.Verilog.Elab.positional_wf
#print axioms Spydr.Verilog.Elab.assignStmt_wf
#print axioms Spydr.Verilog.Elab.elabModule_wf
#print axioms Spydr.Verilog.Elab.elabDesign_wf
#print axioms Spydr.Verilog.Elab.readV_wf
#print axioms Spydr.Verilog.Elab.structWF_iff
#print axioms Spydr.Verilog.Elab.reader_structWF
#print axioms Spydr.Verilog.Elab.elab_structWF
#print axioms Spydr.Verilog.Elab.exNet_structWF
#print axioms Spydr.Verilog.Elab.pending_not_emptied
#print axioms Spydr.Verilog.Elab.composeV_text
#print axioms Spydr.Verilog.Elab.moduleText_top
#print axioms Spydr.Verilog.Elab.fragFull_of
#print axioms Spydr.Verilog.Elab.lexV_run
#print axioms Spydr.Verilog.Elab.add_pend
#print axioms Spydr.Verilog.Elab.add_word_end
#print axioms Spydr.Verilog.Elab.run_clean
#print axioms Spydr.Verilog.Elab.lex_pieces
#print axioms Spydr.Verilog.Elab.lexV_pieces
#print axioms Spydr.Verilog.Elab.chars_modP
#print axioms Spydr.Verilog.Elab.toks_modP
#print axioms Spydr.Verilog.Elab.chars_fileP
#print axioms Spydr.Verilog.Elab.lexR_of_pieces
#print axioms Spydr.Verilog.Elab.c04_text_struct
#print axioms Spydr.Verilog.Elab.exNet_struct
#print axioms Spydr.Verilog.Elab.declStepL_run
#print axioms Spydr.Verilog.Elab.hdrStepL_run
#print axioms Spydr.Verilog.Elab.elabModule_leaf
#print axioms Spydr.Verilog.Elab.elabDesign_bb
#print axioms Spydr.Verilog.Elab.exBB_builds
#print axioms Spydr.Verilog.Elab.foldLeaves_view
#print axioms Spydr.Verilog.Elab.buildLeaf_iface
#print axioms Spydr.Verilog.Elab.foldLeaves_iface
#print axioms Spydr.Verilog.Elab.c04_view_bb
#print axioms Spydr.Verilog.Elab.c04_ast_bb
#print axioms Spydr.Verilog.Elab.exNetBB_frag
#print axioms Spydr.Verilog.Elab.primBodyGo_ports
#print axioms Spydr.Verilog.Elab.moduleP_leaf
#print axioms Spydr.Verilog.Elab.topGo_leaf
#print axioms Spydr.Verilog.Elab.preprocess_keep
#print axioms Spydr.Verilog.Elab.parse_bb
#print axioms Spydr.Verilog.Elab.moduleText_leaf
#print axioms Spydr.Verilog.Elab.composeV_text_bb
#print axioms Spydr.Verilog.Elab.chars_leafP
#print axioms Spydr.Verilog.Elab.toks_leafP
#print axioms Spydr.Verilog.Elab.chars_filePbb
#print axioms Spydr.Verilog.Elab.c04_text_bb
#print axioms Spydr.Verilog.Elab.exNetBB_struct
#print axioms Spydr.Verilog.Elab.exNetBB_roundtrip
#print axioms Spydr.Verilog.Elab.buildBB_low
#print axioms Spydr.Verilog.Elab.c04_full_ast
#print axioms Spydr.Verilog.Elab.c04_full_bb
#print axioms Spydr.Verilog.Elab.exNetBB_full
#print axioms Spydr.Verilog.Elab.nobb_row_shrinks
#print axioms Spydr.Verilog.Elab.exNetRB_full
#print axioms Spydr.Verilog.Elab.instantiate_firstG
#print axioms Spydr.Verilog.Elab.instStep2_runG
#print axioms Spydr.Verilog.Elab.insts_foldG
#print axioms Spydr.Verilog.Elab.declStepA_run
#print axioms Spydr.Verilog.Elab.wire_foldG
#print axioms Spydr.Verilog.Elab.elabModule_lateW
#print axioms Spydr.Verilog.Elab.late_fold
#print axioms Spydr.Verilog.Elab.elabDesign_hier
#print axioms Spydr.Verilog.Elab.exHier_builds
#print axioms Spydr.Verilog.Elab.late_facts
#print axioms Spydr.Verilog.Elab.view_core
#print axioms Spydr.Verilog.Elab.buildLateW_view
#print axioms Spydr.Verilog.Elab.hier_fold
#print axioms Spydr.Verilog.Elab.c04_view_hier
#print axioms Spydr.Verilog.Elab.c04_ast_hier
#print axioms Spydr.Verilog.Elab.exNetH_frag
#print axioms Spydr.Verilog.Elab.topGo_work
#print axioms Spydr.Verilog.Elab.parse_hier
#print axioms Spydr.Verilog.Elab.composeV_text_hier
#print axioms Spydr.Verilog.Elab.chars_filePH
#print axioms Spydr.Verilog.Elab.c04_text_hier
#print axioms Spydr.Verilog.Elab.exNetH_struct
#print axioms Spydr.Verilog.Elab.exNetH_roundtrip
#print axioms Spydr.Verilog.Elab.asgStepR_run
#print axioms Spydr.Verilog.Elab.asg_foldG
#print axioms Spydr.Verilog.Elab.late_prefix
#print axioms Spydr.Verilog.Elab.elabModule_lateWA
#print axioms Spydr.Verilog.Elab.top_prefix
#print axioms Spydr.Verilog.Elab.elabModule_wtopA
#print axioms Spydr.Verilog.Elab.late_foldA
#print axioms Spydr.Verilog.Elab.elabDesign_hierA
#print axioms Spydr.Verilog.Elab.exHierA_builds
#print axioms Spydr.Verilog.Elab.asg_view_step
#print axioms Spydr.Verilog.Elab.asgs_view
#print axioms Spydr.Verilog.Elab.view_coreA
#print axioms Spydr.Verilog.Elab.buildLateWA_view
#print axioms Spydr.Verilog.Elab.hier_foldA
#print axioms Spydr.Verilog.Elab.c04_view_hierA
#print axioms Spydr.Verilog.Elab.c04_ast_hierA
#print axioms Spydr.Verilog.Elab.exNetHA_frag
#print axioms Spydr.Verilog.Elab.exNetHA_has_assigns
#print axioms Spydr.Verilog.Elab.bodyGo_asg
#print axioms Spydr.Verilog.Elab.topGo_mod
#print axioms Spydr.Verilog.Elab.parse_hierA
#print axioms Spydr.Verilog.Elab.assigns_foldA
#print axioms Spydr.Verilog.Elab.instances_foldA
#print axioms Spydr.Verilog.Elab.moduleText_topA
#print axioms Spydr.Verilog.Elab.anys_textA
#print axioms Spydr.Verilog.Elab.composeV_text_hierA
#print axioms Spydr.Verilog.Elab.chars_asgP
#print axioms Spydr.Verilog.Elab.toks_asgP
#print axioms Spydr.Verilog.Elab.chars_modPA
#print axioms Spydr.Verilog.Elab.toks_modPA
#print axioms Spydr.Verilog.Elab.chars_filePHA
#print axioms Spydr.Verilog.Elab.toks_filePHA
#print axioms Spydr.Verilog.Elab.c04_text_hierA
#print axioms Spydr.Verilog.Elab.exNetHA_struct
#print axioms Spydr.Verilog.Elab.exNetHA_roundtrip
#print axioms Spydr.Verilog.Elab.createOrUpdateCable_ww
#print axioms Spydr.Verilog.Elab.elabDesign_ww
#print axioms Spydr.Verilog.Elab.reader_wiresWF
#print axioms Spydr.Verilog.Elab.elab_wiresWF
#print axioms Spydr.Verilog.Elab.exNet_wiresWF
#print axioms Spydr.Verilog.Elab.positional_too_many_rejected
#print axioms Spydr.Verilog.Elab.positional_undeclared_creates_ports
