/-
  Verilog engine — evidence side: for a generated case, is it inside the fragment of a theorem, and if not, which clause
  fails first?  The verdict `in` is the theorem's own decidable predicate; the label after `out:` is an explanation
  computed by walking the clauses in a reader-friendly order (features first).  Nothing here is used by a theorem, and
  no check of the harness depends on it.
-/
import Spydr.Verilog.RoundTripLeafJ
import Spydr.Verilog.RoundTripHierI
import Spydr.Verilog.RoundTripAsgI
import Spydr.Verilog.RoundTripDesign
namespace Spydr.Verilog.Elab
open Spydr.Verilog

def orElseS (a : Option String) (b : Unit → Option String) : Option String :=
  match a with
  | some x => some x
  | none => b ()

def nameWhy (what nm : String) : Option String :=
  if nameTokB (nameT nm) nm then none
  else if nm.startsWith "\\" then some (what ++ ":escaped-identifier-token")
  else some (what ++ ":name-token")

def whyAstPort (T : Text.WDef) (p : Text.WPort) : Option String :=
  match p.name with
  | none => some "port-unnamed"
  | some nm =>
    match T.cables.find? (fun c => c.name == nm) with
    | none => some "port-without-net-of-its-name"
    | some _ =>
      match dirOfS p.dir with
      | none => some "port-direction-undefined"
      | some _ => if emitHeaderPort (Text.envOf T) nm p.pins = some none then none else some "header-port-alias-or-concatenation"

def whyAstInst (n : Text.WNet) (T : Text.WDef) (i : Text.WInst) : Option String :=
  match Text.refOf n i.ref with
  | none => some "instance-reference-not-in-netlist"
  | some r => (List.range r.ports.length).findSome? (fun k =>
      match (r.ports.getD k default).name, emitPortExpr (Text.envOf T) (i.pins.getD k []) with
      | none, _ => some "instance-of-module-with-unnamed-port"
      | _, none => some "writer-raises-on-instance-port"
      | _, _ => none)

def whyFragTop (n : Text.WNet) (T : Text.WDef) : Option String :=
  if !decide ((T.cables.map (·.name)).Nodup) then some "net-names-not-distinct"
  else if T.cables.any (fun c => c.width == 0) then some "net-of-width-0"
  else if !decide ((T.ports.map (·.name)).Nodup) then some "port-names-not-distinct"
  else
    orElseS (T.ports.findSome? (fun p =>
      match p.name with
      | none => some "port-unnamed"
      | some nm =>
        match T.cables.find? (fun c => c.name == nm) with
        | none => some "port-without-net-of-its-name"
        | some c =>
          if decide (p.lower = c.lower) && decide (p.width = c.width) &&
              decide (p.pins = (cableBits nm c.lower c.width).items.map some) then none
          else some "port-not-wired-to-the-whole-net-of-its-name")) fun _ =>
    T.insts.findSome? (fun i =>
      match Text.refOf n i.ref with
      | none => some "instance-reference-not-in-netlist"
      | some r =>
        if !decide ((r.ports.map (·.name)).Nodup) then some "referenced-module-port-names-not-distinct"
        else if r.ports.any (fun q => q.name.isNone) then some "instance-of-module-with-unnamed-port"
        else if !decide (((i.params.getD []).map (·.1)).Nodup) then some "parameter-keys-not-distinct"
        else (List.range r.ports.length).findSome? (fun k =>
          if (i.pins.getD k []).isEmpty then some "instance-row-empty"
          else if !readerShape (Text.envOf T) (i.pins.getD k []) then some "instance-row-not-a-low-aligned-block"
          else none))

def whyItem (it : SItem) : Option String :=
  match it with
  | .port p =>
    if p.dir == .undef then some "port-direction-undefined"
    else if !rangeOK p.rng then some "port-range-token"
    else orElseS (nameWhy "port" p.name) fun _ => if attrsOK p.attrs then none else some "port-attribute-tokens"
  | .wire w =>
    if !wireTypes.contains w.ty then some "net-type"
    else if !rangeOK w.rng then some "net-range-token"
    else orElseS (nameWhy "net" w.name) fun _ => if attrsOK w.attrs then none else some "net-attribute-tokens"
  | .inst i =>
    orElseS (nameWhy "module" i.mod) fun _ => orElseS (nameWhy "instance" i.name) fun _ =>
    if !paramsOK i.params then some "parameter-tokens"
    else if i.conns.isEmpty then some "instance-without-ports"
    else orElseS (i.conns.findSome? (fun c => orElseS (nameWhy "port" c.1) fun _ =>
      if exprOK c.2 then none else some "expression-tokens")) fun _ =>
    if attrsOK i.attrs then none else some "instance-attribute-tokens"
  | .asg l r => if atomOK l && atomOK r then none else some "assign-expression-tokens"

def whyTok (m : WModI) : Option String :=
  if !attrsOK m.attrs then some "module-attribute-tokens"
  else orElseS (nameWhy "module" m.name) fun _ =>
    orElseS ((m.ports.map (·.name)).findSome? (nameWhy "port")) fun _ =>
    orElseS (m.sitems.findSome? whyItem) fun _ =>
    if cleanToks (tokensOf m) then none else some "comment-or-directive-like-token"

def pieceWhy (p : Piece) : Option String :=
  if p.ok then none else
  match p with
  | .ws _ => some "white-space"
  | .tok s =>
    if s.startsWith "\\" then some "escaped-identifier-as-a-word-piece"
    else if s.toList.any (fun c => Text.breakers.contains c || c == '.' || c == '/' || c == '\'') then some "word-with-a-breaking-character"
    else some "word"
  | .self t _ => if t.startsWith "\"" then some "string-literal" else some "self-terminated-piece"

/-- the written top and its index -/
def topOf (n : Text.WNet) : Option (Nat × Text.WDef) :=
  match n.top with
  | none => none
  | some t =>
    match n.defs.findIdx? (fun d => d.name == t) with
    | none => none
    | some k => some (k, n.defs.getD k default)

/-- features of the netlist that put it outside every text-level theorem, named first -/
def whyFeatures (n : Text.WNet) (T : Text.WDef) (kT : Nat) (bb : Bool) : Option String :=
  if T.insts.any (fun i => match Text.refOf n i.ref with | some r => r.lib == "SDN_VERILOG_ASSIGNMENT" | none => false) then
    some "assign-statements"
  else if (composeOrder n).any (fun k => k != kT && (n.defs.getD k default).lib != "hdi_primitives" &&
      (n.defs.getD k default).lib != "SDN_VERILOG_ASSIGNMENT") then some "hierarchy:another-non-primitive-module"
  else if (composeOrder n).any (fun k => k != kT && (n.defs.getD k default).lib == "SDN_VERILOG_ASSIGNMENT") then
    some "assign-definition-in-the-netlist"
  else if T.params.isSome then some "module-parameters"
  else if T.lib == "hdi_primitives" || T.lib == "SDN_VERILOG_ASSIGNMENT" then some "top-is-not-a-work-module"
  else if bb then (if (composeOrder n).head? != some kT then some "top-not-written-first" else none)
  else if (composeOrder n).count kT != 1 then some "top-not-visited-exactly-once"
  else none

/-- `c04_text_struct`: (inside?, explanation) -/
def reportStruct (n : Text.WNet) : Bool × String :=
  match topOf n with
  | none => (false, "out:no-top")
  | some (kT, T) =>
    let inside := fragStruct n T kT
    if inside then (true, "in") else
    let why : Option String :=
      orElseS (whyFeatures n T kT false) fun _ =>
      orElseS ((T.ports.findSome? (whyAstPort T)).map (fun s => "astOf:" ++ s)) fun _ =>
      orElseS ((T.insts.findSome? (whyAstInst n T)).map (fun s => "astOf:" ++ s)) fun _ =>
      orElseS ((whyFragTop n T).map (fun s => "fragTop:" ++ s)) fun _ =>
      match astOf n T with
      | none => some "astOf"
      | some m =>
        if (buildWI m.toI).isNone then some "buildWI:the-pure-reader-refuses(row-wider-than-the-first-instance's)"
        else if !topTextB n T then some "topText:empty-parameter-list"
        else orElseS ((whyTok m.toI).map (fun s => "tokOK:" ++ s)) fun _ =>
          orElseS (((fileP n m).findSome? pieceWhy).map (fun s => "piece:" ++ s)) fun _ =>
          if !adjOK (fileP n m) then some "adjOK:a-word-runs-into-the-next-piece"
          else if !Text.isCommentTok ("//netlist name: " ++ Text.fixName n.name) then some "netlist-name-comment"
          else none
    (false, "out:" ++ why.getD "unexplained")

def whyLeaf (r : Text.WDef) : Option String :=
  if r.lib != "hdi_primitives" then some "not-a-primitive"
  else if !(r.attrs.getD []).isEmpty then some "attributes"
  else if r.params.isSome then some "parameters"
  else r.ports.findSome? (fun p =>
    match p.name, dirOfS p.dir with
    | none, _ => some "port-unnamed"
    | _, none => some "port-direction-undefined"
    | some nm, some _ =>
      if p.width == 0 then some "port-of-width-0"
      else if !(p.attrs.getD []).isEmpty then some "port-attributes"
      else if p.pins.all (fun b => b.isNone) then none
      else match r.cables.find? (fun c => c.name == nm) with
        | none => some "inner-pins-wired-but-no-net-of-the-port's-name"
        | some c =>
          if decide (p.lower = c.lower) && decide (p.width = c.width) &&
              decide (p.pins = (cableBits nm c.lower c.width).items.map some) then
            (if emitHeaderPort (Text.envOf r) nm p.pins = some none then none else some "port-alias")
          else some "port-not-wired-to-the-whole-net-of-its-name")

/-- as `whyLeaf`, but a port without direction is accepted (`astLeafU`) -/
def whyLeafU (r : Text.WDef) : Option String :=
  if r.lib != "hdi_primitives" then some "not-a-primitive"
  else if (astParams r).isNone then some "parameter-without-value"
  else r.ports.findSome? (fun p =>
    match p.name with
    | none => some "port-unnamed"
    | some nm =>
      if p.width == 0 then some "port-of-width-0"
      else if !(p.attrs.getD []).isEmpty then some "port-attributes"
      else if p.pins.all (fun b => b.isNone) then none
      else match r.cables.find? (fun c => c.name == nm) with
        | none => some "inner-pins-wired-but-no-net-of-the-port's-name"
        | some c =>
          if decide (p.lower = c.lower) && decide (p.width = c.width) &&
              decide (p.pins = (cableBits nm c.lower c.width).items.map some) then
            (if emitHeaderPort (Text.envOf r) nm p.pins = some none then none else some "port-alias")
          else some "port-not-wired-to-the-whole-net-of-its-name")

/-- `c04_text_bb`: (inside?, explanation) -/
def reportBB (n : Text.WNet) : Bool × String :=
  match topOf n with
  | none => (false, "out:no-top")
  | some (kT, T) =>
    let ks := (composeOrder n).drop 1
    let inside := fragStructBB n T kT ks
    if inside then (true, "in") else
    let rs := leafDefs n ks
    let why : Option String :=
      orElseS (whyFeatures n T kT true) fun _ =>
      orElseS ((rs.findSome? whyLeaf).map (fun s => "leaf:" ++ s)) fun _ =>
      orElseS ((T.ports.findSome? (whyAstPort T)).map (fun s => "astOf:" ++ s)) fun _ =>
      orElseS ((T.insts.findSome? (whyAstInst n T)).map (fun s => "astOf:" ++ s)) fun _ =>
      orElseS ((whyFragTop n T).map (fun s => "fragTop:" ++ s)) fun _ =>
      match astOf n T, rs.mapM astLeaf with
      | some m, some leaves =>
        if !decide ((rs.map (·.name)).Nodup) then some "leaf-names-not-distinct"
        else if (buildBB m.toI leaves).isNone then
          (if (buildWI m.toI).isNone then some "buildWI:the-pure-reader-refuses(row-wider-than-the-first-instance's)"
           else some "buildBB:a-leaf-is-not-instantiated-or-declares-fewer-bits-than-connected")
        else if !topTextB n T then some "topText:empty-parameter-list"
        else orElseS ((whyTok m.toI).map (fun s => "tokOK:" ++ s)) fun _ =>
          if !leaves.all leafOK then some "leafOK:tokens-of-a-leaf"
          else if !leaves.all (fun lf => decide ((lf.ports.map (·.name)).Nodup)) then some "leaf-port-names-not-distinct"
          else orElseS (((filePbb n m leaves).findSome? pieceWhy).map (fun s => "piece:" ++ s)) fun _ =>
          if !adjOK (filePbb n m leaves) then some "adjOK:a-word-runs-into-the-next-piece"
          else if !Text.isCommentTok ("//netlist name: " ++ Text.fixName n.name) then some "netlist-name-comment"
          else none
      | _, _ => some "astOf"
    (false, "out:" ++ why.getD "unexplained")

/-- `c04_full_bb` (full rows): inside `c04_text_bb` and consistent about widths -/
def reportFullBB (n : Text.WNet) : Bool × String :=
  match reportBB n with
  | (false, why) => (false, why)
  | (true, _) =>
    match topOf n with
    | none => (false, "out:no-top")
    | some (_, T) =>
      if rowsFitB n T (leafDefs n ((composeOrder n).drop 1)) then (true, "in")
      else (false, "out:rowsFit:an-instance-row-is-not-as-wide-as-the-port")

/-- `c04_ast_hier` (hierarchical netlists, up to the syntax trees): (inside?, explanation) -/
def reportHier (n : Text.WNet) : Bool × String :=
  match topOf n with
  | none => (false, "out:no-top")
  | some (kT, T) =>
    if (composeOrder n).head? != some kT then (false, "out:top-not-written-first") else
    let Rs := leafDefs n ((composeOrder n).drop 1)
    if fragHier n T Rs then (true, "in") else
    let works := T :: Rs.filter (fun r => !isPrim r)
    let why : Option String :=
      if (T :: Rs).any (fun r => r.lib == "SDN_VERILOG_ASSIGNMENT") then some "assign-statements"
      else if works.any (fun r => r.params.isSome) then some "module-parameters"
      else orElseS ((Rs.filter isPrim).findSome? (fun r => (whyLeaf r).map (fun s => "leaf:" ++ s))) fun _ =>
        orElseS (works.findSome? (fun W => orElseS ((W.ports.findSome? (whyAstPort W)).map (fun s => "astOf:" ++ s)) fun _ =>
          orElseS ((W.insts.findSome? (whyAstInst n W)).map (fun s => "astOf:" ++ s)) fun _ =>
          (whyFragTop n W).map (fun s => "fragTop:" ++ s))) fun _ =>
        if !decide ((T.name :: Rs.map (·.name)).Nodup) then some "module-names-not-distinct"
        else match astOf n T, Rs.mapM (astAny n) with
          | some m, some Ms =>
            if (buildHier m.toI Ms).isNone then
              some "buildHier:the-pure-reader-refuses(a-module-not-instantiated-before-its-declaration,row-wider-than-the-first-instance's,…)"
            else none
          | _, _ => some "astOf"
    (false, "out:" ++ why.getD "unexplained")

/-- the definitions written after the top, without the assignment definitions (the writer prints nothing for them) -/
def laterDefsA (n : Text.WNet) : List Text.WDef :=
  (leafDefs n ((composeOrder n).drop 1)).filter (fun r => r.lib != "SDN_VERILOG_ASSIGNMENT")

/-- which stage of the pure reader refuses a late work module (explanation only) -/
def whyLateWA (L : Def) (ls : List Def) (n : Nat) (m : WModA) (topName : String) : String :=
  if L.lib.isSome then "module-declared-twice-or-already-known"
  else if !L.insts.isEmpty then "stub-with-instances"
  else if L.ports.map (·.name) != (m.base.ports.map (·.name)).map some then "ports-of-the-first-instance-are-not-the-declared-ports(order-or-subset)"
  else if !decide ((m.base.ports.map (·.name)).Nodup) then "port-names-not-distinct"
  else if !m.base.insts.all (fun i => i.mod != topName) then "instantiates-the-top"
  else if !L.params.isEmpty then "stub-with-parameters"
  else match foldLocal hdrStepL (entryDef L m.params) n (m.base.ports.map (·.name)) with
    | none => "header(a-port-of-the-stub-already-wired-or-empty)"
    | some r1 => match foldDeclA r1.1 r1.2 m.base.ports with
      | none => "port-declaration(range-narrower-than-the-first-instance's-row,…)"
      | some r2 => match foldLocal wireStep r2.1 r2.2.1 m.base.wires with
        | none => "net-declaration"
        | some r3 =>
          if !decide ((r3.1.cables.map (·.name)).Nodup) then "net-names-not-distinct"
          else match foldAsg r3.1 0 (ls.map (fun x => padOpsD x m.base.name r2.2.2)) m.asgs with
            | none => "assign(atom-not-evaluable,assignment-definition-of-another-shape,name-taken)"
            | some ra => match foldInst ra.1 ra.2.2 m.base.insts with
              | none => "instance(row-wider-than-the-port-known-so-far,port-unknown-to-a-declared-module,name-taken,…)"
              | some _ => "accepted"

def whyFoldLateA : List Def → Nat → String → List WAnyA → String
  | _, _, _, [] => "accepted"
  | tbl, n, t, M :: Ms =>
    match lateStepA tbl n t M with
    | some r => whyFoldLateA r.1 r.2 t Ms
    | none =>
      match tbl.find? (fun d => d.name == M.name) with
      | none => "late:module-never-instantiated-before-its-declaration"
      | some L =>
        match M with
        | .work m => "late-work:" ++ whyLateWA L (tbl.filter (fun x => x.name != m.base.name)) n m t
        | .leaf lf =>
          if L.lib.isSome then "late-leaf:declared-twice"
          else if L.ports.map (·.name) != (lf.base.ports.map (·.name)).map some then
            "late-leaf:ports-of-the-first-instance-are-not-the-declared-ports(order-or-subset)"
          else "late-leaf:header-or-port-declaration(range-narrower-than-the-first-instance's-row,…)"

def whyBuildHierA (m : WModA) (Ms : List WAnyA) : String :=
  match buildTopA m with
  | none => "top(declaration-phases,assign,instance-row-wider-than-the-port-known-so-far,self-instantiation,…)"
  | some r => whyFoldLateA (r.1 :: r.2.1) r.2.2 m.base.name Ms

/-- `c04_ast_hierA` (hierarchical netlists WITH ASSIGNS, up to the syntax trees): (inside?, explanation) -/
def reportHierA (n : Text.WNet) : Bool × String :=
  match topOf n with
  | none => (false, "out:no-top")
  | some (kT, T) =>
    if (composeOrder n).head? != some kT then (false, "out:top-not-written-first") else
    let Rs := laterDefsA n
    if fragHierA n T Rs then (true, "in") else
    let works := T :: Rs.filter (fun r => !isPrim r)
    let why : Option String :=
      if works.any (fun r => (astParams r).isNone) then some "module-parameter-without-value"
      else orElseS ((Rs.filter isPrim).findSome? (fun r => (whyLeafU r).map (fun s => "leaf:" ++ s))) fun _ =>
        orElseS (works.findSome? (fun W => orElseS ((W.ports.findSome? (whyAstPort W)).map (fun s => "astOf:" ++ s)) fun _ =>
          orElseS (((ordI n W).findSome? (whyAstInst n W)).map (fun s => "astOf:" ++ s)) fun _ =>
          orElseS ((whyFragTop n W).map (fun s => "fragTop:" ++ s)) fun _ =>
          if ((asgI n W).mapM (astAsg n W)).isNone then some "astAsg:the-writer-raises-on-an-assignment-instance(pins-not-one-block-of-one-net)"
          else if !asgsOK n W 0 (asgI n W) then
            some "asgOK:an-assignment-instance(definition-or-instance-name-not-the-reader's,parameters/attributes,sides-of-unequal-width)"
          else none)) fun _ =>
        if !decide ((T.name :: Rs.map (·.name)).Nodup) then some "module-names-not-distinct"
        else match astOfA n T, Rs.mapM (astAnyA n) with
          | some m, some Ms =>
            if (buildHierA m.toA Ms).isNone then some ("buildHierA:" ++ whyBuildHierA m.toA Ms)
            else none
          | _, _ => some "astOf"
    (false, "out:" ++ why.getD "unexplained")

/-- `c04_text_hier` (hierarchical netlists, from characters): inside `c04_ast_hier` plus the text / token / piece clauses -/
def reportHierText (n : Text.WNet) : Bool × String :=
  match reportHier n with
  | (false, why) => (false, why)
  | (true, _) =>
    match topOf n with
    | none => (false, "out:no-top")
    | some (kT, T) =>
      let ks := (composeOrder n).drop 1
      if fragStructH n T kT ks then (true, "in") else
      match astOf n T, (leafDefs n ks).mapM (astAnyP n) with
      | some m, some Ps =>
        let why : Option String :=
          if !topTextB n T then some "topText:empty-parameter-list"
          else if !(leafDefs n ks).all (anyTextB n) then some "anyText:a-later-module(attributes-or-parameters-on-a-primitive,empty-parameter-list)"
          else orElseS ((whyTok m.toI).map (fun s => "tokOK:" ++ s)) fun _ =>
            orElseS (Ps.findSome? (fun P => match P with
              | .work mm => (whyTok mm.toI).map (fun s => "tokOK:" ++ s)
              | .leaf lf => if leafOK lf then none else some "leafOK:tokens-of-a-leaf")) fun _ =>
            orElseS (((filePH n m Ps).findSome? pieceWhy).map (fun s => "piece:" ++ s)) fun _ =>
            if !adjOK (filePH n m Ps) then some "adjOK:a-word-runs-into-the-next-piece"
            else if !Text.isCommentTok ("//netlist name: " ++ Text.fixName n.name) then some "netlist-name-comment"
            else none
        (false, "out:" ++ why.getD "unexplained")
      | _, _ => (false, "out:astOf")

def whyTokA (m : WModA) : Option String :=
  if !attrsOK m.base.attrs then some "module-attribute-tokens"
  else if !mparamsOK m.params then some "module-parameter-key(neither-a-plain-name-nor-[l:r]-name,`integer`,or-repeated)"
  else orElseS (nameWhy "module" m.base.name) fun _ =>
    orElseS ((m.base.ports.map (·.name)).findSome? (nameWhy "port")) fun _ =>
    orElseS (m.sitems.findSome? whyItem) fun _ =>
    if cleanToks (tokensOfA m) then none else some "comment-or-directive-like-token"

/-- `c04_text_hierA` (hierarchical netlists with assigns, from characters): inside `c04_ast_hierA` plus the text / token /
    piece clauses -/
def reportHierTextA (n : Text.WNet) : Bool × String :=
  match reportHierA n with
  | (false, why) => (false, why)
  | (true, _) =>
    match topOf n with
    | none => (false, "out:no-top")
    | some (kT, T) =>
      let ks := (composeOrder n).drop 1
      if fragStructHA n T kT ks then (true, "in") else
      match astOfA n T, (laterA n ks).mapM (astAnyPA n) with
      | some m, some Ps =>
        let why : Option String :=
          if !topTextBA n T then some "topText:empty-parameter-list(instance-or-module)"
          else if !(laterA n ks).all (anyTextBA n) then some "anyText:a-later-module(attributes-or-parameters-on-a-primitive,empty-parameter-list)"
          else orElseS ((whyTokA m.toA).map (fun s => "tokOK:" ++ s)) fun _ =>
            orElseS (Ps.findSome? (fun P => match P with
              | .work mm => (whyTokA mm.toA).map (fun s => "tokOK:" ++ s)
              | .leaf lf => if leafOKX (inoutifyX lf) then none else some "leafOK:tokens-of-a-leaf(names,attributes,parameter-keys)")) fun _ =>
            orElseS (((filePHA n m Ps).findSome? pieceWhy).map (fun s => "piece:" ++ s)) fun _ =>
            if !adjOK (filePHA n m Ps) then some "adjOK:a-word-runs-into-the-next-piece"
            else if !Text.isCommentTok ("//netlist name: " ++ Text.fixName n.name) then some "netlist-name-comment"
            else none
        (false, "out:" ++ why.getD "unexplained")
      | _, _ => (false, "out:astOf")

/-! ### C06: the source text, through the syntax trees the parser returns -/

def toFMod (m : Module) : Except String FMod := do
  if !m.attrs.isEmpty then throw "module-attributes"
  if !m.params.isEmpty then throw "module-parameters"
  let ports ← m.header.mapM (fun h =>
    match h.alias, h.dir with
    | some _, _ => .error "header-port-alias"
    | none, none => .error "non-ANSI-header"
    | none, some d => .ok (⟨h.name, d, h.rng⟩ : FPort))
  let rec go (its : List Item) (ws : List FWire) (is : List NInst) : Except String (List FWire × List NInst) :=
    match its with
    | [] => .ok (ws, is)
    | .wireDecl ty rng nm a :: rest => if is.isEmpty then go rest (ws ++ [⟨nm, ty, rng, a⟩]) is else .error "net-declared-after-an-instance"
    | .inst md nm ps a named cs :: rest =>
      if !named then .error "positional-port-map" else
      match cs.mapM (fun c => c.1.map (fun p => (p, c.2))) with
      | none => .error "positional-port-map"
      | some conns => go rest ws (is ++ [⟨nm, md, ps, a, conns⟩])
    | .portDecl .. :: _ => .error "body-port-declaration"
    | .assign .. :: _ => .error "assign-statement"
    | .defparam .. :: _ => .error "defparam"
  let (ws, is) ← go m.items [] []
  pure ⟨m.name, m.prim, ports, ws, is⟩

/-- `elabDesign_frag` (ANSI modules, leaves first): (inside?, explanation) -/
def reportFragDesign (ms : List Module) : Bool × String :=
  match ms.mapM toFMod with
  | .error e => (false, "out:" ++ e)
  | .ok fs =>
    if fragDesign fs then (true, "in")
    else if !modsOK [] fs then
      (false, if fs.any (fun m => m.prim && !(m.wires.isEmpty && m.insts.isEmpty)) then "out:modsOK:primitive-with-a-body"
        else "out:modsOK:module-used-before-declared-or-names-not-distinct")
    else (false, "out:buildDesign:the-pure-reader-refuses(growth,implicit-nets,constants)")

def toWModI (m : Module) : Except String WModI := do
  if m.prim then throw "top-is-a-primitive"
  if !m.params.isEmpty then throw "module-parameters"
  if m.header.any (fun h => h.alias.isSome) then throw "header-port-alias"
  if m.header.any (fun h => h.dir.isSome || h.rng.isSome) then throw "ANSI-header"
  let rec go (its : List Item) (ps : List PDecl) (ws : List FWire) (is : List NInst) (phase : Nat) :
      Except String (List PDecl × List FWire × List NInst) :=
    match its with
    | [] => .ok (ps, ws, is)
    | .portDecl d vt rng nm a :: rest =>
      if vt.isSome then .error "port-declaration-with-net-type" else
      if phase > 0 then .error "port-declared-after-a-net-or-instance" else go rest (ps ++ [⟨nm, d, rng, a⟩]) ws is 0
    | .wireDecl ty rng nm a :: rest => if phase > 1 then .error "net-declared-after-an-instance" else go rest ps (ws ++ [⟨nm, ty, rng, a⟩]) is 1
    | .inst md nm prs a named cs :: rest =>
      if !named then .error "positional-port-map" else
      match cs.mapM (fun c => c.1.map (fun p => (p, c.2))) with
      | none => .error "positional-port-map"
      | some conns => go rest ps ws (is ++ [⟨nm, md, prs, a, conns⟩]) 2
    | .assign .. :: _ => .error "assign-statement"
    | .defparam .. :: _ => .error "defparam"
  let (ps, ws, is) ← go m.items [] [] [] 0
  if ps.map (·.name) != m.header.map (·.name) then throw "body-port-declarations-differ-from-the-header-list"
  pure ⟨m.name, m.attrs, ps, ws, is⟩

def toWLeaf (m : Module) : Except String WLeaf := do
  if !m.prim then throw "a-later-module-is-not-a-primitive"
  if !m.attrs.isEmpty || !m.params.isEmpty then throw "leaf-attributes-or-parameters"
  if m.header.any (fun h => h.alias.isSome || h.dir.isSome || h.rng.isSome) then throw "leaf-header-not-bare-names"
  let ps ← m.items.mapM (fun it => match it with
    | .portDecl d none rng nm _ => .ok (⟨nm, d, rng, []⟩ : PDecl)
    | _ => .error "leaf-body-item-other-than-a-port-declaration")
  if ps.map (·.name) != m.header.map (·.name) then throw "leaf-port-declarations-differ-from-the-header-list"
  pure ⟨m.name, ps⟩

/-- `elabDesign_wsingle` / `elabDesign_bb` (writer-shaped top, then `celldefine` leaves): (inside?, explanation) -/
def reportWriterShape (ms : List Module) : Bool × String :=
  match ms with
  | [] => (false, "out:empty-file")
  | t :: rest =>
    match toWModI t, rest.mapM toWLeaf with
    | .error e, _ => (false, "out:" ++ e)
    | _, .error e => (false, "out:" ++ e)
    | .ok m, .ok leaves =>
      if (buildBB m leaves).isSome then (true, "in")
      else if (buildWI m).isNone then (false, "out:buildWI:the-pure-reader-refuses(implicit-nets,growth,constants)")
      else (false, "out:buildBB:a-leaf-is-not-instantiated-or-declares-fewer-bits-than-connected")

/-- a module of the source in the writer's shape (bare header names; ports, nets, assigns, instances in this order) -/
def toWModA (m : Module) : Except String WModA := do
  if m.prim then throw "a-primitive-where-a-work-module-is-expected"
  if m.header.any (fun h => h.alias.isSome) then throw "header-port-alias"
  if m.header.any (fun h => h.dir.isSome || h.rng.isSome) then throw "ANSI-header"
  let rec go (its : List Item) (ps : List PDecl) (ws : List FWire) (as : List (XAtom × XAtom)) (is : List NInst) (phase : Nat) :
      Except String (List PDecl × List FWire × List (XAtom × XAtom) × List NInst) :=
    match its with
    | [] => .ok (ps, ws, as, is)
    | .portDecl d vt rng nm a :: rest =>
      if vt.isSome then .error "port-declaration-with-net-type" else
      if phase > 0 then .error "port-declared-after-a-net-or-instance" else go rest (ps ++ [⟨nm, d, rng, a⟩]) ws as is 0
    | .wireDecl ty rng nm a :: rest =>
      if phase > 1 then .error "net-declared-after-an-assign-or-instance" else go rest ps (ws ++ [⟨nm, ty, rng, a⟩]) as is 1
    | .assign l r :: rest => if phase > 2 then .error "assign-after-an-instance" else go rest ps ws (as ++ [(l, r)]) is 2
    | .inst md nm prs a named cs :: rest =>
      if !named then .error "positional-port-map" else
      match cs.mapM (fun c => c.1.map (fun p => (p, c.2))) with
      | none => .error "positional-port-map"
      | some conns => go rest ps ws as (is ++ [⟨nm, md, prs, a, conns⟩]) 3
    | .defparam .. :: _ => .error "defparam"
  let (ps, ws, as, is) ← go m.items [] [] [] [] 0
  if ps.map (·.name) != m.header.map (·.name) then throw "body-port-declarations-differ-from-the-header-list"
  pure ⟨⟨m.name, m.attrs, ps, ws, is⟩, as, m.params⟩

def toWLeafX (m : Module) : Except String WLeafX := do
  if m.header.any (fun h => h.alias.isSome || h.dir.isSome || h.rng.isSome) then throw "leaf-header-not-bare-names"
  let ps ← m.items.mapM (fun it => match it with
    | .portDecl d none rng nm _ => .ok (⟨nm, d, rng, []⟩ : PDecl)
    | _ => .error "leaf-body-item-other-than-a-port-declaration")
  if ps.map (·.name) != m.header.map (·.name) then throw "leaf-port-declarations-differ-from-the-header-list"
  pure ⟨⟨m.name, ps⟩, m.attrs, m.params⟩

/-- `elabDesign_hierA` on a source file (C06): the file is `top; later modules` in the writer's shape and the pure reader
    `buildHierA` accepts it — then the REAL `elabDesign` builds exactly that table: (inside?, explanation) -/
def reportHierDesignA (ms : List Module) : Bool × String :=
  match ms with
  | [] => (false, "out:empty-file")
  | t :: rest =>
    match toWModA t, rest.mapM (fun m => if m.prim then (toWLeafX m).map WAnyA.leaf else (toWModA m).map WAnyA.work) with
    | .error e, _ => (false, "out:" ++ e)
    | _, .error e => (false, "out:" ++ e)
    | .ok m, .ok Ms =>
      if (buildHierA m Ms).isSome then (true, "in") else (false, "out:buildHierA:" ++ whyBuildHierA m Ms)

end Spydr.Verilog.Elab
