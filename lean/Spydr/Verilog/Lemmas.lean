/-
  Verilog engine — helper lemmas for the bit-level theorems (reader side).
-/
import Spydr.Verilog.Model
import Spydr.Verilog.Spec

namespace Spydr.Verilog

/-! ### Python slices inside the list -/

theorem pyNorm_nonneg (n : Nat) (i : Int) (h0 : 0 ≤ i) (h1 : i ≤ n) : pyNorm n i = i.toNat := by
  unfold pyNorm
  have : ¬ i < 0 := by omega
  simp [this]; omega

theorem pySlice_inrange {α : Type} (xs : List α) (lo hi : Int) (h0 : 0 ≤ lo) (h1 : lo ≤ hi)
    (h2 : hi ≤ xs.length) : pySlice xs lo hi = (xs.drop lo.toNat).take (hi.toNat - lo.toNat) := by
  unfold pySlice
  rw [pyNorm_nonneg _ lo h0 (by omega), pyNorm_nonneg _ hi (by omega) h2]

theorem pyIndex_inrange {α : Type} (xs : List α) (i : Int) (h0 : 0 ≤ i) :
    pyIndex xs i = xs[i.toNat]? := by
  unfold pyIndex; simp [h0]

/-! ### get_wires_from_cable -/

theorem getWires_range {α : Type} (c : Bundle α) (l r : Int)
    (hlo : c.lower ≤ min l r) (hhi : max l r < c.lower + c.items.length) :
    ∃ ws, getWires c (some l) (some r) = some ws ∧
      ws.length = (max l r - min l r + 1).toNat ∧
      ∀ k : Nat, k < ws.length → ws[k]? = c.at? (max l r - k) := by
  refine ⟨_, rfl, ?_, ?_⟩
  · rw [List.length_reverse, pySlice_inrange _ _ _ (by omega) (by omega) (by omega)]
    simp only [List.length_take, List.length_drop]
    omega
  · intro k hk
    rw [List.length_reverse, pySlice_inrange _ _ _ (by omega) (by omega) (by omega)] at hk
    simp only [List.length_take, List.length_drop] at hk
    rw [pySlice_inrange _ _ _ (by omega) (by omega) (by omega)]
    rw [List.getElem?_reverse (by simp only [List.length_take, List.length_drop]; omega)]
    simp only [List.length_take, List.length_drop]
    rw [List.getElem?_take_of_lt (by omega), List.getElem?_drop]
    unfold Bundle.at?
    have : c.lower ≤ max l r - (k:Int) := by omega
    simp only [this, if_true]
    congr 1
    omega

theorem getWires_single {α : Type} (c : Bundle α) (i : Int) (hlo : c.lower ≤ i) :
    getWires c (some i) none = (c.at? i).map (fun w => [w]) ∧
    getWires c none (some i) = (c.at? i).map (fun w => [w]) := by
  unfold getWires Bundle.at?
  simp only [hlo, if_true]
  rw [pyIndex_inrange _ _ (by omega)]
  exact ⟨rfl, rfl⟩

theorem getWires_all {α : Type} (c : Bundle α) :
    ∃ ws, getWires c none none = some ws ∧ ws.length = c.items.length ∧
      ∀ k : Nat, k < ws.length → ws[k]? = c.at? (c.lower + c.items.length - 1 - k) := by
  refine ⟨_, rfl, by simp, ?_⟩
  intro k hk
  simp only [List.length_reverse] at hk
  rw [List.getElem?_reverse hk]
  unfold Bundle.at?
  have : c.lower ≤ c.lower + (c.items.length : Int) - 1 - (k : Int) := by omega
  simp only [this, if_true]
  congr 1
  omega

theorem getWires_comm {α : Type} (c : Bundle α) (l r : Int) :
    getWires c (some l) (some r) = getWires c (some r) (some l) := by
  unfold getWires
  simp only
  rw [Int.min_comm, Int.max_comm]

/-! ### the port-map loop -/

theorem range_reverse_drop (W n : Nat) (h : n ≤ W) :
    ((List.range W).reverse.drop (W - n)) = (List.range n).reverse := by
  apply List.ext_getElem?
  intro i
  rw [List.getElem?_drop]
  by_cases hi : i < n
  · rw [List.getElem?_reverse (by simp; omega), List.getElem?_reverse (by simp; omega)]
    simp only [List.length_range]
    rw [List.getElem?_range (by omega), List.getElem?_range (by omega)]
    congr 1; omega
  · rw [List.getElem?_eq_none (by simp; omega), List.getElem?_eq_none (by simp; omega)]

theorem drop_set_self {β : Type} (pv : List β) (n : Nat) (a : β) (h : n < pv.length) :
    (pv.set n a).drop n = a :: pv.drop (n+1) := by
  rw [List.drop_set, if_neg (by omega), Nat.sub_self, List.drop_eq_getElem_cons h, List.set_cons_zero]

/-- the loop, with the pin order already simplified -/
def connFold {β : Type} (pv : PinVec β) (ws : List β) : Option (PinVec β) :=
  (ws.zip (List.range ws.length).reverse).foldlM (fun pv (p : β × Nat) => setPin pv p.2 p.1) pv

theorem connectLowAligned_eq_connFold {β : Type} (pins : PinVec β) (ws : List β)
    (h : ws.length ≤ pins.length) : connectLowAligned pins ws = connFold pins ws := by
  unfold connectLowAligned connFold
  simp only [h, if_true]
  rw [range_reverse_drop _ _ h]

theorem take_set_ge {β : Type} (pv : List β) (n k : Nat) (a : β) (h : k ≤ n) :
    (pv.set n a).take k = pv.take k := by
  apply List.ext_getElem?
  intro i
  by_cases hi : i < k
  · rw [List.getElem?_take_of_lt hi, List.getElem?_take_of_lt hi, List.getElem?_set_ne (by omega)]
  · rw [List.getElem?_take_eq_none (by omega), List.getElem?_take_eq_none (by omega)]

theorem connFold_closed {β : Type} (ws : List β) : ∀ (pv : PinVec β),
    ws.length ≤ pv.length → (∀ k, k < ws.length → pv[k]? = some none) →
    connFold pv ws = some ((ws.reverse.map some) ++ pv.drop ws.length) := by
  induction ws with
  | nil => intro pv _ _; simp [connFold]
  | cons w ws ih =>
    intro pv hlen hnone
    have h1 : pv[ws.length]? = some none := hnone ws.length (by simp)
    have hstep : setPin pv ws.length w = some (pv.set ws.length (some w)) := by
      simp only [setPin, h1]
    have hl : ws.length < pv.length := by simp at hlen; omega
    have := ih (pv.set ws.length (some w)) (by simp; omega) (by
      intro k hk
      rw [List.getElem?_set_ne (by omega)]
      exact hnone k (by simp; omega))
    unfold connFold at this ⊢
    simp only [List.length_cons, List.range_succ, List.reverse_append, List.reverse_cons, List.reverse_nil,
      List.nil_append, List.cons_append, List.zip_cons_cons, List.foldlM_cons, hstep]
    simp only [Option.bind_eq_bind, Option.bind_some]
    rw [this]
    congr 1
    simp only [List.map_append, List.map_cons, List.map_nil, List.append_assoc, List.cons_append, List.nil_append]
    congr 1
    rw [drop_set_self _ _ _ hl]

/-- a pin already connected makes the loop fail (the reader raises, nothing is silently overwritten) -/
theorem setPin_none_of_connected {β : Type} (pv : PinVec β) (k : Nat) (w x : β)
    (h : pv[k]? = some (some x)) : setPin pv k w = none := by
  simp [setPin, h]

/-! ### bundles under resizing -/

theorem Bundle.at?_resized {α : Type} (b : Bundle α) (rz : Resize) (pre post : List α) (i : Int)
    (hl : rz.lower = b.lower - (pre.length : Int)) (x : α) (h : b.at? i = some x) :
    (b.resized rz pre post).at? i = some x := by
  unfold Bundle.at? at h
  unfold Bundle.at? Bundle.resized
  by_cases hb : b.lower ≤ i
  · simp only [hb, if_true] at h
    have hlt : (i - b.lower).toNat < b.items.length := by
      rcases List.getElem?_eq_some_iff.mp h with ⟨hh, _⟩; exact hh
    have : rz.lower ≤ i := by omega
    simp only [this, if_true]
    have e : (i - rz.lower).toNat = pre.length + (i - b.lower).toNat := by omega
    rw [e, List.append_assoc, List.getElem?_append_right (by omega)]
    simp only [Nat.add_sub_cancel_left]
    rw [List.getElem?_append_left hlt]
    exact h
  · simp [hb] at h

end Spydr.Verilog
