/-
  Verilog engine — the whole-design elaboration uses the bit-level port-map loop.
-/
import Spydr.Verilog.ModelElab

namespace Spydr.Verilog.Elab
open Spydr.Verilog

/-- `connectInstRow` (the step `parse_port_map_single` and `connect_implicitly_mapped_ports` share in the
    elaboration) is the port-map loop of the bit-level model applied to the stored row: whenever it
    succeeds, the new row is `connectLowAligned` of the old one; every other row of the instance, every
    other instance and every other definition are untouched. -/
theorem connectInstRow_eq (s s' : St) (dn iname : String) (k : Nat) (ws : List Nat)
    (h : connectInstRow s dn iname k ws = .ok s') :
    ∃ d ii row', s.find dn = some d ∧ instIdx d iname = some ii ∧
      connectLowAligned (((d.insts.getD ii default).pins).getD k []) ws = some row' ∧
      s' = s.upd dn (fun d' =>
        { d' with insts := d'.insts.set ii (let i := d.insts.getD ii default; { i with pins := i.pins.set k row' }) }) := by
  unfold connectInstRow getDef at h
  cases hd : s.find dn with
  | none => simp [hd] at h; cases h
  | some d =>
    simp only [hd] at h
    cases hi : instIdx d iname with
    | none => simp [hi, bind, Except.bind, pure, Except.pure] at h
    | some ii =>
      simp only [hi, bind, Except.bind, pure, Except.pure] at h
      split at h
      · cases h
      · rename_i row' hc
        refine ⟨d, ii, row', rfl, hi, hc, ?_⟩
        cases h
        rfl

end Spydr.Verilog.Elab
