/-
  Verilog engine — helper lemmas for the writer's expression choice.
-/
import Spydr.Verilog.Lemmas

namespace Spydr.Verilog

theorem cableBits_at (c : String) (lower : Int) (width : Nat) (i : Int)
    (h0 : lower ≤ i) (h1 : i < lower + width) :
    (cableBits c lower width).at? i = some ⟨c, i⟩ := by
  unfold cableBits Bundle.at?
  simp only [h0, if_true]
  rw [List.getElem?_map, List.getElem?_range (by omega)]
  simp only [Option.map_some]
  congr 2
  omega

theorem runBits_length (c : String) (hi lo : Int) : (runBits c hi lo).length = (hi - lo + 1).toNat := by
  simp [runBits]

theorem runBits_getElem? (c : String) (hi lo : Int) (k : Nat) (h : k < (hi - lo + 1).toNat) :
    (runBits c hi lo)[k]? = some ⟨c, hi - k⟩ := by
  unfold runBits
  rw [List.getElem?_map, List.getElem?_range h]
  rfl

theorem evalAtom_part (env : CableEnv) (c : String) (lower : Int) (width : Nat) (hi lo : Int)
    (he : env c = some (lower, width)) (h0 : lower ≤ lo) (h1 : lo ≤ hi) (h2 : hi < lower + width) :
    evalAtom env (.part c hi lo) = some (runBits c hi lo) := by
  unfold evalAtom
  simp only [Atom.name, he, Atom.range]
  have hin : inCable lower width (some hi) (some lo) = true := by
    simp only [inCable, inRange, Bool.and_eq_true, decide_eq_true_eq]
    omega
  simp only [hin, if_true]
  obtain ⟨ws, hw, hlen, hk⟩ := getWires_range (cableBits c lower width) hi lo
    (by simp [cableBits]; omega) (by simp [cableBits]; omega)
  rw [hw]
  congr 1
  apply List.ext_getElem?
  intro k
  have hmax : max hi lo = hi := by omega
  have hmin : min hi lo = lo := by omega
  rw [hmax, hmin] at hlen
  by_cases hkl : k < ws.length
  · rw [hk k hkl, hmax, cableBits_at _ _ _ _ (by omega) (by omega), runBits_getElem? _ _ _ _ (by omega)]
  · rw [List.getElem?_eq_none (by omega), List.getElem?_eq_none (by rw [runBits_length]; omega)]

theorem runBits_single (c : String) (i : Int) : runBits c i i = [⟨c, i⟩] := by
  simp [runBits]

theorem evalAtom_bit (env : CableEnv) (c : String) (lower : Int) (width : Nat) (i : Int)
    (he : env c = some (lower, width)) (h0 : lower ≤ i) (h2 : i < lower + width) :
    evalAtom env (.bit c i) = some (runBits c i i) := by
  unfold evalAtom
  simp only [Atom.name, he, Atom.range]
  have hin : inCable lower width (some i) none = true := by
    simp only [inCable, inRange, Bool.and_eq_true, decide_eq_true_eq]
    omega
  simp only [hin, if_true]
  rw [(getWires_single (cableBits c lower width) i (by simp [cableBits]; omega)).1,
    cableBits_at _ _ _ _ h0 h2, runBits_single]
  rfl

theorem evalAtom_id (env : CableEnv) (c : String) (lower : Int) (width : Nat)
    (he : env c = some (lower, width)) :
    evalAtom env (.id c) = some (runBits c (lower + width - 1) lower) := by
  unfold evalAtom
  simp only [Atom.name, he, Atom.range]
  have hin : inCable lower width none none = true := by simp [inCable, inRange]
  simp only [hin, if_true]
  obtain ⟨ws, hw, hlen, hk⟩ := getWires_all (cableBits c lower width)
  rw [hw]
  congr 1
  have hl : (cableBits c lower width).items.length = width := by simp [cableBits]
  have hlo : (cableBits c lower width).lower = lower := rfl
  rw [hl] at hlen
  apply List.ext_getElem?
  intro k
  by_cases hkl : k < ws.length
  · rw [hk k hkl, hl, hlo, cableBits_at _ _ _ _ (by omega) (by omega), runBits_getElem? _ _ _ _ (by omega)]
  · rw [List.getElem?_eq_none (by omega), List.getElem?_eq_none (by rw [runBits_length]; omega)]

/-- whatever bracket form `_write_brackets` chooses, the reader evaluates it to `c[hi..lo]` -/
theorem emitRange_eval (env : CableEnv) (c : String) (lower : Int) (width : Nat) (lo hi : Int)
    (he : env c = some (lower, width)) (h0 : lower ≤ lo) (h1 : lo ≤ hi) (h2 : hi < lower + width) :
    ∃ a, emitRange env c lo hi = some a ∧ evalAtom env a = some (runBits c hi lo) := by
  unfold emitRange
  simp only [he]
  have hw0 : width ≠ 0 := by omega
  simp only [hw0, if_false]
  by_cases hw1 : width = 1
  · have e1 : lo = lower := by omega
    have e2 : hi = lower := by omega
    subst hw1
    refine ⟨.id c, by simp [e1, e2], ?_⟩
    rw [evalAtom_id env c lower 1 he, e1, e2]
    simp
  · simp only [hw1, if_false]
    by_cases hfull : lo = lower ∧ hi = lower + (width : Int) - 1
    · rw [if_pos hfull]
      exact ⟨_, rfl, evalAtom_part env c lower width hi lo he h0 h1 h2⟩
    · rw [if_neg hfull]
      by_cases heq : lo = hi
      · subst heq
        have : lower ≤ lo ∧ lo ≤ lower + (width : Int) - 1 := by omega
        simp only [if_true, this, and_self]
        exact ⟨_, rfl, evalAtom_bit env c lower width lo he h0 h2⟩
      · simp only [heq, if_false]
        have : lower ≤ lo ∧ lo ≤ lower + (width : Int) - 1 ∧ lower ≤ hi ∧ hi ≤ lower + (width : Int) - 1 := by omega
        simp only [this, and_self, if_true]
        exact ⟨_, rfl, evalAtom_part env c lower width hi lo he h0 h1 h2⟩

theorem evalConcat_append (env : CableEnv) (as : List Atom) (a : Atom) (x y : List Bit)
    (h1 : evalConcat env as = some x) (h2 : evalAtom env a = some y) :
    evalConcat env (as ++ [a]) = some (x ++ y) := by
  induction as generalizing x with
  | nil =>
    simp only [evalConcat] at h1
    cases h1
    simp [evalConcat, h2]
  | cons b bs ih =>
    simp only [evalConcat, List.cons_append] at h1 ⊢
    cases hb : evalAtom env b with
    | none => simp [hb] at h1
    | some xb =>
      cases hbs : evalConcat env bs with
      | none => simp [hb, hbs] at h1
      | some xs =>
        simp only [hb, hbs] at h1
        cases h1
        rw [ih xs hbs]
        simp

theorem runBits_snoc (c : String) (hi lo : Int) (h : lo ≤ hi) :
    runBits c hi (lo - 1) = runBits c hi lo ++ [⟨c, lo - 1⟩] := by
  unfold runBits
  have e : (hi - (lo - 1) + 1).toNat = (hi - lo + 1).toNat + 1 := by omega
  rw [e, List.range_succ, List.map_append]
  congr 1
  simp only [List.map_cons, List.map_nil]
  congr 2
  omega

/-- invariant of the `_write_concatenation` loop after the bits `P` (MSB first) have been processed -/
def CatInv (env : CableEnv) (s : CatSt) (P : List Bit) : Prop :=
  s.ok = true ∧ ∃ done, evalConcat env s.out = some done ∧
    ((s.has = false ∧ s.prev = none ∧ P = done) ∨
     (s.has = true ∧ ∃ c lower width, s.prev = some c ∧ env c = some (lower, width) ∧ lower ≤ s.prevIdx ∧
        s.prevIdx ≤ s.firstIdx ∧ s.firstIdx < lower + (width : Int) ∧
        P = done ++ runBits c s.firstIdx s.prevIdx))

theorem CatInv.flush {env : CableEnv} {s : CatSt} {P : List Bit} (h : CatInv env s P) (hh : s.has = true) :
    (s.flush env).ok = true ∧ evalConcat env (s.flush env).out = some P ∧
    (s.flush env).prev = s.prev ∧ (s.flush env).has = s.has := by
  obtain ⟨hok, done, hd, hcase⟩ := h
  rcases hcase with ⟨hf, _, _⟩ | ⟨_, c, lower, width, hp, he, h0, h1, h2, hP⟩
  · rw [hh] at hf; cases hf
  · obtain ⟨a, ha, hev⟩ := emitRange_eval env c lower width s.prevIdx s.firstIdx he h0 h1 h2
    have hf : s.flush env = { s with out := s.out ++ [a] } := by
      unfold CatSt.flush; simp only [hp, ha]
    rw [hf]
    refine ⟨hok, ?_, rfl, rfl⟩
    rw [hP]
    exact evalConcat_append env s.out a done _ hd hev

theorem CatInv.step {env : CableEnv} {s : CatSt} {P : List Bit} (h : CatInv env s P) (b : Bit)
    (hb : ValidBit env b) : CatInv env (catStep env s (some b)) (P ++ [b]) := by
  obtain ⟨lower, width, he, hb0, hb1⟩ := hb
  have hnew : ∀ (s1 : CatSt), s1.ok = true → evalConcat env s1.out = some P →
      CatInv env { s1 with prev := some b.cable, firstIdx := b.idx, prevIdx := b.idx, has := true } (P ++ [b]) := by
    intro s1 hok hout
    refine ⟨hok, P, hout, Or.inr ⟨rfl, b.cable, lower, width, rfl, he, hb0, Int.le_refl _, hb1, ?_⟩⟩
    rw [runBits_single]
  unfold catStep
  simp only
  by_cases hc : some b.cable = s.prev
  · rw [if_pos hc]
    have hhas : s.has = true := by
      obtain ⟨_, done, _, hcase⟩ := h
      rcases hcase with ⟨_, hp, _⟩ | ⟨hh, _⟩
      · rw [hp] at hc; cases hc
      · exact hh
    by_cases hi : b.idx = s.prevIdx - 1
    · rw [if_pos hi]
      obtain ⟨hok, done, hd, hcase⟩ := h
      rcases hcase with ⟨hf, _, _⟩ | ⟨_, c, lower', width', hp, he', h0, h1, h2, hP⟩
      · rw [hhas] at hf; cases hf
      · refine ⟨hok, done, hd, Or.inr ⟨rfl, c, lower', width', hp, he', ?_, ?_, h2, ?_⟩⟩
        · have : b.cable = c := by rw [hp] at hc; exact Option.some.inj hc
          rw [this, he'] at he
          cases he
          simpa using hb0
        · simp only; omega
        · have : b.cable = c := by rw [hp] at hc; exact Option.some.inj hc
          simp only
          rw [hi, runBits_snoc _ _ _ h1, hP, List.append_assoc]
          congr 2
          cases b; simp_all
    · rw [if_neg hi]
      obtain ⟨f1, f2, _, _⟩ := h.flush hhas
      exact hnew _ f1 f2
  · rw [if_neg hc]
    by_cases hhas : s.has = true
    · rw [if_pos hhas]
      obtain ⟨f1, f2, _, _⟩ := h.flush hhas
      exact hnew _ f1 f2
    · rw [if_neg hhas]
      obtain ⟨hok, done, hd, hcase⟩ := h
      rcases hcase with ⟨_, _, hP⟩ | ⟨hh, _⟩
      · exact hnew _ hok (by rw [hP]; exact hd)
      · exact absurd hh hhas

theorem CatInv.fold {env : CableEnv} (ws : List (Option Bit)) : ∀ {s : CatSt} {P : List Bit}, CatInv env s P →
    (∀ b, some b ∈ ws → ValidBit env b) →
    CatInv env (ws.foldl (catStep env) s) (P ++ ws.filterMap id) := by
  induction ws with
  | nil => intro s P h _; simpa using h
  | cons w ws ih =>
    intro s P h hv
    cases w with
    | none =>
      simp only [List.foldl_cons, catStep]
      have := ih h (fun b hb => hv b (List.mem_cons_of_mem _ hb))
      simpa using this
    | some b =>
      simp only [List.foldl_cons]
      have := ih (h.step b (hv b (List.mem_cons_self))) (fun b hb => hv b (List.mem_cons_of_mem _ hb))
      simpa using this

/-- `_write_concatenation` followed by the reader's `parse_cable_concatenation` returns exactly the
    connected bits, in order, for any sequence of bits of declared cables (runs are merged, `None`s skipped) -/
theorem emitConcat_eval (env : CableEnv) (ws : List (Option Bit))
    (hv : ∀ b, some b ∈ ws → ValidBit env b) :
    ∃ as, emitConcat env ws = some as ∧ evalConcat env as = some (ws.filterMap id) := by
  have h0 : CatInv env ⟨[], none, 0, 0, false, true⟩ [] :=
    ⟨rfl, [], rfl, Or.inl ⟨rfl, rfl, rfl⟩⟩
  have h := CatInv.fold ws h0 hv
  simp only [List.nil_append] at h
  unfold emitConcat
  simp only
  by_cases hh : (ws.foldl (catStep env) ⟨[], none, 0, 0, false, true⟩).has = true
  · rw [if_pos hh]
    obtain ⟨f1, f2, _, _⟩ := h.flush hh
    simp only [f1, if_true]
    exact ⟨_, rfl, f2⟩
  · rw [if_neg hh]
    obtain ⟨hok, done, hd, hcase⟩ := h
    rcases hcase with ⟨_, _, hP⟩ | ⟨hh', _⟩
    · simp only [hok, if_true]
      exact ⟨_, rfl, by rw [hP]; exact hd⟩
    · exact absurd hh' hh
/-- the bits `c[i0], c[i0+1], …` in port order -/
def ascBits (c : String) (i0 : Int) (n : Nat) : List Bit :=
  (List.range n).map (fun (k : Nat) => (⟨c, i0 + (k : Int)⟩ : Bit))

theorem ascBits_succ (c : String) (i0 : Int) (n : Nat) :
    ascBits c i0 (n + 1) = ⟨c, i0⟩ :: ascBits c (i0 + 1) n := by
  unfold ascBits
  rw [List.range_succ_eq_map]
  simp only [List.map_cons, List.map_map]
  congr 1
  · simp
  · apply List.map_congr_left
    intro k _
    simp only [Function.comp]
    congr 1
    omega

theorem isConcatGo_tail (m : Nat) (name : Option String) (a nn : Bool) (last : Option Int) :
    isConcatGo (List.replicate m none) name a nn last = a := by
  induction m generalizing nn with
  | zero => simp [isConcatGo]
  | succ m ih => simp only [List.replicate_succ, isConcatGo]; exact ih true

/-- "not concatenated" on a reader-shaped vector: the block sits on the cable `name` at consecutive
    ascending indices -/
theorem isConcatGo_false (blk : List Bit) (m : Nat) (c : String) : ∀ (last : Option Int),
    isConcatGo (blk.map some ++ List.replicate m none) (some c) false false last = false →
    ∀ b0 rest, blk = b0 :: rest → (last = none ∨ last = some (b0.idx - 1)) ∧ blk = ascBits c b0.idx blk.length := by
  induction blk with
  | nil => intro _ _ b0 rest h; cases h
  | cons b blk ih =>
    intro last h b0 rest hb
    cases hb
    simp only [List.map_cons, List.cons_append] at h
    unfold isConcatGo at h
    have key : ∀ (li : Option Int), b.cable = c →
        isConcatGo (blk.map some ++ List.replicate m none) (some c) false false (some b.idx) = false →
        b :: blk = ascBits c b.idx (blk.length + 1) := by
      intro _ hc hrec
      rw [ascBits_succ]
      cases blk with
      | nil => simp [ascBits, ← hc]
      | cons b1 blk1 =>
        obtain ⟨hl, hasc⟩ := ih (some b.idx) hrec b1 blk1 rfl
        rcases hl with hl | hl
        · cases hl
        · have e : b1.idx = b.idx + 1 := by
            have := Option.some.inj hl; omega
          rw [← e, ← hasc, ← hc]
    cases last with
    | none =>
      simp only at h
      split at h
      · cases h
      · rename_i hc
        have hc' : b.cable = c := by
          by_cases hx : b.cable = c
          · exact hx
          · exact absurd ⟨fun e => hx (Option.some.inj e), trivial⟩ hc
        exact ⟨Or.inl rfl, key none hc' (by simpa using h)⟩
    | some li =>
      simp only at h
      split at h
      · cases h
      · rename_i hi
        split at h
        · cases h
        · rename_i hc
          have hc' : b.cable = c := by
            by_cases hx : b.cable = c
            · exact hx
            · exact absurd ⟨fun e => hx (Option.some.inj e), trivial⟩ hc
          have hi' : b.idx = li + 1 := by
            by_cases hx : b.idx = li + 1
            · exact hx
            · exact absurd hx hi
          refine ⟨Or.inr (by rw [hi']; congr 1; omega), key none hc' (by simpa using h)⟩
theorem lastSome_replicate {β : Type} (m : Nat) : lastSome (List.replicate m (none : Option β)) = none := by
  induction m with
  | zero => rfl
  | succ m ih => simp [List.replicate_succ, lastSome, ih]

theorem lastSome_block {β : Type} (blk : List β) (m : Nat) :
    lastSome (blk.map some ++ List.replicate m none) = blk.getLast? := by
  induction blk with
  | nil => simp [lastSome_replicate]
  | cons b blk ih =>
    simp only [List.map_cons, List.cons_append, lastSome, ih]
    cases blk with
    | nil => simp
    | cons b1 blk1 =>
      rw [List.getLast?_cons_cons]
      have : (b1 :: blk1).getLast? = some ((b1 :: blk1).getLast (by simp)) := List.getLast?_eq_some_getLast _
      rw [this]

theorem ascBits_length (c : String) (i0 : Int) (n : Nat) : (ascBits c i0 n).length = n := by
  simp [ascBits]

theorem ascBits_getLast (c : String) (i0 : Int) (n : Nat) :
    (ascBits c i0 (n + 1)).getLast? = some ⟨c, i0 + n⟩ := by
  unfold ascBits
  rw [List.range_succ, List.map_append]
  simp

theorem ascBits_reverse (c : String) (i0 : Int) (n : Nat) :
    (ascBits c i0 (n + 1)).reverse = runBits c (i0 + n) i0 := by
  apply List.ext_getElem?
  intro k
  by_cases hk : k < n + 1
  · rw [List.getElem?_reverse (by rw [ascBits_length]; exact hk), ascBits_length,
      runBits_getElem? _ _ _ _ (by omega)]
    unfold ascBits
    rw [List.getElem?_map, List.getElem?_range (by omega)]
    simp only [Option.map_some]
    congr 2
    omega
  · rw [List.getElem?_eq_none (by simp [ascBits_length]; omega),
      List.getElem?_eq_none (by rw [runBits_length]; omega)]

theorem filterMap_reverse_block {β : Type} (blk : List β) (m : Nat) :
    ((blk.map some ++ List.replicate m none).reverse).filterMap id = blk.reverse := by
  rw [List.reverse_append, List.filterMap_append]
  have h1 : (List.replicate m (none : Option β)).reverse.filterMap id = [] := by
    rw [List.reverse_replicate]
    induction m with
    | zero => rfl
    | succ m ih => simp [List.replicate_succ, ih]
  rw [h1, List.nil_append, ← List.map_reverse]
  induction blk.reverse with
  | nil => rfl
  | cons x xs ih => simp [ih]

/-- core of `emit_eval`: the expression `_write_instance_port` chooses for a reader-shaped pin
    vector evaluates (in the reader) to the connected block, MSB first -/
theorem emitPortExpr_eval (env : CableEnv) (blk : List Bit) (m : Nat)
    (hne : blk.map some ++ List.replicate m none ≠ []) (hv : ∀ b ∈ blk, ValidBit env b) :
    ∃ e, emitPortExpr env (blk.map some ++ List.replicate m none) = some e ∧
      evalExpr env e = some blk.reverse := by
  cases blk with
  | nil =>
    cases m with
    | zero => simp at hne
    | succ m =>
      refine ⟨.empty, ?_, rfl⟩
      simp only [List.map_nil, List.nil_append, List.replicate_succ, emitPortExpr, Option.map_none,
        isConcatenated, isConcatGo]
      rw [isConcatGo_tail]
      simp
  | cons b0 rest =>
    simp only [List.map_cons, List.cons_append, emitPortExpr, Option.map_some]
    by_cases hc : isConcatenated (some b0 :: (rest.map some ++ List.replicate m none)) (some b0.cable) = true
    · rw [if_pos hc]
      obtain ⟨as, h1, h2⟩ := emitConcat_eval env (some b0 :: (rest.map some ++ List.replicate m none)).reverse (by
        intro b hb
        rw [List.mem_reverse] at hb
        apply hv
        rcases List.mem_cons.mp hb with hb | hb
        · cases hb; exact List.mem_cons_self
        · rcases List.mem_append.mp hb with hb | hb
          · rw [List.mem_map] at hb
            obtain ⟨x, hx, hxe⟩ := hb
            cases hxe
            exact List.mem_cons_of_mem _ hx
          · rw [List.mem_replicate] at hb
            cases hb.2)
      refine ⟨.concat as, by rw [h1]; rfl, ?_⟩
      simp only [evalExpr, h2]
      have := filterMap_reverse_block (b0 :: rest) m
      simp only [List.map_cons, List.cons_append] at this
      rw [this]
    · rw [if_neg hc]
      have hc' : isConcatGo ((b0 :: rest).map some ++ List.replicate m none) (some b0.cable) false false none = false := by
        simp only [List.map_cons, List.cons_append]
        cases h : isConcatenated (some b0 :: (rest.map some ++ List.replicate m none)) (some b0.cable) with
        | true => exact absurd h hc
        | false => exact h
      obtain ⟨_, hasc⟩ := isConcatGo_false (b0 :: rest) m b0.cable none hc' b0 rest rfl
      have hls := lastSome_block (b0 :: rest) m
      simp only [List.map_cons, List.cons_append] at hls
      rw [hls, hasc, List.length_cons, ascBits_getLast]
      simp only
      obtain ⟨lower, width, he, hb0, _⟩ := hv b0 List.mem_cons_self
      have hlast : (⟨b0.cable, b0.idx + rest.length⟩ : Bit) ∈ b0 :: rest := by
        have : (b0 :: rest).getLast? = some ⟨b0.cable, b0.idx + rest.length⟩ := by
          rw [hasc, List.length_cons, ascBits_getLast]
        exact List.mem_of_getLast? this
      obtain ⟨lower', width', he', _, hb1⟩ := hv _ hlast
      simp only at he'
      rw [he] at he'
      cases he'
      obtain ⟨a, ha, hev⟩ := emitRange_eval env b0.cable lower width b0.idx (b0.idx + rest.length) he hb0
        (by omega) hb1
      refine ⟨.atom a, by rw [ha]; rfl, ?_⟩
      simp only [evalExpr, hev, ascBits_reverse]
theorem evalConcat_app (env : CableEnv) (as bs : List Atom) (x z : List Bit)
    (h1 : evalConcat env as = some x) (h2 : evalConcat env bs = some z) :
    evalConcat env (as ++ bs) = some (x ++ z) := by
  induction as generalizing x with
  | nil =>
    simp only [evalConcat] at h1
    cases h1
    simpa using h2
  | cons b as ih =>
    simp only [evalConcat, List.cons_append] at h1 ⊢
    cases hb : evalAtom env b with
    | none => simp [hb] at h1
    | some xb =>
      cases hbs : evalConcat env as with
      | none => simp [hb, hbs] at h1
      | some xs =>
        simp only [hb, hbs] at h1
        cases h1
        rw [ih xs hbs]
        simp

theorem evalConcat_cons (env : CableEnv) (a : Atom) (bs : List Atom) (y z : List Bit)
    (h1 : evalAtom env a = some y) (h2 : evalConcat env bs = some z) :
    evalConcat env (a :: bs) = some (y ++ z) := by
  simp [evalConcat, h1, h2]

theorem isConcatGo_asc (c : String) (n : Nat) : ∀ (i0 : Int) (last : Option Int),
    (last = none ∨ last = some (i0 - 1)) →
    isConcatGo ((ascBits c i0 n).map some) (some c) false false last = false := by
  induction n with
  | zero => intro i0 last _; simp [ascBits, isConcatGo]
  | succ n ih =>
    intro i0 last hl
    rw [ascBits_succ]
    simp only [List.map_cons]
    unfold isConcatGo
    have hrec := ih (i0 + 1) (some i0) (Or.inr (by congr 1; omega))
    rcases hl with hl | hl
    · subst hl
      simp only
      rw [if_neg (by simp)]
      simpa using hrec
    · subst hl
      simp only
      rw [if_neg (by omega), if_neg (by simp)]
      simpa using hrec
end Spydr.Verilog
