/-
  Verilog engine — the writer's from-top order (`_write_from_top`) is a breadth-first work list;
  soundness, completeness (when the fuel sufficed) and duplicate-freeness.
-/
import Spydr.Verilog.Model
import Mathlib.Logic.Relation

namespace Spydr.Verilog

/-- `b` is the reference of a child of `a` -/
def ChildRef (children : Nat → List Nat) (a b : Nat) : Prop := b ∈ children a

abbrev Reaches (children : Nat → List Nat) := Relation.ReflTransGen (ChildRef children)

theorem writeOrderGo_mono (children : Nat → List Nat) (f : Nat) (q w : List Nat) :
    ∀ x ∈ w, x ∈ (writeOrderGo children f q w).1 := by
  induction f generalizing q w with
  | zero => intro x hx; simpa [writeOrderGo] using hx
  | succ f ih =>
    cases q with
    | nil => intro x hx; simpa [writeOrderGo] using hx
    | cons d q =>
      intro x hx
      simp only [writeOrderGo]
      split
      · exact ih q w x hx
      · exact ih _ _ x (List.mem_append_left _ hx)

theorem writeOrderGo_sound (children : Nat → List Nat) (f : Nat) (q w : List Nat) (top : Nat)
    (hq : ∀ x ∈ q, Reaches children top x) (hw : ∀ x ∈ w, Reaches children top x) :
    ∀ x ∈ (writeOrderGo children f q w).1, Reaches children top x := by
  induction f generalizing q w with
  | zero => simpa [writeOrderGo] using hw
  | succ f ih =>
    cases q with
    | nil => simpa [writeOrderGo] using hw
    | cons d q =>
      simp only [writeOrderGo]
      split
      · exact ih q w (fun x hx => hq x (List.mem_cons_of_mem _ hx)) hw
      · apply ih
        · intro x hx
          rcases List.mem_append.mp hx with hx | hx
          · exact hq x (List.mem_cons_of_mem _ hx)
          · have hx' := (List.mem_filter.mp hx).1
            exact (hq d List.mem_cons_self).tail hx'
        · intro x hx
          rcases List.mem_append.mp hx with hx | hx
          · exact hw x hx
          · simp only [List.mem_singleton] at hx
            rw [hx]; exact hq d List.mem_cons_self

theorem writeOrderGo_nodup (children : Nat → List Nat) (f : Nat) (q w : List Nat) (h : w.Nodup) :
    (writeOrderGo children f q w).1.Nodup := by
  induction f generalizing q w with
  | zero => simpa [writeOrderGo] using h
  | succ f ih =>
    cases q with
    | nil => simpa [writeOrderGo] using h
    | cons d q =>
      simp only [writeOrderGo]
      split
      · exact ih q w h
      · rename_i hd
        apply ih
        rw [List.nodup_append]
        refine ⟨h, by simp, ?_⟩
        intro a ha b hb
        simp only [List.mem_singleton] at hb
        rw [hb]
        intro e
        rw [e] at ha
        exact hd ha

/-- work-list invariant: every child reference of a written module is written or queued -/
def OrderClosed (children : Nat → List Nat) (q w : List Nat) : Prop :=
  ∀ x ∈ w, ∀ y ∈ children x, y ∈ w ∨ y ∈ q

theorem writeOrderGo_closed (children : Nat → List Nat) (f : Nat) (q w : List Nat)
    (hc : OrderClosed children q w) (hfin : (writeOrderGo children f q w).2 = true) :
    (∀ x ∈ q, x ∈ (writeOrderGo children f q w).1) ∧
    (∀ x ∈ (writeOrderGo children f q w).1, ∀ y ∈ children x, y ∈ (writeOrderGo children f q w).1) := by
  induction f generalizing q w with
  | zero =>
    simp only [writeOrderGo] at hfin ⊢
    have : q = [] := by simpa using hfin
    subst this
    refine ⟨by simp, ?_⟩
    intro x hx y hy
    rcases hc x hx y hy with h | h
    · exact h
    · simp at h
  | succ f ih =>
    cases q with
    | nil =>
      simp only [writeOrderGo]
      refine ⟨by simp, ?_⟩
      intro x hx y hy
      rcases hc x hx y hy with h | h
      · exact h
      · simp at h
    | cons d q =>
      simp only [writeOrderGo] at hfin ⊢
      split at hfin
      · rename_i hd
        rw [if_pos hd]
        have hc' : OrderClosed children q w := by
          intro x hx y hy
          rcases hc x hx y hy with h | h
          · exact Or.inl h
          · rcases List.mem_cons.mp h with h | h
            · rw [h]; exact Or.inl hd
            · exact Or.inr h
        obtain ⟨h1, h2⟩ := ih q w hc' hfin
        refine ⟨?_, h2⟩
        intro x hx
        rcases List.mem_cons.mp hx with hx | hx
        · rw [hx]; exact writeOrderGo_mono children f q w _ hd
        · exact h1 x hx
      · rename_i hd
        rw [if_neg hd]
        have hc' : OrderClosed children
            (q ++ (children d).filter (fun c => !(c == d) && !(w.contains c))) (w ++ [d]) := by
          intro x hx y hy
          rcases List.mem_append.mp hx with hx | hx
          · rcases hc x hx y hy with h | h
            · exact Or.inl (List.mem_append_left _ h)
            · rcases List.mem_cons.mp h with h | h
              · rw [h]; exact Or.inl (List.mem_append_right _ (by simp))
              · exact Or.inr (List.mem_append_left _ h)
          · simp only [List.mem_singleton] at hx
            rw [hx] at hy
            by_cases e : y = d
            · rw [e]; exact Or.inl (List.mem_append_right _ (by simp))
            · by_cases hyw : y ∈ w
              · exact Or.inl (List.mem_append_left _ hyw)
              · refine Or.inr (List.mem_append_right _ (List.mem_filter.mpr ⟨hy, ?_⟩))
                simp [e, hyw]
        obtain ⟨h1, h2⟩ := ih _ _ hc' hfin
        refine ⟨?_, h2⟩
        intro x hx
        rcases List.mem_cons.mp hx with hx | hx
        · rw [hx]; exact writeOrderGo_mono children f _ _ _ (List.mem_append_right _ (by simp))
        · exact h1 x (List.mem_append_left _ hx)

theorem writeOrder_complete (children : Nat → List Nat) (f : Nat) (top : Nat)
    (hfin : (writeOrder children f top).2 = true) :
    ∀ x, Reaches children top x → x ∈ (writeOrder children f top).1 := by
  have hc : OrderClosed children [top] [] := by intro x hx; simp at hx
  obtain ⟨h1, h2⟩ := writeOrderGo_closed children f [top] [] hc hfin
  intro x hr
  induction hr with
  | refl => exact h1 top (by simp)
  | tail _ hstep ih => exact h2 _ ih _ hstep

end Spydr.Verilog
