/-
  Verilog engine — the writer's from-top order (`_write_from_top`) is a breadth-first work list;
  soundness, completeness (when the fuel sufficed) and duplicate-freeness.
-/
import Spydr.Verilog.Model
import Mathlib.Logic.Relation

namespace Spydr.Verilog

/-- `b` is the reference of a child of `a` -/
def ChildRef (children : Nat → List Nat) (a b : Nat) : Prop := b ∈ children a

abbrev Reaches (children : Nat → List Nat) := Relation.ReflTransGen (ChildRef children)

theorem writeOrderGo_mono (children : Nat → List Nat) (f : Nat) (q w : List Nat) :
    ∀ x ∈ w, x ∈ (writeOrderGo children f q w).1 := by
  induction f generalizing q w with
  | zero => intro x hx; simpa [writeOrderGo] using hx
  | succ f ih =>
    cases q with
    | nil => intro x hx; simpa [writeOrderGo] using hx
    | cons d q =>
      intro x hx
      simp only [writeOrderGo]
      split
      · exact ih q w x hx
      · exact ih _ _ x (List.mem_append_left _ hx)

theorem writeOrderGo_sound (children : Nat → List Nat) (f : Nat) (q w : List Nat) (top : Nat)
    (hq : ∀ x ∈ q, Reaches children top x) (hw : ∀ x ∈ w, Reaches children top x) :
    ∀ x ∈ (writeOrderGo children f q w).1, Reaches children top x := by
  induction f generalizing q w with
  | zero => simpa [writeOrderGo] using hw
  | succ f ih =>
    cases q with
    | nil => simpa [writeOrderGo] using hw
    | cons d q =>
      simp only [writeOrderGo]
      split
      · exact ih q w (fun x hx => hq x (List.mem_cons_of_mem _ hx)) hw
      · apply ih
        · intro x hx
          rcases List.mem_append.mp hx with hx | hx
          · exact hq x (List.mem_cons_of_mem _ hx)
          · have hx' := (List.mem_filter.mp hx).1
            exact (hq d List.mem_cons_self).tail hx'
        · intro x hx
          rcases List.mem_append.mp hx with hx | hx
          · exact hw x hx
          · simp only [List.mem_singleton] at hx
            rw [hx]; exact hq d List.mem_cons_self

theorem writeOrderGo_nodup (children : Nat → List Nat) (f : Nat) (q w : List Nat) (h : w.Nodup) :
    (writeOrderGo children f q w).1.Nodup := by
  induction f generalizing q w with
  | zero => simpa [writeOrderGo] using h
  | succ f ih =>
    cases q with
    | nil => simpa [writeOrderGo] using h
    | cons d q =>
      simp only [writeOrderGo]
      split
      · exact ih q w h
      · rename_i hd
        apply ih
        rw [List.nodup_append]
        refine ⟨h, by simp, ?_⟩
        intro a ha b hb
        simp only [List.mem_singleton] at hb
        rw [hb]
        intro e
        rw [e] at ha
        exact hd ha

/-- work-list invariant: every child reference of a written module is written or queued -/
def OrderClosed (children : Nat → List Nat) (q w : List Nat) : Prop :=
  ∀ x ∈ w, ∀ y ∈ children x, y ∈ w ∨ y ∈ q

theorem writeOrderGo_closed (children : Nat → List Nat) (f : Nat) (q w : List Nat)
    (hc : OrderClosed children q w) (hfin : (writeOrderGo children f q w).2 = true) :
    (∀ x ∈ q, x ∈ (writeOrderGo children f q w).1) ∧
    (∀ x ∈ (writeOrderGo children f q w).1, ∀ y ∈ children x, y ∈ (writeOrderGo children f q w).1) := by
  induction f generalizing q w with
  | zero =>
    simp only [writeOrderGo] at hfin ⊢
    have : q = [] := by simpa using hfin
    subst this
    refine ⟨by simp, ?_⟩
    intro x hx y hy
    rcases hc x hx y hy with h | h
    · exact h
    · simp at h
  | succ f ih =>
    cases q with
    | nil =>
      simp only [writeOrderGo]
      refine ⟨by simp, ?_⟩
      intro x hx y hy
      rcases hc x hx y hy with h | h
      · exact h
      · simp at h
    | cons d q =>
      simp only [writeOrderGo] at hfin ⊢
      split at hfin
      · rename_i hd
        rw [if_pos hd]
        have hc' : OrderClosed children q w := by
          intro x hx y hy
          rcases hc x hx y hy with h | h
          · exact Or.inl h
          · rcases List.mem_cons.mp h with h | h
            · rw [h]; exact Or.inl hd
            · exact Or.inr h
        obtain ⟨h1, h2⟩ := ih q w hc' hfin
        refine ⟨?_, h2⟩
        intro x hx
        rcases List.mem_cons.mp hx with hx | hx
        · rw [hx]; exact writeOrderGo_mono children f q w _ hd
        · exact h1 x hx
      · rename_i hd
        rw [if_neg hd]
        have hc' : OrderClosed children
            (q ++ (children d).filter (fun c => !(c == d) && !(w.contains c))) (w ++ [d]) := by
          intro x hx y hy
          rcases List.mem_append.mp hx with hx | hx
          · rcases hc x hx y hy with h | h
            · exact Or.inl (List.mem_append_left _ h)
            · rcases List.mem_cons.mp h with h | h
              · rw [h]; exact Or.inl (List.mem_append_right _ (by simp))
              · exact Or.inr (List.mem_append_left _ h)
          · simp only [List.mem_singleton] at hx
            rw [hx] at hy
            by_cases e : y = d
            · rw [e]; exact Or.inl (List.mem_append_right _ (by simp))
            · by_cases hyw : y ∈ w
              · exact Or.inl (List.mem_append_left _ hyw)
              · refine Or.inr (List.mem_append_right _ (List.mem_filter.mpr ⟨hy, ?_⟩))
                simp [e, hyw]
        obtain ⟨h1, h2⟩ := ih _ _ hc' hfin
        refine ⟨?_, h2⟩
        intro x hx
        rcases List.mem_cons.mp hx with hx | hx
        · rw [hx]; exact writeOrderGo_mono children f _ _ _ (List.mem_append_right _ (by simp))
        · exact h1 x (List.mem_append_left _ hx)

theorem writeOrder_complete (children : Nat → List Nat) (f : Nat) (top : Nat)
    (hfin : (writeOrder children f top).2 = true) :
    ∀ x, Reaches children top x → x ∈ (writeOrder children f top).1 := by
  have hc : OrderClosed children [top] [] := by intro x hx; simp at hx
  obtain ⟨h1, h2⟩ := writeOrderGo_closed children f [top] [] hc hfin
  intro x hr
  induction hr with
  | refl => exact h1 top (by simp)
  | tail _ hstep ih => exact h2 _ ih _ hstep

/-- remaining work: one unit per module not yet written plus one per child reference of it -/
def orderCost (children : Nat → List Nat) (univ w : List Nat) : Nat :=
  ((univ.filter (fun d => !(w.contains d))).map (fun d => 1 + (children d).length)).sum

theorem orderCost_write (children : Nat → List Nat) (univ w : List Nat) (d : Nat)
    (hn : univ.Nodup) (hd : d ∈ univ) (hw : d ∉ w) :
    orderCost children univ (w ++ [d]) + (1 + (children d).length) = orderCost children univ w := by
  unfold orderCost
  induction univ with
  | nil => cases hd
  | cons x xs ih =>
    have hx : x ∉ xs := (List.nodup_cons.mp hn).1
    have hxs : xs.Nodup := (List.nodup_cons.mp hn).2
    by_cases hxd : x = d
    · subst hxd
      -- d is the head: it leaves the filter; the tail does not contain d, so its filter is unchanged
      have htail : xs.filter (fun e => !((w ++ [x]).contains e)) = xs.filter (fun e => !(w.contains e)) := by
        apply List.filter_congr
        intro e he
        have : e ≠ x := fun h => hx (h ▸ he)
        simp [this]
      simp only [List.filter_cons]
      have h1 : (!(w ++ [x]).contains x) = false := by simp
      have h2 : (!w.contains x) = true := by simpa using hw
      rw [h1, h2, htail]
      simp only [Bool.false_eq_true, if_false, if_true, List.map_cons, List.sum_cons]
      omega
    · have hd' : d ∈ xs := by
        rcases List.mem_cons.mp hd with h | h
        · exact absurd h.symm hxd
        · exact h
      have := ih hxs hd'
      simp only [List.filter_cons]
      have hc : (!(w ++ [d]).contains x) = (!w.contains x) := by simp [hxd]
      rw [hc]
      by_cases hwx : (!w.contains x) = true
      · simp only [hwx, if_true, List.map_cons, List.sum_cons]
        omega
      · simp only [hwx]
        exact this

/-- the fuel suffices: the work list empties as soon as the fuel exceeds `|queue| + remaining cost` -/
theorem writeOrderGo_finishes (children : Nat → List Nat) (univ : List Nat) (hn : univ.Nodup)
    (hclosed : ∀ d ∈ univ, ∀ c ∈ children d, c ∈ univ) :
    ∀ (fuel : Nat) (q w : List Nat), (∀ x ∈ q, x ∈ univ) →
      q.length + orderCost children univ w < fuel → (writeOrderGo children fuel q w).2 = true := by
  intro fuel
  induction fuel with
  | zero => intro q w _ h; omega
  | succ f ih =>
    intro q w hq h
    cases q with
    | nil => simp [writeOrderGo]
    | cons d q =>
      simp only [writeOrderGo]
      split
      · apply ih q w (fun x hx => hq x (List.mem_cons_of_mem _ hx))
        simp only [List.length_cons] at h
        omega
      · rename_i hdw
        have hdu : d ∈ univ := hq d List.mem_cons_self
        apply ih
        · intro x hx
          rcases List.mem_append.mp hx with hx | hx
          · exact hq x (List.mem_cons_of_mem _ hx)
          · exact hclosed d hdu x (List.mem_filter.mp hx).1
        · have hc := orderCost_write children univ w d hn hdu hdw
          have hf : ((children d).filter (fun c => !(c == d) && !(w.contains c))).length ≤ (children d).length :=
            List.length_filter_le _ _
          simp only [List.length_cons] at h
          simp only [List.length_append]
          omega


theorem sum_map_succ (l : List Nat) (f : Nat → Nat) :
    (l.map (fun d => 1 + f d)).sum = l.length + (l.map f).sum := by
  induction l with
  | nil => rfl
  | cons x xs ih => simp only [List.map_cons, List.sum_cons, List.length_cons, ih]; omega

/-- **fuel sufficiency.**  In a netlist of `N` definitions (child references inside `0..N-1`) the fuel
    the driver uses, `2 + N + Σ |children d|`, always empties the work list. -/
theorem writeOrder_finishes (children : Nat → List Nat) (N top : Nat) (htop : top < N)
    (hclosed : ∀ d, d < N → ∀ c ∈ children d, c < N) :
    (writeOrder children (2 + N + ((List.range N).map (fun d => (children d).length)).sum) top).2 = true := by
  unfold writeOrder
  apply writeOrderGo_finishes children (List.range N) List.nodup_range
  · intro d hd c hc
    exact List.mem_range.mpr (hclosed d (List.mem_range.mp hd) c hc)
  · intro x hx
    simp only [List.mem_singleton] at hx
    rw [hx]; exact List.mem_range.mpr htop
  · have : orderCost children (List.range N) [] = N + ((List.range N).map (fun d => (children d).length)).sum := by
      unfold orderCost
      have hf : (List.range N).filter (fun d => !(([] : List Nat).contains d)) = List.range N := by
        apply List.filter_eq_self.mpr
        intro a _; simp
      rw [hf, sum_map_succ, List.length_range]
    rw [this]
    simp only [List.length_singleton]
    omega

end Spydr.Verilog
