/-
  Verilog engine — bit-level model of the reader's connection semantics and of the writer's
  expression choice.

  Transcribed from
    spydrnet/parsers/verilog/parser.py   get_wires_from_cable, parse_cable_concatenation,
                                         parse_port_map_single / connect_implicitly_mapped_ports,
                                         create_or_update_cable / create_or_update_port,
                                         populate_new_cable / populate_new_port, prepend_*/postpend_*,
                                         parse_module_header_port_alias, connect_wires_for_assign
    spydrnet/composers/verilog/composer.py  _is_pinset_concatenated, _write_instance_port,
                                         _write_concatenation, _write_brackets, _write_brackets_defining,
                                         _write_module_header_port, _write_assignment, _write_from_top

  The model follows the code *as repaired* by docs/fixes/verilog_*.diff where a repair is proposed
  (assign pins are joined from the least significant end).

  NO Mathlib import in this file (it is linked into the driver executable).
-/
namespace Spydr.Verilog

/-! ## Python list primitives (exactly CPython's semantics for step-1 slices and for indexing) -/

/-- normalisation of one slice bound against a list of length `n` -/
def pyNorm (n : Nat) (i : Int) : Nat :=
  if i < 0 then (i + (n : Int)).toNat else min i.toNat n

/-- `xs[lo:hi]` -/
def pySlice {α : Type} (xs : List α) (lo hi : Int) : List α :=
  (xs.drop (pyNorm xs.length lo)).take (pyNorm xs.length hi - pyNorm xs.length lo)

/-- `xs[i]` (`none` = IndexError) -/
def pyIndex {α : Type} (xs : List α) (i : Int) : Option α :=
  if 0 ≤ i then xs[i.toNat]?
  else if 0 ≤ i + (xs.length : Int) then xs[(i + (xs.length : Int)).toNat]?
  else none

/-! ## Bundles: a cable (list of wires) or a port (list of pins) with its base index -/

structure Bundle (α : Type) where
  lower : Int
  items : List α
  deriving Repr

/-- the item at *absolute* index `i` -/
def Bundle.at? {α : Type} (b : Bundle α) (i : Int) : Option α :=
  if b.lower ≤ i then b.items[(i - b.lower).toNat]? else none

/-- `get_wires_from_cable(cable, left, right)`: MSB-first list (`none` = IndexError) -/
def getWires {α : Type} (c : Bundle α) (l r : Option Int) : Option (List α) :=
  match l, r with
  | some l, some r =>
      let l' := l - c.lower
      let r' := r - c.lower
      some (pySlice c.items (min l' r') (max l' r' + 1)).reverse
  | some l, none => (pyIndex c.items (l - c.lower)).map (fun w => [w])
  | none, some r => (pyIndex c.items (r - c.lower)).map (fun w => [w])
  | none, none => some c.items.reverse

/-! ## create_or_update_cable / create_or_update_port -/

/-- `in_lower, in_upper` of create_or_update_* -/
def inRange (l r : Option Int) : Option (Int × Int) :=
  match l, r with
  | some l, some r => some (min l r, max l r)
  | some l, none => some (l, l)
  | none, some r => some (r, r)
  | none, none => none

/-- shape of a freshly populated bundle: (lower index, width, is_downto) -/
def populateNew (l r : Option Int) : Int × Nat × Bool :=
  match l, r with
  | some l, some r => (min l r, (max l r - min l r + 1).toNat, decide (r ≤ l))
  | some l, none => (l, 1, true)
  | none, some r => (r, 1, true)
  | none, none => (0, 1, true)

/-- what an update does to an existing bundle: new lower index, items to prepend, items to append -/
structure Resize where
  lower : Int
  pre : Nat
  post : Nat
  deriving Repr, DecidableEq

/-- `create_or_update_cable` on an existing cable of base `lower` and `width` wires -/
def resizeCable (lower : Int) (width : Nat) (l r : Option Int) (defining : Bool) : Resize :=
  match inRange l r with
  | none => ⟨lower, 0, 0⟩
  | some (inLo, inHi) =>
      let lower1 := if defining then inLo else lower
      let upper1 := lower1 + (width : Int) - 1
      let pre := if inLo < lower1 then (lower1 - inLo).toNat else 0
      let post := if inHi > upper1 then (inHi - upper1).toNat else 0
      ⟨lower1 - (pre : Int), pre, post⟩

/-- `create_or_update_port` on an existing port: as the cable, except that nothing is resized when
    the requested width equals the present width -/
def resizePort (lower : Int) (width : Nat) (l r : Option Int) (defining : Bool) : Resize :=
  match inRange l r with
  | none => ⟨lower, 0, 0⟩
  | some (inLo, inHi) =>
      let lower1 := if defining then inLo else lower
      let upper1 := lower1 + (width : Int) - 1
      if inHi - inLo = upper1 - lower1 then ⟨lower1, 0, 0⟩
      else
        let pre := if inLo < lower1 then (lower1 - inLo).toNat else 0
        let post := if inHi > upper1 then (inHi - upper1).toNat else 0
        ⟨lower1 - (pre : Int), pre, post⟩

/-- `prepend_*` then `postpend_*` with the given new items -/
def Bundle.resized {α : Type} (b : Bundle α) (rz : Resize) (pre post : List α) : Bundle α :=
  ⟨rz.lower, pre ++ b.items ++ post⟩

/-! ## Pin vectors and the port-map connection -/

/-- the pins of one port of one instance, in `port.pins` order (pin 0 first); `none` = unconnected -/
abbrev PinVec (β : Type) := List (Option β)

/-- `wire.connect_pin(pin)`: refuses a pin that already has a wire -/
def setPin {β : Type} (pv : PinVec β) (k : Nat) (w : β) : Option (PinVec β) :=
  match pv[k]? with
  | some none => some (pv.set k (some w))
  | _ => none

/-- The loop shared by `parse_port_map_single` and `connect_implicitly_mapped_ports`:
    `pins.sort(reverse=True)`; `offset = len(pins) - len(wires)`;
    `wires[i].connect_pin(pins[offset + i])`.  `ws` is MSB first. -/
def connectLowAligned {β : Type} (pins : PinVec β) (ws : List β) : Option (PinVec β) :=
  if ws.length ≤ pins.length then
    let order := (List.range pins.length).reverse
    let offset := pins.length - ws.length
    (ws.zip (order.drop offset)).foldlM (fun pv (p : β × Nat) => setPin pv p.2 p.1) pins
  else none

/-- `parse_module_header_port_alias`: a fresh port of `len(wires)` pins; pin list sorted descending,
    `wires[i].connect_pin(pin_list[i])` -/
def connectAlias {β : Type} (ws : List β) : PinVec β :=
  (ws.map some).reverse

/-- `connect_wires_for_assign` (repaired): `width = min`; pin `k` of `o`/`i` meets bit `k` of the
    expression counted from its least significant end. Returns (o pins, i pins). -/
def connectAssign {β : Type} (outWs inWs : List β) : PinVec β × PinVec β :=
  let w := min outWs.length inWs.length
  ((outWs.reverse.take w).map some, (inWs.reverse.take w).map some)

/-! ## Nets, expressions and their evaluation (the reader's view of an expression) -/

/-- one bit of a cable, by absolute index (what `_index_of_wire_in_cable` returns) -/
structure Bit where
  cable : String
  idx : Int
  deriving DecidableEq, Repr, Inhabited

/-- declared cables of the module being read/written: name ↦ (lower index, width) -/
abbrev CableEnv := String → Option (Int × Nat)

/-- all bits of a cable, in `cable.wires` order -/
def cableBits (n : String) (lower : Int) (width : Nat) : Bundle Bit :=
  ⟨lower, (List.range width).map (fun (k : Nat) => (⟨n, lower + (k : Int)⟩ : Bit))⟩

inductive Atom
  | id (n : String)                    -- `n`
  | bit (n : String) (i : Int)         -- `n[i]`
  | part (n : String) (l r : Int)      -- `n[l:r]`
  deriving DecidableEq, Repr, Inhabited

inductive PExpr
  | empty                              -- `.p()`
  | atom (a : Atom)
  | concat (as : List Atom)            -- `{a, b, …}`
  deriving Repr, Inhabited

def Atom.name : Atom → String
  | .id n => n
  | .bit n _ => n
  | .part n _ _ => n

def Atom.range : Atom → Option Int × Option Int
  | .id _ => (none, none)
  | .bit _ i => (some i, none)
  | .part _ l r => (some l, some r)

/-- is the (absolute) range inside the cable? (the reader would otherwise grow the cable) -/
def inCable (lower : Int) (width : Nat) (l r : Option Int) : Bool :=
  match inRange l r with
  | none => true
  | some (lo, hi) => decide (lower ≤ lo) && decide (hi < lower + (width : Int))

/-- value of an atom in a fixed environment: MSB-first bits; `none` when the cable is not declared
    or the range leaves it -/
def evalAtom (env : CableEnv) (a : Atom) : Option (List Bit) :=
  match env a.name with
  | none => none
  | some (lower, width) =>
      if inCable lower width a.range.1 a.range.2 then
        getWires (cableBits a.name lower width) a.range.1 a.range.2
      else none

/-- `parse_cable_concatenation` (the per-atom `sort(reverse=True)` is the identity on the output of
    `get_wires_from_cable`) -/
def evalConcat (env : CableEnv) : List Atom → Option (List Bit)
  | [] => some []
  | a :: as =>
      match evalAtom env a, evalConcat env as with
      | some x, some y => some (x ++ y)
      | _, _ => none

def evalExpr (env : CableEnv) : PExpr → Option (List Bit)
  | .empty => some []
  | .atom a => evalAtom env a
  | .concat as => evalConcat env as

/-! ## The writer -/

/-- `_is_pinset_concatenated(pins, name)`, transcribed statement by statement -/
def isConcatGo : List (Option Bit) → Option String → Bool → Bool → Option Int → Bool
  | [], _, aliased, _, _ => aliased
  | none :: ps, name, aliased, _, last => isConcatGo ps name aliased true last
  | some b :: ps, name, aliased, nowNone, last =>
      match last with
      | none =>
          if some b.cable ≠ name ∧ nowNone = false then true
          else isConcatGo ps name (aliased || nowNone) nowNone (some b.idx)
      | some li =>
          if b.idx ≠ li + 1 then true
          else if some b.cable ≠ name ∧ nowNone = false then true
          else isConcatGo ps name (aliased || nowNone) nowNone (some b.idx)

def isConcatenated (pins : List (Option Bit)) (name : Option String) : Bool :=
  isConcatGo pins name false false none

/-- `_write_bundle_with_indicies(cable, low, high)` = name + `_write_brackets`; `none` = assertion -/
def emitRange (env : CableEnv) (n : String) (low high : Int) : Option Atom :=
  match env n with
  | none => none
  | some (lower, width) =>
      let upper := lower + (width : Int) - 1
      if width = 0 then none
      else if width = 1 then
        if low = lower ∧ high = upper then some (.id n) else none
      else if low = lower ∧ high = upper then some (.part n high low)
      else if low = high then
        if lower ≤ low ∧ low ≤ upper then some (.bit n low) else none
      else if lower ≤ low ∧ low ≤ upper ∧ lower ≤ high ∧ high ≤ upper then some (.part n high low)
      else none

/-- loop state of `_write_concatenation` -/
structure CatSt where
  out : List Atom          -- written so far, in order
  prev : Option String     -- previous_cable.name  (None for the initial `Cable()`)
  firstIdx : Int
  prevIdx : Int
  has : Bool               -- has_to_write
  ok : Bool                -- no assertion so far
  deriving Repr

def CatSt.flush (env : CableEnv) (s : CatSt) : CatSt :=
  match s.prev with
  | none => { s with ok := false }
  | some n =>
    match emitRange env n s.prevIdx s.firstIdx with
    | some a => { s with out := s.out ++ [a] }
    | none => { s with ok := false }

def catStep (env : CableEnv) (s : CatSt) : Option Bit → CatSt
  | none => s
  | some b =>
      if some b.cable = s.prev then
        if b.idx = s.prevIdx - 1 then { s with prevIdx := b.idx, has := true }
        else
          let s1 := s.flush env
          { s1 with prev := some b.cable, firstIdx := b.idx, prevIdx := b.idx, has := true }
      else
        let s1 := if s.has then s.flush env else s
        { s1 with prev := some b.cable, firstIdx := b.idx, prevIdx := b.idx, has := true }

/-- `_write_concatenation(wires)`, wires MSB first (with `None`s, which are skipped) -/
def emitConcat (env : CableEnv) (ws : List (Option Bit)) : Option (List Atom) :=
  let s := ws.foldl (catStep env) ⟨[], none, 0, 0, false, true⟩
  let s := if s.has then s.flush env else s
  if s.ok then some s.out else none

/-- the last connected pin (in port order) -/
def lastSome {β : Type} : List (Option β) → Option β
  | [] => none
  | x :: xs => match lastSome xs with
      | some y => some y
      | none => x

/-- `_write_instance_port`: the expression inside `.port( … )`; `none` = the writer raises -/
def emitPortExpr (env : CableEnv) (pins : List (Option Bit)) : Option PExpr :=
  match pins with
  | [] => none
  | p0 :: _ =>
      if isConcatenated pins (p0.map (·.cable)) then
        (emitConcat env pins.reverse).map PExpr.concat
      else
        match p0, lastSome pins with
        | some b0, some bl => (emitRange env bl.cable b0.idx bl.idx).map PExpr.atom
        | _, _ => some .empty

/-- `_write_module_header_port`: `none` = plain name, `some as` = `.port({as})` -/
def emitHeaderPort (env : CableEnv) (pname : String) (pins : List (Option Bit)) : Option (Option (List Atom)) :=
  if isConcatenated pins (some pname) then
    (emitConcat env pins.reverse).map some
  else some none

/-- `_write_brackets_defining`: the `[msb:lsb]` of a declaration, `none` = no brackets -/
def emitDeclRange (lower : Int) (width : Nat) : Option (Int × Int) :=
  if width = 1 ∧ lower = 0 then none else some (lower + (width : Int) - 1, lower)

/-- shape of the bundle a declaration `[msb:lsb] name` yields when the name is new -/
def readDeclNew (rng : Option (Int × Int)) : Int × Nat :=
  match rng with
  | none => ((populateNew none none).1, (populateNew none none).2.1)
  | some (l, r) => ((populateNew (some l) (some r)).1, (populateNew (some l) (some r)).2.1)

/-- shape after a *defining* declaration meets the one-bit stub the header created for that name -/
def readDeclStub (rng : Option (Int × Int)) : Int × Nat :=
  match rng with
  | none => (0, 1)
  | some (l, r) =>
      let rz := resizeCable 0 1 (some l) (some r) true
      (rz.lower, rz.pre + 1 + rz.post)

/-- one side of `_write_assignment`: the pins of `o` (or `i`) in port order -/
def emitAssignSide (env : CableEnv) (pins : List (Option Bit)) : Option Atom :=
  match pins with
  | some b0 :: _ =>
      if isConcatenated pins (some b0.cable) then none
      else match pins.getLast? with
        | some (some bl) => emitRange env b0.cable b0.idx bl.idx
        | _ => none
  | _ => none

/-- `_write_assignment`: (lhs, rhs) atoms of `assign lhs = rhs;`  (`none` = the writer raises) -/
def emitAssign (env : CableEnv) (oPins iPins : List (Option Bit)) : Option (Atom × Atom) :=
  match emitAssignSide env oPins, emitAssignSide env iPins with
  | some l, some r => some (l, r)
  | _, _ => none

/-- `assign l = r;` read back -/
def readAssign (env : CableEnv) (l r : Atom) : Option (PinVec Bit × PinVec Bit) :=
  match evalAtom env l, evalAtom env r with
  | some lw, some rw => some (connectAssign lw rw)
  | _, _ => none

/-- the reader's treatment of one named or positional connection on a port that is still free:
    evaluate the expression (MSB first), then run the port-map loop -/
def readConn (env : CableEnv) (W : Nat) (e : PExpr) : Option (PinVec Bit) :=
  match evalExpr env e with
  | none => none
  | some ws => connectLowAligned (List.replicate W none) ws

/-- write one instance port, read it back on a fresh port of the same width -/
def portRT (env : CableEnv) (pins : List (Option Bit)) : Option (List (Option Bit)) :=
  match emitPortExpr env pins with
  | none => none
  | some e =>
    match evalExpr env e with
    | none => none
    | some ws => connectLowAligned (List.replicate pins.length none) ws

/-! ## Write order -/

/-- `_write_from_top`: queue, written (in write order, newest last).  Returns (order, finished). -/
def writeOrderGo (children : Nat → List Nat) : Nat → List Nat → List Nat → List Nat × Bool
  | 0, q, w => (w, q.isEmpty)
  | _ + 1, [], w => (w, true)
  | f + 1, d :: q, w =>
      if d ∈ w then writeOrderGo children f q w
      else writeOrderGo children f (q ++ (children d).filter (fun c => !(c == d) && !(w.contains c))) (w ++ [d])

def writeOrder (children : Nat → List Nat) (fuel : Nat) (top : Nat) : List Nat × Bool :=
  writeOrderGo children fuel [top] []

/-- `_compose`: from-top order, then every definition of the netlist not yet visited, library order -/
def visitOrder (children : Nat → List Nat) (fuel : Nat) (top : Option Nat) (all : List Nat) : List Nat × Bool :=
  match top with
  | none => (all, true)
  | some t =>
      let r := writeOrder children fuel t
      (r.1 ++ all.filter (fun d => !(r.1.contains d)), r.2)

end Spydr.Verilog
