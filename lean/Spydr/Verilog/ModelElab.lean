/-
  Verilog engine — module-level elaboration: the reader (`VerilogParser.parse_verilog`) on an abstract
  syntax tree, built on the bit-level functions of `Model.lean` (`getWires`, `populateNew`,
  `resizeCable`, `resizePort`, `connectLowAligned`, `connectAlias`, `connectAssign`), so the theorems
  about those functions speak about every connection this elaboration makes.

  Transcribed from spydrnet/parsers/verilog/parser.py: BlackboxHolder, parse_module / parse_primitive,
  parse_module_header_port(_alias), parse_port_declaration, parse_cable_declaration,
  parse_instantiation (top re-election), parse_port_map_single, connect_implicitly_mapped_ports,
  connect_wires_for_assign, create_or_update_cable / _port(_on_instance), add_blackbox_definitions.

  The model follows the code as repaired by docs/fixes/verilog_*.diff:
    header port order (the declared order is imposed on ports created earlier by a forward instance),
    top election (climbs to a module that is not instanced), exact name lookup, empty primitive body,
    assign pins counted from the least significant end.

  Wires are natural-number ids; a pin holds `none` or the id of its wire.  NO Mathlib import.
-/
import Spydr.Verilog.Model

namespace Spydr.Verilog.Elab
open Spydr.Verilog

inductive Dir | inp | out | inout | undef
  deriving DecidableEq, Repr, Inhabited

/-- expression atoms as written (constants included) -/
inductive XAtom
  | id (n : String)
  | bit (n : String) (i : Int)
  | part (n : String) (l r : Int)
  | const (c : String)
  deriving Repr, Inhabited

inductive XExpr
  | empty
  | atom (a : XAtom)
  | cat (as : List XAtom)
  deriving Repr, Inhabited

abbrev Attrs := List (String × Option String)
abbrev Params := List (String × String)

structure HPort where
  name : String
  dir : Option Dir            -- ANSI style when given
  rng : Option (Int × Int)
  alias : Option XExpr
  deriving Repr, Inhabited

inductive Item
  | portDecl (dir : Dir) (vtype : Option String) (rng : Option (Int × Int)) (name : String) (attrs : Attrs)
  | wireDecl (ty : String) (rng : Option (Int × Int)) (name : String) (attrs : Attrs)
  | inst (mod name : String) (params : Params) (attrs : Attrs) (named : Bool)
      (conns : List (Option String × XExpr))
  | assign (l r : XAtom)
  | defparam (inst key value : String)
  deriving Repr, Inhabited

structure Module where
  name : String
  prim : Bool
  attrs : Attrs
  params : Params
  header : List HPort
  items : List Item
  deriving Repr, Inhabited

/-! ### state -/

structure Port where
  name : Option String
  dir : Dir
  lower : Int
  downto : Bool
  pins : List (Option Nat)
  attrs : Option Attrs := none
  deriving Repr, Inhabited

structure Cable where
  name : String
  lower : Int
  downto : Bool
  wires : List Nat
  ctype : Option String
  attrs : Option Attrs
  deriving Repr, Inhabited

structure Inst where
  name : String
  ref : String
  params : Params
  attrs : Option Attrs
  pins : List (List (Option Nat))      -- row k = the pins of port k of the referenced definition
  deriving Repr, Inhabited

structure Def where
  name : String
  lib : Option String                 -- none: known to the black-box holder only
  primitive : Bool
  params : Params
  attrs : Option Attrs
  ports : List Port
  cables : List Cable
  insts : List Inst
  deriving Repr, Inhabited

structure St where
  defs : List Def                      -- black-box holder, in creation order
  next : Nat                           -- next wire id
  top : Option String
  acount : Nat                         -- assignment_count of the module being read
  pending : List (String × String × List XExpr)   -- deferred positional maps: (parent, instance, exprs)
  deriving Repr, Inhabited

abbrev M := Except String

def St.find (s : St) (n : String) : Option Def := s.defs.find? (fun d => d.name == n)

/-- `BlackboxHolder.get_blackbox` -/
def St.ensure (s : St) (n : String) : St :=
  match s.find n with
  | some _ => s
  | none => { s with defs := s.defs ++ [⟨n, none, false, [], none, [], [], []⟩] }

def St.upd (s : St) (n : String) (f : Def → Def) : St :=
  { s with defs := s.defs.map (fun d => if d.name == n then f d else d) }

def getDef (s : St) (n : String) : M Def :=
  match s.find n with
  | some d => pure d
  | none => throw s!"no definition {n}"

def fresh (s : St) (k : Nat) : St × List Nat :=
  ({ s with next := s.next + k }, (List.range k).map (· + s.next))

def rngL (r : Option (Int × Int)) : Option Int := r.map (·.1)
def rngR (r : Option (Int × Int)) : Option Int := r.map (·.2)

/-! ### create_or_update_cable -/

def createOrUpdateCable (s : St) (dn name : String) (l r : Option Int) (vtype : Option String)
    (defining : Bool) : M St := do
  let d ← getDef s dn
  match d.cables.find? (fun c => c.name == name) with
  | none =>
    let p := populateNew l r
    let (s, ws) := fresh s p.2.1
    let c : Cable := ⟨name, p.1, p.2.2, ws, vtype, none⟩
    pure (s.upd dn (fun d => { d with cables := d.cables ++ [c] }))
  | some c =>
    let rz := resizeCable c.lower c.wires.length l r defining
    let (s, pre) := fresh s rz.pre
    let (s, post) := fresh s rz.post
    let c' : Cable := { c with lower := rz.lower, wires := pre ++ c.wires ++ post,
                               ctype := match vtype with | some t => some t | none => c.ctype }
    pure (s.upd dn (fun d => { d with cables := d.cables.map (fun x => if x.name == name then c' else x) }))

def setCableAttrs (s : St) (dn name : String) (a : Attrs) : St :=
  s.upd dn (fun d => { d with cables := d.cables.map (fun x => if x.name == name then { x with attrs := some a } else x) })

/-! ### create_or_update_port -/

/-- index of the port named `name` -/
def portIdx (d : Def) (name : String) : Option Nat :=
  d.ports.findIdx? (fun p => p.name == some name)

/-- every instance of definition `dn` gets its row `k` rewritten by `f` (rows are created on demand) -/
def mapInstRows (s : St) (dn : String) (k : Nat) (f : List (Option Nat) → List (Option Nat)) : St :=
  { s with defs := s.defs.map (fun d => { d with insts := d.insts.map (fun i =>
      if i.ref == dn then
        let rows := i.pins ++ List.replicate (k + 1 - i.pins.length) []
        { i with pins := rows.set k (f (rows.getD k [])) }
      else i) }) }

def createOrUpdatePort (s : St) (dn : String) (name : String) (l r : Option Int) (dir : Option Dir)
    (defining : Bool) : M St := do
  let d ← getDef s dn
  match portIdx d name with
  | none =>
    let p := populateNew l r
    let port : Port := ⟨some name, dir.getD .undef, p.1, p.2.2, List.replicate p.2.1 none, none⟩
    let k := d.ports.length
    let s := s.upd dn (fun d => { d with ports := d.ports ++ [port] })
    pure (mapInstRows s dn k (fun _ => List.replicate p.2.1 none))
  | some k =>
    let port := d.ports.getD k default
    let rz := resizePort port.lower port.pins.length l r defining
    let grow := fun (row : List (Option Nat)) => List.replicate rz.pre none ++ row ++ List.replicate rz.post none
    let port' : Port := { port with lower := rz.lower, pins := grow port.pins,
                                    dir := match dir with | some x => x | none => port.dir }
    let s := s.upd dn (fun d => { d with ports := d.ports.set k port' })
    pure (mapInstRows s dn k grow)

/-! ### wires of an expression (parse_variable_instantiation + get_wires_from_cable) -/

def atomParts : XAtom → String × Option Int × Option Int
  | .id n => (n, none, none)
  | .bit n i => (n, some i, none)
  | .part n l r => (n, some l, some r)
  | .const c => ("\\<const" ++ c ++ ">", none, none)

def evalAtomE (s : St) (dn : String) (a : XAtom) : M (St × List Nat) := do
  let (n, l, r) := atomParts a
  let s ← createOrUpdateCable s dn n l r none false
  let d ← getDef s dn
  match d.cables.find? (fun c => c.name == n) with
  | none => throw "cable vanished"
  | some c =>
    match getWires ⟨c.lower, c.wires⟩ l r with
    | none => throw "index"
    | some ws => pure (s, ws)

def evalAtomsE (s : St) (dn : String) : List XAtom → M (St × List Nat)
  | [] => pure (s, [])
  | a :: as => do
    let (s, x) ← evalAtomE s dn a
    let (s, y) ← evalAtomsE s dn as
    pure (s, x ++ y)

def evalExprE (s : St) (dn : String) : XExpr → M (St × List Nat)
  | .empty => pure (s, [])
  | .atom a => evalAtomE s dn a
  | .cat as => evalAtomsE s dn as

/-! ### connecting -/

def setRow (row : List (Option Nat)) (k : Nat) (w : Nat) : M (List (Option Nat)) :=
  match setPin row k w with
  | some r => pure r
  | none => throw "pin already connected"

/-- header: `cable.wires[i].connect_pin(pin_list[i])`, pins in port order -/
def connectPortCable (s : St) (dn name : String) : M St := do
  let d ← getDef s dn
  match portIdx d name, d.cables.find? (fun c => c.name == name) with
  | some k, some c =>
    let port := d.ports.getD k default
    if port.pins.length != c.wires.length then throw "assert: pins and wires differ" else
    let pins ← (List.range c.wires.length).foldlM (fun row i => setRow row i (c.wires.getD i 0)) port.pins
    pure (s.upd dn (fun d => { d with ports := d.ports.set k { port with pins := pins } }))
  | _, _ => throw "port or cable missing"

/-- `parse_module_header_port` -/
def headerPort (s : St) (dn : String) (h : HPort) : M St := do
  let defining := h.dir.isSome
  let s ← createOrUpdatePort s dn h.name (rngL h.rng) (rngR h.rng) h.dir defining
  let d ← getDef s dn
  let port := d.ports.getD ((portIdx d h.name).getD 0) default
  let (l, r) : Option Int × Option Int :=
    match h.rng with
    | some (a, b) => (some a, some b)
    | none =>
      let hi := port.lower + (port.pins.length : Int) - 1
      if port.downto then (some hi, some port.lower) else (some port.lower, some hi)
  let s ← createOrUpdateCable s dn h.name l r none defining
  connectPortCable s dn h.name

/-- `parse_module_header_port_alias` -/
def headerAlias (s : St) (dn : String) (h : HPort) (e : XExpr) : M St := do
  let (s, ws) ← evalExprE s dn e
  let s ← createOrUpdatePort s dn h.name (some ((ws.length : Int) - 1)) (some 0) none false
  let d ← getDef s dn
  match portIdx d h.name with
  | none => throw "port missing"
  | some k =>
    let port := d.ports.getD k default
    if port.pins.length != ws.length then throw "assert: alias width" else
    -- pin_list sorted descending, wires[i] -> pin_list[i]
    let n := ws.length
    let pins ← (List.range n).foldlM (fun row i => setRow row (n - 1 - i) (ws.getD i 0)) port.pins
    pure (s.upd dn (fun d => { d with ports := d.ports.set k { port with pins := pins } }))

/-- the declared order is imposed on the ports (repair verilog_header_port_order) -/
def reorderPorts (s : St) (dn : String) (names : List String) : M St := do
  let d ← getDef s dn
  if names.length ≤ 1 || names.eraseDups.length != names.length then pure s else
  let idxs := names.filterMap (portIdx d)
  let rest := (List.range d.ports.length).filter (fun i => !(idxs.contains i))
  let perm := idxs ++ rest
  if perm == List.range d.ports.length then pure s else
  let s := s.upd dn (fun d => { d with ports := perm.map (fun i => d.ports.getD i default) })
  pure { s with defs := s.defs.map (fun x => { x with insts := x.insts.map (fun i =>
    if i.ref == dn then
      let rows := i.pins ++ List.replicate (d.ports.length - i.pins.length) []
      { i with pins := perm.map (fun j => rows.getD j []) }
    else i) }) }

/-- ports that have an inner pin on one of the wires (`get_all_ports_from_wires`) -/
def portsOnWires (d : Def) (ws : List Nat) : List Nat :=
  (List.range d.ports.length).filter (fun k =>
    (d.ports.getD k default).pins.any (fun p => match p with | some w => ws.contains w | none => false))

/-- `parse_port_declaration` (one name) -/
def portDecl (s : St) (dn : String) (dir : Dir) (vtype : Option String) (rng : Option (Int × Int))
    (name : String) (attrs : Attrs) : M St := do
  let s ← createOrUpdateCable s dn name (rngL rng) (rngR rng) vtype true
  let d ← getDef s dn
  match d.cables.find? (fun c => c.name == name) with
  | none => throw "cable vanished"
  | some c =>
    match getWires ⟨c.lower, c.wires⟩ (rngL rng) (rngR rng) with
    | none => throw "index"
    | some ws =>
      match portsOnWires d ws with
      | [] => throw "assert: port name defined in the module header"
      | [k] =>
        let pname := ((d.ports.getD k default).name).getD ""
        let s ← createOrUpdatePort s dn pname (rngL rng) (rngR rng) (some dir) true
        -- (as repaired) the attributes in front of the declaration are kept on the port
        let s := if attrs.isEmpty then s else s.upd dn (fun d => { d with ports := d.ports.map (fun p =>
          if p.name == some pname then { p with attrs := some attrs } else p) })
        let d ← getDef s dn
        match d.cables.find? (fun c => c.name == name), portIdx d pname with
        | some c, some k =>
          if c.wires.length > 1 then
            -- connect_resized_port_cable
            let port := d.ports.getD k default
            if port.pins.length != c.wires.length then throw "assert: cable and port to have same size" else
            let pins := (List.range c.wires.length).foldl (fun (row : List (Option Nat)) i =>
              match row.getD i none with
              | some _ => row
              | none => row.set i (some (c.wires.getD i 0))) port.pins
            pure (s.upd dn (fun d => { d with ports := d.ports.set k { port with pins := pins } }))
          else pure s
        | _, _ => throw "vanished"
      | ks =>
        -- several ports on this cable (alias over a vector): each gets the direction; not resized
        let s ← ks.foldlM (fun s k => createOrUpdatePort s dn (((d.ports.getD k default).name).getD "") none none (some dir) false) s
        if c.wires.length > 1 then throw "unsupported: vector cable aliased into several ports" else pure s

/-! ### instances -/

def instIdx (d : Def) (name : String) : Option Nat := d.insts.findIdx? (fun i => i.name == name)

/-- the port-map loop on row `k` of instance `iname` of `dn` -/
def connectInstRow (s : St) (dn iname : String) (k : Nat) (ws : List Nat) : M St := do
  let d ← getDef s dn
  match instIdx d iname with
  | none => throw "instance missing"
  | some ii =>
    let i := d.insts.getD ii default
    let row := i.pins.getD k []
    match connectLowAligned row ws with
    | none => throw "assert: pins length to match or exceed wires / pin already connected"
    | some row' =>
      pure (s.upd dn (fun d => { d with insts := d.insts.set ii { i with pins := i.pins.set k row' } }))

/-- `parse_port_map_single` -/
def namedConn (s : St) (dn iname ref : String) (pname : String) (e : XExpr) : M St := do
  match e with
  | .empty => createOrUpdatePort s ref pname (some 0) (some 0) none false
  | e =>
    let (s, ws) ← evalExprE s dn e
    let s ← createOrUpdatePort s ref pname (some ((ws.length : Int) - 1)) (some 0) none false
    let rd ← getDef s ref
    match portIdx rd pname with
    | none => throw "port missing"
    | some k => connectInstRow s dn iname k ws

/-- definitions that instance `n`, in creation order -/
def parentsOf (s : St) (n : String) : List String :=
  (s.defs.filter (fun d => d.insts.any (fun i => i.ref == n))).map (·.name)

/-- top re-election as repaired: climb to a definition that nobody instances -/
def climb (s : St) : Nat → String → String
  | 0, n => n
  | f + 1, n =>
    match parentsOf s n with
    | [] => n
    | p :: _ => climb s f p

def instantiate (s : St) (dn : String) (mod name : String) (params : Params) (attrs : Attrs)
    (named : Bool) (conns : List (Option String × XExpr)) : M St := do
  let s := if s.top == some mod then { s with top := some (climb s (s.defs.length + 1) dn) } else s
  let s := s.ensure mod
  let rd ← getDef s mod
  let rows := rd.ports.map (fun p => List.replicate p.pins.length (none : Option Nat))
  let i : Inst := ⟨name, mod, [], some attrs, rows⟩
  let d ← getDef s dn
  if (instIdx d name).isSome then throw "value: instance name conflict" else
  let s := s.upd dn (fun d => { d with insts := d.insts ++ [i] })
  let s ← if named then
      conns.foldlM (fun s c => match c.1 with
        | some p => namedConn s dn name mod p c.2
        | none => throw "named map without port name") s
    else pure { s with pending := s.pending ++ [(dn, name, conns.map (·.2))] }
  -- set_instance_parameters
  pure (s.upd dn (fun d => { d with insts := d.insts.map (fun i =>
    if i.name == name then { i with params := params.foldl (fun acc kv =>
      if acc.any (fun x => x.1 == kv.1) then acc else acc ++ [kv]) i.params } else i) }))

/-- `connect_implicitly_mapped_ports` for one instance -/
def positional (s : St) (dn iname : String) (es : List XExpr) : M St := do
  let d ← getDef s dn
  match instIdx d iname with
  | none => throw "instance missing"
  | some ii =>
    let ref := (d.insts.getD ii default).ref
    let rd ← getDef s ref
    let nports := rd.ports.length
    let (s, _) ← es.foldlM (fun (acc : St × Nat) e => do
      let (s, idx) := acc
      let (s, ws) ← evalExprE s dn e
      if idx ≥ nports then
        -- no such port in the list taken when this instance's turn came (a never-declared module):
        -- `reference.create_port()` + `populate_new_port(port, None, len(wires) - 1, 0, None)`: a new UNNAMED port
        -- at the end, whatever other instances have created meanwhile
        let p := populateNew (some ((ws.length : Int) - 1)) (some 0)
        let port : Port := ⟨none, .undef, p.1, p.2.2, List.replicate p.2.1 none, none⟩
        let rd ← getDef s ref
        -- only a module the file never declares (marked by `add_blackbox_definitions`) gets its ports from the maps
        -- that use it; a declared module has exactly its declared ports (docs/fixes/verilog_positional_too_many.diff)
        if !rd.primitive then throw "assert: positional port map with more expressions than the declared module has ports" else
        let k := rd.ports.length
        let s := s.upd ref (fun d => { d with ports := d.ports ++ [port] })
        let s := mapInstRows s ref k (fun _ => List.replicate p.2.1 none)
        let s ← connectInstRow s dn iname k ws
        pure (s, idx + 1)
      else
      let s ← connectInstRow s dn iname idx ws
      pure (s, idx + 1)) (s, 0)
    pure s

/-! ### assigns -/

def assignDefName (w : Nat) : String := "SDN_VERILOG_ASSIGNMENT_" ++ toString w

/-- the assignment definition of width `w` (library `SDN_VERILOG_ASSIGNMENT`).  The table is keyed by name: a module of
    that very name declared by the file itself lives in another library of the real netlist (two definitions of one
    name) — not representable here, the model refuses it. -/
def ensureAssignDef (s : St) (w : Nat) : M St :=
  match s.find (assignDefName w) with
  | some d =>
    if d.lib == some "SDN_VERILOG_ASSIGNMENT" then pure s
    else throw "unsupported: a module of the file is named like an assignment definition"
  | none =>
    let i : Port := ⟨some "i", .inp, 0, true, List.replicate w none, none⟩
    let o : Port := ⟨some "o", .out, 0, true, List.replicate w none, none⟩
    pure { s with defs := s.defs ++ [⟨assignDefName w, some "SDN_VERILOG_ASSIGNMENT", false, [], none, [i, o], [], []⟩] }

def assignStmt (s : St) (dn : String) (l r : XAtom) : M St := do
  let (s, lw) ← evalAtomE s dn l
  let (s, rw) ← evalAtomE s dn r
  let w := min lw.length rw.length
  let s ← ensureAssignDef s w
  let (o, i) := connectAssign lw rw
  let name := assignDefName w ++ "_" ++ toString s.acount
  -- the table is keyed by name: had the file itself added ports to a module of that name, the rows below would not
  -- fit it (in the real netlist that module is a different object) — refused
  let rd ← getDef s (assignDefName w)
  if rd.ports.map (fun p => p.pins.length) != [i.length, o.length] then
    throw "unsupported: the assignment definition was changed by the file" else
  let d ← getDef s dn
  -- `create_child(name=…)`: a child of that name already there is a naming conflict (ValueError)
  if (instIdx d name).isSome then throw "value: instance name conflict" else
  let inst : Inst := ⟨name, assignDefName w, [], none, [i, o]⟩
  let s := { s with acount := s.acount + 1 }
  pure (s.upd dn (fun d => { d with insts := d.insts ++ [inst] }))

/-! ### modules -/

def mergeParams (old new : Params) : Params :=
  new.foldl (fun acc kv => if acc.any (fun x => x.1 == kv.1) then acc else acc ++ [kv]) old

def elabItem (s : St) (dn : String) (prim : Bool) : Item → M St
  | .portDecl dir vt rng name attrs => portDecl s dn dir vt rng name (if prim then [] else attrs)
  | .wireDecl ty rng name attrs =>
    if prim then pure s else do
      let s ← createOrUpdateCable s dn name (rngL rng) (rngR rng) (some ty) false
      pure (setCableAttrs s dn name attrs)
  | .inst mod name params attrs named conns =>
    if prim then pure s else instantiate s dn mod name params attrs named conns
  | .assign l r => if prim then pure s else assignStmt s dn l r
  | .defparam i k v =>
    if prim then pure s else do
      -- parse_defparam_parameters: the named instance of the current definition; first value wins
      let d ← getDef s dn
      if (instIdx d i).isNone then throw "assert: identifer of existing instance" else
      pure (s.upd dn (fun d => { d with insts := d.insts.map (fun x =>
        if x.name == i then { x with params := if x.params.any (fun kv => kv.1 == k) then x.params else x.params ++ [(k, v)] } else x) }))

def elabModule (s : St) (m : Module) : M St := do
  let s := s.ensure m.name
  let d ← getDef s m.name
  if d.lib.isSome then throw "assert: definition already included in library" else
  let s := s.upd m.name (fun d => { d with lib := some (if m.prim then "hdi_primitives" else "work") })
  let s := if m.prim then s else
    { (if s.top.isNone then { s with top := some m.name } else s) with acount := 0 }
  let s := if m.params.isEmpty then s else s.upd m.name (fun d => { d with params := mergeParams d.params m.params })
  let s ← m.header.foldlM (fun s h => match h.alias with
    | some e => headerAlias s m.name h e
    | none => headerPort s m.name h) s
  let s ← reorderPorts s m.name (m.header.map (·.name))
  let s ← m.items.foldlM (fun s it => elabItem s m.name m.prim it) s
  pure (if m.attrs.isEmpty then s else s.upd m.name (fun d => { d with attrs := some m.attrs }))

/-- `parse_verilog` -/
def elabDesign (ms : List Module) : M St := do
  let s0 : St := ⟨[], 0, none, 0, []⟩
  let s ← ms.foldlM elabModule s0
  -- add_blackbox_definitions
  let s : St := { s with defs := s.defs.map (fun (d : Def) =>
    if d.lib.isNone then { d with lib := some "hdi_primitives", primitive := true } else d) }
  -- connect_implicitly_mapped_ports
  s.pending.foldlM (fun (s : St) (p : String × String × List XExpr) => positional s p.1 p.2.1 p.2.2) s

/-- wire id -> (cable, absolute index) inside one definition -/
def bitOf (d : Def) (w : Nat) : Option Bit :=
  d.cables.findSome? (fun c =>
    match c.wires.findIdx? (· == w) with
    | some k => some ⟨c.name, c.lower + (k : Int)⟩
    | none => none)

end Spydr.Verilog.Elab
