/-
  Verilog engine — `parseV`: the reader's grammar (recursive descent of `VerilogParser`) from the token
  list of `lexV` to the abstract syntax tree `elabDesign` consumes.  Together:
      text --lexV--> tokens --parseV--> modules --elabDesign--> netlist state
  Transcribed from spydrnet/parsers/verilog/parser.py (peek_token/next_token incl. the `ifdef skipping,
  parse_verilog, parse_module / parse_primitive(_body), parse_module_header(_parameters/_ports/_port/
  _port_alias), parse_module_body, parse_port_declaration, parse_cable_declaration, parse_instantiation,
  parse_parameter_mapping, parse_port_mapping, parse_assign, parse_defparam_parameters,
  parse_variable_instantiation, parse_cable_concatenation, parse_brackets, parse_star_property).
  Loops take the number of remaining tokens as fuel.  NO Mathlib import.
-/
import Spydr.Verilog.ModelElab
import Spydr.Verilog.ModelText

namespace Spydr.Verilog.Parse
open Spydr.Verilog Spydr.Verilog.Elab

abbrev Toks := List String

/-- the characters Python's `str.split()` separates at and that can occur inside a token (a token never holds a newline) -/
def isPyWs (c : Char) : Bool := c == ' ' || c == '\t' || c == '\r' || c == '\x0b' || c == '\x0c'

/-- `token.split(maxsplit=1)[0]`: the first white-space-separated word of the token (blanks AND tabs separate: a directive
    followed by a tab and a comment on its line is still that directive) -/
def firstWord (t : String) : String :=
  String.ofList ((t.toList.dropWhile isPyWs).takeWhile (fun c => !isPyWs c))

/-- `token.split(maxsplit=1)` has more than one part -/
def hasRest (t : String) : Bool :=
  let w := t.trimAscii.toString
  (w.splitOn " ").length > 1 || (w.splitOn "\t").length > 1

/-- comments removed; `` `ifdef X … `endif `` removed (all macros undefined, `else` included); `` `define `` refused -/
def preprocess : Nat → Toks → Bool → Except String Toks
  | 0, _, _ => .ok []
  | _ + 1, [], _ => .ok []
  | f + 1, t :: ts, skipping =>
    if Text.isCommentTok t then preprocess f ts skipping
    else if skipping then
      if t.startsWith "`" && firstWord t == "`endif" then preprocess f ts false else preprocess f ts true
    else if t.startsWith "`" && hasRest t && firstWord t == "`ifdef" then preprocess f ts true
    else if t.startsWith "`" && hasRest t && firstWord t == "`define" then .error "assert: define not supported"
    else do
      let r ← preprocess f ts false
      pure (t :: r)

def isLetter (c : Char) : Bool := c.isAlpha

/-- `vt.is_valid_identifier` -/
def validIdent (t : String) : Bool :=
  if t == "" then false
  else if t.startsWith "\\" && t.endsWith " " then
    !((t.toList.dropLast).any (fun c => Text.whitespace.contains c))
  else
    match t.toList with
    | [] => false
    | c :: cs => (isLetter c || c == '_') && (c :: cs).all (fun x => isLetter x || x.isDigit || x == '_')

def strip (t : String) : String := t.trimAscii.toString

/-- `VerilogParser.is_numeric` (an optional leading minus) -/
def numericTok (t : String) : Bool :=
  match t.toList with
  | '-' :: cs => cs.all Char.isDigit
  | cs => cs.all Char.isDigit

def toInt (t : String) : Except String Int :=
  match t.toInt? with
  | some i => .ok i
  | none => .error "value: int()"

def next : Toks → Except String (String × Toks)
  | [] => .error "runtime: StopIteration"
  | t :: ts => .ok (t, ts)

def peek : Toks → Except String String
  | [] => .error "runtime: StopIteration"
  | t :: _ => .ok t

def expect (s : String) (ts : Toks) : Except String Toks := do
  let (t, ts) ← next ts
  if t == s then pure ts else throw s!"assert: expected {s} got {t}"

/-- `parse_brackets` -/
def brackets (ts : Toks) : Except String ((Int × Option Int) × Toks) := do
  let ts ← expect "[" ts
  let (a, ts) ← next ts
  if !numericTok a then throw "assert: number after [" else
  let l ← toInt a
  let (t, ts) ← next ts
  if t == "]" then pure ((l, none), ts) else
  if t != ":" then throw "assert: ] or :" else
  let (b, ts) ← next ts
  if !numericTok b then throw "assert: number after :" else
  let r ← toInt b
  let ts ← expect "]" ts
  pure ((l, some r), ts)

/-- `parse_variable_instantiation` (without the cable side effects) -/
def atom (ts : Toks) : Except String (XAtom × Toks) := do
  let (t, ts) ← next ts
  let cs := t.toList
  let mk : Except String (String ⊕ String) :=      -- inl: constant digit, inr: name
    match cs with
    | '1' :: rest =>
      match rest with
      | '\'' :: 'b' :: v :: _ =>
        if ['0', '1', 'x', 'X', 'z', 'Z'].contains v then .ok (.inl (String.singleton v)) else .error "assert: constant value"
      | _ => .error "assert: constant form"
    | c :: _ => if c.isDigit then .error "assert: multibit constants not supported" else .ok (.inr t)
    | [] => .error "index: empty token"
  match ← mk with
  | .inl v =>
    -- the constant becomes the cable \<constV> ; brackets may follow like on any name
    match ts with
    | "[" :: _ => do
      let (_, _) ← brackets ts
      throw "unsupported: select on a constant"
    | _ => pure (.const v, ts)
  | .inr n =>
    if !validIdent n then throw "assert: valid identifier" else
    match ts with
    | "[" :: _ => do
      let ((l, r), ts) ← brackets ts
      match r with
      | none => pure (.bit (strip n) l, ts)
      | some r => pure (.part (strip n) l r, ts)
    | _ => pure (.id (strip n), ts)

/-- `parse_cable_concatenation` -/
def concatGo : Nat → Toks → List XAtom → Except String ((List XAtom) × Toks)
  | 0, _, _ => .error "fuel"
  | f + 1, ts, acc => do
    let t ← peek ts
    if t == "}" then
      let (_, ts) ← next ts
      pure (acc, ts)
    else
      let (a, ts) ← atom ts
      let (t, ts) ← next ts
      if t == "," then concatGo f ts (acc ++ [a])
      else if t == "}" then pure (acc ++ [a], ts)
      else throw "assert: } to end cable concatenation"

def concat (ts : Toks) : Except String ((List XAtom) × Toks) := do
  let ts ← expect "{" ts
  -- the loop of the original peeks for '}' only before the first atom and after a comma
  concatGo (ts.length + 1) ts []

/-- the expression of a port map entry or alias -/
def expr (ts : Toks) : Except String (XExpr × Toks) := do
  let t ← peek ts
  if t == "{" then
    let (as, ts) ← concat ts
    pure (.cat as, ts)
  else
    let (a, ts) ← atom ts
    pure (.atom a, ts)

/-- `parse_star_property`: `(* k [= v…] , … *)` -/
def starGo : Nat → Toks → Attrs → Except String (Attrs × Toks)
  | 0, _, _ => .error "fuel"
  | f + 1, ts, acc => do
    let (t, ts) ← next ts
    if t == "*" then pure (acc, t :: ts) else
    if !validIdent t then throw "assert" else
    let key := strip t
    let (t2, ts) ← next ts
    if t2 != "=" && t2 != "*" && t2 != "," then throw "assert: = or * or ," else
    if t2 == "=" then
      -- value: tokens up to '*' or ','
      let rec val : Nat → Toks → String → Except String ((String × String) × Toks)
        | 0, _, _ => .error "fuel"
        | g + 1, ts, v => do
          let (x, ts) ← next ts
          if x == "*" || x == "," then pure ((v, x), ts) else val g ts (v ++ x)
      let ((v, stop), ts) ← val (ts.length + 1) ts ""
      let acc := (acc.filter (fun kv => kv.1 != key)) ++ [(key, some v)]
      if stop == "*" then pure (acc, "*" :: ts) else starGo f ts acc
    else
      let acc := (acc.filter (fun kv => kv.1 != key)) ++ [(key, none)]
      if t2 == "*" then pure (acc, "*" :: ts) else starGo f ts acc

def star (ts : Toks) : Except String (Attrs × Toks) := do
  let ts ← expect "(" ts
  let ts ← expect "*" ts
  let (a, ts) ← starGo (ts.length + 1) ts []
  let ts ← expect "*" ts
  let ts ← expect ")" ts
  pure (a, ts)

def mergeAttrs (a b : Attrs) : Attrs :=
  b.foldl (fun acc kv => (acc.filter (fun x => x.1 != kv.1)) ++ [kv]) a

def dirOf (t : String) : Option Dir :=
  if t == "input" then some .inp else if t == "output" then some .out else if t == "inout" then some .inout else none

/-- `parse_module_header_parameters` -/
def headerParamsGo : Nat → Toks → Params → Except String (Params × Toks)
  | 0, _, _ => .error "fuel"
  | f + 1, ts, acc => do
    -- at entry the current token (already read) is `parameter`
    let t ← peek ts
    let (key0, ts) ← if t == "[" then do
        let ((l, r), ts) ← brackets ts
        match r with
        | some r => pure (s!"[{l}:{r}] ", ts)
        | none => pure (s!"[{l}] ", ts)
      else pure ("", ts)
    let (n, ts) ← next ts
    if !validIdent n then throw "assert: identifier in parameter list" else
    let key := key0 ++ strip n
    let (t, ts) ← next ts
    let (key, t, ts) ← if key == "integer" then do
        let (t2, ts) ← next ts
        pure (key ++ " " ++ t, t2, ts)
      else pure (key, t, ts)
    if t != "=" then throw "assert: = in parameter list" else
    let (v, ts) ← next ts
    let acc := if acc.any (fun kv => kv.1 == key) then acc.map (fun kv => if kv.1 == key then (key, v) else kv) else acc ++ [(key, v)]
    let (t, ts) ← next ts
    if t == "," then do
      let ts ← expect "parameter" ts
      headerParamsGo f ts acc
    else if t == ")" then pure (acc, ts)
    else throw "assert: ) to end parameter declarations"

def headerParams (ts : Toks) : Except String (Params × Toks) := do
  let ts ← expect "#" ts
  let ts ← expect "(" ts
  let (t, ts) ← next ts
  if t == ")" then pure ([], ts) else
  if t != "parameter" then throw "assert: parameter" else
  headerParamsGo (ts.length + 1) ts []

/-- `parse_module_header_ports` (after the opening parenthesis) -/
def headerPortsGo : Nat → Toks → List HPort → Except String ((List HPort) × Toks)
  | 0, _, _ => .error "fuel"
  | f + 1, ts, acc => do
    let t ← peek ts
    if t == ")" then pure (acc, ts) else
    let (h, ts) ← (if t == "." then do
        let (_, ts) ← next ts
        let (n, ts) ← next ts
        if !validIdent n then throw "assert: identifier for port in port aliasing" else
        let ts ← expect "(" ts
        let (e, ts) ← expr ts
        let ts ← expect ")" ts
        pure ((⟨strip n, none, none, some e⟩ : HPort), ts)
      else do
        let (d, ts) ← match dirOf t with
          | some d => do let (_, ts) ← next ts; pure (some d, ts)
          | none => pure (none, ts)
        let t ← peek ts
        let (rng, ts) ← if t == "[" then do
            let ((l, r), ts) ← brackets ts
            match r with
            | some r => pure (some (l, r), ts)
            | none => throw "unsupported: single index in a port declaration"
          else pure (none, ts)
        let (n, ts) ← next ts
        if !validIdent n then throw "assert: identifier for port declaration" else
        pure ((⟨strip n, d, rng, none⟩ : HPort), ts))
    let t ← peek ts
    if t == ")" then pure (acc ++ [h], ts) else
    if t != "," then throw "assert: , to separate port declarations" else
    let (_, ts) ← next ts
    headerPortsGo f ts (acc ++ [h])

def header (ts : Toks) : Except String ((Params × List HPort) × Toks) := do
  let t ← peek ts
  let (ps, ts) ← if t == "#" then headerParams ts else pure ([], ts)
  let ts ← expect "(" ts
  let (hs, ts) ← headerPortsGo (ts.length + 1) ts []
  let ts ← expect ")" ts
  let ts ← expect ";" ts
  pure ((ps, hs), ts)

/-- names of `parse_port_declaration`: `n , n , … ;` -/
def namesGo : Nat → Toks → List String → Except String ((List String) × Toks)
  | 0, _, _ => .error "fuel"
  | f + 1, ts, acc => do
    let (t, ts) ← next ts
    if t == "," then do
      let (n, ts) ← next ts
      namesGo f ts (acc ++ [strip n])
    else if t == ";" then pure (acc, ts)
    else throw "assert: ; to end port declaration"

/-- `parse_port_declaration` -> one item per name -/
def portDeclP (attrs : Attrs) (ts : Toks) : Except String ((List Item) × Toks) := do
  let (t, ts) ← next ts
  match dirOf t with
  | none => throw "assert: direction keyword"
  | some d =>
    let t ← peek ts
    let (vt, ts) ← if t == "reg" || t == "wire" then do let (_, ts) ← next ts; pure (some t, ts) else pure (none, ts)
    let t ← peek ts
    let (rng, ts) ← if t == "[" then do
        let ((l, r), ts) ← brackets ts
        match r with
        | some r => pure (some (l, r), ts)
        | none => throw "unsupported: single index in a port declaration"
      else pure (none, ts)
    let (n, ts) ← next ts
    if !validIdent n then throw "assert: port identifier" else
    let (names, ts) ← namesGo (ts.length + 1) ts [strip n]
    pure (names.map (fun x => Item.portDecl d vt rng x attrs), ts)

/-- `parse_cable_declaration` (as repaired): the range and the attributes belong to every name of the list;
    a name may still bring its own brackets -/
def cableDeclGo : Nat → Toks → String → Attrs → Option (Int × Int) → List Item → Except String ((List Item) × Toks)
  | 0, _, _, _, _, _ => .error "fuel"
  | f + 1, ts, ty, attrs, prev, acc => do
    let t ← peek ts
    let (rng, ts) ← if t == "[" then do
        let ((l, r), ts) ← brackets ts
        match r with
        | some r => pure (some (l, r), ts)
        | none => throw "unsupported: single index in a cable declaration"
      else pure (prev, ts)
    let (n, ts) ← next ts
    if !validIdent n then throw "assert: valid cable identifier" else
    let acc := acc ++ [Item.wireDecl ty rng (strip n) attrs]
    let (t, ts) ← next ts
    if t == "," then cableDeclGo f ts ty attrs rng acc
    else if t == ";" then pure (acc, ts)
    else throw "assert: ; to end cable declaration"

/-- `parse_parameter_mapping` -/
def paramMapGo : Nat → Toks → Params → Except String (Params × Toks)
  | 0, _, _ => .error "fuel"
  | f + 1, ts, acc => do
    let ts ← expect "." ts
    let (k, ts) ← next ts
    if !validIdent k then throw "assert: valid parameter identifier" else
    let ts ← expect "(" ts
    let (v, ts) ← next ts
    let ts ← expect ")" ts
    let key := strip k
    let acc := if acc.any (fun kv => kv.1 == key) then acc.map (fun kv => if kv.1 == key then (key, v) else kv) else acc ++ [(key, v)]
    let (t, ts) ← next ts
    if t == ")" then pure (acc, ts)
    else if t == "," then paramMapGo f ts acc
    else throw "assert: , or ) in parameter mapping"

def paramMap (ts : Toks) : Except String (Params × Toks) := do
  let ts ← expect "#" ts
  let ts ← expect "(" ts
  let t ← peek ts
  if t == ")" then do let (_, ts) ← next ts; pure ([], ts)
  else paramMapGo (ts.length + 1) ts []

/-- named port map entries after the opening parenthesis -/
def namedMapGo : Nat → Toks → List (Option String × XExpr) → Except String ((List (Option String × XExpr)) × Toks)
  | 0, _, _ => .error "fuel"
  | f + 1, ts, acc => do
    let ts ← expect "." ts
    let (p, ts) ← next ts
    if !validIdent p then throw "assert: valid port identifier" else
    let ts ← expect "(" ts
    let t ← peek ts
    let (e, ts) ← if t == ")" then pure (XExpr.empty, ts) else expr ts
    let ts ← expect ")" ts
    let acc := acc ++ [(some (strip p), e)]
    let (t, ts) ← next ts
    if t == ")" then pure (acc, ts)
    else if t == "," then namedMapGo f ts acc
    else throw "assert: , or ) in port mapping"

/-- deferred positional map: expressions separated by commas -/
def posMapGo : Nat → Toks → List (Option String × XExpr) → Except String ((List (Option String × XExpr)) × Toks)
  | 0, _, _ => .error "fuel"
  | f + 1, ts, acc => do
    let (e, ts) ← expr ts
    let acc := acc ++ [(none, e)]
    let (t, ts) ← next ts
    if t == ")" then pure (acc, ts)
    else if t == "," then posMapGo f ts acc
    else throw "assert: ) to end cable name in port mapping"

/-- `parse_instantiation` -/
def instP (attrs : Attrs) (ts : Toks) : Except String (Item × Toks) := do
  let (m, ts) ← next ts
  if !validIdent m then throw "assert: module identifier" else
  let t ← peek ts
  let (ps, ts) ← if t == "#" then paramMap ts else pure ([], ts)
  let (n, ts) ← next ts
  if !validIdent n then throw "assert: instance name" else
  let ts ← expect "(" ts
  let t ← peek ts
  if t == "." then do
    let (cs, ts) ← namedMapGo (ts.length + 1) ts []
    let ts ← expect ";" ts
    pure (.inst (strip m) (strip n) ps attrs true cs, ts)
  else if t == ")" then do
    let (_, ts) ← next ts
    let ts ← expect ";" ts
    pure (.inst (strip m) (strip n) ps attrs false [], ts)
  else do
    let (cs, ts) ← posMapGo (ts.length + 1) ts []
    let ts ← expect ";" ts
    pure (.inst (strip m) (strip n) ps attrs false cs, ts)

/-- `parse_module_body` -/
def bodyGo : Nat → Toks → Attrs → List Item → Except String ((List Item) × Toks)
  | 0, _, _, _ => .error "fuel"
  | f + 1, ts, pend, acc => do
    let t ← peek ts
    if t == "endmodule" then do
      let (_, ts) ← next ts
      pure (acc, ts)
    else if (dirOf t).isSome then do
      let (its, ts) ← portDeclP pend ts
      bodyGo f ts [] (acc ++ its)
    else if t == "wire" || t == "reg" || t == "tri0" || t == "tri1" then do
      let (_, ts) ← next ts
      let (its, ts) ← cableDeclGo (ts.length + 1) ts t pend none []
      bodyGo f ts [] (acc ++ its)
    else if t == "assign" then do
      let (_, ts) ← next ts
      let (l, ts) ← atom ts
      let ts ← expect "=" ts
      let (r, ts) ← atom ts
      let ts ← expect ";" ts
      bodyGo f ts pend (acc ++ [.assign l r])
    else if t == "defparam" then do
      let (_, ts) ← next ts
      let (i, ts) ← next ts
      if !validIdent i then throw "assert: valid identifier of an instance" else
      let ts ← expect "." ts
      let (k, ts) ← next ts
      let ts ← expect "=" ts
      let (v, ts) ← next ts
      let ts ← expect ";" ts
      bodyGo f ts pend (acc ++ [.defparam (strip i) k v])
    else if validIdent t then do
      let (it, ts) ← instP pend ts
      bodyGo f ts [] (acc ++ [it])
    else if t == "(" then do
      let (a, ts) ← star ts
      bodyGo f ts (mergeAttrs pend a) acc
    else throw "assert: direction, reg, wire, star_properties, or instance identifier"

/-- `parse_primitive_body` (as repaired: an empty body is accepted) -/
def primBodyGo : Nat → Toks → List Item → Except String ((List Item) × Toks)
  | 0, _, _ => .error "fuel"
  | f + 1, ts, acc => do
    let t ← peek ts
    if t == "endmodule" || t == "endprimitive" then do
      let (_, ts) ← next ts
      pure (acc, ts)
    else if t == "function" || t == "task" then do
      let stop := if t == "function" then "endfunction" else "endtask"
      let rec skip : Nat → Toks → Except String Toks
        | 0, _ => .error "fuel"
        | g + 1, ts => do
          let (x, ts) ← next ts
          if x == stop then pure ts else skip g ts
      let ts ← skip (ts.length + 1) ts
      primBodyGo f ts acc
    else if (dirOf t).isSome then do
      let (its, ts) ← portDeclP [] ts
      primBodyGo f ts (acc ++ its)
    else do
      let (_, ts) ← next ts
      primBodyGo f ts acc

def moduleP (prim : Bool) (attrs : Attrs) (ts : Toks) : Except String (Module × Toks) := do
  let ts ← expect "module" ts
  let (n, ts) ← next ts
  if !validIdent n then throw "assert: not a valid module name" else
  let ((ps, hs), ts) ← header ts
  let (items, ts) ← if prim then primBodyGo (ts.length + 1) ts [] else bodyGo (ts.length + 1) ts [] []
  pure (⟨strip n, prim, attrs, ps, hs, items⟩, ts)

/-- `parse_verilog` (top level) -/
def topGo : Nat → Toks → Bool → Attrs → List Module → Except String (List Module)
  | 0, _, _, _, _ => .error "fuel"
  | _ + 1, [], _, _, acc => .ok acc
  | f + 1, t :: ts, prim, pend, acc =>
    let w := firstWord t
    if w == "`celldefine" then topGo f ts true pend acc
    else if w == "`endcelldefine" then topGo f ts false pend acc
    else if t == "module" then
      match moduleP prim pend (t :: ts) with
      | .error e => .error e
      | .ok (m, ts) => topGo f ts prim [] (acc ++ [m])
    else if t == "primitive" then
      let rec skip : Nat → Toks → Except String Toks
        | 0, _ => .error "fuel"
        | g + 1, ts => match ts with
          | [] => .error "runtime: StopIteration"
          | x :: ts => if x == "endprimitive" then .ok ts else skip g ts
      match skip (ts.length + 1) ts with
      | .error e => .error e
      | .ok ts => topGo f ts prim [] acc
    else if t == "(" then
      match star (t :: ts) with
      | .error e => .error e
      | .ok (a, ts) => topGo f ts prim (mergeAttrs pend a) acc
    else if w == "`timescale" then topGo f ts prim pend acc
    else .error "assert: something at the top level of the file"

def parseV (tokens : Toks) : Except String (List Module) := do
  let ts ← preprocess (tokens.length + 1) tokens false
  topGo (ts.length + 1) ts false [] []

/-- the whole reader from characters: `elabDesign (parseV (lexV text))` -/
def readV (text : String) : Except String St := do
  let ms ← parseV (Text.lexV text)
  elabDesign ms

end Spydr.Verilog.Parse
