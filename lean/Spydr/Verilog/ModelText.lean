/-
  Verilog engine — character level: the tokenizer (`TokenFactory` automaton) and the writer's text
  (`Composer._compose` with the exact spacing), so that the tie to the code includes the characters.

  Transcribed from spydrnet/parsers/verilog/verilog_token_factory.py, verilog_tokens.py and
  spydrnet/composers/verilog/composer.py.  The expression choice inside the text is the bit-level
  `emitPortExpr` / `emitHeaderPort` / `emitAssign` of Model.lean (the functions the theorems are about).
  The writer model follows the code as repaired (names that are not simple identifiers are escaped).
  NO Mathlib import.
-/
import Spydr.Verilog.Model

namespace Spydr.Verilog.Text
open Spydr.Verilog

/-! ## lexV : the TokenFactory automaton -/

def whitespace : List Char := [' ', '\t', '\n', '\r', '\x0c']
def singleCharTokens : List String := ["(", ")", "*", ";", ".", "[", "]", "{", "}", ":", ",", "#", "'", "="]
def breakers : List Char := [' ', '\t', '\n', '\r', '\x0c', '(', ')', ',', ';', '[', ']', ':', '{', '}', '*', '#', '=',
  '\\', '"', '`']

def isNumericS (s : String) : Bool := !s.isEmpty && s.toList.all Char.isDigit

structure TF where
  buffer : String := ""
  slc : Bool := false       -- single_line_comment
  mlc : Bool := false       -- multi_line_comment
  str : Bool := false
  esc : Bool := false
  dir : Bool := false
  last : String := ""       -- last_character ("" after a consumed character)
  deriving Repr, Inhabited

def TF.anyFlag (t : TF) : Bool := t.slc || t.mlc || t.str || t.esc || t.dir

def TF.setFlags (t : TF) : TF :=
  if t.buffer.length ≤ 2 && !t.anyFlag then
    if t.buffer == "//" then { t with slc := true }
    else if t.buffer == "/*" then { t with mlc := true }
    else if t.buffer == "\"" then { t with str := true }
    else if t.buffer == "\\" then { t with esc := true }
    else if t.buffer == "`" then { t with dir := true }
    else t
  else t

/-- `add_character`: new state and the token that ended, if any -/
def TF.add (t : TF) (c : Char) : TF × Option String :=
  let cs := String.singleton c
  -- first: does a token end?
  let (t1, out, ch) : TF × Option String × String :=
    if singleCharTokens.contains t.buffer then ({ t with buffer := "" }, some t.buffer, cs)
    else if t.slc && c == '\n' then ({ t with buffer := "", slc := false }, some t.buffer, cs)
    else if t.mlc && t.last == "*" && c == '/' then ({ t with buffer := "", mlc := false }, some (t.buffer ++ cs), "")
    else if t.esc && whitespace.contains c then ({ t with buffer := "", esc := false }, some (t.buffer ++ " "), cs)
    else if t.str && c == '"' then ({ t with buffer := "", str := false }, some (t.buffer ++ cs), "")
    else if t.dir && c == '\n' then ({ t with buffer := "", dir := false }, some t.buffer, cs)
    else if c == '*' && t.last == "/" then (t, none, cs)
    else if breakers.contains c && !t.anyFlag && t.buffer.length != 0 then ({ t with buffer := "" }, some t.buffer, cs)
    else if c == '.' && !t.anyFlag && t.buffer.length != 0 && !isNumericS t.buffer then
      ({ t with buffer := "" }, some t.buffer, cs)
    else (t, none, cs)
  -- then: the character joins the buffer
  let isWs := ch.length == 1 && whitespace.contains c
  let t2 : TF :=
    if !isWs then { t1 with buffer := t1.buffer ++ ch }
    else if t1.slc || t1.mlc || t1.str || t1.dir then { t1 with buffer := t1.buffer ++ ch }
    else t1
  let t3 := { t2 with last := ch }
  let wasMlc := t3.mlc
  let t4 := t3.setFlags
  let t5 := if t4.mlc && !wasMlc then { t4 with last := "" } else t4
  (t5, out)

/-- all tokens of a text (comments and directives included, as the tokenizer's generator yields them) -/
def lexV (text : String) : List String :=
  let (t, acc) := text.toList.foldl (fun (st : TF × List String) c =>
    let (t', o) := st.1.add c
    (t', match o with | some tok => tok :: st.2 | none => st.2)) (({} : TF), [])
  let acc := if t.buffer == "" then acc else t.buffer :: acc
  acc.reverse

def isCommentTok (t : String) : Bool := t.startsWith "//" || t.startsWith "/*"

/-! ## the netlist as the writer sees it -/

abbrev Attrs := List (String × Option String)

structure WPort where
  name : Option String
  dir : String                 -- IN / OUT / INOUT / UNDEFINED
  lower : Int
  width : Nat
  pins : List (Option Bit)     -- inner pins
  attrs : Option Attrs
  deriving Repr, Inhabited

structure WCable where
  name : String
  lower : Int
  width : Nat
  ctype : Option String
  attrs : Option Attrs
  deriving Repr, Inhabited

structure WInst where
  name : String
  ref : String
  params : Option (List (String × String))
  attrs : Option Attrs
  pins : List (List (Option Bit))
  deriving Repr, Inhabited

structure WDef where
  name : String
  lib : String
  params : Option (List (String × Option String))
  attrs : Option Attrs
  ports : List WPort
  cables : List WCable
  insts : List WInst
  deriving Repr, Inhabited

structure WNet where
  name : String
  top : Option String
  defs : List WDef             -- library order, definitions in library order
  deriving Repr, Inhabited

structure Opts where
  defList : Option (List String)
  writeBlackbox : Bool
  defparam : Bool
  deriving Repr, Inhabited

def lettersOrUnderscore (c : Char) : Bool := c.isAlpha || c == '_'

/-- `vt.is_valid_identifier` restricted to non-escaped names -/
def simpleIdent (n : String) : Bool :=
  match n.toList with
  | [] => false
  | c :: cs => lettersOrUnderscore c && cs.all (fun x => x.isAlpha || x.isDigit || x == '_')

/-- `_fix_name` (repaired): escaped names get their blank, other non-identifiers are escaped -/
def fixName (n : String) : String :=
  if n.startsWith "\\" then (if n.endsWith " " then n else n ++ " ")
  else if simpleIdent n then n
  else "\\" ++ n ++ " "

def dirString : String → String
  | "IN" => "input"
  | "OUT" => "output"
  | "INOUT" => "inout"
  | _ => "/* undefined port direction */ inout"

def starConstraints (a : Option Attrs) : String :=
  match a with
  | none => ""
  | some [] => ""
  | some l =>
    let items := l.map (fun (kv : String × Option String) => match kv.2 with
      | some v => kv.1 ++ " = " ++ v
      | none => kv.1)
    "(* " ++ ", ".intercalate items ++ " *)\n"

def showInt (i : Int) : String := toString i

def atomText : Atom → String
  | .id n => fixName n
  | .bit n i => fixName n ++ "[" ++ showInt i ++ "]"
  | .part n l r => fixName n ++ "[" ++ showInt l ++ ":" ++ showInt r ++ "]"

def concatText (as : List Atom) : String := "{" ++ ", ".intercalate (as.map atomText) ++ "}"

def bracketsDefining (lower : Int) (width : Nat) : Option String :=
  match emitDeclRange lower width with
  | none => some ""
  | some (m, l) => if width = 0 then none else some ("[" ++ showInt m ++ ":" ++ showInt l ++ "]")

def envOf (d : WDef) : CableEnv := fun n => (d.cables.find? (fun c => c.name == n)).map (fun c => (c.lower, c.width))

/-- text or an error (the writer raises) -/
abbrev W := Except String

def headerPortText (d : WDef) (p : WPort) : W String := do
  let n ← match p.name with | some n => pure n | none => throw "name of o is not set"
  match emitHeaderPort (envOf d) n p.pins with
  | none => throw "assert"
  | some none => pure ("    " ++ fixName n)
  | some (some as) => pure ("    ." ++ fixName n ++ "(" ++ concatText as ++ ")")

/-- `_all_wires_and_cables_from_pinset`: cables in first-seen order -/
def cablesOfPins (pins : List (Option Bit)) : List String :=
  pins.foldl (fun acc p => match p with
    | some b => if acc.contains b.cable then acc else acc ++ [b.cable]
    | none => acc) []

/-- `_write_module_body_ports` -/
def bodyPortsText (d : WDef) : W String := do
  let (txt, _) ← d.ports.foldlM (fun (acc : String × List String) p => do
    let (txt, written) := acc
    let cs := cablesOfPins p.pins
    -- (name, lower, width) of what is declared: the cables on the port's pins, or the port itself
    let decls : List (String × Int × Nat) ←
      if cs.isEmpty then
        match p.name with
        | some n => pure [(n, p.lower, p.width)]
        | none => throw "name of o is not set"
      else pure (cs.filterMap (fun c => (d.cables.find? (fun x => x.name == c)).map (fun x => (x.name, x.lower, x.width))))
    decls.foldlM (fun (acc : String × List String) dc => do
      let (txt, written) := acc
      if written.contains dc.1 then pure (txt, written) else
      match bracketsDefining dc.2.1 dc.2.2 with
      | none => throw "assert: bundle has 0 width"
      | some br =>
        pure (txt ++ starConstraints p.attrs ++ "    " ++ dirString p.dir ++ " " ++ br ++ fixName dc.1 ++ ";\n", written ++ [dc.1])) (txt, written)) ("", [])
  pure (txt ++ "\n")

def bodyCablesText (d : WDef) : W String := do
  let t ← d.cables.reverse.foldlM (fun (txt : String) c =>
    match bracketsDefining c.lower c.width with
    | none => throw "assert: bundle has 0 width"
    | some br => pure (txt ++ starConstraints c.attrs ++ "    " ++ c.ctype.getD "wire" ++ " " ++ br ++ fixName c.name ++ ";\n")) ""
  pure (t ++ "\n")

def refOf (n : WNet) (name : String) : Option WDef := n.defs.find? (fun d => d.name == name)

def assignsText (n : WNet) (d : WDef) : W String :=
  d.insts.foldlM (fun (txt : String) i =>
    match refOf n i.ref with
    | some r =>
      if r.lib != "SDN_VERILOG_ASSIGNMENT" then pure txt else
      let idx (nm : String) := r.ports.findIdx? (fun p => p.name == some nm)
      match idx "i", idx "o" with
      | some ki, some ko =>
        match emitAssign (envOf d) (i.pins.getD ko []) (i.pins.getD ki []) with
        | some (l, rr) => pure (txt ++ "assign " ++ atomText l ++ " = " ++ atomText rr ++ ";\n")
        | none => throw "assert: assignment"
      | _, _ => throw "assert: instance does not appear to be an assignment"
    | none => throw "attribute: reference") ""

def instParamsText (ps : List (String × String)) : String :=
  "#(\n" ++ ",\n".intercalate (ps.map (fun kv => "        ." ++ kv.1 ++ "(" ++ kv.2 ++ ")")) ++ "\n    )\n"

def instPortText (d : WDef) (p : WPort) (pins : List (Option Bit)) : W String := do
  match p.name with
  | some pn =>
    match emitPortExpr (envOf d) pins with
    | none => throw "writer raises on this port"
    | some .empty => pure ("        ." ++ fixName pn ++ "()")
    | some (.atom a) => pure ("        ." ++ fixName pn ++ "(" ++ atomText a ++ ")")
    | some (.concat as) => pure ("        ." ++ fixName pn ++ "(" ++ concatText as ++ ")")
  | none => throw "unsupported: unnamed port"

def instancesText (n : WNet) (o : Opts) (d : WDef) : W String :=
  d.insts.foldlM (fun (txt : String) i => do
    match refOf n i.ref with
    | none => throw "attribute: reference"
    | some r =>
      if r.lib == "SDN_VERILOG_ASSIGNMENT" then pure txt else
      let head := starConstraints i.attrs ++ "    " ++ fixName r.name ++ " " ++
        (if !o.defparam then (match i.params with
          | some ps => instParamsText ps ++ "    "
          | none => "") else "") ++ fixName i.name ++ "\n"
      let ports ← (List.range r.ports.length).mapM (fun k => instPortText d (r.ports.getD k default) (i.pins.getD k []))
      let body := "    (\n" ++ ",\n".intercalate ports ++ "\n    );"
      let dp := if o.defparam then (match i.params with
          | some ps => String.join (ps.map (fun kv => "    defparam " ++ fixName i.name ++ "." ++ kv.1 ++ "=" ++ kv.2 ++ ";\n"))
          | none => "") else ""
      pure (txt ++ head ++ body ++ "\n" ++ dp)) ""

def moduleParamsText (ps : List (String × Option String)) : String :=
  "#(" ++ ",".intercalate (ps.map (fun kv => "\n    parameter " ++ kv.1 ++ (match kv.2 with
    | some v => " = " ++ v
    | none => ""))) ++ "\n)"

/-- `_write_module` -/
def moduleText (n : WNet) (o : Opts) (d : WDef) : W String := do
  match o.defList with
  | some l => if !l.isEmpty && !l.contains d.name then return "" else pure ()
  | none => pure ()
  if d.lib == "SDN_VERILOG_ASSIGNMENT" then return ""
  let prim := d.lib == "hdi_primitives"
  if prim && !o.writeBlackbox then return ""
  let hdrPorts ← d.ports.mapM (headerPortText d)
  let header := "module " ++ fixName d.name ++ "\n" ++
    (match d.params with | some ps => moduleParamsText ps | none => "") ++
    "(" ++ ",".intercalate (hdrPorts.map (fun s => "\n" ++ s)) ++ "\n);\n" ++ "\n"
  let bp ← bodyPortsText d
  let rest ← if prim then pure "" else do
    let c ← bodyCablesText d
    let a ← assignsText n d
    let i ← instancesText n o d
    pure (c ++ a ++ i)
  pure ((if prim then "`celldefine\n" else "") ++ starConstraints d.attrs ++ header ++ bp ++ rest ++ "endmodule" ++
    (if prim then "\n`endcelldefine" else "") ++ "\n\n")

/-- `_compose`: header comment, from-top order, then the remaining definitions -/
def composeV (n : WNet) (o : Opts) : W (String × Bool) := do
  let idxOf (name : String) : Option Nat := n.defs.findIdx? (fun d => d.name == name)
  let children : Nat → List Nat := fun k =>
    ((n.defs.getD k default).insts.filterMap (fun i => idxOf i.ref))
  let fuel := 2 + n.defs.length + (n.defs.map (fun d => d.insts.length)).sum
  let top := n.top.bind idxOf
  let (order, fin) := visitOrder children fuel top (List.range n.defs.length)
  let mods ← order.mapM (fun k => moduleText n o (n.defs.getD k default))
  pure ("//Generated from netlist by SpyDrNet\n//netlist name: " ++ fixName n.name ++ "\n" ++ String.join mods, fin)

end Spydr.Verilog.Text
