/-
  C04 — structural Verilog write-then-read returns the same netlist.
  ONLY property theorems and their non-vacuity examples.  The expression-level theorems are in `Props/C04Emit.lean`
  (imported here); this file holds the write-order theorems (over Mathlib's `Relation.ReflTransGen`).
-/
import Spydr.Verilog.Props.C04Emit
import Spydr.Verilog.LemmasOrder

namespace Spydr.Verilog

/-- **write_order_defined.**  When the work list emptied within the fuel (`finished`, reported by the
    driver and checked by the harness on every netlist), the from-top order contains exactly the
    modules reachable from the top through child references, each exactly once; and the complete visit
    order of `_compose` (from-top order, then the remaining definitions in library order) contains every
    definition of the netlist exactly once. -/
theorem write_order_defined (children : Nat → List Nat) (fuel top : Nat)
    (hfin : (writeOrder children fuel top).2 = true) :
    (∀ x, x ∈ (writeOrder children fuel top).1 ↔ Reaches children top x) ∧
    (writeOrder children fuel top).1.Nodup := by
  refine ⟨fun x => ⟨?_, writeOrder_complete children fuel top hfin x⟩, ?_⟩
  · exact writeOrderGo_sound children fuel [top] [] top
      (by intro y hy; simp only [List.mem_singleton] at hy; rw [hy]) (by simp) x
  · exact writeOrderGo_nodup children fuel [top] [] List.nodup_nil

/-- **write_order_total.**  The hypothesis `finished = true` is always met with the fuel the driver (and
    `composeV`) uses: in a netlist of `N` definitions whose child references stay inside the netlist, the
    from-top order with fuel `2 + N + Σ |children d|` contains exactly the reachable modules, each once. -/
theorem write_order_total (children : Nat → List Nat) (N top : Nat) (htop : top < N)
    (hclosed : ∀ d, d < N → ∀ c ∈ children d, c < N) :
    let fuel := 2 + N + ((List.range N).map (fun d => (children d).length)).sum
    (writeOrder children fuel top).2 = true ∧
    (∀ x, x ∈ (writeOrder children fuel top).1 ↔ Reaches children top x) ∧
    (writeOrder children fuel top).1.Nodup := by
  intro fuel
  have hfin := writeOrder_finishes children N top htop hclosed
  exact ⟨hfin, write_order_defined children fuel top hfin⟩

theorem visit_order_defined (children : Nat → List Nat) (fuel top : Nat) (all : List Nat)
    (hall : all.Nodup) :
    (visitOrder children fuel (some top) all).1.Nodup ∧
    (∀ x ∈ all, x ∈ (visitOrder children fuel (some top) all).1) := by
  unfold visitOrder
  simp only
  constructor
  · rw [List.nodup_append]
    refine ⟨writeOrderGo_nodup children fuel [top] [] List.nodup_nil,
      List.Nodup.sublist List.filter_sublist hall, ?_⟩
    intro a ha b hb
    have := (List.mem_filter.mp hb).2
    intro e
    rw [← e] at this
    simp [writeOrder] at this
    exact this ha
  · intro x hx
    by_cases h : x ∈ (writeOrder children fuel top).1
    · exact List.mem_append_left _ h
    · exact List.mem_append_right _ (List.mem_filter.mpr ⟨hx, by simp [h]⟩)

example : writeOrder (fun n => if n = 0 then [1, 2, 1] else if n = 1 then [2] else []) 10 0 = ([0, 1, 2], true) := by
  decide

end Spydr.Verilog
