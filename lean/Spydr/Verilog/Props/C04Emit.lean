/-
  C04 — structural Verilog write-then-read returns the same netlist.
  ONLY property theorems and their non-vacuity examples: the expression / declaration / alias / assign part
  (no Mathlib import, so the driver can link what depends on it); the write-order part is `Props/C04.lean`.
-/
import Spydr.Verilog.Lemmas
import Spydr.Verilog.LemmasEmit
import Spydr.Verilog.Props.C06

namespace Spydr.Verilog

/-- **emit_eval.**  For every pin vector of reader shape (a block of connected pins at the low end of
    the port, each on a bit of a declared cable; unconnected pins above), whichever form
    `_write_instance_port` chooses — nothing, the bare name, `[i]`, `[hi:lo]`, or `{…}` with runs merged;
    the choice is made by `_is_pinset_concatenated`, transcribed exactly — the reader evaluates the written
    expression to exactly the connected bits (MSB first), and its port-map loop on a port of the same
    width restores the very same pin vector. -/
theorem emit_eval (env : CableEnv) (blk : List Bit) (m : Nat)
    (hne : blk.map some ++ List.replicate m none ≠ []) (hv : ∀ b ∈ blk, ValidBit env b) :
    ∃ e, emitPortExpr env (blk.map some ++ List.replicate m none) = some e ∧
      evalExpr env e = some blk.reverse ∧
      connectLowAligned (List.replicate (blk.map some ++ List.replicate m none).length none) blk.reverse
        = some (blk.map some ++ List.replicate m none) := by
  obtain ⟨e, h1, h2⟩ := emitPortExpr_eval env blk m hne hv
  refine ⟨e, h1, h2, ?_⟩
  rw [connect_low_aligned_fresh _ _ (by simp)]
  simp [lowAligned]

/-- the same, phrased with the executable specification predicates the harness evaluates -/
theorem emit_eval_spec (env : CableEnv) (pins : List (Option Bit)) (hne : pins ≠ [])
    (hs : ReaderShape env pins) :
    ∃ e, emitPortExpr env pins = some e ∧ portRoundTrip pins (evalExpr env e) = true := by
  obtain ⟨blk, m, hp, hv⟩ := hs
  subst hp
  obtain ⟨e, h1, h2, _⟩ := emit_eval env blk m hne hv
  refine ⟨e, h1, ?_⟩
  rw [h2]
  simp [portRoundTrip, lowAligned]

/-
  **verilog_roundtrip** (full statement, NOT proved):
    ∀ n = elabV a (also after uniquify / flatten / clone), ∀ options o,
      view04 <$> elabV (parseV (printV (composeV o n))) = some (view04 n)
  Missing: the module-level assembly (declaration order of ports/cables, module order, black boxes
  written or re-inferred, parameters/attributes, token-level printer/parser inverse).
  Proved instead, for all inputs: every instance connection round-trips (`verilog_roundtrip_partial`),
  declarations (`decl_range_roundtrip`), alias header ports (`alias_header_roundtrip`), assigns
  (`assign_regen`), and the write order (`write_order_defined`).  The end-to-end statement is evaluated on
  the implementation for every generated / bundled netlist and option combination (harness).
-/

/-- **verilog_roundtrip_partial** (instance-connection level lifted to all ports of all instances of a
    module, all inputs): if every pin vector is non-empty and of reader shape, writing every port map
    expression and reading it back restores every pin vector. -/
theorem verilog_roundtrip_partial (env : CableEnv) (ports : List (List (Option Bit)))
    (h : ∀ p ∈ ports, p ≠ [] ∧ ReaderShape env p) :
    ports.mapM (portRT env) = some ports := by
  induction ports with
  | nil => rfl
  | cons p ps ih =>
    obtain ⟨hne, blk, m, hp, hv⟩ := h p List.mem_cons_self
    subst hp
    obtain ⟨e, h1, h2, h3⟩ := emit_eval env blk m hne hv
    rw [List.mapM_cons, ih (fun x hx => h x (List.mem_cons_of_mem _ hx))]
    simp only [portRT, h1, h2, h3]
    rfl

def exEnv : CableEnv := fun n =>
  if n = "a" then some (4, 4) else if n = "b" then some (0, 1) else none

example : ReaderShape exEnv [some ⟨"a", 5⟩, some ⟨"a", 6⟩, some ⟨"b", 0⟩, none] :=
  ⟨[⟨"a", 5⟩, ⟨"a", 6⟩, ⟨"b", 0⟩], 1, rfl, by
    intro b hb
    simp only [List.mem_cons, List.not_mem_nil, or_false] at hb
    rcases hb with rfl | rfl | rfl
    · exact ⟨4, 4, rfl, by decide, by decide⟩
    · exact ⟨4, 4, rfl, by decide, by decide⟩
    · exact ⟨0, 1, rfl, by decide, by decide⟩⟩

/-- a port unconnected in the middle is *not* of reader shape, and indeed does not survive
    (candidate 23 of DESIGN §7: out of the domain of C04, the reader never produces it) -/
example : (emitPortExpr exEnv [some ⟨"a", 5⟩, none, some ⟨"b", 0⟩]).map (evalExpr exEnv) =
    some (some [⟨"b", 0⟩, ⟨"a", 5⟩]) := by rfl

/-- **decl_range_roundtrip.**  `[msb:lsb]` written by `_write_brackets_defining` for a bundle of base
    `lower` and width `width ≥ 1`, read back, gives base `lower` and width `width` again — both when the
    name is new (wire declarations, ANSI header) and when the declaration meets the one-bit stub the
    header port list created (non-ANSI body port declaration). -/
theorem decl_range_roundtrip (lower : Int) (width : Nat) (hw : 0 < width) :
    readDeclNew (emitDeclRange lower width) = (lower, width) ∧
    readDeclStub (emitDeclRange lower width) = (lower, width) := by
  unfold emitDeclRange
  by_cases h : width = 1 ∧ lower = 0
  · rw [if_pos h]
    obtain ⟨h1, h2⟩ := h
    subst h1 h2
    exact ⟨rfl, rfl⟩
  · rw [if_neg h]
    have hmax : max (lower + (width : Int) - 1) lower = lower + (width : Int) - 1 := by omega
    have hmin : min (lower + (width : Int) - 1) lower = lower := by omega
    constructor
    · simp only [readDeclNew, populateNew, hmax, hmin]
      congr 1
      omega
    · simp only [readDeclStub, resizeCable, inRange, hmax, hmin, if_true]
      have h1 : ¬ lower < lower := by omega
      simp only [h1, if_false]
      congr 1
      · simp
      · split <;> omega

example : emitDeclRange 4 4 = some (7, 4) := by decide

/-- **alias_header_roundtrip.**  A header port whose inner pins are all connected to bits of declared
    cables is written as `.port({…})` exactly when `_is_pinset_concatenated(pins, port name)`; reading
    the concatenation back (`parse_module_header_port_alias`) creates a port of the same width whose
    pin `k` is on the same bit.  Otherwise it is written as the bare port name and its pins are
    consecutive ascending bits of the cable that carries the port's name (declared in the body). -/
theorem alias_header_roundtrip (env : CableEnv) (pname : String) (blk : List Bit)
    (hv : ∀ b ∈ blk, ValidBit env b) :
    (∀ as, emitHeaderPort env pname (blk.map some) = some (some as) →
        ∃ ws, evalConcat env as = some ws ∧ connectAlias ws = blk.map some) ∧
    (emitHeaderPort env pname (blk.map some) = some none →
        ∀ b0 rest, blk = b0 :: rest → blk = ascBits pname b0.idx blk.length) ∧
    (∃ r, emitHeaderPort env pname (blk.map some) = some r) := by
  have hfm : ((blk.map some).reverse).filterMap id = blk.reverse := by
    have := filterMap_reverse_block blk 0
    simpa only [List.replicate_zero, List.append_nil] using this
  have hval : ∀ b, some b ∈ (blk.map some).reverse → ValidBit env b := by
    intro b hb
    rcases List.mem_map.mp (List.mem_reverse.mp hb) with ⟨x, hx, hxe⟩
    cases hxe
    exact hv _ hx
  obtain ⟨as0, h1, h2⟩ := emitConcat_eval env (blk.map some).reverse hval
  unfold emitHeaderPort
  by_cases hc : isConcatenated (blk.map some) (some pname) = true
  · rw [if_pos hc, h1]
    refine ⟨?_, ?_, ⟨_, rfl⟩⟩
    · intro as has
      simp only [Option.map_some, Option.some.injEq] at has
      subst has
      refine ⟨_, h2, ?_⟩
      rw [hfm]
      simp [connectAlias]
    · intro h; simp at h
  · rw [if_neg hc]
    refine ⟨?_, ?_, ⟨_, rfl⟩⟩
    · intro as has; simp at has
    · intro _ b0 rest hb
      have hc' : isConcatGo (blk.map some ++ List.replicate 0 none) (some pname) false false none = false := by
        simp only [List.replicate_zero, List.append_nil]
        cases h : isConcatenated (blk.map some) (some pname) with
        | true => exact absurd h hc
        | false => exact h
      exact (isConcatGo_false blk 0 pname none hc' b0 rest hb).2

/-- **assign_regen.**  An assignment instance of width `w ≥ 1` whose `o` pins sit on `c[lo..lo+w-1]`
    and whose `i` pins sit on `d[lo'..lo'+w-1]` (pin `k` on bit `k` from the low end — what the repaired
    reader builds) is written as `assign c[..] = d[..];` and read back as an assignment instance of the
    same width joining the same bits pin by pin. -/
theorem assign_regen (env : CableEnv) (c d : String) (lo lo' : Int) (w : Nat)
    (lc : Int) (wc : Nat) (ld : Int) (wd : Nat)
    (hc : env c = some (lc, wc)) (hd : env d = some (ld, wd))
    (hc0 : lc ≤ lo) (hc1 : lo + w < lc + wc) (hd0 : ld ≤ lo') (hd1 : lo' + w < ld + wd) :
    ∃ l r, emitAssign env ((ascBits c lo (w + 1)).map some) ((ascBits d lo' (w + 1)).map some) = some (l, r) ∧
      readAssign env l r = some ((ascBits c lo (w + 1)).map some, (ascBits d lo' (w + 1)).map some) := by
  have side : ∀ (c : String) (lo : Int) (lc : Int) (wc : Nat), env c = some (lc, wc) → lc ≤ lo →
      lo + w < lc + wc →
      ∃ a, emitAssignSide env ((ascBits c lo (w + 1)).map some) = some a ∧
        evalAtom env a = some (ascBits c lo (w + 1)).reverse := by
    clear hc hd hc0 hc1 hd0 hd1
    intro c lo lc wc hc h0 h1
    obtain ⟨a, ha, hev⟩ := emitRange_eval env c lc wc lo (lo + w) hc h0 (by omega) (by omega)
    refine ⟨a, ?_, by rw [hev, ascBits_reverse]⟩
    have hcat : isConcatenated ((ascBits c lo (w + 1)).map some) (some c) = false :=
      isConcatGo_asc c (w + 1) lo none (Or.inl rfl)
    have hlast : ((ascBits c lo (w + 1)).map some).getLast? = some (some ⟨c, lo + w⟩) := by
      rw [List.getLast?_map, ascBits_getLast]; rfl
    unfold emitAssignSide
    rw [ascBits_succ] at hcat hlast ⊢
    simp only [List.map_cons] at hcat hlast ⊢
    rw [hcat, hlast]
    simpa using ha
  obtain ⟨l, hl, hle⟩ := side c lo lc wc hc hc0 hc1
  obtain ⟨r, hr, hre⟩ := side d lo' ld wd hd hd0 hd1
  refine ⟨l, r, ?_, ?_⟩
  · unfold emitAssign
    simp only [hl, hr]
  · unfold readAssign
    simp only [hle, hre, connectAssign, List.reverse_reverse, List.length_reverse, ascBits_length,
      Nat.min_self]
    rw [List.take_of_length_le (by rw [ascBits_length]; omega),
      List.take_of_length_le (by rw [ascBits_length]; omega)]

/-- the whole list of assigns of a module: same count, same widths, same bits (map-wise) -/
theorem assign_regen_all (env : CableEnv) (assigns : List (PinVec Bit × PinVec Bit))
    (h : ∀ a ∈ assigns, ∃ l r, emitAssign env a.1 a.2 = some (l, r) ∧ readAssign env l r = some a) :
    (assigns.mapM (fun a => (emitAssign env a.1 a.2).bind (fun lr => readAssign env lr.1 lr.2))) = some assigns := by
  induction assigns with
  | nil => rfl
  | cons a as ih =>
    obtain ⟨l, r, h1, h2⟩ := h a List.mem_cons_self
    rw [List.mapM_cons]
    simp only [h1, Option.bind_some, h2, Option.bind_eq_bind]
    rw [ih (fun x hx => h x (List.mem_cons_of_mem _ hx))]
    rfl

example : ∃ l r, emitAssign exEnv [some ⟨"a", 5⟩, some ⟨"a", 6⟩] [some ⟨"a", 4⟩, some ⟨"a", 5⟩] = some (l, r) :=
  ⟨_, _, rfl⟩

end Spydr.Verilog
