/-
  C06 — the Verilog reader builds exactly the design the source describes.
  ONLY property theorems and their non-vacuity examples.  Bit-level theorems hold for all inputs
  (no bound on widths, indices, base indices, number of atoms).
-/
import Spydr.Verilog.Lemmas
import Spydr.Verilog.LemmasEmit
import Spydr.Verilog.LemmasElab

namespace Spydr.Verilog

/-- **getWires_spec.**  For any base index and either argument order, `get_wires_from_cable c l r`
    is the MSB-first list of the bits `max l r, …, min l r` of the cable. -/
theorem getWires_spec {α : Type} (c : Bundle α) (l r : Int)
    (hlo : c.lower ≤ min l r) (hhi : max l r < c.lower + c.items.length) :
    (∃ ws, getWires c (some l) (some r) = some ws ∧
      ws.length = (max l r - min l r + 1).toNat ∧
      ∀ k : Nat, k < ws.length → ws[k]? = c.at? (max l r - k)) ∧
    getWires c (some l) (some r) = getWires c (some r) (some l) :=
  ⟨getWires_range c l r hlo hhi, getWires_comm c l r⟩

/-- bit-select `c[i]` and the bare name `c` -/
theorem getWires_spec_single_all {α : Type} (c : Bundle α) (i : Int) (hlo : c.lower ≤ i) :
    getWires c (some i) none = (c.at? i).map (fun w => [w]) ∧
    (∃ ws, getWires c none none = some ws ∧ ws.length = c.items.length ∧
      ∀ k : Nat, k < ws.length → ws[k]? = c.at? (c.lower + c.items.length - 1 - k)) :=
  ⟨(getWires_single c i hlo).1, getWires_all c⟩

example : getWires (⟨4, ["w4", "w5", "w6", "w7"]⟩ : Bundle String) (some 5) (some 7) = some ["w7", "w6", "w5"] := by
  rfl
example : getWires (⟨4, ["w4", "w5", "w6", "w7"]⟩ : Bundle String) (some 7) (some 5) = some ["w7", "w6", "w5"] := by
  rfl

/-- **concat_spec.**  `{…, a, …}`: the value is the concatenation of the values of the atoms, and
    bit `j` of atom `a` (from its least significant end) is bit `j + (total width of the atoms to the
    right of a)` of the concatenation (from its least significant end). -/
theorem concat_spec (env : CableEnv) (as bs : List Atom) (a : Atom) (x y z : List Bit)
    (hx : evalConcat env as = some x) (hy : evalAtom env a = some y) (hz : evalConcat env bs = some z) :
    evalConcat env (as ++ a :: bs) = some (x ++ y ++ z) ∧
    ∀ j : Nat, j < y.length → (x ++ y ++ z).reverse[j + z.length]? = y.reverse[j]? := by
  refine ⟨?_, ?_⟩
  · rw [evalConcat_app env as (a :: bs) x (y ++ z) hx (evalConcat_cons env a bs y z hy hz), List.append_assoc]
  · intro j hj
    rw [List.reverse_append, List.reverse_append,
      List.getElem?_append_right (by simp), List.length_reverse, Nat.add_sub_cancel,
      List.getElem?_append_left (by simpa using hj)]

/-- **connect_low_aligned.**  Bit `k` of the expression, counted from its least significant end,
    meets pin `k` of the port; pins above the expression width stay unconnected.  Named and positional
    port maps both run this function.  (General form: any pin vector whose low `n` pins are free.) -/
theorem connect_low_aligned {β : Type} (pins : PinVec β) (ws : List β)
    (hw : ws.length ≤ pins.length) (hfree : ∀ k, k < ws.length → pins[k]? = some none) :
    connectLowAligned pins ws = some (ws.reverse.map some ++ pins.drop ws.length) := by
  rw [connectLowAligned_eq_connFold pins ws hw]
  exact connFold_closed ws pins hw hfree

/-- on a fresh port of `W` pins the result is the specification `lowAligned W ws` -/
theorem connect_low_aligned_fresh {β : Type} (W : Nat) (ws : List β) (hw : ws.length ≤ W) :
    connectLowAligned (List.replicate W none) ws = some (lowAligned W ws) := by
  rw [connect_low_aligned _ ws (by simpa using hw) (by
    intro k hk
    rw [List.getElem?_replicate]
    simp; omega)]
  simp [lowAligned]

/-- what `lowAligned` says bit by bit -/
theorem lowAligned_bit {β : Type} (W : Nat) (ws : List β) (k : Nat) :
    (k < ws.length → (lowAligned W ws)[k]? = (ws[ws.length - 1 - k]?).map some) ∧
    (ws.length ≤ k → k < W → (lowAligned W ws)[k]? = some none) := by
  unfold lowAligned
  constructor
  · intro hk
    rw [List.getElem?_append_left (by simpa using hk), List.getElem?_map, List.getElem?_reverse hk]
  · intro h1 h2
    rw [List.getElem?_append_right (by simpa using h1)]
    simp only [List.length_map, List.length_reverse]
    rw [List.getElem?_replicate]
    simp; omega

/-- wider than the port: refused, nothing is connected (the reader asserts) -/
theorem connect_too_wide {β : Type} (pins : PinVec β) (ws : List β) (h : pins.length < ws.length) :
    connectLowAligned pins ws = none := by
  unfold connectLowAligned
  rw [if_neg (by omega)]

example : connectLowAligned [none, none, none, none] ["m", "l"] = some [some "l", some "m", none, none] := by rfl

/-- **resize_stable.**  `create_or_update_cable` (`prepend_wires`, `postpend_wires`, re-basing on a
    defining declaration): the wire that was at absolute index `i` is afterwards at index
    `i - old base + new base'` where `base' = requested low end` if the call is defining and the old base
    otherwise — in particular it *keeps its absolute index* whenever the call is not defining or defines the
    base the cable already has (the case of ports based at 0), so connections made earlier are untouched
    by later growth; and the requested range is inside the cable afterwards. -/
theorem resize_stable {α : Type} (b : Bundle α) (l r : Option Int) (defining : Bool) (pre post : List α)
    (hpre : pre.length = (resizeCable b.lower b.items.length l r defining).pre)
    (hpost : post.length = (resizeCable b.lower b.items.length l r defining).post) :
    let rz := resizeCable b.lower b.items.length l r defining
    let base' := match inRange l r with
      | some (lo, _) => if defining then lo else b.lower
      | none => b.lower
    (∀ i x, b.at? i = some x → (b.resized rz pre post).at? (i - b.lower + base') = some x) ∧
    (∀ lo hi, inRange l r = some (lo, hi) → ∀ i, lo ≤ i → i ≤ hi → ((b.resized rz pre post).at? i).isSome) := by
  intro rz base'
  have hrz : rz.lower = base' - (pre.length : Int) := by
    simp only [rz, base', resizeCable] at hpre ⊢
    cases h : inRange l r with
    | none => simp only [h] at hpre ⊢; simp [hpre]
    | some p => obtain ⟨lo, hi⟩ := p; simp only [h] at hpre ⊢; rw [hpre]
  constructor
  · intro i x h
    unfold Bundle.at? at h
    unfold Bundle.at? Bundle.resized
    by_cases hb : b.lower ≤ i
    · simp only [hb, if_true] at h
      have hlt : (i - b.lower).toNat < b.items.length := by
        rcases List.getElem?_eq_some_iff.mp h with ⟨hh, _⟩; exact hh
      have : rz.lower ≤ i - b.lower + base' := by omega
      simp only [this, if_true]
      have e : (i - b.lower + base' - rz.lower).toNat = pre.length + (i - b.lower).toNat := by omega
      rw [e, List.append_assoc, List.getElem?_append_right (by omega)]
      simp only [Nat.add_sub_cancel_left]
      rw [List.getElem?_append_left hlt]
      exact h
    · simp [hb] at h
  · intro lo hi hin i h1 h2
    have hlen : (b.resized rz pre post).items.length = pre.length + b.items.length + post.length := by
      simp [Bundle.resized]; omega
    have hb' : base' = if defining then lo else b.lower := by simp only [base', hin]
    have hp : (pre.length : Int) = if lo < base' then base' - lo else 0 := by
      rw [hpre]; simp only [resizeCable, hin, ← hb']
      split <;> omega
    have hq : (post.length : Int) = if hi > base' + (b.items.length : Int) - 1
        then hi - (base' + (b.items.length : Int) - 1) else 0 := by
      rw [hpost]; simp only [resizeCable, hin, ← hb']
      split <;> omega
    have hlohi : lo ≤ hi := by
      unfold inRange at hin
      cases l <;> cases r <;> simp at hin <;> omega
    unfold Bundle.at?
    have hge : (b.resized rz pre post).lower ≤ i := by
      show rz.lower ≤ i
      rw [hrz]; split at hp <;> omega
    simp only [hge, if_true]
    rw [List.getElem?_eq_getElem (by
      rw [hlen]
      have : (b.resized rz pre post).lower = rz.lower := rfl
      rw [this, hrz]
      split at hp <;> split at hq <;> omega)]
    rfl

/-- the special case the property speaks about: absolute indices are kept -/
theorem resize_keeps_index {α : Type} (b : Bundle α) (l r : Option Int) (defining : Bool) (pre post : List α)
    (hpre : pre.length = (resizeCable b.lower b.items.length l r defining).pre)
    (hpost : post.length = (resizeCable b.lower b.items.length l r defining).post)
    (hkeep : defining = false ∨ ∃ hi, inRange l r = some (b.lower, hi)) :
    ∀ i x, b.at? i = some x →
      (b.resized (resizeCable b.lower b.items.length l r defining) pre post).at? i = some x := by
  intro i x h
  have := (resize_stable b l r defining pre post hpre hpost).1 i x h
  rcases hkeep with hk | ⟨hi, hk⟩
  · subst hk
    have e : i - b.lower + b.lower = i := by omega
    cases hin : inRange l r with
    | none => simp only [hin] at this; rw [e] at this; exact this
    | some p =>
      simp only [hin, Bool.false_eq_true, if_false] at this; rw [e] at this; exact this
  · simp only [hk, ite_self] at this
    have e : i - b.lower + b.lower = i := by omega
    rw [e] at this; exact this

/-- ports: `create_or_update_port` differs from the cable version only by doing nothing when the
    requested width equals the present width; the same stability holds -/
theorem resize_port_stable {α : Type} (b : Bundle α) (l r : Option Int) (pre post : List α)
    (hpre : pre.length = (resizePort b.lower b.items.length l r false).pre) :
    ∀ i x, b.at? i = some x →
      (b.resized (resizePort b.lower b.items.length l r false) pre post).at? i = some x := by
  intro i x h
  apply Bundle.at?_resized b _ pre post i _ x h
  cases hin : inRange l r with
  | none => simp only [resizePort, hin] at hpre ⊢; simp [hpre]
  | some p =>
    obtain ⟨lo, hi⟩ := p
    simp only [resizePort, hin, Bool.false_eq_true, if_false] at hpre ⊢
    by_cases he : hi - lo = b.lower + (b.items.length : Int) - 1 - b.lower
    · rw [if_pos he] at hpre ⊢; simp [hpre]
    · rw [if_neg he] at hpre ⊢; simp only [hpre]

/-
  **verilog_reader_spec** (full statement, NOT proved):
    ∀ design a in the supported subset, view (elabV a) = denoteV a
  where elabV is the whole-design elaboration (black-box holder, forward references with late port
  growth, header/body declarations, deferred positional maps, assigns, top election).
  Missing: the multi-module assembly — a model of the black-box holder and of the order-dependent growth
  of ports across modules, and the invariant that links it to the per-connection function below.
  Proved instead: the per-instance statement for all inputs.  The end-to-end statement is evaluated on
  the implementation for every generated design (harness: verilog_view.check_c06).
-/

/-- **verilog_reader_spec_partial** (instance-connection level, all inputs): whenever the expression
    has a value `ws` in the module's declared cables and is not wider than the port, the pins the reader
    builds are the denotation `lowAligned W ws`: bit `k` of the expression from its least significant end on
    pin `k`, nothing above; and all connections of an instance (each on its own port) are treated so. -/
theorem verilog_reader_spec_partial (env : CableEnv) (conns : List (Nat × PExpr))
    (h : ∀ c ∈ conns, ∃ ws, evalExpr env c.2 = some ws ∧ ws.length ≤ c.1) :
    conns.mapM (fun c => readConn env c.1 c.2) =
      some (conns.map (fun c => lowAligned c.1 ((evalExpr env c.2).getD []))) := by
  induction conns with
  | nil => rfl
  | cons c cs ih =>
    obtain ⟨ws, h1, h2⟩ := h c List.mem_cons_self
    rw [List.mapM_cons, ih (fun x hx => h x (List.mem_cons_of_mem _ hx))]
    simp only [readConn, h1, connect_low_aligned_fresh c.1 ws h2, Option.getD_some, List.map_cons]
    rfl

example : readConn (fun n => if n = "a" then some (4, 4) else none) 3 (.atom (.part "a" 6 5))
    = some [some ⟨"a", 5⟩, some ⟨"a", 6⟩, none] := by rfl

example : resizeCable 0 1 (some 3) (some 0) true = ⟨0, 0, 3⟩ := by decide
example : resizeCable 4 2 (some 7) (some 2) false = ⟨2, 2, 2⟩ := by decide

/-- **assign (reader, as repaired).**  `assign L = R;` becomes an instance of width `min |L| |R|` whose pin
    `k` (of `o` and of `i`) carries bit `k` of `L` (resp. `R`) counted from the least significant end. -/
theorem connect_assign_spec {β : Type} (outWs inWs : List β) :
    (connectAssign outWs inWs).1.length = min outWs.length inWs.length ∧
    (connectAssign outWs inWs).2.length = min outWs.length inWs.length ∧
    ∀ k, k < min outWs.length inWs.length →
      (connectAssign outWs inWs).1[k]? = (outWs[outWs.length - 1 - k]?).map some ∧
      (connectAssign outWs inWs).2[k]? = (inWs[inWs.length - 1 - k]?).map some := by
  unfold connectAssign
  refine ⟨by simp, by simp, ?_⟩
  intro k hk
  simp only [List.getElem?_map]
  rw [List.getElem?_take_of_lt hk, List.getElem?_take_of_lt hk,
    List.getElem?_reverse (by omega), List.getElem?_reverse (by omega)]
  exact ⟨rfl, rfl⟩

/-- **alias header port (reader).**  `.p({a, b, …})`: a port of as many pins as bits; pin `k` carries bit
    `k` of the concatenation counted from its least significant end. -/
theorem connect_alias_spec {β : Type} (ws : List β) :
    (connectAlias ws).length = ws.length ∧
    ∀ k, k < ws.length → (connectAlias ws)[k]? = (ws[ws.length - 1 - k]?).map some := by
  unfold connectAlias
  refine ⟨by simp, ?_⟩
  intro k hk
  rw [List.getElem?_reverse (by simpa using hk)]
  simp

example : connectAssign ["a3", "a2", "a1"] ["b1", "b0"] = ([some "a1", some "a2"], [some "b0", some "b1"]) := by rfl

/-- **elab_connection_spec.**  Inside the whole-design elaboration (`ModelElab.elabDesign`, the function
    compared with `sdn.parse` on every design): whenever the connection step of a named or positional map
    succeeds on a row whose low `|ws|` pins are free, the instance's row becomes
    `ws.reverse.map some ++ row.drop |ws|` — bit `k` of the expression (from its least significant end) on
    pin `k`, the pins above untouched — and nothing else in the design changes. -/
theorem elab_connection_spec (s s' : Elab.St) (dn iname : String) (k : Nat) (ws : List Nat)
    (h : Elab.connectInstRow s dn iname k ws = .ok s') :
    ∃ d ii row, s.find dn = some d ∧ Elab.instIdx d iname = some ii ∧
      row = ((d.insts.getD ii default).pins).getD k [] ∧
      ws.length ≤ row.length ∧
      ((∀ j, j < ws.length → row[j]? = some none) →
        s' = s.upd dn (fun d' =>
          { d' with insts := d'.insts.set ii (let i := d.insts.getD ii default; { i with pins := i.pins.set k (ws.reverse.map some ++ row.drop ws.length) }) })) := by
  obtain ⟨d, ii, row', hd, hi, hc, hs⟩ := Elab.connectInstRow_eq s s' dn iname k ws h
  refine ⟨d, ii, _, hd, hi, rfl, ?_⟩
  have hlen : ws.length ≤ (((d.insts.getD ii default).pins).getD k []).length := by
    by_cases hl : ws.length ≤ (((d.insts.getD ii default).pins).getD k []).length
    · exact hl
    · rw [connect_too_wide _ _ (by omega)] at hc
      cases hc
  refine ⟨hlen, ?_⟩
  intro hfree
  rw [connect_low_aligned _ ws hlen hfree] at hc
  cases hc
  exact hs
/-- **elab_connection_total.**  Totality of the connection step: for an existing instance, a row at least as
    wide as the expression and free at its low `|ws|` pins, `connectInstRow` succeeds (so
    `elab_connection_spec` is not vacuous; for a row index `k` outside the instance the row is `[]` and only
    the empty expression is accepted). -/
theorem elab_connection_total (s : Elab.St) (dn iname : String) (k : Nat) (ws : List Nat) (d : Elab.Def) (ii : Nat)
    (hd : s.find dn = some d) (hi : Elab.instIdx d iname = some ii)
    (hlen : ws.length ≤ (((d.insts.getD ii default).pins).getD k []).length)
    (hfree : ∀ j, j < ws.length → (((d.insts.getD ii default).pins).getD k [])[j]? = some none) :
    ∃ s', Elab.connectInstRow s dn iname k ws = .ok s' := by
  unfold Elab.connectInstRow Elab.getDef
  simp only [hd, hi, bind, Except.bind, pure, Except.pure]
  rw [connect_low_aligned _ ws hlen hfree]
  exact ⟨_, rfl⟩

def exSt : Elab.St :=
  ⟨[⟨"top", some "work", false, [], none, [], [⟨"c", 0, true, [7, 8], none, none⟩],
      [⟨"u", "leaf", [], none, [[none, none, none]]⟩]⟩], 9, some "top", 0, []⟩

/-- non-vacuity: a two-bit expression on a free three-pin row of instance `u` -/
example : ∃ s', Elab.connectInstRow exSt "top" "u" 0 [8, 7] = .ok s' ∧
    (s'.find "top").map (fun d => (d.insts.map (·.pins))) = some [[[some 7, some 8, none]]] := by
  refine ⟨_, rfl, ?_⟩
  rfl
end Spydr.Verilog
