/-
  Verilog engine — proof side, part 50 (assigns): one `assign l = r;` inside any definition of any well-formed table
  (`asgStepR_run`): the instance of the assignment definition of the right width, appended to the table on first use.
-/
import Spydr.Verilog.RoundTripHierI
set_option maxHeartbeats 1600000
namespace Spydr.Verilog.Elab
open Spydr.Verilog

/-! ### `assign l = r;` inside any definition of any well-formed table -/

def asgDef (w : Nat) : Def :=
  ⟨assignDefName w, some "SDN_VERILOG_ASSIGNMENT", false, [], none,
   [⟨some "i", .inp, 0, true, List.replicate w none, none⟩, ⟨some "o", .out, 0, true, List.replicate w none, none⟩], [], []⟩

/-- one assign statement (pure): the new instance of the assignment definition of the right width, which is appended to
    the table if it is not there yet.  `known` = the other definitions of the table, `ac` = the assignment counter. -/
def asgStepR (d : Def) (ac : Nat) (known : List Def) (a : XAtom × XAtom) : Option (Def × List Def) :=
  match atomWires d a.1, atomWires d a.2 with
  | some lw, some rw =>
    let w := min lw.length rw.length
    if d.name ≠ assignDefName w ∧ instIdx d (assignDefName w ++ "_" ++ toString ac) = none then
      let d' : Def := { d with insts := d.insts ++
        [⟨assignDefName w ++ "_" ++ toString ac, assignDefName w, [], none, [(connectAssign lw rw).2, (connectAssign lw rw).1]⟩] }
      match known.find? (fun x => x.name == assignDefName w) with
      | some rd =>
        if rd.lib = some "SDN_VERILOG_ASSIGNMENT" ∧ rd.ports.map (fun p => p.pins.length) = [w, w] then some (d', [])
        else none
      | none => some (d', [asgDef w])
    else none
  | _, _ => none

theorem connectAssign_len (lw rw : List Nat) :
    (connectAssign lw rw).1.length = min lw.length rw.length ∧ (connectAssign lw rw).2.length = min lw.length rw.length :=
  (connectAssign_spec lw rw).1

/-- **asgStepR_run.**  One `assign` in any well-formed table. -/
theorem asgStepR_run (s : St) (dn : String) (d : Def) (a : XAtom × XAtom) (d' : Def) (new : List Def)
    (hwf : TableWF s) (hd : Has s dn d) (hcn : (d.cables.map (·.name)).Nodup)
    (h : asgStepR d s.acount (others s dn) a = some (d', new)) :
    ∃ s', elabItem s dn false (.assign a.1 a.2) = .ok s' ∧ Has s' dn d' ∧
      s'.defs = s.defs.map (fun x => if x.name == dn then d' else x) ++ new ∧ s'.next = s.next ∧ s'.top = s.top ∧
      s'.acount = s.acount + 1 ∧ s'.pending = s.pending ∧ d'.name = d.name ∧ d'.cables = d.cables ∧ d'.ports = d.ports ∧
      others s' dn = others s dn ++ new := by
  unfold asgStepR at h
  split at h
  · rename_i lw rw hlw hrw
    simp only at h
    split at h
    · rename_i hc
      obtain ⟨hne, hfresh⟩ := hc
      generalize hw : min lw.length rw.length = w at h hne hfresh
      have hev1 := evalAtomE_fixed s dn a.1 d lw hd hcn hlw
      have hev2 := evalAtomE_fixed s dn a.2 d rw hd hcn hrw
      have hdn : dn ≠ assignDefName w := by rw [← hd.2.1]; exact hne
      obtain ⟨l1, l2⟩ := connectAssign_len lw rw
      rw [hw] at l1 l2
      -- the assignment definition
      have hens : ∃ s3 rd, ensureAssignDef s w = .ok s3 ∧ Has s3 (assignDefName w) rd ∧ Has s3 dn d ∧
          rd.ports.map (fun p => p.pins.length) = [w, w] ∧ s3.defs = s.defs ++ new ∧ s3.next = s.next ∧ s3.top = s.top ∧
          s3.acount = s.acount ∧ s3.pending = s.pending ∧
          d' = { d with insts := d.insts ++ [⟨assignDefName w ++ "_" ++ toString s.acount, assignDefName w, [], none,
            [(connectAssign lw rw).2, (connectAssign lw rw).1]⟩] } := by
        cases hf : (others s dn).find? (fun x => x.name == assignDefName w) with
        | some rd =>
          simp only [hf] at h
          split at h
          · rename_i hc2
            simp only [Option.some.injEq, Prod.mk.injEq] at h
            have hrdm : rd ∈ s.defs := (mem_others.mp (List.mem_of_find?_eq_some hf)).1
            have hrdn : rd.name = assignDefName w := by simpa using List.find?_some hf
            have hHr : Has s (assignDefName w) rd := by rw [← hrdn]; exact has_of_mem hwf hrdm
            refine ⟨s, rd, ?_, hHr, hd, hc2.2, by rw [← h.2]; simp, rfl, rfl, rfl, rfl, h.1.symm⟩
            unfold ensureAssignDef
            rw [hHr.find]
            simp [hc2.1]
            rfl
          · cases h
        | none =>
          simp only [hf, Option.some.injEq, Prod.mk.injEq] at h
          have hfind : s.find (assignDefName w) = none := by
            unfold St.find
            apply List.find?_eq_none.mpr
            intro x hx
            by_cases en : x.name = dn
            · simp only [beq_iff_eq]; rw [en]; exact hdn
            · exact List.find?_eq_none.mp hf x (mem_others.mpr ⟨hx, en⟩)
          have hH := Has_append_new s (asgDef w) hfind
          refine ⟨{ s with defs := s.defs ++ [asgDef w] }, asgDef w, ?_, hH,
            Has_append_old s (asgDef w) dn d hd (fun e => hdn e.symm), by simp [asgDef], by rw [← h.2], rfl, rfl, rfl, rfl, h.1.symm⟩
          unfold ensureAssignDef
          rw [hfind]
          rfl
      obtain ⟨s3, rd, e1, e2, e3, e4, e5, e6, e7, e8, e9, e10⟩ := hens
      have hchk : (rd.ports.map (fun p => p.pins.length) != [(connectAssign lw rw).2.length, (connectAssign lw rw).1.length]) = false := by
        rw [e4, l1, l2]; simp
      have hfresh3 : instIdx d (assignDefName w ++ "_" ++ toString s3.acount) = none := by rw [e8]; exact hfresh
      refine ⟨({ s3 with acount := s3.acount + 1 } : St).upd dn (fun d => { d with insts := d.insts ++
        [⟨assignDefName w ++ "_" ++ toString s3.acount, assignDefName w, [], none, [(connectAssign lw rw).2, (connectAssign lw rw).1]⟩] }),
        ?_, ?_, ?_, e6, e7, by show s3.acount + 1 = _; rw [e8], e9, by rw [e10], by rw [e10], by rw [e10], ?_⟩
      · unfold elabItem assignStmt
        simp only [Bool.false_eq_true, if_false, bind, Except.bind, hev1, hev2, hw, e1, getDef_has e2, hchk, getDef_has e3,
          hfresh3, Option.isSome_none, pure, Except.pure]
      · have h0 : Has ({ s3 with acount := s3.acount + 1 } : St) dn d := Has.of_defs rfl e3
        have := h0.upd (fun d => ({ d with insts := d.insts ++
          [⟨assignDefName w ++ "_" ++ toString s3.acount, assignDefName w, [], none, [(connectAssign lw rw).2, (connectAssign lw rw).1]⟩] } : Def))
          (fun _ => rfl)
        rw [e10, ← e8]; exact this
      · show (s3.defs.map _) = _
        rw [e5, List.map_append, e10, ← e8]
        congr 1
        · apply List.map_congr_left
          intro x hx
          by_cases en : x.name = dn
          · simp [en, hd.2.2 x hx en]
          · simp [en]
        · -- the new definition is not `dn`
          conv => rhs; rw [← List.map_id new]
          apply List.map_congr_left
          intro x hx
          have hxn : x.name ≠ dn := by
            have hxm : x ∈ s3.defs := by rw [e5]; exact List.mem_append_right _ hx
            intro en
            have := e3.2.2 x hxm en
            -- x = d would be in the old table: impossible as new entries are fresh
            cases hf : (others s dn).find? (fun y => y.name == assignDefName w) with
            | some rd' =>
              simp only [hf] at h
              split at h
              · simp only [Option.some.injEq, Prod.mk.injEq] at h; rw [← h.2] at hx; cases hx
              · cases h
            | none =>
              simp only [hf, Option.some.injEq, Prod.mk.injEq] at h
              rw [← h.2] at hx
              simp only [List.mem_singleton] at hx
              rw [hx] at en
              exact hdn en.symm
          simp [hxn]
      · unfold others
        show (s3.defs.map _).filter _ = _
        rw [e5, List.map_append, List.filter_append]
        congr 1
        · exact others_map s dn _ (fun _ => rfl)
        · cases hf : (others s dn).find? (fun y => y.name == assignDefName w) with
          | some rd' =>
            simp only [hf] at h
            split at h
            · simp only [Option.some.injEq, Prod.mk.injEq] at h; rw [← h.2]; rfl
            · cases h
          | none =>
            simp only [hf, Option.some.injEq, Prod.mk.injEq] at h
            rw [← h.2]
            have : ¬ (asgDef w).name = dn := fun e => hdn e.symm
            simp [this]
    · cases h
  · cases h
end Spydr.Verilog.Elab
