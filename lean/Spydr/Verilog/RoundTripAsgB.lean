/-
  Verilog engine — proof side, part 52 (assign statements): the assigns of a module folded in any well-formed table
  (`asg_foldG`), the declaration phases of a module declared late with the rest of its items left over (`late_prefix`),
  a work module WITH ASSIGNS declared late (`buildLateWA`, `elabModule_lateWA`) and first in the file (`top_prefix`,
  `buildTopA`, `elabModule_wtopA`), all through the real `elabModule`.
-/
import Spydr.Verilog.RoundTripAsgA
set_option maxHeartbeats 1600000
namespace Spydr.Verilog.Elab
open Spydr.Verilog

/-! ### the assigns of a module, and a work module with assigns declared late -/

def foldAsg : Def → Nat → List Def → List (XAtom × XAtom) → Option (Def × Nat × List Def)
  | d, ac, known, [] => some (d, ac, known)
  | d, ac, known, a :: as =>
    match asgStepR d ac known a with
    | some r => foldAsg r.1 (ac + 1) (known ++ r.2) as
    | none => none

theorem asg_foldG (dn : String) : ∀ (as : List (XAtom × XAtom)) (s : St) (d d' : Def) (ac' : Nat) (known' : List Def),
    TableWF s → Has s dn d → (d.cables.map (·.name)).Nodup →
    foldAsg d s.acount (others s dn) as = some (d', ac', known') →
    ∃ s', (as.map (fun a => Item.assign a.1 a.2)).foldlM (fun s it => elabItem s dn false it) s = .ok s' ∧ TableWF s' ∧
      Has s' dn d' ∧ others s' dn = known' ∧ s'.next = s.next ∧ s'.top = s.top ∧ s'.acount = ac' ∧ s'.pending = s.pending ∧
      d'.name = d.name ∧ d'.cables = d.cables ∧ d'.ports = d.ports ∧
      ∃ new, known' = others s dn ++ new ∧ s'.defs = s.defs.map (fun x => if x.name == dn then d' else x) ++ new := by
  intro as
  induction as with
  | nil =>
    intro s d d' ac' known' hwf hd _ h
    simp only [foldAsg, Option.some.injEq, Prod.mk.injEq] at h
    obtain ⟨h1, h2, h3⟩ := h
    subst h1 h2 h3
    refine ⟨s, rfl, hwf, hd, rfl, rfl, rfl, rfl, rfl, rfl, rfl, rfl, [], by simp, ?_⟩
    rw [List.append_nil]
    conv => lhs; rw [← List.map_id s.defs]
    apply List.map_congr_left
    intro x hx
    by_cases e : x.name = dn
    · simp [e, hd.2.2 x hx e]
    · simp [e]
  | cons a as ih =>
    intro s d d' ac' known' hwf hd hcn h
    unfold foldAsg at h
    cases hs : asgStepR d s.acount (others s dn) a with
    | none => simp [hs] at h
    | some r =>
      obtain ⟨d1, new1⟩ := r
      simp only [hs] at h
      obtain ⟨s1, g1, g2, g3, g4, g5, g6, g7, g8, g9, g10, g11⟩ := asgStepR_run s dn d a d1 new1 hwf hd hcn hs
      have hwf1 : TableWF s1 := elabItem_wf s s1 dn false _ hwf g1
      rw [← g11, ← g6] at h
      obtain ⟨s2, f1, f2, f3, f4, f5, f6, f7, f8, f9, f10, f11, new2, fn2, fd2⟩ := ih s1 d1 d' ac' known' hwf1 g2
        (by rw [g9]; exact hcn) h
      refine ⟨s2, ?_, f2, f3, f4, f5.trans g4, f6.trans g5, f7, f8.trans g7, f9.trans g8, f10.trans g9, f11.trans g10,
        new1 ++ new2, by rw [fn2, g11, List.append_assoc], ?_⟩
      · simp only [List.map_cons, List.foldlM_cons, bind, Except.bind, g1]
        exact f1
      · rw [fd2, g3, List.map_append, List.map_map, List.append_assoc]
        congr 1
        · apply List.map_congr_left
          intro x _
          simp only [Function.comp]
          by_cases e : x.name = dn
          · simp [e, g8, hd.2.1]
          · simp [e]
        · congr 1
          conv => rhs; rw [← List.map_id new1]
          apply List.map_congr_left
          intro x hx
          have hxm : x ∈ others s1 dn := by rw [g11]; exact List.mem_append_right _ hx
          have := (mem_others.mp hxm).2
          simp [this]

/-- a module in the writer's shape with assigns: ports, nets, assigns, instances -/
structure WModA where
  base : WModI
  asgs : List (XAtom × XAtom)
  params : Params

def WModA.toModule (m : WModA) : Module :=
  ⟨m.base.name, false, m.base.attrs, m.params, m.base.ports.map (fun p => ⟨p.name, none, none, none⟩),
   m.base.ports.map PDecl.item ++ m.base.wires.map FWire.item ++ m.asgs.map (fun a => Item.assign a.1 a.2) ++
     m.base.insts.map NInst.item⟩

/-- the counter of assignments does not matter at the start of a module that is no primitive: it is reset -/
theorem elabModule_acount (s : St) (M : Module) (hp : M.prim = false) :
    elabModule s M = elabModule { s with acount := 0 } M := by
  obtain ⟨defs, next, top, ac, pend⟩ := s
  unfold elabModule St.ensure St.find getDef
  simp only [hp, Bool.false_eq_true, if_false]
  cases top <;> cases hf : defs.find? (fun d => d.name == M.name) <;> simp only [St.find, hf] <;> rfl
/-- the definition of a work module on entry: library `work`, the parameters of the header merged in -/
def entryDef (L : Def) (params : Params) : Def := { L with lib := some "work", params := mergeParams L.params params }

theorem withNext_self (s : St) : withNext s s.next = s := by cases s; rfl

/-- **late_prefix.**  The part of `elabModule` before the assigns and instances, for a work module declared late: entry
    (library, module parameters), header on the ports the instances created, reorder, body port declarations, nets —
    leaving the rest of the items. -/
theorem late_prefix (s : St) (name : String) (attrs : Attrs) (params : Params) (ports : List PDecl) (wires : List FWire)
    (rest : List Item) (t : String) (L d1 d2 d3 : Def) (n1 n2 n3 : Nat) (ops : List (Nat × Nat))
    (hwf : TableWF s) (hL : Has s name L) (htop : s.top = some t) (hac : s.acount = 0)
    (hlib : L.lib = none) (hi : L.insts = []) (hnames : L.ports.map (·.name) = (ports.map (·.name)).map some)
    (hnd : (ports.map (·.name)).Nodup)
    (h1 : foldLocal hdrStepL (entryDef L params) s.next (ports.map (·.name)) = some (d1, n1))
    (h2 : foldDeclA d1 n1 ports = some (d2, n2, ops)) (h3 : foldLocal wireStep d2 n2 wires = some (d3, n3)) :
    ∃ S3, elabModule s ⟨name, false, attrs, params, ports.map (fun p => ⟨p.name, none, none, none⟩),
        ports.map PDecl.item ++ wires.map FWire.item ++ rest⟩ =
        (do let s' ← rest.foldlM (fun s it => elabItem s name false it) S3
            pure (if attrs.isEmpty then s' else s'.upd name (fun d => { d with attrs := some attrs }))) ∧
      TableWF S3 ∧ Has S3 name d3 ∧ others S3 name = (others s name).map (fun x => padOpsD x name ops) ∧
      S3.next = n3 ∧ S3.top = some t ∧ S3.acount = 0 ∧ S3.pending = s.pending ∧
      S3.defs = s.defs.map (fun x => if x.name == name then d3 else padOpsD x name ops) ∧ d3.name = name := by
  generalize hL1 : entryDef L params = L1 at h1
  have hL1n : L1.name = L.name := by rw [← hL1]; rfl
  have hL1i : L1.insts = [] := by rw [← hL1]; exact hi
  have hL1p : L1.ports = L.ports := by rw [← hL1]; rfl
  have hLmem : L ∈ s.defs := hL.1
  have hens : s.ensure name = s := by unfold St.ensure; rw [hL.find]
  have hs1 : ∀ g : Def → Def, g L = L1 → s.upd name g = s.put name L1 s.next := by
    intro g hg
    have := upd_eq_put s name L g s.next hL
    rw [hg] at this; rw [← this]; cases s; rfl
  generalize hS1 : s.put name L1 s.next = S1
  have hS1wf : TableWF S1 := by
    rw [← hS1, ← hs1 (fun d => entryDef d params) hL1]
    exact upd_meta_wf s name _ (fun _ => rfl) (fun _ => rfl) (fun _ => rfl) (fun _ => rfl) hwf
  have hH1 : Has S1 name L1 := by rw [← hS1]; exact hL.put L1 _ hL1n
  have hR1 : RowsFull S1 name L1.ports.length := by
    rw [← hS1, hL1p]
    have := rowsFull_of_wf hwf hLmem
    rw [hL.2.1] at this
    exact this.put _ _ _ hL1i
  have hS1n : S1.next = s.next := by rw [← hS1]; rfl
  obtain ⟨g1, g2, g3, g4⟩ := hdr_foldL name (ports.map (·.name)) S1 L1 d1 n1 hH1 hL1i hR1 (by rw [hS1n]; exact h1)
  have hS2 : S1.put name d1 n1 = s.put name d1 n1 := by
    rw [← hS1, St.put_put s name L1 d1 _ _ (by rw [hL1n, hL.2.1])]
  rw [hS2] at g1
  have hH2 : Has (s.put name d1 n1) name d1 := hL.put d1 _ (g2.trans hL1n)
  have hwf2 : TableWF (s.put name d1 n1) := by
    apply foldlM_wf _ (fun a b c hw hh => headerPort_wf a c name ⟨b, none, none, none⟩ hw hh) _ _ _ hS1wf g1
  have hd1names : d1.ports.map (·.name) = (ports.map (·.name)).map some := by
    rw [foldLocal_pres (fun d => d.ports.map (·.name)) hdrStepL hdrStepL_names _ _ _ _ _ h1, hL1p]
    exact hnames
  have hR : reorderPorts (s.put name d1 n1) name (ports.map (·.name)) = .ok (s.put name d1 n1) :=
    reorderPorts_id _ name d1 _ hH2 (filterMap_portIdx d1.ports _ hd1names hnd)
  obtain ⟨f1, f2, f3, f4, f5⟩ := decl_foldA name ports (s.put name d1 n1) d1 d2 n2 ops hH2 g3
    (by rw [put_next]; exact h2)
  rw [padOps_put name d1 g3, St.put_put _ name d1 d2 _ _ (by rw [g2, hL1n, hL.2.1])] at f1
  have hHp : Has (padOps s name ops) name L := hL.padOps hi ops
  have hH3 : Has ((padOps s name ops).put name d2 n2) name d2 := hHp.put d2 _ ((f2.trans g2).trans hL1n)
  obtain ⟨w1, w2, w3, w4⟩ := wire_foldG name wires ((padOps s name ops).put name d2 n2) d2 d3 n3 hH3
    (by rw [put_next]; exact h3)
  rw [St.put_put _ name d2 d3 _ _ (by rw [f2, g2, hL1n, hL.2.1])] at w1
  have hd3n : d3.name = name := (((w2.trans f2).trans g2).trans hL1n).trans hL.2.1
  have hwf3a : TableWF ((padOps s name ops).put name d2 n2) :=
    foldlM_wf _ (fun a b c hw hh => elabItem_wf a c name false b.item hw hh) _ _ _ hwf2 f1
  have hwf3 : TableWF ((padOps s name ops).put name d3 n3) :=
    foldlM_wf _ (fun a b c hw hh => elabItem_wf a c name false b.item hw hh) _ _ _ hwf3a w1
  refine ⟨(padOps s name ops).put name d3 n3, ?_, hwf3, hHp.put d3 _ (hd3n.trans hL.2.1.symm),
    others_put_padOps s name d3 n3 ops hd3n, rfl, ?_, ?_, ?_, defs_put_padOps s name d3 n3 ops, hd3n⟩
  · -- the state on entry
    have hentry : ∀ (Sx : St), Sx = s.upd name (fun d => { d with lib := some "work" }) →
        (if params.isEmpty = true then ({ (if Sx.top.isNone = true then { Sx with top := some name } else Sx) with acount := 0 } : St)
         else ({ (if Sx.top.isNone = true then { Sx with top := some name } else Sx) with acount := 0 } : St).upd name
           (fun d => { d with params := mergeParams d.params params })) = S1 := by
      intro Sx hSx
      have hSx' : Sx = s.put name { L with lib := some "work" } s.next := by
        rw [hSx]
        have := upd_eq_put s name L (fun d => { d with lib := some "work" }) s.next hL
        rw [← this]; cases s; rfl
      have htx : Sx.top = some t := by rw [hSx']; exact htop
      have hax : Sx.acount = 0 := by rw [hSx']; exact hac
      have hSe : ({ (if Sx.top.isNone = true then { Sx with top := some name } else Sx) with acount := 0 } : St) = Sx := by
        rw [htx]; exact acount_eta Sx hax
      rw [hSe]
      split
      · rename_i he
        have hp : params = [] := List.isEmpty_iff.mp he
        rw [hSx', ← hS1, ← hL1, hp]
        rfl
      · have hHx : Has Sx name { L with lib := some "work" } := by rw [hSx']; exact hL.put _ _ rfl
        have := upd_eq_put Sx name _ (fun d => { d with params := mergeParams d.params params }) Sx.next hHx
        have hx : Sx.upd name (fun d => { d with params := mergeParams d.params params }) =
            withNext (Sx.upd name (fun d => { d with params := mergeParams d.params params })) Sx.next := by
          cases Sx; rfl
        rw [hx, this, hSx', St.put_put s name { L with lib := some "work" } _ _ _ hL.2.1, ← hS1, ← hL1]
        rfl
    unfold elabModule
    simp only [hens, bind, Except.bind, getDef_has hL, hlib, Option.isSome_none, Bool.false_eq_true, if_false,
      List.foldlM_map, List.map_map, Function.comp_def, pure, Except.pure, List.foldlM_append]
    rw [hentry _ rfl]
    have g1' : List.foldlM (fun s (p : PDecl) => headerPort s name ⟨p.name, none, none, none⟩) S1 ports =
        .ok (s.put name d1 n1) := by
      have := g1; rwa [List.foldlM_map] at this
    simp only [g1', hR, f1, w1]
  · show (padOps s name ops).top = _; rw [(padOps_defs name ops s).2.2.1]; exact htop
  · show (padOps s name ops).acount = _; rw [(padOps_defs name ops s).2.2.2.1]; exact hac
  · show (padOps s name ops).pending = _; rw [(padOps_defs name ops s).2.2.2.2]
/-- the end of `elabModule`: the attributes of the module -/
theorem attrs_fin (S4 : St) (name : String) (attrs : Attrs) (d4 : Def) (hwf : TableWF S4) (hH : Has S4 name d4) :
    ∃ s', (if attrs.isEmpty = true then S4 else S4.upd name (fun d => { d with attrs := some attrs })) = s' ∧
      TableWF s' ∧ Has s' name (withAttrs attrs d4) ∧ others s' name = others S4 name ∧ s'.next = S4.next ∧
      s'.top = S4.top ∧ s'.acount = S4.acount ∧ s'.pending = S4.pending ∧
      s'.defs = S4.defs.map (fun x => if x.name == name then withAttrs attrs d4 else x) := by
  unfold withAttrs
  split
  · refine ⟨S4, rfl, hwf, hH, rfl, rfl, rfl, rfl, rfl, ?_⟩
    conv => lhs; rw [← List.map_id S4.defs]
    apply List.map_congr_left
    intro x hx
    by_cases e : x.name = name
    · simp [e, hH.2.2 x hx e]
    · simp [e]
  · refine ⟨_, rfl, upd_meta_wf S4 name _ (fun _ => rfl) (fun _ => rfl) (fun _ => rfl) (fun _ => rfl) hwf,
      hH.upd _ (fun _ => rfl), others_map S4 name _ (fun _ => rfl), rfl, rfl, rfl, rfl, ?_⟩
    show S4.defs.map _ = _
    apply List.map_congr_left
    intro x hx
    by_cases e : x.name = name
    · simp [e, hH.2.2 x hx e]
    · simp [e]

/-- the definition a work module WITH ASSIGNS declared after its instances ends with (pure) -/
def buildLateWA (L : Def) (ls : List Def) (n : Nat) (m : WModA) (topName : String) :
    Option (Def × List Def × Nat × List (Nat × Nat)) :=
  if L.lib = none ∧ L.insts = [] ∧ L.ports.map (·.name) = (m.base.ports.map (·.name)).map some ∧
      (m.base.ports.map (·.name)).Nodup ∧ m.base.insts.all (fun i => i.mod != topName) = true ∧ L.params = [] then
    match foldLocal hdrStepL (entryDef L m.params) n (m.base.ports.map (·.name)) with
    | none => none
    | some r1 =>
      match foldDeclA r1.1 r1.2 m.base.ports with
      | none => none
      | some r2 =>
        match foldLocal wireStep r2.1 r2.2.1 m.base.wires with
        | none => none
        | some r3 =>
          if (r3.1.cables.map (·.name)).Nodup then
            match foldAsg r3.1 0 (ls.map (fun x => padOpsD x m.base.name r2.2.2)) m.asgs with
            | none => none
            | some ra =>
              match foldInst ra.1 ra.2.2 m.base.insts with
              | none => none
              | some r4 => some (withAttrs m.base.attrs r4.1, r4.2, r3.2, r2.2.2)
          else none
  else none

/-- **elabModule_lateWA.**  A whole WORK module with assigns, declared after other modules instantiated it, through the
    real `elabModule`, in any well-formed table. -/
theorem elabModule_lateWA (s : St) (m : WModA) (t : String) (L D : Def) (ls' : List Def) (n' : Nat) (ops : List (Nat × Nat))
    (hwf : TableWF s) (hL : Has s m.base.name L) (htop : s.top = some t)
    (hb : buildLateWA L (others s m.base.name) s.next m t = some (D, ls', n', ops)) :
    ∃ s', elabModule s m.toModule = .ok s' ∧ TableWF s' ∧ Has s' m.base.name D ∧ others s' m.base.name = ls' ∧ s'.next = n' ∧
      s'.top = s.top ∧ s'.pending = s.pending ∧
      ∃ new, ls' = (others s m.base.name).map (fun x => padOpsD x m.base.name ops) ++ new ∧
        s'.defs = s.defs.map (fun x => if x.name == m.base.name then D else padOpsD x m.base.name ops) ++ new := by
  -- the counter of assignments is reset on entry
  rw [elabModule_acount s m.toModule rfl]
  generalize hs0 : ({ s with acount := 0 } : St) = s0
  have hd0 : s0.defs = s.defs := by rw [← hs0]
  have hwf0 : TableWF s0 := by
    rw [← hs0]; exact ⟨hwf.defs, hwf.glob, hwf.top⟩
  have hL0 : Has s0 m.base.name L := Has.of_defs hd0 hL
  have htop0 : s0.top = some t := by rw [← hs0]; exact htop
  have hac0 : s0.acount = 0 := by rw [← hs0]
  have ho0 : others s0 m.base.name = others s m.base.name := by unfold others; rw [hd0]
  have hn0 : s0.next = s.next := by rw [← hs0]
  have hp0 : s0.pending = s.pending := by rw [← hs0]
  have ht0 : s0.top = s.top := by rw [← hs0]
  rw [← hd0, ← ho0, ← hp0, ← ht0]
  rw [← ho0, ← hn0] at hb
  clear hs0 hd0 ho0 hn0 hp0 hwf hL htop ht0
  unfold buildLateWA at hb
  split at hb
  · rename_i hc
    obtain ⟨hlib, hi, hnames, hnd, hmods, _⟩ := hc
    cases h1 : foldLocal hdrStepL (entryDef L m.params) s0.next (m.base.ports.map (·.name)) with
    | none => simp [h1] at hb
    | some r1 =>
      obtain ⟨d1, n1⟩ := r1
      simp only [h1] at hb
      cases h2 : foldDeclA d1 n1 m.base.ports with
      | none => simp [h2] at hb
      | some r2 =>
        obtain ⟨d2, n2, ops2⟩ := r2
        simp only [h2] at hb
        cases h3 : foldLocal wireStep d2 n2 m.base.wires with
        | none => simp [h3] at hb
        | some r3 =>
          obtain ⟨d3, n3⟩ := r3
          simp only [h3] at hb
          split at hb
          · rename_i hcn
            cases ha : foldAsg d3 0 ((others s0 m.base.name).map (fun x => padOpsD x m.base.name ops2)) m.asgs with
            | none => simp [ha] at hb
            | some ra =>
              obtain ⟨d3a, aca, lsa⟩ := ra
              simp only [ha] at hb
              cases h4 : foldInst d3a lsa m.base.insts with
              | none => simp [h4] at hb
              | some r4 =>
                obtain ⟨d4, ls4⟩ := r4
                simp only [h4, Option.some.injEq, Prod.mk.injEq] at hb
                obtain ⟨e1, e2, e3, e4⟩ := hb
                subst e1 e2 e3 e4
                obtain ⟨S3, p1, p2, p3, p4, p5, p6, p7, p8, p9, p10⟩ := late_prefix s0 m.base.name m.base.attrs m.params m.base.ports
                  m.base.wires (m.asgs.map (fun a => Item.assign a.1 a.2) ++ m.base.insts.map NInst.item) t L d1 d2 d3 n1 n2 n3
                  ops2 hwf0 hL0 htop0 hac0 hlib hi hnames hnd h1 h2 h3
                -- assigns
                obtain ⟨S3a, a1, a2, a3, a4, a5, a6, a7, a8, a9, a10, a11, newA, an1, an2⟩ := asg_foldG m.base.name m.asgs S3 d3 d3a
                  aca lsa p2 p3 hcn (by rw [p7, p4]; exact ha)
                -- instances
                obtain ⟨S4, i1, i2, i3, i4, i5, i6, i7, i8, i9, i10, newI, in1, in2⟩ := insts_foldG m.base.name m.base.insts S3a
                  d3a d4 ls4 a2 a3
                  (by
                    intro i hi'
                    rw [a6, p6]
                    have := List.all_eq_true.mp hmods i hi'
                    intro e
                    have : i.mod = t := (Option.some.inj e).symm
                    simp [this] at *)
                  (by rw [a10]; exact hcn) (by rw [a4]; exact h4)
                obtain ⟨s', k1, k2, k3, k4, k5, k6, k7, k8, k9⟩ := attrs_fin S4 m.base.name m.base.attrs d4 i2 i3
                refine ⟨s', ?_, k2, k3, by rw [k4, i4], by rw [k5, i5, a5, p5], by rw [k6, i6, a6, p6, htop0],
                  by rw [k8, i8, a8, p8], newA ++ newI, by rw [in1, a4, an1, p4, List.append_assoc], ?_⟩
                · have hrun : elabModule s0 m.toModule = elabModule s0 ⟨m.base.name, false, m.base.attrs, m.params,
                      m.base.ports.map (fun p => ⟨p.name, none, none, none⟩),
                      m.base.ports.map PDecl.item ++ m.base.wires.map FWire.item ++
                        (m.asgs.map (fun a => Item.assign a.1 a.2) ++ m.base.insts.map NInst.item)⟩ := by
                    unfold WModA.toModule; rw [List.append_assoc]
                  rw [hrun, p1]
                  simp only [List.foldlM_append, bind, Except.bind, a1, i1, pure, Except.pure]
                  exact congrArg Except.ok k1
                · rw [k9, in2, an2, p9]
                  simp only [List.map_append, List.map_map, List.append_assoc]
                  congr 1
                  · apply List.map_congr_left
                    intro x _
                    simp only [Function.comp]
                    by_cases e : x.name = m.base.name
                    · have e3 : (d3.name == m.base.name) = true := by simp [p10]
                      have e3a : (d3a.name == m.base.name) = true := by simp [a9, p10]
                      have e4 : (d4.name == m.base.name) = true := by simp [i9, a9, p10]
                      simp only [e, beq_self_eq_true, if_true, e3, e3a, e4]
                    · simp [e, padOpsD_name]
                  · congr 1
                    · conv => rhs; rw [← List.map_id newA]
                      apply List.map_congr_left
                      intro x hx
                      have hxm : x ∈ others S3a m.base.name := by rw [a4, an1]; exact List.mem_append_right _ hx
                      have := (mem_others.mp hxm).2
                      simp [this]
                    · conv => rhs; rw [← List.map_id newI]
                      apply List.map_congr_left
                      intro x hx
                      have hxm : x ∈ others S4 m.base.name := by rw [i4, in1]; exact List.mem_append_right _ hx
                      have := (mem_others.mp hxm).2
                      simp [this]
          · cases hb
  · cases hb
/-! ### the top module (first in the file) with assigns -/

/-- `elabModule` on a module whose name is new to the table, module parameters included -/
theorem elabModule_eq_tailGP (s : St) (m : Module) (hfresh : s.find m.name = none) :
    elabModule s m = elabTailG (if m.params.isEmpty then afterEntry s m.name m.prim else
      (afterEntry s m.name m.prim).upd m.name (fun d => { d with params := mergeParams d.params m.params })) m := by
  have hbase := find_none_names s m.name hfresh
  have hens : s.ensure m.name = { s with defs := s.defs ++ [⟨m.name, none, false, [], none, [], [], []⟩] } := by
    unfold St.ensure; rw [hfresh]
  have hE1 : Has ({ s with defs := s.defs ++ [⟨m.name, none, false, [], none, [], [], []⟩] } : St) m.name
      ⟨m.name, none, false, [], none, [], [], []⟩ := Has_last _ s.defs _ rfl hbase
  by_cases he : m.params.isEmpty = true
  · unfold elabModule
    simp only [hens, bind, Except.bind, getDef_has hE1, Option.isSome_none, Bool.false_eq_true, if_false, he, if_true]
    unfold elabTailG afterEntry
    simp only [bind, Except.bind]
    rfl
  · unfold elabModule
    simp only [hens, bind, Except.bind, getDef_has hE1, Option.isSome_none, Bool.false_eq_true, if_false, he]
    unfold elabTailG afterEntry
    simp only [bind, Except.bind]
    rfl

/-- the definition of the first module of a file on entry -/
def topDef (name : String) (params : Params) : Def := ⟨name, some "work", false, mergeParams [] params, none, [], [], []⟩

/-- the part of `elabModule` before the assigns and instances for the FIRST module of a file -/
theorem top_prefix (name : String) (params : Params) (ports : List PDecl) (wires : List FWire) (d3 : Def) (n3 : Nat)
    (h3 : buildW3 (topDef name params) 0 ports wires = some (d3, n3)) :
    (∀ (attrs : Attrs) (rest : List Item),
      elabModule ⟨[], 0, none, 0, []⟩ ⟨name, false, attrs, params, ports.map (fun p => ⟨p.name, none, none, none⟩),
        ports.map PDecl.item ++ wires.map FWire.item ++ rest⟩ =
      (do let s' ← rest.foldlM (fun s it => elabItem s name false it) (S2 d3 [] n3 (some name))
          pure (if attrs.isEmpty then s' else s'.upd name (fun d => { d with attrs := some attrs })))) ∧
    TableWF (S2 d3 [] n3 (some name)) ∧ Has (S2 d3 [] n3 (some name)) name d3 ∧ d3.name = name ∧ d3.insts = [] := by
  generalize hd0 : topDef name params = d0 at h3
  have hd0n : d0.name = name := by rw [← hd0]; rfl
  have hs3 : (if params.isEmpty then afterEntry ⟨[], 0, none, 0, []⟩ name false else
      (afterEntry ⟨[], 0, none, 0, []⟩ name false).upd name (fun d => { d with params := mergeParams d.params params })) =
      S2 d0 [] 0 (some name) := by
    rw [afterEntry_s0 name]
    split
    · rename_i he
      have hp : params = [] := List.isEmpty_iff.mp he
      rw [← hd0, hp]; rfl
    · have := upd_S2_top (⟨name, some "work", false, [], none, [], [], []⟩ : Def) [] 0 (some name)
        (fun d => { d with params := mergeParams d.params params }) (by intro l hl; cases hl)
      rw [this, ← hd0]; rfl
  have hH3 : Has (S2 d0 [] 0 (some name)) name d0 := by
    rw [← hd0n]; exact Has_S2_top d0 [] 0 _ (by intro l hl; cases hl)
  have hN3 : NoRef (S2 d0 [] 0 (some name)) name := by
    intro x hx i hi
    simp only [S2, List.mem_singleton] at hx
    rw [hx, ← hd0] at hi
    cases hi
  obtain ⟨hP, hn3, hi3⟩ := wshape_phases (S2 d0 [] 0 (some name)) name ports wires d0 d3 n3 hH3 hN3
    (by rw [← hd0]; rfl) h3
  rw [← hd0n, put_S2 d0 [] 0 _ d3 n3 (by intro l hl; cases hl), hd0n] at hP
  have hd3n : d3.name = name := hn3.trans hd0n
  have key : ∀ (attrs : Attrs) (rest : List Item),
      elabModule ⟨[], 0, none, 0, []⟩ ⟨name, false, attrs, params, ports.map (fun p => ⟨p.name, none, none, none⟩),
        ports.map PDecl.item ++ wires.map FWire.item ++ rest⟩ =
      (do let s' ← rest.foldlM (fun s it => elabItem s name false it) (S2 d3 [] n3 (some name))
          pure (if attrs.isEmpty then s' else s'.upd name (fun d => { d with attrs := some attrs }))) := by
    intro attrs rest
    rw [elabModule_eq_tailGP _ _ rfl]
    show elabTailG (if params.isEmpty then afterEntry ⟨[], 0, none, 0, []⟩ name false else
      (afterEntry ⟨[], 0, none, 0, []⟩ name false).upd name (fun d => { d with params := mergeParams d.params params })) _ = _
    rw [hs3]
    unfold elabTailG
    have hPh : wPhases (S2 d0 [] 0 (some name)) name ports wires = .ok (S2 d3 [] n3 (some name)) := hP
    unfold wPhases at hPh
    simp only [List.foldlM_append, bind, Except.bind] at hPh ⊢
    generalize hX1 : List.foldlM (m := Except String) _ (S2 d0 [] 0 (some name)) _ = X1 at hPh ⊢
    cases X1 with
    | error e => simp at hPh
    | ok v1 =>
      simp only at hPh ⊢
      generalize hX2 : reorderPorts v1 name _ = X2 at hPh ⊢
      cases X2 with
      | error e => simp at hPh
      | ok v2 =>
        simp only at hPh ⊢
        generalize hX3 : List.foldlM (m := Except String) _ v2 (List.map PDecl.item ports) = X3 at hPh ⊢
        cases X3 with
        | error e => simp at hPh
        | ok v3 =>
          simp only at hPh ⊢
          rw [hPh]
  refine ⟨key, ?_, ?_, hd3n, hi3⟩
  · have := key [] []
    simp only [List.foldlM_nil, pure, Except.pure, bind, Except.bind, List.isEmpty_nil, if_true] at this
    exact elabModule_wf _ _ _ tableWF_init this
  · rw [← hd3n]; exact Has_S2_top d3 [] n3 _ (by intro l hl; cases hl)

/-- the table after the top module with assigns (pure): its definition, the definitions it created, the wire counter -/
def buildTopA (m : WModA) : Option (Def × List Def × Nat) :=
  match buildW3 (topDef m.base.name m.params) 0 m.base.ports m.base.wires with
  | none => none
  | some r3 =>
    if (r3.1.cables.map (·.name)).Nodup ∧ m.base.insts.all (fun i => i.mod != m.base.name) = true then
      match foldAsg r3.1 0 [] m.asgs with
      | none => none
      | some ra =>
        match foldInst ra.1 ra.2.2 m.base.insts with
        | none => none
        | some r4 => some (withAttrs m.base.attrs r4.1, r4.2, r3.2)
    else none

/-- **elabModule_wtopA.**  The top module with assigns, first in the file, through the real `elabModule`. -/
theorem elabModule_wtopA (m : WModA) (D : Def) (ls : List Def) (n : Nat) (hb : buildTopA m = some (D, ls, n)) :
    ∃ s', elabModule ⟨[], 0, none, 0, []⟩ m.toModule = .ok s' ∧ TableWF s' ∧ s'.defs = D :: ls ∧ s'.next = n ∧
      s'.top = some m.base.name ∧ s'.pending = [] ∧ Has s' m.base.name D := by
  unfold buildTopA at hb
  cases h3 : buildW3 (topDef m.base.name m.params) 0 m.base.ports m.base.wires with
  | none => simp [h3] at hb
  | some r3 =>
    obtain ⟨d3, n3⟩ := r3
    simp only [h3] at hb
    split at hb
    · rename_i hc
      obtain ⟨hcn, hself⟩ := hc
      cases ha : foldAsg d3 0 [] m.asgs with
      | none => simp [ha] at hb
      | some ra =>
        obtain ⟨d3a, aca, lsa⟩ := ra
        simp only [ha] at hb
        cases h4 : foldInst d3a lsa m.base.insts with
        | none => simp [h4] at hb
        | some r4 =>
          obtain ⟨d4, ls4⟩ := r4
          simp only [h4, Option.some.injEq, Prod.mk.injEq] at hb
          obtain ⟨e1, e2, e3⟩ := hb
          subst e1 e2 e3
          obtain ⟨key, hwf3, hH3, hd3n, hi3⟩ := top_prefix m.base.name m.params m.base.ports m.base.wires d3 n3 h3
          generalize hS3 : S2 d3 [] n3 (some m.base.name) = S3 at key hwf3 hH3
          have ho3 : others S3 m.base.name = [] := by
            rw [← hS3]; unfold others S2; simp [hd3n]
          have hd3 : S3.defs = [d3] := by rw [← hS3]; rfl
          obtain ⟨S3a, a1, a2, a3, a4, a5, a6, a7, a8, a9, a10, a11, newA, an1, an2⟩ := asg_foldG m.base.name m.asgs S3 d3 d3a
            aca lsa hwf3 hH3 hcn (by rw [ho3, ← hS3]; exact ha)
          obtain ⟨S4, i1, i2, i3, i4, i5, i6, i7, i8, i9, i10, newI, in1, in2⟩ := insts_foldG m.base.name m.base.insts S3a
            d3a d4 ls4 a2 a3
            (by
              intro i hi'
              rw [a6, ← hS3]
              intro e
              have e' : i.mod = m.base.name := (Option.some.inj e).symm
              have := List.all_eq_true.mp hself i hi'
              simp [e'] at this)
            (by rw [a10]; exact hcn) (by rw [a4]; exact h4)
          obtain ⟨s', k1, k2, k3, k4, k5, k6, k7, k8, k9⟩ := attrs_fin S4 m.base.name m.base.attrs d4 i2 i3
          refine ⟨s', ?_, k2, ?_, by rw [k5, i5, a5, ← hS3]; rfl, by rw [k6, i6, a6, ← hS3]; rfl,
            by rw [k8, i8, a8, ← hS3]; rfl, k3⟩
          · have hrun : elabModule ⟨[], 0, none, 0, []⟩ m.toModule = elabModule ⟨[], 0, none, 0, []⟩ ⟨m.base.name, false,
                m.base.attrs, m.params, m.base.ports.map (fun p => ⟨p.name, none, none, none⟩),
                m.base.ports.map PDecl.item ++ m.base.wires.map FWire.item ++
                  (m.asgs.map (fun a => Item.assign a.1 a.2) ++ m.base.insts.map NInst.item)⟩ := by
              unfold WModA.toModule; rw [List.append_assoc]
            rw [hrun, key]
            simp only [List.foldlM_append, bind, Except.bind, a1, i1, pure, Except.pure]
            exact congrArg Except.ok k1
          · rw [k9, in2, an2, hd3]
            have e3 : (d3.name == m.base.name) = true := by simp [hd3n]
            have e3a : (d3a.name == m.base.name) = true := by simp [a9, hd3n]
            have e4 : (d4.name == m.base.name) = true := by simp [i9, a9, hd3n]
            simp only [List.map_append, List.map_map, List.map_cons, List.map_nil, e3, e3a, e4, if_true, List.cons_append,
              List.nil_append]
            have hid : ∀ (f : Def → Def) (new : List Def), (∀ x ∈ new, x.name ≠ m.base.name) →
                (∀ x, x.name ≠ m.base.name → f x = x) → new.map f = new := by
              intro f new h1 h2
              conv => rhs; rw [← List.map_id new]
              apply List.map_congr_left
              intro x hx
              exact h2 x (h1 x hx)
            have hnA : ∀ x ∈ newA, x.name ≠ m.base.name := by
              intro x hx
              have hxm : x ∈ others S3a m.base.name := by rw [a4, an1]; exact List.mem_append_right _ hx
              exact (mem_others.mp hxm).2
            have hnI : ∀ x ∈ newI, x.name ≠ m.base.name := by
              intro x hx
              have hxm : x ∈ others S4 m.base.name := by rw [i4, in1]; exact List.mem_append_right _ hx
              exact (mem_others.mp hxm).2
            rw [in1, a4, an1, ho3, List.nil_append]
            congr 1
            congr 1
            · rw [hid _ newA hnA (fun x hx => by simp [hx])]
            · exact hid _ newI hnI (fun x hx => by simp [hx])
    · cases hb
end Spydr.Verilog.Elab
