/-
  Verilog engine — proof side, part 53 (assign statements): a whole hierarchical file whose work modules may contain
  assigns through the real `elabDesign` (`elabDesign_hierA`, pure table `buildHierA`); non-vacuity `exHierA_builds`.
-/
import Spydr.Verilog.RoundTripAsgV
set_option maxHeartbeats 1600000
namespace Spydr.Verilog.Elab
open Spydr.Verilog

/-! ### a hierarchical file whose work modules may contain assigns -/

inductive WAnyA
  | work (m : WModA)
  | leaf (lf : WLeafX)

def WAnyA.name : WAnyA → String
  | .work m => m.base.name
  | .leaf lf => lf.base.name

def WAnyA.toModule : WAnyA → Module
  | .work m => m.toModule
  | .leaf lf => lf.toModule

/-- one later module of the file on the table (pure) -/
def lateStepA (tbl : List Def) (n : Nat) (t : String) (M : WAnyA) : Option (List Def × Nat) :=
  match tbl.find? (fun d => d.name == M.name) with
  | none => none
  | some L =>
    match M with
    | .work m =>
      match buildLateWA L (tbl.filter (fun x => x.name != m.base.name)) n m t with
      | some r => some (tbl.map (fun x => if x.name == m.base.name then r.1 else padOpsD x m.base.name r.2.2.2) ++
          r.2.1.drop (tbl.filter (fun x => x.name != m.base.name)).length, r.2.2.1)
      | none => none
    | .leaf lf =>
      match buildLeafX L n lf with
      | some r => some (tbl.map (fun x => if x.name == lf.base.name then r.1 else padOpsD x lf.base.name r.2.2), r.2.1)
      | none => none

def foldLateA : List Def → Nat → String → List WAnyA → Option (List Def × Nat)
  | tbl, n, _, [] => some (tbl, n)
  | tbl, n, t, M :: Ms =>
    match lateStepA tbl n t M with
    | some r => foldLateA r.1 r.2 t Ms
    | none => none

theorem late_stepA (s : St) (t : String) (M : WAnyA) (tbl' : List Def) (n' : Nat) (hwf : TableWF s) (htop : s.top = some t)
    (h : lateStepA s.defs s.next t M = some (tbl', n')) :
    ∃ s', elabModule s M.toModule = .ok s' ∧ TableWF s' ∧ s'.defs = tbl' ∧ s'.next = n' ∧ s'.top = some t ∧
      s'.pending = s.pending := by
  unfold lateStepA at h
  cases hf : s.defs.find? (fun d => d.name == M.name) with
  | none => simp [hf] at h
  | some L =>
    simp only [hf] at h
    have hLm := List.mem_of_find?_eq_some hf
    have hLn : L.name = M.name := by simpa using List.find?_some hf
    have hL : Has s M.name L := by rw [← hLn]; exact has_of_mem hwf hLm
    cases M with
    | work m =>
      simp only at h
      cases hb : buildLateWA L (s.defs.filter (fun x => x.name != m.base.name)) s.next m t with
      | none => simp [hb] at h
      | some r =>
        obtain ⟨D, ls', n1, ops⟩ := r
        simp only [hb, Option.some.injEq, Prod.mk.injEq] at h
        obtain ⟨e1, e2⟩ := h
        obtain ⟨s', g1, g2, g3, g4, g5, g6, g8, new, g9, g10⟩ := elabModule_lateWA s m t L D ls' n1 ops hwf hL htop hb
        refine ⟨s', g1, g2, ?_, by rw [g5, e2], by rw [g6, htop], g8⟩
        rw [g10, ← e1]
        congr 1
        have : (others s m.base.name).length = ((others s m.base.name).map (fun x => padOpsD x m.base.name ops)).length := by simp
        show new = ls'.drop (others s m.base.name).length
        rw [g9, this, List.drop_left]
    | leaf lf =>
      simp only at h
      cases hb : buildLeafX L s.next lf with
      | none => simp [hb] at h
      | some r =>
        obtain ⟨L', n1, ops⟩ := r
        simp only [hb, Option.some.injEq, Prod.mk.injEq] at h
        obtain ⟨e1, e2⟩ := h
        have hR : RowsFull s lf.base.name L.ports.length := by
          have := rowsFull_of_wf hwf hLm
          rw [hLn] at this; exact this
        have g1 := elabModule_leafX s lf L L' n1 ops hL hR hb
        refine ⟨_, g1, elabModule_wf s _ _ hwf g1, ?_, by rw [← e2]; rfl, ?_, ?_⟩
        · rw [← e1]; exact defs_put_padOps s lf.base.name L' n1 ops
        · show (padOps s lf.base.name ops).top = _; rw [(padOps_defs lf.base.name ops s).2.2.1]; exact htop
        · show (padOps s lf.base.name ops).pending = _; rw [(padOps_defs lf.base.name ops s).2.2.2.2]

theorem late_foldA (t : String) : ∀ (Ms : List WAnyA) (s : St) (tbl' : List Def) (n' : Nat), TableWF s → s.top = some t →
    foldLateA s.defs s.next t Ms = some (tbl', n') →
    ∃ s', (Ms.map WAnyA.toModule).foldlM elabModule s = .ok s' ∧ TableWF s' ∧ s'.defs = tbl' ∧ s'.next = n' ∧
      s'.top = some t ∧ s'.pending = s.pending := by
  intro Ms
  induction Ms with
  | nil =>
    intro s tbl' n' hwf htop h
    simp only [foldLateA, Option.some.injEq, Prod.mk.injEq] at h
    exact ⟨s, rfl, hwf, h.1, h.2, htop, rfl⟩
  | cons M Ms ih =>
    intro s tbl' n' hwf htop h
    unfold foldLateA at h
    cases hs : lateStepA s.defs s.next t M with
    | none => simp [hs] at h
    | some r =>
      obtain ⟨tbl1, n1⟩ := r
      simp only [hs] at h
      obtain ⟨s1, g1, g2, g3, g4, g5, g7⟩ := late_stepA s t M tbl1 n1 hwf htop hs
      rw [← g3, ← g4] at h
      obtain ⟨s2, f1, f2, f3, f4, f5, f7⟩ := ih s1 tbl' n' g2 g5 h
      refine ⟨s2, ?_, f2, f3, f4, f5, f7.trans g7⟩
      simp only [List.map_cons, List.foldlM_cons, bind, Except.bind, g1]
      exact f1

/-- the table the reader builds for a hierarchical file with assigns in the writer's order (pure) -/
def buildHierA (m : WModA) (Ms : List WAnyA) : Option (List Def × Nat) :=
  match buildTopA m with
  | none => none
  | some r =>
    match foldLateA (r.1 :: r.2.1) r.2.2 m.base.name Ms with
    | none => none
    | some r5 => some (r5.1.map markBB, r5.2)

/-- **elabDesign_hierA.**  A file that consists of the top module followed by the modules it reaches — work modules with
    nets, ASSIGNS and instances, `celldefine` modules — each declared after a module that instantiates it, through the
    REAL `elabDesign`: the table is `buildHierA`. -/
theorem elabDesign_hierA (m : WModA) (Ms : List WAnyA) (defs : List Def) (n : Nat) (hb : buildHierA m Ms = some (defs, n)) :
    ∃ ac, elabDesign (m.toModule :: Ms.map WAnyA.toModule) = .ok ⟨defs, n, some m.base.name, ac, []⟩ := by
  unfold buildHierA at hb
  cases h3 : buildTopA m with
  | none => simp [h3] at hb
  | some r3 =>
    obtain ⟨D, ls, n3⟩ := r3
    simp only [h3] at hb
    cases h5 : foldLateA (D :: ls) n3 m.base.name Ms with
    | none => simp [h5] at hb
    | some r5 =>
      obtain ⟨tbl, n5⟩ := r5
      simp only [h5, Option.some.injEq, Prod.mk.injEq] at hb
      obtain ⟨hdefs, hn⟩ := hb
      obtain ⟨S1, hE, hwf1, hd1, hn1, ht1, hp1, _⟩ := elabModule_wtopA m D ls n3 h3
      obtain ⟨s', g1, _, g3, g4, g5, g7⟩ := late_foldA m.base.name Ms S1 tbl n5 hwf1 ht1 (by rw [hd1, hn1]; exact h5)
      refine ⟨s'.acount, ?_⟩
      unfold elabDesign
      simp only [List.foldlM_cons, bind, Except.bind, hE, g1]
      have hp : s'.pending = [] := g7.trans hp1
      simp only [hp, List.foldlM_nil, pure, Except.pure]
      rw [← hdefs, ← hn]
      congr 1
      apply St.ext'
      · show s'.defs.map _ = tbl.map markBB
        rw [g3]; rfl
      · exact g4
      · exact g5
      · rfl
      · rfl

/-- non-vacuity: `top` (an assign between two of its nets, a two-bit assign) instantiates the work module `sub` (declared
    afterwards; it has an assign of its own of the same width, so the assignment definition is found in the table) and the
    primitive `LUT1`; both work modules have parameters in their headers -/
def exHierTopA : WModA :=
  ⟨⟨"top", [],
   [⟨"a", .inp, some (1, 0), []⟩, ⟨"y", .out, none, []⟩],
   [⟨"w", "wire", none, []⟩, ⟨"v", "wire", some (1, 0), []⟩, ⟨"y", "wire", none, []⟩, ⟨"a", "wire", some (1, 0), []⟩],
   [⟨"u0", "sub", [], [], [("p", .atom (.id "a")), ("q", .atom (.id "w"))]⟩,
    ⟨"u1", "LUT1", [], [], [("I0", .atom (.id "w")), ("O", .atom (.id "y"))]⟩]⟩,
   [(.id "v", .id "a"), (.bit "v" 0, .id "w")], [("W", "2")]⟩

def exHierMsA : List WAnyA :=
  [.work ⟨⟨"sub", [("keep", none)],
     [⟨"p", .inp, some (1, 0), []⟩, ⟨"q", .out, none, [("mark", none)]⟩],
     [⟨"r", "wire", none, []⟩, ⟨"q", "wire", none, []⟩, ⟨"p", "wire", some (1, 0), []⟩],
     [⟨"g0", "LUT1", [], [], [("I0", .atom (.bit "p" 0)), ("O", .atom (.id "r"))]⟩]⟩,
     [(.id "q", .id "r")], [("DEPTH", "4'h3"), ("MODE", "\"fast\"")]⟩,
   .leaf ⟨⟨"LUT1", [⟨"I0", .inp, none, []⟩, ⟨"O", .out, none, []⟩]⟩, [("cell", none)], [("INIT", "2'h1")]⟩]

theorem exHierA_builds : (buildHierA exHierTopA exHierMsA).isSome = true := by decide
end Spydr.Verilog.Elab
