/-
  Verilog engine — proof side, part 54 (assign statements): the view of the assignment instances (`asg_view_step`,
  `asgs_view`; fragment clause `asgOK`), the view of a definition with assigns (`viewTA`: assignment instances first;
  `view_coreA`), and a work module with assigns declared late (`astOfA`, `buildLateWA_view`).
-/
import Spydr.Verilog.RoundTripAsgC
import Spydr.Verilog.RoundTripAsgP
set_option maxHeartbeats 1600000
namespace Spydr.Verilog.Elab
open Spydr.Verilog

/-! ### the view of the assign instances -/

/-- is the instance an assignment?  (the writer's test: its definition lies in the assignment library) -/
def isAsgI (n : Text.WNet) (i : Text.WInst) : Bool :=
  match Text.refOf n i.ref with
  | some r => r.lib == "SDN_VERILOG_ASSIGNMENT"
  | none => false

/-- the two sides the writer prints for an assignment instance (`assignsText`) -/
def astAsg (n : Text.WNet) (T : Text.WDef) (i : Text.WInst) : Option (Atom × Atom) :=
  match Text.refOf n i.ref with
  | none => none
  | some r =>
    match r.ports.findIdx? (fun p => p.name == some "i"), r.ports.findIdx? (fun p => p.name == some "o") with
    | some ki, some ko => emitAssign (Text.envOf T) (i.pins.getD ko []) (i.pins.getD ki [])
    | _, _ => none

/-- the fragment, one assignment instance (the `k`-th of its module): its definition has the ports `i`, `o` in this order,
    no parameters and attributes on the instance, the two sides read back give the pins (a computed clause: one run of
    `readAssign`; `assign_regen` proves it for blocks of bits), and the names are the ones the reader generates -/
def asgOK (n : Text.WNet) (T : Text.WDef) (k : Nat) (i : Text.WInst) : Bool :=
  match Text.refOf n i.ref, astAsg n T i with
  | some r, some lr =>
    decide (r.ports.map (·.name) = [some "i", some "o"]) && (i.params.getD []).isEmpty && (i.attrs.getD []).isEmpty &&
    decide (readAssign (Text.envOf T) lr.1 lr.2 = some (i.pins.getD 1 [], i.pins.getD 0 [])) &&
    i.ref == assignDefName (i.pins.getD 1 []).length &&
    i.name == assignDefName (i.pins.getD 1 []).length ++ "_" ++ toString k
  | _, _ => false

def asgsOK (n : Text.WNet) (T : Text.WDef) : Nat → List Text.WInst → Bool
  | _, [] => true
  | k, i :: is => asgOK n T k i && asgsOK n T (k + 1) is

theorem asg_view_step (n : Text.WNet) (T : Text.WDef) (d : Def) (ac : Nat) (known : List Def) (i : Text.WInst)
    (lr : Atom × Atom) (d' : Def) (new : List Def) (hw : WInv d) (henv : envOf d = Text.envOf T)
    (ha : astAsg n T i = some lr) (hok : asgOK n T ac i = true) (hl : LeafInv n known)
    (hs : asgStepR d ac known (toX lr.1, toX lr.2) = some (d', new)) :
    ∃ inst, d'.insts = d.insts ++ [inst] ∧ d'.cables = d.cables ∧ d'.ports = d.ports ∧ d'.name = d.name ∧
      d'.attrs = d.attrs ∧ d'.lib = d.lib ∧ instViewD d inst = instViewT n i ∧ LeafInv n (known ++ new) := by
  unfold asgOK at hok
  cases hr : Text.refOf n i.ref with
  | none => simp [hr] at hok
  | some r =>
    simp only [hr, ha, Bool.and_eq_true, decide_eq_true_eq, List.isEmpty_iff, beq_iff_eq] at hok
    obtain ⟨⟨⟨⟨⟨o1, o2⟩, o3⟩, o4⟩, o5⟩, o6⟩ := hok
    unfold asgStepR at hs
    simp only at hs
    split at hs
    · rename_i lw rw hlw hrw
      obtain ⟨lbs, el, ml⟩ := atomWires_bits d hw lr.1 lw hlw
      obtain ⟨rbs, er, mr⟩ := atomWires_bits d hw lr.2 rw hrw
      rw [henv] at el er
      have hll : lw.length = lbs.length := by have := congrArg List.length ml; simpa using this
      have hrl : rw.length = rbs.length := by have := congrArg List.length mr; simpa using this
      have o4' : connectAssign lbs rbs = (i.pins.getD 1 [], i.pins.getD 0 []) := by
        unfold readAssign at o4
        rw [el, er] at o4
        exact Option.some.inj o4
      have p1 : (connectAssign lbs rbs).1 = i.pins.getD 1 [] := by rw [o4']
      have p0 : (connectAssign lbs rbs).2 = i.pins.getD 0 [] := by rw [o4']
      have hwd : (i.pins.getD 1 []).length = min lw.length rw.length := by
        rw [← p1, hll, hrl]; unfold connectAssign; simp
      split at hs
      · rename_i hc
        generalize hwv : min lw.length rw.length = w at hs hc hwd
        have hrows : pinBits d (connectAssign lw rw).2 = i.pins.getD 0 [] ∧ pinBits d (connectAssign lw rw).1 = i.pins.getD 1 [] := by
          rw [← p0, ← p1]
          unfold connectAssign
          simp only [pinBits_some, hll, hrl]
          constructor
          · rw [List.map_take, List.map_reverse, mr, ← List.map_reverse, List.map_take]
          · rw [List.map_take, List.map_reverse, ml, ← List.map_reverse, List.map_take]
        have hview : instViewD d ⟨assignDefName w ++ "_" ++ toString ac, assignDefName w, [], none,
            [(connectAssign lw rw).2, (connectAssign lw rw).1]⟩ = instViewT n i := by
          unfold instViewD instViewT
          have hlen : r.ports.length = 2 := by have := congrArg List.length o1; simpa using this
          simp only [hr, Option.map_some, Option.getD_some, hlen, o2, o3, List.map_cons, List.map_nil, hrows.1, hrows.2,
            Option.getD_none]
          rw [o5, o6, hwd]
          rfl
        cases hf : known.find? (fun x => x.name == assignDefName w) with
        | some rd =>
          simp only [hf] at hs
          split at hs
          · simp only [Option.some.injEq, Prod.mk.injEq] at hs
            obtain ⟨e1, e2⟩ := hs
            rw [← e1, ← e2, List.append_nil]
            exact ⟨_, rfl, rfl, rfl, rfl, rfl, rfl, hview, hl⟩
          · cases hs
        | none =>
          simp only [hf, Option.some.injEq, Prod.mk.injEq] at hs
          obtain ⟨e1, e2⟩ := hs
          rw [← e1, ← e2]
          refine ⟨_, rfl, rfl, rfl, rfl, rfl, rfl, hview, ?_⟩
          intro L hL
          rcases List.mem_append.mp hL with h | h
          · exact hl L h
          · simp only [List.mem_singleton] at h
            rw [h]
            refine ⟨r, ?_, ?_⟩
            · show Text.refOf n (assignDefName w) = some r
              rw [← hwd, ← o5]; exact hr
            · rw [o1]; rfl
      · cases hs
    · cases hs
theorem WInv_cables (d d' : Def) (h : d'.cables = d.cables) (hw : WInv d) : WInv d' := by
  unfold WInv at hw ⊢; rw [h]; exact hw

/-- **asgs_view.**  The assigns of a module, folded in: the new instances show the views of the assignment instances of
    the netlist, in order; the assignment definitions that enter the table are known to the netlist. -/
theorem asgs_view (n : Text.WNet) (T : Text.WDef) : ∀ (is : List Text.WInst) (as : List (Atom × Atom)) (k0 : Nat) (d : Def)
    (known : List Def) (d' : Def) (ac' : Nat) (known' : List Def),
    is.mapM (astAsg n T) = some as →
    foldAsg d k0 known (as.map (fun lr => (toX lr.1, toX lr.2))) = some (d', ac', known') →
    WInv d → envOf d = Text.envOf T → asgsOK n T k0 is = true → LeafInv n known →
    d'.insts.map (instViewD d) = d.insts.map (instViewD d) ++ is.map (instViewT n) ∧ d'.cables = d.cables ∧
      d'.ports = d.ports ∧ d'.name = d.name ∧ d'.attrs = d.attrs ∧ d'.lib = d.lib ∧ LeafInv n known' := by
  intro is
  induction is with
  | nil =>
    intro as k0 d known d' ac' known' hm hf _ _ _ hl
    simp only [List.mapM_nil, pure, Option.some.injEq] at hm
    subst hm
    simp only [List.map_nil, foldAsg, Option.some.injEq, Prod.mk.injEq] at hf
    obtain ⟨e1, _, e3⟩ := hf
    subst e1 e3
    exact ⟨by simp, rfl, rfl, rfl, rfl, rfl, hl⟩
  | cons i is ih =>
    intro as k0 d known d' ac' known' hm hf hw henv hok hl
    rw [List.mapM_cons] at hm
    cases ha : astAsg n T i with
    | none => simp [ha] at hm
    | some lr =>
      cases hr : is.mapM (astAsg n T) with
      | none => simp [ha, hr] at hm
      | some as' =>
        simp only [ha, hr, Option.bind_eq_bind, Option.bind_some, pure, Option.some.injEq] at hm
        subst hm
        simp only [asgsOK, Bool.and_eq_true] at hok
        simp only [List.map_cons] at hf
        unfold foldAsg at hf
        cases hs : asgStepR d k0 known (toX lr.1, toX lr.2) with
        | none => simp [hs] at hf
        | some r1 =>
          obtain ⟨d1, new1⟩ := r1
          simp only [hs] at hf
          obtain ⟨inst, g1, g2, g3, g4, g5, g6, g7, g8⟩ := asg_view_step n T d k0 known i lr d1 new1 hw henv ha hok.1 hl hs
          obtain ⟨f1, f2, f3, f4, f5, f6, f7⟩ := ih as' (k0 + 1) d1 (known ++ new1) d' ac' known' hr hf
            (WInv_cables d d1 g2 hw) (by rw [envOf_cables d d1 g2]; exact henv) hok.2 g8
          refine ⟨?_, f2.trans g2, f3.trans g3, f4.trans g4, f5.trans g5, f6.trans g6, f7⟩
          rw [instViewD_cables d d1 g2] at f1
          rw [f1, g1]
          simp only [List.map_append, List.map_cons, List.map_nil, List.append_assoc, List.cons_append, List.nil_append, g7]
/-! ### the view of a definition with assigns -/

def asgI (n : Text.WNet) (T : Text.WDef) : List Text.WInst := T.insts.filter (isAsgI n)
def ordI (n : Text.WNet) (T : Text.WDef) : List Text.WInst := T.insts.filter (fun i => !isAsgI n i)

/-- the view the re-read definition is compared with: as `viewT`, but the assignment instances come first (the writer
    prints the assigns of a module before its instances, whatever their order in the netlist) -/
def viewTA (n : Text.WNet) (T : Text.WDef) : DefView :=
  { viewT n T with insts := (asgI n T ++ ordI n T).map (instViewT n) }

/-- **view_coreA.**  `view_core` for a definition with assigns. -/
theorem view_coreA (n : Text.WNet) (T : Text.WDef) (ports : List PDecl) (insts : List PInst) (as : List (Atom × Atom))
    (d3 d3a d4 : Def) (ls lsa ls4 : List Def) (n3 aca : Nat) (hfrag : fragTop n T = true)
    (hports : T.ports.mapM (astPort T) = some ports) (hinsts : (ordI n T).mapM (astInst n T) = some insts)
    (hasg : (asgI n T).mapM (astAsg n T) = some as) (hok : asgsOK n T 0 (asgI n T) = true)
    (hpv : d3.ports.map pv = ports.map declV) (hPC : PC d3) (hWF : WF d3 n3)
    (hcabE : cabOf d3 = (T.cables.reverse.map astWire).foldl updW (ports.foldl updD ((ports.map (·.name)).foldl updS (fun _ => none))))
    (hi3 : d3.insts = []) (ha3 : d3.attrs = none) (hl : LeafInv n ls)
    (ha : foldAsg d3 0 ls (as.map (fun lr => (toX lr.1, toX lr.2))) = some (d3a, aca, lsa))
    (h4 : foldInst d3a lsa (insts.map PInst.toN) = some (d4, ls4)) :
    viewD (withAttrs (T.attrs.getD []) d4) = viewTA n T ∧ LeafInv n ls4 ∧ d4.ports = d3.ports ∧ d4.cables = d3.cables := by
  simp only [fragTop, Bool.and_eq_true, decide_eq_true_eq, List.all_eq_true] at hfrag
  obtain ⟨⟨⟨⟨F1, F1w⟩, F2n⟩, F2⟩, F3⟩ := hfrag
  obtain ⟨hplen, hpidx⟩ := mapM_index _ _ _ hports
  have hpspec : ∀ mp ∈ ports, ∃ p ∈ T.ports, astPort T p = some mp := mapM_mem _ _ _ hports
  have H2 : ∀ c ∈ T.cables, 1 ≤ c.width := fun c hc => by simpa using F1w c hc
  have H4 : ∀ p ∈ ports, ∃ c ∈ T.cables, c.name = p.name ∧ p.rng = emitDeclRange c.lower c.width := by
    intro mp hmp
    obtain ⟨p, _, hp⟩ := hpspec mp hmp
    obtain ⟨nm, c, dir, _, hc, _, e⟩ := astPort_spec T p mp hp
    refine ⟨c, List.mem_of_find?_eq_some hc, ?_, by rw [e]⟩
    rw [e]; simpa using List.find?_some hc
  have hpnames : ports.map (fun p => some p.name) = T.ports.map (·.name) := by
    apply List.ext_getElem (by simp [hplen])
    intro k g1 g2
    simp only [List.length_map] at g1 g2
    simp only [List.getElem_map]
    obtain ⟨nm, c, dir, hn, _, _, e⟩ := astPort_spec T _ _ (hpidx k g2 g1)
    rw [e, hn]
  have H3 : (ports.map (·.name)).Nodup := by
    have : (ports.map (·.name)).map some = T.ports.map (·.name) := by rw [List.map_map]; exact hpnames
    have hn : ((ports.map (·.name)).map some).Nodup := by rw [this]; exact F2n
    exact (List.pairwise_map.mp hn).imp (fun h e => h (congrArg some e))
  have hcab : ∀ nm, (cabOf d3 nm).map normV =
      (T.cables.find? (fun c => c.name == nm)).map (fun c => (c.lower, c.width, c.ctype.getD "wire", c.attrs.getD [])) := by
    intro nm
    rw [hcabE]
    exact cables_view T.cables ports F1 H2 H3 H4 nm
  have hfragP : ∀ p ∈ T.ports, ∀ nm, p.name = some nm → ∀ c, T.cables.find? (fun c => c.name == nm) = some c →
      p.lower = c.lower ∧ p.width = c.width ∧ p.pins = (cableBits nm c.lower c.width).items.map some := by
    intro p hp nm hn c hc
    have := F2 p hp
    simp only [hn, hc, Bool.and_eq_true, decide_eq_true_eq] at this
    exact ⟨this.1.1, this.1.2, this.2⟩
  have hportsV := ports_view T ports d3 hports hfragP H2 hpv hPC hWF.1 hcab
  have henv : envOf d3 = Text.envOf T := by
    funext nm
    have := hcab nm
    unfold cabOf at this
    unfold envOf Text.envOf
    cases h1 : d3.cables.find? (fun c => c.name == nm) with
    | none =>
      rw [h1] at this
      cases h2 : T.cables.find? (fun c => c.name == nm) with
      | none => rfl
      | some c => rw [h2] at this; cases this
    | some C =>
      rw [h1] at this
      cases h2 : T.cables.find? (fun c => c.name == nm) with
      | none => rw [h2] at this; cases this
      | some c =>
        rw [h2] at this
        simp only [Option.map_some, normV, Option.some.injEq, Prod.mk.injEq] at this
        simp [this.1, this.2.1]
  have hfragI : ∀ i ∈ T.insts, ∀ r, Text.refOf n i.ref = some r → (r.ports.map (·.name)).Nodup ∧
      ((i.params.getD []).map (·.1)).Nodup ∧
      ∀ k, k < r.ports.length → i.pins.getD k [] ≠ [] ∧ ReaderShape (Text.envOf T) (i.pins.getD k []) := by
    intro i hi r hr
    have := F3 i hi
    simp only [hr, Bool.and_eq_true, decide_eq_true_eq, List.all_eq_true, List.mem_range, Bool.not_eq_eq_eq_not,
      Bool.not_true] at this
    obtain ⟨⟨⟨g1, _⟩, g3⟩, g4⟩ := this
    refine ⟨g1, g3, ?_⟩
    intro k hk
    obtain ⟨a, b⟩ := g4 k hk
    exact ⟨by intro e; rw [e] at a; simp at a, readerShape_sound _ _ b⟩
  obtain ⟨z1, z2, z3, z4, z5, z6, z7⟩ := asgs_view n T (asgI n T) as 0 d3 ls d3a aca lsa hasg ha hWF.1 henv hok hl
  obtain ⟨k1, k2, k3⟩ := insts_view n T (ordI n T) insts d3a lsa d4 ls4 hinsts h4 (WInv_cables d3 d3a z2 hWF.1)
    (by rw [envOf_cables d3 d3a z2]; exact henv) (fun i hi => hfragI i (List.mem_filter.mp hi).1) z7
  obtain ⟨q1', q2', q3'⟩ := foldInst_frame _ d3a lsa d4 ls4 h4
  have q1 : d4.ports = d3.ports := q1'.trans z3
  have q2 : d4.cables = d3.cables := q2'.trans z2
  have q3 : d4.attrs = d3.attrs := q3'.trans z5
  refine ⟨?_, k3, q1, q2⟩
  have hbit : ∀ (dd : Def), dd.cables = d3.cables → pinBits dd = pinBits d3 := by
    intro dd h; funext row; unfold pinBits; rw [bitOf_cables d3 dd h]
  have hIV : ∀ (dd : Def), dd.cables = d3.cables → dd.insts = d4.insts →
      dd.insts.map (fun i => (⟨i.name, i.ref, i.params, i.attrs.getD [],
        i.pins.map (fun row => connectedBlock (pinBits dd row))⟩ : InstView)) = (asgI n T ++ ordI n T).map (instViewT n) := by
    intro dd h1 h2
    rw [h2, hbit dd h1]
    have := k1
    rw [instViewD_cables d3 d3a z2, z1, hi3] at this
    simp only [List.map_nil, List.nil_append] at this
    rw [List.map_append]
    exact this
  have hCV : ∀ (dd : Def), dd.cables = d3.cables → cabOf dd = cabOf d3 := by
    intro dd h; funext nm; unfold cabOf; rw [h]
  unfold withAttrs
  split
  · rename_i he
    unfold viewD viewTA viewT
    simp only [DefView.mk.injEq]
    refine ⟨?_, ?_, ?_, ?_⟩
    · rw [q3, ha3]
      simp only [Option.getD_none]
      exact (List.isEmpty_iff.mp he).symm
    · rw [q1, hbit d4 q2]; exact hportsV
    · funext nm; rw [hCV d4 q2]; exact hcab nm
    · exact hIV d4 q2 rfl
  · unfold viewD viewTA viewT
    simp only [DefView.mk.injEq]
    refine ⟨rfl, ?_, ?_, ?_⟩
    · show d4.ports.map _ = _
      have := hbit { d4 with attrs := some (T.attrs.getD []) } q2
      rw [this, q1]; exact hportsV
    · funext nm
      rw [hCV { d4 with attrs := some (T.attrs.getD []) } q2]; exact hcab nm
    · exact hIV { d4 with attrs := some (T.attrs.getD []) } q2 rfl
/-! ### a work module with assigns declared late shows the view of its definition -/

structure WModPA where
  base : WModP
  asgs : List (Atom × Atom)
  params : Params

def WModPA.toA (m : WModPA) : WModA := ⟨m.base.toI, m.asgs.map (fun lr => (toX lr.1, toX lr.2)), m.params⟩

/-- the module parameters the writer prints (`#(parameter k = v, …)`): every parameter needs a value -/
def astParams (T : Text.WDef) : Option Params :=
  match T.params with
  | none => some []
  | some ps => ps.mapM (fun kv => kv.2.map (fun v => (kv.1, v)))

/-- the syntax the writer prints for a definition with assigns: the instances that are no assignments, and the two sides of
    every assignment instance -/
def astOfA (n : Text.WNet) (T : Text.WDef) : Option WModPA :=
  match T.ports.mapM (astPort T), (ordI n T).mapM (astInst n T), (asgI n T).mapM (astAsg n T), astParams T with
  | some ports, some insts, some as, some ps =>
    some ⟨⟨T.name, T.attrs.getD [], ports, T.cables.reverse.map astWire, insts⟩, as, ps⟩
  | _, _, _, _ => none

/-- the assign fold only appends definitions, all of them of the assignment library -/
theorem foldAsg_new : ∀ (as : List (XAtom × XAtom)) (d : Def) (ac : Nat) (known : List Def) (d' : Def) (ac' : Nat)
    (known' : List Def), foldAsg d ac known as = some (d', ac', known') →
    ∃ new, known' = known ++ new ∧ ∀ x ∈ new, x.lib = some "SDN_VERILOG_ASSIGNMENT" := by
  intro as
  induction as with
  | nil =>
    intro d ac known d' ac' known' h
    simp only [foldAsg, Option.some.injEq, Prod.mk.injEq] at h
    exact ⟨[], by rw [← h.2.2]; simp, by intro x hx; cases hx⟩
  | cons a as ih =>
    intro d ac known d' ac' known' h
    unfold foldAsg at h
    cases hs : asgStepR d ac known a with
    | none => simp [hs] at h
    | some r =>
      obtain ⟨d1, new1⟩ := r
      simp only [hs] at h
      obtain ⟨new2, e2, h2⟩ := ih d1 (ac + 1) (known ++ new1) d' ac' known' h
      refine ⟨new1 ++ new2, by rw [e2, List.append_assoc], ?_⟩
      intro x hx
      rcases List.mem_append.mp hx with e | e
      · unfold asgStepR at hs
        split at hs
        · simp only at hs
          split at hs
          · split at hs
            · split at hs
              · simp only [Option.some.injEq, Prod.mk.injEq] at hs; rw [← hs.2] at e; cases e
              · cases hs
            · simp only [Option.some.injEq, Prod.mk.injEq] at hs
              rw [← hs.2] at e
              simp only [List.mem_singleton] at e
              rw [e]; rfl
          · cases hs
        · cases hs
      · exact h2 x e

theorem asgStepR_frame (d : Def) (ac : Nat) (known : List Def) (a : XAtom × XAtom) (d' : Def) (new : List Def)
    (h : asgStepR d ac known a = some (d', new)) : d'.name = d.name ∧ d'.lib = d.lib := by
  unfold asgStepR at h
  split at h
  · simp only at h
    split at h
    · split at h
      · split at h
        · simp only [Option.some.injEq, Prod.mk.injEq] at h; rw [← h.1]; exact ⟨rfl, rfl⟩
        · cases h
      · simp only [Option.some.injEq, Prod.mk.injEq] at h; rw [← h.1]; exact ⟨rfl, rfl⟩
    · cases h
  · cases h

theorem foldAsg_frame : ∀ (as : List (XAtom × XAtom)) (d : Def) (ac : Nat) (known : List Def) (d' : Def) (ac' : Nat)
    (known' : List Def), foldAsg d ac known as = some (d', ac', known') → d'.name = d.name ∧ d'.lib = d.lib := by
  intro as
  induction as with
  | nil =>
    intro d ac known d' ac' known' h
    simp only [foldAsg, Option.some.injEq, Prod.mk.injEq] at h
    rw [← h.1]; exact ⟨rfl, rfl⟩
  | cons a as ih =>
    intro d ac known d' ac' known' h
    unfold foldAsg at h
    cases hs : asgStepR d ac known a with
    | none => simp [hs] at h
    | some r =>
      obtain ⟨d1, new1⟩ := r
      simp only [hs] at h
      obtain ⟨a1, a2⟩ := ih d1 (ac + 1) (known ++ new1) d' ac' known' h
      obtain ⟨b1, b2⟩ := asgStepR_frame d ac known a d1 new1 hs
      exact ⟨a1.trans b1, a2.trans b2⟩

/-- **buildLateWA_view.**  The definition `buildLateWA` ends with for a work module `W` of the netlist (its written
    syntax `astOfA n W`) shows the view `viewTA` of `W`. -/
theorem buildLateWA_view (n : Text.WNet) (W : Text.WDef) (mW : WModPA) (L : Def) (ls : List Def) (nn : Nat) (t : String)
    (D : Def) (ls' : List Def) (n' : Nat) (ops : List (Nat × Nat))
    (hfrag : fragTop n W = true) (hok : asgsOK n W 0 (asgI n W) = true) (hm : astOfA n W = some mW) (hstub : StubOK L)
    (hl : LeafInv n ls) (hb : buildLateWA L ls nn mW.toA t = some (D, ls', n', ops)) :
    viewD D = viewTA n W ∧ D.lib = some "work" ∧ D.name = L.name ∧ LeafInv n ls' ∧
      (∃ new, ls' = ls.map (fun x => padOpsD x W.name ops) ++ new ∧ ∀ x ∈ new, StubOK x) ∧
      (∀ op ∈ ops, op.1 < L.ports.length) ∧ D.ports.map (·.name) = W.ports.map (·.name) ∧
      D.ports.map (·.name) = L.ports.map (·.name) ∧ D.params = mergeParams [] mW.params := by
  unfold astOfA at hm
  cases hports : W.ports.mapM (astPort W) with
  | none => simp [hports] at hm
  | some ports =>
    cases hinsts : (ordI n W).mapM (astInst n W) with
    | none => simp [hports, hinsts] at hm
    | some insts =>
      cases hasg : (asgI n W).mapM (astAsg n W) with
      | none => simp [hports, hinsts, hasg] at hm
      | some as =>
       cases hpar : astParams W with
       | none => simp [hports, hinsts, hasg, hpar] at hm
       | some pars =>
        simp only [hports, hinsts, hasg, hpar, Option.some.injEq] at hm
        subst hm
        unfold buildLateWA WModPA.toA WModP.toI at hb
        generalize hws : W.cables.reverse.map astWire = wires at hb
        simp only at hb
        split at hb
        · rename_i hc
          obtain ⟨hlib, hi, hnames, hnd, _, hLpar⟩ := hc
          obtain ⟨hLc, _, hLa, hLp⟩ := hstub hlib
          generalize hL1 : entryDef L pars = L1 at hb
          cases h1 : foldLocal hdrStepL L1 nn (ports.map (·.name)) with
          | none => simp [h1] at hb
          | some r1 =>
            obtain ⟨d1, n1⟩ := r1
            simp only [h1] at hb
            cases h2 : foldDeclA d1 n1 ports with
            | none => simp [h2] at hb
            | some r2 =>
              obtain ⟨d2, n2, ops2⟩ := r2
              simp only [h2] at hb
              cases h3 : foldLocal wireStep d2 n2 wires with
              | none => simp [h3] at hb
              | some r3 =>
                obtain ⟨d3, n3⟩ := r3
                simp only [h3] at hb
                split at hb
                · cases ha : foldAsg d3 0 (ls.map (fun x => padOpsD x W.name ops2)) (as.map (fun lr => (toX lr.1, toX lr.2))) with
                  | none => simp [ha] at hb
                  | some ra =>
                    obtain ⟨d3a, aca, lsa⟩ := ra
                    simp only [ha] at hb
                    cases h4 : foldInst d3a lsa (insts.map PInst.toN) with
                    | none => simp [h4] at hb
                    | some r4 =>
                      obtain ⟨d4, ls4⟩ := r4
                      simp only [h4, Option.some.injEq, Prod.mk.injEq] at hb
                      obtain ⟨e1, e2, e3, e4⟩ := hb
                      subst e1 e2 e3 e4
                      have hf := late_facts L1 nn ports wires d1 d2 d3 n1 n2 n3 ops2 (by rw [← hL1]; exact hLc) (by rw [← hL1]; exact hnames)
                        hnd (by rw [← hL1]; exact hLp) h1 h2 h3
                      obtain ⟨f1, f2, f3, f4, f5, f6, f7, f8⟩ := hf
                      rw [← hws] at f4
                      have hlpad : LeafInv n (ls.map (fun x => padOpsD x W.name ops2)) := by
                        intro x hx
                        obtain ⟨y, hy, e⟩ := List.mem_map.mp hx
                        obtain ⟨r, hr, hp⟩ := hl y hy
                        rw [← e]
                        exact ⟨r, hr, hp⟩
                      obtain ⟨v1, v2, v3, v4⟩ := view_coreA n W ports insts as d3 d3a d4 _ lsa ls4 n3 aca hfrag hports hinsts hasg
                        hok f1 f2 f3 f4 (by rw [f5, ← hL1]; exact hi) (by rw [f6, ← hL1]; exact hLa) hlpad ha h4
                      obtain ⟨newA, enA, hnewA⟩ := foldAsg_new _ d3 0 _ d3a aca lsa ha
                      obtain ⟨new, en, hnew⟩ := foldInst_new _ d3a _ d4 ls4 h4
                      obtain ⟨z4, z6⟩ := foldAsg_frame _ d3 0 _ d3a aca lsa ha
                      have hlib4 : d4.lib = some "work" := by rw [foldInst_lib _ d3a _ d4 ls4 h4, z6, f7, ← hL1]; rfl
                      have hname4 : d4.name = L.name := by
                        have hn : d4.name = d3a.name := foldInst_name _ d3a _ d4 ls4 h4
                        rw [hn, z4, f8, ← hL1]; rfl
                      have hp4 : (withAttrs (W.attrs.getD []) d4).ports = d4.ports := by unfold withAttrs; split <;> rfl
                      have hnm4 : (withAttrs (W.attrs.getD []) d4).ports.map (·.name) = (ports.map (·.name)).map some := by
                        rw [hp4, v3]
                        have := congrArg (List.map (fun (x : PV) => x.1)) f1
                        simp only [List.map_map, pv, declV, Function.comp_def] at this
                        rw [this, List.map_map]; rfl
                      refine ⟨v1, ?_, ?_, v2, ⟨newA ++ new, by rw [en, enA, List.append_assoc], ?_⟩, ?_, ?_, by rw [hnm4, hnames], ?_⟩
                      · unfold withAttrs; split <;> simp [hlib4]
                      · unfold withAttrs; split <;> simp [hname4]
                      · intro x hx
                        rcases List.mem_append.mp hx with e | e
                        · intro hl'; rw [hnewA x e] at hl'; cases hl'
                        · exact (hnew x e).1
                      · have := foldDeclA_bound ports d1 n1 d2 n2 ops2 h2
                        have hlen : d1.ports.length = L.ports.length := by
                          have := foldLocal_pres (fun d => d.ports.map (·.name)) hdrStepL hdrStepL_names _ _ _ _ _ h1
                          have := congrArg List.length this
                          simp only [List.length_map] at this
                          rw [this, ← hL1]; rfl
                        intro op hop
                        rw [← hlen]; exact this op hop
                      · rw [hp4, v3]
                        have := congrArg (List.map (fun (x : PV) => x.1)) f1
                        simp only [List.map_map, pv, declV, Function.comp_def] at this
                        rw [this]
                        obtain ⟨hplen, hpidx⟩ := mapM_index _ _ _ hports
                        apply List.ext_getElem (by simp [hplen])
                        intro k g1 g2
                        simp only [List.length_map] at g1 g2
                        simp only [List.getElem_map]
                        obtain ⟨nm, c, dir, hn, _, _, e⟩ := astPort_spec W _ _ (hpidx k g2 g1)
                        rw [e, hn]
                      · rw [withAttrs_params, foldInst_params _ d3a _ d4 ls4 h4, foldAsg_params _ d3 0 _ d3a aca lsa ha,
                          foldLocal_pres (·.params) wireStep wireStep_params _ _ _ _ _ h3,
                          foldDeclA_params ports d1 n1 d2 n2 ops2 h2,
                          foldLocal_pres (·.params) hdrStepL hdrStepL_params _ _ _ _ _ h1, ← hL1]
                        show mergeParams L.params pars = _
                        rw [hLpar]
                · cases hb
        · cases hb
end Spydr.Verilog.Elab
