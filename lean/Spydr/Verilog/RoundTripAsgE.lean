/-
  Verilog engine — proof side, part 55 (assign statements): C04 for a HIERARCHICAL netlist WITH ASSIGNS up to the syntax
  trees (`c04_view_hierA`, `c04_ast_hierA`): every module of the file shows the view `viewTA` (assignment instances
  first) / the interface of its definition in the netlist; non-vacuity `exNetHA_frag`.
-/
import Spydr.Verilog.RoundTripAsgD
import Spydr.Verilog.RoundTripAsgU
set_option maxHeartbeats 1600000
namespace Spydr.Verilog.Elab
open Spydr.Verilog

/-! ### the views of ALL modules of a hierarchical file with assigns -/

/-- the module parameters a written definition comes back with: the written ones, a repeated key keeps its first value -/
def paramsOf (W : Text.WDef) : Params := mergeParams [] ((astParams W).getD [])

/-- the written syntax of a primitive: ports (a port without direction keeps `.undef`: it is printed with the comment),
    attributes, module parameters -/
def astLeafXU (r : Text.WDef) : Option WLeafX :=
  match astLeafU r, astParams r with
  | some lf, some ps => some ⟨lf, r.attrs.getD [], ps⟩
  | _, _ => none

/-- the module the parser returns for it -/
def inoutifyX (lf : WLeafX) : WLeafX := ⟨inoutify lf.base, lf.attrs, lf.params⟩

theorem astLeafXU_spec (r : Text.WDef) (lf : WLeafX) (h : astLeafXU r = some lf) :
    astLeafU r = some lf.base ∧ lf.attrs = r.attrs.getD [] ∧ astParams r = some lf.params := by
  unfold astLeafXU at h
  cases h1 : astLeafU r with
  | none => simp [h1] at h
  | some b =>
    cases h2 : astParams r with
    | none => simp [h1, h2] at h
    | some ps => simp only [h1, h2, Option.some.injEq] at h; rw [← h]; exact ⟨rfl, rfl, rfl⟩

/-- every primitive declared so far shows its interface, its attributes and its parameters -/
def DoneLX (defs : List Def) (Rl : List Text.WDef) : Prop :=
  ∀ r ∈ Rl, ∃ L ∈ defs, L.name = r.name ∧ L.lib = some "hdi_primitives" ∧ ifaceD L = ifaceT r ∧
    L.attrs.getD [] = r.attrs.getD [] ∧ L.params = paramsOf r

/-- the syntax the writer prints for a definition written after the top: a `celldefine` module for a primitive, a module
    for anything else -/
def astAnyA (n : Text.WNet) (r : Text.WDef) : Option WAnyA :=
  if r.lib == "hdi_primitives" then (astLeafXU r).map (fun lf => WAnyA.leaf (inoutifyX lf))
  else (astOfA n r).map (fun m => WAnyA.work m.toA)

/-- the fragment, one module: a primitive, or a work module in `fragTop` whose assignment instances are in `asgsOK` -/
def fragTopA (n : Text.WNet) (r : Text.WDef) : Bool := fragTop n r && asgsOK n r 0 (asgI n r)

def fragAnyA (n : Text.WNet) (r : Text.WDef) : Bool := r.lib == "hdi_primitives" || fragTopA n r

def DoneWA (n : Text.WNet) (defs : List Def) (Ws : List Text.WDef) : Prop :=
  ∀ W ∈ Ws, ∃ D ∈ defs, D.name = W.name ∧ viewD D = viewTA n W ∧ D.lib = some "work" ∧ D.params = paramsOf W

theorem astOfA_name (n : Text.WNet) (r : Text.WDef) (m : WModPA) (hm : astOfA n r = some m) :
    m.toA.base.name = r.name ∧ m.toA.base.attrs = r.attrs.getD [] ∧ astParams r = some m.params := by
  unfold astOfA at hm
  cases h1 : r.ports.mapM (astPort r) with
  | none => simp [h1] at hm
  | some ports =>
    cases h2 : (ordI n r).mapM (astInst n r) with
    | none => simp [h1, h2] at hm
    | some insts =>
      cases h3 : (asgI n r).mapM (astAsg n r) with
      | none => simp [h1, h2, h3] at hm
      | some as =>
        cases h4 : astParams r with
        | none => simp [h1, h2, h3, h4] at hm
        | some ps => simp only [h1, h2, h3, h4, Option.some.injEq] at hm; rw [← hm]; exact ⟨rfl, rfl, rfl⟩

theorem astAnyA_name (n : Text.WNet) (r : Text.WDef) (M : WAnyA) (h : astAnyA n r = some M) : M.name = r.name := by
  unfold astAnyA at h
  split at h
  · simp only [Option.map_eq_some_iff] at h
    obtain ⟨lf, hlf, e⟩ := h
    rw [← e]
    exact (astLeafU_iface r lf.base (astLeafXU_spec r lf hlf).1).1
  · simp only [Option.map_eq_some_iff] at h
    obtain ⟨m, hm, e⟩ := h
    rw [← e]
    exact (astOfA_name n r m hm).1

/-- the facts about the new table that do not depend on the kind of module: earlier views and interfaces survive the
    padding of instance rows -/
theorem done_padA (n : Text.WNet) (defs : List Def) (nm : String) (D L : Def) (ops : List (Nat × Nat)) (extra : List Def)
    (Ws Rl : List Text.WDef) (hfull : FullT defs) (hL : L ∈ defs) (hLn : L.name = nm)
    (hops : ∀ op ∈ ops, op.1 < L.ports.length) (hdw : DoneWA n defs Ws) (hdl : DoneLX defs Rl)
    (hnw : ∀ W ∈ Ws, W.name ≠ nm) (hnl : ∀ x ∈ Rl, x.name ≠ nm) :
    DoneWA n (defs.map (fun x => if x.name == nm then D else padOpsD x nm ops) ++ extra) Ws ∧
    DoneLX (defs.map (fun x => if x.name == nm then D else padOpsD x nm ops) ++ extra) Rl := by
  constructor
  · intro W hW
    obtain ⟨D0, hD0, e1, e2, e3, e4⟩ := hdw W hW
    have hne : D0.name ≠ nm := by rw [e1]; exact hnw W hW
    refine ⟨padOpsD D0 nm ops, List.mem_append_left _ (maptbl_other defs nm D ops D0 hD0 hne), e1, ?_, e3, e4⟩
    rw [viewD_padOps D0 nm L.ports.length ops (fun i hi e => hfull L hL D0 hD0 i hi (e.trans hLn.symm)) hops]
    exact e2
  · intro x hx
    obtain ⟨L0, hL0, e1, e2, e3, e4, e5⟩ := hdl x hx
    have hne : L0.name ≠ nm := by rw [e1]; exact hnl x hx
    exact ⟨padOpsD L0 nm ops, List.mem_append_left _ (maptbl_other defs nm D ops L0 hL0 hne), e1, e2, e3, e4, e5⟩
/-- a work module declared late, on the table (pure) -/
theorem hier_tbl_workA (n : Text.WNet) (t : String) (defs : List Def) (nx : Nat) (r : Text.WDef) (m : WModPA)
    (tbl' : List Def) (n' : Nat) (Ws Rl : List Text.WDef) (hfull : FullT defs) (hleaf : LeafInv n defs)
    (hstub : ∀ D ∈ defs, StubOK D) (hfrag : fragTopA n r = true) (hm : astOfA n r = some m)
    (hstep : lateStepA defs nx t (.work m.toA) = some (tbl', n'))
    (hdw : DoneWA n defs Ws) (hdl : DoneLX defs Rl) (hnw : ∀ W ∈ Ws, W.name ≠ r.name) (hnl : ∀ x ∈ Rl, x.name ≠ r.name) :
    LeafInv n tbl' ∧ (∀ D ∈ tbl', StubOK D) ∧ DoneWA n tbl' (r :: Ws) ∧ DoneLX tbl' Rl := by
  obtain ⟨hMn, _, hMp⟩ := astOfA_name n r m hm
  have hfr : fragTop n r = true ∧ asgsOK n r 0 (asgI n r) = true := by
    simpa [fragTopA] using hfrag
  unfold lateStepA at hstep
  simp only [WAnyA.name] at hstep
  cases hf : defs.find? (fun d => d.name == m.toA.base.name) with
  | none => simp [hf] at hstep
  | some L =>
    simp only [hf] at hstep
    have hLm := List.mem_of_find?_eq_some hf
    have hLn : L.name = m.toA.base.name := by simpa using List.find?_some hf
    cases hb : buildLateWA L (defs.filter (fun x => x.name != m.toA.base.name)) nx m.toA t with
    | none => simp [hb] at hstep
    | some rr =>
      obtain ⟨D, ls', n1, ops⟩ := rr
      simp only [hb, Option.some.injEq, Prod.mk.injEq] at hstep
      obtain ⟨e1, _⟩ := hstep
      obtain ⟨v1, v2, v3, v4, ⟨new, en, hnew⟩, v6, _, v8, v9⟩ := buildLateWA_view n r m L _ nx t D ls' n1 ops hfr.1 hfr.2 hm
        (hstub L hLm) (leafInv_sub n defs _ hleaf) hb
      have hdrop : ls'.drop (defs.filter (fun x => x.name != m.toA.base.name)).length = new := by
        have : (defs.filter (fun x => x.name != m.toA.base.name)).length =
            ((defs.filter (fun x => x.name != m.toA.base.name)).map (fun x => padOpsD x r.name ops)).length := by simp
        rw [en, this, List.drop_left]
      rw [hdrop, hMn] at e1
      rw [hMn] at hLn
      obtain ⟨p1, p2⟩ := done_padA n defs r.name D L ops new Ws Rl hfull hLm hLn v6 hdw hdl hnw hnl
      rw [← e1]
      refine ⟨?_, ?_, ?_, p2⟩
      · intro x hx
        rcases List.mem_append.mp hx with h | h
        · rcases mem_maptbl defs r.name D ops x h with e | ⟨y, hy, _, e⟩
          · obtain ⟨r0, hr0, hp0⟩ := hleaf L hLm
            rw [e]
            exact ⟨r0, by rw [v3]; exact hr0, by rw [v8]; exact hp0⟩
          · obtain ⟨r0, hr0, hp0⟩ := hleaf y hy
            rw [e]
            exact ⟨r0, hr0, hp0⟩
        · exact v4 x (by rw [en]; exact List.mem_append_right _ h)
      · intro x hx
        rcases List.mem_append.mp hx with h | h
        · rcases mem_maptbl defs r.name D ops x h with e | ⟨y, hy, _, e⟩
          · rw [e]; intro hl; rw [v2] at hl; cases hl
          · rw [e]; exact stubOK_pad y r.name ops (hstub y hy)
        · exact hnew x h
      · intro W hW
        rcases List.mem_cons.mp hW with e | e
        · rw [e]
          exact ⟨D, List.mem_append_left _ (maptbl_self defs r.name D ops L hLm hLn), v3.trans hLn, v1, v2,
            by rw [v9]; unfold paramsOf; rw [hMp]; rfl⟩
        · exact p1 W e

/-- a primitive declared late, on the table (pure) -/
theorem hier_tbl_leafA (n : Text.WNet) (t : String) (defs : List Def) (nx : Nat) (r : Text.WDef) (lfU : WLeafX)
    (tbl' : List Def) (n' : Nat) (Ws Rl : List Text.WDef) (hfull : FullT defs) (hleaf : LeafInv n defs)
    (hstub : ∀ D ∈ defs, StubOK D) (ha : astLeafXU r = some lfU)
    (hstep : lateStepA defs nx t (.leaf (inoutifyX lfU)) = some (tbl', n'))
    (hdw : DoneWA n defs Ws) (hdl : DoneLX defs Rl) (hnw : ∀ W ∈ Ws, W.name ≠ r.name) (hnl : ∀ x ∈ Rl, x.name ≠ r.name) :
    LeafInv n tbl' ∧ (∀ D ∈ tbl', StubOK D) ∧ DoneWA n tbl' Ws ∧ DoneLX tbl' (r :: Rl) := by
  obtain ⟨hU, hat, hpar⟩ := astLeafXU_spec r lfU ha
  obtain ⟨hMn, hifc⟩ := astLeafU_iface r lfU.base hU
  generalize hlf : inoutifyX lfU = lf at hstep
  have hlfb : lf.base = inoutify lfU.base := by rw [← hlf]; rfl
  have hlfa : lf.attrs = lfU.attrs := by rw [← hlf]; rfl
  have hlfp : lf.params = lfU.params := by rw [← hlf]; rfl
  rw [← hlfb] at hMn hifc
  unfold lateStepA at hstep
  simp only [WAnyA.name] at hstep
  cases hf : defs.find? (fun d => d.name == lf.base.name) with
  | none => simp [hf] at hstep
  | some L =>
    simp only [hf] at hstep
    have hLm := List.mem_of_find?_eq_some hf
    have hLn : L.name = lf.base.name := by simpa using List.find?_some hf
    cases hb : buildLeafX L nx lf with
    | none => simp [hb] at hstep
    | some rr =>
      obtain ⟨L', n1, ops⟩ := rr
      simp only [hb, Option.some.injEq, Prod.mk.injEq] at hstep
      obtain ⟨e1, _⟩ := hstep
      have hlibL : L.lib = none := by
        unfold buildLeafX at hb
        split at hb
        · cases hb0 : buildLeaf { L with params := mergeParams L.params lf.params } nx lf.base.ports with
          | none => simp [hb0] at hb
          | some r0 => exact (buildLeaf_bound _ nx lf.base.ports r0.1 r0.2.1 r0.2.2 hb0).2.1
        · cases hb
      obtain ⟨sc, _, sa, sp⟩ := hstub L hLm hlibL
      obtain ⟨b1, b2, b3, b4, c1, c2, c3, c4⟩ := buildLeafX_facts L nx lf L' n1 ops hb (fun P hP => (sp P hP).1) sa
      rw [hMn] at e1 hLn
      obtain ⟨p1, p2⟩ := done_padA n defs r.name L' L ops [] Ws Rl hfull hLm hLn b1 hdw hdl hnw hnl
      simp only [List.append_nil] at p1 p2
      rw [← e1]
      refine ⟨?_, ?_, p1, ?_⟩
      · intro x hx
        rcases mem_maptbl defs r.name L' ops x hx with e | ⟨y, hy, _, e⟩
        · obtain ⟨r0, hr0, hp0⟩ := hleaf L hLm
          rw [e]
          exact ⟨r0, by rw [b4]; exact hr0, by rw [b3]; exact hp0⟩
        · obtain ⟨r0, hr0, hp0⟩ := hleaf y hy
          rw [e]
          exact ⟨r0, hr0, hp0⟩
      · intro x hx
        rcases mem_maptbl defs r.name L' ops x hx with e | ⟨y, hy, _, e⟩
        · rw [e]; intro hl; rw [c2] at hl; cases hl
        · rw [e]; exact stubOK_pad y r.name ops (hstub y hy)
      · intro x hx
        rcases List.mem_cons.mp hx with e | e
        · rw [e]
          exact ⟨L', maptbl_self defs r.name L' ops L hLm hLn, b4.trans hLn, c2, c1.trans hifc,
            by rw [c3, hlfa, hat], by rw [c4, hlfp]; unfold paramsOf; rw [hpar]; rfl⟩
        · exact p2 x e
/-- **hier_foldA.**  The later modules of a hierarchical file, one after the other: the run succeeds, and at the end every
    work module shows the view and every primitive the interface of its definition in the netlist. -/
theorem hier_foldA (n : Text.WNet) (t : String) : ∀ (Rs : List Text.WDef) (Ms : List WAnyA) (s : St) (tbl' : List Def) (n' : Nat)
    (Ws Rl : List Text.WDef), Rs.mapM (astAnyA n) = some Ms → (∀ r ∈ Rs, fragAnyA n r = true) → (Rs.map (·.name)).Nodup →
    (∀ r ∈ Rs, ∀ W ∈ Ws, W.name ≠ r.name) → (∀ r ∈ Rs, ∀ x ∈ Rl, x.name ≠ r.name) →
    HI n s → s.top = some t → foldLateA s.defs s.next t Ms = some (tbl', n') →
    DoneWA n s.defs Ws → DoneLX s.defs Rl →
    ∃ s', (Ms.map WAnyA.toModule).foldlM elabModule s = .ok s' ∧ s'.defs = tbl' ∧ s'.next = n' ∧ s'.top = some t ∧
      s'.pending = s.pending ∧
      DoneWA n s'.defs (Ws ++ Rs.filter (fun r => !isPrim r)) ∧ DoneLX s'.defs (Rl ++ Rs.filter isPrim) := by
  intro Rs
  induction Rs with
  | nil =>
    intro Ms s tbl' n' Ws Rl hM _ _ _ _ hi htop h hdw hdl
    simp only [List.mapM_nil, pure, Option.some.injEq] at hM
    subst hM
    simp only [foldLateA, Option.some.injEq, Prod.mk.injEq] at h
    exact ⟨s, rfl, h.1, h.2, htop, rfl, by simpa using hdw, by simpa using hdl⟩
  | cons r Rs ih =>
    intro Ms s tbl' n' Ws Rl hM hfa hnd hnw hnl hi htop h hdw hdl
    rw [List.mapM_cons] at hM
    cases ha : astAnyA n r with
    | none => simp [ha] at hM
    | some M =>
      cases hr : Rs.mapM (astAnyA n) with
      | none => simp [ha, hr] at hM
      | some Ms' =>
        simp only [ha, hr, Option.bind_eq_bind, Option.bind_some, pure, Option.some.injEq] at hM
        subst hM
        unfold foldLateA at h
        cases hs : lateStepA s.defs s.next t M with
        | none => simp [hs] at h
        | some r1 =>
          obtain ⟨tbl1, n1⟩ := r1
          simp only [hs] at h
          obtain ⟨s1, g1, g2, g3, g4, g5, g7⟩ := late_stepA s t M tbl1 n1 hi.wf htop hs
          rw [List.map_cons, List.nodup_cons] at hnd
          have hrest : ∀ x ∈ Rs, x.name ≠ r.name := fun x hx e => hnd.1 (List.mem_map.mpr ⟨x, hx, e⟩)
          -- the facts about the new table
          have hfacts : LeafInv n tbl1 ∧ (∀ D ∈ tbl1, StubOK D) ∧
              DoneWA n tbl1 (if isPrim r then Ws else r :: Ws) ∧ DoneLX tbl1 (if isPrim r then r :: Rl else Rl) := by
            have hfr := hfa r List.mem_cons_self
            unfold astAnyA at ha
            unfold fragAnyA at hfr
            by_cases hp : (r.lib == "hdi_primitives") = true
            · simp only [hp, if_true, Option.map_eq_some_iff] at ha
              obtain ⟨lf, hlf, e⟩ := ha
              subst e
              have := hier_tbl_leafA n t s.defs s.next r lf tbl1 n1 Ws Rl (fullT_of_wf hi.wf) hi.leaf hi.stub hlf hs hdw hdl
                (hnw r List.mem_cons_self) (hnl r List.mem_cons_self)
              simpa [isPrim, hp] using this
            · have hp' : (r.lib == "hdi_primitives") = false := by simpa using hp
              simp only [hp', Bool.false_eq_true, if_false, Option.map_eq_some_iff] at ha
              obtain ⟨m, hm, e⟩ := ha
              subst e
              simp only [hp', Bool.false_or] at hfr
              have := hier_tbl_workA n t s.defs s.next r m tbl1 n1 Ws Rl (fullT_of_wf hi.wf) hi.leaf hi.stub hfr hm hs hdw hdl
                (hnw r List.mem_cons_self) (hnl r List.mem_cons_self)
              simpa [isPrim, hp'] using this
          obtain ⟨k1, k2, k3, k4⟩ := hfacts
          have hi1 : HI n s1 := ⟨g2, by rw [g3]; exact k1, by rw [g3]; exact k2⟩
          rw [← g3, ← g4] at h
          obtain ⟨s2, f1, f2, f3, f4, f6, f7, f8⟩ := ih Ms' s1 tbl' n' (if isPrim r then Ws else r :: Ws)
            (if isPrim r then r :: Rl else Rl) hr
            (fun x hx => hfa x (List.mem_cons_of_mem _ hx)) hnd.2
            (by
              intro x hx W hW
              split at hW
              · exact hnw x (List.mem_cons_of_mem _ hx) W hW
              · rcases List.mem_cons.mp hW with e | e
                · rw [e]; exact fun e' => hrest x hx e'.symm
                · exact hnw x (List.mem_cons_of_mem _ hx) W e)
            (by
              intro x hx y hy
              split at hy
              · rcases List.mem_cons.mp hy with e | e
                · rw [e]; exact fun e' => hrest x hx e'.symm
                · exact hnl x (List.mem_cons_of_mem _ hx) y e
              · exact hnl x (List.mem_cons_of_mem _ hx) y hy)
            hi1 g5 h (by rw [g3]; exact k3) (by rw [g3]; exact k4)
          refine ⟨s2, ?_, f2, f3, f4, f6.trans g7, ?_, ?_⟩
          · simp only [List.map_cons, List.foldlM_cons, bind, Except.bind, g1]
            exact f1
          · intro W hW
            apply f7 W
            rcases List.mem_append.mp hW with e | e
            · apply List.mem_append_left
              split
              · exact e
              · exact List.mem_cons_of_mem _ e
            · simp only [List.filter_cons] at e
              split at e
              · rename_i hnp
                rcases List.mem_cons.mp e with e' | e'
                · apply List.mem_append_left
                  have : isPrim r = false := by simpa using hnp
                  simp only [this, Bool.false_eq_true, if_false]
                  rw [e']; exact List.mem_cons_self
                · exact List.mem_append_right _ e'
              · exact List.mem_append_right _ e
          · intro x hx
            apply f8 x
            rcases List.mem_append.mp hx with e | e
            · apply List.mem_append_left
              split
              · exact List.mem_cons_of_mem _ e
              · exact e
            · simp only [List.filter_cons] at e
              split at e
              · rename_i hnp
                rcases List.mem_cons.mp e with e' | e'
                · apply List.mem_append_left
                  simp only [hnp, if_true]
                  rw [e']; exact List.mem_cons_self
                · exact List.mem_append_right _ e'
              · exact List.mem_append_right _ e
theorem viewTA_port_names (n : Text.WNet) (T : Text.WDef) : (viewTA n T).ports.map (·.name) = T.ports.map (·.name) := by
  unfold viewTA viewT; simp [List.map_map, Function.comp_def]

/-- **c04_view_hierA.**  C04 for a HIERARCHICAL netlist WITH ASSIGNS, up to the syntax trees: the file `top; then the
    definitions `Rs` in the writer's order` is accepted by the REAL `elabDesign`, the top is elected, and EVERY module shows
    the view (`viewTA`: assignment instances first) of its definition in the netlist and its module parameters as written,
    every primitive its interface, attributes and parameters.  Readings: the instance ORDER of a module with assigns changes
    unless the assignment instances already come first; directions are compared through `dirV` (an undefined direction
    counts as `inout`: the re-read port of an inferred black box is INOUT); instance rows are compared through
    `connectedBlock` (no row widths); the netlist name, `n.top` as such and the order of the definitions are not stated. -/
theorem c04_view_hierA (n : Text.WNet) (T : Text.WDef) (Rs : List Text.WDef) (m : WModPA) (Ms : List WAnyA)
    (defs : List Def) (nx : Nat) (hfragA : fragTopA n T = true) (hm : astOfA n T = some m)
    (hRs : Rs.mapM (astAnyA n) = some Ms) (hfa : ∀ r ∈ Rs, fragAnyA n r = true)
    (hnd : (T.name :: Rs.map (·.name)).Nodup)
    (hrefT : ∃ r0, Text.refOf n T.name = some r0 ∧ T.ports.map (·.name) = r0.ports.map (·.name))
    (hb : buildHierA m.toA Ms = some (defs, nx)) :
    (∃ ac, elabDesign (m.toA.toModule :: Ms.map WAnyA.toModule) = .ok ⟨defs, nx, some T.name, ac, []⟩) ∧
    (∃ D ∈ defs, D.name = T.name ∧ viewD D = viewTA n T ∧ D.lib = some "work" ∧ D.params = paramsOf T) ∧
    (∀ r ∈ Rs, isPrim r = false →
      ∃ D ∈ defs, D.name = r.name ∧ viewD D = viewTA n r ∧ D.lib = some "work" ∧ D.params = paramsOf r) ∧
    (∀ r ∈ Rs, isPrim r = true → ∃ L ∈ defs, L.name = r.name ∧ L.lib = some "hdi_primitives" ∧ ifaceD L = ifaceT r ∧
      L.attrs.getD [] = r.attrs.getD [] ∧ L.params = paramsOf r) := by
  obtain ⟨hTn, hTa, hTp⟩ := astOfA_name n T m hm
  have hfr : fragTop n T = true ∧ asgsOK n T 0 (asgI n T) = true := by simpa [fragTopA] using hfragA
  obtain ⟨hfrag, hok⟩ := hfr
  have hrun := elabDesign_hierA m.toA Ms defs nx hb
  rw [hTn] at hrun
  refine ⟨hrun, ?_⟩
  -- the syntax of the top
  unfold astOfA at hm
  cases hports : T.ports.mapM (astPort T) with
  | none => simp [hports] at hm
  | some ports =>
    cases hinsts : (ordI n T).mapM (astInst n T) with
    | none => simp [hports, hinsts] at hm
    | some insts =>
      cases hasg : (asgI n T).mapM (astAsg n T) with
      | none => simp [hports, hinsts, hasg] at hm
      | some as =>
       cases hpar : astParams T with
       | none => simp [hports, hinsts, hasg, hpar] at hm
       | some pars =>
        simp only [hports, hinsts, hasg, hpar, Option.some.injEq] at hm
        subst hm
        generalize hmA : (⟨⟨T.name, T.attrs.getD [], ports, T.cables.reverse.map astWire, insts⟩, as, pars⟩ : WModPA).toA = mA at hb
        have hmA' : mA = (⟨⟨T.name, T.attrs.getD [], ports, T.cables.reverse.map astWire, insts.map PInst.toN⟩,
            as.map (fun lr => (toX lr.1, toX lr.2)), pars⟩ : WModA) := by rw [← hmA]; rfl
        have hmAn : mA.base.name = T.name := by rw [hmA']
        unfold buildHierA at hb
        rw [hmAn] at hb
        cases hbt : buildTopA mA with
        | none => simp [hbt] at hb
        | some rt =>
          obtain ⟨D, lsT, n3'⟩ := rt
          simp only [hbt] at hb
          have hbt0 := hbt
          rw [hmA'] at hbt
          unfold buildTopA at hbt
          generalize hws : T.cables.reverse.map astWire = wires at hbt
          simp only at hbt
          generalize hd0 : topDef T.name pars = d0 at hbt
          cases h3 : buildW3 d0 0 ports wires with
          | none => simp [h3] at hbt
          | some r3 =>
            obtain ⟨d3, n3⟩ := r3
            simp only [h3] at hbt
            split at hbt
            · rename_i hc
              cases ha : foldAsg d3 0 [] (as.map (fun lr => (toX lr.1, toX lr.2))) with
              | none => simp [ha] at hbt
              | some ra =>
                obtain ⟨d3a, aca, lsa⟩ := ra
                simp only [ha] at hbt
                cases h4 : foldInst d3a lsa (insts.map PInst.toN) with
                | none => simp [h4] at hbt
                | some r4 =>
                  obtain ⟨d4, ls4⟩ := r4
                  simp only [h4, Option.some.injEq, Prod.mk.injEq] at hbt
                  obtain ⟨eD, eL, eN⟩ := hbt
                  subst eD eL eN
                  cases h5 : foldLateA (withAttrs (T.attrs.getD []) d4 :: ls4) n3 T.name Ms with
                  | none => simp [h5] at hb
                  | some r5 =>
                    obtain ⟨tbl, n5⟩ := r5
                    simp only [h5, Option.some.injEq, Prod.mk.injEq] at hb
                    obtain ⟨hdefs, _⟩ := hb
                    -- the facts about the top
                    have hfr := hfrag
                    simp only [fragTop, Bool.and_eq_true, decide_eq_true_eq, List.all_eq_true] at hfr
                    obtain ⟨⟨⟨⟨_, _⟩, F2n⟩, _⟩, _⟩ := hfr
                    have H3 := astPorts_nodup T ports hports F2n
                    have hd0c : d0.cables = [] := by rw [← hd0]; try rfl
                    have hd0p : d0.ports = [] := by rw [← hd0]; try rfl
                    have hcab0 : cabOf d0 = fun _ => none := by funext nm; unfold cabOf; rw [hd0c]; rfl
                    have hcabE := buildW3_cab d0 0 ports wires d3 n3 h3
                    rw [hcab0, ← hws] at hcabE
                    have hWF : WF d3 n3 := buildW3_WF d0 0 ports wires d3 n3
                      ⟨⟨by rw [hd0c]; exact List.nodup_nil, by rw [hd0c]; exact List.nodup_nil⟩, by rw [hd0c]; intro c hc; cases hc⟩ h3
                    have hPC : PC d3 := buildW3_PC d0 0 ports wires d3 n3 (by intro P hP; rw [hd0p] at hP; cases hP) h3
                    have hpv := buildW3_ports d0 0 ports wires d3 n3 hd0p H3 h3
                    obtain ⟨hi3, ha3⟩ := buildW3_frame d0 0 ports wires d3 n3 h3
                    obtain ⟨v1, v2, _, _⟩ := view_coreA n T ports insts as d3 d3a d4 [] lsa ls4 n3 aca hfrag hports hinsts hasg hok
                      hpv hPC hWF hcabE (by rw [hi3, ← hd0]; try rfl) (by rw [ha3, ← hd0]; try rfl) (by intro L hL; cases hL) ha h4
                    obtain ⟨z4, z6⟩ := foldAsg_frame _ d3 0 [] d3a aca lsa ha
                    have hlib4 : (withAttrs (T.attrs.getD []) d4).lib = some "work" := by
                      have h1 : d3.lib = some "work" := by rw [buildW3_lib d0 0 ports wires d3 n3 h3, ← hd0]; try rfl
                      have h2 : d4.lib = d3a.lib := foldInst_lib _ d3a lsa d4 ls4 h4
                      unfold withAttrs; split <;> simp [h2, z6, h1]
                    have hname4 : (withAttrs (T.attrs.getD []) d4).name = T.name := by
                      have h1 : d3.name = T.name := by
                        rw [buildW3_name d0 0 ports wires d3 n3 h3, ← hd0]; try rfl
                      have h2 : d4.name = d3a.name := foldInst_name _ d3a lsa d4 ls4 h4
                      unfold withAttrs; split <;> simp [h2, z4, h1]
                    -- the state after the top
                    obtain ⟨S1, hE', hwf1, hS1d, hS1n, hS1t, _, _⟩ := elabModule_wtopA _ _ _ _ hbt0
                    rw [hmAn] at hS1t
                    obtain ⟨newA, enA, hnewA⟩ := foldAsg_new _ d3 0 [] d3a aca lsa ha
                    obtain ⟨new, en, hnew⟩ := foldInst_new _ d3a lsa d4 ls4 h4
                    have hi1 : HI n S1 := by
                      refine ⟨hwf1, ?_, ?_⟩
                      · rw [hS1d]
                        intro x hx
                        rcases List.mem_cons.mp hx with e | e
                        · obtain ⟨r0, hr0, hp0⟩ := hrefT
                          rw [e, hname4]
                          refine ⟨r0, hr0, ?_⟩
                          rw [← hp0, ← viewTA_port_names n T, ← v1, viewD_port_names]
                        · exact v2 x e
                      · rw [hS1d]
                        intro x hx
                        rcases List.mem_cons.mp hx with e | e
                        · rw [e]; intro hl; rw [hlib4] at hl; cases hl
                        · rw [en, enA, List.nil_append] at e
                          rcases List.mem_append.mp e with e' | e'
                          · intro hl'; rw [hnewA x e'] at hl'; cases hl'
                          · exact (hnew x e').1
                    rw [List.nodup_cons] at hnd
                    have hdw0 : DoneWA n S1.defs [T] := by
                      intro W hW
                      simp only [List.mem_singleton] at hW
                      rw [hW, hS1d]
                      refine ⟨_, List.mem_cons_self, hname4, v1, hlib4, ?_⟩
                      rw [withAttrs_params, foldInst_params _ d3a lsa d4 ls4 h4, foldAsg_params _ d3 0 [] d3a aca lsa ha,
                        buildW3_params d0 0 ports wires d3 n3 h3, ← hd0]
                      unfold paramsOf
                      rw [hpar]; rfl
                    obtain ⟨s', _, f2, _, _, _, f7, f8⟩ := hier_foldA n T.name Rs Ms S1 tbl n5 [T] [] hRs hfa hnd.2
                      (by
                        intro r hr W hW
                        simp only [List.mem_singleton] at hW
                        rw [hW]
                        exact fun e => hnd.1 (List.mem_map.mpr ⟨r, hr, e.symm⟩))
                      (by intro r _ x hx; cases hx) hi1 hS1t
                      (by rw [hS1d, hS1n]; exact h5) hdw0 (by intro x hx; cases hx)
                    rw [f2] at f7 f8
                    have hmark : ∀ D ∈ tbl, D.lib.isSome → markBB D ∈ defs ∧ markBB D = D := by
                      intro D hD hl
                      refine ⟨by rw [← hdefs]; exact List.mem_map.mpr ⟨D, hD, rfl⟩, ?_⟩
                      unfold markBB
                      cases hDl : D.lib with
                      | none => rw [hDl] at hl; cases hl
                      | some v => simp
                    refine ⟨?_, ?_, ?_⟩
                    · obtain ⟨D, hD, e1, e2, e3, e4⟩ := f7 T (by simp)
                      obtain ⟨g1, g2⟩ := hmark D hD (by rw [e3]; rfl)
                      exact ⟨D, by rw [← g2]; exact g1, e1, e2, e3, e4⟩
                    · intro r hr hp
                      obtain ⟨D, hD, e1, e2, e3, e4⟩ := f7 r (by
                        apply List.mem_append_right
                        exact List.mem_filter.mpr ⟨hr, by simp [hp]⟩)
                      obtain ⟨g1, g2⟩ := hmark D hD (by rw [e3]; rfl)
                      exact ⟨D, by rw [← g2]; exact g1, e1, e2, e3, e4⟩
                    · intro r hr hp
                      obtain ⟨L, hL, e1, e2, e3⟩ := f8 r (by
                        apply List.mem_append_right
                        exact List.mem_filter.mpr ⟨hr, hp⟩)
                      obtain ⟨g1, g2⟩ := hmark L hL (by rw [e2]; rfl)
                      exact ⟨L, by rw [← g2]; exact g1, e1, e2, e3⟩
            · cases hbt
/-- the fragment of the hierarchical theorem with assigns up to the syntax trees (decidable): the top `T` and every other
    work module in `fragTopA`, distinct module names, `T` found under its name, and the pure reader `buildHierA` accepts the
    file (a computed clause) -/
def fragHierA (n : Text.WNet) (T : Text.WDef) (Rs : List Text.WDef) : Bool :=
  fragTopA n T && Rs.all (fragAnyA n) && decide ((T.name :: Rs.map (·.name)).Nodup) &&
  (match Text.refOf n T.name with
   | some r0 => decide (T.ports.map (·.name) = r0.ports.map (·.name))
   | none => false) &&
  (match astOfA n T, Rs.mapM (astAnyA n) with
   | some m, some Ms => (buildHierA m.toA Ms).isSome
   | _, _ => false)

/-- **c04_ast_hierA.**  `c04_view_hierA` from the decidable fragment predicate `fragHierA` (which contains the computed clause
    `(buildHierA …).isSome`: the closed-form reader accepts the file, and `readAssign (emitAssign o i) = (o, i)` per
    assignment instance).  See `c04_view_hierA` for how the conclusion has to be read. -/
theorem c04_ast_hierA (n : Text.WNet) (T : Text.WDef) (Rs : List Text.WDef) (h : fragHierA n T Rs = true) :
    ∃ m Ms s, astOfA n T = some m ∧ Rs.mapM (astAnyA n) = some Ms ∧
      elabDesign (m.toA.toModule :: Ms.map WAnyA.toModule) = .ok s ∧ s.top = some T.name ∧ s.pending = [] ∧
      (∃ D ∈ s.defs, D.name = T.name ∧ viewD D = viewTA n T ∧ D.lib = some "work" ∧ D.params = paramsOf T) ∧
      (∀ r ∈ Rs, isPrim r = false →
        ∃ D ∈ s.defs, D.name = r.name ∧ viewD D = viewTA n r ∧ D.lib = some "work" ∧ D.params = paramsOf r) ∧
      (∀ r ∈ Rs, isPrim r = true → ∃ L ∈ s.defs, L.name = r.name ∧ L.lib = some "hdi_primitives" ∧ ifaceD L = ifaceT r ∧
        L.attrs.getD [] = r.attrs.getD [] ∧ L.params = paramsOf r) := by
  unfold fragHierA at h
  simp only [Bool.and_eq_true, decide_eq_true_eq, List.all_eq_true] at h
  obtain ⟨⟨⟨⟨h1, h2⟩, h3⟩, h4⟩, h5⟩ := h
  cases hr : Text.refOf n T.name with
  | none => simp [hr] at h4
  | some r0 =>
    simp only [hr, decide_eq_true_eq] at h4
    cases hm : astOfA n T with
    | none => simp [hm] at h5
    | some m =>
      cases hM : Rs.mapM (astAnyA n) with
      | none => simp [hm, hM] at h5
      | some Ms =>
        simp only [hm, hM] at h5
        obtain ⟨r, hb⟩ := Option.isSome_iff_exists.mp h5
        obtain ⟨defs, nx⟩ := r
        obtain ⟨⟨ac, a1⟩, a2, a3, a4⟩ := c04_view_hierA n T Rs m Ms defs nx h1 hm hM h2 h3 ⟨r0, hr, h4⟩ hb
        exact ⟨m, Ms, _, rfl, rfl, a1, rfl, rfl, a2, a3, a4⟩
/-- non-vacuity: the three-level netlist of `exNetH` with assignment instances — a two-bit and a one-bit one in `top`
    (listed AFTER the ordinary instances: the re-read definition has them first), a one-bit one in `sub` (its assignment
    definition is already in the table when `sub` is read); `top` and `sub` have module parameters; the primitive `LUT1` has an attribute and a parameter; `BBX` is an inferred black
    box whose port has no direction (written `/* undefined port direction */ inout`, re-read INOUT) -/
def exNetHA : Text.WNet :=
  let b (c : String) (i : Int) : Option Bit := some ⟨c, i⟩
  { name := "exha", top := some "top",
    defs := [
      { name := "top", lib := "work", params := some [("WIDTH", some "2")], attrs := none,
        ports := [⟨some "a", "IN", 0, 2, [b "a" 0, b "a" 1], none⟩, ⟨some "y", "OUT", 0, 1, [b "y" 0], none⟩],
        cables := [⟨"a", 0, 2, none, none⟩, ⟨"y", 0, 1, none, none⟩, ⟨"w", 0, 1, none, none⟩, ⟨"v", 0, 2, none, none⟩,
                   ⟨"z", 0, 1, none, none⟩],
        insts := [⟨"u0", "sub", none, none, [[b "a" 0, b "a" 1], [b "w" 0]]⟩,
                  ⟨"u1", "LUT1", none, none, [[b "w" 0], [b "y" 0]]⟩,
                  ⟨"u2", "BBX", none, none, [[b "z" 0]]⟩,
                  ⟨"SDN_VERILOG_ASSIGNMENT_2_0", "SDN_VERILOG_ASSIGNMENT_2", none, none, [[b "a" 0, b "a" 1], [b "v" 0, b "v" 1]]⟩,
                  ⟨"SDN_VERILOG_ASSIGNMENT_1_1", "SDN_VERILOG_ASSIGNMENT_1", none, none, [[b "w" 0], [b "z" 0]]⟩] },
      { name := "sub", lib := "work", params := some [("[3:0] DEPTH", some "4'h3"), ("MODE", some "\"fast\"")],
        attrs := some [("keep", none)],
        ports := [⟨some "p", "IN", 0, 2, [b "p" 0, b "p" 1], none⟩, ⟨some "q", "OUT", 0, 1, [b "q" 0], some [("mark", none)]⟩],
        cables := [⟨"p", 0, 2, none, none⟩, ⟨"q", 0, 1, none, none⟩, ⟨"r", 0, 1, none, none⟩],
        insts := [⟨"SDN_VERILOG_ASSIGNMENT_1_0", "SDN_VERILOG_ASSIGNMENT_1", none, none, [[b "r" 0], [b "q" 0]]⟩,
                  ⟨"g0", "LUT1", none, none, [[b "p" 0], [b "r" 0]]⟩] },
      { name := "LUT1", lib := "hdi_primitives", params := some [("INIT", some "2'h1")], attrs := some [("cell", none)],
        ports := [⟨some "I0", "IN", 0, 1, [none], none⟩, ⟨some "O", "OUT", 0, 1, [none], none⟩],
        cables := [], insts := [] },
      { name := "BBX", lib := "hdi_primitives", params := none, attrs := none,
        ports := [⟨some "P", "UNDEFINED", 0, 1, [none], none⟩], cables := [], insts := [] },
      { name := "SDN_VERILOG_ASSIGNMENT_2", lib := "SDN_VERILOG_ASSIGNMENT", params := none, attrs := none,
        ports := [⟨some "i", "IN", 0, 2, [none, none], none⟩, ⟨some "o", "OUT", 0, 2, [none, none], none⟩],
        cables := [], insts := [] },
      { name := "SDN_VERILOG_ASSIGNMENT_1", lib := "SDN_VERILOG_ASSIGNMENT", params := none, attrs := none,
        ports := [⟨some "i", "IN", 0, 1, [none], none⟩, ⟨some "o", "OUT", 0, 1, [none], none⟩],
        cables := [], insts := [] }] }

def exTopHA : Text.WDef := exNetHA.defs.headD default

theorem exNetHA_frag : fragHierA exNetHA exTopHA ((exNetHA.defs.drop 1).take 3) = true := by decide

theorem exNetHA_has_assigns : (asgI exNetHA exTopHA).length = 2 ∧ (ordI exNetHA exTopHA).length = 3 := by decide
end Spydr.Verilog.Elab
