/-
  Verilog engine — proof side, part 56 (assign statements): the token level — the tokens of a module with assigns
  (`tokensOfA`; body item `SItem.asg` of RoundTripTokC), a module anywhere at the top level (`topGo_mod`), and the REAL
  `parseV` on a whole hierarchical file with assigns (`parse_hierA`).
-/
import Spydr.Verilog.RoundTripAsgE
import Spydr.Verilog.RoundTripHierI
set_option maxHeartbeats 1600000
namespace Spydr.Verilog.Elab
open Spydr.Verilog
open Spydr.Verilog.Parse
open Spydr.Verilog.Text (fixName)

/-! ### the token level for modules with assigns -/

def WModA.sitems (m : WModA) : List SItem :=
  m.base.ports.map .port ++ m.base.wires.map .wire ++ m.asgs.map (fun a => SItem.asg a.1 a.2) ++ m.base.insts.map .inst

/-- the token list of the text the writer prints for a module with assigns -/
def tokensOfA (m : WModA) : List String := modToks m.base.attrs m.base.name (m.base.ports.map (·.name)) m.sitems

def tokOKA (m : WModA) : Bool :=
  modOK m.base.attrs m.base.name (m.base.ports.map (·.name)) m.sitems && cleanToks (tokensOfA m)

theorem sitemsA_items (m : WModA) : m.sitems.map SItem.toItem = m.toModule.items := by
  simp [WModA.toModule, WModA.sitems, SItem.toItem, Function.comp_def]

/-- a module (any list of body items of the fragment) anywhere at the top level of the file -/
theorem topGo_mod (f : Nat) (attrs : Attrs) (name : String) (ports : List String) (items : List SItem) (rest : Toks)
    (acc : List Module) (h : modOK attrs name ports items = true) :
    topGo (f + 2) (modToks attrs name ports items ++ rest) false [] acc =
      topGo (if attrs = [] then f + 1 else f) rest false []
        (acc ++ [⟨name, false, attrs, [], ports.map (fun a => (⟨a, none, none, none⟩ : HPort)), items.map SItem.toItem⟩]) := by
  have hm := fun pend => moduleP_toks attrs pend name ports items rest h
  have hmod : ∀ (g : Nat) (pend : Attrs), topGo (g + 1) ("module" :: nameT name :: "(" :: (sepNames ports ++ ")" :: ";" ::
      (items.flatMap SItem.toks ++ "endmodule" :: rest))) false pend acc =
      topGo g rest false [] (acc ++ [⟨name, false, pend, [], ports.map (fun a => (⟨a, none, none, none⟩ : HPort)),
        items.map SItem.toItem⟩]) := by
    intro g pend
    conv => lhs; unfold topGo
    simp only [fw_module.1, fw_module.2, Bool.false_eq_true, if_false, beq_self_eq_true, if_true, hm pend]
  unfold modToks
  by_cases ha : attrs = []
  · simp only [ha, starToks, List.isEmpty_nil, if_true, List.nil_append, List.cons_append, List.append_assoc]
    rw [hmod _ []]
  · have hok : attrsOK attrs = true := by
      simp only [modOK, Bool.and_eq_true] at h; exact h.1.1.1
    have hnd : (attrs.map (·.1)).Nodup := by
      simp only [attrsOK, Bool.and_eq_true, decide_eq_true_eq] at hok; exact hok.2
    have hs := star_toks attrs ("module" :: nameT name :: "(" :: (sepNames ports ++ ")" :: ";" ::
      (items.flatMap SItem.toks ++ "endmodule" :: rest))) ha hok
    have hem : attrs.isEmpty = false := by cases hma : attrs <;> simp [hma] at ha ⊢
    unfold starToks at hs ⊢
    simp only [hem, Bool.false_eq_true, if_false, List.cons_append, List.append_assoc, List.nil_append, ha] at hs ⊢
    conv => lhs; unfold topGo
    have g1 : ("(" == "module") = false := by decide
    have g2 : ("(" == "primitive") = false := by decide
    simp only [fw_paren.1, fw_paren.2, g1, g2, Bool.false_eq_true, if_false, beq_self_eq_true, if_true, hs,
      mergeAttrs_nil attrs hnd]
    rw [hmod _ attrs]

theorem topGo_workA (f : Nat) (m : WModA) (rest : Toks) (acc : List Module)
    (h : modOK m.base.attrs m.base.name (m.base.ports.map (·.name)) m.sitems = true) :
    topGo (f + 2) (tokensOfA m ++ rest) false [] acc =
      topGo (if m.base.attrs = [] then f + 1 else f) rest false [] (acc ++ [m.toModule]) := by
  unfold tokensOfA
  rw [topGo_mod f _ _ _ _ rest acc h, sitemsA_items]
  congr 3
  simp [WModA.toModule, Function.comp_def]

def anyToksA : WAnyA → List String
  | .work m => tokensOfA m
  | .leaf lf => leafToks lf

def anyOKA : WAnyA → Bool
  | .work m => tokOKA m
  | .leaf lf => leafOK lf

theorem topGo_anysA : ∀ (Ms : List WAnyA) (f : Nat) (acc : List Module),
    3 * Ms.length + 1 ≤ f → (∀ M ∈ Ms, anyOKA M = true) →
    topGo f (Ms.flatMap anyToksA) false [] acc = .ok (acc ++ Ms.map WAnyA.toModule) := by
  intro Ms
  induction Ms with
  | nil =>
    intro f acc hf _
    obtain ⟨g, hg⟩ : ∃ g, f = g + 1 := ⟨f - 1, by simp at hf; omega⟩
    subst hg
    unfold topGo
    simp
  | cons M Ms ih =>
    intro f acc hf hok
    simp only [List.flatMap_cons, List.length_cons] at hf ⊢
    cases M with
    | work m =>
      obtain ⟨g, hg⟩ : ∃ g, f = g + 2 := ⟨f - 2, by omega⟩
      subst hg
      have hm : tokOKA m = true := hok (.work m) List.mem_cons_self
      simp only [tokOKA, Bool.and_eq_true] at hm
      simp only [anyToksA]
      rw [topGo_workA g m _ acc hm.1,
        ih _ _ (by split <;> omega) (fun x hx => hok x (List.mem_cons_of_mem _ hx))]
      simp [WAnyA.toModule]
    | leaf lf =>
      obtain ⟨g, hg⟩ : ∃ g, f = g + 3 := ⟨f - 3, by omega⟩
      subst hg
      have hl : leafOK lf = true := hok (.leaf lf) List.mem_cons_self
      simp only [anyToksA]
      rw [topGo_leaf g lf _ acc hl, ih g _ (by omega) (fun x hx => hok x (List.mem_cons_of_mem _ hx))]
      simp [WAnyA.toModule]

/-- the tokens of a hierarchical file with assigns (without the comment lines) -/
def fileToksA (m : WModA) (Ms : List WAnyA) : List String := tokensOfA m ++ Ms.flatMap anyToksA

theorem anyToksA_keep (M : WAnyA) (h : anyOKA M = true) : (anyToksA M).all keepTok = true := by
  cases M with
  | work m =>
    simp only [anyOKA, tokOKA, Bool.and_eq_true] at h
    exact keep_of_clean _ h.2
  | leaf lf => exact leafToks_keep lf h

theorem anyToksA_len (M : WAnyA) : 3 ≤ (anyToksA M).length := by
  cases M with
  | work m => simp [anyToksA, tokensOfA, modToks]; omega
  | leaf lf => simp [anyToksA, leafToks, leafCore]

/-- **parse_hierA.**  Token level for a hierarchical file with assigns: the REAL `parseV` on the comment lines followed by
    the tokens of the top module and of the later modules returns exactly their syntax trees. -/
theorem parse_hierA (cs : Toks) (m : WModA) (Ms : List WAnyA) (hc : ∀ c ∈ cs, Text.isCommentTok c = true)
    (h : tokOKA m = true) (hl : ∀ M ∈ Ms, anyOKA M = true) :
    parseV (cs ++ fileToksA m Ms) = .ok (m.toModule :: Ms.map WAnyA.toModule) := by
  have hall : ∀ M ∈ WAnyA.work m :: Ms, anyOKA M = true := by
    intro M hM
    rcases List.mem_cons.mp hM with e | e
    · rw [e]; exact h
    · exact hl M e
  have hft : fileToksA m Ms = (WAnyA.work m :: Ms).flatMap anyToksA := by simp [fileToksA, anyToksA]
  have hkeep : (fileToksA m Ms).all keepTok = true := by
    rw [hft, List.all_flatMap, List.all_eq_true]
    intro M hM
    exact anyToksA_keep M (hall M hM)
  unfold parseV
  have h1 : preprocess ((cs ++ fileToksA m Ms).length + 1) (cs ++ fileToksA m Ms) false = .ok (fileToksA m Ms) := by
    have : (cs ++ fileToksA m Ms).length + 1 = ((fileToksA m Ms).length + 1) + cs.length := by simp; omega
    rw [this, preprocess_comments cs _ _ hc]
    exact preprocess_keep _ _ (Nat.le_refl _) hkeep
  simp only [h1, bind, Except.bind]
  have hlen : ∀ (l : List WAnyA), 3 * l.length ≤ (l.flatMap anyToksA).length := by
    intro l
    induction l with
    | nil => simp
    | cons a l ih =>
      have := anyToksA_len a
      simp only [List.flatMap_cons, List.length_append, List.length_cons]; omega
  rw [hft, topGo_anysA (WAnyA.work m :: Ms) _ [] (by have := hlen (WAnyA.work m :: Ms); omega) hall]
  simp [WAnyA.toModule]
end Spydr.Verilog.Elab
