/-
  Verilog engine — proof side, part 56 (assign statements): the token level — the tokens of a module with assigns
  (`tokensOfA`; body item `SItem.asg` of RoundTripTokC), a module anywhere at the top level (`topGo_mod`), and the REAL
  `parseV` on a whole hierarchical file with assigns (`parse_hierA`).
-/
import Spydr.Verilog.RoundTripAsgE
import Spydr.Verilog.RoundTripHierI
set_option maxHeartbeats 1600000
namespace Spydr.Verilog.Elab
open Spydr.Verilog
open Spydr.Verilog.Parse
open Spydr.Verilog.Text (fixName)

/-! ### module parameters in the header: `#( parameter k = v , parameter k2 = v2 )` -/

/-- a parameter key with a range, as the reader assembles it: `[l:r] name` -/
def keyRanged (l r : Int) (nm : String) : String := s!"[{l}:{r}] " ++ nm

def digitsNat : List Char → Option Nat
  | [] => none
  | cs => if cs.all Char.isDigit then some (cs.foldl (fun n c => 10 * n + (c.toNat - '0'.toNat)) 0) else none

def parseIntL : List Char → Option Int
  | '-' :: cs => (digitsNat cs).map (fun n => -(n : Int))
  | cs => (digitsNat cs).map (fun n => (n : Int))

/-- is the key of the form `[l:r] name`?  (the check at the end makes the answer right whatever the splitting does; written
    with structural functions so that the kernel can evaluate it) -/
def splitKey (k : String) : Option (Int × Int × String) :=
  match k.toList with
  | '[' :: cs =>
    match cs.span (· != ':') with
    | (a, ':' :: r2) =>
      match r2.span (· != ']') with
      | (b, ']' :: ' ' :: nmcs) =>
        match parseIntL a, parseIntL b with
        | some l, some r => if keyRanged l r (String.ofList nmcs) == k then some (l, r, String.ofList nmcs) else none
        | _, _ => none
      | _ => none
    | _ => none
  | _ => none

theorem splitKey_sound (k : String) (l r : Int) (nm : String) (h : splitKey k = some (l, r, nm)) : k = keyRanged l r nm := by
  unfold splitKey at h
  split at h
  · split at h
    · split at h
      · split at h
        · split at h
          · rename_i hc
            simp only [Option.some.injEq, Prod.mk.injEq] at h
            obtain ⟨e1, e2, e3⟩ := h
            subst e1 e2 e3
            exact (beq_iff_eq.mp hc).symm
          · cases h
        · cases h
      · cases h
    · cases h
  · cases h

/-- the tokens of a parameter key -/
def mpKeyToks (k : String) : List String :=
  match splitKey k with
  | some (l, r, nm) => ["[", Text.showInt l, ":", Text.showInt r, "]", nm]
  | none => [k]

/-- the tokens after the first `parameter` -/
def mpToks : Params → List String
  | [] => []
  | [kv] => mpKeyToks kv.1 ++ ["=", kv.2]
  | kv :: rest => mpKeyToks kv.1 ++ "=" :: kv.2 :: "," :: "parameter" :: mpToks rest

def mparamToks (ps : Params) : List String :=
  if ps.isEmpty then [] else "#" :: "(" :: "parameter" :: (mpToks ps ++ [")"])

/-- a key is a plain name (not `integer`, which the reader treats as a type) or `[l:r] name` -/
def mkeyOK (k : String) : Bool :=
  match splitKey k with
  | some (l, r, nm) => intTokB l && intTokB r && nameTokB nm nm
  | none => nameTokB k k && k != "integer"

def mparamsOK (ps : Params) : Bool := ps.all (fun kv => mkeyOK kv.1) && decide ((ps.map (·.1)).Nodup)

theorem mpKeyToks_len (k : String) : 1 ≤ (mpKeyToks k).length := by
  unfold mpKeyToks; split <;> simp

theorem mpToks_len : ∀ (a : Params), a.length ≤ (mpToks a).length
  | [] => by simp [mpToks]
  | [kv] => by have := mpKeyToks_len kv.1; simp only [mpToks, List.length_append, List.length_cons, List.length_nil]; omega
  | kv :: kv2 :: t => by
    have h2 := mpToks_len (kv2 :: t)
    have := mpKeyToks_len kv.1
    simp only [mpToks, List.length_cons, List.length_append] at h2 ⊢; omega

theorem keyRanged_ne_integer (l r : Int) (nm : String) : (keyRanged l r nm == "integer") = false := by
  have h : (keyRanged l r nm).toList.head? = some '[' := by
    unfold keyRanged
    simp [toString, String.toList_append]
  cases hb : keyRanged l r nm == "integer" with
  | false => rfl
  | true =>
    rw [beq_iff_eq.mp hb] at h
    exact absurd h (by decide)

/-- one parameter, the last of the list -/
theorem hp_last (k v : String) (acc : Params) (f : Nat) (rest : Toks) (hk : mkeyOK k = true)
    (hany : acc.any (fun x => x.1 == k) = false) :
    headerParamsGo (f + 1) (mpKeyToks k ++ "=" :: v :: ")" :: rest) acc = .ok (acc ++ [(k, v)], rest) := by
  unfold mkeyOK at hk
  unfold mpKeyToks
  cases hs : splitKey k with
  | none =>
    simp only [hs, Bool.and_eq_true, bne_iff_ne, ne_eq] at hk
    have hnt := nameTok_sound _ _ hk.1
    have hbr : (k == "[") = false := hnt.res "[" (by decide)
    have hkey : "" ++ k = k := String.empty_append
    have hint' : (k == "integer") = false := by simpa using hk.2
    have hint : (("" ++ k) == "integer") = false := by rw [hkey]; exact hint'
    simp only [List.cons_append, List.nil_append]
    unfold headerParamsGo
    simp [expect, next, peek, bind, Except.bind, hnt.valid, hnt.strip, hbr, hint, hint', hkey, hany, pure, Except.pure]
  | some x =>
    obtain ⟨l, r, nm⟩ := x
    simp only [hs, Bool.and_eq_true] at hk
    have hk' := splitKey_sound k l r nm hs
    have hnt := nameTok_sound _ _ hk.2
    have hb := brackets_part l r (nm :: "=" :: v :: ")" :: rest) hk.1.1 hk.1.2
    have hkey : s!"[{l}:{r}] " ++ nm = k := hk'.symm
    have hint : (k == "integer") = false := by rw [hk']; exact keyRanged_ne_integer l r nm
    simp only [List.cons_append, List.nil_append]
    unfold headerParamsGo
    simp only [peek, bind, Except.bind, beq_self_eq_true, if_true, hb, pure, Except.pure, next, hnt.valid, Bool.not_true,
      Bool.false_eq_true, if_false, hnt.strip, hkey, hint, hany]
    simp

/-- one parameter followed by another -/
theorem hp_more (k v : String) (acc : Params) (f : Nat) (more : Toks) (hk : mkeyOK k = true)
    (hany : acc.any (fun x => x.1 == k) = false) :
    headerParamsGo (f + 1) (mpKeyToks k ++ "=" :: v :: "," :: "parameter" :: more) acc = headerParamsGo f more (acc ++ [(k, v)]) := by
  unfold mkeyOK at hk
  unfold mpKeyToks
  have e1 : ("," == ")") = false := by decide
  have e2 : ("=" != "=") = false := by decide
  cases hs : splitKey k with
  | none =>
    simp only [hs, Bool.and_eq_true, bne_iff_ne, ne_eq] at hk
    have hnt := nameTok_sound _ _ hk.1
    have hbr : (k == "[") = false := hnt.res "[" (by decide)
    have hkey : "" ++ k = k := String.empty_append
    have hint' : (k == "integer") = false := by simpa using hk.2
    have hint : (("" ++ k) == "integer") = false := by rw [hkey]; exact hint'
    simp only [List.cons_append, List.nil_append]
    conv => lhs; unfold headerParamsGo
    simp only [expect, next, peek, bind, Except.bind, beq_self_eq_true, if_true, hnt.valid, Bool.not_true, Bool.false_eq_true,
      if_false, hnt.strip, hbr, hint, hint', hkey, hany, pure, Except.pure, e1, e2]
  | some x =>
    obtain ⟨l, r, nm⟩ := x
    simp only [hs, Bool.and_eq_true] at hk
    have hk' := splitKey_sound k l r nm hs
    have hnt := nameTok_sound _ _ hk.2
    have hb := brackets_part l r (nm :: "=" :: v :: "," :: "parameter" :: more) hk.1.1 hk.1.2
    have hkey : s!"[{l}:{r}] " ++ nm = k := hk'.symm
    have hint : (k == "integer") = false := by rw [hk']; exact keyRanged_ne_integer l r nm
    simp only [List.cons_append, List.nil_append]
    conv => lhs; unfold headerParamsGo
    simp only [expect, peek, bind, Except.bind, beq_self_eq_true, if_true, hb, pure, Except.pure, next, hnt.valid, Bool.not_true,
      Bool.false_eq_true, if_false, hnt.strip, hkey, hint, hany, e1, e2]

theorem headerParamsGo_toks : ∀ (ps acc : Params) (f : Nat) (rest : Toks), ps ≠ [] → ps.length ≤ f →
    (∀ kv ∈ ps, mkeyOK kv.1 = true) → ((acc ++ ps).map (·.1)).Nodup →
    headerParamsGo f (mpToks ps ++ ")" :: rest) acc = .ok (acc ++ ps, rest) := by
  intro ps
  induction ps with
  | nil => intro acc f rest h; exact absurd rfl h
  | cons kv ps ih =>
    intro acc f rest _ hf hok hn
    cases f with
    | zero => simp at hf
    | succ f =>
      have hk := hok kv List.mem_cons_self
      have hany : acc.any (fun x => x.1 == kv.1) = false := by
        rw [List.any_eq_false]
        intro x hx
        simp only [beq_iff_eq]
        intro e
        rw [List.map_append, List.map_cons, List.nodup_append] at hn
        exact hn.2.2 x.1 (List.mem_map_of_mem hx) kv.1 List.mem_cons_self e
      obtain ⟨k, v⟩ := kv
      cases ps with
      | nil =>
        simp only [mpToks, List.append_assoc, List.cons_append, List.nil_append]
        exact hp_last k v acc f rest hk hany
      | cons kv2 ps2 =>
        have hrec := ih (acc ++ [(k, v)]) f rest (by simp) (by simpa using hf)
          (fun x hx => hok x (List.mem_cons_of_mem _ hx)) (by simpa using hn)
        simp only [mpToks, List.append_assoc, List.cons_append, List.nil_append]
        rw [hp_more k v acc f _ hk hany, hrec]
        simp

theorem headerParams_toks (ps : Params) (rest : Toks) (hne : ps ≠ []) (hok : mparamsOK ps = true) :
    headerParams (mparamToks ps ++ rest) = .ok (ps, rest) := by
  simp only [mparamsOK, Bool.and_eq_true, List.all_eq_true, decide_eq_true_eq] at hok
  have hem : ps.isEmpty = false := by cases ps <;> simp at hne ⊢
  have hgo := headerParamsGo_toks ps [] ((mpToks ps ++ ([")"] ++ rest)).length + 1) rest hne (by
    have := mpToks_len ps
    simp only [List.length_append]; omega) hok.1 (by simpa using hok.2)
  unfold headerParams mparamToks
  have e1 : ("parameter" == ")") = false := by decide
  have e2 : ("parameter" != "parameter") = false := by decide
  simp only [hem, Bool.false_eq_true, if_false, List.cons_append, List.append_assoc, expect, next, bind, Except.bind,
    beq_self_eq_true, if_true, pure, Except.pure, e1, e2]
  simp only [List.cons_append, List.nil_append] at hgo ⊢
  exact hgo

/-! ### the token level for modules with assigns and module parameters -/

def WModA.sitems (m : WModA) : List SItem :=
  m.base.ports.map .port ++ m.base.wires.map .wire ++ m.asgs.map (fun a => SItem.asg a.1 a.2) ++ m.base.insts.map .inst

/-- the tokens of a module: attributes, name, module parameters, header with bare names, body, `endmodule` -/
def modToksP (attrs : Attrs) (name : String) (params : Params) (ports : List String) (items : List SItem) : List String :=
  starToks attrs ++ "module" :: nameT name :: (mparamToks params ++
    "(" :: (sepNames ports ++ ")" :: ";" :: (items.flatMap SItem.toks ++ ["endmodule"])))

def modOKP (attrs : Attrs) (name : String) (params : Params) (ports : List String) (items : List SItem) : Bool :=
  modOK attrs name ports items && mparamsOK params

theorem modToksP_nil (attrs : Attrs) (name : String) (ports : List String) (items : List SItem) :
    modToksP attrs name [] ports items = modToks attrs name ports items := by
  simp [modToksP, modToks, mparamToks]

/-- the token list of the text the writer prints for a module with assigns -/
def tokensOfA (m : WModA) : List String := modToksP m.base.attrs m.base.name m.params (m.base.ports.map (·.name)) m.sitems

def tokOKA (m : WModA) : Bool :=
  modOKP m.base.attrs m.base.name m.params (m.base.ports.map (·.name)) m.sitems && cleanToks (tokensOfA m)

theorem sitemsA_items (m : WModA) : m.sitems.map SItem.toItem = m.toModule.items := by
  simp [WModA.toModule, WModA.sitems, SItem.toItem, Function.comp_def]

theorem items_toks_len : ∀ (l : List SItem), (∀ it ∈ l, it.ok = true) → 2 * l.length ≤ (l.flatMap SItem.toks).length := by
  intro l
  induction l with
  | nil => intro _; simp
  | cons it l ih =>
    intro hok
    have h1 := ih (fun x hx => hok x (List.mem_cons_of_mem _ hx))
    have h2 : 2 ≤ it.toks.length := by
      unfold SItem.toks
      have : 2 ≤ it.core.length := by
        cases it with
        | port p => simp [SItem.core, portCore]
        | wire w => simp [SItem.core]
        | inst i => simp [SItem.core, instCore]; omega
        | asg l r => simp [SItem.core]; omega
      simp only [List.length_append]; omega
    simp only [List.flatMap_cons, List.length_append, List.length_cons]; omega

theorem moduleP_toksP (attrs pend : Attrs) (name : String) (params : Params) (ports : List String) (items : List SItem)
    (rest : Toks) (h : modOKP attrs name params ports items = true) :
    moduleP false pend ("module" :: nameT name :: (mparamToks params ++
      "(" :: (sepNames ports ++ ")" :: ";" :: (items.flatMap SItem.toks ++ "endmodule" :: rest)))) =
      .ok (⟨name, false, pend, params, ports.map (fun a => (⟨a, none, none, none⟩ : HPort)), items.map SItem.toItem⟩, rest) := by
  simp only [modOKP, Bool.and_eq_true] at h
  obtain ⟨h0, hpar⟩ := h
  by_cases hp : params = []
  · subst hp
    simp only [mparamToks, List.isEmpty_nil, if_true, List.nil_append]
    exact moduleP_toks attrs pend name ports items rest h0
  · have hpars := headerParams_toks params ("(" :: (sepNames ports ++ ")" :: ";" :: (items.flatMap SItem.toks ++ "endmodule" :: rest)))
      hp hpar
    have hem : params.isEmpty = false := by cases params <;> simp at hp ⊢
    simp only [modOK, Bool.and_eq_true, List.all_eq_true] at h0
    obtain ⟨⟨⟨_, h2⟩, h3⟩, h4⟩ := h0
    have hn := nameTok_sound _ _ h2
    have hhp := headerPortsGo_toks ports [] ((sepNames ports).length + ((items.flatMap SItem.toks ++ "endmodule" :: rest).length + 1 + 1) + 1)
      (";" :: (items.flatMap SItem.toks ++ "endmodule" :: rest)) (by have := sepNames_len ports; omega) h3
    have hbody := bodyGo_items items [] ((items.flatMap SItem.toks ++ "endmodule" :: rest).length + 1) rest (by
      have := items_toks_len items h4
      simp only [List.length_append, List.length_cons]; omega) h4
    have htl : ∃ tl, mparamToks params ++ "(" :: (sepNames ports ++ ")" :: ";" :: (items.flatMap SItem.toks ++ "endmodule" :: rest)) =
        "#" :: tl := by
      unfold mparamToks; simp [hem]
    obtain ⟨tl, htl'⟩ := htl
    unfold moduleP header
    rw [htl'] at hpars ⊢
    simp only [expect, next, peek, bind, Except.bind, beq_self_eq_true, if_true, hn.valid, Bool.not_true, Bool.false_eq_true,
      if_false, pure, Except.pure, hpars, List.length_append, List.length_cons]
    simp only [List.nil_append, List.length_append, List.length_cons] at hhp
    simp only [List.nil_append] at hbody
    rw [hhp]
    simp only [List.nil_append, beq_self_eq_true, if_true]
    rw [hbody]
    simp [hn.strip]

/-- a module (any list of body items of the fragment, module parameters) anywhere at the top level of the file -/
theorem topGo_mod (f : Nat) (attrs : Attrs) (name : String) (params : Params) (ports : List String) (items : List SItem)
    (rest : Toks) (acc : List Module) (h : modOKP attrs name params ports items = true) :
    topGo (f + 2) (modToksP attrs name params ports items ++ rest) false [] acc =
      topGo (if attrs = [] then f + 1 else f) rest false []
        (acc ++ [⟨name, false, attrs, params, ports.map (fun a => (⟨a, none, none, none⟩ : HPort)), items.map SItem.toItem⟩]) := by
  have hm := fun pend => moduleP_toksP attrs pend name params ports items rest h
  have hmod : ∀ (g : Nat) (pend : Attrs), topGo (g + 1) ("module" :: nameT name :: (mparamToks params ++ "(" :: (sepNames ports ++ ")" :: ";" ::
      (items.flatMap SItem.toks ++ "endmodule" :: rest)))) false pend acc =
      topGo g rest false [] (acc ++ [⟨name, false, pend, params, ports.map (fun a => (⟨a, none, none, none⟩ : HPort)),
        items.map SItem.toItem⟩]) := by
    intro g pend
    conv => lhs; unfold topGo
    simp only [fw_module.1, fw_module.2, Bool.false_eq_true, if_false, beq_self_eq_true, if_true, hm pend]
  have h0 : modOK attrs name ports items = true := by
    simp only [modOKP, Bool.and_eq_true] at h; exact h.1
  unfold modToksP
  by_cases ha : attrs = []
  · simp only [ha, starToks, List.isEmpty_nil, if_true, List.nil_append, List.cons_append, List.append_assoc]
    rw [hmod _ []]
  · have hok : attrsOK attrs = true := by
      simp only [modOK, Bool.and_eq_true] at h0; exact h0.1.1.1
    have hnd : (attrs.map (·.1)).Nodup := by
      simp only [attrsOK, Bool.and_eq_true, decide_eq_true_eq] at hok; exact hok.2
    have hs := star_toks attrs ("module" :: nameT name :: (mparamToks params ++ "(" :: (sepNames ports ++ ")" :: ";" ::
      (items.flatMap SItem.toks ++ "endmodule" :: rest)))) ha hok
    have hem : attrs.isEmpty = false := by cases hma : attrs <;> simp [hma] at ha ⊢
    unfold starToks at hs ⊢
    simp only [hem, Bool.false_eq_true, if_false, List.cons_append, List.append_assoc, List.nil_append, ha] at hs ⊢
    conv => lhs; unfold topGo
    have g1 : ("(" == "module") = false := by decide
    have g2 : ("(" == "primitive") = false := by decide
    simp only [fw_paren.1, fw_paren.2, g1, g2, Bool.false_eq_true, if_false, beq_self_eq_true, if_true, hs,
      mergeAttrs_nil attrs hnd]
    rw [hmod _ attrs]

theorem topGo_workA (f : Nat) (m : WModA) (rest : Toks) (acc : List Module)
    (h : modOKP m.base.attrs m.base.name m.params (m.base.ports.map (·.name)) m.sitems = true) :
    topGo (f + 2) (tokensOfA m ++ rest) false [] acc =
      topGo (if m.base.attrs = [] then f + 1 else f) rest false [] (acc ++ [m.toModule]) := by
  unfold tokensOfA
  rw [topGo_mod f _ _ _ _ _ rest acc h, sitemsA_items]
  congr 3
  simp [WModA.toModule, Function.comp_def]

/-! ### a `celldefine` module with attributes and parameters -/

def leafCoreX (lf : WLeafX) : List String :=
  starToks lf.attrs ++ "module" :: nameT lf.base.name :: (mparamToks lf.params ++ "(" ::
    (sepNames (lf.base.ports.map (·.name)) ++ ")" :: ";" ::
      (lf.base.ports.flatMap (fun p => portCore p.dir p.rng p.name) ++ ["endmodule"])))

def leafToksX (lf : WLeafX) : List String := "`celldefine" :: (leafCoreX lf ++ ["`endcelldefine"])

def leafOKX (lf : WLeafX) : Bool :=
  leafOK lf.base && attrsOK lf.attrs && mparamsOK lf.params && cleanToks (leafCoreX lf)

theorem moduleP_leafX (lf : WLeafX) (pend : Attrs) (rest : Toks) (h : leafOK lf.base = true) (hpar : mparamsOK lf.params = true) :
    moduleP true pend ("module" :: nameT lf.base.name :: (mparamToks lf.params ++ "(" ::
      (sepNames (lf.base.ports.map (·.name)) ++ ")" :: ";" ::
        (lf.base.ports.flatMap (fun p => portCore p.dir p.rng p.name) ++ "endmodule" :: rest)))) =
      .ok (⟨lf.base.name, true, pend, lf.params, lf.base.ports.map (fun p => (⟨p.name, none, none, none⟩ : HPort)),
        lf.base.ports.map (fun p => Item.portDecl p.dir none p.rng p.name [])⟩, rest) := by
  by_cases hp : lf.params = []
  · rw [hp]
    simp only [mparamToks, List.isEmpty_nil, if_true, List.nil_append]
    exact moduleP_leaf lf.base pend rest h
  · simp only [leafOK, Bool.and_eq_true, List.all_eq_true] at h
    obtain ⟨⟨h2, h3⟩, _⟩ := h
    have hn := nameTok_sound _ _ h2
    have hpn : ∀ a ∈ lf.base.ports.map (·.name), nameTokB (nameT a) a = true := by
      intro a ha
      obtain ⟨p, hp', e⟩ := List.mem_map.mp ha
      have := (h3 p hp').1
      simp only [portOK, Bool.and_eq_true] at this
      rw [← e]; exact this.2
    generalize hbody : lf.base.ports.flatMap (fun p => portCore p.dir p.rng p.name) ++ "endmodule" :: rest = body
    have hhp := headerPortsGo_toks (lf.base.ports.map (·.name)) []
      ((sepNames (lf.base.ports.map (·.name))).length + (body.length + 1 + 1) + 1)
      (";" :: body) (by have := sepNames_len (lf.base.ports.map (·.name)); omega) hpn
    have hb := primBodyGo_ports lf.base.ports [] (body.length + 1) rest (by
      rw [← hbody]
      have : ∀ (l : List PDecl), l.length ≤ (l.flatMap (fun p => portCore p.dir p.rng p.name)).length := by
        intro l
        induction l with
        | nil => simp
        | cons a l ih =>
          have hp1 : 1 ≤ (portCore a.dir a.rng a.name).length := by simp [portCore]
          simp only [List.flatMap_cons, List.length_append, List.length_cons]; omega
      have := this lf.base.ports
      simp only [List.length_append, List.length_cons]; omega) (fun p hp' => (h3 p hp').1)
    rw [hbody] at hb
    have hpars := headerParams_toks lf.params ("(" :: (sepNames (lf.base.ports.map (·.name)) ++ ")" :: ";" :: body)) hp hpar
    have hem : lf.params.isEmpty = false := by cases hq : lf.params <;> simp [hq] at hp ⊢
    have htl : ∃ tl, mparamToks lf.params ++ "(" :: (sepNames (lf.base.ports.map (·.name)) ++ ")" :: ";" :: body) = "#" :: tl := by
      unfold mparamToks; simp [hem]
    obtain ⟨tl, htl'⟩ := htl
    unfold moduleP header
    rw [htl'] at hpars ⊢
    simp only [expect, next, peek, bind, Except.bind, beq_self_eq_true, if_true, hn.valid, Bool.not_true, Bool.false_eq_true,
      if_false, pure, Except.pure, hpars, List.length_append, List.length_cons]
    simp only [List.nil_append, List.length_append, List.length_cons] at hhp
    simp only [List.nil_append] at hb
    rw [hhp]
    simp only [List.nil_append, beq_self_eq_true, if_true]
    rw [hb]
    simp [hn.strip, List.map_map, Function.comp_def]

/-- one `celldefine` module with attributes and parameters at the top level of the file -/
theorem topGo_leafX (f : Nat) (lf : WLeafX) (rest : Toks) (acc : List Module) (h : leafOKX lf = true) :
    topGo (f + 4) (leafToksX lf ++ rest) false [] acc = topGo (if lf.attrs = [] then f + 1 else f) rest false [] (acc ++ [lf.toModule]) := by
  simp only [leafOKX, Bool.and_eq_true] at h
  obtain ⟨⟨⟨hb, hat⟩, hpar⟩, _⟩ := h
  have hm := fun pend => moduleP_leafX lf pend ("`endcelldefine" :: rest) hb hpar
  have hattrs : lf.base.ports.map (fun p => Item.portDecl p.dir none p.rng p.name []) = lf.base.ports.map PDecl.item := by
    apply List.map_congr_left
    intro p hp
    simp only [leafOK, Bool.and_eq_true, List.all_eq_true] at hb
    have := (hb.1.2 p hp).2
    unfold PDecl.item
    rw [List.isEmpty_iff.mp this]
  -- `module … endmodule `endcelldefine` with the pending attributes
  have hmod : ∀ (g : Nat) (pend : Attrs), topGo (g + 2) ("module" :: nameT lf.base.name :: (mparamToks lf.params ++ "(" ::
      (sepNames (lf.base.ports.map (·.name)) ++ ")" :: ";" ::
        (lf.base.ports.flatMap (fun p => portCore p.dir p.rng p.name) ++ "endmodule" :: "`endcelldefine" :: rest)))) true pend acc =
      topGo g rest false [] (acc ++ [⟨lf.base.name, true, pend, lf.params,
        lf.base.ports.map (fun p => (⟨p.name, none, none, none⟩ : HPort)), lf.base.ports.map PDecl.item⟩]) := by
    intro g pend
    conv => lhs; unfold topGo
    simp only [fw_module.1, fw_module.2, Bool.false_eq_true, if_false, beq_self_eq_true, if_true, hm pend]
    conv => lhs; unfold topGo
    have e1 : ("`endcelldefine" == "`celldefine") = false := by decide
    simp only [firstWord_endcell, e1, Bool.false_eq_true, if_false, beq_self_eq_true, if_true, hattrs]
  unfold leafToksX leafCoreX
  simp only [List.cons_append, List.append_assoc, List.nil_append]
  -- `celldefine
  conv => lhs; unfold topGo
  simp only [firstWord_cell, beq_self_eq_true, if_true]
  by_cases ha : lf.attrs = []
  · simp only [ha, starToks, List.isEmpty_nil, if_true, List.nil_append]
    rw [hmod (f + 1) []]
    simp [WLeafX.toModule, ha]
  · have hnd : (lf.attrs.map (·.1)).Nodup := by
      simp only [attrsOK, Bool.and_eq_true, decide_eq_true_eq] at hat; exact hat.2
    have hs := star_toks lf.attrs ("module" :: nameT lf.base.name :: (mparamToks lf.params ++ "(" ::
      (sepNames (lf.base.ports.map (·.name)) ++ ")" :: ";" ::
        (lf.base.ports.flatMap (fun p => portCore p.dir p.rng p.name) ++ "endmodule" :: "`endcelldefine" :: rest)))) ha hat
    have hem : lf.attrs.isEmpty = false := by cases hma : lf.attrs <;> simp [hma] at ha ⊢
    unfold starToks at hs ⊢
    simp only [hem, Bool.false_eq_true, if_false, List.cons_append, List.append_assoc, List.nil_append, ha] at hs ⊢
    conv => lhs; unfold topGo
    have g1 : ("(" == "module") = false := by decide
    have g2 : ("(" == "primitive") = false := by decide
    simp only [fw_paren.1, fw_paren.2, g1, g2, Bool.false_eq_true, if_false, beq_self_eq_true, if_true, hs,
      mergeAttrs_nil lf.attrs hnd]
    rw [hmod f lf.attrs]
    simp [WLeafX.toModule]

theorem leafToksX_keep (lf : WLeafX) (h : leafOKX lf = true) : (leafToksX lf).all keepTok = true := by
  simp only [leafOKX, Bool.and_eq_true] at h
  have := keep_of_clean _ h.2
  unfold leafToksX
  simp only [List.all_cons, List.all_append, List.all_nil, Bool.and_true, this]
  decide +kernel

def anyToksA : WAnyA → List String
  | .work m => tokensOfA m
  | .leaf lf => leafToksX lf

def anyOKA : WAnyA → Bool
  | .work m => tokOKA m
  | .leaf lf => leafOKX lf

theorem topGo_anysA : ∀ (Ms : List WAnyA) (f : Nat) (acc : List Module),
    4 * Ms.length + 1 ≤ f → (∀ M ∈ Ms, anyOKA M = true) →
    topGo f (Ms.flatMap anyToksA) false [] acc = .ok (acc ++ Ms.map WAnyA.toModule) := by
  intro Ms
  induction Ms with
  | nil =>
    intro f acc hf _
    obtain ⟨g, hg⟩ : ∃ g, f = g + 1 := ⟨f - 1, by simp at hf; omega⟩
    subst hg
    unfold topGo
    simp
  | cons M Ms ih =>
    intro f acc hf hok
    simp only [List.flatMap_cons, List.length_cons] at hf ⊢
    cases M with
    | work m =>
      obtain ⟨g, hg⟩ : ∃ g, f = g + 2 := ⟨f - 2, by omega⟩
      subst hg
      have hm : tokOKA m = true := hok (.work m) List.mem_cons_self
      simp only [tokOKA, Bool.and_eq_true] at hm
      simp only [anyToksA]
      rw [topGo_workA g m _ acc hm.1,
        ih _ _ (by split <;> omega) (fun x hx => hok x (List.mem_cons_of_mem _ hx))]
      simp [WAnyA.toModule]
    | leaf lf =>
      obtain ⟨g, hg⟩ : ∃ g, f = g + 4 := ⟨f - 4, by omega⟩
      subst hg
      have hl : leafOKX lf = true := hok (.leaf lf) List.mem_cons_self
      simp only [anyToksA]
      rw [topGo_leafX g lf _ acc hl, ih _ _ (by split <;> omega) (fun x hx => hok x (List.mem_cons_of_mem _ hx))]
      simp [WAnyA.toModule]

/-- the tokens of a hierarchical file with assigns (without the comment lines) -/
def fileToksA (m : WModA) (Ms : List WAnyA) : List String := tokensOfA m ++ Ms.flatMap anyToksA

theorem anyToksA_keep (M : WAnyA) (h : anyOKA M = true) : (anyToksA M).all keepTok = true := by
  cases M with
  | work m =>
    simp only [anyOKA, tokOKA, Bool.and_eq_true] at h
    exact keep_of_clean _ h.2
  | leaf lf => exact leafToksX_keep lf h

theorem anyToksA_len (M : WAnyA) : 4 ≤ (anyToksA M).length := by
  cases M with
  | work m => simp [anyToksA, tokensOfA, modToksP]; omega
  | leaf lf => simp [anyToksA, leafToksX, leafCoreX]; omega

/-- **parse_hierA.**  Token level for a hierarchical file with assigns: the REAL `parseV` on the comment lines followed by
    the tokens of the top module and of the later modules returns exactly their syntax trees. -/
theorem parse_hierA (cs : Toks) (m : WModA) (Ms : List WAnyA) (hc : ∀ c ∈ cs, Text.isCommentTok c = true)
    (h : tokOKA m = true) (hl : ∀ M ∈ Ms, anyOKA M = true) :
    parseV (cs ++ fileToksA m Ms) = .ok (m.toModule :: Ms.map WAnyA.toModule) := by
  have hall : ∀ M ∈ WAnyA.work m :: Ms, anyOKA M = true := by
    intro M hM
    rcases List.mem_cons.mp hM with e | e
    · rw [e]; exact h
    · exact hl M e
  have hft : fileToksA m Ms = (WAnyA.work m :: Ms).flatMap anyToksA := by simp [fileToksA, anyToksA]
  have hkeep : (fileToksA m Ms).all keepTok = true := by
    rw [hft, List.all_flatMap, List.all_eq_true]
    intro M hM
    exact anyToksA_keep M (hall M hM)
  unfold parseV
  have h1 : preprocess ((cs ++ fileToksA m Ms).length + 1) (cs ++ fileToksA m Ms) false = .ok (fileToksA m Ms) := by
    have : (cs ++ fileToksA m Ms).length + 1 = ((fileToksA m Ms).length + 1) + cs.length := by simp; omega
    rw [this, preprocess_comments cs _ _ hc]
    exact preprocess_keep _ _ (Nat.le_refl _) hkeep
  simp only [h1, bind, Except.bind]
  have hlen : ∀ (l : List WAnyA), 4 * l.length ≤ (l.flatMap anyToksA).length := by
    intro l
    induction l with
    | nil => simp
    | cons a l ih =>
      have := anyToksA_len a
      simp only [List.flatMap_cons, List.length_append, List.length_cons]; omega
  rw [hft, topGo_anysA (WAnyA.work m :: Ms) _ [] (by have := hlen (WAnyA.work m :: Ms); omega) hall]
  simp [WAnyA.toModule]
end Spydr.Verilog.Elab
