/-
  Verilog engine — proof side, part 57 (assign statements): the writer side — `assignsText` / `instancesText` on a mixed
  instance list (`assigns_foldA`, `instances_foldA`), the module text `renderModA` (`moduleText_topA`), the later
  definitions with nothing printed for the assignment definitions (`anys_textA`), and the whole file
  (`composeV_text_hierA`).
-/
import Spydr.Verilog.RoundTripAsgF
set_option maxHeartbeats 1600000
namespace Spydr.Verilog.Elab
open Spydr.Verilog
open Spydr.Verilog.Text (starConstraints fixName showInt dirString bracketsDefining)

/-! ### the writer on a module with assignment instances -/

def asgLine (lr : Atom × Atom) : String := "assign " ++ Text.atomText lr.1 ++ " = " ++ Text.atomText lr.2 ++ ";\n"

/-- `assignsText`: one line per assignment instance, in the order of the instance list; other instances are skipped -/
theorem assigns_foldA (n : Text.WNet) (T : Text.WDef) : ∀ (is : List Text.WInst) (as : List (Atom × Atom)) (txt : String),
    (is.filter (isAsgI n)).mapM (astAsg n T) = some as → (∀ i ∈ is, (Text.refOf n i.ref).isSome = true) →
    is.foldlM (asgStep n T) txt = .ok (txt ++ String.join (as.map asgLine)) := by
  intro is
  induction is with
  | nil =>
    intro as txt hm _
    simp only [List.filter_nil, List.mapM_nil, pure, Option.some.injEq] at hm
    subst hm
    simp [pure, Except.pure, join_nil]
  | cons i is ih =>
    intro as txt hm hr
    have hri := hr i List.mem_cons_self
    cases hrf : Text.refOf n i.ref with
    | none => rw [hrf] at hri; cases hri
    | some r =>
      by_cases hl : r.lib = "SDN_VERILOG_ASSIGNMENT"
      · have hai : isAsgI n i = true := by unfold isAsgI; simp [hrf, hl]
        rw [List.filter_cons_of_pos hai, List.mapM_cons] at hm
        cases ha : astAsg n T i with
        | none => simp [ha] at hm
        | some lr =>
          cases hrest : (is.filter (isAsgI n)).mapM (astAsg n T) with
          | none => simp [ha, hrest] at hm
          | some as' =>
            simp only [ha, hrest, Option.bind_eq_bind, Option.bind_some, pure, Option.some.injEq] at hm
            subst hm
            have hstep : asgStep n T txt i = .ok (txt ++ asgLine lr) := by
              unfold astAsg at ha
              unfold asgStep
              have hne : (r.lib != "SDN_VERILOG_ASSIGNMENT") = false := by simp [hl]
              simp only [hrf] at ha
              simp only [hrf, hne, Bool.false_eq_true, if_false]
              split at ha
              · rename_i ki ko hki hko
                simp only [hki, hko, ha, pure, Except.pure]
                simp [asgLine, String.append_assoc]
              · cases ha
            simp only [List.foldlM_cons, bind, Except.bind, hstep]
            rw [ih as' _ hrest (fun x hx => hr x (List.mem_cons_of_mem _ hx))]
            simp [join_cons, String.append_assoc]
      · have hai : isAsgI n i = false := by unfold isAsgI; simp [hrf, hl]
        rw [List.filter_cons_of_neg (by simp [hai])] at hm
        have hstep : asgStep n T txt i = .ok txt := by
          unfold asgStep
          have : (r.lib != "SDN_VERILOG_ASSIGNMENT") = true := by simp [hl]
          simp only [hrf, this, if_true, pure, Except.pure]
        simp only [List.foldlM_cons, bind, Except.bind, hstep]
        exact ih as txt hm (fun x hx => hr x (List.mem_cons_of_mem _ hx))

/-- `instancesText`: the instances that are no assignments, in the order of the instance list -/
theorem instances_foldA (n : Text.WNet) (T : Text.WDef) : ∀ (is : List Text.WInst) (pis : List PInst) (txt : String),
    (is.filter (fun i => !isAsgI n i)).mapM (astInst n T) = some pis →
    (∀ i ∈ is, isAsgI n i = false → i.params ≠ some []) →
    is.foldlM (insStep n optsFrag T) txt = .ok (txt ++ String.join (pis.map instLine)) := by
  intro is
  induction is with
  | nil =>
    intro pis txt hm _
    simp only [List.filter_nil, List.mapM_nil, pure, Option.some.injEq] at hm
    subst hm
    simp [pure, Except.pure, join_nil]
  | cons i is ih =>
    intro pis txt hm hf
    by_cases hai : isAsgI n i = true
    · rw [List.filter_cons_of_neg (by simp [hai])] at hm
      have hstep : insStep n optsFrag T txt i = .ok txt := by
        unfold isAsgI at hai
        cases hrf : Text.refOf n i.ref with
        | none => simp [hrf] at hai
        | some r =>
          simp only [hrf] at hai
          unfold insStep
          simp only [hrf, hai, if_true, pure, Except.pure]
      simp only [List.foldlM_cons, bind, Except.bind, hstep]
      exact ih pis txt hm (fun x hx => hf x (List.mem_cons_of_mem _ hx))
    · have hai' : isAsgI n i = false := by simpa using hai
      rw [List.filter_cons_of_pos (by simp [hai'])] at hm
      rw [List.mapM_cons] at hm
      cases hpi : astInst n T i with
      | none => simp [hpi] at hm
      | some pi =>
        cases hrest : (is.filter (fun i => !isAsgI n i)).mapM (astInst n T) with
        | none => simp [hpi, hrest] at hm
        | some pis' =>
          simp only [hpi, hrest, Option.bind_eq_bind, Option.bind_some, pure, Option.some.injEq] at hm
          subst hm
          have hit : InstText n i := by
            refine ⟨?_, hf i List.mem_cons_self hai'⟩
            intro r hr e
            unfold isAsgI at hai'
            simp [hr, e] at hai'
          simp only [List.foldlM_cons, bind, Except.bind, insStep_inst n T txt i pi hpi hit]
          rw [ih pis' _ hrest (fun x hx => hf x (List.mem_cons_of_mem _ hx))]
          simp [join_cons, String.append_assoc]

/-- the text of the module parameters in the header -/
def mparamLine (kv : String × String) : String := "\n    parameter " ++ kv.1 ++ " = " ++ kv.2

def mparamsText (ps : Params) : String :=
  if ps.isEmpty then "" else "#(" ++ ",".intercalate (ps.map mparamLine) ++ "\n)"

theorem params_lines : ∀ (ps : List (String × Option String)) (pars : Params),
    ps.mapM (fun kv => kv.2.map (fun v => (kv.1, v))) = some pars →
    ps.map (fun kv => "\n    parameter " ++ kv.1 ++ (match kv.2 with
      | some v => " = " ++ v
      | none => "")) = pars.map mparamLine ∧ pars.length = ps.length := by
  intro ps
  induction ps with
  | nil => intro pars h; simp only [List.mapM_nil, pure, Option.some.injEq] at h; subst h; exact ⟨rfl, rfl⟩
  | cons kv ps ih =>
    intro pars h
    rw [List.mapM_cons] at h
    obtain ⟨k, v⟩ := kv
    cases v with
    | none => simp at h
    | some v =>
      cases hr : ps.mapM (fun kv => kv.2.map (fun v => (kv.1, v))) with
      | none => simp [hr] at h
      | some pars' =>
        simp only [hr, Option.map_some, Option.bind_eq_bind, Option.bind_some, pure, Option.some.injEq] at h
        subst h
        obtain ⟨a, b⟩ := ih pars' hr
        refine ⟨?_, by simp [b]⟩
        show ("\n    parameter " ++ k ++ (" = " ++ v)) :: _ = _
        rw [a]
        simp [mparamLine, String.append_assoc]

theorem params_text (T : Text.WDef) (pars : Params) (h : astParams T = some pars) (hne : T.params ≠ some []) :
    (match T.params with
     | some ps => Text.moduleParamsText ps
     | none => "") = mparamsText pars := by
  unfold astParams at h
  cases hp : T.params with
  | none =>
    simp only [hp, Option.some.injEq] at h
    subst h
    rfl
  | some ps =>
    simp only [hp] at h
    obtain ⟨a, b⟩ := params_lines ps pars h
    have hne' : ps ≠ [] := by intro e; apply hne; rw [hp, e]
    have hem : pars.isEmpty = false := by
      cases pars with
      | nil => exact absurd (List.eq_nil_of_length_eq_zero b.symm) hne'
      | cons x xs => rfl
    unfold Text.moduleParamsText mparamsText
    simp only [hem, Bool.false_eq_true, if_false]
    exact congrArg (fun l => "#(" ++ ",".intercalate l ++ "\n)") a

/-- the text of `_write_module` for a module with assigns -/
def renderModA (m : WModPA) : String :=
  "" ++ starText m.base.attrs ++
    ("module " ++ fixName m.base.name ++ "\n" ++ mparamsText m.params ++ "(" ++
      ",".intercalate ((m.base.ports.map (fun p => "    " ++ fixName p.name)).map (fun s => "\n" ++ s)) ++ "\n);\n" ++ "\n") ++
    (String.join (m.base.ports.map portLine) ++ "\n") ++
    ((String.join (m.base.wires.map wireLine) ++ "\n") ++ String.join (m.asgs.map asgLine) ++
      String.join (m.base.insts.map instLine)) ++
    "endmodule" ++ "" ++ "\n\n"

/-- the text-side clauses of the fragment for a work definition with assigns -/
structure TopTextA (n : Text.WNet) (T : Text.WDef) : Prop where
  lib1 : T.lib ≠ "SDN_VERILOG_ASSIGNMENT"
  lib2 : T.lib ≠ "hdi_primitives"
  params : T.params ≠ some []
  insts : ∀ i ∈ T.insts, isAsgI n i = false → i.params ≠ some []

def topTextBA (n : Text.WNet) (T : Text.WDef) : Bool :=
  T.lib != "SDN_VERILOG_ASSIGNMENT" && T.lib != "hdi_primitives" &&
  (match T.params with | some ps => !ps.isEmpty | none => true) &&
  T.insts.all (fun i => isAsgI n i || !(match i.params with | some ps => ps.isEmpty | none => false))

theorem topTextBA_sound (n : Text.WNet) (T : Text.WDef) (h : topTextBA n T = true) : TopTextA n T := by
  simp only [topTextBA, Bool.and_eq_true, bne_iff_ne, ne_eq, List.all_eq_true, Bool.or_eq_true, Bool.not_eq_eq_eq_not,
    Bool.not_true] at h
  obtain ⟨⟨⟨h1, h2⟩, h3⟩, h4⟩ := h
  refine ⟨h1, h2, ?_, ?_⟩
  · intro e
    rw [e] at h3; simp at h3
  · intro i hi ha e
    rcases h4 i hi with h | h
    · rw [ha] at h; cases h
    · rw [e] at h; simp at h

theorem moduleText_topA (n : Text.WNet) (T : Text.WDef) (m : WModPA) (hfrag : fragTop n T = true) (ht : TopTextA n T)
    (hm : astOfA n T = some m) : Text.moduleText n optsFrag T = .ok (renderModA m) := by
  simp only [fragTop, Bool.and_eq_true, decide_eq_true_eq, List.all_eq_true] at hfrag
  obtain ⟨⟨⟨⟨F1, F1w⟩, F2n⟩, F2⟩, F3⟩ := hfrag
  unfold astOfA at hm
  cases hports : T.ports.mapM (astPort T) with
  | none => simp [hports] at hm
  | some ports =>
    cases hinsts : (ordI n T).mapM (astInst n T) with
    | none => simp [hports, hinsts] at hm
    | some insts =>
      cases hasg : (asgI n T).mapM (astAsg n T) with
      | none => simp [hports, hinsts, hasg] at hm
      | some as =>
       cases hpar : astParams T with
       | none => simp [hports, hinsts, hasg, hpar] at hm
       | some pars =>
        simp only [hports, hinsts, hasg, hpar, Option.some.injEq] at hm
        subst hm
        have H2 : ∀ c ∈ T.cables, 1 ≤ c.width := fun c hc => by simpa using F1w c hc
        have hPF : ∀ p ∈ T.ports, PortFrag T p := by
          intro p hp nm hn c hc
          have := F2 p hp
          simp only [hn, hc, Bool.and_eq_true, decide_eq_true_eq] at this
          exact ⟨this.1.1, this.1.2, this.2, H2 c (List.mem_of_find?_eq_some hc)⟩
        have hbp : Text.bodyPortsText T = .ok (String.join (ports.map portLine) ++ "\n") := by
          rw [bodyPortsText_eq]
          simp only [bind, Except.bind, bodyPorts_fold T T.ports ports "" [] hports hPF (by intro p _ nm _ h; cases h) F2n,
            pure, Except.pure]
          simp
        have hbc := bodyCables_text T H2
        have hrefs : ∀ i ∈ T.insts, (Text.refOf n i.ref).isSome = true := by
          intro i hi
          have := F3 i hi
          cases hr : Text.refOf n i.ref with
          | none => simp [hr] at this
          | some r => rfl
        have has : Text.assignsText n T = .ok (String.join (as.map asgLine)) := by
          rw [assignsText_eq, assigns_foldA n T T.insts as "" hasg hrefs]
          simp
        have hin : Text.instancesText n optsFrag T = .ok (String.join (insts.map instLine)) := by
          rw [instancesText_eq, instances_foldA n T T.insts insts "" hinsts ht.insts]
          simp
        have hhp := headerPorts_text T T.ports ports hports
        have hl1 : (T.lib == "SDN_VERILOG_ASSIGNMENT") = false := by simp [ht.lib1]
        have hl2 : (T.lib == "hdi_primitives") = false := by simp [ht.lib2]
        unfold Text.moduleText
        simp only [optsFrag, bind, Except.bind, pure, Except.pure, hl1, hl2, Bool.false_eq_true, if_false, Bool.false_and,
          hhp, hbp, hbc, has]
        have hin' : Text.instancesText n { defList := none, writeBlackbox := false, defparam := false } T =
            .ok (String.join (insts.map instLine)) := hin
        rw [hin']
        simp only [renderModA, starConstraints_getD, List.map_map]
        rw [← params_text T pars hpar ht.params]
        rfl

theorem moduleText_asgdef (n : Text.WNet) (d : Text.WDef) (h : d.lib = "SDN_VERILOG_ASSIGNMENT") :
    Text.moduleText n optsBB d = .ok "" := by
  unfold Text.moduleText
  simp [optsBB, h, bind, Except.bind, pure, Except.pure]

/-! ### the later modules of the file -/

/-! ### a primitive with attributes and parameters -/

/-- the text of `_write_module` for a primitive with attributes and parameters -/
def renderLeafX (lf : WLeafX) : String :=
  "`celldefine\n" ++ starText lf.attrs ++
    ("module " ++ fixName lf.base.name ++ "\n" ++ mparamsText lf.params ++ "(" ++
      ",".intercalate ((lf.base.ports.map (fun p => "    " ++ fixName p.name)).map (fun s => "\n" ++ s)) ++ "\n);\n" ++ "\n") ++
    (String.join (lf.base.ports.map portLine) ++ "\n") ++ "" ++ "endmodule" ++ "\n`endcelldefine" ++ "\n\n"

structure LeafTextX (r : Text.WDef) : Prop where
  lib : r.lib = "hdi_primitives"
  params : r.params ≠ some []

def leafTextBX (r : Text.WDef) : Bool :=
  r.lib == "hdi_primitives" && (match r.params with | some ps => !ps.isEmpty | none => true)

theorem leafTextBX_sound (r : Text.WDef) (h : leafTextBX r = true) : LeafTextX r := by
  simp only [leafTextBX, Bool.and_eq_true, beq_iff_eq] at h
  refine ⟨h.1, ?_⟩
  intro e
  have := h.2
  rw [e] at this; simp at this

theorem moduleText_leafX (n : Text.WNet) (r : Text.WDef) (lf : WLeafX) (ht : LeafTextX r) (ha : astLeafXU r = some lf)
    (hnd : (lf.base.ports.map (·.name)).Nodup) : Text.moduleText n optsBB r = .ok (renderLeafX lf) := by
  obtain ⟨hU, hat, hpar⟩ := astLeafXU_spec r lf ha
  unfold astLeafU at hU
  simp only [Option.map_eq_some_iff] at hU
  obtain ⟨qs, hqs, e⟩ := hU
  have hports : lf.base.ports = qs := by rw [← e]
  have hname : lf.base.name = r.name := by rw [← e]
  have hhp : r.ports.mapM (Text.headerPortText r) = .ok (qs.map (fun p => "    " ++ fixName p.name)) :=
    mapM_opt_exc (astLeafPortU r) (Text.headerPortText r) (fun p => "    " ++ fixName p.name)
      (fun a b h => headerPort_leafU r a b h) r.ports qs hqs
  have hbp : Text.bodyPortsText r = .ok (String.join (qs.map portLine) ++ "\n") := by
    rw [bodyPortsText_eq]
    simp only [bind, Except.bind, bodyPorts_leafU r r.ports qs "" [] hqs (by intro q _ h; cases h) (by rw [← hports]; exact hnd),
      pure, Except.pure]
    simp
  have hl1 : (r.lib == "SDN_VERILOG_ASSIGNMENT") = false := by rw [ht.lib]; decide
  have hl2 : (r.lib == "hdi_primitives") = true := by rw [ht.lib]; decide
  unfold Text.moduleText
  simp only [optsBB, bind, Except.bind, pure, Except.pure, hl1, hl2, Bool.false_eq_true, if_false, Bool.not_true, Bool.and_false,
    if_true, hhp, hbp]
  simp only [renderLeafX, starConstraints_getD, List.map_map, hports, hname, hat]
  rw [← params_text r lf.params hpar ht.params]
  rfl

inductive WAnyPA
  | work (m : WModPA)
  | leaf (lf : WLeafX)

def WAnyPA.toAny : WAnyPA → WAnyA
  | .work m => .work m.toA
  | .leaf lf => .leaf (inoutifyX lf)

def astAnyPA (n : Text.WNet) (r : Text.WDef) : Option WAnyPA :=
  if r.lib == "hdi_primitives" then (astLeafXU r).map WAnyPA.leaf else (astOfA n r).map WAnyPA.work

theorem astAnyA_of_P (n : Text.WNet) (r : Text.WDef) : astAnyA n r = (astAnyPA n r).map WAnyPA.toAny := by
  unfold astAnyA astAnyPA
  split
  · cases astLeafXU r <;> rfl
  · cases astOfA n r <;> rfl

theorem mapM_astAnyA (n : Text.WNet) : ∀ (Rs : List Text.WDef) (Ps : List WAnyPA), Rs.mapM (astAnyPA n) = some Ps →
    Rs.mapM (astAnyA n) = some (Ps.map WAnyPA.toAny) := by
  intro Rs
  induction Rs with
  | nil => intro Ps h; simp only [List.mapM_nil, pure, Option.some.injEq] at h; subst h; rfl
  | cons r Rs ih =>
    intro Ps h
    rw [List.mapM_cons] at h
    cases ha : astAnyPA n r with
    | none => simp [ha] at h
    | some P =>
      cases hr : Rs.mapM (astAnyPA n) with
      | none => simp [ha, hr] at h
      | some Ps' =>
        simp only [ha, hr, Option.bind_eq_bind, Option.bind_some, pure, Option.some.injEq] at h
        subst h
        rw [List.mapM_cons, astAnyA_of_P, ha, ih Ps' hr]
        rfl

def renderAnyA : WAnyPA → String
  | .work m => renderModA m
  | .leaf lf => renderLeafX lf

/-- the text-side clauses for a definition written after the top (decidable) -/
def anyTextBA (n : Text.WNet) (r : Text.WDef) : Bool :=
  match astAnyPA n r with
  | some (.work _) => fragTop n r && topTextBA n r
  | some (.leaf lf) => leafTextBX r && decide ((lf.base.ports.map (·.name)).Nodup)
  | none => false

theorem any_textA (n : Text.WNet) (r : Text.WDef) (P : WAnyPA) (ha : astAnyPA n r = some P) (ht : anyTextBA n r = true) :
    Text.moduleText n optsBB r = .ok (renderAnyA P) := by
  unfold anyTextBA at ht
  rw [ha] at ht
  unfold astAnyPA at ha
  split at ha
  · simp only [Option.map_eq_some_iff] at ha
    obtain ⟨lf, hlf, e⟩ := ha
    subst e
    simp only [Bool.and_eq_true, decide_eq_true_eq] at ht
    exact moduleText_leafX n r lf (leafTextBX_sound r ht.1) hlf ht.2
  · simp only [Option.map_eq_some_iff] at ha
    obtain ⟨m, hm, e⟩ := ha
    subst e
    simp only [Bool.and_eq_true] at ht
    have htt := topTextBA_sound n r ht.2
    rw [moduleText_bb_nonprim n r htt.lib2]
    exact moduleText_topA n r m ht.1 htt hm

def notAsgLib (r : Text.WDef) : Bool := r.lib != "SDN_VERILOG_ASSIGNMENT"

/-- the later definitions in the writer's order: nothing is printed for the assignment definitions -/
theorem anys_textA (n : Text.WNet) : ∀ (Rs : List Text.WDef) (Ps : List WAnyPA), (Rs.filter notAsgLib).mapM (astAnyPA n) = some Ps →
    (∀ r ∈ Rs.filter notAsgLib, anyTextBA n r = true) →
    ∃ mods, Rs.mapM (Text.moduleText n optsBB) = .ok mods ∧ String.join mods = String.join (Ps.map renderAnyA) := by
  intro Rs
  induction Rs with
  | nil =>
    intro Ps hm _
    simp only [List.filter_nil, List.mapM_nil, pure, Option.some.injEq] at hm
    subst hm
    exact ⟨[], rfl, rfl⟩
  | cons r Rs ih =>
    intro Ps hm ht
    by_cases hl : r.lib = "SDN_VERILOG_ASSIGNMENT"
    · have hna : notAsgLib r = false := by simp [notAsgLib, hl]
      rw [List.filter_cons_of_neg (by simp [hna])] at hm ht
      obtain ⟨mods, h1, h2⟩ := ih Ps hm ht
      refine ⟨"" :: mods, ?_, by rw [join_cons, h2]; simp⟩
      rw [List.mapM_cons]
      simp only [bind, Except.bind, moduleText_asgdef n r hl, h1, pure, Except.pure]
    · have hna : notAsgLib r = true := by simp [notAsgLib, hl]
      rw [List.filter_cons_of_pos hna] at hm ht
      rw [List.mapM_cons] at hm
      cases ha : astAnyPA n r with
      | none => simp [ha] at hm
      | some P =>
        cases hr : (Rs.filter notAsgLib).mapM (astAnyPA n) with
        | none => simp [ha, hr] at hm
        | some Ps' =>
          simp only [ha, hr, Option.bind_eq_bind, Option.bind_some, pure, Option.some.injEq] at hm
          subst hm
          obtain ⟨mods, h1, h2⟩ := ih Ps' hr (fun x hx => ht x (List.mem_cons_of_mem _ hx))
          refine ⟨renderAnyA P :: mods, ?_, by rw [join_cons, h2, List.map_cons, join_cons]⟩
          rw [List.mapM_cons]
          simp only [bind, Except.bind, any_textA n r P ha (ht r List.mem_cons_self), h1, pure, Except.pure]

/-- the definitions written after the top, without the assignment definitions -/
def laterA (n : Text.WNet) (ks : List Nat) : List Text.WDef := (leafDefs n ks).filter notAsgLib

/-- **composeV_text_hierA.**  The writer on a hierarchical netlist with assignment instances (`write_blackbox = True`):
    the file header, the top module, then every other definition in the order `_compose` visits them — nothing for the
    assignment definitions. -/
theorem composeV_text_hierA (n : Text.WNet) (T : Text.WDef) (kT : Nat) (ks : List Nat) (m : WModPA) (Ps : List WAnyPA)
    (hT : n.defs.getD kT default = T) (horder : composeOrder n = kT :: ks)
    (hfrag : fragTop n T = true) (ht : TopTextA n T) (hm : astOfA n T = some m)
    (hrs : (laterA n ks).mapM (astAnyPA n) = some Ps) (htxt : ∀ r ∈ laterA n ks, anyTextBA n r = true) :
    ∃ fin, Text.composeV n optsBB = .ok (fileHeader n ++ (renderModA m ++ String.join (Ps.map renderAnyA)), fin) := by
  have hX : Text.moduleText n optsBB (n.defs.getD kT default) = .ok (renderModA m) := by
    rw [hT, moduleText_bb_nonprim n T ht.lib2]; exact moduleText_topA n T m hfrag ht hm
  obtain ⟨mods, hL, hJ⟩ := anys_textA n (leafDefs n ks) Ps hrs htxt
  unfold leafDefs at hL
  rw [composeV_eq, horder, List.mapM_cons, mapM_getD n (Text.moduleText n optsBB) ks]
  simp only [bind, Except.bind, hX, hL, pure, Except.pure, join_cons, hJ]
  exact ⟨_, rfl⟩
end Spydr.Verilog.Elab
