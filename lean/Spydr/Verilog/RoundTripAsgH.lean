/-
  Verilog engine — proof side, part 58 (assign statements): the pieces of `assign l = r;` (`asgP`), of a module with
  assigns (`modPA`: characters = `renderModA`, tokens = `tokensOfA`) and of the whole hierarchical file (`filePHA`).
-/
import Spydr.Verilog.RoundTripAsgG
set_option maxHeartbeats 1600000
namespace Spydr.Verilog.Elab
open Spydr.Verilog
open Spydr.Verilog.Text (fixName showInt)

/-! ### the pieces of a module with assigns -/

def asgP (lr : Atom × Atom) : List Piece :=
  T "assign" ++ W1 ++ atomP lr.1 ++ W1 ++ T "=" ++ W1 ++ atomP lr.2 ++ T ";" ++ NL

theorem chars_asgP (lr : Atom × Atom) : pchars (asgP lr) = (asgLine lr).toList := by
  simp only [asgP, asgLine, pchars_append, chars_T, chars_W1, chars_NL, chars_atomP, String.toList_append]
  have h1 : "assign ".toList = "assign".toList ++ " ".toList := by decide
  have h2 : " = ".toList = " ".toList ++ "=".toList ++ " ".toList := by decide
  have h3 : ";\n".toList = ";".toList ++ "\n".toList := by decide
  rw [h1, h2, h3]
  simp [List.append_assoc]

theorem toks_asgP (lr : Atom × Atom) : ptoks (asgP lr) = (SItem.asg (toX lr.1) (toX lr.2)).toks := by
  simp only [asgP, SItem.toks, SItem.attrs, SItem.core, starToks, ptoks_append, toks_T, toks_W1, toks_NL, toks_atomP,
    List.isEmpty_nil, if_true]
  simp

/-! module parameters -/

def keyP (k : String) : List Piece :=
  match splitKey k with
  | some (l, r, nm) => T "[" ++ T (showInt l) ++ T ":" ++ T (showInt r) ++ T "]" ++ W1 ++ T nm
  | none => T k

theorem chars_keyP (k : String) : pchars (keyP k) = k.toList := by
  unfold keyP
  cases hs : splitKey k with
  | none => simp [chars_T]
  | some x =>
    obtain ⟨l, r, nm⟩ := x
    have hk := splitKey_sound k l r nm hs
    simp only [pchars_append, chars_T, chars_W1]
    rw [hk]
    unfold keyRanged
    simp [toString, showInt, String.toList_append, List.append_assoc]

theorem toks_keyP (k : String) : ptoks (keyP k) = mpKeyToks k := by
  unfold keyP mpKeyToks
  cases hs : splitKey k with
  | none => simp [toks_T]
  | some x =>
    obtain ⟨l, r, nm⟩ := x
    simp [ptoks_append, toks_T, toks_W1]

def mparamP1 (kv : String × String) : List Piece :=
  NL ++ W4 ++ T "parameter" ++ W1 ++ keyP kv.1 ++ W1 ++ T "=" ++ W1 ++ valP kv.2

def mparamP (ps : Params) : List Piece :=
  if ps.isEmpty then [] else T "#" ++ T "(" ++ List.intercalate (T ",") (ps.map mparamP1) ++ NL ++ T ")"

theorem chars_mparamP (ps : Params) : pchars (mparamP ps) = (mparamsText ps).toList := by
  unfold mparamP mparamsText
  cases ps with
  | nil => rfl
  | cons kv rest =>
    simp only [List.isEmpty_cons, Bool.false_eq_true, if_false, pchars_append, chars_T, chars_NL, pchars_intercalate,
      String.toList_append, String.toList_intercalate, List.map_map]
    have h1 : "#(".toList = "#".toList ++ "(".toList := by decide
    have h2 : "\n)".toList = "\n".toList ++ ")".toList := by decide
    rw [h1, h2]
    have hm : (kv :: rest).map (pchars ∘ mparamP1) = (kv :: rest).map (String.toList ∘ mparamLine) := by
      apply List.map_congr_left
      intro x _
      simp only [Function.comp, mparamP1, mparamLine, pchars_append, chars_NL, chars_W4, chars_W1, chars_T, chars_valP,
        chars_keyP, String.toList_append]
      have e1 : "\n    parameter ".toList = "\n".toList ++ "    ".toList ++ "parameter".toList ++ " ".toList := by decide
      have e2 : " = ".toList = " ".toList ++ "=".toList ++ " ".toList := by decide
      rw [e1, e2]
      simp [List.append_assoc]
    rw [hm]
    simp [List.append_assoc]

theorem mpToks_eq : ∀ (a : Params), a ≠ [] →
    "parameter" :: mpToks a = List.intercalate [","] (a.map (fun kv => "parameter" :: (mpKeyToks kv.1 ++ ["=", kv.2])))
  | [], h => absurd rfl h
  | [a], _ => by simp [mpToks, List.intercalate]
  | a :: b :: t, _ => by
    have ih := mpToks_eq (b :: t) (by simp)
    simp only [mpToks, List.intercalate, List.intersperse, List.map_cons, List.flatten_cons] at ih ⊢
    rw [← ih]; simp

theorem toks_mparamP (ps : Params) : ptoks (mparamP ps) = mparamToks ps := by
  unfold mparamP mparamToks
  cases ps with
  | nil => rfl
  | cons kv rest =>
    simp only [List.isEmpty_cons, Bool.false_eq_true, if_false, ptoks_append, toks_T, toks_NL, ptoks_intercalate,
      List.append_nil, List.map_map]
    have hm : (kv :: rest).map (ptoks ∘ mparamP1) = (kv :: rest).map (fun kv => "parameter" :: (mpKeyToks kv.1 ++ ["=", kv.2])) := by
      apply List.map_congr_left
      intro x _
      simp [mparamP1, ptoks_append, toks_NL, toks_W4, toks_W1, toks_T, toks_valP, toks_keyP]
    rw [hm, ← mpToks_eq (kv :: rest) (by simp)]
    simp

def modPA (m : WModPA) : List Piece :=
  starP m.base.attrs ++
    (T "module" ++ W1 ++ N (fixName m.base.name) ++ NL ++ mparamP m.params ++ T "(" ++
      List.intercalate (T ",") (m.base.ports.map (fun p => NL ++ W4 ++ N (fixName p.name))) ++ NL ++ T ")" ++ T ";" ++ NL ++ NL) ++
    ((m.base.ports.map portP).flatten ++ NL) ++
    (((m.base.wires.map wireP).flatten ++ NL) ++ (m.asgs.map asgP).flatten ++ (m.base.insts.map instP).flatten) ++
    T "endmodule" ++ NL ++ NL

theorem chars_modPA (m : WModPA) : pchars (modPA m) = (renderModA m).toList := by
  simp only [modPA, renderModA, pchars_append, chars_starP, chars_T, chars_N, chars_W1, chars_NL, pchars_intercalate, pchars_flatten,
    String.toList_append, String.toList_intercalate, toList_join, List.map_map, chars_mparamP]
  have h1 : "module ".toList = "module".toList ++ " ".toList := by decide
  have h2 : "\n);\n".toList = "\n".toList ++ ")".toList ++ ";".toList ++ "\n".toList := by decide
  have h3 : "\n\n".toList = "\n".toList ++ "\n".toList := by decide
  have h4 : "".toList = [] := rfl
  rw [h1, h2, h3, h4]
  have hm1 : m.base.ports.map (pchars ∘ fun p => NL ++ W4 ++ N (fixName p.name)) =
      m.base.ports.map (String.toList ∘ (fun s => "\n" ++ s) ∘ fun p => "    " ++ fixName p.name) := by
    apply List.map_congr_left
    intro p _
    simp only [Function.comp, pchars_append, chars_NL, chars_W4, chars_T, chars_N, String.toList_append, List.append_assoc]
  have hm2 : m.base.ports.map (pchars ∘ portP) = m.base.ports.map (String.toList ∘ portLine) := by
    apply List.map_congr_left; intro p _; exact chars_portP p
  have hm3 : m.base.wires.map (pchars ∘ wireP) = m.base.wires.map (String.toList ∘ wireLine) := by
    apply List.map_congr_left; intro p _; exact chars_wireP p
  have hm4 : m.base.insts.map (pchars ∘ instP) = m.base.insts.map (String.toList ∘ instLine) := by
    apply List.map_congr_left; intro p _; exact chars_instP p
  have hm5 : m.asgs.map (pchars ∘ asgP) = m.asgs.map (String.toList ∘ asgLine) := by
    apply List.map_congr_left; intro p _; exact chars_asgP p
  rw [hm1, hm2, hm3, hm4, hm5]
  simp [List.append_assoc, List.flatMap, Function.comp_def]

theorem toks_modPA (m : WModPA) (hd : ∀ p ∈ m.base.ports, p.dir ≠ .undef) : ptoks (modPA m) = tokensOfA m.toA := by
  simp only [modPA, tokensOfA, modToksP, WModPA.toA, WModP.toI, WModA.sitems, ptoks_append, toks_starP, toks_T, toks_N, toks_W1,
    toks_NL, ptoks_intercalate, ptoks_flatten, List.append_nil, List.map_map, sepNames_eq, List.flatMap_append, List.nil_append,
    toks_mparamP]
  have hm1 : m.base.ports.map (ptoks ∘ fun p => NL ++ W4 ++ N (fixName p.name)) =
      m.base.ports.map ((fun x => [nameT x]) ∘ fun p => p.name) := by
    apply List.map_congr_left
    intro p _
    simp [ptoks_append, toks_NL, toks_W4, toks_T, toks_N, nameT]
  have hm2 : (m.base.ports.map (ptoks ∘ portP)).flatten = (m.base.ports.map SItem.port).flatMap SItem.toks := by
    rw [List.flatMap_def, List.map_map]
    congr 1
    apply List.map_congr_left
    intro p hp
    exact toks_portP p (hd p hp)
  have hm3 : (m.base.wires.map (ptoks ∘ wireP)).flatten = (m.base.wires.map SItem.wire).flatMap SItem.toks := by
    rw [List.flatMap_def, List.map_map]
    congr 1
    apply List.map_congr_left
    intro p _
    exact toks_wireP p
  have hm4 : (m.base.insts.map (ptoks ∘ instP)).flatten = ((m.base.insts.map PInst.toN).map SItem.inst).flatMap SItem.toks := by
    rw [List.flatMap_def, List.map_map, List.map_map]
    congr 1
    apply List.map_congr_left
    intro p _
    exact toks_instP p
  have hm5 : (m.asgs.map (ptoks ∘ asgP)).flatten =
      ((m.asgs.map (fun lr => (toX lr.1, toX lr.2))).map (fun a => SItem.asg a.1 a.2)).flatMap SItem.toks := by
    rw [List.flatMap_def, List.map_map, List.map_map]
    congr 1
    apply List.map_congr_left
    intro p _
    exact toks_asgP p
  rw [hm1, hm2, hm3, hm4, hm5]
  simp [List.append_assoc, nameT]

/-! ### the pieces of a primitive with attributes and parameters -/

def leafPX (lf : WLeafX) : List Piece :=
  cellP ++ starP lf.attrs ++
    (T "module" ++ W1 ++ N (fixName lf.base.name) ++ NL ++ mparamP lf.params ++ T "(" ++
      List.intercalate (T ",") (lf.base.ports.map (fun p => NL ++ W4 ++ N (fixName p.name))) ++ NL ++ T ")" ++ T ";" ++ NL ++ NL) ++
    ((lf.base.ports.map portPU).flatten ++ NL) ++
    T "endmodule" ++ NL ++ endcellP ++ NL

theorem chars_leafPX (lf : WLeafX) : pchars (leafPX lf) = (renderLeafX lf).toList := by
  simp only [leafPX, renderLeafX, cellP, endcellP, pchars_append, pchars_cons, pchars_nil, Piece.chars, chars_T, chars_N, chars_W1, chars_NL,
    pchars_intercalate, pchars_flatten, String.toList_append, String.toList_intercalate, toList_join, List.map_map, chars_starP,
    chars_mparamP]
  have h1 : "module ".toList = "module".toList ++ " ".toList := by decide
  have h2 : "\n);\n".toList = "\n".toList ++ ")".toList ++ ";".toList ++ "\n".toList := by decide
  have h3 : "\n\n".toList = "\n".toList ++ "\n".toList := by decide
  have h4 : "".toList = [] := rfl
  have h5 : "\n`endcelldefine".toList = "\n".toList ++ "`endcelldefine".toList := by decide
  have h6 : "`endcelldefine\n".toList = "`endcelldefine".toList ++ "\n".toList := by decide
  rw [h1, h2, h3, h4, h5, h6]
  have hm1 : lf.base.ports.map (pchars ∘ fun p => NL ++ W4 ++ N (fixName p.name)) =
      lf.base.ports.map (String.toList ∘ (fun s => "\n" ++ s) ∘ fun p => "    " ++ fixName p.name) := by
    apply List.map_congr_left
    intro p _
    simp only [Function.comp, pchars_append, chars_NL, chars_W4, chars_T, chars_N, String.toList_append, List.append_assoc]
  have hm2 : lf.base.ports.map (pchars ∘ portPU) = lf.base.ports.map (String.toList ∘ portLine) := by
    apply List.map_congr_left; intro p _; exact chars_portPU p
  rw [hm1, hm2]
  simp [List.append_assoc, List.flatMap, Function.comp_def]

/-- the tokens the lexer returns for a written primitive (block comments included) -/
def leafToksXU (lf : WLeafX) : List String :=
  "`celldefine" :: ((starToks lf.attrs ++ "module" :: nameT lf.base.name :: (mparamToks lf.params ++ "(" ::
    (sepNames (lf.base.ports.map (·.name)) ++ ")" :: ";" :: (lf.base.ports.flatMap portCoreU ++ ["endmodule"])))) ++
      ["`endcelldefine"])

theorem toks_leafPX (lf : WLeafX) (hd : ∀ p ∈ lf.base.ports, p.attrs = []) : ptoks (leafPX lf) = leafToksXU lf := by
  simp only [leafPX, leafToksXU, cellP, endcellP, ptoks_append, ptoks_cons, ptoks_nil, Piece.toks, toks_T, toks_N, toks_W1, toks_NL,
    ptoks_intercalate, ptoks_flatten, List.append_nil, List.map_map, sepNames_eq, List.nil_append, toks_starP, toks_mparamP]
  have hm1 : lf.base.ports.map (ptoks ∘ fun p => NL ++ W4 ++ N (fixName p.name)) =
      lf.base.ports.map ((fun x => [nameT x]) ∘ fun p => p.name) := by
    apply List.map_congr_left
    intro p _
    simp [ptoks_append, toks_NL, toks_W4, toks_T, toks_N, nameT]
  have hm2 : (lf.base.ports.map (ptoks ∘ portPU)).flatten = lf.base.ports.flatMap portCoreU := by
    rw [List.flatMap_def]
    congr 1
    apply List.map_congr_left
    intro p hp
    simp only [Function.comp]
    exact toks_portPU p (hd p hp)
  rw [hm1, hm2]
  simp [List.append_assoc, nameT]

theorem portCoreU_filter : ∀ (ports : List PDecl), (ports.flatMap portCoreU).filter notC =
    ((ports.map (fun p => ({ p with dir := inoutD p.dir } : PDecl))).flatMap (fun p => portCore p.dir p.rng p.name)).filter notC := by
  intro ports
  rw [List.flatMap_map]
  induction ports with
  | nil => rfl
  | cons p ps ih =>
    simp only [List.flatMap_cons, List.filter_append, ih]
    congr 1
    unfold portCoreU portCore
    cases hd : p.dir <;> simp [dirToksU, inoutD, dirTok, notC, cmtU_comment, List.filter_cons]

/-- the comments removed, the tokens of a written primitive are the tokens of the module the parser returns -/
theorem leafToksXU_filter (lf : WLeafX) (h : leafOKX (inoutifyX lf) = true) :
    (leafToksXU lf).filter notC = leafToksX (inoutifyX lf) := by
  have hk := leafToksX_keep (inoutifyX lf) h
  have hall : ∀ t ∈ leafToksX (inoutifyX lf), notC t = true := by
    intro t ht
    have := List.all_eq_true.mp hk t ht
    simp only [keepTok, Bool.and_eq_true] at this
    exact this.1
  have hid : (leafToksX (inoutifyX lf)).filter notC = leafToksX (inoutifyX lf) := List.filter_eq_self.mpr hall
  rw [← hid]
  unfold leafToksXU leafToksX leafCoreX inoutifyX inoutify
  simp only [List.filter_cons, List.filter_append, List.map_map, Function.comp_def, portCoreU_filter]

/-! ### the pieces of the whole file -/

def anyPiecesA : WAnyPA → List Piece
  | .work m => modPA m
  | .leaf lf => leafPX lf

def filePA (n : Text.WNet) (m : WModPA) : List Piece :=
  [.self "//Generated from netlist by SpyDrNet\n" "//Generated from netlist by SpyDrNet",
   .self ("//netlist name: " ++ fixName n.name ++ "\n") ("//netlist name: " ++ fixName n.name)] ++ modPA m

theorem chars_filePA (n : Text.WNet) (m : WModPA) : pchars (filePA n m) = (fileHeader n ++ renderModA m).toList := by
  rw [fileHeader_split]
  unfold filePA
  rw [pchars_append, chars_modPA]
  simp only [pchars_cons, pchars_nil, Piece.chars, String.toList_append, List.append_nil, List.append_assoc]

def filePHA (n : Text.WNet) (m : WModPA) (Ps : List WAnyPA) : List Piece := filePA n m ++ (Ps.map anyPiecesA).flatten

theorem chars_filePHA (n : Text.WNet) (m : WModPA) (Ps : List WAnyPA) :
    pchars (filePHA n m Ps) = (fileHeader n ++ (renderModA m ++ String.join (Ps.map renderAnyA))).toList := by
  unfold filePHA
  rw [pchars_append, chars_filePA, pchars_flatten, List.map_map]
  have : Ps.map (pchars ∘ anyPiecesA) = Ps.map (String.toList ∘ renderAnyA) := by
    apply List.map_congr_left
    intro P _
    cases P with
    | work m' => exact chars_modPA m'
    | leaf lf => exact chars_leafPX lf
  rw [this]
  simp [String.toList_append, toList_join, List.flatMap, Function.comp_def, List.append_assoc]

def anyDirOKA : WAnyPA → Prop
  | .work m => ∀ p ∈ m.base.ports, p.dir ≠ .undef
  | .leaf lf => ∀ p ∈ lf.base.ports, p.attrs = []

theorem filter_clean (ts : List String) (h : cleanToks ts = true) : ts.filter notC = ts := by
  apply List.filter_eq_self.mpr
  intro t ht
  simp only [cleanToks, List.all_eq_true, Bool.and_eq_true] at h
  exact (h t ht).1

/-- the tokens the lexer returns for the whole file, comments removed (the two header lines and the
    `/* undefined port direction */` comments of the leaves), are the tokens of the syntax trees -/
theorem toks_filePHA (n : Text.WNet) (m : WModPA) (Ps : List WAnyPA) (hd : ∀ p ∈ m.base.ports, p.dir ≠ .undef)
    (hl : ∀ P ∈ Ps, anyDirOKA P) (hc2 : Text.isCommentTok ("//netlist name: " ++ fixName n.name) = true)
    (hm : tokOKA m.toA = true) (hok : ∀ P ∈ Ps, anyOKA P.toAny = true) :
    ((filePHA n m Ps).flatMap Piece.toks).filter notC = fileToksA m.toA (Ps.map WAnyPA.toAny) := by
  have h1 := toks_modPA m hd
  have hc1 : Text.isCommentTok "//Generated from netlist by SpyDrNet" = true := by decide +kernel
  have h2 : (ptoks ((Ps.map anyPiecesA).flatten)).filter notC = (Ps.map WAnyPA.toAny).flatMap anyToksA := by
    rw [ptoks_flatten, List.map_map, List.flatMap_def, List.map_map]
    induction Ps with
    | nil => rfl
    | cons P Ps ih =>
      simp only [List.map_cons, List.flatten_cons, List.filter_append]
      rw [ih (fun x hx => hl x (List.mem_cons_of_mem _ hx)) (fun x hx => hok x (List.mem_cons_of_mem _ hx))]
      congr 1
      have hPo := hok P List.mem_cons_self
      have hPd := hl P List.mem_cons_self
      cases P with
      | work m' =>
        simp only [Function.comp, anyPiecesA, WAnyPA.toAny, anyToksA]
        rw [toks_modPA m' hPd]
        simp only [WAnyPA.toAny, anyOKA, tokOKA, Bool.and_eq_true] at hPo
        exact filter_clean _ hPo.2
      | leaf lf =>
        simp only [Function.comp, anyPiecesA, WAnyPA.toAny, anyToksA]
        rw [toks_leafPX lf hPd]
        exact leafToksXU_filter lf hPo
  have h3 : (filePHA n m Ps).flatMap Piece.toks = ptoks (filePA n m) ++ ptoks ((Ps.map anyPiecesA).flatten) :=
    ptoks_append _ _
  have h4 : ptoks (filePA n m) =
      ["//Generated from netlist by SpyDrNet", "//netlist name: " ++ fixName n.name] ++ tokensOfA m.toA := by
    unfold filePA
    rw [ptoks_append, h1]
    rfl
  rw [h3, h4, List.filter_append, List.filter_append, h2]
  have hclean : (tokensOfA m.toA).filter notC = tokensOfA m.toA := by
    simp only [tokOKA, Bool.and_eq_true] at hm
    exact filter_clean _ hm.2
  rw [hclean]
  unfold fileToksA
  simp [List.filter_cons, notC, hc1, hc2]

/-- the REAL `parseV` on a token list with comments anywhere: they are dropped by the preprocessor -/
theorem parseV_dropC (L : List String) (m : WModA) (Ms : List WAnyA) (hf : L.filter notC = fileToksA m Ms)
    (h : tokOKA m = true) (hl : ∀ M ∈ Ms, anyOKA M = true) :
    Parse.parseV L = .ok (m.toModule :: Ms.map WAnyA.toModule) := by
  have hkeep : (fileToksA m Ms).all keepTok = true := by
    have hft : fileToksA m Ms = (WAnyA.work m :: Ms).flatMap anyToksA := by simp [fileToksA, anyToksA]
    rw [hft, List.all_flatMap, List.all_eq_true]
    intro M hM
    rcases List.mem_cons.mp hM with e | e
    · rw [e]; exact anyToksA_keep _ h
    · exact anyToksA_keep M (hl M e)
  have hp := parse_hierA [] m Ms (by intro c hc; cases hc) h hl
  unfold Parse.parseV at hp ⊢
  rw [List.nil_append, preprocess_keep _ _ (Nat.le_refl _) hkeep] at hp
  rw [preprocess_filter L _ (Nat.le_refl _) (by rw [hf]; exact hkeep), hf]
  exact hp
end Spydr.Verilog.Elab
