/-
  Verilog engine — proof side, part 59 (assign statements): the end-to-end theorem `c04_text_hierA` — write-then-read of a
  hierarchical netlist WITH ASSIGNMENT INSTANCES from characters — with its structural fragment `fragStructHA`;
  non-vacuity `exNetHA_struct`, `exNetHA_roundtrip`.
-/
import Spydr.Verilog.RoundTripAsgH
set_option maxHeartbeats 1600000
namespace Spydr.Verilog.Elab
open Spydr.Verilog
open Spydr.Verilog.Parse
open Spydr.Verilog.Text (fixName)

/-! ### the end-to-end theorem for hierarchical netlists with assigns -/

/-- the fragment of the hierarchical end-to-end theorem with assigns (decidable, structural) -/
def fragStructHA (n : Text.WNet) (T : Text.WDef) (kT : Nat) (ks : List Nat) : Bool :=
  match astOfA n T, (laterA n ks).mapM (astAnyPA n) with
  | some m, some Ps =>
    (composeOrder n == kT :: ks) && fragHierA n T (laterA n ks) && topTextBA n T &&
    (laterA n ks).all (anyTextBA n) && tokOKA m.toA && (Ps.map WAnyPA.toAny).all anyOKA &&
    (filePHA n m Ps).all Piece.ok && adjOK (filePHA n m Ps) &&
    Text.isCommentTok ("//netlist name: " ++ fixName n.name)
  | _, _ => false

theorem ports_dir_of_tokOKA (m : WModPA) (h : tokOKA m.toA = true) : ∀ p ∈ m.base.ports, p.dir ≠ .undef := by
  intro p hp
  simp only [tokOKA, modOKP, modOK, Bool.and_eq_true, List.all_eq_true] at h
  have := h.1.1.2 (SItem.port p) (by
    simp only [WModPA.toA, WModP.toI, WModA.sitems, List.mem_append, List.mem_map]
    exact Or.inl (Or.inl (Or.inl ⟨p, hp, rfl⟩)))
  simp only [SItem.ok, portOK, Bool.and_eq_true, bne_iff_ne, ne_eq] at this
  exact this.1.1.1

theorem anyDirOKA_of (P : WAnyPA) (h : anyOKA P.toAny = true) : anyDirOKA P := by
  cases P with
  | work m => exact ports_dir_of_tokOKA m h
  | leaf lf =>
    intro p hp
    simp only [WAnyPA.toAny, anyOKA, leafOKX, inoutifyX, leafOK, inoutify, Bool.and_eq_true, List.all_eq_true, List.mem_map,
      forall_exists_index, and_imp, forall_apply_eq_imp_iff₂] at h
    have hp' := h.1.1.1.1.2 p hp
    exact List.isEmpty_iff.mp hp'.2

/-- **c04_text_hierA.**  Write-then-read of a HIERARCHICAL netlist WITH ASSIGNMENT INSTANCES from characters
    (`write_blackbox = True`): the text the writer produces — top module, then every other definition in the order
    `_compose` visits them, nothing for the assignment definitions — is accepted by the whole reader (`lexV`, `parseV`,
    `elabDesign`), the netlist's top is elected, and EVERY module shows the view `viewTA` of its definition (`viewT` with
    the assignment instances first) and its module parameters as written: the top and every other work module; every
    primitive its interface, attributes and parameters.  Admitted: assignment instances, `#(parameter k = v)` headers
    (plain and `[l:r] name` keys), primitives with attributes / parameters, inferred black boxes whose ports have no
    direction (written `/* undefined port direction */ inout`, re-read INOUT: `ifaceT` reads "undefined" as `inout`).
    Outside: header alias ports, `M u ();`, `#()`, a second instance of a not-yet-declared module with another row shape,
    assignment instances whose names are not the reader's.  How to read the conclusion: see `c04_view_hierA`. -/
theorem c04_text_hierA (n : Text.WNet) (T : Text.WDef) (kT : Nat) (ks : List Nat) (hT : n.defs.getD kT default = T)
    (h : fragStructHA n T kT ks = true) :
    ∃ text fin s, Text.composeV n optsBB = .ok (text, fin) ∧ Parse.readV text = .ok s ∧ s.top = some T.name ∧
      (∃ D ∈ s.defs, D.name = T.name ∧ viewD D = viewTA n T ∧ D.lib = some "work" ∧ D.params = paramsOf T) ∧
      (∀ r ∈ laterA n ks, isPrim r = false →
        ∃ D ∈ s.defs, D.name = r.name ∧ viewD D = viewTA n r ∧ D.lib = some "work" ∧ D.params = paramsOf r) ∧
      (∀ r ∈ laterA n ks, isPrim r = true → ∃ L ∈ s.defs, L.name = r.name ∧ L.lib = some "hdi_primitives" ∧
        ifaceD L = ifaceT r ∧ L.attrs.getD [] = r.attrs.getD [] ∧ L.params = paramsOf r) := by
  unfold fragStructHA at h
  cases hm : astOfA n T with
  | none => simp [hm] at h
  | some m =>
    cases hl : (laterA n ks).mapM (astAnyPA n) with
    | none => simp [hm, hl] at h
    | some Ps =>
      simp only [hm, hl, Bool.and_eq_true, beq_iff_eq, List.all_eq_true] at h
      obtain ⟨⟨⟨⟨⟨⟨⟨⟨h1, h2⟩, h3⟩, h4⟩, h5⟩, h6⟩, h8⟩, h9⟩, h10⟩ := h
      obtain ⟨m', Ms, s, a1, a2, a3, a4, _, a6, a7, a8⟩ := c04_ast_hierA n T _ h2
      rw [hm] at a1
      have e1 : m' = m := (Option.some.inj a1).symm
      subst e1
      rw [mapM_astAnyA n _ Ps hl] at a2
      have e2 : Ms = Ps.map WAnyPA.toAny := (Option.some.inj a2).symm
      subst e2
      have hfrag : fragTop n T = true := by
        simp only [fragHierA, fragTopA, Bool.and_eq_true] at h2; exact h2.1.1.1.1.1
      obtain ⟨fin, hcv⟩ := composeV_text_hierA n T kT ks m' Ps hT h1 hfrag (topTextBA_sound n T h3) hm hl h4
      have hdtop := ports_dir_of_tokOKA m' h5
      have hdl : ∀ P ∈ Ps, anyDirOKA P := fun P hP => anyDirOKA_of P (h6 _ (List.mem_map.mpr ⟨P, hP, rfl⟩))
      have hlex := lexV_pieces _ (filePHA n m' Ps) (chars_filePHA n m' Ps).symm h9 h8
      have hfil := toks_filePHA n m' Ps hdtop hdl h10 h5 (fun P hP => h6 _ (List.mem_map.mpr ⟨P, hP, rfl⟩))
      refine ⟨_, fin, s, hcv, ?_, a4, a6, a7, a8⟩
      rw [readV_eq, hlex]
      unfold readT
      rw [parseV_dropC _ m'.toA (Ps.map WAnyPA.toAny) hfil h5 h6]
      exact a3
/-! ### non-vacuity -/

def exHMA : WModPA :=
  ⟨⟨"top", [],
   [⟨"a", .inp, some (1, 0), []⟩, ⟨"y", .out, none, []⟩],
   [⟨"z", "wire", none, []⟩, ⟨"v", "wire", some (1, 0), []⟩, ⟨"w", "wire", none, []⟩, ⟨"y", "wire", none, []⟩,
    ⟨"a", "wire", some (1, 0), []⟩],
   [⟨"u0", "sub", [], [], [("p", .atom (.part "a" 1 0)), ("q", .atom (.id "w"))]⟩,
    ⟨"u1", "LUT1", [], [], [("I0", .atom (.id "w")), ("O", .atom (.id "y"))]⟩,
    ⟨"u2", "BBX", [], [], [("P", .atom (.id "z"))]⟩]⟩,
   [(.part "v" 1 0, .part "a" 1 0), (.id "z", .id "w")], [("WIDTH", "2")]⟩

def exHSubA : WModPA :=
  ⟨⟨"sub", [("keep", none)],
   [⟨"p", .inp, some (1, 0), []⟩, ⟨"q", .out, none, [("mark", none)]⟩],
   [⟨"r", "wire", none, []⟩, ⟨"q", "wire", none, []⟩, ⟨"p", "wire", some (1, 0), []⟩],
   [⟨"g0", "LUT1", [], [], [("I0", .atom (.bit "p" 0)), ("O", .atom (.id "r"))]⟩]⟩,
   [(.id "q", .id "r")], [("[3:0] DEPTH", "4'h3"), ("MODE", "\"fast\"")]⟩

theorem mkeyOK_plain (k : String) (h1 : splitKey k = none) (h2 : plainK k = true) (h3 : (k != "integer") = true) :
    mkeyOK k = true := by
  unfold mkeyOK; rw [h1]; simp only [plainK_sound k h2, h3, Bool.and_self]

theorem mkeyOK_ranged (k : String) (l r : Int) (nm : String) (h1 : splitKey k = some (l, r, nm)) (hl : intK l = true)
    (hr : intK r = true) (hn : plainK nm = true) : mkeyOK k = true := by
  unfold mkeyOK; rw [h1]; simp only [intK_sound l hl, intK_sound r hr, plainK_sound nm hn, Bool.and_self]

def exLUT1 : WLeafX := ⟨⟨"LUT1", [⟨"I0", .inp, none, []⟩, ⟨"O", .out, none, []⟩]⟩, [("cell", none)], [("INIT", "2'h1")]⟩
def exBBX : WLeafX := ⟨⟨"BBX", [⟨"P", .undef, none, []⟩]⟩, [], []⟩

def exHPsA : List WAnyPA := [.work exHSubA, .leaf exLUT1, .leaf exBBX]

theorem leafOKX_of (lf : WLeafX) (h1 : leafOK lf.base = true) (h2 : attrsOK lf.attrs = true) (h3 : mparamsOK lf.params = true)
    (h4 : cleanToks (leafCoreX lf) = true) : leafOKX lf = true := by unfold leafOKX; rw [h1, h2, h3, h4]; rfl

theorem exLUT1_ok : leafOKX (inoutifyX exLUT1) = true := by
  have e : inoutifyX exLUT1 = exLUT1 := rfl
  rw [e]
  apply leafOKX_of exLUT1 (by show leafOK ⟨"LUT1", [⟨"I0", .inp, none, []⟩, ⟨"O", .out, none, []⟩]⟩ = true; exact exHLeaf_ok)
  · have P : ∀ t, plainK t = true → nameTokB t t = true := plainK_sound
    simp only [exLUT1, attrsOK, attrOK, List.all_cons, List.all_nil, Bool.and_true, Bool.and_eq_true, decide_eq_true_eq]
    repeat' constructor
    all_goals first
      | exact P _ (by decide +kernel)
      | decide
      | simp
  · simp only [mparamsOK, exLUT1, List.all_cons, List.all_nil, Bool.and_true, Bool.and_eq_true, decide_eq_true_eq]
    exact ⟨mkeyOK_plain "INIT" (by decide +kernel) (by decide +kernel) (by decide), by decide⟩
  · decide +kernel

theorem exHLeafU_ok : leafOK ⟨"BBX", [⟨"P", .inout, none, []⟩]⟩ = true := by
  have N : ∀ nm, nameK nm = true → nameTokB (nameT nm) nm = true := nameK_sound
  have c1 : cleanToks (leafCore ⟨"BBX", [⟨"P", .inout, none, []⟩]⟩) = true := by decide +kernel
  simp only [leafOK, List.all_cons, List.all_nil, portOK, rangeOK, Bool.and_eq_true, Bool.and_true, List.isEmpty_nil, c1]
  repeat' constructor
  all_goals first
    | exact N _ (by decide +kernel)
    | decide
    | simp

theorem exBBX_ok : leafOKX (inoutifyX exBBX) = true := by
  have e : inoutifyX exBBX = ⟨⟨"BBX", [⟨"P", .inout, none, []⟩]⟩, [], []⟩ := rfl
  rw [e]
  exact leafOKX_of ⟨⟨"BBX", [⟨"P", .inout, none, []⟩]⟩, [], []⟩ exHLeafU_ok (by decide) (by decide) (by decide +kernel)

theorem exNetHA_ast : astOfA exNetHA exTopHA = some exHMA := by rfl
theorem exNetHA_Ps : (laterA exNetHA [1, 2, 3, 4, 5]).mapM (astAnyPA exNetHA) = some exHPsA := by rfl

theorem modOKA_of (m : WModA) (h : modOK m.base.attrs m.base.name (m.base.ports.map (·.name)) m.sitems = true)
    (hp : mparamsOK m.params = true) (hc : cleanToks (tokensOfA m) = true) : tokOKA m = true := by
  unfold tokOKA modOKP; rw [h, hp, hc]; rfl

theorem exHMA_tokOK : tokOKA exHMA.toA = true := by
  apply modOKA_of _ _ (by
    simp only [mparamsOK, exHMA, WModPA.toA, List.all_cons, List.all_nil, Bool.and_true, Bool.and_eq_true, decide_eq_true_eq]
    exact ⟨mkeyOK_plain "WIDTH" (by decide +kernel) (by decide +kernel) (by decide), by decide⟩) (by decide +kernel)
  have N : ∀ nm, nameK nm = true → nameTokB (nameT nm) nm = true := nameK_sound
  have P : ∀ t, plainK t = true → nameTokB t t = true := plainK_sound
  have I : ∀ i, intK i = true → intTokB i = true := intK_sound
  simp only [modOK, exHMA, WModPA.toA, WModP.toI, WModA.sitems, PInst.toN, toXE, toX, List.map_cons, List.map_nil, List.all_cons,
    List.all_nil, List.cons_append, List.nil_append, SItem.ok, portOK, rangeOK, attrsOK, attrOK, instOK, paramsOK, connOK, exprOK,
    atomOK, Bool.and_eq_true, Bool.and_true, List.isEmpty_cons, Bool.not_false, decide_eq_true_eq]
  repeat' constructor
  all_goals first
    | exact N _ (by decide +kernel)
    | exact P _ (by decide +kernel)
    | exact I _ (by decide +kernel)
    | decide
    | simp

theorem exHSubA_tokOK : tokOKA exHSubA.toA = true := by
  apply modOKA_of _ _ (by
    simp only [mparamsOK, exHSubA, WModPA.toA, List.all_cons, List.all_nil, Bool.and_true, Bool.and_eq_true, decide_eq_true_eq]
    exact ⟨⟨mkeyOK_ranged "[3:0] DEPTH" 3 0 "DEPTH" (by decide +kernel) (by decide +kernel) (by decide +kernel) (by decide +kernel),
      mkeyOK_plain "MODE" (by decide +kernel) (by decide +kernel) (by decide)⟩, by decide⟩)
    (by decide +kernel)
  have N : ∀ nm, nameK nm = true → nameTokB (nameT nm) nm = true := nameK_sound
  have P : ∀ t, plainK t = true → nameTokB t t = true := plainK_sound
  have I : ∀ i, intK i = true → intTokB i = true := intK_sound
  simp only [modOK, exHSubA, WModPA.toA, WModP.toI, WModA.sitems, PInst.toN, toXE, toX, List.map_cons, List.map_nil, List.all_cons,
    List.all_nil, List.cons_append, List.nil_append, SItem.ok, portOK, rangeOK, attrsOK, attrOK, instOK, paramsOK, connOK, exprOK,
    atomOK, Bool.and_eq_true, Bool.and_true, List.isEmpty_cons, Bool.not_false, decide_eq_true_eq]
  repeat' constructor
  all_goals first
    | exact N _ (by decide +kernel)
    | exact P _ (by decide +kernel)
    | exact I _ (by decide +kernel)
    | decide
    | simp

/-- non-vacuity of the hierarchical end-to-end theorem with assigns -/
theorem exNetHA_struct : fragStructHA exNetHA exTopHA 0 [1, 2, 3, 4, 5] = true := by
  unfold fragStructHA
  rw [exNetHA_ast, exNetHA_Ps]
  simp only
  have a1 : (composeOrder exNetHA == [0, 1, 2, 3, 4, 5]) = true := by decide
  have a2 : fragHierA exNetHA exTopHA (laterA exNetHA [1, 2, 3, 4, 5]) = true := exNetHA_frag
  have a3 : topTextBA exNetHA exTopHA = true := by decide
  have a4 : (laterA exNetHA [1, 2, 3, 4, 5]).all (anyTextBA exNetHA) = true := by decide
  have a6 : (exHPsA.map WAnyPA.toAny).all anyOKA = true := by
    simp only [exHPsA, List.map_cons, List.map_nil, List.all_cons, List.all_nil, WAnyPA.toAny, anyOKA, exHSubA_tokOK,
      exLUT1_ok, exBBX_ok]
    rfl
  have a8 : (filePHA exNetHA exHMA exHPsA).all Piece.ok = true := by decide +kernel
  have a9 : adjOK (filePHA exNetHA exHMA exHPsA) = true := by decide +kernel
  have a10 : Text.isCommentTok ("//netlist name: " ++ fixName exNetHA.name) = true := by decide +kernel
  rw [a1, a2, a3, a4, exHMA_tokOK, a6, a8, a9, a10]
  rfl

/-- the end-to-end statement on the example with assigns, unconditionally -/
theorem exNetHA_roundtrip :
    ∃ text fin s, Text.composeV exNetHA optsBB = .ok (text, fin) ∧ Parse.readV text = .ok s ∧ s.top = some exTopHA.name ∧
      (∃ D ∈ s.defs, D.name = exTopHA.name ∧ viewD D = viewTA exNetHA exTopHA ∧ D.lib = some "work" ∧
        D.params = paramsOf exTopHA) ∧
      (∀ r ∈ laterA exNetHA [1, 2, 3, 4, 5], isPrim r = false →
        ∃ D ∈ s.defs, D.name = r.name ∧ viewD D = viewTA exNetHA r ∧ D.lib = some "work" ∧ D.params = paramsOf r) ∧
      (∀ r ∈ laterA exNetHA [1, 2, 3, 4, 5], isPrim r = true → ∃ L ∈ s.defs, L.name = r.name ∧ L.lib = some "hdi_primitives" ∧
        ifaceD L = ifaceT r ∧ L.attrs.getD [] = r.attrs.getD [] ∧ L.params = paramsOf r) :=
  c04_text_hierA exNetHA exTopHA 0 [1, 2, 3, 4, 5] rfl exNetHA_struct
end Spydr.Verilog.Elab
