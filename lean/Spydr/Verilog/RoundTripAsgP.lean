/-
  Verilog engine — proof side, part 60 (module parameters): the parameters of a definition are untouched by the
  declaration phases, the assigns and the instances (frame lemmas for the pure builders).
-/
import Spydr.Verilog.RoundTripAsgB
set_option maxHeartbeats 1600000
namespace Spydr.Verilog.Elab
open Spydr.Verilog

/-! ### the module parameters are untouched by the declaration phases, the assigns and the instances -/

theorem hdrStepL_params (d : Def) (n : Nat) (a : String) (d' : Def) (n' : Nat) (h : hdrStepL d n a = some (d', n')) :
    d'.params = d.params := by
  unfold hdrStepL at h
  split at h
  · split at h
    · simp only [Option.some.injEq, Prod.mk.injEq] at h; rw [← h.1]
    · cases h
  · cases h

theorem declStepA_params (d : Def) (n : Nat) (p : PDecl) (d' : Def) (n' k post : Nat)
    (h : declStepA d n p = some (d', n', k, post)) : d'.params = d.params := by
  unfold declStepA at h
  split at h
  · split at h
    · simp only [Option.some.injEq, Prod.mk.injEq] at h; rw [← h.1]
    · cases h
  · cases h

theorem foldDeclA_params : ∀ (ps : List PDecl) (d : Def) (n : Nat) (d' : Def) (n' : Nat) (ops : List (Nat × Nat)),
    foldDeclA d n ps = some (d', n', ops) → d'.params = d.params := by
  intro ps
  induction ps with
  | nil =>
    intro d n d' n' ops h
    simp only [foldDeclA, Option.some.injEq, Prod.mk.injEq] at h
    rw [← h.1]
  | cons p ps ih =>
    intro d n d' n' ops h
    unfold foldDeclA at h
    cases hs : declStepA d n p with
    | none => simp [hs] at h
    | some r =>
      obtain ⟨d1, n1, k, post⟩ := r
      simp only [hs, Option.map_eq_some_iff] at h
      obtain ⟨q, hq, he⟩ := h
      obtain ⟨d2, n2, ops2⟩ := q
      simp only [Prod.mk.injEq] at he
      rw [← he.1]
      exact (ih d1 n1 d2 n2 ops2 hq).trans (declStepA_params d n p d1 n1 k post hs)

theorem wireStep_params (d : Def) (n : Nat) (w : FWire) (d' : Def) (n' : Nat) (h : wireStep d n w = some (d', n')) :
    d'.params = d.params := by
  unfold wireStep at h
  split at h
  · simp only [Option.some.injEq, Prod.mk.injEq] at h; rw [← h.1]
  · split at h
    · simp only [Option.some.injEq, Prod.mk.injEq] at h; rw [← h.1]
    · cases h

theorem stubStep_params (d : Def) (n : Nat) (a : String) (d' : Def) (n' : Nat) (h : stubStep d n a = some (d', n')) :
    d'.params = d.params := by
  unfold stubStep at h
  split at h
  · simp only [Option.some.injEq, Prod.mk.injEq] at h; rw [← h.1]
  · cases h

theorem declStep_params (d : Def) (n : Nat) (p : PDecl) (d' : Def) (n' : Nat) (h : declStep d n p = some (d', n')) :
    d'.params = d.params := by
  unfold declStep at h
  split at h
  · split at h
    · split at h
      · simp only [Option.some.injEq, Prod.mk.injEq] at h; rw [← h.1]
      · cases h
    · cases h
  · cases h

theorem buildW3_params (d0 : Def) (n : Nat) (ports : List PDecl) (wires : List FWire) (d3 : Def) (n3 : Nat)
    (hb : buildW3 d0 n ports wires = some (d3, n3)) : d3.params = d0.params := by
  unfold buildW3 at hb
  cases h1 : foldLocal stubStep d0 n (ports.map (·.name)) with
  | none => simp [h1] at hb
  | some r1 =>
    simp only [h1] at hb
    split at hb
    · cases h2 : foldLocal declStep r1.1 r1.2 ports with
      | none => simp [h2] at hb
      | some r2 =>
        simp only [h2] at hb
        have a := foldLocal_pres (·.params) stubStep stubStep_params _ _ _ r1.1 r1.2 (by rw [h1])
        have b := foldLocal_pres (·.params) declStep declStep_params _ _ _ r2.1 r2.2 (by rw [h2])
        have c := foldLocal_pres (·.params) wireStep wireStep_params _ _ _ d3 n3 hb
        exact c.trans (b.trans a)
    · cases hb

theorem asgStepR_params (d : Def) (ac : Nat) (known : List Def) (a : XAtom × XAtom) (d' : Def) (new : List Def)
    (h : asgStepR d ac known a = some (d', new)) : d'.params = d.params := by
  unfold asgStepR at h
  split at h
  · simp only at h
    split at h
    · split at h
      · split at h
        · simp only [Option.some.injEq, Prod.mk.injEq] at h; rw [← h.1]
        · cases h
      · simp only [Option.some.injEq, Prod.mk.injEq] at h; rw [← h.1]
    · cases h
  · cases h

theorem foldAsg_params : ∀ (as : List (XAtom × XAtom)) (d : Def) (ac : Nat) (known : List Def) (d' : Def) (ac' : Nat)
    (known' : List Def), foldAsg d ac known as = some (d', ac', known') → d'.params = d.params := by
  intro as
  induction as with
  | nil =>
    intro d ac known d' ac' known' h
    simp only [foldAsg, Option.some.injEq, Prod.mk.injEq] at h
    rw [← h.1]
  | cons a as ih =>
    intro d ac known d' ac' known' h
    unfold foldAsg at h
    cases hs : asgStepR d ac known a with
    | none => simp [hs] at h
    | some r =>
      obtain ⟨d1, new1⟩ := r
      simp only [hs] at h
      exact (ih d1 (ac + 1) (known ++ new1) d' ac' known' h).trans (asgStepR_params d ac known a d1 new1 hs)

theorem instStep2_params (d : Def) (ls : List Def) (i : NInst) (d' : Def) (ls' : List Def)
    (h : instStep2 d ls i = some (d', ls')) : d'.params = d.params := by
  unfold instStep2 at h
  split at h
  · cases hf : ls.find? (fun l => l.name == i.mod) with
    | some rd =>
      simp only [hf, Option.map_eq_some_iff] at h
      obtain ⟨_, _, he⟩ := h
      simp only [Prod.mk.injEq] at he
      rw [← he.1]
    | none =>
      simp only [hf, Option.map_eq_some_iff] at h
      obtain ⟨_, _, he⟩ := h
      simp only [Prod.mk.injEq] at he
      rw [← he.1]
  · cases h

theorem foldInst_params : ∀ (is : List NInst) (d : Def) (ls : List Def) (d' : Def) (ls' : List Def),
    foldInst d ls is = some (d', ls') → d'.params = d.params := by
  intro is
  induction is with
  | nil => intro d ls d' ls' h; simp only [foldInst, Option.some.injEq, Prod.mk.injEq] at h; rw [← h.1]
  | cons i is ih =>
    intro d ls d' ls' h
    unfold foldInst at h
    cases hs : instStep2 d ls i with
    | none => simp [hs] at h
    | some r =>
      simp only [hs] at h
      exact (ih r.1 r.2 d' ls' h).trans (instStep2_params d ls i r.1 r.2 hs)

theorem withAttrs_params (a : Attrs) (d : Def) : (withAttrs a d).params = d.params := by
  unfold withAttrs; split <;> rfl

theorem padOpsD_params (x : Def) (dn : String) (ops : List (Nat × Nat)) : (padOpsD x dn ops).params = x.params := by
  rfl
end Spydr.Verilog.Elab
