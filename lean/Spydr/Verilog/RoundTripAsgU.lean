/-
  Verilog engine — proof side, part 61 (primitives with UNDEFINED port direction): the written syntax of an inferred
  black box (`astLeafU`: a port without direction is printed `/* undefined port direction */ inout`), the writer
  (`moduleText_leafU`), the pieces with the block comment (`leafPU`), and the comment tokens the reader's preprocessor
  drops anywhere in the file (`preprocess_filter`).  The re-read port is INOUT: the interface is compared through
  `dirV`, which reads an undefined direction as `inout` (the open finding "comes back inout" is not hidden by this: it is
  the reading of `ifaceT`).
-/
import Spydr.Verilog.RoundTripLeafI
set_option maxHeartbeats 1600000
namespace Spydr.Verilog.Elab
open Spydr.Verilog
open Spydr.Verilog.Parse
open Spydr.Verilog.Text (starConstraints fixName showInt dirString bracketsDefining)

/-! ### the syntax -/

def inoutD : Dir → Dir
  | .undef => .inout
  | d => d

/-- the module the reader's parser returns for a written leaf: `/* undefined port direction */ inout` is `inout` -/
def inoutify (lf : WLeaf) : WLeaf := ⟨lf.name, lf.ports.map (fun p => { p with dir := inoutD p.dir })⟩

def astLeafPortU (r : Text.WDef) (p : Text.WPort) : Option PDecl :=
  match dirOfS p.dir with
  | some _ => astLeafPort r p
  | none => (astLeafPort r { p with dir := "INOUT" }).map (fun q => { q with dir := .undef })

def astLeafU (r : Text.WDef) : Option WLeaf := (r.ports.mapM (astLeafPortU r)).map (fun ps => ⟨r.name, ps⟩)

theorem astLeafPortU_iface (r : Text.WDef) (p : Text.WPort) (q : PDecl) (h : astLeafPortU r p = some q) :
    (some q.name, inoutD q.dir, stubLo q.rng, 1 + stubExtra q.rng) = (p.name, dirV p.dir, p.lower, p.width) := by
  unfold astLeafPortU at h
  split at h
  · rename_i d hd
    have := astLeafPort_iface r p q h
    obtain ⟨nm, dir, _, hd', _, _, e, _⟩ := astLeafPort_spec r p q h
    have hq : q.dir = dir := by rw [e]
    rw [hd] at hd'
    have hne : q.dir ≠ .undef := by
      rw [hq]
      unfold dirOfS at hd
      split at hd <;> first | (cases hd; cases hd'; simp) | cases hd
    have : inoutD q.dir = q.dir := by cases hqd : q.dir <;> first | rfl | exact absurd hqd hne
    rw [this]
    exact astLeafPort_iface r p q h
  · rename_i hd
    simp only [Option.map_eq_some_iff] at h
    obtain ⟨q0, hq0, e⟩ := h
    have := astLeafPort_iface r { p with dir := "INOUT" } q0 hq0
    rw [← e]
    simp only [Prod.mk.injEq] at this ⊢
    refine ⟨this.1, ?_, this.2.2.1, this.2.2.2⟩
    simp only [inoutD, dirV, hd, Option.getD_none]

theorem astLeafU_iface (r : Text.WDef) (m : WLeaf) (h : astLeafU r = some m) :
    (inoutify m).name = r.name ∧ ifaceP (inoutify m).ports = ifaceT r := by
  unfold astLeafU at h
  simp only [Option.map_eq_some_iff] at h
  obtain ⟨ps, hps, e⟩ := h
  rw [← e]
  refine ⟨rfl, ?_⟩
  have := mapM_map_eq (astLeafPortU r) (fun q => (some q.name, inoutD q.dir, stubLo q.rng, 1 + stubExtra q.rng))
    (fun p => (p.name, dirV p.dir, p.lower, p.width)) (astLeafPortU_iface r) r.ports ps hps
  unfold ifaceP ifaceT inoutify
  rw [List.map_map]
  exact this

/-! ### the writer -/

theorem dirString_undef (s : String) (h : dirOfS s = none) : dirString s = dirStr .undef := by
  unfold dirOfS at h
  split at h
  · cases h
  · cases h
  · cases h
  · rename_i h1 h2 h3
    unfold dirString
    split
    · exact absurd rfl h1
    · exact absurd rfl h2
    · exact absurd rfl h3
    · rfl

theorem headerPort_leafU (r : Text.WDef) (p : Text.WPort) (q : PDecl) (h : astLeafPortU r p = some q) :
    Text.headerPortText r p = .ok ("    " ++ fixName q.name) := by
  unfold astLeafPortU at h
  split at h
  · exact headerPort_leaf r p q h
  · simp only [Option.map_eq_some_iff] at h
    obtain ⟨q0, hq0, e⟩ := h
    have := headerPort_leaf r { p with dir := "INOUT" } q0 hq0
    rw [← e]
    exact this

theorem bpStep_leafU (r : Text.WDef) (p : Text.WPort) (q : PDecl) (txt : String) (written : List String)
    (h : astLeafPortU r p = some q) (hnw : q.name ∉ written) :
    bpStep r (txt, written) p = .ok (txt ++ portLine q, written ++ [q.name]) := by
  unfold astLeafPortU at h
  split at h
  · exact bpStep_leaf r p q txt written h hnw
  · rename_i hd
    simp only [Option.map_eq_some_iff] at h
    obtain ⟨q0, hq0, e⟩ := h
    have hqn : q.name = q0.name := by rw [← e]
    have hb := bpStep_leaf r { p with dir := "INOUT" } q0 txt written hq0 (by rw [← hqn]; exact hnw)
    -- the two runs differ in the direction string only
    obtain ⟨nm, dir, hn, hd0, hw, ha, e0, hcase⟩ := astLeafPort_spec r { p with dir := "INOUT" } q0 hq0
    have hdir : dir = .inout := by
      have : dirOfS "INOUT" = some dir := hd0
      cases this; rfl
    have hnotw : written.contains nm = false := by
      have : q0.name = nm := by rw [e0]
      rw [hqn, this] at hnw
      cases hcon : written.contains nm with
      | false => rfl
      | true => exact absurd (List.contains_iff_mem.mp hcon) hnw
    have hstar : starConstraints p.attrs = "" := by
      have ha' : p.attrs.getD [] = [] := ha
      cases hp : p.attrs with
      | none => rfl
      | some l => rw [hp] at ha'; simp only [Option.getD_some] at ha'; rw [ha']; rfl
    have hn' : p.name = some nm := hn
    have hw' : 1 ≤ p.width := hw
    rw [← e]
    rcases hcase with hfree | ⟨c, hfc, hl, hwd, hpins, _⟩
    · have hfree' : p.pins.all (fun b => b.isNone) = true := hfree
      have hcs : Text.cablesOfPins p.pins = [] := cablesOfPins_free p.pins [] hfree'
      unfold bpStep
      simp only [bind, Except.bind, hcs, List.isEmpty_nil, if_true, hn', pure, Except.pure, List.foldlM_cons, List.foldlM_nil,
        hnotw, Bool.false_eq_true, if_false, bracketsDefining_eq p.lower p.width hw', hstar]
      rw [e0]
      simp only [portLine, starText, dirString_undef p.dir hd, String.append_assoc]
      rfl
    · have hl' : p.lower = c.lower := hl
      have hwd' : p.width = c.width := hwd
      have hpins' : p.pins = (cableBits nm c.lower c.width).items.map some := hpins
      have hfc' : r.cables.find? (fun c => c.name == nm) = some c := hfc
      have hcw : 1 ≤ c.width := by rw [← hwd']; exact hw'
      have hcs : Text.cablesOfPins p.pins = [nm] := by rw [hpins']; exact cablesOfPins_whole nm c.lower c.width hcw
      have hcn : c.name = nm := by simpa using List.find?_some hfc'
      unfold bpStep
      simp only [bind, Except.bind, hcs, List.isEmpty_cons, Bool.false_eq_true, if_false, pure, Except.pure,
        List.filterMap_cons, hfc', Option.map_some, List.filterMap_nil, List.foldlM_cons, List.foldlM_nil, hcn, hnotw,
        bracketsDefining_eq c.lower c.width hcw, hstar]
      rw [e0]
      show _ = Except.ok (txt ++ portLine ⟨nm, .undef, emitDeclRange p.lower p.width, []⟩, _)
      rw [hl', hwd']
      simp only [portLine, starText, dirString_undef p.dir hd, String.append_assoc]
      rfl

theorem bodyPorts_leafU (r : Text.WDef) : ∀ (ps : List Text.WPort) (qs : List PDecl) (txt : String) (written : List String),
    ps.mapM (astLeafPortU r) = some qs → (∀ q ∈ qs, q.name ∉ written) → (qs.map (·.name)).Nodup →
    ps.foldlM (bpStep r) (txt, written) = .ok (txt ++ String.join (qs.map portLine), written ++ qs.map (·.name)) := by
  intro ps
  induction ps with
  | nil =>
    intro qs txt written hm _ _
    simp only [List.mapM_nil, pure, Option.some.injEq] at hm
    subst hm
    simp [pure, Except.pure, join_nil]
  | cons p ps ih =>
    intro qs txt written hm hnw hnd
    rw [List.mapM_cons] at hm
    cases hp : astLeafPortU r p with
    | none => simp [hp] at hm
    | some q =>
      cases hrest : ps.mapM (astLeafPortU r) with
      | none => simp [hp, hrest] at hm
      | some qs' =>
        simp only [hp, hrest, Option.bind_eq_bind, Option.bind_some, pure, Option.some.injEq] at hm
        subst hm
        rw [List.map_cons, List.nodup_cons] at hnd
        have hrec := ih qs' (txt ++ portLine q) (written ++ [q.name]) hrest
          (by
            intro q' hq' hmem
            rcases List.mem_append.mp hmem with h | h
            · exact hnw q' (List.mem_cons_of_mem _ hq') h
            · simp only [List.mem_singleton] at h
              exact hnd.1 (List.mem_map.mpr ⟨q', hq', h⟩))
          hnd.2
        rw [List.foldlM_cons]
        simp only [bind, Except.bind, bpStep_leafU r p q txt written hp (hnw q List.mem_cons_self)]
        rw [hrec]
        simp [join_cons, String.append_assoc]

theorem moduleText_leafU (n : Text.WNet) (r : Text.WDef) (lf : WLeaf) (ht : LeafText r) (ha : astLeafU r = some lf)
    (hnd : (lf.ports.map (·.name)).Nodup) : Text.moduleText n optsBB r = .ok (renderLeaf lf) := by
  unfold astLeafU at ha
  simp only [Option.map_eq_some_iff] at ha
  obtain ⟨qs, hqs, e⟩ := ha
  subst e
  have hhp : r.ports.mapM (Text.headerPortText r) = .ok (qs.map (fun p => "    " ++ fixName p.name)) :=
    mapM_opt_exc (astLeafPortU r) (Text.headerPortText r) (fun p => "    " ++ fixName p.name)
      (fun a b h => headerPort_leafU r a b h) r.ports qs hqs
  have hbp : Text.bodyPortsText r = .ok (String.join (qs.map portLine) ++ "\n") := by
    rw [bodyPortsText_eq]
    simp only [bind, Except.bind, bodyPorts_leafU r r.ports qs "" [] hqs (by intro q _ h; cases h) hnd, pure, Except.pure]
    simp
  have hstar : starConstraints r.attrs = "" := by
    have := ht.attrs
    cases hp : r.attrs with
    | none => rfl
    | some l => rw [hp] at this; simp only [Option.getD_some] at this; rw [this]; rfl
  have hl1 : (r.lib == "SDN_VERILOG_ASSIGNMENT") = false := by rw [ht.lib]; decide
  have hl2 : (r.lib == "hdi_primitives") = true := by rw [ht.lib]; decide
  unfold Text.moduleText
  simp only [optsBB, bind, Except.bind, pure, Except.pure, hl1, hl2, Bool.false_eq_true, if_false, Bool.not_true, Bool.and_false,
    if_true, hhp, ht.params, hbp, hstar]
  simp only [renderLeaf, List.map_map]
/-! ### the pieces: the block comment in front of `inout` -/

def cmtU : String := "/* undefined port direction */"

def dirP : Dir → List Piece
  | .undef => [.self cmtU cmtU] ++ W1 ++ T "inout"
  | .inp => T "input"
  | .out => T "output"
  | .inout => T "inout"

theorem chars_dirP (d : Dir) : pchars (dirP d) = (dirStr d).toList := by
  cases d with
  | undef =>
    simp only [dirP, dirStr, pchars_append, pchars_cons, pchars_nil, Piece.chars, chars_W1, chars_T, cmtU]
    decide
  | inp => simp [dirP, dirStr, chars_T]
  | out => simp [dirP, dirStr, chars_T]
  | inout => simp [dirP, dirStr, chars_T]

/-- the tokens of a direction as the lexer returns them: the comment is a token of its own -/
def dirToksU : Dir → List String
  | .undef => [cmtU, "inout"]
  | d => [dirTok d]

theorem toks_dirP (d : Dir) : ptoks (dirP d) = dirToksU d := by
  cases d <;> simp [dirP, dirToksU, dirTok, ptoks_append, ptoks_cons, ptoks_nil, Piece.toks, toks_W1, toks_T]

def portPU (p : PDecl) : List Piece :=
  starP p.attrs ++ W4 ++ dirP p.dir ++ W1 ++ brP p.rng ++ N (fixName p.name) ++ T ";" ++ NL

theorem chars_portPU (p : PDecl) : pchars (portPU p) = (portLine p).toList := by
  simp only [portPU, portLine, pchars_append, chars_starP, chars_W4, chars_W1, chars_T, chars_N, chars_brP, chars_NL,
    chars_dirP, String.toList_append]
  have : ";\n".toList = ";".toList ++ "\n".toList := by decide
  rw [this]; simp [List.append_assoc]

def portCoreU (p : PDecl) : List String := dirToksU p.dir ++ (rangeToks p.rng ++ [nameT p.name, ";"])

theorem toks_portPU (p : PDecl) (ha : p.attrs = []) : ptoks (portPU p) = portCoreU p := by
  simp only [portPU, portCoreU, ptoks_append, toks_starP, toks_W4, toks_W1, toks_T, toks_N, toks_brP, toks_NL, toks_dirP,
    ha, starToks, nameT]
  simp

def leafPU (lf : WLeaf) : List Piece :=
  cellP ++
    (T "module" ++ W1 ++ N (fixName lf.name) ++ NL ++ T "(" ++
      List.intercalate (T ",") (lf.ports.map (fun p => NL ++ W4 ++ N (fixName p.name))) ++ NL ++ T ")" ++ T ";" ++ NL ++ NL) ++
    ((lf.ports.map portPU).flatten ++ NL) ++
    T "endmodule" ++ NL ++ endcellP ++ NL

theorem chars_leafPU (lf : WLeaf) : pchars (leafPU lf) = (renderLeaf lf).toList := by
  simp only [leafPU, renderLeaf, cellP, endcellP, pchars_append, pchars_cons, pchars_nil, Piece.chars, chars_T, chars_N, chars_W1, chars_NL,
    pchars_intercalate, pchars_flatten, String.toList_append, String.toList_intercalate, toList_join, List.map_map]
  have h1 : "module ".toList = "module".toList ++ " ".toList := by decide
  have h2 : "\n);\n".toList = "\n".toList ++ ")".toList ++ ";".toList ++ "\n".toList := by decide
  have h3 : "\n\n".toList = "\n".toList ++ "\n".toList := by decide
  have h4 : "".toList = [] := rfl
  have h5 : "\n`endcelldefine".toList = "\n".toList ++ "`endcelldefine".toList := by decide
  have h6 : "`endcelldefine\n".toList = "`endcelldefine".toList ++ "\n".toList := by decide
  rw [h1, h2, h3, h4, h5, h6]
  have hm1 : lf.ports.map (pchars ∘ fun p => NL ++ W4 ++ N (fixName p.name)) =
      lf.ports.map (String.toList ∘ (fun s => "\n" ++ s) ∘ fun p => "    " ++ fixName p.name) := by
    apply List.map_congr_left
    intro p _
    simp only [Function.comp, pchars_append, chars_NL, chars_W4, chars_T, chars_N, String.toList_append, List.append_assoc]
  have hm2 : lf.ports.map (pchars ∘ portPU) = lf.ports.map (String.toList ∘ portLine) := by
    apply List.map_congr_left; intro p _; exact chars_portPU p
  rw [hm1, hm2]
  simp [List.append_assoc, List.flatMap, Function.comp_def]

/-- the tokens the lexer returns for a written leaf (block comments included) -/
def leafToksU (lf : WLeaf) : List String :=
  "`celldefine" :: (("module" :: nameT lf.name :: "(" :: (sepNames (lf.ports.map (·.name)) ++ ")" :: ";" ::
    (lf.ports.flatMap portCoreU ++ ["endmodule"]))) ++ ["`endcelldefine"])

theorem toks_leafPU (lf : WLeaf) (hd : ∀ p ∈ lf.ports, p.attrs = []) : ptoks (leafPU lf) = leafToksU lf := by
  simp only [leafPU, leafToksU, cellP, endcellP, ptoks_append, ptoks_cons, ptoks_nil, Piece.toks, toks_T, toks_N, toks_W1, toks_NL,
    ptoks_intercalate, ptoks_flatten, List.append_nil, List.map_map, sepNames_eq, List.nil_append]
  have hm1 : lf.ports.map (ptoks ∘ fun p => NL ++ W4 ++ N (fixName p.name)) =
      lf.ports.map ((fun x => [nameT x]) ∘ fun p => p.name) := by
    apply List.map_congr_left
    intro p _
    simp [ptoks_append, toks_NL, toks_W4, toks_T, toks_N, nameT]
  have hm2 : (lf.ports.map (ptoks ∘ portPU)).flatten = lf.ports.flatMap portCoreU := by
    rw [List.flatMap_def]
    congr 1
    apply List.map_congr_left
    intro p hp
    simp only [Function.comp]
    exact toks_portPU p (hd p hp)
  rw [hm1, hm2]
  simp [List.append_assoc, nameT]

/-! ### comments are dropped anywhere -/

def notC (t : String) : Bool := !(Text.isCommentTok t)

theorem preprocess_filter : ∀ (ts : Toks) (f : Nat), ts.length + 1 ≤ f → (ts.filter notC).all keepTok = true →
    preprocess f ts false = .ok (ts.filter notC) := by
  intro ts
  induction ts with
  | nil =>
    intro f hf _
    obtain ⟨g, hg⟩ : ∃ g, f = g + 1 := ⟨f - 1, by simp at hf; omega⟩
    subst hg; rfl
  | cons t ts ih =>
    intro f hf hc
    obtain ⟨g, hg⟩ : ∃ g, f = g + 1 := ⟨f - 1, by simp at hf; omega⟩
    subst hg
    by_cases hct : Text.isCommentTok t = true
    · have hn : notC t = false := by simp [notC, hct]
      rw [List.filter_cons_of_neg (by simp [hn])] at hc ⊢
      unfold preprocess
      simp only [hct, if_true]
      exact ih g (by simp only [List.length_cons] at hf; omega) hc
    · have hct' : Text.isCommentTok t = false := by simpa using hct
      have hn : notC t = true := by simp [notC, hct']
      rw [List.filter_cons_of_pos hn] at hc ⊢
      simp only [List.all_cons, Bool.and_eq_true] at hc
      have hrec := ih g (by simp only [List.length_cons] at hf; omega) hc.2
      have hk := hc.1
      simp only [keepTok, Bool.and_eq_true, Bool.not_eq_eq_eq_not, Bool.not_true, Bool.or_eq_true, beq_iff_eq] at hk
      obtain ⟨h1, h2⟩ := hk
      have hA : (t.startsWith "`" && hasRest t && firstWord t == "`ifdef") = false := by
        rcases h2 with (h2 | h2) | h2
        · simp [h2]
        · subst h2; rw [firstWord_cell]; simp
        · subst h2; rw [firstWord_endcell]; simp
      have hB : (t.startsWith "`" && hasRest t && firstWord t == "`define") = false := by
        rcases h2 with (h2 | h2) | h2
        · simp [h2]
        · subst h2; rw [firstWord_cell]; simp
        · subst h2; rw [firstWord_endcell]; simp
      unfold preprocess
      simp only [h1, hA, hB, Bool.false_eq_true, if_false, bind, Except.bind, hrec]
      rfl

theorem cmtU_comment : Text.isCommentTok cmtU = true := by decide +kernel

/-- the comments removed, the tokens of a written leaf are the tokens of the module the parser returns -/
theorem leafToksU_filter (lf : WLeaf) (h : leafOK (inoutify lf) = true) :
    (leafToksU lf).filter notC = leafToks (inoutify lf) := by
  have hk := leafToks_keep (inoutify lf) h
  have hall : ∀ t ∈ leafToks (inoutify lf), notC t = true := by
    intro t ht
    have := List.all_eq_true.mp hk t ht
    simp only [keepTok, Bool.and_eq_true] at this
    exact this.1
  have hid : (leafToks (inoutify lf)).filter notC = leafToks (inoutify lf) := List.filter_eq_self.mpr hall
  rw [← hid]
  unfold leafToksU leafToks leafCore inoutify
  simp only [List.filter_cons, List.filter_append, List.map_map, Function.comp_def]
  have hp : (lf.ports.flatMap portCoreU).filter notC =
      ((lf.ports.map (fun p => ({ p with dir := inoutD p.dir } : PDecl))).flatMap (fun p => portCore p.dir p.rng p.name)).filter notC := by
    rw [List.flatMap_map]
    induction lf.ports with
    | nil => rfl
    | cons p ps ih =>
      simp only [List.flatMap_cons, List.filter_append, ih]
      congr 1
      unfold portCoreU portCore
      cases hd : p.dir <;> simp [dirToksU, inoutD, dirTok, notC, cmtU_comment, List.filter_cons]
  rw [hp]
end Spydr.Verilog.Elab
