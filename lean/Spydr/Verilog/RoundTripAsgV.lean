/-
  Verilog engine — proof side, part 62 (primitives with attributes and parameters): the entry and the end of
  `elabModule` for a `celldefine` module (`elabModule_prim`: the parameters of the header are merged in on entry, the
  attributes set at the end; the part in between does not look at them), a written primitive with attributes and
  parameters `WLeafX`, its pure builder `buildLeafX` and the real `elabModule` on it (`elabModule_leafX`).
-/
import Spydr.Verilog.RoundTripAsgB
import Spydr.Verilog.RoundTripAsgU
import Spydr.Verilog.RoundTripAsgP
set_option maxHeartbeats 1600000
namespace Spydr.Verilog.Elab
open Spydr.Verilog

/-- the part of `elabModule` between the entry and the attributes -/
def modTail (S : St) (name : String) (prim : Bool) (header : List HPort) (items : List Item) : M St := do
  let s ← header.foldlM (fun s h => match h.alias with
    | some e => headerAlias s name h e
    | none => headerPort s name h) S
  let s ← reorderPorts s name (header.map (·.name))
  items.foldlM (fun s it => elabItem s name prim it) s

/-- the definition of a primitive on entry: library `hdi_primitives`, the parameters of the header merged in -/
def entryPrim (L : Def) (params : Params) : Def := { L with lib := some "hdi_primitives", params := mergeParams L.params params }

/-- **elabModule_prim.**  `elabModule` on a `celldefine` module whose name is known to the table as a stub. -/
theorem elabModule_prim (s : St) (M : Module) (hp : M.prim = true) (L : Def) (hL : Has s M.name L) (hlib : L.lib = none) :
    elabModule s M = (do
      let s' ← modTail (s.put M.name (entryPrim L M.params) s.next) M.name true M.header M.items
      pure (if M.attrs.isEmpty then s' else s'.upd M.name (fun d => { d with attrs := some M.attrs }))) := by
  have hens : s.ensure M.name = s := by unfold St.ensure; rw [hL.find]
  have hentry : (if M.params.isEmpty = true then s.upd M.name (fun d => { d with lib := some "hdi_primitives" })
      else (s.upd M.name (fun d => { d with lib := some "hdi_primitives" })).upd M.name
        (fun d => { d with params := mergeParams d.params M.params })) = s.put M.name (entryPrim L M.params) s.next := by
    have hSx : s.upd M.name (fun d => { d with lib := some "hdi_primitives" }) =
        s.put M.name { L with lib := some "hdi_primitives" } s.next := by
      have := upd_eq_put s M.name L (fun d => { d with lib := some "hdi_primitives" }) s.next hL
      rw [← this]; cases s; rfl
    split
    · rename_i he
      have hpe : M.params = [] := List.isEmpty_iff.mp he
      rw [hSx, hpe]; rfl
    · generalize hSxd : s.upd M.name (fun d => { d with lib := some "hdi_primitives" }) = Sx at hSx
      have hHx : Has Sx M.name { L with lib := some "hdi_primitives" } := by rw [hSx]; exact hL.put _ _ rfl
      have := upd_eq_put Sx M.name _ (fun d => { d with params := mergeParams d.params M.params }) Sx.next hHx
      have hx : Sx.upd M.name (fun d => { d with params := mergeParams d.params M.params }) =
          withNext (Sx.upd M.name (fun d => { d with params := mergeParams d.params M.params })) Sx.next := by
        cases Sx; rfl
      rw [hx, this, hSx, St.put_put s M.name { L with lib := some "hdi_primitives" } _ _ _ hL.2.1]
      rfl
  unfold elabModule modTail
  simp only [hens, bind, Except.bind, getDef_has hL, hlib, Option.isSome_none, Bool.false_eq_true, if_false, hp, if_true,
    pure, Except.pure]
  rw [hentry]
  generalize List.foldlM (m := Except String) _ (s.put M.name (entryPrim L M.params) s.next) M.header = X1
  cases X1 with
  | error e => rfl
  | ok v1 =>
    simp only
    generalize reorderPorts v1 M.name _ = X2
    cases X2 with
    | error e => rfl
    | ok v2 => simp only

/-- a written primitive with attributes and module parameters -/
structure WLeafX where
  base : WLeaf
  attrs : Attrs
  params : Params

def WLeafX.toModule (m : WLeafX) : Module :=
  ⟨m.base.name, true, m.attrs, m.params, m.base.ports.map (fun p => ⟨p.name, none, none, none⟩), m.base.ports.map PDecl.item⟩

/-- the definition the reader ends with (pure): as `buildLeaf` on the stub with the parameters merged in, then the attributes -/
def buildLeafX (L : Def) (n : Nat) (lf : WLeafX) : Option (Def × Nat × List (Nat × Nat)) :=
  if L.params = [] then
    (buildLeaf { L with params := mergeParams L.params lf.params } n lf.base.ports).map
      (fun r => (withAttrs lf.attrs r.1, r.2.1, r.2.2))
  else none

theorem put_defs_eq (s s' : St) (dn : String) (d : Def) (n : Nat) (h1 : s'.defs.map (fun x => if x.name == dn then d else x) =
    s.defs.map (fun x => if x.name == dn then d else x)) (h2 : s'.top = s.top) (h3 : s'.acount = s.acount)
    (h4 : s'.pending = s.pending) : s'.put dn d n = s.put dn d n := by
  unfold St.put withNext St.upd
  simp only [h1, h2, h3, h4]

/-- **elabModule_leafX.**  A `celldefine` module with attributes and parameters, declared after its instances, through the
    real `elabModule`. -/
theorem elabModule_leafX (s : St) (m : WLeafX) (L D : Def) (n' : Nat) (ops : List (Nat × Nat))
    (hL : Has s m.base.name L) (hr : RowsFull s m.base.name L.ports.length) (hb : buildLeafX L s.next m = some (D, n', ops)) :
    elabModule s m.toModule = .ok ((padOps s m.base.name ops).put m.base.name D n') := by
  unfold buildLeafX at hb
  split at hb
  · rename_i hLp
    generalize hL0 : ({ L with params := mergeParams L.params m.params } : Def) = L0 at hb
    cases hb0 : buildLeaf L0 s.next m.base.ports with
    | none => simp [hb0] at hb
    | some r =>
      obtain ⟨L', n1, ops1⟩ := r
      simp only [hb0, Option.map_some, Option.some.injEq, Prod.mk.injEq] at hb
      obtain ⟨e1, e2, e3⟩ := hb
      subst e1 e2 e3
      have hL0n : L0.name = L.name := by rw [← hL0]
      have hL0p : L0.ports = L.ports := by rw [← hL0]
      have hL0i : L0.insts = L.insts := by rw [← hL0]
      have hlib : L.lib = none := by
        have := (buildLeaf_bound L0 s.next m.base.ports L' n1 ops1 hb0).2.1
        rw [← hL0] at this; exact this
      have hLi : L.insts = [] := by
        unfold buildLeaf at hb0
        split at hb0
        · rename_i hc; rw [← hL0i]; exact hc.2.1
        · cases hb0
      -- the same module without attributes and parameters, in the table whose stub carries the parameters
      generalize hs0 : s.put m.base.name L0 s.next = s0
      have hH0 : Has s0 m.base.name L0 := by rw [← hs0]; exact hL.put L0 _ hL0n
      have hR0 : RowsFull s0 m.base.name L0.ports.length := by
        rw [← hs0, hL0p]; exact hr.put _ _ _ (by rw [hL0i]; exact hLi)
      have hn0 : s0.next = s.next := by rw [← hs0]; rfl
      obtain ⟨g1, g2, g3, _, _⟩ := elabModule_leaf s0 m.base L0 L' n1 ops1 hH0 hR0 (by rw [hn0]; exact hb0)
      rw [elabModule_prim s0 m.base.toModule rfl L0 hH0 (by rw [← hL0]; exact hlib)] at g1
      rw [elabModule_prim s m.toModule rfl L hL hlib]
      -- the states on entry coincide
      have hent : s0.put m.base.name (entryPrim L0 []) s0.next = s.put m.base.name (entryPrim L m.params) s.next := by
        rw [← hs0, St.put_put s m.base.name L0 _ _ _ (hL0n.trans hL.2.1)]
        show s.put _ _ s.next = _
        rw [← hL0]
        rfl
      have hmod : m.base.toModule.header = m.toModule.header ∧ m.base.toModule.items = m.toModule.items ∧
          m.base.toModule.name = m.toModule.name := ⟨rfl, rfl, rfl⟩
      simp only [WLeaf.toModule, WLeafX.toModule, bind, Except.bind, List.isEmpty_nil, if_true, pure, Except.pure] at g1 ⊢
      rw [hent] at g1
      cases hT : modTail (s.put m.base.name (entryPrim L m.params) s.next) m.base.name true
          (m.base.ports.map (fun p => ⟨p.name, none, none, none⟩)) (m.base.ports.map PDecl.item) with
      | error e => rw [hT] at g1; cases g1
      | ok S' =>
        rw [hT] at g1
        simp only [Except.ok.injEq] at g1 ⊢
        rw [g1]
        -- the table with the stub `L0` padded is the table with the stub `L` padded, once the definition is replaced
        have hpad : (padOps s0 m.base.name ops1).put m.base.name L' n1 = (padOps s m.base.name ops1).put m.base.name L' n1 := by
          rw [← hs0, padOps_put m.base.name L0 (by rw [hL0i]; exact hLi) ops1 s s.next,
            St.put_put _ m.base.name L0 L' _ _ (hL0n.trans hL.2.1)]
        rw [hpad]
        have hHp : Has ((padOps s m.base.name ops1).put m.base.name L' n1) m.base.name L' :=
          (hL.padOps hLi ops1).put L' _ (g2.trans hL.2.1.symm)
        by_cases he : m.attrs.isEmpty = true
        · simp only [he, if_true, withAttrs]
        · simp only [he, if_false, withAttrs, Bool.false_eq_true]
          have := upd_eq_put _ m.base.name L' (fun d => { d with attrs := some m.attrs }) n1 hHp
          rw [St.put_put _ m.base.name L' _ _ _ g2] at this
          rw [← this]
          rfl
  · cases hb
/-! ### what `buildLeafX` builds -/

theorem hdrStepL_attrs (d : Def) (n : Nat) (a : String) (d' : Def) (n' : Nat) (h : hdrStepL d n a = some (d', n')) :
    d'.attrs = d.attrs := by
  unfold hdrStepL at h
  split at h
  · split at h
    · simp only [Option.some.injEq, Prod.mk.injEq] at h; rw [← h.1]
    · cases h
  · cases h

theorem declStepL_meta (d : Def) (n : Nat) (p : PDecl) (d' : Def) (n' k post : Nat)
    (h : declStepL d n p = some (d', n', k, post)) : d'.attrs = d.attrs ∧ d'.params = d.params := by
  unfold declStepL at h
  split at h
  · split at h
    · simp only [Option.some.injEq, Prod.mk.injEq] at h; rw [← h.1]; exact ⟨rfl, rfl⟩
    · cases h
  · cases h

theorem foldDecl_meta : ∀ (ps : List PDecl) (d : Def) (n : Nat) (d' : Def) (n' : Nat) (ops : List (Nat × Nat)),
    foldDecl d n ps = some (d', n', ops) → d'.attrs = d.attrs ∧ d'.params = d.params := by
  intro ps
  induction ps with
  | nil =>
    intro d n d' n' ops h
    simp only [foldDecl, Option.some.injEq, Prod.mk.injEq] at h
    rw [← h.1]; exact ⟨rfl, rfl⟩
  | cons p ps ih =>
    intro d n d' n' ops h
    unfold foldDecl at h
    cases hs : declStepL d n p with
    | none => simp [hs] at h
    | some r =>
      obtain ⟨d1, n1, k, post⟩ := r
      simp only [hs, Option.map_eq_some_iff] at h
      obtain ⟨q, hq, he⟩ := h
      obtain ⟨d2, n2, ops2⟩ := q
      simp only [Prod.mk.injEq] at he
      rw [← he.1]
      obtain ⟨a1, a2⟩ := ih d1 n1 d2 n2 ops2 hq
      obtain ⟨b1, b2⟩ := declStepL_meta d n p d1 n1 k post hs
      exact ⟨a1.trans b1, a2.trans b2⟩

theorem buildLeaf_meta (L : Def) (n : Nat) (ps : List PDecl) (L' : Def) (n' : Nat) (ops : List (Nat × Nat))
    (hb : buildLeaf L n ps = some (L', n', ops)) : L'.attrs = L.attrs ∧ L'.params = L.params := by
  unfold buildLeaf at hb
  split at hb
  · cases h1 : foldLocal hdrStepL { L with lib := some "hdi_primitives" } n (ps.map (·.name)) with
    | none => simp [h1] at hb
    | some r1 =>
      obtain ⟨d1, n1⟩ := r1
      simp only [h1] at hb
      obtain ⟨a1, a2⟩ := foldDecl_meta ps d1 n1 L' n' ops hb
      have b1 := foldLocal_pres (·.attrs) hdrStepL hdrStepL_attrs _ _ _ _ _ h1
      have b2 := foldLocal_pres (·.params) hdrStepL hdrStepL_params _ _ _ _ _ h1
      exact ⟨a1.trans b1, a2.trans b2⟩
  · cases hb

/-- the facts about `buildLeafX` the table lemmas use -/
theorem buildLeafX_facts (L : Def) (n : Nat) (lf : WLeafX) (D : Def) (n' : Nat) (ops : List (Nat × Nat))
    (hb : buildLeafX L n lf = some (D, n', ops)) (hlow : ∀ P ∈ L.ports, P.lower = 0) (hat : L.attrs = none) :
    (∀ op ∈ ops, op.1 < L.ports.length) ∧ L.lib = none ∧ D.ports.map (·.name) = L.ports.map (·.name) ∧ D.name = L.name ∧
      ifaceD D = ifaceP lf.base.ports ∧ D.lib = some "hdi_primitives" ∧ D.attrs.getD [] = lf.attrs ∧
      D.params = mergeParams [] lf.params := by
  unfold buildLeafX at hb
  split at hb
  · rename_i hLp
    generalize hL0 : ({ L with params := mergeParams L.params lf.params } : Def) = L0 at hb
    cases hb0 : buildLeaf L0 n lf.base.ports with
    | none => simp [hb0] at hb
    | some r =>
      obtain ⟨L', n1, ops1⟩ := r
      simp only [hb0, Option.map_some, Option.some.injEq, Prod.mk.injEq] at hb
      obtain ⟨e1, e2, e3⟩ := hb
      subst e1 e2 e3
      obtain ⟨b1, b2, b3, b4⟩ := buildLeaf_bound L0 n lf.base.ports L' n1 ops1 hb0
      obtain ⟨c1, c2⟩ := buildLeaf_iface L0 n lf.base.ports L' n1 ops1 hb0 (by rw [← hL0]; exact hlow)
      obtain ⟨m1, m2⟩ := buildLeaf_meta L0 n lf.base.ports L' n1 ops1 hb0
      have hw : ∀ (a : Attrs) (d : Def), (withAttrs a d).ports = d.ports ∧ (withAttrs a d).name = d.name ∧
          (withAttrs a d).lib = d.lib ∧ (withAttrs a d).params = d.params := by
        intro a d; unfold withAttrs; split <;> exact ⟨rfl, rfl, rfl, rfl⟩
      obtain ⟨w1, w2, w3, w4⟩ := hw lf.attrs L'
      refine ⟨by rw [← hL0] at b1; exact b1, by rw [← hL0] at b2; exact b2, by rw [w1, b3, ← hL0], by rw [w2, b4, ← hL0],
        ?_, by rw [w3, c2], ?_, by rw [w4, m2, ← hL0]; show mergeParams L.params lf.params = _; rw [hLp]⟩
      · unfold ifaceD; rw [w1]; exact c1
      · unfold withAttrs
        split
        · rename_i he
          rw [m1, ← hL0]
          show L.attrs.getD [] = _
          rw [hat]; exact (List.isEmpty_iff.mp he).symm
        · rfl
  · cases hb
end Spydr.Verilog.Elab
