/-
  Verilog engine — proof side, part 16: from the writer's netlist to the syntax it prints (`astOf`), the view in which
  the written and the re-read netlist are compared (`viewT`, `viewD`), the fragment predicate `fragTop`, and the nets part
  of the view equality (`cables_view`).
-/
import Spydr.Verilog.RoundTripTrack
import Spydr.Verilog.ModelText
set_option maxHeartbeats 400000
namespace Spydr.Verilog.Elab
open Spydr.Verilog

/-! ### general lemmas -/

theorem mapM_index {α β : Type} (f : α → Option β) : ∀ (l : List α) (r : List β), l.mapM f = some r →
    r.length = l.length ∧ ∀ k (hk : k < l.length) (hk' : k < r.length), f l[k] = some r[k] := by
  intro l
  induction l with
  | nil => intro r h; simp at h; subst h; exact ⟨rfl, fun k hk => by simp at hk⟩
  | cons a l ih =>
    intro r h
    rw [List.mapM_cons] at h
    cases ha : f a with
    | none => simp [ha] at h
    | some b =>
      cases hr : l.mapM f with
      | none => simp [ha, hr] at h
      | some r' =>
        simp only [ha, hr, Option.bind_eq_bind, Option.bind_some, pure, Option.some.injEq] at h
        subst h
        obtain ⟨h1, h2⟩ := ih r' hr
        refine ⟨by simp [h1], ?_⟩
        intro k hk hk'
        cases k with
        | zero => simpa using ha
        | succ k => simpa using h2 k (by simpa using hk) (by simpa using hk')

theorem validBit_sound (env : CableEnv) (b : Bit) (h : validBit env b = true) : ValidBit env b := by
  unfold validBit at h
  cases he : env b.cable with
  | none => simp [he] at h
  | some p =>
    obtain ⟨lo, w⟩ := p
    simp only [he, Bool.and_eq_true, decide_eq_true_eq] at h
    exact ⟨lo, w, he, h.1, h.2⟩

theorem readerShape_sound (env : CableEnv) : ∀ (pins : List (Option Bit)), readerShape env pins = true → ReaderShape env pins := by
  intro pins
  induction pins with
  | nil => intro _; exact ⟨[], 0, rfl, fun b hb => by cases hb⟩
  | cons p ps ih =>
    intro h
    cases p with
    | none =>
      simp only [readerShape, List.all_eq_true] at h
      refine ⟨[], ps.length + 1, ?_, fun b hb => by cases hb⟩
      simp only [List.map_nil, List.nil_append, List.replicate_succ]
      congr 1
      apply List.ext_getElem (by simp)
      intro i h1 h2
      have := h ps[i] (List.getElem_mem h1)
      cases hp : ps[i] with
      | none => simp
      | some v => rw [hp] at this; simp at this
    | some b =>
      simp only [readerShape, Bool.and_eq_true] at h
      obtain ⟨blk, m, e, hv⟩ := ih h.2
      refine ⟨b :: blk, m, by simp [e], ?_⟩
      intro x hx
      rcases List.mem_cons.mp hx with e' | e'
      · rw [e']; exact validBit_sound env b h.1
      · exact hv x e'

theorem connectedBlock_low {β : Type} (blk : List β) (m : Nat) :
    connectedBlock (blk.map some ++ List.replicate m none) = blk := by
  induction blk with
  | nil => cases m <;> simp [connectedBlock, List.replicate_succ]
  | cons b bs ih => simp [connectedBlock, ih]

theorem mergeP_go (ps : Params) : ∀ (acc : Params), ((acc ++ ps).map (·.1)).Nodup →
    ps.foldl (fun acc kv => if acc.any (fun x => x.1 == kv.1) then acc else acc ++ [kv]) acc = acc ++ ps := by
  induction ps with
  | nil => intro acc _; simp
  | cons kv ps ih =>
    intro acc hn
    simp only [List.foldl_cons]
    have hnot : acc.any (fun x => x.1 == kv.1) = false := by
      rw [List.any_eq_false]
      intro x hx
      simp only [beq_iff_eq]
      intro e
      rw [List.map_append, List.map_cons, List.nodup_append] at hn
      exact hn.2.2 x.1 (List.mem_map.mpr ⟨x, hx, rfl⟩) kv.1 List.mem_cons_self e
    simp only [hnot, Bool.false_eq_true, if_false]
    rw [ih (acc ++ [kv]) (by simpa using hn)]
    simp

theorem mergeP_nodup (ps : Params) (h : (ps.map (·.1)).Nodup) : mergeP ps = ps := by
  unfold mergeP
  have := mergeP_go ps [] (by simpa using h)
  simpa using this

/-- what the declared range means for the one-bit stub and for a new net -/
theorem stub_declRange (lower : Int) (width : Nat) (hw : 1 ≤ width) :
    stubLo (emitDeclRange lower width) = lower ∧ 1 + stubExtra (emitDeclRange lower width) = width ∧
    rngOK (emitDeclRange lower width) := by
  unfold emitDeclRange
  split
  · rename_i h; simp [stubLo, stubExtra, rngOK, h.1, h.2]
  · refine ⟨rfl, ?_, ?_⟩
    · show 1 + (lower + ↑width - 1 - lower).toNat = width; omega
    · show lower ≤ lower + ↑width - 1; omega

theorem shape_declRange (lower : Int) (width : Nat) (hw : 1 ≤ width) :
    (shapeOf (emitDeclRange lower width)).1 = lower ∧ (shapeOf (emitDeclRange lower width)).2.1 = width := by
  unfold emitDeclRange
  split
  · rename_i h; simp [shapeOf, rngL, rngR, populateNew, h.1, h.2]
  · simp only [shapeOf, rngL, rngR, Option.map_some, populateNew]
    constructor
    · omega
    · show (max (lower + ↑width - 1) lower - min (lower + ↑width - 1) lower + 1).toNat = width
      omega

/-! ### from the writer's netlist to the syntax it prints -/


/-- the written module with the connection expressions in the writer's expression type -/
structure WModP where
  name : String
  attrs : Attrs
  ports : List PDecl
  wires : List FWire
  insts : List PInst

def WModP.toI (m : WModP) : WModI := ⟨m.name, m.attrs, m.ports, m.wires, m.insts.map PInst.toN⟩

def dirOfS : String → Option Dir
  | "IN" => some .inp
  | "OUT" => some .out
  | "INOUT" => some .inout
  | _ => none

/-- `_write_module_header` + `_write_module_body_ports` for one port: a plain name in the header, then
    `dir [msb:lsb] name ;` with the range of the net of that name -/
def astPort (T : Text.WDef) (p : Text.WPort) : Option PDecl :=
  match p.name with
  | none => none
  | some nm =>
    match T.cables.find? (fun c => c.name == nm), dirOfS p.dir with
    | some c, some dir =>
      if emitHeaderPort (Text.envOf T) nm p.pins = some none then
        some ⟨nm, dir, emitDeclRange c.lower c.width, p.attrs.getD []⟩
      else none
    | _, _ => none

/-- `_write_module_body_cables` for one net -/
def astWire (c : Text.WCable) : FWire := ⟨c.name, c.ctype.getD "wire", emitDeclRange c.lower c.width, c.attrs.getD []⟩

/-- `_write_module_body_instances` for one instance: every port of the referenced definition, in order, with the
    expression `_write_instance_port` chooses -/
def astInst (n : Text.WNet) (T : Text.WDef) (i : Text.WInst) : Option PInst :=
  match Text.refOf n i.ref with
  | none => none
  | some r =>
    ((List.range r.ports.length).mapM (fun k =>
      match (r.ports.getD k default).name, emitPortExpr (Text.envOf T) (i.pins.getD k []) with
      | some pn, some pe => some (pn, pe)
      | _, _ => none)).map (fun conns => ⟨i.name, i.ref, i.params.getD [], i.attrs.getD [], conns⟩)

def astOf (n : Text.WNet) (T : Text.WDef) : Option WModP :=
  match T.ports.mapM (astPort T), T.insts.mapM (astInst n T) with
  | some ports, some insts => some ⟨T.name, T.attrs.getD [], ports, T.cables.reverse.map astWire, insts⟩
  | _, _ => none

/-! ### the view in which the two netlists are compared -/

structure PortView where
  name : Option String
  dir : Dir
  lower : Int
  attrs : Attrs
  pins : List (Option Bit)

structure InstView where
  name : String
  ref : String
  params : Params
  attrs : Attrs
  rows : List (List Bit)          -- per port of the referenced definition: the connected bits, pin 0 first

structure DefView where
  attrs : Attrs
  ports : List PortView
  cables : String → Option (Int × Nat × String × Attrs)     -- by name: lower index, width, type, attributes
  insts : List InstView

def dirV (s : String) : Dir := (dirOfS s).getD .inout

def viewT (n : Text.WNet) (T : Text.WDef) : DefView :=
  { attrs := T.attrs.getD []
    ports := T.ports.map (fun p => ⟨p.name, dirV p.dir, p.lower, p.attrs.getD [], p.pins⟩)
    cables := fun nm => (T.cables.find? (fun c => c.name == nm)).map
      (fun c => (c.lower, c.width, c.ctype.getD "wire", c.attrs.getD []))
    insts := T.insts.map (fun i => ⟨i.name, i.ref, i.params.getD [], i.attrs.getD [],
      (List.range (((Text.refOf n i.ref).map (fun (r : Text.WDef) => r.ports.length)).getD 0)).map (fun k => connectedBlock (i.pins.getD k []))⟩) }

def viewD (D : Def) : DefView :=
  { attrs := D.attrs.getD []
    ports := D.ports.map (fun P => ⟨P.name, P.dir, P.lower, P.attrs.getD [], pinBits D P.pins⟩)
    cables := fun nm => (cabOf D nm).map (fun v => (v.1, v.2.1, v.2.2.1.getD "wire", v.2.2.2.getD []))
    insts := D.insts.map (fun i => ⟨i.name, i.ref, i.params, i.attrs.getD [],
      i.pins.map (fun row => connectedBlock (pinBits D row))⟩) }

/-- the netlists of the fragment (decidable): the top definition `T` of `n`
    * nets: distinct names, at least one wire each;
    * ports: named, distinct, each wired pin by pin to the whole net of its own name (same base and width);
    * instances: of definitions of `n` whose ports are named and distinct, every port row non-empty and of reader
      shape (a block of bits of declared nets at the low end, free pins above), parameter keys distinct -/
def fragTop (n : Text.WNet) (T : Text.WDef) : Bool :=
  decide ((T.cables.map (·.name)).Nodup) && T.cables.all (fun c => decide (1 ≤ c.width)) &&
  decide ((T.ports.map (·.name)).Nodup) &&
  T.ports.all (fun p => match p.name with
    | none => false
    | some nm => match T.cables.find? (fun c => c.name == nm) with
      | none => false
      | some c => decide (p.lower = c.lower) && decide (p.width = c.width) &&
          decide (p.pins = (cableBits nm c.lower c.width).items.map some)) &&
  T.insts.all (fun i => match Text.refOf n i.ref with
    | none => false
    | some r => decide ((r.ports.map (·.name)).Nodup) && r.ports.all (fun q => q.name.isSome) &&
        decide (((i.params.getD []).map (·.1)).Nodup) &&
        (List.range r.ports.length).all (fun k => !(i.pins.getD k []).isEmpty && readerShape (Text.envOf T) (i.pins.getD k [])))

/-! ### nets -/

def normV (v : CabV) : Int × Nat × String × Attrs := (v.1, v.2.1, v.2.2.1.getD "wire", v.2.2.2.getD [])

theorem cables_view (cs : List Text.WCable) (ports : List PDecl)
    (H1 : (cs.map (·.name)).Nodup) (H2 : ∀ c ∈ cs, 1 ≤ c.width) (H3 : (ports.map (·.name)).Nodup)
    (H4 : ∀ p ∈ ports, ∃ c ∈ cs, c.name = p.name ∧ p.rng = emitDeclRange c.lower c.width) (nm : String) :
    (((cs.reverse.map astWire).foldl updW (ports.foldl updD ((ports.map (·.name)).foldl updS (fun _ => none)))) nm).map normV =
      (cs.find? (fun c => c.name == nm)).map (fun c => (c.lower, c.width, c.ctype.getD "wire", c.attrs.getD [])) := by
  rw [foldl_pointwise (fun (w : FWire) => w.name) (fun w v => match v with
      | none => some ((shapeOf w.rng).1, (shapeOf w.rng).2.1, some w.ty, some w.attrs)
      | some v => some (v.1, v.2.1, some w.ty, some w.attrs)) updW (fun f a x => rfl) nm,
    foldl_pointwise (fun (p : PDecl) => p.name) (fun p v => v.map (fun v => (stubLo p.rng, 1 + stubExtra p.rng, v.2.2.1, v.2.2.2)))
      updD (fun f a x => rfl) nm,
    foldl_pointwise (fun (a : String) => a) (fun _ _ => some (0, 1, none, none)) updS (fun f a x => rfl) nm]
  -- the net of that name in the netlist, if any
  have hwn : ((cs.reverse.map astWire).map (fun (w : FWire) => w.name)).Nodup := by
    rw [List.map_map]
    have : (cs.reverse.map ((fun (w : FWire) => w.name) ∘ astWire)) = (cs.map (·.name)).reverse := by
      rw [List.map_reverse]; rfl
    rw [this, List.Nodup, List.pairwise_reverse]; exact H1.imp Ne.symm
  have hfind : ∀ c ∈ cs, cs.find? (fun x => x.name == c.name) = some c := by
    intro c hc
    cases hf : cs.find? (fun x => x.name == c.name) with
    | none => have := List.find?_eq_none.mp hf c hc; simp at this
    | some c' =>
      have h1 := List.mem_of_find?_eq_some hf
      have h2 : c'.name = c.name := by simpa using List.find?_some hf
      rw [nodup_map_inj (·.name) cs H1 c' h1 c hc h2]
  have hwires : ∀ c ∈ cs, (cs.reverse.map astWire).filter (fun w => w.name == c.name) = [astWire c] := by
    intro c hc
    rcases filter_key_nodup (fun (w : FWire) => w.name) c.name _ hwn with h | h
    · exfalso; apply h.2
      exact List.mem_map.mpr ⟨astWire c, List.mem_map.mpr ⟨c, List.mem_reverse.mpr hc, rfl⟩, rfl⟩
    · obtain ⟨w, hw, hk, hf⟩ := h
      rw [hf]
      obtain ⟨c', hc', e⟩ := List.mem_map.mp hw
      have : c' = c := nodup_map_inj (·.name) cs H1 c' (List.mem_reverse.mp hc') c hc (by rw [← e] at hk; exact hk)
      rw [← e, this]
  rcases filter_key_nodup (fun (p : PDecl) => p.name) nm ports H3 with hp | hp
  · -- not a port
    have hnames : (ports.map (·.name)).filter (fun a => a == nm) = [] := by
      apply List.filter_eq_nil_iff.mpr
      intro a ha hk
      apply hp.2
      have : a = nm := by simpa using hk
      rw [← this]; exact ha
    rw [hp.1, hnames]
    simp only [List.foldl_nil]
    cases hf : cs.find? (fun c => c.name == nm) with
    | none =>
      have : (cs.reverse.map astWire).filter (fun w => w.name == nm) = [] := by
        apply List.filter_eq_nil_iff.mpr
        intro w hw hk
        obtain ⟨c, hc, e⟩ := List.mem_map.mp hw
        have := List.find?_eq_none.mp hf c (List.mem_reverse.mp hc)
        rw [← e] at hk
        exact this hk
      rw [this]; rfl
    | some c =>
      have hc := List.mem_of_find?_eq_some hf
      have hcn : c.name = nm := by simpa using List.find?_some hf
      rw [← hcn, hwires c hc]
      obtain ⟨s1, s2⟩ := shape_declRange c.lower c.width (H2 c hc)
      simp [astWire, normV, s1, s2]
  · obtain ⟨p, hpm, hpn, hpf⟩ := hp
    obtain ⟨c, hc, hcn, hrng⟩ := H4 p hpm
    have hnames : (ports.map (·.name)).filter (fun a => a == nm) = [nm] := by
      rcases filter_key_nodup (fun (a : String) => a) nm (ports.map (·.name)) (by rw [List.map_map]; exact H3) with h | h
      · exfalso; apply h.2; simp only [List.map_id']; exact List.mem_map.mpr ⟨p, hpm, hpn⟩
      · obtain ⟨a, _, ha, hf⟩ := h
        rw [hf, ha]
    rw [hpf, hnames, ← hpn, ← hcn, hwires c hc, hfind c hc]
    obtain ⟨s1, s2, _⟩ := stub_declRange c.lower c.width (H2 c hc)
    simp [astWire, normV, hrng, s1, s2]
end Spydr.Verilog.Elab
