/-
  Verilog engine — proof side, part 14: from wire ids to BITS.  In a definition whose wire ids are distinct the wires the
  reader finds for an expression are the value `evalExpr` of that expression (`exprWires_bits`); every definition
  `buildW3` builds has distinct wire ids (`buildW3_WF`); hence the rows of the instances of a written module carry the
  value of the connected expressions, low-aligned (`instStep2_den`).
-/
import Spydr.Verilog.RoundTripSingle
set_option maxHeartbeats 400000
namespace Spydr.Verilog.Elab
open Spydr.Verilog

/-! ### from wire ids to bits: the table's rows carry the VALUE of the connected expressions -/

theorem pySlice_map {α β : Type} (f : α → β) (xs : List α) (lo hi : Int) :
    pySlice (xs.map f) lo hi = (pySlice xs lo hi).map f := by
  unfold pySlice
  simp [List.map_take, List.map_drop]

theorem pyIndex_map {α β : Type} (f : α → β) (xs : List α) (i : Int) :
    pyIndex (xs.map f) i = (pyIndex xs i).map f := by
  unfold pyIndex
  simp only [List.length_map]
  split
  · simp
  · split
    · simp
    · rfl

theorem getWires_map {α β : Type} (f : α → β) (lo : Int) (xs : List α) (l r : Option Int) :
    getWires ⟨lo, xs.map f⟩ l r = (getWires ⟨lo, xs⟩ l r).map (List.map f) := by
  unfold getWires
  cases l <;> cases r <;> simp [pySlice_map, pyIndex_map, List.map_reverse]
  all_goals (cases pyIndex xs _ <;> simp)

/-- the wires of a definition: no two cables share a name, no wire id occurs twice -/
def WInv (d : Def) : Prop := (d.cables.map (·.name)).Nodup ∧ (d.cables.flatMap (·.wires)).Nodup

theorem findIdx_nodup (xs : List Nat) (h : xs.Nodup) (k : Nat) (hk : k < xs.length) :
    xs.findIdx? (· == xs[k]) = some k := by
  rw [List.findIdx?_eq_some_iff_getElem]
  refine ⟨hk, by simp, ?_⟩
  intro j hj
  have : xs[j] ≠ xs[k] := fun e => by
    have := (List.getElem_inj h).mp e
    omega
  simp [this]

theorem findSome_flat (w : Nat) : ∀ (cs : List Cable), (cs.flatMap (·.wires)).Nodup → ∀ c ∈ cs, ∀ k (hk : k < c.wires.length),
    c.wires[k] = w →
    cs.findSome? (fun c => match c.wires.findIdx? (· == w) with
      | some k => some (⟨c.name, c.lower + (k : Int)⟩ : Bit)
      | none => none) = some ⟨c.name, c.lower + (k : Int)⟩ := by
  intro cs
  induction cs with
  | nil => intro _ c hc; cases hc
  | cons c0 rest ih =>
    intro hnd c hc k hk hw
    rw [List.flatMap_cons, List.nodup_append] at hnd
    obtain ⟨h0, hrest, hdisj⟩ := hnd
    rw [List.findSome?_cons]
    by_cases hin : w ∈ c0.wires
    · -- then c = c0 (as far as the wire is concerned)
      have hc0 : c = c0 := by
        rcases List.mem_cons.mp hc with e | e
        · exact e
        · exfalso
          have hw' : w ∈ rest.flatMap (·.wires) := List.mem_flatMap.mpr ⟨c, e, by rw [← hw]; exact List.getElem_mem hk⟩
          exact hdisj w hin w hw' rfl
      subst hc0
      have := findIdx_nodup c.wires h0 k hk
      rw [hw] at this
      simp [this]
    · have hnone : c0.wires.findIdx? (· == w) = none := by
        rw [List.findIdx?_eq_none_iff]
        intro x hx
        have : x ≠ w := fun e => hin (e ▸ hx)
        simp [this]
      simp only [hnone]
      rcases List.mem_cons.mp hc with e | e
      · exfalso; subst e; exact hin (by rw [← hw]; exact List.getElem_mem hk)
      · exact ih hrest c e k hk hw

theorem bitOf_wire (d : Def) (h : WInv d) (c : Cable) (hc : c ∈ d.cables) (k : Nat) (hk : k < c.wires.length) :
    bitOf d c.wires[k] = some ⟨c.name, c.lower + (k : Int)⟩ := by
  unfold bitOf
  exact findSome_flat _ d.cables h.2 c hc k hk rfl

/-- the wires of a cable, seen as bits, are the bits of that cable -/
theorem cable_bits (d : Def) (h : WInv d) (c : Cable) (hc : c ∈ d.cables) :
    c.wires.map (bitOf d) = (cableBits c.name c.lower c.wires.length).items.map some := by
  apply List.ext_getElem?
  intro k
  simp only [cableBits, List.getElem?_map]
  by_cases hk : k < c.wires.length
  · rw [List.getElem?_eq_getElem hk, List.getElem?_range hk]
    simp [bitOf_wire d h c hc k hk]
  · rw [List.getElem?_eq_none (by omega), List.getElem?_eq_none (by simp; omega)]
    rfl

/-- the writer's expression syntax as the parser returns it -/
def toX : Atom → XAtom
  | .id n => .id n
  | .bit n i => .bit n i
  | .part n l r => .part n l r

def toXE : PExpr → XExpr
  | .empty => .empty
  | .atom a => .atom (toX a)
  | .concat as => .cat (as.map toX)

theorem atomParts_toX (a : Atom) : atomParts (toX a) = (a.name, a.range.1, a.range.2) := by
  cases a <;> rfl

theorem atomWires_bits (d : Def) (h : WInv d) (a : Atom) (ws : List Nat) (hw : atomWires d (toX a) = some ws) :
    ∃ bs, evalAtom (envOf d) a = some bs ∧ ws.map (bitOf d) = bs.map some := by
  unfold atomWires at hw
  rw [atomParts_toX] at hw
  simp only at hw
  cases hf : d.cables.find? (fun c => c.name == a.name) with
  | none => simp [hf] at hw
  | some c =>
    simp only [hf] at hw
    split at hw
    · rename_i hin
      have hc := List.mem_of_find?_eq_some hf
      have hcn : c.name = a.name := by simpa using List.find?_some hf
      have henv : envOf d a.name = some (c.lower, c.wires.length) := by unfold envOf; rw [hf]; rfl
      have h1 := congrArg (Option.map (List.map (bitOf d))) hw
      rw [← getWires_map, cable_bits d h c hc, getWires_map] at h1
      simp only [Option.map_some] at h1
      cases hg : getWires ⟨c.lower, (cableBits c.name c.lower c.wires.length).items⟩ a.range.1 a.range.2 with
      | none => rw [hg] at h1; cases h1
      | some bs =>
        rw [hg] at h1
        simp only [Option.map_some, Option.some.injEq] at h1
        refine ⟨bs, ?_, h1.symm⟩
        unfold evalAtom
        simp only [henv, hin, if_true]
        rw [← hcn]
        exact hg
    · cases hw

theorem atomsWires_bits (d : Def) (h : WInv d) : ∀ (as : List Atom) (ws : List Nat), atomsWires d (as.map toX) = some ws →
    ∃ bs, evalConcat (envOf d) as = some bs ∧ ws.map (bitOf d) = bs.map some := by
  intro as
  induction as with
  | nil =>
    intro ws hw
    simp only [List.map_nil, atomsWires, Option.some.injEq] at hw
    subst hw
    exact ⟨[], rfl, rfl⟩
  | cons a as ih =>
    intro ws hw
    simp only [List.map_cons, atomsWires] at hw
    cases h1 : atomWires d (toX a) with
    | none => simp [h1] at hw
    | some x =>
      cases h2 : atomsWires d (as.map toX) with
      | none => simp [h1, h2] at hw
      | some y =>
        simp only [h1, h2, Option.some.injEq] at hw
        subst hw
        obtain ⟨b1, e1, m1⟩ := atomWires_bits d h a x h1
        obtain ⟨b2, e2, m2⟩ := ih y h2
        refine ⟨b1 ++ b2, ?_, by simp [m1, m2]⟩
        simp only [evalConcat, e1, e2]

/-- **bits of an expression.**  In a definition whose wire ids are distinct, the wires the reader finds for an expression
    are, seen as bits, exactly the value `evalExpr` of that expression (MSB first). -/
theorem exprWires_bits (d : Def) (h : WInv d) (e : PExpr) (ws : List Nat) (hw : exprWires d (toXE e) = some ws) :
    ∃ bs, evalExpr (envOf d) e = some bs ∧ ws.map (bitOf d) = bs.map some := by
  cases e with
  | empty =>
    simp only [toXE, exprWires, Option.some.injEq] at hw
    subst hw
    exact ⟨[], rfl, rfl⟩
  | atom a => exact atomWires_bits d h a ws hw
  | concat as => exact atomsWires_bits d h as ws hw

/-! ### the definitions `buildW3` builds have distinct wire ids -/

/-- distinct cable names, distinct wire ids, all below the counter -/
def WF (d : Def) (n : Nat) : Prop := WInv d ∧ ∀ c ∈ d.cables, ∀ w ∈ c.wires, w < n

theorem ids_nodup (n w : Nat) : (ids n w).Nodup := by
  unfold ids
  exact List.Pairwise.map _ (fun a b (h : a ≠ b) => by omega) List.nodup_range

theorem ids_lt (n w x : Nat) (h : x ∈ ids n w) : x < n + w := by
  unfold ids at h
  obtain ⟨a, ha, e⟩ := List.mem_map.mp h
  have := List.mem_range.mp ha
  omega

theorem WF_append (d : Def) (n : Nat) (c : Cable) (k : Nat) (h : WF d n)
    (hname : d.cables.find? (fun x => x.name == c.name) = none) (hw : c.wires = ids n k) :
    WF { d with cables := d.cables ++ [c] } (n + k) := by
  obtain ⟨⟨hn, hf⟩, hb⟩ := h
  refine ⟨⟨?_, ?_⟩, ?_⟩
  · simp only [List.map_append, List.map_cons, List.map_nil]
    rw [List.nodup_append]
    refine ⟨hn, by simp, ?_⟩
    intro a ha b hb'
    simp only [List.mem_singleton] at hb'
    obtain ⟨x, hx, e⟩ := List.mem_map.mp ha
    have := List.find?_eq_none.mp hname x hx
    rw [hb', ← e]; simpa using this
  · simp only [List.flatMap_append, List.flatMap_cons, List.flatMap_nil, List.append_nil]
    rw [List.nodup_append]
    refine ⟨hf, by rw [hw]; exact ids_nodup n k, ?_⟩
    intro a ha b hb'
    obtain ⟨x, hx, hax⟩ := List.mem_flatMap.mp ha
    have h1 := hb x hx a hax
    rw [hw] at hb'
    have h2 := ids_ge _ _ _ hb'
    omega
  · intro x hx w hw'
    rcases List.mem_append.mp hx with e | e
    · have := hb x e w hw'; omega
    · simp only [List.mem_singleton] at e
      rw [e, hw] at hw'
      exact ids_lt _ _ _ hw'

theorem ids_one (n : Nat) : ids n 1 = [n] := by simp [ids]

theorem stubStep_WF (d : Def) (n : Nat) (a : String) (d' : Def) (n' : Nat) (h : WF d n)
    (hs : stubStep d n a = some (d', n')) : WF d' n' := by
  unfold stubStep at hs
  split at hs
  · rename_i hc
    simp only [Option.some.injEq, Prod.mk.injEq] at hs
    obtain ⟨e1, e2⟩ := hs
    subst e1 e2
    have := WF_append d n (portCable a 0 true [n]) 1 h hc.2 (by rw [ids_one]; rfl)
    exact ⟨this.1, this.2⟩
  · cases hs

/-- replacing one cable by one with more (new) wires at the end -/
theorem WF_grow (nm : String) (extra : List Nat) (n n' : Nat) : ∀ (cs : List Cable) (c0 C : Cable),
    (cs.map (·.name)).Nodup → (cs.flatMap (·.wires)).Nodup → (∀ c ∈ cs, ∀ w ∈ c.wires, w < n) →
    c0 ∈ cs → c0.name = nm → C.name = nm → C.wires = c0.wires ++ extra → extra.Nodup → (∀ w ∈ extra, n ≤ w ∧ w < n') → n ≤ n' →
    ((cs.map (fun y => if y.name == nm then C else y)).map (·.name)).Nodup ∧
    ((cs.map (fun y => if y.name == nm then C else y)).flatMap (·.wires)).Nodup ∧
    (∀ c ∈ cs.map (fun y => if y.name == nm then C else y), ∀ w ∈ c.wires, w < n') := by
  intro cs c0 C hn hf hb hc0 hc0n hCn hCw hex hrange hle
  have hnames : (cs.map (fun y => if y.name == nm then C else y)).map (·.name) = cs.map (·.name) := by
    rw [List.map_map]
    apply List.map_congr_left
    intro y _
    simp only [Function.comp]
    split
    · rename_i e; rw [hCn]; exact (by simpa using e : y.name = nm).symm
    · rfl
  refine ⟨by rw [hnames]; exact hn, ?_, ?_⟩
  · -- flat list: the same as before with `extra` inserted after the wires of c0
    clear hnames
    induction cs with
    | nil => cases hc0
    | cons y ys ih =>
      simp only [List.map_cons, List.flatMap_cons] at hn hf ⊢
      rw [List.nodup_cons] at hn
      rw [List.nodup_append] at hf
      obtain ⟨hy, hys, hdis⟩ := hf
      by_cases e : y.name = nm
      · -- y is the cable (names are unique, so the rest is untouched)
        have hy0 : y = c0 := by
          rcases List.mem_cons.mp hc0 with h | h
          · exact h.symm
          · exfalso; exact hn.1 (List.mem_map.mpr ⟨c0, h, by rw [hc0n, e]⟩)
        have hrest : ys.map (fun y => if y.name == nm then C else y) = ys := by
          conv => rhs; rw [← List.map_id ys]
          apply List.map_congr_left
          intro z hz
          have : z.name ≠ nm := fun h => hn.1 (List.mem_map.mpr ⟨z, hz, by rw [h, e]⟩)
          simp [this]
        subst hy0
        simp only [e, beq_self_eq_true, if_true, hrest, hCw]
        rw [List.nodup_append]
        refine ⟨?_, hys, ?_⟩
        · rw [List.nodup_append]
          refine ⟨hy, hex, ?_⟩
          intro a ha b hb'
          have h1 := hb y List.mem_cons_self a ha
          have h2 := (hrange b hb').1
          omega
        · intro a ha b hb'
          rcases List.mem_append.mp ha with h | h
          · exact hdis a h b hb'
          · obtain ⟨z, hz, hbz⟩ := List.mem_flatMap.mp hb'
            have h1 := hb z (List.mem_cons_of_mem _ hz) b hbz
            have h2 := (hrange a h).1
            omega
      · have hyne : (y.name == nm) = false := by simp [e]
        simp only [hyne, Bool.false_eq_true, if_false]
        have hc0' : c0 ∈ ys := by
          rcases List.mem_cons.mp hc0 with h | h
          · exact absurd (h ▸ hc0n) e
          · exact h
        have ih' := ih hn.2 hys (fun c hc => hb c (List.mem_cons_of_mem _ hc)) hc0'
        rw [List.nodup_append]
        refine ⟨hy, ih', ?_⟩
        intro a ha b hb'
        obtain ⟨z, hz, hbz⟩ := List.mem_flatMap.mp hb'
        obtain ⟨z0, hz0, ez⟩ := List.mem_map.mp hz
        by_cases ez0 : z0.name = nm
        · simp only [ez0, beq_self_eq_true, if_true] at ez
          rw [← ez, hCw] at hbz
          rcases List.mem_append.mp hbz with h | h
          · have hz0c : z0 = c0 := nodup_map_inj (·.name) ys hn.2 z0 hz0 c0 hc0' (by rw [ez0, hc0n])
            exact hdis a ha b (List.mem_flatMap.mpr ⟨c0, hc0', h⟩)
          · have h1 := hb y List.mem_cons_self a ha
            have h2 := (hrange b h).1
            omega
        · simp only [show (z0.name == nm) = false by simp [ez0], Bool.false_eq_true, if_false] at ez
          rw [← ez] at hbz
          exact hdis a ha b (List.mem_flatMap.mpr ⟨z0, hz0, hbz⟩)
  · intro c hc w hw
    obtain ⟨y, hy, e⟩ := List.mem_map.mp hc
    by_cases ey : y.name = nm
    · simp only [ey, beq_self_eq_true, if_true] at e
      rw [← e, hCw] at hw
      rcases List.mem_append.mp hw with h | h
      · have hyc : y = c0 := nodup_map_inj (·.name) cs hn y hy c0 hc0 (by rw [ey, hc0n])
        have := hb c0 hc0 w h; omega
      · exact (hrange w h).2
    · simp only [show (y.name == nm) = false by simp [ey], Bool.false_eq_true, if_false] at e
      rw [← e] at hw
      have := hb y hy w hw; omega

theorem declStep_WF (d : Def) (n : Nat) (p : PDecl) (d' : Def) (n' : Nat) (h : WF d n)
    (hs : declStep d n p = some (d', n')) : WF d' n' := by
  unfold declStep at hs
  split at hs
  · rename_i k c0 hk hc
    split at hs
    · rename_i w0 w0' hp0 hc0
      split at hs
      · rename_i hcond
        simp only [Option.some.injEq, Prod.mk.injEq] at hs
        obtain ⟨e1, e2⟩ := hs
        subst e1 e2
        obtain ⟨⟨hn, hf⟩, hb⟩ := h
        have hc0m := List.mem_of_find?_eq_some hc
        have hc0n : c0.name = p.name := by simpa using List.find?_some hc
        obtain ⟨g1, g2, g3⟩ := WF_grow p.name (ids n (stubExtra p.rng)) n (n + stubExtra p.rng) d.cables c0
          (grownCable c0 p.rng n) hn hf hb hc0m hc0n hc0n rfl (ids_nodup _ _)
          (fun w hw => ⟨ids_ge _ _ _ hw, ids_lt _ _ _ hw⟩) (by omega)
        exact ⟨⟨g1, g2⟩, g3⟩
      · cases hs
    · cases hs
  · cases hs

theorem wireStep_WF (d : Def) (n : Nat) (w : FWire) (d' : Def) (n' : Nat) (h : WF d n)
    (hs : wireStep d n w = some (d', n')) : WF d' n' := by
  unfold wireStep at hs
  split at hs
  · rename_i hc
    simp only [Option.some.injEq, Prod.mk.injEq] at hs
    obtain ⟨e1, e2⟩ := hs
    subst e1 e2
    exact WF_append d n (wireCable w n) _ h hc rfl
  · rename_i c hc
    split at hs
    · simp only [Option.some.injEq, Prod.mk.injEq] at hs
      obtain ⟨e1, e2⟩ := hs
      subst e1 e2
      obtain ⟨⟨hn, hf⟩, hb⟩ := h
      have hcm := List.mem_of_find?_eq_some hc
      have hcn : c.name = w.name := by simpa using List.find?_some hc
      obtain ⟨g1, g2, g3⟩ := WF_grow w.name [] n n d.cables c { c with ctype := some w.ty, attrs := some w.attrs }
        hn hf hb hcm hcn hcn (by simp) List.nodup_nil (by intro x hx; cases hx) (Nat.le_refl _)
      exact ⟨⟨g1, g2⟩, g3⟩
    · cases hs

theorem foldLocal_inv {α : Type} (P : Def → Nat → Prop) (step : Def → Nat → α → Option (Def × Nat))
    (h : ∀ d n a d' n', P d n → step d n a = some (d', n') → P d' n') :
    ∀ (as : List α) (d : Def) (n : Nat) (d' : Def) (n' : Nat), P d n → foldLocal step d n as = some (d', n') → P d' n' := by
  intro as
  induction as with
  | nil => intro d n d' n' hp hf; simp only [foldLocal, Option.some.injEq, Prod.mk.injEq] at hf; rw [← hf.1, ← hf.2]; exact hp
  | cons a as ih =>
    intro d n d' n' hp hf
    unfold foldLocal at hf
    cases hs : step d n a with
    | none => simp [hs] at hf
    | some r =>
      simp only [hs] at hf
      exact ih r.1 r.2 d' n' (h d n a r.1 r.2 hp (by rw [hs])) hf

theorem buildW3_WF (d0 : Def) (n : Nat) (ports : List PDecl) (wires : List FWire) (d3 : Def) (n3 : Nat)
    (h0 : WF d0 n) (hb : buildW3 d0 n ports wires = some (d3, n3)) : WF d3 n3 := by
  unfold buildW3 at hb
  cases h1 : foldLocal stubStep d0 n (ports.map (·.name)) with
  | none => simp [h1] at hb
  | some r1 =>
    simp only [h1] at hb
    split at hb
    · cases h2 : foldLocal declStep r1.1 r1.2 ports with
      | none => simp [h2] at hb
      | some r2 =>
        simp only [h2] at hb
        have w1 := foldLocal_inv WF stubStep stubStep_WF _ _ _ r1.1 r1.2 h0 (by rw [h1])
        have w2 := foldLocal_inv WF declStep declStep_WF _ _ _ r2.1 r2.2 w1 (by rw [h2])
        exact foldLocal_inv WF wireStep wireStep_WF _ _ _ d3 n3 w2 hb
    · cases hb

/-! ### the rows of the instances carry the value of the connected expressions -/

/-- row `row` of an instance is the value of `pe`, least significant bit on pin 0, free pins above -/
def RowDen (d : Def) (row : List (Option Nat)) (pe : PExpr) : Prop :=
  ∃ bs, evalExpr (envOf d) pe = some bs ∧ pinBits d row = lowAligned row.length bs ∧ bs.length ≤ row.length

theorem pinBits_some (d : Def) (ws : List Nat) : pinBits d (ws.map some) = ws.map (bitOf d) := by
  unfold pinBits
  rw [List.map_map]
  apply List.map_congr_left
  intro w _
  rfl

theorem rowDen_value (d : Def) (h : WInv d) (pe : PExpr) (ws : List Nat) (hw : exprWires d (toXE pe) = some ws) :
    RowDen d (ws.reverse.map some) pe := by
  obtain ⟨bs, he, hm⟩ := exprWires_bits d h pe ws hw
  have hlen : bs.length = ws.length := by
    have := congrArg List.length hm
    simpa using this.symm
  refine ⟨bs, he, ?_, by simp [hlen]⟩
  rw [pinBits_some, List.map_reverse, hm]
  simp [lowAligned, hlen]

theorem rowDen_empty (d : Def) (w : Nat) : RowDen d (List.replicate w none) .empty :=
  ⟨[], rfl, by simp [pinBits, lowAligned], by simp⟩

theorem toXE_empty (pe : PExpr) (h : toXE pe = .empty) : pe = .empty := by
  cases pe <;> simp [toXE] at h ⊢

/-- row by row -/
def AllDen (d : Def) : List (List (Option Nat)) → List PExpr → Prop
  | [], [] => True
  | r :: rs, p :: ps => RowDen d r p ∧ AllDen d rs ps
  | _, _ => False

/-- the first instance of a never-seen module: every row is the value of its expression -/
theorem firstStep_den (d : Def) (h : WInv d) : ∀ (pes : List (String × PExpr)) (acc r : List Port × List (List (Option Nat))),
    (pes.map (fun c => (c.1, toXE c.2))).foldlM (firstStep d) acc = some r →
    ∃ rows, r.2 = acc.2 ++ rows ∧ AllDen d rows (pes.map (·.2)) ∧
      r.1.map (·.name) = acc.1.map (·.name) ++ pes.map (fun c => some c.1) := by
  intro pes
  induction pes with
  | nil =>
    intro acc r hf
    simp only [List.map_nil, List.foldlM_nil, pure, Option.some.injEq] at hf
    subst hf
    exact ⟨[], by simp, trivial, by simp⟩
  | cons c cs ih =>
    intro acc r hf
    simp only [List.map_cons, List.foldlM_cons] at hf
    cases hs : firstStep d acc (c.1, toXE c.2) with
    | none => simp [hs] at hf
    | some a1 =>
      simp only [hs, Option.bind_eq_bind, Option.bind_some] at hf
      obtain ⟨rows, e1, e2, e3⟩ := ih a1 r hf
      unfold firstStep at hs
      split at hs
      · split at hs
        · rename_i he
          simp only [Option.some.injEq] at hs
          subst hs
          have hce : c.2 = .empty := toXE_empty c.2 he
          refine ⟨List.replicate 1 none :: rows, by simp [e1], ?_, by simp [e3, newPort]⟩
          simp only [List.map_cons]
          exact ⟨by rw [hce]; exact rowDen_empty d 1, e2⟩
        · cases hw : exprWires d (toXE c.2) with
          | none => simp [hw] at hs
          | some ws =>
            simp only [hw] at hs
            split at hs
            · simp only [Option.some.injEq] at hs
              subst hs
              refine ⟨ws.reverse.map some :: rows, by simp [e1], ?_, by simp [e3, newPort]⟩
              simp only [List.map_cons]
              exact ⟨rowDen_value d h c.2 ws hw, e2⟩
            · cases hs
      · cases hs

/-! later instances: `connStep` on the rows of an instance of a module whose ports exist -/

def Occupied (row : List (Option Nat)) : Prop := ∃ w rest, row = some w :: rest

/-- what is known of the connections made so far -/
def ConnInv (d rd : Def) (rows : List (List (Option Nat))) (done : List (String × PExpr)) : Prop :=
  (∀ row ∈ rows, RowShape d row) ∧
  ∀ c ∈ done, c.2 ≠ .empty → ∀ k, portIdx rd c.1 = some k → RowDen d (rows.getD k []) c.2 ∧ Occupied (rows.getD k [])

theorem pinBits_append (d : Def) (a b : List (Option Nat)) : pinBits d (a ++ b) = pinBits d a ++ pinBits d b := by
  simp [pinBits]

theorem pinBits_none (d : Def) (m : Nat) : pinBits d (List.replicate m none) = List.replicate m none := by
  simp [pinBits]

theorem connStep_den (d rd : Def) (h : WInv d) (rows rows' : List (List (Option Nat))) (done : List (String × PExpr))
    (c : String × PExpr) (inv : ConnInv d rd rows done) (hs : connStep d rd rows (c.1, toXE c.2) = some rows') :
    ConnInv d rd rows' (done ++ [c]) := by
  refine ⟨connStep_shape d rd rows rows' _ inv.1 hs, ?_⟩
  unfold connStep at hs
  split at hs
  · cases hs
  · rename_i k hk
    split at hs
    · rename_i hcond
      split at hs
      · -- empty expression: nothing changes
        rename_i he
        have hce : c.2 = .empty := toXE_empty c.2 he
        split at hs
        · simp only [Option.some.injEq] at hs
          subst hs
          intro c' hc' hne k' hk'
          rcases List.mem_append.mp hc' with e | e
          · exact inv.2 c' e hne k' hk'
          · simp only [List.mem_singleton] at e; rw [e] at hne; exact absurd hce hne
        · cases hs
      · split at hs
        · cases hs
        · rename_i ws hws
          split at hs
          · rename_i hc4
            obtain ⟨h1, _, h3, h4⟩ := hc4
            simp only [Option.some.injEq] at hs
            subst hs
            have hkl : k < rows.length := hcond.2
            have hold : rows.getD k [] ∈ rows := by
              rw [List.getD_eq_getElem?_getD, List.getElem?_eq_getElem hkl]; exact List.getElem_mem hkl
            obtain ⟨blk, m, hb, _⟩ := inv.1 _ hold
            have hblk : blk = [] := by
              cases blk with
              | nil => rfl
              | cons b bs =>
                exfalso
                rw [hb] at h4
                obtain ⟨n, hn⟩ : ∃ n, ws.length = n + 1 := ⟨ws.length - 1, by omega⟩
                rw [hn] at h4
                simp at h4
            subst hblk
            simp only [List.map_nil, List.nil_append] at hb
            have hm : ws.length ≤ m := by rw [hb] at h3; simpa using h3
            have hnew : (rows.set k (ws.reverse.map some ++ (rows.getD k []).drop ws.length)).getD k [] =
                ws.reverse.map some ++ List.replicate (m - ws.length) none := by
              rw [List.getD_eq_getElem?_getD, List.getElem?_set_self hkl, hb, List.drop_replicate]
              rfl
            intro c' hc' hne k' hk'
            rcases List.mem_append.mp hc' with e | e
            · obtain ⟨hden, hocc⟩ := inv.2 c' e hne k' hk'
              have hkk : k' ≠ k := by
                intro ekk
                rw [ekk, hb] at hocc
                obtain ⟨w, rest, hw⟩ := hocc
                cases m with
                | zero => simp at hw
                | succ m => simp [List.replicate_succ] at hw
              have hsame : (rows.set k (ws.reverse.map some ++ (rows.getD k []).drop ws.length)).getD k' [] = rows.getD k' [] := by
                rw [List.getD_eq_getElem?_getD, List.getElem?_set_ne (fun e => hkk e.symm), ← List.getD_eq_getElem?_getD]
              rw [hsame]
              exact ⟨hden, hocc⟩
            · simp only [List.mem_singleton] at e
              subst e
              have hkk : k' = k := by
                have : portIdx rd c'.1 = some k := hk
                rw [this] at hk'
                exact (Option.some.inj hk').symm
              subst hkk
              rw [hnew]
              obtain ⟨bs, he, hmm⟩ := exprWires_bits d h c'.2 ws hws
              have hlen : bs.length = ws.length := by
                have := congrArg List.length hmm
                simpa using this.symm
              constructor
              · refine ⟨bs, he, ?_, by simp; omega⟩
                rw [pinBits_append, pinBits_some, pinBits_none, List.map_reverse, hmm]
                simp [lowAligned, hlen]
              · obtain ⟨n, hn⟩ : ∃ n, ws.length = n + 1 := ⟨ws.length - 1, by omega⟩
                cases hr : ws.reverse with
                | nil => have := congrArg List.length hr; rw [List.length_reverse, List.length_nil] at this; omega
                | cons x xs => exact ⟨x, xs.map some ++ List.replicate (m - ws.length) none, by simp⟩
          · cases hs
    · cases hs

theorem connFold_den (d rd : Def) (h : WInv d) : ∀ (pes done : List (String × PExpr)) (rows rows' : List (List (Option Nat))),
    ConnInv d rd rows done → (pes.map (fun c => (c.1, toXE c.2))).foldlM (connStep d rd) rows = some rows' →
    ConnInv d rd rows' (done ++ pes) := by
  intro pes
  induction pes with
  | nil =>
    intro done rows rows' inv hf
    simp only [List.map_nil, List.foldlM_nil, pure, Option.some.injEq] at hf
    subst hf
    simpa using inv
  | cons c cs ih =>
    intro done rows rows' inv hf
    simp only [List.map_cons, List.foldlM_cons] at hf
    cases hs : connStep d rd rows (c.1, toXE c.2) with
    | none => simp [hs] at hf
    | some r1 =>
      simp only [hs, Option.bind_eq_bind, Option.bind_some] at hf
      have := ih (done ++ [c]) r1 rows' (connStep_den d rd h rows r1 done c inv hs) hf
      simpa using this

/-- an instance as the writer describes it: connection expressions in the writer's expression type -/
structure PInst where
  name : String
  mod : String
  params : Params
  attrs : Attrs
  conns : List (String × PExpr)

def PInst.toN (i : PInst) : NInst := ⟨i.name, i.mod, i.params, i.attrs, i.conns.map (fun c => (c.1, toXE c.2))⟩

/-- **instStep2_den.**  What one instance of the written module looks like in the table the reader builds, in BITS:
    the first instance of a module has one row per connection and row `k` is the value of the `k`-th expression
    (least significant bit on pin 0); a later instance has, on the port each non-empty connection names, the value
    of that expression, low-aligned, free pins above. -/
theorem instStep2_den (d : Def) (ls : List Def) (i : PInst) (d' : Def) (ls' : List Def) (h : WInv d)
    (hs : instStep2 d ls i.toN = some (d', ls')) :
    ∃ inst, d'.insts = d.insts ++ [inst] ∧ d'.cables = d.cables ∧ inst.name = i.name ∧ inst.ref = i.mod ∧
      inst.params = mergeP i.params ∧ inst.attrs = some i.attrs ∧
      match ls.find? (fun l => l.name == i.mod) with
      | none => AllDen d inst.pins (i.conns.map (·.2)) ∧
          ∃ L, ls' = ls ++ [L] ∧ L.name = i.mod ∧ L.ports.map (·.name) = i.conns.map (fun c => some c.1)
      | some rd => ls' = ls ∧ (∀ row ∈ inst.pins, RowShape d row) ∧
          ∀ c ∈ i.conns, c.2 ≠ .empty → ∀ k, portIdx rd c.1 = some k → RowDen d (inst.pins.getD k []) c.2 := by
  unfold instStep2 at hs
  split at hs
  · cases hf : ls.find? (fun l => l.name == i.toN.mod) with
    | some rd =>
      simp only [hf, Option.map_eq_some_iff] at hs
      obtain ⟨rows, hrows, hr⟩ := hs
      simp only [Prod.mk.injEq] at hr
      obtain ⟨e1, e2⟩ := hr
      subst e1 e2
      refine ⟨_, rfl, rfl, rfl, rfl, rfl, rfl, ?_⟩
      have hf' : ls.find? (fun l => l.name == i.mod) = some rd := hf
      rw [hf']
      simp only
      have inv0 : ConnInv d rd (rd.ports.map (fun p => List.replicate p.pins.length none)) [] := by
        refine ⟨?_, by intro c hc; cases hc⟩
        intro row hrow
        obtain ⟨p, _, e⟩ := List.mem_map.mp hrow
        exact ⟨[], p.pins.length, by rw [← e]; rfl, fun w hw => by cases hw⟩
      have := connFold_den d rd h i.conns [] _ rows inv0 hrows
      simp only [List.nil_append] at this
      exact ⟨trivial, this.1, fun c hc hne k hk => (this.2 c hc hne k hk).1⟩
    | none =>
      simp only [hf, Option.map_eq_some_iff] at hs
      obtain ⟨r, hr, he⟩ := hs
      simp only [Prod.mk.injEq] at he
      obtain ⟨e1, e2⟩ := he
      subst e1 e2
      refine ⟨_, rfl, rfl, rfl, rfl, rfl, rfl, ?_⟩
      have hf' : ls.find? (fun l => l.name == i.mod) = none := hf
      rw [hf']
      simp only
      obtain ⟨rows, h1, h2, h3⟩ := firstStep_den d h i.conns ([], []) r hr
      simp only [List.nil_append, List.map_nil] at h1 h3
      refine ⟨by rw [h1]; exact h2, _, rfl, rfl, h3⟩
  · cases hs

/-- **row_roundtrip.**  C04 for one row, across writer and reader: the expression the writer chooses for a pin vector of
    reader shape (connected block `blk`, `m` free pins above), looked up by the reader in a definition with the same
    cables and distinct wire ids, yields a row that is, in bits, exactly the connected block again (the free pins
    above it are re-created by the width of the port). -/
theorem row_roundtrip (d : Def) (h : WInv d) (blk : List Bit) (m : Nat)
    (hne : blk.map some ++ List.replicate m none ≠ []) (hv : ∀ b ∈ blk, ValidBit (envOf d) b)
    (pe : PExpr) (hpe : emitPortExpr (envOf d) (blk.map some ++ List.replicate m none) = some pe)
    (ws : List Nat) (hw : exprWires d (toXE pe) = some ws) :
    pinBits d (ws.reverse.map some) = blk.map some := by
  obtain ⟨e, h1, h2, _⟩ := emit_eval (envOf d) blk m hne hv
  rw [hpe] at h1
  have hpe' : pe = e := Option.some.inj h1
  subst hpe'
  obtain ⟨bs, he, hp, _⟩ := rowDen_value d h pe ws hw
  rw [h2] at he
  have hbs : bs = blk.reverse := (Option.some.inj he).symm
  subst hbs
  rw [hp]
  have hlen : (ws.reverse.map some).length = blk.reverse.length := by
    obtain ⟨bs', he', hm⟩ := exprWires_bits d h pe ws hw
    rw [h2] at he'
    have : bs' = blk.reverse := (Option.some.inj he').symm
    subst this
    have := congrArg List.length hm
    simpa using this
  rw [hlen]
  simp [lowAligned]
end Spydr.Verilog.Elab
