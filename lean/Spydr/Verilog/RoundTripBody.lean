/-
  Verilog engine — proof side, part 4: all instantiations (named port maps) of a module body.
-/
import Spydr.Verilog.RoundTripInst
namespace Spydr.Verilog.Elab
open Spydr.Verilog

theorem St.find_upd (s : St) (n m : String) (f : Def → Def) (hf : ∀ d, (f d).name = d.name) :
    (s.upd n f).find m = if m = n then (s.find m).map f else s.find m := by
  unfold St.upd St.find
  simp only
  induction s.defs with
  | nil => simp
  | cons d ds ih =>
    simp only [List.map_cons, List.find?_cons]
    by_cases e : d.name = n
    · simp only [e, beq_self_eq_true, if_true, hf]
      by_cases e2 : m = n
      · subst e2; simp
      · have : (n == m) = false := by simp; exact fun h => e2 h.symm
        simp only [this, e2, if_false] at ih ⊢
        exact ih
    · have hne : (d.name == n) = false := by simp [e]
      simp only [hne, Bool.false_eq_true, if_false]
      by_cases e3 : d.name = m
      · simp [e3]
        intro h; exact absurd (e3 ▸ h ▸ rfl : d.name = n) e
      · have : (d.name == m) = false := by simp [e3]
        simp only [this]
        exact ih

theorem Has.of_defs {s s' : St} {n : String} {d : Def} (h : s'.defs = s.defs) (hd : Has s n d) : Has s' n d := by
  unfold Has at hd ⊢; rw [h]; exact hd

theorem RowsFull.of_defs {s s' : St} {ref : String} {n : Nat} (h : s'.defs = s.defs) (hr : RowsFull s ref n) :
    RowsFull s' ref n := by
  unfold RowsFull at hr ⊢; rw [h]; exact hr

theorem find_of_defs {s s' : St} (h : s'.defs = s.defs) (n : String) : s'.find n = s.find n := by
  unfold St.find; rw [h]

/-- an instantiation with a named port map, as written in the source -/
structure NInst where
  name : String
  mod : String
  params : Params
  attrs : Attrs
  conns : List (String × XExpr)

def NInst.item (i : NInst) : Item :=
  .inst i.mod i.name i.params i.attrs true (i.conns.map (fun c => ((some c.1 : Option String), c.2)))

/-- the instance the reader builds for `i` inside definition `d` (pure) -/
def buildInst (lookup : String → Option Def) (d : Def) (i : NInst) : Option Inst :=
  match lookup i.mod with
  | none => none
  | some rd =>
    (i.conns.foldlM (connStep d rd) (rd.ports.map (fun p => List.replicate p.pins.length none))).map
      (fun rows => ⟨i.name, i.mod, mergeP i.params, some i.attrs, rows⟩)

theorem buildInst_congr (l l' : String → Option Def) (d d' : Def) (i : NInst) (hl : l' i.mod = l i.mod)
    (hc : d'.cables = d.cables) : buildInst l' d' i = buildInst l d i := by
  unfold buildInst
  rw [hl]
  cases l i.mod with
  | none => rfl
  | some rd => simp only [foldlM_connStep_cables d d' rd hc]

theorem mapM_option_congr {α β : Type} (f g : α → Option β) : ∀ (l : List α), (∀ x ∈ l, f x = g x) → l.mapM f = l.mapM g := by
  intro l
  induction l with
  | nil => intro _; rfl
  | cons a l ih =>
    intro h
    rw [List.mapM_cons, List.mapM_cons, h a List.mem_cons_self, ih (fun x hx => h x (List.mem_cons_of_mem _ hx))]

theorem instIdx_append_other (d : Def) (n : String) (i : Inst) (h : instIdx d n = none) (hne : i.name ≠ n) :
    instIdx { d with insts := d.insts ++ [i] } n = none := by
  unfold instIdx at h ⊢
  rw [List.findIdx?_eq_none_iff] at h ⊢
  intro x hx
  rcases List.mem_append.mp hx with hx | hx
  · exact h x hx
  · simp only [List.mem_singleton] at hx
    rw [hx]; simp [hne]

/-- **instances_fold.**  The instantiations (named port maps) of a module body, elaborated in order. -/
theorem instances_fold (dn : String) : ∀ (is : List NInst) (s : St) (d : Def) (built : List Inst),
    Has s dn d → (d.cables.map (·.name)).Nodup →
    (∀ i ∈ is, i.mod ≠ dn ∧ ∃ rd, Has s i.mod rd ∧ RowsFull s i.mod rd.ports.length) →
    (is.map (·.name)).Nodup → (∀ i ∈ is, instIdx d i.name = none) →
    is.mapM (buildInst s.find d) = some built →
    ∃ s', (is.map NInst.item).foldlM (fun s it => elabItem s dn false it) s = .ok s' ∧
      s'.defs = s.defs.map (fun x => if x.name == dn then { x with insts := x.insts ++ built } else x) ∧
      s'.next = s.next ∧ s'.pending = s.pending ∧ s'.acount = s.acount := by
  intro is
  induction is with
  | nil =>
    intro s d built hd _ _ _ _ hb
    simp only [List.mapM_nil] at hb
    cases hb
    refine ⟨s, rfl, ?_, rfl, rfl, rfl⟩
    conv => lhs; rw [← List.map_id s.defs]
    apply List.map_congr_left
    intro x _
    by_cases e : x.name = dn
    · simp [e]; cases x; simp_all
    · simp [e]
  | cons i is ih =>
    intro s d built hd hcn hleaf hnd hfresh hb
    rw [List.mapM_cons] at hb
    obtain ⟨hmod, rd, hrd, hrf⟩ := hleaf i List.mem_cons_self
    cases hbi : buildInst s.find d i with
    | none => simp [hbi] at hb
    | some inst =>
      cases hbr : is.mapM (buildInst s.find d) with
      | none => simp [hbi, hbr] at hb
      | some rest =>
        simp only [hbi, hbr, Option.bind_eq_bind, Option.bind_some, pure, Option.some.injEq] at hb
        subst hb
        -- the first instantiation
        unfold buildInst at hbi
        rw [hrd.find] at hbi
        simp only at hbi
        cases hrows : i.conns.foldlM (connStep d rd) (rd.ports.map (fun p => List.replicate p.pins.length none)) with
        | none => simp [hrows] at hbi
        | some rows =>
          simp only [hrows, Option.map_some, Option.some.injEq] at hbi
          subst hbi
          obtain ⟨s1, h1, hdefs1, hn1, hp1, ha1, _⟩ := instantiate_named s dn i.mod i.name i.params i.attrs i.conns d rd rows
            hd hrd hmod hcn (hfresh i List.mem_cons_self) hrf hrows
          let g : Def → Def := fun x => { x with insts := x.insts ++ [⟨i.name, i.mod, mergeP i.params, some i.attrs, rows⟩] }
          have hg : ∀ x, (g x).name = x.name := fun _ => rfl
          have hdefs1' : s1.defs = (s.upd dn g).defs := hdefs1
          have hd1 : Has s1 dn (g d) := Has.of_defs hdefs1' (hd.upd g hg)
          have hleaf1 : ∀ j ∈ is, j.mod ≠ dn ∧ ∃ rd, Has s1 j.mod rd ∧ RowsFull s1 j.mod rd.ports.length := by
            intro j hj
            obtain ⟨hjm, rdj, hrdj, hrfj⟩ := hleaf j (List.mem_cons_of_mem _ hj)
            refine ⟨hjm, rdj, Has.of_defs hdefs1' (hrdj.upd_other g hg hjm), ?_⟩
            apply RowsFull.of_defs hdefs1'
            intro d' hd' k hk href
            unfold St.upd at hd'
            obtain ⟨x, hx, hxe⟩ := List.mem_map.mp hd'
            by_cases e : x.name = dn
            · simp only [e, beq_self_eq_true, if_true] at hxe
              rw [← hxe] at hk
              rcases List.mem_append.mp hk with h | h
              · exact hrfj x hx k h href
              · simp only [List.mem_singleton] at h
                rw [h] at href ⊢
                simp only at href ⊢
                have e2 : rdj = rd := by
                  have := hrdj.find; rw [← href, hrd.find] at this; exact (Option.some.inj this).symm
                rw [e2, foldlM_connStep_length d rd i.conns _ rows hrows]; simp
            · simp only [show (x.name == dn) = false by simp [e], Bool.false_eq_true, if_false] at hxe
              rw [← hxe] at hk
              exact hrfj x hx k hk href
          have hnd1 : (is.map (·.name)).Nodup := (List.nodup_cons.mp hnd).2
          have hfresh1 : ∀ j ∈ is, instIdx (g d) j.name = none := by
            intro j hj
            apply instIdx_append_other d j.name _ (hfresh j (List.mem_cons_of_mem _ hj))
            intro e
            exact (List.nodup_cons.mp hnd).1 (List.mem_map.mpr ⟨j, hj, e.symm⟩)
          have hb1 : is.mapM (buildInst s1.find (g d)) = some rest := by
            rw [← hbr]
            apply mapM_option_congr
            intro j hj
            apply buildInst_congr
            · rw [find_of_defs hdefs1', St.find_upd s dn j.mod g hg, if_neg (hleaf j (List.mem_cons_of_mem _ hj)).1]
            · rfl
          obtain ⟨s2, h2, hdefs2, hn2, hp2, ha2⟩ := ih s1 (g d) rest hd1 hcn hleaf1 hnd1 hfresh1 hb1
          refine ⟨s2, ?_, ?_, by rw [hn2, hn1], by rw [hp2, hp1], by rw [ha2, ha1]⟩
          · simp only [List.map_cons, List.foldlM_cons, bind, Except.bind]
            have : elabItem s dn false i.item = .ok s1 := h1
            rw [this]
            exact h2
          · rw [hdefs2, hdefs1, List.map_map]
            apply List.map_congr_left
            intro x _
            by_cases e : x.name = dn
            · simp [e]
            · simp [e]
end Spydr.Verilog.Elab
