/-
  Verilog engine — proof side, part 2: one named port-map entry of the whole-design elaboration, when the
  referenced module is declared, its port is based at 0 and wide enough, and the expression stays inside the
  declared cables: the table changes in exactly one instance row.
-/
import Spydr.Verilog.RoundTripState
namespace Spydr.Verilog.Elab
open Spydr.Verilog

theorem resizePort_inside (W n : Nat) (hn : 1 ≤ n) (hW : n ≤ W) :
    resizePort 0 W (some ((n : Int) - 1)) (some 0) false = ⟨0, 0, 0⟩ := by
  unfold resizePort inRange
  have h1 : min ((n : Int) - 1) 0 = 0 := by omega
  have h2 : max ((n : Int) - 1) 0 = (n : Int) - 1 := by omega
  simp only [h1, h2, Bool.false_eq_true, if_false]
  split
  · rfl
  · have a : ¬ (0 : Int) < 0 := by omega
    have b : ¬ ((n : Int) - 1 > 0 + (W : Int) - 1) := by omega
    simp [a]; intro; omega

theorem portIdx_lt {d : Def} {name : String} {k : Nat} (h : portIdx d name = some k) : k < d.ports.length := by
  unfold portIdx at h
  exact (List.findIdx?_eq_some_iff_findIdx_eq.mp h).1

/-- every instance of `ref` anywhere in the table has a row for each of the first `n` ports -/
def RowsFull (s : St) (ref : String) (n : Nat) : Prop :=
  ∀ d ∈ s.defs, ∀ i ∈ d.insts, i.ref = ref → n ≤ i.pins.length

theorem mapInstRows_id (s : St) (ref : String) (k : Nat) (f : List (Option Nat) → List (Option Nat))
    (hf : ∀ row, f row = row) (hr : RowsFull s ref (k + 1)) : mapInstRows s ref k f = s := by
  unfold mapInstRows
  have : s.defs.map (fun d => { d with insts := d.insts.map (fun i =>
      if i.ref == ref then
        let rows := i.pins ++ List.replicate (k + 1 - i.pins.length) []
        { i with pins := rows.set k (f (rows.getD k [])) }
      else i) }) = s.defs := by
    conv => rhs; rw [← List.map_id s.defs]
    apply List.map_congr_left
    intro d hd
    have : d.insts.map (fun i =>
      if i.ref == ref then
        let rows := i.pins ++ List.replicate (k + 1 - i.pins.length) []
        { i with pins := rows.set k (f (rows.getD k [])) }
      else i) = d.insts := by
      conv => rhs; rw [← List.map_id d.insts]
      apply List.map_congr_left
      intro i hi
      by_cases e : i.ref = ref
      · have hl := hr d hd i hi e
        have e0 : k + 1 - i.pins.length = 0 := by omega
        simp only [e, beq_self_eq_true, if_true, e0, List.replicate_zero, List.append_nil, hf, id]
        have : i.pins.set k (i.pins.getD k []) = i.pins := by
          apply List.ext_getElem?
          intro j
          by_cases ej : j = k
          · subst ej
            rw [List.getElem?_set_self (by omega)]
            simp [List.getD, List.getElem?_eq_getElem (show j < i.pins.length by omega)]
          · rw [List.getElem?_set_ne (by omega)]
        rw [this]; cases i; simp_all
      · simp [e]
    simp only [this, id]
  rw [this]

/-- an instance connection of `n ≤ W` bits on an existing port based at 0 leaves the table as it is -/
theorem createOrUpdatePort_inside (s : St) (ref pname : String) (rd : Def) (k n : Nat)
    (hd : Has s ref rd) (hk : portIdx rd pname = some k)
    (hlow : (rd.ports.getD k default).lower = 0) (hn : 1 ≤ n) (hW : n ≤ (rd.ports.getD k default).pins.length)
    (hr : RowsFull s ref (k + 1)) :
    createOrUpdatePort s ref pname (some ((n : Int) - 1)) (some 0) none false = .ok s := by
  unfold createOrUpdatePort
  rw [getDef_has hd]
  simp only [bind, Except.bind, hk, hlow, resizePort_inside _ n hn hW, pure, Except.pure]
  have hklt := portIdx_lt hk
  have hp : ∀ (p : Port), p.lower = 0 →
      ({ p with lower := 0, pins := List.replicate 0 none ++ p.pins ++ List.replicate 0 none, dir := p.dir } : Port) = p := by
    intro p h; cases p; simp_all
  have hset : rd.ports.set k (rd.ports.getD k default) = rd.ports := by
    apply List.ext_getElem?
    intro j
    by_cases ej : j = k
    · subst ej
      rw [List.getElem?_set_self hklt]
      simp [List.getD, List.getElem?_eq_getElem hklt]
    · rw [List.getElem?_set_ne (by omega)]
  rw [hp (rd.ports.getD k default) hlow]
  have hu : s.upd ref (fun d => { d with ports := d.ports.set k (rd.ports.getD k default) }) = s := by
    apply St.upd_id' s ref _ rd hd
    rw [hset]
  rw [hu]
  exact congrArg Except.ok (mapInstRows_id s ref k _ (by intro row; simp) hr)

theorem St.upd_upd (s : St) (n : String) (f g : Def → Def) (hf : ∀ d, (f d).name = d.name) :
    (s.upd n f).upd n g = s.upd n (fun d => g (f d)) := by
  unfold St.upd
  simp only [List.map_map]
  congr 1
  apply List.map_congr_left
  intro d _
  by_cases e : d.name = n
  · simp [e, hf]
  · simp [e]

theorem Has.upd {s : St} {n : String} {d : Def} (h : Has s n d) (f : Def → Def) (hf : ∀ d, (f d).name = d.name) :
    Has (s.upd n f) n (f d) := by
  obtain ⟨hm, hn, hu⟩ := h
  refine ⟨?_, by rw [hf, hn], ?_⟩
  · unfold St.upd
    exact List.mem_map.mpr ⟨d, hm, by simp [hn]⟩
  · intro d' hd' hn'
    unfold St.upd at hd'
    obtain ⟨x, hx, hxe⟩ := List.mem_map.mp hd'
    by_cases e : x.name = n
    · simp only [e, beq_self_eq_true, if_true] at hxe
      rw [← hxe, hu x hx e]
    · simp only [show (x.name == n) = false by simp [e], Bool.false_eq_true, if_false] at hxe
      rw [← hxe] at hn'
      exact absurd hn' e

theorem Has.upd_other {s : St} {n m : String} {e : Def} (h : Has s m e) (f : Def → Def)
    (hf : ∀ d, (f d).name = d.name) (hne : m ≠ n) : Has (s.upd n f) m e := by
  obtain ⟨hm, hn, hu⟩ := h
  refine ⟨?_, hn, ?_⟩
  · unfold St.upd
    exact List.mem_map.mpr ⟨e, hm, by simp [hn, hne]⟩
  · intro d' hd' hn'
    unfold St.upd at hd'
    obtain ⟨x, hx, hxe⟩ := List.mem_map.mp hd'
    by_cases ex : x.name = n
    · simp only [ex, beq_self_eq_true, if_true] at hxe
      rw [← hxe, hf, ex] at hn'
      exact absurd hn'.symm hne
    · simp only [show (x.name == n) = false by simp [ex], Bool.false_eq_true, if_false] at hxe
      rw [← hxe] at hn' ⊢
      exact hu x hx hn'

/-- the table with the pin rows of instance number `ii` of `dn` replaced -/
def setRows (s : St) (dn : String) (ii : Nat) (i0 : Inst) (rows : List (List (Option Nat))) : St :=
  s.upd dn (fun d => { d with insts := d.insts.set ii { i0 with pins := rows } })

theorem instIdx_lt {d : Def} {n : String} {ii : Nat} (h : instIdx d n = some ii) : ii < d.insts.length := by
  unfold instIdx at h
  exact (List.findIdx?_eq_some_iff_findIdx_eq.mp h).1

theorem instIdx_set (d : Def) (iname : String) (ii : Nat) (i0 : Inst) (rows : List (List (Option Nat)))
    (h : instIdx d iname = some ii) (h0 : i0.name = iname) :
    instIdx { d with insts := d.insts.set ii { i0 with pins := rows } } iname = some ii := by
  unfold instIdx at h ⊢
  rw [List.findIdx?_eq_some_iff_getElem] at h ⊢
  obtain ⟨hlt, hp, hq⟩ := h
  refine ⟨by simpa using hlt, ?_, ?_⟩
  · simp [h0]
  · intro j hj
    have : j ≠ ii := by omega
    simp only [List.getElem_set_ne (Ne.symm this)]
    exact hq j hj

theorem atomWires_cables (d d' : Def) (h : d'.cables = d.cables) (a : XAtom) : atomWires d' a = atomWires d a := by
  unfold atomWires; rw [h]

theorem exprWires_cables (d d' : Def) (h : d'.cables = d.cables) (e : XExpr) : exprWires d' e = exprWires d e := by
  cases e with
  | empty => rfl
  | atom a => exact atomWires_cables d d' h a
  | cat as =>
    simp only [exprWires]
    induction as with
    | nil => rfl
    | cons a as ih => simp only [atomsWires, atomWires_cables d d' h a, ih]

theorem namedConn_step (s : St) (dn ref iname pname : String) (d rd : Def) (ii k : Nat) (i0 : Inst)
    (rows : List (List (Option Nat))) (e : XExpr) (ws : List Nat)
    (hd : Has s dn d) (hrd : Has s ref rd) (hne : ref ≠ dn) (hcn : (d.cables.map (·.name)).Nodup)
    (hi : instIdx d iname = some ii) (h0 : i0.name = iname)
    (hk : portIdx rd pname = some k) (hlow : (rd.ports.getD k default).lower = 0)
    (hws : exprWires d e = some ws) (hemp : e ≠ .empty) (h1 : 1 ≤ ws.length)
    (hW : ws.length ≤ (rd.ports.getD k default).pins.length)
    (hrf : RowsFull (setRows s dn ii i0 rows) ref (k + 1))
    (hrow : ws.length ≤ (rows.getD k []).length)
    (hfree : ∀ j, j < ws.length → (rows.getD k [])[j]? = some none) :
    namedConn (setRows s dn ii i0 rows) dn iname ref pname e =
      .ok (setRows s dn ii i0 (rows.set k (ws.reverse.map some ++ (rows.getD k []).drop ws.length))) := by
  have hname : ∀ x : Def, ({ x with insts := x.insts.set ii { i0 with pins := rows } } : Def).name = x.name := fun _ => rfl
  have hd1 : Has (setRows s dn ii i0 rows) dn { d with insts := d.insts.set ii { i0 with pins := rows } } :=
    hd.upd _ hname
  have hrd1 : Has (setRows s dn ii i0 rows) ref rd := hrd.upd_other _ hname hne
  have hws1 : exprWires { d with insts := d.insts.set ii { i0 with pins := rows } } e = some ws := by
    exact (exprWires_cables d { d with insts := d.insts.set ii { i0 with pins := rows } } rfl e).trans hws
  have hev := evalExprE_fixed (setRows s dn ii i0 rows) dn e _ ws hd1 hcn hws1
  have hport := createOrUpdatePort_inside (setRows s dn ii i0 rows) ref pname rd k ws.length hrd1 hk hlow h1 hW hrf
  have hiilt := instIdx_lt hi
  have hconn : connectInstRow (setRows s dn ii i0 rows) dn iname k ws =
      .ok (setRows s dn ii i0 (rows.set k (ws.reverse.map some ++ (rows.getD k []).drop ws.length))) := by
    unfold connectInstRow
    rw [getDef_has hd1]
    simp only [bind, Except.bind, instIdx_set d iname ii i0 rows hi h0]
    have hget : (d.insts.set ii { i0 with pins := rows }).getD ii default = { i0 with pins := rows } := by
      simp [List.getD, List.getElem?_set_self hiilt]
    simp only [hget, connect_low_aligned (rows.getD k []) ws hrow hfree, pure, Except.pure]
    unfold setRows
    rw [St.upd_upd _ _ _ _ hname]
    simp only [List.set_set]
  cases e with
  | empty => exact absurd rfl hemp
  | atom a =>
    simp only [namedConn, bind, Except.bind, hev, hport, getDef_has hrd1, hk]
    exact hconn
  | cat as =>
    simp only [namedConn, bind, Except.bind, hev, hport, getDef_has hrd1, hk]
    exact hconn
end Spydr.Verilog.Elab
