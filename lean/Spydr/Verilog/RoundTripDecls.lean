/-
  Verilog engine — proof side, part 6: the ANSI header and the wire declarations of a module, as folds.
-/
import Spydr.Verilog.RoundTripHeader
namespace Spydr.Verilog.Elab
open Spydr.Verilog

structure FPort where
  name : String
  dir : Dir
  rng : Option (Int × Int)

def FPort.hport (p : FPort) : HPort := ⟨p.name, some p.dir, p.rng, none⟩

/-- ports and their cables, wires numbered from `n` (pure) -/
def buildPorts : List FPort → Nat → List Port × List Cable × Nat
  | [], n => ([], [], n)
  | p :: ps, n =>
    let r := buildPorts ps (n + (shapeOf p.rng).2.1)
    (wiredPort p.name p.dir (shapeOf p.rng).1 (shapeOf p.rng).2.2 (ids n (shapeOf p.rng).2.1) :: r.1,
     portCable p.name (shapeOf p.rng).1 (shapeOf p.rng).2.2 (ids n (shapeOf p.rng).2.1) :: r.2.1, r.2.2)

theorem portIdx_append_other (d : Def) (n : String) (p : Port) (h : portIdx d n = none) (hne : p.name ≠ some n) :
    portIdx { d with ports := d.ports ++ [p] } n = none := by
  unfold portIdx at h ⊢
  rw [List.findIdx?_eq_none_iff] at h ⊢
  intro x hx
  rcases List.mem_append.mp hx with hx | hx
  · exact h x hx
  · simp only [List.mem_singleton] at hx
    rw [hx]; simp [hne]

theorem find_append_other (cs : List Cable) (n : String) (c : Cable) (h : cs.find? (fun c => c.name == n) = none)
    (hne : c.name ≠ n) : (cs ++ [c]).find? (fun c => c.name == n) = none := by
  rw [List.find?_append, h]
  simp [hne]

theorem NoRef.of_defs {s s' : St} {n : String} (h : s'.defs = s.defs) (hr : NoRef s n) : NoRef s' n := by
  unfold NoRef at hr ⊢; rw [h]; exact hr

/-- **header_fold.**  The ANSI header of a module that nobody instances yet. -/
theorem header_fold (dn : String) : ∀ (ps : List FPort) (s : St) (d : Def),
    Has s dn d → NoRef s dn →
    (∀ p ∈ ps, portIdx d p.name = none ∧ d.cables.find? (fun c => c.name == p.name) = none) →
    (ps.map (·.name)).Nodup →
    (ps.map FPort.hport).foldlM (fun s h => match h.alias with
        | some e => headerAlias s dn h e
        | none => headerPort s dn h) s =
      .ok (withNext (s.upd dn (fun x => { x with ports := x.ports ++ (buildPorts ps s.next).1,
                                                 cables := x.cables ++ (buildPorts ps s.next).2.1 }))
            (buildPorts ps s.next).2.2) := by
  intro ps
  induction ps with
  | nil =>
    intro s d hd _ _ _
    simp only [List.map_nil, List.foldlM_nil, buildPorts, List.append_nil, pure, Except.pure]
    congr 1
    have : s.upd dn (fun x => { x with ports := x.ports, cables := x.cables }) = s :=
      St.upd_id' s dn _ d hd (by cases d; rfl)
    rw [this]; rfl
  | cons p ps ih =>
    intro s d hd hnr hfr hnd
    obtain ⟨hp, hc⟩ := hfr p List.mem_cons_self
    simp only [List.map_cons, List.foldlM_cons, bind, Except.bind, FPort.hport]
    have h1 := headerPort_new s dn d p.name p.dir p.rng hd hp hc hnr
    rw [h1]
    -- the state after the first port
    generalize hg : (fun (x : Def) => ({ x with
        ports := x.ports ++ [wiredPort p.name p.dir (shapeOf p.rng).1 (shapeOf p.rng).2.2 (ids s.next (shapeOf p.rng).2.1)],
        cables := x.cables ++ [portCable p.name (shapeOf p.rng).1 (shapeOf p.rng).2.2 (ids s.next (shapeOf p.rng).2.1)] } : Def)) = g
    have hgn : ∀ x, (g x).name = x.name := by intro x; rw [← hg]
    have hgi : ∀ x, (g x).insts = x.insts := by intro x; rw [← hg]
    have hd1 : Has (withNext (s.upd dn g) (s.next + (shapeOf p.rng).2.1)) dn (g d) := Has.of_defs rfl (hd.upd g hgn)
    have hnr1 : NoRef (withNext (s.upd dn g) (s.next + (shapeOf p.rng).2.1)) dn :=
      NoRef.of_defs rfl (NoRef_upd s dn dn g hgi hnr)
    have hfr1 : ∀ q ∈ ps, portIdx (g d) q.name = none ∧ (g d).cables.find? (fun c => c.name == q.name) = none := by
      intro q hq
      obtain ⟨hqp, hqc⟩ := hfr q (List.mem_cons_of_mem _ hq)
      have hne : p.name ≠ q.name := by
        intro e
        exact (List.nodup_cons.mp hnd).1 (List.mem_map.mpr ⟨q, hq, e.symm⟩)
      rw [← hg]
      exact ⟨portIdx_append_other d q.name _ hqp (by simp [wiredPort, hne]),
        find_append_other d.cables q.name _ hqc (by simp [portCable, hne])⟩
    have := ih (withNext (s.upd dn g) (s.next + (shapeOf p.rng).2.1)) (g d) hd1 hnr1 hfr1 (List.nodup_cons.mp hnd).2
    dsimp only
    rw [this]
    have hwn : ∀ (S : St) (n : Nat) (m : String) (f : Def → Def), (withNext S n).upd m f = withNext (S.upd m f) n :=
      fun _ _ _ _ => rfl
    have hww : ∀ (S : St) (a b : Nat), withNext (withNext S a) b = withNext S b := fun _ _ _ => rfl
    have hnx : (withNext (s.upd dn g) (s.next + (shapeOf p.rng).2.1)).next = s.next + (shapeOf p.rng).2.1 := rfl
    rw [hnx, hwn, hww, St.upd_upd _ _ _ _ hgn]
    simp only [buildPorts]
    congr 1
    congr 1
    apply congrArg (St.upd s dn)
    funext x
    rw [← hg]
    simp [List.append_assoc]

structure FWire where
  name : String
  ty : String
  rng : Option (Int × Int)
  attrs : Attrs

def FWire.item (w : FWire) : Item := .wireDecl w.ty w.rng w.name w.attrs

def wireCable (w : FWire) (n : Nat) : Cable :=
  ⟨w.name, (shapeOf w.rng).1, (shapeOf w.rng).2.2, ids n (shapeOf w.rng).2.1, some w.ty, some w.attrs⟩

def buildWires : List FWire → Nat → List Cable × Nat
  | [], n => ([], n)
  | w :: ws, n =>
    let r := buildWires ws (n + (shapeOf w.rng).2.1)
    (wireCable w n :: r.1, r.2)

theorem St.ext' (a b : St) (h1 : a.defs = b.defs) (h2 : a.next = b.next) (h3 : a.top = b.top)
    (h4 : a.acount = b.acount) (h5 : a.pending = b.pending) : a = b := by
  cases a; cases b; simp_all

def addWire (c : Cable) : Def → Def := fun d => { d with cables := d.cables ++ [c] }
def attrWire (name : String) (a : Attrs) : Def → Def := fun d =>
  { d with cables := d.cables.map (fun x => if x.name == name then { x with attrs := some a } else x) }

theorem wireDecl_new (s : St) (dn : String) (d : Def) (w : FWire)
    (hd : Has s dn d) (hc : d.cables.find? (fun c => c.name == w.name) = none) :
    elabItem s dn false w.item =
      .ok (withNext (s.upd dn (fun x => { x with cables := x.cables ++ [wireCable w s.next] })) (s.next + (shapeOf w.rng).2.1)) := by
  unfold FWire.item elabItem
  simp only [Bool.false_eq_true, if_false, bind, Except.bind]
  unfold createOrUpdateCable
  rw [getDef_has hd]
  simp only [bind, Except.bind, hc, fresh_eq, pure, Except.pure]
  congr 1
  unfold setCableAttrs
  refine St.ext' _ _ ?_ ?_ ?_ ?_ ?_ <;> try rfl
  show ((s.upd dn (addWire ⟨w.name, (shapeOf w.rng).1, (shapeOf w.rng).2.2, ids s.next (shapeOf w.rng).2.1, some w.ty, none⟩)).upd dn
      (attrWire w.name w.attrs)).defs = (s.upd dn (fun x => { x with cables := x.cables ++ [wireCable w s.next] })).defs
  rw [St.upd_upd s dn (addWire _) _ (fun x => rfl)]
  apply congrArg St.defs
  apply St.upd_congr s dn _ _ d hd
  simp only [addWire, attrWire, List.map_append, List.map_cons, List.map_nil]
  have hold : d.cables.map (fun x => if x.name == w.name then { x with attrs := some w.attrs } else x) = d.cables := by
    conv => rhs; rw [← List.map_id d.cables]
    apply List.map_congr_left
    intro x hx
    have := List.find?_eq_none.mp hc x hx
    simp only [this, Bool.false_eq_true, if_false, id]
  rw [hold]
  simp [wireCable]

/-- **wires_fold.**  The wire / reg declarations of a module body (new names). -/
theorem wires_fold (dn : String) : ∀ (ws : List FWire) (s : St) (d : Def),
    Has s dn d → (∀ w ∈ ws, d.cables.find? (fun c => c.name == w.name) = none) → (ws.map (·.name)).Nodup →
    (ws.map FWire.item).foldlM (fun s it => elabItem s dn false it) s =
      .ok (withNext (s.upd dn (fun x => { x with cables := x.cables ++ (buildWires ws s.next).1 })) (buildWires ws s.next).2) := by
  intro ws
  induction ws with
  | nil =>
    intro s d hd _ _
    simp only [List.map_nil, List.foldlM_nil, buildWires, List.append_nil, pure, Except.pure]
    congr 1
    have : s.upd dn (fun x => { x with cables := x.cables }) = s := St.upd_id' s dn _ d hd (by cases d; rfl)
    rw [this]; rfl
  | cons w ws ih =>
    intro s d hd hfr hnd
    simp only [List.map_cons, List.foldlM_cons, bind, Except.bind]
    rw [wireDecl_new s dn d w hd (hfr w List.mem_cons_self)]
    dsimp only
    generalize hg : (fun (x : Def) => ({ x with cables := x.cables ++ [wireCable w s.next] } : Def)) = g
    have hgn : ∀ x, (g x).name = x.name := by intro x; rw [← hg]
    have hd1 : Has (withNext (s.upd dn g) (s.next + (shapeOf w.rng).2.1)) dn (g d) := Has.of_defs rfl (hd.upd g hgn)
    have hfr1 : ∀ v ∈ ws, (g d).cables.find? (fun c => c.name == v.name) = none := by
      intro v hv
      have hne : w.name ≠ v.name := by
        intro e
        exact (List.nodup_cons.mp hnd).1 (List.mem_map.mpr ⟨v, hv, e.symm⟩)
      rw [← hg]
      exact find_append_other d.cables v.name _ (hfr v (List.mem_cons_of_mem _ hv)) (by simp [wireCable, hne])
    rw [ih (withNext (s.upd dn g) (s.next + (shapeOf w.rng).2.1)) (g d) hd1 hfr1 (List.nodup_cons.mp hnd).2]
    have hwn : ∀ (S : St) (n : Nat) (m : String) (f : Def → Def), (withNext S n).upd m f = withNext (S.upd m f) n :=
      fun _ _ _ _ => rfl
    have hww : ∀ (S : St) (a b : Nat), withNext (withNext S a) b = withNext S b := fun _ _ _ => rfl
    have hnx : (withNext (s.upd dn g) (s.next + (shapeOf w.rng).2.1)).next = s.next + (shapeOf w.rng).2.1 := rfl
    rw [hnx, hwn, hww, St.upd_upd _ _ _ _ hgn]
    simp only [buildWires]
    congr 1
    congr 1
    apply congrArg (St.upd s dn)
    funext x
    rw [← hg]
    simp [List.append_assoc]
end Spydr.Verilog.Elab
