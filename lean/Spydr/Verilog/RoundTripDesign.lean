/-
  Verilog engine — proof side, part 8: a whole fragment design through the real elabDesign.
-/
import Spydr.Verilog.RoundTripModule
namespace Spydr.Verilog.Elab
open Spydr.Verilog

/-- side conditions of the fragment, decidable: fresh distinct module names, distinct port / wire / instance
    names, `celldefine` modules without body, every instantiated module declared earlier -/
def modsOK : List String → List FMod → Bool
  | _, [] => true
  | known, m :: ms =>
    !(known.contains m.name) &&
    decide ((m.ports.map (·.name) ++ m.wires.map (·.name)).Nodup) &&
    decide ((m.insts.map (·.name)).Nodup) &&
    (!m.prim || (m.wires.isEmpty && m.insts.isEmpty)) &&
    m.insts.all (fun i => known.contains i.mod) &&
    modsOK (known ++ [m.name]) ms

/-- the table the reader builds for the modules in order (pure) -/
def buildDesign : List FMod → List Def → Nat → Option (List Def)
  | [], acc, _ => some acc
  | m :: ms, acc, n =>
    match buildDef (fun nm => acc.find? (fun d => d.name == nm)) n m with
    | some (D, n') => buildDesign ms (acc ++ [D]) n'
    | none => none

/-- table invariant between modules -/
structure TInv (s : St) : Prop where
  nodup : (s.defs.map (·.name)).Nodup
  closed : ∀ d ∈ s.defs, ∀ i ∈ d.insts, ∃ rd ∈ s.defs, rd.name = i.ref
  full : ∀ d ∈ s.defs, ∀ i ∈ d.insts, ∀ rd ∈ s.defs, rd.name = i.ref → rd.ports.length ≤ i.pins.length
  libs : ∀ d ∈ s.defs, d.lib.isSome = true
  pend : s.pending = []

theorem Has_of_mem (s : St) (hn : (s.defs.map (·.name)).Nodup) (d : Def) (hd : d ∈ s.defs) : Has s d.name d :=
  ⟨hd, rfl, fun d' hd' e => nodup_map_inj (·.name) s.defs hn d' hd' d hd e⟩

theorem buildInst_facts (l : String → Option Def) (d : Def) (i : NInst) (inst : Inst) (h : buildInst l d i = some inst) :
    inst.ref = i.mod ∧ ∃ rd, l i.mod = some rd ∧ inst.pins.length = rd.ports.length := by
  unfold buildInst at h
  cases hl : l i.mod with
  | none => simp [hl] at h
  | some rd =>
    simp only [hl] at h
    cases hr : i.conns.foldlM (connStep d rd) (rd.ports.map (fun p => List.replicate p.pins.length none)) with
    | none => simp [hr] at h
    | some rows =>
      simp only [hr, Option.map_some, Option.some.injEq] at h
      subst h
      refine ⟨rfl, rd, rfl, ?_⟩
      rw [foldlM_connStep_length d rd i.conns _ rows hr]; simp

theorem mapM_mem {α β : Type} (f : α → Option β) : ∀ (l : List α) (r : List β), l.mapM f = some r →
    ∀ y ∈ r, ∃ x ∈ l, f x = some y := by
  intro l
  induction l with
  | nil => intro r h y hy; simp at h; subst h; cases hy
  | cons a l ih =>
    intro r h y hy
    rw [List.mapM_cons] at h
    cases ha : f a with
    | none => simp [ha] at h
    | some b =>
      cases hr : l.mapM f with
      | none => simp [ha, hr] at h
      | some r' =>
        simp only [ha, hr, Option.bind_eq_bind, Option.bind_some, pure, Option.some.injEq] at h
        subst h
        rcases List.mem_cons.mp hy with e | e
        · exact ⟨a, List.mem_cons_self, by rw [e]; exact ha⟩
        · obtain ⟨x, hx, hfx⟩ := ih r' hr y e
          exact ⟨x, List.mem_cons_of_mem _ hx, hfx⟩

theorem find_none_of_not_contains (s : St) (n : String) (h : (s.defs.map (·.name)).contains n = false) :
    s.find n = none := by
  unfold St.find
  apply List.find?_eq_none.mpr
  intro d hd hc
  have e : d.name = n := by simpa using hc
  have : n ∈ s.defs.map (·.name) := by rw [← e]; exact List.mem_map_of_mem hd
  have := List.contains_iff_mem.mpr this
  simp_all

theorem mem_of_contains (s : St) (n : String) (h : (s.defs.map (·.name)).contains n = true) :
    ∃ rd ∈ s.defs, rd.name = n := by
  have := List.contains_iff_mem.mp h
  obtain ⟨rd, hrd, e⟩ := List.mem_map.mp this
  exact ⟨rd, hrd, e⟩

/-- one module of the fragment keeps the table invariant -/
theorem design_step (s : St) (m : FMod) (D : Def) (n' : Nat) (inv : TInv s)
    (hnew : (s.defs.map (·.name)).contains m.name = false)
    (hwn : (m.ports.map (·.name) ++ m.wires.map (·.name)).Nodup)
    (hin : (m.insts.map (·.name)).Nodup)
    (hprim : m.prim = true → m.wires = [] ∧ m.insts = [])
    (hknown : ∀ i ∈ m.insts, (s.defs.map (·.name)).contains i.mod = true)
    (hb : buildDef s.find s.next m = some (D, n')) :
    ∃ s', elabModule s m.toModule = .ok s' ∧ s'.defs = s.defs ++ [D] ∧ s'.next = n' ∧ TInv s' := by
  have hfresh := find_none_of_not_contains s m.name hnew
  have hne := find_none_names s m.name hfresh
  have hnr : NoRef s m.name := by
    intro d hd i hi e
    obtain ⟨rd, hrd, hr⟩ := inv.closed d hd i hi
    exact hne rd hrd (hr.trans e)
  have hleaf : ∀ i ∈ m.insts, i.mod ≠ m.name ∧ ∃ rd, Has s i.mod rd ∧ RowsFull s i.mod rd.ports.length := by
    intro i hi
    obtain ⟨rd, hrd, e⟩ := mem_of_contains s i.mod (hknown i hi)
    refine ⟨fun h => hne rd hrd (e.trans h), rd, ?_, ?_⟩
    · rw [← e]; exact Has_of_mem s inv.nodup rd hrd
    · intro d hd j hj hr
      exact inv.full d hd j hj rd hrd (e.trans hr.symm)
  obtain ⟨s', h1, h2, h3, h4⟩ := elabModule_frag s m D n' hfresh hnr hleaf hwn hin hprim hb
  refine ⟨s', h1, h2, h3, ?_⟩
  -- facts about D
  unfold buildDef at hb
  simp only [Option.map_eq_some_iff] at hb
  obtain ⟨built, hbm, hD⟩ := hb
  have hDn : D.name = m.name := by
    have := congrArg (fun x => x.1.name) hD; simpa using this.symm
  have hDl : D.lib.isSome = true := by
    have := congrArg (fun x => x.1.lib) hD; simp at this; rw [← this]; rfl
  have hDi : D.insts = built := by
    have := congrArg (fun x => x.1.insts) hD; simpa using this.symm
  have hfacts : ∀ j ∈ D.insts, ∃ rd ∈ s.defs, rd.name = j.ref ∧ j.pins.length = rd.ports.length := by
    intro j hj
    rw [hDi] at hj
    obtain ⟨i, hi, hbi⟩ := mapM_mem _ _ _ hbm j hj
    obtain ⟨hr, rd, hl, hlen⟩ := buildInst_facts _ _ _ _ hbi
    have hmem := List.mem_of_find?_eq_some hl
    have hnm : rd.name = i.mod := by simpa using List.find?_some hl
    exact ⟨rd, hmem, hnm.trans hr.symm, hlen⟩
  constructor
  · rw [h2, List.map_append, List.nodup_append]
    refine ⟨inv.nodup, by simp, ?_⟩
    intro a ha b hb
    simp only [List.map_cons, List.map_nil, List.mem_singleton] at hb
    obtain ⟨d, hd, e⟩ := List.mem_map.mp ha
    intro hab
    exact hne d hd (by rw [e, hab, hb, hDn])
  · intro d hd i hi
    rw [h2] at hd ⊢
    rcases List.mem_append.mp hd with hd | hd
    · obtain ⟨rd, hrd, e⟩ := inv.closed d hd i hi
      exact ⟨rd, List.mem_append_left _ hrd, e⟩
    · simp only [List.mem_singleton] at hd; subst hd
      obtain ⟨rd, hrd, e, _⟩ := hfacts i hi
      exact ⟨rd, List.mem_append_left _ hrd, e⟩
  · intro d hd0 i hi rd hrd0 e
    rw [h2] at hd0 hrd0
    rcases List.mem_append.mp hd0 with hd | hd
    · rcases List.mem_append.mp hrd0 with hrd | hrd
      · exact inv.full d hd i hi rd hrd e
      · simp only [List.mem_singleton] at hrd
        exact absurd (e.symm.trans ((congrArg Def.name hrd).trans hDn)) (hnr d hd i hi)
    · simp only [List.mem_singleton] at hd
      rw [hd] at hi
      obtain ⟨rd', hrd', e', hlen⟩ := hfacts i hi
      rcases List.mem_append.mp hrd0 with hrd | hrd
      · have : rd = rd' := nodup_map_inj (·.name) s.defs inv.nodup rd hrd rd' hrd' (e.trans e'.symm)
        rw [this, hlen]; exact Nat.le_refl _
      · simp only [List.mem_singleton] at hrd
        exact absurd (e'.trans (e.symm.trans ((congrArg Def.name hrd).trans hDn))) (hne rd' hrd')
  · intro d hd
    rw [h2] at hd
    rcases List.mem_append.mp hd with hd | hd
    · exact inv.libs d hd
    · simp only [List.mem_singleton] at hd; subst hd; exact hDl
  · rw [h4]; exact inv.pend

theorem design_fold : ∀ (ms : List FMod) (s : St) (defs : List Def), TInv s →
    modsOK (s.defs.map (·.name)) ms = true → buildDesign ms s.defs s.next = some defs →
    ∃ s', (ms.map FMod.toModule).foldlM elabModule s = .ok s' ∧ s'.defs = defs ∧ TInv s' := by
  intro ms
  induction ms with
  | nil =>
    intro s defs inv _ hb
    simp only [buildDesign, Option.some.injEq] at hb
    exact ⟨s, rfl, hb, inv⟩
  | cons m ms ih =>
    intro s defs inv hok hb
    simp only [modsOK, Bool.and_eq_true, Bool.not_eq_eq_eq_not, Bool.not_true, decide_eq_true_eq,
      Bool.or_eq_true, List.all_eq_true, List.isEmpty_iff] at hok
    obtain ⟨⟨⟨⟨⟨hnew, hwn⟩, hin⟩, hprim⟩, hknown⟩, hrest⟩ := hok
    unfold buildDesign at hb
    cases hbd : buildDef (fun nm => s.defs.find? (fun d => d.name == nm)) s.next m with
    | none => simp [hbd] at hb
    | some r =>
      obtain ⟨D, n'⟩ := r
      simp only [hbd] at hb
      have hprim' : m.prim = true → m.wires = [] ∧ m.insts = [] := by
        intro hp; rcases hprim with h | h
        · simp [hp] at h
        · exact h
      obtain ⟨s1, h1, h2, h3, inv1⟩ := design_step s m D n' inv hnew hwn hin hprim' hknown hbd
      have hD : D.name = m.name := by
        unfold buildDef at hbd
        simp only [Option.map_eq_some_iff] at hbd
        obtain ⟨_, _, hD⟩ := hbd
        have := congrArg (fun x => x.1.name) hD; simpa using this.symm
      have hok1 : modsOK (s1.defs.map (·.name)) ms = true := by
        rw [h2, List.map_append]; simpa [hD] using hrest
      rw [← h2, ← h3] at hb
      obtain ⟨s', h4, h5, inv'⟩ := ih s1 defs inv1 hok1 hb
      refine ⟨s', ?_, h5, inv'⟩
      simp only [List.map_cons, List.foldlM_cons, h1]
      exact h4

/-- **the fragment**, as a decidable predicate on the source: a list of flat modules in declaration order
    (leaves first) whose reader table `buildDesign` exists -/
def fragDesign (ms : List FMod) : Bool := modsOK [] ms && (buildDesign ms [] 0).isSome

/-- **C06, design level, fragment**: the real `elabDesign` on the modules of a fragment design ends without error
    and its definition table is exactly `buildDesign` — no black box is invented, nothing is left pending -/
theorem elabDesign_frag (ms : List FMod) (defs : List Def) (hok : modsOK [] ms = true)
    (hb : buildDesign ms [] 0 = some defs) :
    ∃ s, elabDesign (ms.map FMod.toModule) = .ok s ∧ s.defs = defs ∧ s.pending = [] := by
  have inv0 : TInv ⟨[], 0, none, 0, []⟩ :=
    ⟨List.nodup_nil, (fun d hd => by cases hd), (fun d hd => by cases hd), (fun d hd => by cases hd), rfl⟩
  obtain ⟨s', h1, h2, inv⟩ := design_fold ms ⟨[], 0, none, 0, []⟩ defs inv0 hok hb
  have hmap : s'.defs.map (fun (d : Def) =>
      if d.lib.isNone then { d with lib := some "hdi_primitives", primitive := true } else d) = s'.defs := by
    conv => rhs; rw [← List.map_id s'.defs]
    apply List.map_congr_left
    intro d hd
    have := inv.libs d hd
    cases hl : d.lib with
    | none => simp [hl] at this
    | some l => simp
  refine ⟨s', ?_, h2, inv.pend⟩
  unfold elabDesign
  simp only [bind, Except.bind, h1, hmap]
  have hp := inv.pend
  cases s' with
  | mk a b c d e =>
    simp only at hp
    subst hp
    rfl

/-- non-vacuity: a primitive with scalar pins, a black-box leaf with bus ports, and a top module that
    instantiates both with identifiers, bit selects, part selects, a concatenation and an unconnected pin -/
def exDesign : List FMod :=
  [ ⟨"LUT2", true, [⟨"I0", .inp, none⟩, ⟨"I1", .inp, none⟩, ⟨"O", .out, none⟩], [], []⟩,
    ⟨"ram", false, [⟨"addr", .inp, some (3, 0)⟩, ⟨"q", .out, some (1, 0)⟩], [], []⟩,
    ⟨"top", false,
      [⟨"a", .inp, some (3, 0)⟩, ⟨"b", .inp, none⟩, ⟨"y", .out, some (1, 0)⟩],
      [⟨"w", "wire", some (2, 0), []⟩, ⟨"n", "wire", none, [("keep", some "1")]⟩],
      [ ⟨"u0", "LUT2", [("INIT", "4'h8")], [], [("I0", .atom (.bit "a" 0)), ("I1", .atom (.id "b")), ("O", .atom (.id "n"))]⟩,
        ⟨"u1", "ram", [], [], [("addr", .cat [.part "w" 2 1, .bit "a" 3, .id "n"]), ("q", .atom (.id "y"))]⟩,
        ⟨"u2", "LUT2", [], [], [("I0", .atom (.bit "w" 0)), ("I1", .empty)]⟩ ]⟩ ]

theorem exDesign_frag : fragDesign exDesign = true := by decide
end Spydr.Verilog.Elab
