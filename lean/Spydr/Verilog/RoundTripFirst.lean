/-
  Verilog engine — proof side, part 12: the first instance of a module the file has not mentioned yet
  (`instantiate_first`): the reader creates the module with one port per named connection.
-/
import Spydr.Verilog.RoundTripWriter
set_option maxHeartbeats 400000
namespace Spydr.Verilog.Elab
open Spydr.Verilog

/-! ### the table while the only module of a file is read: the module, then the modules it uses -/

def S2 (d : Def) (leaves : List Def) (n : Nat) (top : Option String) : St := ⟨d :: leaves, n, top, 0, []⟩

theorem Has_S2_top (d : Def) (leaves : List Def) (n : Nat) (t : Option String)
    (h : ∀ l ∈ leaves, l.name ≠ d.name) : Has (S2 d leaves n t) d.name d := by
  refine ⟨List.mem_cons_self, rfl, ?_⟩
  intro x hx hn
  rcases List.mem_cons.mp hx with e | e
  · exact e
  · exact absurd hn (h x e)

theorem Has_S2_leaf (d : Def) (leaves : List Def) (n : Nat) (t : Option String) (L : Def)
    (hL : L ∈ leaves) (hne : d.name ≠ L.name) (hn : (leaves.map (·.name)).Nodup) : Has (S2 d leaves n t) L.name L := by
  refine ⟨List.mem_cons_of_mem _ hL, rfl, ?_⟩
  intro x hx hxn
  rcases List.mem_cons.mp hx with e | e
  · rw [e] at hxn; exact absurd hxn hne
  · exact nodup_map_inj (·.name) leaves hn x e L hL hxn

theorem upd_S2_top (d : Def) (leaves : List Def) (n : Nat) (t : Option String) (f : Def → Def)
    (h : ∀ l ∈ leaves, l.name ≠ d.name) : (S2 d leaves n t).upd d.name f = S2 (f d) leaves n t := by
  unfold St.upd S2
  simp only [List.map_cons, beq_self_eq_true, if_true]
  congr 2
  conv => rhs; rw [← List.map_id leaves]
  apply List.map_congr_left
  intro x hx
  simp [h x hx]

theorem upd_S2_last (d : Def) (ls : List Def) (L : Def) (n : Nat) (t : Option String) (f : Def → Def)
    (hne : d.name ≠ L.name) (h : ∀ l ∈ ls, l.name ≠ L.name) :
    (S2 d (ls ++ [L]) n t).upd L.name f = S2 d (ls ++ [f L]) n t := by
  unfold St.upd S2
  simp only [List.map_cons, List.map_append, List.map_nil, beq_self_eq_true, if_true]
  have h1 : (d.name == L.name) = false := by simp [hne]
  simp only [h1, Bool.false_eq_true, if_false]
  congr 3
  conv => rhs; rw [← List.map_id ls]
  apply List.map_congr_left
  intro x hx
  simp [h x hx]

/-- `mapInstRows` when only the module itself has instances -/
theorem mapInstRows_S2 (d : Def) (leaves : List Def) (n : Nat) (t : Option String) (ref : String) (k : Nat)
    (f : List (Option Nat) → List (Option Nat)) (hl : ∀ l ∈ leaves, l.insts = []) :
    mapInstRows (S2 d leaves n t) ref k f = S2 { d with insts := d.insts.map (fun i =>
      if i.ref == ref then
        let rows := i.pins ++ List.replicate (k + 1 - i.pins.length) []
        { i with pins := rows.set k (f (rows.getD k [])) }
      else i) } leaves n t := by
  unfold mapInstRows S2
  simp only [List.map_cons]
  congr 2
  conv => rhs; rw [← List.map_id leaves]
  apply List.map_congr_left
  intro x hx
  have := hl x hx
  cases x
  simp_all

def newPort (pname : String) (w : Nat) : Port := ⟨some pname, .undef, 0, true, List.replicate w none, none⟩

theorem populateNew_width (w : Nat) (h : 1 ≤ w) : populateNew (some ((w : Int) - 1)) (some 0) = (0, w, true) := by
  simp only [populateNew]
  have h1 : min ((w : Int) - 1) 0 = 0 := by omega
  have h2 : max ((w : Int) - 1) 0 = (w : Int) - 1 := by omega
  rw [h1, h2]
  refine Prod.ext rfl (Prod.ext ?_ ?_)
  · show ((w : Int) - 1 - 0 + 1).toNat = w; omega
  · show decide ((0 : Int) ≤ (w : Int) - 1) = true; simp; omega

/-- the new row `k` every instance of the grown module gets: here only the last instance refers to it -/
theorem rows_new (is : List Inst) (i : Inst) (ref : String) (k : Nat) (row : List (Option Nat))
    (hi : i.ref = ref) (hk : i.pins.length = k) (hn : ∀ j ∈ is, j.ref ≠ ref) :
    (is ++ [i]).map (fun j =>
      if j.ref == ref then
        let rows := j.pins ++ List.replicate (k + 1 - j.pins.length) []
        { j with pins := rows.set k ((fun _ => row) (rows.getD k [])) }
      else j) = is ++ [{ i with pins := i.pins ++ [row] }] := by
  rw [List.map_append]
  congr 1
  · conv => rhs; rw [← List.map_id is]
    apply List.map_congr_left
    intro j hj
    simp [hn j hj]
  · simp only [List.map_cons, List.map_nil, hi, beq_self_eq_true, if_true, hk]
    congr 2
    have : k + 1 - k = 1 := by omega
    rw [this]
    simp only [List.replicate_one]
    rw [List.set_append_right _ _ (by omega)]
    simp [hk]

/-- the state while the first instance `i` of the never-seen module `L` is being connected -/
def firstSt (d0 : Def) (i : Inst) (ls : List Def) (L : Def) (n : Nat) (t : Option String) : St :=
  S2 { d0 with insts := d0.insts ++ [i] } (ls ++ [L]) n t

structure FirstOK (d0 : Def) (i : Inst) (ls : List Def) (L : Def) : Prop where
  ref : i.ref = L.name
  fresh : instIdx d0 i.name = none
  others : ∀ j ∈ d0.insts, j.ref ≠ L.name
  rows : i.pins.length = L.ports.length
  linsts : L.insts = []
  lsinsts : ∀ l ∈ ls, l.insts = []
  lsname : ∀ l ∈ ls, l.name ≠ L.name ∧ l.name ≠ d0.name
  lsnodup : (ls.map (·.name)).Nodup
  ne : d0.name ≠ L.name
  cables : (d0.cables.map (·.name)).Nodup

theorem namedConn_first (d0 : Def) (i : Inst) (ls : List Def) (L : Def) (n : Nat) (t : Option String)
    (pname : String) (e : XExpr) (ws : List Nat) (ok : FirstOK d0 i ls L)
    (hp : portIdx L pname = none) (hws : exprWires d0 e = some ws) (hemp : e ≠ .empty) (h1 : 1 ≤ ws.length) :
    namedConn (firstSt d0 i ls L n t) d0.name i.name L.name pname e =
      .ok (firstSt d0 { i with pins := i.pins ++ [ws.reverse.map some] } ls
        { L with ports := L.ports ++ [newPort pname ws.length] } n t) := by
  generalize hd' : ({ d0 with insts := d0.insts ++ [i] } : Def) = d'
  have hd'n : d'.name = d0.name := by rw [← hd']
  have hleaves : ∀ l ∈ ls ++ [L], l.name ≠ d'.name := by
    intro l hl
    rw [hd'n]
    rcases List.mem_append.mp hl with h | h
    · exact (ok.lsname l h).2
    · simp only [List.mem_singleton] at h; rw [h]; exact fun e => ok.ne e.symm
  have hnodup : ((ls ++ [L]).map (·.name)).Nodup := by
    rw [List.map_append, List.nodup_append]
    refine ⟨ok.lsnodup, by simp, ?_⟩
    intro a ha b hb
    simp only [List.map_cons, List.map_nil, List.mem_singleton] at hb
    obtain ⟨l, hl, e⟩ := List.mem_map.mp ha
    rw [hb, ← e]; exact (ok.lsname l hl).1
  have hS : firstSt d0 i ls L n t = S2 d' (ls ++ [L]) n t := by unfold firstSt; rw [hd']
  have hHd : Has (S2 d' (ls ++ [L]) n t) d0.name d' := by rw [← hd'n]; exact Has_S2_top d' _ n t hleaves
  have hHL : Has (S2 d' (ls ++ [L]) n t) L.name L :=
    Has_S2_leaf d' _ n t L (by simp) (by rw [hd'n]; exact ok.ne) hnodup
  have hws' : exprWires d' e = some ws := (exprWires_cables d0 d' (by rw [← hd']) e).trans hws
  have hcn' : (d'.cables.map (·.name)).Nodup := by rw [← hd']; exact ok.cables
  have hev := evalExprE_fixed (S2 d' (ls ++ [L]) n t) d0.name e d' ws hHd hcn' hws'
  -- the new port
  generalize hL' : ({ L with ports := L.ports ++ [newPort pname ws.length] } : Def) = L'
  have hL'n : L'.name = L.name := by rw [← hL']
  generalize hi' : ({ i with pins := i.pins ++ [List.replicate ws.length (none : Option Nat)] } : Inst) = i'
  generalize hd'' : ({ d0 with insts := d0.insts ++ [i'] } : Def) = d''
  have hport : createOrUpdatePort (S2 d' (ls ++ [L]) n t) L.name pname (some ((ws.length : Int) - 1)) (some 0) none false =
      .ok (S2 d'' (ls ++ [L']) n t) := by
    unfold createOrUpdatePort
    rw [getDef_has hHL]
    simp only [bind, Except.bind, hp, populateNew_width ws.length h1, pure, Except.pure, Option.getD_none]
    rw [upd_S2_last d' ls L n t _ (by rw [hd'n]; exact ok.ne) (fun l hl => (ok.lsname l hl).1)]
    rw [mapInstRows_S2 _ _ n t L.name L.ports.length _ (by
      intro l hl
      rcases List.mem_append.mp hl with h | h
      · exact ok.lsinsts l h
      · simp only [List.mem_singleton] at h; rw [h]; exact ok.linsts)]
    congr 1
    rw [← hd'', ← hi', ← hL', ← hd']
    unfold S2
    congr 2
    · simp only
      congr 1
      exact rows_new d0.insts i L.name L.ports.length _ ok.ref ok.rows ok.others
  -- the state after the port exists
  have hd''n : d''.name = d0.name := by rw [← hd'']
  have hleaves2 : ∀ l ∈ ls ++ [L'], l.name ≠ d''.name := by
    intro l hl
    rw [hd''n]
    rcases List.mem_append.mp hl with h | h
    · exact (ok.lsname l h).2
    · simp only [List.mem_singleton] at h; rw [h, hL'n]; exact fun e => ok.ne e.symm
  have hnodup2 : ((ls ++ [L']).map (·.name)).Nodup := by
    have : (ls ++ [L']).map (·.name) = (ls ++ [L]).map (·.name) := by simp [hL'n]
    rw [this]; exact hnodup
  have hHd2 : Has (S2 d'' (ls ++ [L']) n t) d0.name d'' := by rw [← hd''n]; exact Has_S2_top d'' _ n t hleaves2
  have hHL2 : Has (S2 d'' (ls ++ [L']) n t) L.name L' := by
    rw [← hL'n]; exact Has_S2_leaf d'' _ n t L' (by simp) (by rw [hd''n, hL'n]; exact ok.ne) hnodup2
  have hk : portIdx L' pname = some L.ports.length := by
    rw [← hL']; exact portIdx_append_new L pname _ hp rfl
  have hii : instIdx d'' i.name = some d0.insts.length := by
    rw [← hd'']; exact instIdx_append d0 i.name i' ok.fresh (by rw [← hi'])
  have hconn : connectInstRow (S2 d'' (ls ++ [L']) n t) d0.name i.name L.ports.length ws =
      .ok (S2 { d0 with insts := d0.insts ++ [{ i with pins := i.pins ++ [ws.reverse.map some] }] } (ls ++ [L']) n t) := by
    unfold connectInstRow
    rw [getDef_has hHd2]
    simp only [bind, Except.bind, hii]
    have hget : d''.insts.getD d0.insts.length default = i' := by
      rw [← hd'']; simp [List.getD]
    have hrow : i'.pins.getD L.ports.length [] = List.replicate ws.length none := by
      rw [← hi', ← ok.rows]; simp [List.getD]
    simp only [hget, hrow, connect_low_aligned_fresh ws.length ws (Nat.le_refl _), pure, Except.pure]
    congr 1
    rw [← hd''n, upd_S2_top d'' _ n t _ hleaves2]
    unfold S2
    congr 2
    rw [← hd'']
    simp only
    congr 1
    rw [List.set_append_right _ _ (Nat.le_refl _)]
    simp only [Nat.sub_self, List.set_cons_zero]
    congr 2
    rw [← hi']
    simp only
    congr 1
    rw [← ok.rows, List.set_append_right _ _ (Nat.le_refl _)]
    simp [lowAligned]
  rw [hS]
  unfold firstSt
  cases e with
  | empty => exact absurd rfl hemp
  | atom a =>
    simp only [namedConn, bind, Except.bind, hev, hport, getDef_has hHL2, hk]
    rw [hconn]
  | cat as =>
    simp only [namedConn, bind, Except.bind, hev, hport, getDef_has hHL2, hk]
    rw [hconn]

theorem createPort_first (d0 : Def) (i : Inst) (ls : List Def) (L : Def) (n : Nat) (t : Option String)
    (pname : String) (l r : Option Int) (w : Nat) (ok : FirstOK d0 i ls L)
    (hp : portIdx L pname = none) (hpop : populateNew l r = (0, w, true)) :
    createOrUpdatePort (firstSt d0 i ls L n t) L.name pname l r none false =
      .ok (firstSt d0 { i with pins := i.pins ++ [List.replicate w none] } ls
        { L with ports := L.ports ++ [newPort pname w] } n t) := by
  generalize hd' : ({ d0 with insts := d0.insts ++ [i] } : Def) = d'
  have hd'n : d'.name = d0.name := by rw [← hd']
  have hnodup : ((ls ++ [L]).map (·.name)).Nodup := by
    rw [List.map_append, List.nodup_append]
    refine ⟨ok.lsnodup, by simp, ?_⟩
    intro a ha b hb
    simp only [List.map_cons, List.map_nil, List.mem_singleton] at hb
    obtain ⟨l, hl, e⟩ := List.mem_map.mp ha
    rw [hb, ← e]; exact (ok.lsname l hl).1
  have hS : firstSt d0 i ls L n t = S2 d' (ls ++ [L]) n t := by unfold firstSt; rw [hd']
  have hHL : Has (S2 d' (ls ++ [L]) n t) L.name L :=
    Has_S2_leaf d' _ n t L (by simp) (by rw [hd'n]; exact ok.ne) hnodup
  rw [hS]
  unfold createOrUpdatePort
  rw [getDef_has hHL]
  simp only [bind, Except.bind, hp, hpop, pure, Except.pure, Option.getD_none]
  rw [upd_S2_last d' ls L n t _ (by rw [hd'n]; exact ok.ne) (fun l hl => (ok.lsname l hl).1)]
  rw [mapInstRows_S2 _ _ n t L.name L.ports.length _ (by
    intro l hl
    rcases List.mem_append.mp hl with h | h
    · exact ok.lsinsts l h
    · simp only [List.mem_singleton] at h; rw [h]; exact ok.linsts)]
  congr 1
  rw [← hd']
  unfold firstSt S2
  congr 2
  simp only
  congr 1
  exact rows_new d0.insts i L.name L.ports.length _ ok.ref ok.rows ok.others

theorem namedConn_first_empty (d0 : Def) (i : Inst) (ls : List Def) (L : Def) (n : Nat) (t : Option String)
    (pname : String) (ok : FirstOK d0 i ls L) (hp : portIdx L pname = none) :
    namedConn (firstSt d0 i ls L n t) d0.name i.name L.name pname .empty =
      .ok (firstSt d0 { i with pins := i.pins ++ [List.replicate 1 none] } ls
        { L with ports := L.ports ++ [newPort pname 1] } n t) := by
  simp only [namedConn]
  exact createPort_first d0 i ls L n t pname (some 0) (some 0) 1 ok hp rfl

/-- one connection of the first instance of a never-seen module: a new port as wide as the expression (pure) -/
def firstStep (d0 : Def) (acc : List Port × List (List (Option Nat))) (c : String × XExpr) :
    Option (List Port × List (List (Option Nat))) :=
  if acc.1.findIdx? (fun p => p.name == some c.1) = none then
    match c.2 with
    | .empty => some (acc.1 ++ [newPort c.1 1], acc.2 ++ [List.replicate 1 none])
    | e =>
      match exprWires d0 e with
      | some ws => if 1 ≤ ws.length then some (acc.1 ++ [newPort c.1 ws.length], acc.2 ++ [ws.reverse.map some]) else none
      | none => none
  else none

theorem FirstOK.grow {d0 : Def} {i : Inst} {ls : List Def} {L : Def} (ok : FirstOK d0 i ls L) (p : Port)
    (row : List (Option Nat)) : FirstOK d0 { i with pins := i.pins ++ [row] } ls { L with ports := L.ports ++ [p] } :=
  ⟨ok.ref, ok.fresh, ok.others, by simp [ok.rows], ok.linsts, ok.lsinsts, ok.lsname, ok.lsnodup, ok.ne, ok.cables⟩

theorem first_fold (d0 : Def) (ls : List Def) (n : Nat) (t : Option String) :
    ∀ (conns : List (String × XExpr)) (i : Inst) (L : Def) (ports' : List Port) (rows' : List (List (Option Nat))),
      FirstOK d0 i ls L → conns.foldlM (firstStep d0) (L.ports, i.pins) = some (ports', rows') →
      conns.foldlM (fun s c => namedConn s d0.name i.name L.name c.1 c.2) (firstSt d0 i ls L n t) =
        .ok (firstSt d0 { i with pins := rows' } ls { L with ports := ports' } n t) := by
  intro conns
  induction conns with
  | nil =>
    intro i L ports' rows' _ h
    simp only [List.foldlM_nil, pure, Option.some.injEq, Prod.mk.injEq] at h
    obtain ⟨h1, h2⟩ := h
    subst h1 h2
    rfl
  | cons c cs ih =>
    intro i L ports' rows' ok h
    rw [List.foldlM_cons] at h
    cases hs : firstStep d0 (L.ports, i.pins) c with
    | none => simp [hs] at h
    | some r =>
      obtain ⟨p1, r1⟩ := r
      simp only [hs, Option.bind_eq_bind, Option.bind_some] at h
      unfold firstStep at hs
      split at hs
      · rename_i hp
        have hp' : portIdx L c.1 = none := hp
        simp only [List.foldlM_cons, bind, Except.bind]
        split at hs
        · rename_i he
          simp only [Option.some.injEq, Prod.mk.injEq] at hs
          obtain ⟨e1, e2⟩ := hs
          subst e1 e2
          rw [he, namedConn_first_empty d0 i ls L n t c.1 ok hp']
          exact ih _ _ ports' rows' (ok.grow _ _) h
        · rename_i hne
          cases hw : exprWires d0 c.2 with
          | none => simp [hw] at hs
          | some ws =>
            simp only [hw] at hs
            split at hs
            · rename_i h1
              simp only [Option.some.injEq, Prod.mk.injEq] at hs
              obtain ⟨e1, e2⟩ := hs
              subst e1 e2
              rw [namedConn_first d0 i ls L n t c.1 c.2 ws ok hp' hw (by intro e; exact hne e) h1]
              exact ih _ _ ports' rows' (ok.grow _ _) h
            · cases hs
      · cases hs

/-- **instantiate_first.**  The first instance (named port map) of a module the file has not mentioned yet: the
    module enters the table with one port per connection, as wide as the connected expression (one pin for `.p()`),
    and the instance's pins carry the expression, least significant bit on pin 0. -/
theorem instantiate_first (d0 : Def) (ls : List Def) (n : Nat) (t : Option String) (mod name : String)
    (params : Params) (attrs : Attrs) (conns : List (String × XExpr)) (ports' : List Port) (rows' : List (List (Option Nat)))
    (ht : t ≠ some mod) (hne : d0.name ≠ mod) (hls : ∀ l ∈ ls, l.name ≠ mod ∧ l.name ≠ d0.name ∧ l.insts = [])
    (hlsn : (ls.map (·.name)).Nodup) (hfresh : instIdx d0 name = none) (hothers : ∀ j ∈ d0.insts, j.ref ≠ mod)
    (hcn : (d0.cables.map (·.name)).Nodup)
    (hf : conns.foldlM (firstStep d0) ([], []) = some (ports', rows')) :
    instantiate (S2 d0 ls n t) d0.name mod name params attrs true (conns.map (fun c => ((some c.1 : Option String), c.2))) =
      .ok (S2 { d0 with insts := d0.insts ++ [⟨name, mod, mergeP params, some attrs, rows'⟩] }
        (ls ++ [⟨mod, none, false, [], none, ports', [], []⟩]) n t) := by
  generalize hL0 : (⟨mod, none, false, [], none, [], [], []⟩ : Def) = L0
  have hL0n : L0.name = mod := by rw [← hL0]
  generalize hi0 : (⟨name, mod, [], some attrs, []⟩ : Inst) = i0
  have hi0n : i0.name = name := by rw [← hi0]
  have ok : FirstOK d0 i0 ls L0 :=
    ⟨by rw [← hi0, hL0n], by rw [hi0n]; exact hfresh, by rw [hL0n]; exact hothers, by rw [← hi0, ← hL0]; rfl,
     by rw [← hL0], fun l hl => (hls l hl).2.2, fun l hl => ⟨by rw [hL0n]; exact (hls l hl).1, (hls l hl).2.1⟩, hlsn,
     by rw [hL0n]; exact hne, hcn⟩
  have hfind : (S2 d0 ls n t).find mod = none := by
    unfold St.find S2
    apply List.find?_eq_none.mpr
    intro x hx
    rcases List.mem_cons.mp hx with e | e
    · rw [e]; simp [hne]
    · simp [(hls x e).1]
  have hens : (S2 d0 ls n t).ensure mod = S2 d0 (ls ++ [L0]) n t := by
    unfold St.ensure
    rw [hfind, ← hL0]
    rfl
  have hleaves : ∀ l ∈ ls ++ [L0], l.name ≠ d0.name := by
    intro l hl
    rcases List.mem_append.mp hl with h | h
    · exact (hls l h).2.1
    · simp only [List.mem_singleton] at h; rw [h, hL0n]; exact fun e => hne e.symm
  have hnodup : ((ls ++ [L0]).map (·.name)).Nodup := by
    rw [List.map_append, List.nodup_append]
    refine ⟨hlsn, by simp, ?_⟩
    intro a ha b hb
    simp only [List.map_cons, List.map_nil, List.mem_singleton] at hb
    obtain ⟨l, hl, e⟩ := List.mem_map.mp ha
    rw [hb, ← e, hL0n]; exact (hls l hl).1
  have hHd : Has (S2 d0 (ls ++ [L0]) n t) d0.name d0 := Has_S2_top d0 _ n t hleaves
  have hHL : Has (S2 d0 (ls ++ [L0]) n t) mod L0 := by
    rw [← hL0n]; exact Has_S2_leaf d0 _ n t L0 (by simp) (by rw [hL0n]; exact hne) hnodup
  have hfold := first_fold d0 ls n t conns i0 L0 ports' rows' ok (by rw [← hL0, ← hi0]; exact hf)
  rw [hi0n, hL0n] at hfold
  have htop : ((S2 d0 ls n t).top == some mod) = false := by
    show (t == some mod) = false
    simp [ht]
  unfold instantiate
  simp only [htop, Bool.false_eq_true, if_false, hens, bind, Except.bind, getDef_has hHL, getDef_has hHd, hfresh,
    Option.isSome_none, if_true]
  have hports0 : L0.ports = [] := by rw [← hL0]
  simp only [hports0, List.map_nil]
  rw [upd_S2_top d0 _ n t _ hleaves]
  rw [List.foldlM_map]
  have hst : S2 { d0 with insts := d0.insts ++ [⟨name, mod, [], some attrs, []⟩] } (ls ++ [L0]) n t = firstSt d0 i0 ls L0 n t := by
    unfold firstSt; rw [← hi0]
  rw [hst]
  simp only
  rw [hfold]
  simp only [pure, Except.pure]
  congr 1
  unfold firstSt
  subst hi0 hL0
  simp only
  have hleaves2 : ∀ l ∈ ls ++ [(⟨mod, none, false, [], none, ports', [], []⟩ : Def)], l.name ≠ d0.name := by
    intro l hl
    rcases List.mem_append.mp hl with h | h
    · exact (hls l h).2.1
    · simp only [List.mem_singleton] at h; rw [h]; exact fun e => hne e.symm
  have := upd_S2_top ({ d0 with insts := d0.insts ++ [⟨name, mod, [], some attrs, rows'⟩] } : Def)
    (ls ++ [⟨mod, none, false, [], none, ports', [], []⟩]) n t
    (fun d => { d with insts := d.insts.map (fun i =>
      if i.name == name then { i with params := params.foldl (fun acc kv =>
        if acc.any (fun x => x.1 == kv.1) then acc else acc ++ [kv]) i.params } else i) }) hleaves2
  refine this.trans ?_
  unfold S2
  congr 2
  simp only
  congr 1
  rw [List.map_append]
  congr 1
  · conv => rhs; rw [← List.map_id d0.insts]
    apply List.map_congr_left
    intro j hj
    unfold instIdx at hfresh
    rw [List.findIdx?_eq_none_iff] at hfresh
    have := hfresh j hj
    simp only [this, Bool.false_eq_true, if_false, id]
  · simp [mergeP]
end Spydr.Verilog.Elab
