/-
  Verilog engine — proof side, part 5: one ANSI header port of a module nobody instances yet: a new port, a
  new same-named cable of the same shape with fresh wires, pin k on wire k.
-/
import Spydr.Verilog.RoundTripBody
namespace Spydr.Verilog.Elab
open Spydr.Verilog

/-- nobody instances `n` (a module is declared before its first use) -/
def NoRef (s : St) (n : String) : Prop := ∀ d ∈ s.defs, ∀ i ∈ d.insts, i.ref ≠ n

theorem mapInstRows_noref (s : St) (n : String) (k : Nat) (f : List (Option Nat) → List (Option Nat))
    (h : NoRef s n) : mapInstRows s n k f = s := by
  unfold mapInstRows
  have : s.defs.map (fun d => { d with insts := d.insts.map (fun i =>
      if i.ref == n then
        let rows := i.pins ++ List.replicate (k + 1 - i.pins.length) []
        { i with pins := rows.set k (f (rows.getD k [])) }
      else i) }) = s.defs := by
    conv => rhs; rw [← List.map_id s.defs]
    apply List.map_congr_left
    intro d hd
    have : d.insts.map (fun i =>
      if i.ref == n then
        let rows := i.pins ++ List.replicate (k + 1 - i.pins.length) []
        { i with pins := rows.set k (f (rows.getD k [])) }
      else i) = d.insts := by
      conv => rhs; rw [← List.map_id d.insts]
      apply List.map_congr_left
      intro i hi
      simp [h d hd i hi]
    simp only [this, id]
  rw [this]

theorem setRow_fold (ws : List Nat) : ∀ (n : Nat) (done : List (Option Nat)) (rest : Nat),
    done.length = n → n + rest = ws.length → (∀ j, j < n → done[j]? = some (some (ws.getD j 0))) →
    ((List.range' n rest).foldlM (fun row i => setRow row i (ws.getD i 0)) (done ++ List.replicate rest none))
      = .ok (ws.map some) := by
  intro n done rest
  induction rest generalizing n done with
  | zero =>
    intro hl hn hd
    simp only [List.range'_zero, List.foldlM_nil, List.replicate_zero, List.append_nil, pure, Except.pure]
    congr 1
    apply List.ext_getElem?
    intro j
    by_cases hj : j < n
    · rw [hd j hj, List.getElem?_map]
      simp [List.getD, List.getElem?_eq_getElem (show j < ws.length by omega)]
    · rw [List.getElem?_eq_none (by omega), List.getElem?_eq_none (by simp; omega)]
  | succ r ih =>
    intro hl hn hd
    simp only [List.range'_succ, List.foldlM_cons, bind, Except.bind]
    have hget : (done ++ List.replicate (r + 1) none)[n]? = some none := by
      rw [List.getElem?_append_right (by omega), hl, Nat.sub_self]; simp
    have hstep : setRow (done ++ List.replicate (r + 1) none) n (ws.getD n 0) =
        .ok ((done ++ [some (ws.getD n 0)]) ++ List.replicate r none) := by
      unfold setRow setPin
      rw [hget]
      simp only [pure, Except.pure]
      congr 1
      rw [List.replicate_succ, List.set_append_right _ _ (by omega), hl, Nat.sub_self]
      simp
    rw [hstep]
    exact ih (n + 1) (done ++ [some (ws.getD n 0)]) (by simp [hl]) (by omega) (by
      intro j hj
      by_cases e : j < n
      · rw [List.getElem?_append_left (by omega)]; exact hd j e
      · have : j = n := by omega
        subst this
        rw [List.getElem?_append_right (by omega), hl, Nat.sub_self]; rfl)

theorem setRow_all (ws : List Nat) :
    ((List.range ws.length).foldlM (fun row i => setRow row i (ws.getD i 0)) (List.replicate ws.length none))
      = .ok (ws.map some) := by
  have := setRow_fold ws 0 [] ws.length rfl (by simp) (by intro j hj; omega)
  rw [List.range_eq_range']
  simpa using this

/-- shape of a declared range: (base, width, downto) -/
def shapeOf (rng : Option (Int × Int)) : Int × Nat × Bool := populateNew (rngL rng) (rngR rng)

/-- the wire ids the next `w` fresh wires get -/
def ids (next w : Nat) : List Nat := (List.range w).map (· + next)

theorem fresh_eq (s : St) (k : Nat) : fresh s k = ({ s with next := s.next + k }, ids s.next k) := rfl

theorem portIdx_append_new (d : Def) (name : String) (p : Port) (h : portIdx d name = none) (hp : p.name = some name) :
    portIdx { d with ports := d.ports ++ [p] } name = some d.ports.length := by
  unfold portIdx at h ⊢
  rw [List.findIdx?_eq_none_iff] at h
  rw [List.findIdx?_eq_some_iff_getElem]
  refine ⟨by simp, by simp [hp], ?_⟩
  intro j hj
  have hjl : j < d.ports.length := hj
  simp only [List.getElem_append_left hjl]
  have := h d.ports[j] (List.getElem_mem hjl)
  simpa using this

theorem find_append_new (cs : List Cable) (name : String) (c : Cable) (h : cs.find? (fun c => c.name == name) = none)
    (hc : c.name = name) : (cs ++ [c]).find? (fun c => c.name == name) = some c := by
  rw [List.find?_append, h]
  simp [hc]

theorem shape_rng_none : shapeOf none = (0, 1, true) := rfl

/-- the range the header port hands to its cable has the port's own shape -/
theorem populateNew_again (rng : Option (Int × Int)) :
    (match rng with
     | some (a, b) => populateNew (some a) (some b)
     | none =>
       let hi := (shapeOf rng).1 + (((shapeOf rng).2.1 : Nat) : Int) - 1
       if (shapeOf rng).2.2 then populateNew (some hi) (some (shapeOf rng).1) else populateNew (some (shapeOf rng).1) (some hi))
      = shapeOf rng := by
  cases rng with
  | none => simp [shapeOf, populateNew, rngL, rngR]
  | some p => obtain ⟨a, b⟩ := p; rfl

theorem NoRef_upd (s : St) (n m : String) (f : Def → Def) (hf : ∀ d, (f d).insts = d.insts) (h : NoRef s n) :
    NoRef (s.upd m f) n := by
  intro d' hd' i hi
  unfold St.upd at hd'
  obtain ⟨x, hx, hxe⟩ := List.mem_map.mp hd'
  by_cases e : x.name = m
  · simp only [e, beq_self_eq_true, if_true] at hxe
    rw [← hxe, hf] at hi
    exact h x hx i hi
  · simp only [show (x.name == m) = false by simp [e], Bool.false_eq_true, if_false] at hxe
    rw [← hxe] at hi
    exact h x hx i hi

theorem St.upd_congr (s : St) (n : String) (f g : Def → Def) (d : Def) (hd : Has s n d) (h : f d = g d) :
    s.upd n f = s.upd n g := by
  unfold St.upd
  congr 1
  apply List.map_congr_left
  intro x hx
  by_cases e : x.name = n
  · rw [hd.2.2 x hx e]; simp [hd.2.1, h]
  · simp [e]

def addPort (p : Port) : Def → Def := fun x => { x with ports := x.ports ++ [p] }
def addCable (c : Cable) : Def → Def := fun x => { x with cables := x.cables ++ [c] }
def putPort (k : Nat) (p : Port) : Def → Def := fun x => { x with ports := x.ports.set k p }
def freePort (name : String) (dir : Dir) (lo : Int) (dt : Bool) (w : Nat) : Port :=
  ⟨some name, dir, lo, dt, List.replicate w none, none⟩
def wiredPort (name : String) (dir : Dir) (lo : Int) (dt : Bool) (ws : List Nat) : Port :=
  ⟨some name, dir, lo, dt, ws.map some, none⟩
def portCable (name : String) (lo : Int) (dt : Bool) (ws : List Nat) : Cable := ⟨name, lo, dt, ws, none, none⟩
def withNext (s : St) (n : Nat) : St := { s with next := n }

theorem headerPort_new (s : St) (dn : String) (d : Def) (name : String) (dir : Dir) (rng : Option (Int × Int))
    (hd : Has s dn d) (hp : portIdx d name = none) (hc : d.cables.find? (fun c => c.name == name) = none)
    (hnr : NoRef s dn) :
    headerPort s dn ⟨name, some dir, rng, none⟩ = .ok
      (withNext (s.upd dn (fun x => { x with
          ports := x.ports ++ [wiredPort name dir (shapeOf rng).1 (shapeOf rng).2.2 (ids s.next (shapeOf rng).2.1)],
          cables := x.cables ++ [portCable name (shapeOf rng).1 (shapeOf rng).2.2 (ids s.next (shapeOf rng).2.1)] }))
        (s.next + (shapeOf rng).2.1)) := by
  generalize hsh : shapeOf rng = sh
  obtain ⟨lo, w, dt⟩ := sh
  simp only
  -- step 1: the port
  have h1 : createOrUpdatePort s dn name (rngL rng) (rngR rng) (some dir) true =
      .ok (s.upd dn (addPort (freePort name dir lo dt w))) := by
    unfold createOrUpdatePort
    rw [getDef_has hd]
    simp only [bind, Except.bind, hp, pure, Except.pure]
    have : populateNew (rngL rng) (rngR rng) = (lo, w, dt) := hsh
    simp only [this, Option.getD_some]
    exact congrArg Except.ok (mapInstRows_noref _ dn _ _ (NoRef_upd s dn dn _ (fun _ => rfl) hnr))
  have hf1 : ∀ x, (addPort (freePort name dir lo dt w) x).name = x.name := fun _ => rfl
  have hd1 : Has (s.upd dn (addPort (freePort name dir lo dt w))) dn (addPort (freePort name dir lo dt w) d) :=
    hd.upd _ hf1
  have hk1 : portIdx (addPort (freePort name dir lo dt w) d) name = some d.ports.length :=
    portIdx_append_new d name _ hp rfl
  have hget1 : (addPort (freePort name dir lo dt w) d).ports.getD d.ports.length default = freePort name dir lo dt w := by
    simp [addPort, List.getD]
  -- step 2: the cable
  have hf2 : ∀ x, (addCable (portCable name lo dt (ids s.next w)) x).name = x.name := fun _ => rfl
  have h2 : ∀ l r, populateNew l r = (lo, w, dt) →
      createOrUpdateCable (s.upd dn (addPort (freePort name dir lo dt w))) dn name l r none true =
        .ok ((withNext (s.upd dn (addPort (freePort name dir lo dt w))) (s.next + w)).upd dn
              (addCable (portCable name lo dt (ids s.next w)))) := by
    intro l r hpop
    unfold createOrUpdateCable
    rw [getDef_has hd1]
    have hfind : (addPort (freePort name dir lo dt w) d).cables.find? (fun c => c.name == name) = none := hc
    simp only [bind, Except.bind, hfind, hpop, fresh_eq, pure, Except.pure]
    rfl
  have hd2 : Has ((withNext (s.upd dn (addPort (freePort name dir lo dt w))) (s.next + w)).upd dn
      (addCable (portCable name lo dt (ids s.next w)))) dn
      (addCable (portCable name lo dt (ids s.next w)) (addPort (freePort name dir lo dt w) d)) := by
    have : Has (withNext (s.upd dn (addPort (freePort name dir lo dt w))) (s.next + w)) dn
        (addPort (freePort name dir lo dt w) d) := Has.of_defs rfl hd1
    exact this.upd _ hf2
  -- step 3: connecting
  have h3 : connectPortCable ((withNext (s.upd dn (addPort (freePort name dir lo dt w))) (s.next + w)).upd dn
      (addCable (portCable name lo dt (ids s.next w)))) dn name =
      .ok (((withNext (s.upd dn (addPort (freePort name dir lo dt w))) (s.next + w)).upd dn
        (addCable (portCable name lo dt (ids s.next w)))).upd dn
          (putPort d.ports.length (wiredPort name dir lo dt (ids s.next w)))) := by
    unfold connectPortCable
    rw [getDef_has hd2]
    have hk2 : portIdx (addCable (portCable name lo dt (ids s.next w)) (addPort (freePort name dir lo dt w) d)) name
        = some d.ports.length := hk1
    have hfc : (addCable (portCable name lo dt (ids s.next w)) (addPort (freePort name dir lo dt w) d)).cables.find?
        (fun c => c.name == name) = some (portCable name lo dt (ids s.next w)) :=
      find_append_new d.cables name _ hc rfl
    have hget2 : (addCable (portCable name lo dt (ids s.next w)) (addPort (freePort name dir lo dt w) d)).ports.getD
        d.ports.length default = freePort name dir lo dt w := hget1
    simp only [bind, Except.bind, hk2, hfc, hget2]
    have hw : (portCable name lo dt (ids s.next w)).wires.length = w := by simp [portCable, ids]
    have hlen : ((freePort name dir lo dt w).pins.length != (portCable name lo dt (ids s.next w)).wires.length) = false := by
      rw [hw]; simp [freePort]
    simp only [hlen, Bool.false_eq_true, if_false]
    have hpins : (freePort name dir lo dt w).pins = List.replicate (portCable name lo dt (ids s.next w)).wires.length none := by
      rw [hw]; rfl
    rw [hpins, setRow_all]
    rfl
  have hwn : ∀ (S : St) (n : Nat) (m : String) (g : Def → Def), (withNext S n).upd m g = withNext (S.upd m g) n :=
    fun _ _ _ _ => rfl
  have hfin : ((withNext (s.upd dn (addPort (freePort name dir lo dt w))) (s.next + w)).upd dn
      (addCable (portCable name lo dt (ids s.next w)))).upd dn
        (putPort d.ports.length (wiredPort name dir lo dt (ids s.next w))) =
      withNext (s.upd dn (fun x => { x with
        ports := x.ports ++ [wiredPort name dir lo dt (ids s.next w)],
        cables := x.cables ++ [portCable name lo dt (ids s.next w)] })) (s.next + w) := by
    rw [hwn, hwn, St.upd_upd _ _ _ _ hf1]
    rw [St.upd_upd s dn (fun d => addCable (portCable name lo dt (ids s.next w)) (addPort (freePort name dir lo dt w) d)) _ (fun x => rfl)]
    congr 1
    apply St.upd_congr s dn _ _ d hd
    simp [addPort, addCable, putPort]
  unfold headerPort
  simp only [bind, Except.bind, Option.isSome_some, h1, getDef_has hd1, hk1, Option.getD_some, hget1]
  have hlr := populateNew_again rng
  rw [hsh] at hlr
  simp only at hlr
  have hfp : (freePort name dir lo dt w).lower = lo ∧ (freePort name dir lo dt w).pins.length = w ∧
      (freePort name dir lo dt w).downto = dt := ⟨rfl, by simp [freePort], rfl⟩
  cases rng with
  | none =>
    simp only [hfp.1, hfp.2.1, hfp.2.2]
    cases dt with
    | true =>
      simp only [if_true] at hlr ⊢
      rw [h2 _ _ hlr]
      simp only [h3]
      rw [hfin]
    | false =>
      simp only [Bool.false_eq_true, if_false] at hlr ⊢
      rw [h2 _ _ hlr]
      simp only [h3]
      rw [hfin]
  | some p =>
    obtain ⟨a, b⟩ := p
    simp only at hlr ⊢
    rw [h2 _ _ hlr]
    simp only [h3]
    rw [hfin]
end Spydr.Verilog.Elab
