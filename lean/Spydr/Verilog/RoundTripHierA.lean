/-
  Verilog engine — proof side, part 41 (hierarchy): the first instance of a never-seen module in ANY table
  (`instantiate_firstG`): `instantiate_first` without the assumption that only one definition has instances.
-/
import Spydr.Verilog.RoundTripLeafJ
set_option maxHeartbeats 1600000
namespace Spydr.Verilog.Elab
open Spydr.Verilog

/-! ### the first instance of a never-seen module, in ANY table -/

/-- the table with definition `dn` replaced by `d'` and the new module `L` appended -/
def tabG (s : St) (dn : String) (d' L : Def) : St :=
  { s with defs := s.defs.map (fun x => if x.name == dn then d' else x) ++ [L] }

structure FirstG (s : St) (dn : String) (d0 : Def) (i : Inst) (L : Def) : Prop where
  has : Has s dn d0
  ref : i.ref = L.name
  fresh : instIdx d0 i.name = none
  newname : ∀ x ∈ s.defs, x.name ≠ L.name
  noref : ∀ x ∈ s.defs, ∀ j ∈ x.insts, j.ref ≠ L.name
  rows : i.pins.length = L.ports.length
  linsts : L.insts = []
  cables : (d0.cables.map (·.name)).Nodup

theorem FirstG.ne {s : St} {dn : String} {d0 : Def} {i : Inst} {L : Def} (ok : FirstG s dn d0 i L) : dn ≠ L.name := by
  intro e
  exact ok.newname d0 ok.has.1 (ok.has.2.1.trans e)

theorem tabG_base (s : St) (dn : String) (d' L : Def) (hn : d'.name = dn) (hnew : ∀ x ∈ s.defs, x.name ≠ L.name)
    (hne : dn ≠ L.name) : ∀ x ∈ s.defs.map (fun x => if x.name == dn then d' else x), x.name ≠ L.name := by
  intro x hx
  obtain ⟨y, hy, e⟩ := List.mem_map.mp hx
  by_cases en : y.name = dn
  · simp only [en, beq_self_eq_true, if_true] at e
    rw [← e, hn]; exact hne
  · simp only [show (y.name == dn) = false by simp [en], Bool.false_eq_true, if_false] at e
    rw [← e]; exact hnew y hy

theorem Has_tabG_top (s : St) (dn : String) (d0 d' L : Def) (hd : Has s dn d0) (hn : d'.name = dn) (hne : dn ≠ L.name) :
    Has (tabG s dn d' L) dn d' := by
  have h1 : Has (s.put dn d' s.next) dn d' := hd.put d' _ (hn.trans hd.2.1.symm)
  have := Has_append_old (s.put dn d' s.next) L dn d' h1 (fun e => hne e.symm)
  exact this

theorem Has_tabG_last (s : St) (dn : String) (d' L : Def) (hn : d'.name = dn) (hnew : ∀ x ∈ s.defs, x.name ≠ L.name)
    (hne : dn ≠ L.name) : Has (tabG s dn d' L) L.name L :=
  Has_last _ _ L rfl (tabG_base s dn d' L hn hnew hne)

theorem tabG_upd_last (s : St) (dn : String) (d' L : Def) (f : Def → Def) (hn : d'.name = dn)
    (hnew : ∀ x ∈ s.defs, x.name ≠ L.name) (hne : dn ≠ L.name) :
    (tabG s dn d' L).upd L.name f = tabG s dn d' (f L) := by
  have := defs_upd_last (tabG s dn d' L) _ L f rfl (tabG_base s dn d' L hn hnew hne)
  unfold St.upd at this ⊢
  unfold tabG at this ⊢
  simp only at this ⊢
  rw [this]

theorem tabG_upd_top (s : St) (dn : String) (d' L : Def) (f : Def → Def) (hn : d'.name = dn) (hne : dn ≠ L.name) :
    (tabG s dn d' L).upd dn f = tabG s dn (f d') L := by
  unfold St.upd tabG
  simp only [List.map_append, List.map_map, List.map_cons, List.map_nil]
  congr 2
  · apply List.map_congr_left
    intro x _
    simp only [Function.comp]
    by_cases e : x.name = dn
    · simp [e, hn]
    · simp [e]
  · have : (L.name == dn) = false := by
      have : ¬ L.name = dn := fun e => hne e.symm
      simp [this]
    simp [this]

theorem def_insts_same (x : Def) (g : Inst → Inst) (h : ∀ j ∈ x.insts, g j = j) :
    ({ x with insts := x.insts.map g } : Def) = x := by
  have : x.insts.map g = x.insts := by
    conv => rhs; rw [← List.map_id x.insts]
    exact List.map_congr_left (fun j hj => by simp [h j hj])
  rw [this]

/-- the new row `k` of the instances of the new module: only the last instance of `dn` refers to it -/
theorem mapInstRows_tabG (s : St) (dn : String) (d0 : Def) (i : Inst) (Lx : Def) (nm : String) (k : Nat)
    (row : List (Option Nat)) (hd : Has s dn d0) (href : i.ref = nm) (hk : i.pins.length = k)
    (hnoref : ∀ x ∈ s.defs, ∀ j ∈ x.insts, j.ref ≠ nm) (hli : Lx.insts = []) :
    mapInstRows (tabG s dn { d0 with insts := d0.insts ++ [i] } Lx) nm k (fun _ => row) =
      tabG s dn { d0 with insts := d0.insts ++ [{ i with pins := i.pins ++ [row] }] } Lx := by
  unfold mapInstRows tabG
  simp only [List.map_append, List.map_map, List.map_cons, List.map_nil]
  congr 2
  · apply List.map_congr_left
    intro x hx
    simp only [Function.comp]
    by_cases e : x.name = dn
    · simp only [e, beq_self_eq_true, if_true]
      congr 1
      exact rows_new d0.insts i nm k row href hk (hnoref d0 hd.1)
    · simp only [show (x.name == dn) = false by simp [e], Bool.false_eq_true, if_false]
      apply def_insts_same
      intro j hj
      simp [hnoref x hx j hj]
  · congr 1
    apply def_insts_same
    intro j hj
    rw [hli] at hj; cases hj

theorem FirstG.grow {s : St} {dn : String} {d0 : Def} {i : Inst} {L : Def} (ok : FirstG s dn d0 i L) (p : Port)
    (row : List (Option Nat)) : FirstG s dn d0 { i with pins := i.pins ++ [row] } { L with ports := L.ports ++ [p] } :=
  ⟨ok.has, ok.ref, ok.fresh, ok.newname, ok.noref, by simp [ok.rows], ok.linsts, ok.cables⟩

theorem createPort_firstG (s : St) (dn : String) (d0 : Def) (i : Inst) (L : Def) (pname : String) (l r : Option Int) (w : Nat)
    (ok : FirstG s dn d0 i L) (hp : portIdx L pname = none) (hpop : populateNew l r = (0, w, true)) :
    createOrUpdatePort (tabG s dn { d0 with insts := d0.insts ++ [i] } L) L.name pname l r none false =
      .ok (tabG s dn { d0 with insts := d0.insts ++ [{ i with pins := i.pins ++ [List.replicate w none] }] }
        { L with ports := L.ports ++ [newPort pname w] }) := by
  have hn : ({ d0 with insts := d0.insts ++ [i] } : Def).name = dn := ok.has.2.1
  have hHL := Has_tabG_last s dn { d0 with insts := d0.insts ++ [i] } L hn ok.newname ok.ne
  unfold createOrUpdatePort
  rw [getDef_has hHL]
  simp only [bind, Except.bind, hp, hpop, pure, Except.pure, Option.getD_none]
  rw [tabG_upd_last s dn _ L _ hn ok.newname ok.ne]
  exact congrArg Except.ok (mapInstRows_tabG s dn d0 i _ L.name L.ports.length _ ok.has ok.ref ok.rows ok.noref ok.linsts)

theorem namedConn_firstG (s : St) (dn : String) (d0 : Def) (i : Inst) (L : Def) (pname : String) (e : XExpr) (ws : List Nat)
    (ok : FirstG s dn d0 i L) (hp : portIdx L pname = none) (hws : exprWires d0 e = some ws) (hemp : e ≠ .empty)
    (h1 : 1 ≤ ws.length) :
    namedConn (tabG s dn { d0 with insts := d0.insts ++ [i] } L) dn i.name L.name pname e =
      .ok (tabG s dn { d0 with insts := d0.insts ++ [{ i with pins := i.pins ++ [ws.reverse.map some] }] }
        { L with ports := L.ports ++ [newPort pname ws.length] }) := by
  generalize hd' : ({ d0 with insts := d0.insts ++ [i] } : Def) = d'
  have hd'n : d'.name = dn := by rw [← hd']; exact ok.has.2.1
  have hHd : Has (tabG s dn d' L) dn d' := Has_tabG_top s dn d0 d' L ok.has hd'n ok.ne
  have hws' : exprWires d' e = some ws := (exprWires_cables d0 d' (by rw [← hd']) e).trans hws
  have hcn' : (d'.cables.map (·.name)).Nodup := by rw [← hd']; exact ok.cables
  have hev := evalExprE_fixed (tabG s dn d' L) dn e d' ws hHd hcn' hws'
  -- the new port
  have hport := createPort_firstG s dn d0 i L pname (some ((ws.length : Int) - 1)) (some 0) ws.length ok hp
    (populateNew_width ws.length h1)
  rw [hd'] at hport
  generalize hL' : ({ L with ports := L.ports ++ [newPort pname ws.length] } : Def) = L' at hport
  have hL'n : L'.name = L.name := by rw [← hL']
  generalize hi' : ({ i with pins := i.pins ++ [List.replicate ws.length (none : Option Nat)] } : Inst) = i' at hport
  generalize hd'' : ({ d0 with insts := d0.insts ++ [i'] } : Def) = d'' at hport
  have hd''n : d''.name = dn := by rw [← hd'']; exact ok.has.2.1
  have hnew' : ∀ x ∈ s.defs, x.name ≠ L'.name := by rw [hL'n]; exact ok.newname
  have hne' : dn ≠ L'.name := by rw [hL'n]; exact ok.ne
  have hHd2 : Has (tabG s dn d'' L') dn d'' := Has_tabG_top s dn d0 d'' L' ok.has hd''n hne'
  have hHL2 : Has (tabG s dn d'' L') L.name L' := by
    rw [← hL'n]; exact Has_tabG_last s dn d'' L' hd''n hnew' hne'
  have hk : portIdx L' pname = some L.ports.length := by
    rw [← hL']; exact portIdx_append_new L pname _ hp rfl
  have hii : instIdx d'' i.name = some d0.insts.length := by
    rw [← hd'']; exact instIdx_append d0 i.name i' ok.fresh (by rw [← hi'])
  have hconn : connectInstRow (tabG s dn d'' L') dn i.name L.ports.length ws =
      .ok (tabG s dn { d0 with insts := d0.insts ++ [{ i with pins := i.pins ++ [ws.reverse.map some] }] } L') := by
    unfold connectInstRow
    rw [getDef_has hHd2]
    simp only [bind, Except.bind, hii]
    have hget : d''.insts.getD d0.insts.length default = i' := by
      rw [← hd'']; simp [List.getD]
    have hrow : i'.pins.getD L.ports.length [] = List.replicate ws.length none := by
      rw [← hi', ← ok.rows]; simp [List.getD]
    simp only [hget, hrow, connect_low_aligned_fresh ws.length ws (Nat.le_refl _), pure, Except.pure]
    congr 1
    rw [tabG_upd_top s dn d'' L' _ hd''n hne']
    congr 1
    rw [← hd'']
    simp only
    congr 1
    rw [List.set_append_right _ _ (Nat.le_refl _)]
    simp only [Nat.sub_self, List.set_cons_zero]
    congr 2
    rw [← hi']
    simp only
    congr 1
    rw [← ok.rows, List.set_append_right _ _ (Nat.le_refl _)]
    simp [lowAligned]
  cases e with
  | empty => exact absurd rfl hemp
  | atom a =>
    simp only [namedConn, bind, Except.bind, hev, hport, getDef_has hHL2, hk]
    rw [hconn]
  | cat as =>
    simp only [namedConn, bind, Except.bind, hev, hport, getDef_has hHL2, hk]
    rw [hconn]

theorem namedConn_first_emptyG (s : St) (dn : String) (d0 : Def) (i : Inst) (L : Def) (pname : String)
    (ok : FirstG s dn d0 i L) (hp : portIdx L pname = none) :
    namedConn (tabG s dn { d0 with insts := d0.insts ++ [i] } L) dn i.name L.name pname .empty =
      .ok (tabG s dn { d0 with insts := d0.insts ++ [{ i with pins := i.pins ++ [List.replicate 1 none] }] }
        { L with ports := L.ports ++ [newPort pname 1] }) := by
  simp only [namedConn]
  exact createPort_firstG s dn d0 i L pname (some 0) (some 0) 1 ok hp rfl

theorem first_foldG (s : St) (dn : String) (d0 : Def) :
    ∀ (conns : List (String × XExpr)) (i : Inst) (L : Def) (ports' : List Port) (rows' : List (List (Option Nat))),
      FirstG s dn d0 i L → conns.foldlM (firstStep d0) (L.ports, i.pins) = some (ports', rows') →
      conns.foldlM (fun st c => namedConn st dn i.name L.name c.1 c.2) (tabG s dn { d0 with insts := d0.insts ++ [i] } L) =
        .ok (tabG s dn { d0 with insts := d0.insts ++ [{ i with pins := rows' }] } { L with ports := ports' }) := by
  intro conns
  induction conns with
  | nil =>
    intro i L ports' rows' _ h
    simp only [List.foldlM_nil, pure, Option.some.injEq, Prod.mk.injEq] at h
    obtain ⟨h1, h2⟩ := h
    subst h1 h2
    rfl
  | cons c cs ih =>
    intro i L ports' rows' ok h
    rw [List.foldlM_cons] at h
    cases hs : firstStep d0 (L.ports, i.pins) c with
    | none => simp [hs] at h
    | some r =>
      obtain ⟨p1, r1⟩ := r
      simp only [hs, Option.bind_eq_bind, Option.bind_some] at h
      unfold firstStep at hs
      split at hs
      · rename_i hp
        have hp' : portIdx L c.1 = none := hp
        simp only [List.foldlM_cons, bind, Except.bind]
        split at hs
        · rename_i he
          simp only [Option.some.injEq, Prod.mk.injEq] at hs
          obtain ⟨e1, e2⟩ := hs
          subst e1 e2
          rw [he, namedConn_first_emptyG s dn d0 i L c.1 ok hp']
          exact ih _ _ ports' rows' (ok.grow _ _) h
        · rename_i hne
          cases hw : exprWires d0 c.2 with
          | none => simp [hw] at hs
          | some ws =>
            simp only [hw] at hs
            split at hs
            · rename_i h1
              simp only [Option.some.injEq, Prod.mk.injEq] at hs
              obtain ⟨e1, e2⟩ := hs
              subst e1 e2
              rw [namedConn_firstG s dn d0 i L c.1 c.2 ws ok hp' hw (by intro e; exact hne e) h1]
              exact ih _ _ ports' rows' (ok.grow _ _) h
            · cases hs
      · cases hs
theorem tabG_self (s : St) (dn : String) (d0 L : Def) (hd : Has s dn d0) :
    tabG s dn d0 L = { s with defs := s.defs ++ [L] } := by
  unfold tabG
  congr 2
  conv => rhs; rw [← List.map_id s.defs]
  apply List.map_congr_left
  intro x hx
  by_cases e : x.name = dn
  · simp [e, hd.2.2 x hx e]
  · simp [e]

/-- **instantiate_firstG.**  `instantiate_first` in any table: the first instance (named port map) of a module the table
    does not contain yet — the module is appended with one port per connection, the instance's rows carry the
    expressions; no other definition changes. -/
theorem instantiate_firstG (s : St) (dn : String) (d0 : Def) (mod name : String) (params : Params) (attrs : Attrs)
    (conns : List (String × XExpr)) (ports' : List Port) (rows' : List (List (Option Nat)))
    (hd : Has s dn d0) (hfind : s.find mod = none) (htop : s.top ≠ some mod)
    (hnoref : ∀ x ∈ s.defs, ∀ j ∈ x.insts, j.ref ≠ mod) (hfresh : instIdx d0 name = none)
    (hcn : (d0.cables.map (·.name)).Nodup) (hf : conns.foldlM (firstStep d0) ([], []) = some (ports', rows')) :
    instantiate s dn mod name params attrs true (conns.map (fun c => ((some c.1 : Option String), c.2))) =
      .ok (tabG s dn { d0 with insts := d0.insts ++ [⟨name, mod, mergeP params, some attrs, rows'⟩] }
        ⟨mod, none, false, [], none, ports', [], []⟩) := by
  generalize hL0 : (⟨mod, none, false, [], none, [], [], []⟩ : Def) = L0
  have hL0n : L0.name = mod := by rw [← hL0]
  generalize hi0 : (⟨name, mod, [], some attrs, []⟩ : Inst) = i0
  have hi0n : i0.name = name := by rw [← hi0]
  have hnew : ∀ x ∈ s.defs, x.name ≠ L0.name := by rw [hL0n]; exact find_none_names s mod hfind
  have ok : FirstG s dn d0 i0 L0 :=
    ⟨hd, by rw [← hi0, hL0n], by rw [hi0n]; exact hfresh, hnew, by rw [hL0n]; exact hnoref, by rw [← hi0, ← hL0]; rfl,
     by rw [← hL0], hcn⟩
  have hens : s.ensure mod = tabG s dn d0 L0 := by
    unfold St.ensure
    rw [hfind, tabG_self s dn d0 L0 hd, ← hL0]
  have hHd : Has (tabG s dn d0 L0) dn d0 := Has_tabG_top s dn d0 d0 L0 hd hd.2.1 ok.ne
  have hHL : Has (tabG s dn d0 L0) mod L0 := by
    rw [← hL0n]; exact Has_tabG_last s dn d0 L0 hd.2.1 hnew ok.ne
  have hfold := first_foldG s dn d0 conns i0 L0 ports' rows' ok (by rw [← hL0, ← hi0]; exact hf)
  rw [hi0n, hL0n] at hfold
  have htop' : (s.top == some mod) = false := by simp [htop]
  unfold instantiate
  simp only [htop', Bool.false_eq_true, if_false, hens, bind, Except.bind, getDef_has hHL, getDef_has hHd, hfresh,
    Option.isSome_none, if_true]
  have hports0 : L0.ports = [] := by rw [← hL0]
  simp only [hports0, List.map_nil]
  rw [tabG_upd_top s dn d0 L0 _ hd.2.1 ok.ne, List.foldlM_map]
  have hst : ({ d0 with insts := d0.insts ++ [⟨name, mod, [], some attrs, []⟩] } : Def) = { d0 with insts := d0.insts ++ [i0] } := by
    rw [← hi0]
  rw [hst]
  simp only
  rw [hfold]
  simp only [pure, Except.pure]
  congr 1
  have hne0 := ok.ne
  subst hi0 hL0
  have hne1 : dn ≠ mod := hne0
  have key := tabG_upd_top s dn ({ d0 with insts := d0.insts ++ [⟨name, mod, [], some attrs, rows'⟩] } : Def)
    (⟨mod, none, false, [], none, ports', [], []⟩ : Def)
    (fun d => { d with insts := d.insts.map (fun i =>
      if i.name == name then { i with params := params.foldl (fun acc kv =>
        if acc.any (fun x => x.1 == kv.1) then acc else acc ++ [kv]) i.params } else i) }) hd.2.1 hne1
  refine key.trans ?_
  congr 1
  simp only
  congr 1
  rw [List.map_append]
  congr 1
  · conv => rhs; rw [← List.map_id d0.insts]
    apply List.map_congr_left
    intro j hj
    unfold instIdx at hfresh
    rw [List.findIdx?_eq_none_iff] at hfresh
    have := hfresh j hj
    simp only [this, Bool.false_eq_true, if_false, id]
  · simp [mergeP]
end Spydr.Verilog.Elab
