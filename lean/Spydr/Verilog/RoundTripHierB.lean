/-
  Verilog engine — proof side, part 42 (hierarchy): instances with named port maps inside any definition of any
  well-formed table (`instStep2_runG`, `insts_foldG`); the table invariant is `TableWF` (kept by every elaborator function).
-/
import Spydr.Verilog.RoundTripHierA
set_option maxHeartbeats 1600000
namespace Spydr.Verilog.Elab
open Spydr.Verilog

/-! ### instances with named port maps inside ANY definition of ANY well-formed table -/

/-- the other definitions of the table, in table order -/
def others (s : St) (dn : String) : List Def := s.defs.filter (fun x => x.name != dn)

theorem mem_others {s : St} {dn : String} {x : Def} : x ∈ others s dn ↔ x ∈ s.defs ∧ x.name ≠ dn := by
  unfold others
  simp [List.mem_filter]

theorem has_of_mem {s : St} (hwf : TableWF s) {x : Def} (hx : x ∈ s.defs) : Has s x.name x :=
  ⟨hx, rfl, fun d' hd' e => nodup_map_inj (·.name) s.defs hwf.names d' hd' x hx e⟩

theorem rowsFull_of_wf {s : St} (hwf : TableWF s) {rd : Def} (hrd : rd ∈ s.defs) : RowsFull s rd.name rd.ports.length := by
  intro x hx j hj href
  have := hwf.glob.mirror (shape x) (List.mem_map.mpr ⟨x, hx, rfl⟩) (j.ref, j.pins.map List.length)
    (List.mem_map.mpr ⟨j, hj, rfl⟩) (shape rd) (List.mem_map.mpr ⟨rd, hrd, rfl⟩) (by show rd.name = j.ref; rw [href])
  have h2 : j.pins.map List.length = rd.ports.map (fun p => p.pins.length) := this
  have := congrArg List.length h2
  simp only [List.length_map] at this
  omega

theorem noref_of_wf {s : St} (hwf : TableWF s) {mod : String} (hf : s.find mod = none) :
    ∀ x ∈ s.defs, ∀ j ∈ x.insts, j.ref ≠ mod := by
  intro x hx j hj e
  obtain ⟨sh', hsh', e'⟩ := hwf.glob.closed (shape x) (List.mem_map.mpr ⟨x, hx, rfl⟩) (j.ref, j.pins.map List.length)
    (List.mem_map.mpr ⟨j, hj, rfl⟩)
  obtain ⟨y, hy, ey⟩ := List.mem_map.mp hsh'
  have : y.name = mod := by
    have : (shape y).1 = j.ref := by rw [ey]; exact e'
    exact this.trans e
  exact find_none_names s mod hf y hy this

theorem others_map (s : St) (dn : String) (g : Def → Def) (hg : ∀ x, (g x).name = x.name) :
    (s.defs.map (fun x => if x.name == dn then g x else x)).filter (fun x => x.name != dn) = others s dn := by
  unfold others
  induction s.defs with
  | nil => rfl
  | cons a l ih =>
    simp only [List.map_cons, List.filter_cons]
    by_cases e : a.name = dn
    · have h1 : (a.name == dn) = true := by simp [e]
      have h2 : ((g a).name != dn) = false := by simp [hg, e]
      have h3 : (a.name != dn) = false := by simp [e]
      simp only [h1, h2, h3, if_true, Bool.false_eq_true, if_false]
      exact ih
    · have h1 : (a.name == dn) = false := by simp [e]
      have h3 : (a.name != dn) = true := by simp [e]
      simp only [h1, h3, if_true, Bool.false_eq_true, if_false]
      rw [ih]

theorem others_tabG (s : St) (dn : String) (d' L : Def) (hn : d'.name = dn) (hne : dn ≠ L.name) :
    others (tabG s dn d' L) dn = others s dn ++ [L] := by
  unfold others tabG
  simp only [List.filter_append]
  congr 1
  · induction s.defs with
    | nil => rfl
    | cons a l ih =>
      simp only [List.map_cons, List.filter_cons]
      by_cases e : a.name = dn
      · have h1 : (a.name == dn) = true := by simp [e]
        have h2 : (d'.name != dn) = false := by simp [hn]
        have h3 : (a.name != dn) = false := by simp [e]
        simp only [h1, h2, h3, if_true, Bool.false_eq_true, if_false]
        exact ih
      · have h1 : (a.name == dn) = false := by simp [e]
        have h3 : (a.name != dn) = true := by simp [e]
        simp only [h1, h3, if_true, Bool.false_eq_true, if_false]
        rw [ih]
  · have : ¬ L.name = dn := fun e => hne e.symm
    simp [this]

/-- **instStep2_runG.**  `instStep2_run` in any well-formed table: an instance with a named port map inside definition
    `dn`, of a module the table contains (its ports exist and are wide enough) or does not contain yet (appended). -/
theorem instStep2_runG (s : St) (dn : String) (d : Def) (i : NInst) (d' : Def) (ls' : List Def)
    (hwf : TableWF s) (hd : Has s dn d) (htop : s.top ≠ some i.mod) (hcn : (d.cables.map (·.name)).Nodup)
    (h : instStep2 d (others s dn) i = some (d', ls')) :
    ∃ s', elabItem s dn false i.item = .ok s' ∧ Has s' dn d' ∧ others s' dn = ls' ∧ s'.next = s.next ∧ s'.top = s.top ∧
      s'.acount = s.acount ∧ s'.pending = s.pending ∧ d'.name = d.name ∧ d'.cables = d.cables ∧
      ∃ new, ls' = others s dn ++ new ∧ s'.defs = s.defs.map (fun x => if x.name == dn then d' else x) ++ new := by
  unfold instStep2 at h
  split at h
  · rename_i hc
    obtain ⟨hfresh, hne⟩ := hc
    have hne' : i.mod ≠ dn := by rw [← hd.2.1]; exact hne
    cases hf : (others s dn).find? (fun l => l.name == i.mod) with
    | some rd =>
      simp only [hf, Option.map_eq_some_iff] at h
      obtain ⟨rows, hrows, hr⟩ := h
      simp only [Prod.mk.injEq] at hr
      obtain ⟨e1, e2⟩ := hr
      subst e1 e2
      have hrdm : rd ∈ s.defs := (mem_others.mp (List.mem_of_find?_eq_some hf)).1
      have hrdn : rd.name = i.mod := by simpa using List.find?_some hf
      have hHr : Has s i.mod rd := by rw [← hrdn]; exact has_of_mem hwf hrdm
      have hRF : RowsFull s i.mod rd.ports.length := by rw [← hrdn]; exact rowsFull_of_wf hwf hrdm
      obtain ⟨s', h1, h2, h3, h4, h5, h6⟩ := instantiate_named s dn i.mod i.name i.params i.attrs i.conns d rd rows hd hHr
        hne' hcn hfresh hRF hrows
      have hdefs : s'.defs = (s.upd dn (fun x => { x with insts := x.insts ++ [⟨i.name, i.mod, mergeP i.params, some i.attrs, rows⟩] })).defs := h2
      refine ⟨s', ?_, ?_, ?_, h3, ?_, h5, h4, rfl, rfl, [], by simp, ?_⟩
      · unfold NInst.item elabItem
        simp only [Bool.false_eq_true, if_false]
        exact h1
      · exact Has.of_defs hdefs (hd.upd _ (fun _ => rfl))
      · unfold others
        rw [h2]
        exact others_map s dn _ (fun _ => rfl)
      · rw [h6]
        have : (s.top == some i.mod) = false := by simp [htop]
        simp [this]
      · rw [h2, List.append_nil]
        apply List.map_congr_left
        intro x hx
        by_cases e : x.name = dn
        · simp [e, hd.2.2 x hx e]
        · simp [e]
    | none =>
      simp only [hf, Option.map_eq_some_iff] at h
      obtain ⟨r, hr, he⟩ := h
      obtain ⟨ports', rows'⟩ := r
      simp only [Prod.mk.injEq] at he
      obtain ⟨e1, e2⟩ := he
      subst e1 e2
      have hfind : s.find i.mod = none := by
        unfold St.find
        apply List.find?_eq_none.mpr
        intro x hx
        by_cases en : x.name = dn
        · simp only [beq_iff_eq]; rw [en]; exact fun e => hne' e.symm
        · have := List.find?_eq_none.mp hf x (mem_others.mpr ⟨hx, en⟩)
          exact this
      have hI := instantiate_firstG s dn d i.mod i.name i.params i.attrs i.conns ports' rows' hd hfind htop
        (noref_of_wf hwf hfind) hfresh hcn hr
      have hnel : dn ≠ (⟨i.mod, none, false, [], none, ports', [], []⟩ : Def).name := fun e => hne' e.symm
      refine ⟨_, ?_, Has_tabG_top s dn d _ _ hd hd.2.1 hnel, others_tabG s dn _ _ hd.2.1 hnel, rfl, rfl, rfl, rfl, rfl, rfl,
        [⟨i.mod, none, false, [], none, ports', [], []⟩], rfl, rfl⟩
      unfold NInst.item elabItem
      simp only [Bool.false_eq_true, if_false]
      exact hI
  · cases h

theorem insts_foldG (dn : String) : ∀ (is : List NInst) (s : St) (d d' : Def) (ls' : List Def),
    TableWF s → Has s dn d → (∀ i ∈ is, s.top ≠ some i.mod) → (d.cables.map (·.name)).Nodup →
    foldInst d (others s dn) is = some (d', ls') →
    ∃ s', (is.map NInst.item).foldlM (fun s it => elabItem s dn false it) s = .ok s' ∧ TableWF s' ∧ Has s' dn d' ∧
      others s' dn = ls' ∧ s'.next = s.next ∧ s'.top = s.top ∧ s'.acount = s.acount ∧ s'.pending = s.pending ∧
      d'.name = d.name ∧ d'.cables = d.cables ∧
      ∃ new, ls' = others s dn ++ new ∧ s'.defs = s.defs.map (fun x => if x.name == dn then d' else x) ++ new := by
  intro is
  induction is with
  | nil =>
    intro s d d' ls' hwf hd _ _ h
    simp only [foldInst, Option.some.injEq, Prod.mk.injEq] at h
    obtain ⟨h1, h2⟩ := h
    subst h1 h2
    refine ⟨s, rfl, hwf, hd, rfl, rfl, rfl, rfl, rfl, rfl, rfl, [], by simp, ?_⟩
    rw [List.append_nil]
    conv => lhs; rw [← List.map_id s.defs]
    apply List.map_congr_left
    intro x hx
    by_cases e : x.name = dn
    · simp [e, hd.2.2 x hx e]
    · simp [e]
  | cons i is ih =>
    intro s d d' ls' hwf hd htop hcn h
    unfold foldInst at h
    cases hs : instStep2 d (others s dn) i with
    | none => simp [hs] at h
    | some r =>
      obtain ⟨d1, ls1⟩ := r
      simp only [hs] at h
      obtain ⟨s1, g1, g2, g3, g4, g5, g6, g7, g8, g9, new1, gn1, gd1⟩ := instStep2_runG s dn d i d1 ls1 hwf hd
        (htop i List.mem_cons_self) hcn hs
      have hwf1 : TableWF s1 := elabItem_wf s s1 dn false i.item hwf g1
      rw [← g3] at h
      obtain ⟨s2, f1, f2, f3, f4, f5, f6, f7, f8, f9, f10, new2, fn2, fd2⟩ := ih s1 d1 d' ls' hwf1 g2
        (fun j hj => by rw [g5]; exact htop j (List.mem_cons_of_mem _ hj)) (by rw [g9]; exact hcn) h
      refine ⟨s2, ?_, f2, f3, f4, f5.trans g4, f6.trans g5, f7.trans g6, f8.trans g7, f9.trans g8, f10.trans g9,
        new1 ++ new2, ?_, ?_⟩
      · simp only [List.map_cons, List.foldlM_cons, bind, Except.bind, g1]
        exact f1
      · rw [fn2, g3, gn1, List.append_assoc]
      · rw [fd2, gd1, List.map_append, List.map_map, List.append_assoc]
        congr 1
        · apply List.map_congr_left
          intro x _
          simp only [Function.comp]
          by_cases e : x.name = dn
          · simp [e, g8, hd.2.1]
          · simp [e]
        · congr 1
          -- the new stubs are not named `dn`
          conv => rhs; rw [← List.map_id new1]
          apply List.map_congr_left
          intro x hx
          have hxm : x ∈ others s1 dn := by rw [g3, gn1]; exact List.mem_append_right _ hx
          have := (mem_others.mp hxm).2
          simp [this]
end Spydr.Verilog.Elab
