/-
  Verilog engine — proof side, part 43 (hierarchy): a body port declaration WITH attributes on a module declared after its
  instances (`declStepA_run`), the declaration fold (`decl_foldA`) and the wire-declaration fold in any table (`wire_foldG`).
-/
import Spydr.Verilog.RoundTripHierB
set_option maxHeartbeats 1600000
namespace Spydr.Verilog.Elab
open Spydr.Verilog

/-! ### a body port declaration WITH attributes of a module declared after its instances (work modules keep them) -/

def grownPLA (P : Port) (rng : Option (Int × Int)) (ws : List Nat) (dir : Dir) (attrs : Attrs) : Port :=
  { P with lower := declLo rng P.lower, pins := ws.map some, dir := dir, attrs := if attrs.isEmpty then P.attrs else some attrs }

theorem map_set_same' {α β : Type} (l : List α) (k : Nat) (hk : k < l.length) (y : α) (f : α → β) (h : f y = f l[k]) :
    (l.set k y).map f = l.map f := by
  apply List.ext_getElem?
  intro j
  rw [List.map_set]
  by_cases ej : j = k
  · subst ej
    rw [List.getElem?_set_self (by simpa using hk), List.getElem?_map, List.getElem?_eq_getElem hk, h]
    rfl
  · rw [List.getElem?_set_ne (by omega)]

/-- `dir [msb:lsb] name ;` in the body of a primitive whose port `name` exists with its net: both grow at the high
    end to the declared range, every instance row of that port grows with them -/
def declStepA (d : Def) (n : Nat) (p : PDecl) : Option (Def × Nat × Nat × Nat) :=
  match portIdx d p.name, d.cables.find? (fun c => c.name == p.name) with
  | some k, some c0 =>
    if (d.ports.getD k default).pins = c0.wires.map some ∧ (d.ports.getD k default).name = some p.name ∧
        1 ≤ c0.wires.length ∧ lenOKb p.rng c0.wires.length = true ∧ (d.cables.map (·.name)).Nodup ∧
        (d.ports.map (·.name)).Nodup ∧
        ownsLb d k c0.wires n = true then
      some ({ d with
        ports := d.ports.set k (grownPLA (d.ports.getD k default) p.rng (c0.wires ++ ids n (declPost p.rng c0.wires.length)) p.dir p.attrs),
        cables := d.cables.map (fun y => if y.name == p.name then grownL c0 p.rng n else y) },
        n + declPost p.rng c0.wires.length, k, declPost p.rng c0.wires.length)
    else none
  | _, _ => none

theorem declStepA_run (dn : String) (s : St) (d : Def) (p : PDecl) (d' : Def) (n' k post : Nat)
    (hd : Has s dn d) (hi : d.insts = []) (h : declStepA d s.next p = some (d', n', k, post)) :
    portDecl s dn p.dir none p.rng p.name p.attrs = .ok ((padS s dn k post).put dn d' n') ∧ d'.name = d.name ∧ d'.insts = d.insts ∧
      d'.ports.length = d.ports.length ∧ k < d.ports.length := by
  unfold declStepA at h
  split at h
  · rename_i k0 c0 hk hc
    split at h
    · rename_i hcond
      obtain ⟨hpins, hpn, hlen, hok, hnc, hnp, hown⟩ := hcond
      simp only [Option.some.injEq, Prod.mk.injEq] at h
      obtain ⟨h1, h2, h3, h4⟩ := h
      subst h1 h2 h3 h4
      have hklt := portIdx_lt hk
      refine ⟨?_, rfl, rfl, by simp, hklt⟩
      have hok' := lenOK_of_b _ _ hok
      have hC0 := hasCable_of_find hnc hc
      generalize hP : d.ports.getD k0 default = P at hpins hpn ⊢
      have hPl : P.pins.length = c0.wires.length := by rw [hpins]; simp
      generalize hpost : declPost p.rng c0.wires.length = post at *
      -- 1. the net
      generalize hC : grownL c0 p.rng s.next = C
      have hCn : C.name = p.name := by rw [← hC]; exact hC0.2.1
      have hCl : C.lower = declLo p.rng c0.lower := by rw [← hC]; rfl
      have hCw : C.wires = c0.wires ++ ids s.next post := by rw [← hC]; simp [grownL, hpost]
      have hCwl : C.wires.length = c0.wires.length + post := by rw [hCw]; simp [ids]
      have h1 := cable_growL s dn p.name d p.rng c0 hd hC0 hok'
      rw [hC, hpost] at h1
      have hd1 : Has (s.put dn (setCable p.name C d) (s.next + post)) dn (setCable p.name C d) := hd.put _ _ rfl
      have hfc1 : (setCable p.name C d).cables.find? (fun x => x.name == p.name) = some C := find_setCable d p.name c0 C hC0 hCn
      -- 2. the port that owns the wires
      have hgw : getWires ⟨C.lower, C.wires⟩ (rngL p.rng) (rngR p.rng) = some C.wires.reverse := by
        rw [hCl]; exact getWires_decl p.rng c0.lower c0.wires.length hok' C.wires (by rw [hCwl, hpost])
      have hown' := ownsLb_spec d k0 c0.wires s.next hown
      have hpow : portsOnWires (setCable p.name C d) C.wires.reverse = [k0] := by
        unfold portsOnWires
        apply filter_range_single _ _ k0 hklt
        · show ((d.ports.getD k0 default).pins.any _) = true
          rw [hP, hpins, hCw]
          obtain ⟨w0, rest, e⟩ : ∃ w0 rest, c0.wires = w0 :: rest := by
            cases hw : c0.wires with
            | nil => rw [hw] at hlen; simp at hlen
            | cons a b => exact ⟨a, b, rfl⟩
          rw [e]; simp
        · intro j hj hne
          show ((d.ports.getD j default).pins.any _) = false
          rw [List.any_eq_false]
          intro q hq
          cases q with
          | none => simp
          | some w =>
            obtain ⟨g1, g2⟩ := hown' j hj hne w hq
            have hnot : w ∉ C.wires := by
              rw [hCw]
              intro hm
              rcases List.mem_append.mp hm with hm | hm
              · exact g1 hm
              · have := ids_ge _ _ _ hm; omega
            simp [hnot]
      have hnm : ((setCable p.name C d).ports.getD k0 default).name.getD "" = p.name := by
        show ((d.ports.getD k0 default).name).getD "" = p.name
        rw [hP, hpn]; rfl
      -- 3. the port grows
      have hk1 : portIdx (setCable p.name C d) p.name = some k0 := hk
      have h3 := port_growL (s.put dn (setCable p.name C d) (s.next + post)) dn p.name (setCable p.name C d) k0 p.dir p.rng P
        hd1 hi hk1 hP (by rw [hPl]; exact hok')
      rw [hPl, hpost] at h3
      generalize hP1 : ({ P with lower := declLo p.rng P.lower, pins := P.pins ++ List.replicate post none, dir := p.dir } : Port) = P1 at h3
      have hP1n : P1.name = some p.name := by rw [← hP1]; exact hpn
      have hP1p : P1.pins = c0.wires.map some ++ List.replicate post none := by rw [← hP1, hpins]
      unfold padS at h3
      rw [mapInstRows_put _ _ _ _ _ _ (by exact hi), St.put_put _ _ _ _ _ _ (by exact hd.2.1), put_next] at h3
      have hdp : Has (mapInstRows s dn k0 (padRow post)) dn d := hd.mapRows hi dn k0 _
      have hd3 : Has ((mapInstRows s dn k0 (padRow post)).put dn (putPort k0 P1 (setCable p.name C d)) (s.next + post)) dn
          (putPort k0 P1 (setCable p.name C d)) := hdp.put _ _ rfl
      have hfc3 : (putPort k0 P1 (setCable p.name C d)).cables.find? (fun x => x.name == p.name) = some C := hfc1
      have hk3 : portIdx (putPort k0 P1 (setCable p.name C d)) p.name = some k0 := portIdx_set_same _ p.name k0 P1 hk1 hP1n
      have hget3 : (putPort k0 P1 (setCable p.name C d)).ports.getD k0 default = P1 := by
        simp [putPort, setCable, List.getD, List.getElem?_set_self hklt]
      -- 4. attributes
      generalize hP2 : ({ P1 with attrs := if p.attrs.isEmpty then P1.attrs else some p.attrs } : Port) = P2
      have hP2n : P2.name = some p.name := by rw [← hP2]; exact hP1n
      have hP2p : P2.pins = c0.wires.map some ++ List.replicate post none := by rw [← hP2]; exact hP1p
      have hklt1 : k0 < (setCable p.name C d).ports.length := hklt
      have h4 : (if p.attrs.isEmpty = true then
            (mapInstRows s dn k0 (padRow post)).put dn (putPort k0 P1 (setCable p.name C d)) (s.next + post)
          else ((mapInstRows s dn k0 (padRow post)).put dn (putPort k0 P1 (setCable p.name C d)) (s.next + post)).upd dn
            (fun d => { d with ports := d.ports.map (fun q =>
              if q.name == some p.name then { q with attrs := some p.attrs } else q) })) =
          (mapInstRows s dn k0 (padRow post)).put dn (putPort k0 P2 (setCable p.name C d)) (s.next + post) := by
        split
        · rename_i he
          rw [← hP2]; simp only [he, if_true]
        · rename_i he
          rw [put_upd _ _ _ _ _ (by exact hd.2.1)]
          congr 1
          simp only [putPort, setCable]
          congr 1
          have hlen' : k0 < (d.ports.set k0 P1).length := by simpa using hklt
          have hnd : ((d.ports.set k0 P1).map (·.name)).Nodup := by
            have : (d.ports.set k0 P1).map (·.name) = d.ports.map (·.name) := by
              apply map_set_same' d.ports k0 hklt P1 (·.name)
              have hg : d.ports.getD k0 default = d.ports[k0] := by
                rw [List.getD_eq_getElem?_getD, List.getElem?_eq_getElem hklt]; rfl
              exact hP1n.trans ((congrArg Port.name (hg.symm.trans hP)).trans hpn).symm
            rw [this]; exact hnp
          rw [map_attr_single (d.ports.set k0 P1) k0 p.name P1 p.attrs hnd hlen'
            (by simp [List.getD, List.getElem?_set_self hklt]) hP1n]
          rw [List.set_set, ← hP2]
          simp [he]
      have hd4 : Has ((mapInstRows s dn k0 (padRow post)).put dn (putPort k0 P2 (setCable p.name C d)) (s.next + post)) dn
          (putPort k0 P2 (setCable p.name C d)) := hdp.put _ _ rfl
      have hfc4 : (putPort k0 P2 (setCable p.name C d)).cables.find? (fun x => x.name == p.name) = some C := hfc1
      have hk4 : portIdx (putPort k0 P2 (setCable p.name C d)) p.name = some k0 := portIdx_set_same _ p.name k0 P2 hk1 hP2n
      have hget4 : (putPort k0 P2 (setCable p.name C d)).ports.getD k0 default = P2 := by
        simp [putPort, setCable, List.getD, List.getElem?_set_self hklt]
      -- assemble
      unfold portDecl
      simp only [bind, Except.bind, h1, getDef_has hd1, hfc1, hgw, hpow, hnm, h3, pure, Except.pure]
      rw [h4]
      simp only [getDef_has hd4, hfc4, hk4, hget4]
      unfold padS
      by_cases hex : C.wires.length > 1
      · simp only [hex, if_true]
        have hpl : (P2.pins.length != C.wires.length) = false := by
          rw [hP2p, hCwl]; simp
        simp only [hpl, Bool.false_eq_true, if_false]
        generalize hF : List.foldl _ P2.pins (List.range C.wires.length) = F
        have hFe : F = C.wires.map some := by
          rw [← hF]
          apply fill_all C.wires
          · intro row i v h; simp only [h]
          · intro row i h; simp only [h]
          · rw [hP2p, hCwl]; simp
          · intro i hi'
            rw [hP2p, hCw]
            by_cases hil : i < c0.wires.length
            · right
              rw [List.getD_eq_getElem?_getD, List.getD_eq_getElem?_getD,
                List.getElem?_append_left (by simpa using hil), List.getElem?_append_left hil, List.getElem?_map,
                List.getElem?_eq_getElem hil]
              rfl
            · left
              rw [List.getD_eq_getElem?_getD, List.getElem?_append_right (by simp; omega), List.getElem?_replicate]
              split <;> rfl
        rw [hFe, put_upd _ _ _ _ _ (by exact hd.2.1)]
        congr 2
        simp only [putPort, setCable, List.set_set]
        congr 2
        rw [← hP2, ← hP1]; simp [grownPLA, hCw]
      · simp only [hex, if_false]
        congr 2
        have hp0 : post = 0 := by omega
        simp only [putPort, setCable]
        congr 2
        rw [← hP2, ← hP1, hpins, hp0]
        simp [grownPLA, ids]
    · cases h
  · cases h

/-! ### the folds -/

def foldDeclA : Def → Nat → List PDecl → Option (Def × Nat × List (Nat × Nat))
  | d, n, [] => some (d, n, [])
  | d, n, p :: ps =>
    match declStepA d n p with
    | some r => (foldDeclA r.1 r.2.1 ps).map (fun q => (q.1, q.2.1, (r.2.2.1, r.2.2.2) :: q.2.2))
    | none => none

theorem decl_foldA (dn : String) : ∀ (ps : List PDecl) (s : St) (d d' : Def) (n' : Nat) (ops : List (Nat × Nat)),
    Has s dn d → d.insts = [] → foldDeclA d s.next ps = some (d', n', ops) →
    ps.foldlM (fun s p => elabItem s dn false p.item) s = .ok ((padOps s dn ops).put dn d' n') ∧ d'.name = d.name ∧
      d'.insts = [] ∧ d'.ports.length = d.ports.length ∧ ∀ op ∈ ops, op.1 < d.ports.length := by
  intro ps
  induction ps with
  | nil =>
    intro s d d' n' ops hd hi h
    simp only [foldDeclA, Option.some.injEq, Prod.mk.injEq] at h
    obtain ⟨h1, h2, h3⟩ := h
    subst h1 h2 h3
    refine ⟨?_, rfl, hi, rfl, by intro op hop; cases hop⟩
    simp only [List.foldlM_nil, pure, Except.pure, padOps, List.foldl_nil]
    rw [St.put_self s dn d hd]
  | cons p ps ih =>
    intro s d d' n' ops hd hi h
    unfold foldDeclA at h
    cases hs : declStepA d s.next p with
    | none => simp [hs] at h
    | some r =>
      obtain ⟨d1, n1, k, post⟩ := r
      simp only [hs, Option.map_eq_some_iff] at h
      obtain ⟨q, hq, he⟩ := h
      obtain ⟨d2, n2, ops2⟩ := q
      simp only [Prod.mk.injEq] at he
      obtain ⟨e1, e2, e3⟩ := he
      subst e1 e2 e3
      obtain ⟨g1, g2, g3, g4, g5⟩ := declStepA_run dn s d p d1 n1 k post hd hi hs
      have hi1 : d1.insts = [] := by rw [g3, hi]
      have hdp : Has (padS s dn k post) dn d := hd.mapRows hi dn k _
      have hd1 : Has ((padS s dn k post).put dn d1 n1) dn d1 := hdp.put d1 n1 g2
      obtain ⟨f1, f2, f3, f4, f5⟩ := ih ((padS s dn k post).put dn d1 n1) d1 d2 n2 ops2 hd1 hi1 (by rw [put_next]; exact hq)
      refine ⟨?_, f2.trans g2, f3, f4.trans g4, ?_⟩
      · have hstep : elabItem s dn false p.item = .ok ((padS s dn k post).put dn d1 n1) := by
          unfold PDecl.item elabItem
          simpa using g1
        simp only [List.foldlM_cons, bind, Except.bind, hstep]
        rw [f1, padOps_put dn d1 hi1, St.put_put _ dn d1 d2 n1 n2 (by rw [g2, hd.2.1])]
        rfl
      · intro op hop
        rcases List.mem_cons.mp hop with e | e
        · rw [e]; exact g5
        · have := f5 op e; omega

theorem wireStep_runG (dn : String) (s : St) (d : Def) (w : FWire) (d' : Def) (n' : Nat)
    (hd : Has s dn d) (h : wireStep d s.next w = some (d', n')) :
    elabItem s dn false w.item = .ok (s.put dn d' n') ∧ d'.name = d.name ∧ d'.insts = d.insts ∧ d'.ports = d.ports := by
  unfold wireStep at h
  split at h
  · rename_i hc
    simp only [Option.some.injEq, Prod.mk.injEq] at h
    obtain ⟨h1, h2⟩ := h
    subst h1 h2
    refine ⟨?_, rfl, rfl, rfl⟩
    rw [wireDecl_new s dn d w hd hc, upd_eq_put s dn d _ _ hd]
  · rename_i c hc
    split at h
    · rename_i hcond
      obtain ⟨hin, hnc⟩ := hcond
      simp only [Option.some.injEq, Prod.mk.injEq] at h
      obtain ⟨h1, h2⟩ := h
      subst h1 h2
      refine ⟨?_, rfl, rfl, rfl⟩
      have hC := hasCable_of_find hnc hc
      unfold FWire.item elabItem
      simp only [Bool.false_eq_true, if_false, bind, Except.bind]
      unfold createOrUpdateCable
      rw [getDef_has hd]
      simp only [bind, Except.bind, hc, resizeCable_inside _ _ _ _ hin, fresh_zero, pure, Except.pure]
      congr 1
      unfold setCableAttrs
      rw [St.upd_upd s dn]
      · have hw : ∀ (g : Def → Def), s.upd dn g = withNext (s.upd dn g) s.next := by intro g; cases s; rfl
        rw [hw, upd_eq_put s dn d _ _ hd]
        congr 1
        simp only [List.map_map]
        congr 1
        apply List.map_congr_left
        intro y hy
        simp only [Function.comp]
        by_cases e : y.name = w.name
        · simp [e, hC.2.1]
        · simp [e]
      · intro x; rfl
    · cases h

theorem wire_foldG (dn : String) : ∀ (ws : List FWire) (s : St) (d d' : Def) (n' : Nat),
    Has s dn d → foldLocal wireStep d s.next ws = some (d', n') →
    ws.foldlM (fun s w => elabItem s dn false w.item) s = .ok (s.put dn d' n') ∧ d'.name = d.name ∧
      d'.insts = d.insts ∧ d'.ports = d.ports := by
  intro ws
  induction ws with
  | nil =>
    intro s d d' n' hd h
    simp only [foldLocal, Option.some.injEq, Prod.mk.injEq] at h
    obtain ⟨h1, h2⟩ := h
    subst h1 h2
    refine ⟨?_, rfl, rfl, rfl⟩
    simp only [List.foldlM_nil, pure, Except.pure]
    rw [St.put_self s dn d hd]
  | cons w ws ih =>
    intro s d d' n' hd h
    unfold foldLocal at h
    cases hs : wireStep d s.next w with
    | none => simp [hs] at h
    | some r =>
      obtain ⟨d1, n1⟩ := r
      simp only [hs] at h
      obtain ⟨g1, g2, g3, g4⟩ := wireStep_runG dn s d w d1 n1 hd hs
      have hd1 : Has (s.put dn d1 n1) dn d1 := hd.put d1 n1 g2
      obtain ⟨f1, f2, f3, f4⟩ := ih (s.put dn d1 n1) d1 d' n' hd1 (by rw [put_next]; exact h)
      refine ⟨?_, f2.trans g2, f3.trans g3, f4.trans g4⟩
      simp only [List.foldlM_cons, bind, Except.bind, g1]
      rw [f1, St.put_put s dn d1 d' n1 n' (by rw [g2, hd.2.1])]
end Spydr.Verilog.Elab
