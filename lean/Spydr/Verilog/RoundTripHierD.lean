/-
  Verilog engine — proof side, part 44 (hierarchy): a whole WORK module declared after it was instantiated, through the real
  `elabModule` in any well-formed table (`elabModule_lateW`); the pure builder `buildLateW`.
-/
import Spydr.Verilog.RoundTripHierC
set_option maxHeartbeats 1600000
namespace Spydr.Verilog.Elab
open Spydr.Verilog

/-! ### a WORK module declared after it was instantiated -/

theorem padOpsD_name (D : Def) (dn : String) (ops : List (Nat × Nat)) : (padOpsD D dn ops).name = D.name := rfl

theorem padS_defs (s : St) (dn : String) (k post : Nat) : (padS s dn k post).defs = s.defs.map (fun x => padD x dn k post) := rfl

theorem padOpsD_cons (D : Def) (dn : String) (op : Nat × Nat) (ops : List (Nat × Nat)) :
    padOpsD (padD D dn op.1 op.2) dn ops = padOpsD D dn (op :: ops) := by
  simp only [padOpsD, padD, List.map_map]
  congr 1

theorem padOpsD_nil (D : Def) (dn : String) : padOpsD D dn [] = D := by
  have hid : padOpsI dn [] = id := by funext i; rfl
  simp only [padOpsD, hid, List.map_id]

theorem padOps_defs (dn : String) : ∀ (ops : List (Nat × Nat)) (s : St),
    (padOps s dn ops).defs = s.defs.map (fun x => padOpsD x dn ops) ∧ (padOps s dn ops).next = s.next ∧
      (padOps s dn ops).top = s.top ∧ (padOps s dn ops).acount = s.acount ∧ (padOps s dn ops).pending = s.pending := by
  intro ops
  induction ops with
  | nil =>
    intro s
    refine ⟨?_, rfl, rfl, rfl, rfl⟩
    simp only [padOps, List.foldl_nil]
    conv => lhs; rw [← List.map_id s.defs]
    apply List.map_congr_left
    intro x _
    rw [padOpsD_nil]; rfl
  | cons op ops ih =>
    intro s
    obtain ⟨h1, h2, h3, h4, h5⟩ := ih (padS s dn op.1 op.2)
    simp only [padOps, List.foldl_cons] at h1 h2 h3 h4 h5 ⊢
    refine ⟨?_, h2, h3, h4, h5⟩
    rw [h1, padS_defs, List.map_map]
    apply List.map_congr_left
    intro x _
    exact padOpsD_cons x dn op ops

theorem Has.padOps {s : St} {dn : String} {d : Def} (h : Has s dn d) (hi : d.insts = []) : ∀ (ops : List (Nat × Nat)),
    Has (Elab.padOps s dn ops) dn d := by
  intro ops
  induction ops generalizing s with
  | nil => exact h
  | cons op ops ih =>
    simp only [Elab.padOps, List.foldl_cons]
    exact ih (h.mapRows hi dn op.1 _)

theorem acount_eta (s : St) (h : s.acount = 0) : ({ s with acount := 0 } : St) = s := by
  cases s; simp_all

/-- the definition a work module declared after its instances ends with (pure), the other definitions (instance rows
    padded, new modules appended), the wire counter and the row paddings -/
def buildLateW (L : Def) (ls : List Def) (n : Nat) (m : WModI) (topName : String) :
    Option (Def × List Def × Nat × List (Nat × Nat)) :=
  if L.lib = none ∧ L.insts = [] ∧ L.ports.map (·.name) = (m.ports.map (·.name)).map some ∧
      (m.ports.map (·.name)).Nodup ∧ m.insts.all (fun i => i.mod != topName) = true then
    match foldLocal hdrStepL { L with lib := some "work" } n (m.ports.map (·.name)) with
    | none => none
    | some r1 =>
      match foldDeclA r1.1 r1.2 m.ports with
      | none => none
      | some r2 =>
        match foldLocal wireStep r2.1 r2.2.1 m.wires with
        | none => none
        | some r3 =>
          if (r3.1.cables.map (·.name)).Nodup then
            match foldInst r3.1 (ls.map (fun x => padOpsD x m.name r2.2.2)) m.insts with
            | none => none
            | some r4 => some (withAttrs m.attrs r4.1, r4.2, r3.2, r2.2.2)
          else none
  else none

theorem others_put_padOps (s : St) (dn : String) (d : Def) (n : Nat) (ops : List (Nat × Nat)) (hn : d.name = dn) :
    others ((padOps s dn ops).put dn d n) dn = (others s dn).map (fun x => padOpsD x dn ops) := by
  unfold others St.put withNext St.upd
  simp only
  rw [(padOps_defs dn ops s).1, List.map_map]
  induction s.defs with
  | nil => rfl
  | cons a l ih =>
    simp only [List.map_cons, List.filter_cons, Function.comp]
    by_cases e : a.name = dn
    · have h1 : ((padOpsD a dn ops).name == dn) = true := by simp [padOpsD_name, e]
      have h2 : (d.name != dn) = false := by simp [hn]
      have h3 : (a.name != dn) = false := by simp [e]
      simp only [h1, h2, h3, if_true, Bool.false_eq_true, if_false]
      exact ih
    · have h1 : ((padOpsD a dn ops).name == dn) = false := by simp [padOpsD_name, e]
      have h2 : ((padOpsD a dn ops).name != dn) = true := by simp [padOpsD_name, e]
      have h3 : (a.name != dn) = true := by simp [e]
      simp only [h1, h2, h3, if_true, Bool.false_eq_true, if_false, List.map_cons]
      rw [ih]

theorem defs_put_padOps (s : St) (dn : String) (d : Def) (n : Nat) (ops : List (Nat × Nat)) :
    ((padOps s dn ops).put dn d n).defs = s.defs.map (fun x => if x.name == dn then d else padOpsD x dn ops) := by
  unfold St.put withNext St.upd
  simp only
  rw [(padOps_defs dn ops s).1, List.map_map]
  apply List.map_congr_left
  intro x _
  show (if ((padOpsD x dn ops).name == dn) = true then d else padOpsD x dn ops) = _
  rw [padOpsD_name]

/-- **elabModule_lateW.**  A whole WORK module in the writer's shape, declared after other modules instantiated it,
    through the real `elabModule`, in any well-formed table: its stub becomes the pure `buildLateW`, the instance rows of
    the other definitions are padded, the modules it instantiates first are appended. -/
theorem elabModule_lateW (s : St) (m : WModI) (t : String) (L D : Def) (ls' : List Def) (n' : Nat) (ops : List (Nat × Nat))
    (hwf : TableWF s) (hL : Has s m.name L) (htop : s.top = some t) (hac : s.acount = 0)
    (hb : buildLateW L (others s m.name) s.next m t = some (D, ls', n', ops)) :
    ∃ s', elabModule s m.toModule = .ok s' ∧ TableWF s' ∧ Has s' m.name D ∧ others s' m.name = ls' ∧ s'.next = n' ∧
      s'.top = s.top ∧ s'.acount = 0 ∧ s'.pending = s.pending ∧
      ∃ new, ls' = (others s m.name).map (fun x => padOpsD x m.name ops) ++ new ∧
        s'.defs = s.defs.map (fun x => if x.name == m.name then D else padOpsD x m.name ops) ++ new := by
  unfold buildLateW at hb
  split at hb
  · rename_i hc
    obtain ⟨hlib, hi, hnames, hnd, hmods⟩ := hc
    generalize hL1 : ({ L with lib := some "work" } : Def) = L1 at hb
    have hL1n : L1.name = L.name := by rw [← hL1]
    have hL1i : L1.insts = [] := by rw [← hL1]; exact hi
    have hL1p : L1.ports = L.ports := by rw [← hL1]
    cases h1 : foldLocal hdrStepL L1 s.next (m.ports.map (·.name)) with
    | none => simp [h1] at hb
    | some r1 =>
      obtain ⟨d1, n1⟩ := r1
      simp only [h1] at hb
      cases h2 : foldDeclA d1 n1 m.ports with
      | none => simp [h2] at hb
      | some r2 =>
        obtain ⟨d2, n2, ops2⟩ := r2
        simp only [h2] at hb
        cases h3 : foldLocal wireStep d2 n2 m.wires with
        | none => simp [h3] at hb
        | some r3 =>
          obtain ⟨d3, n3⟩ := r3
          simp only [h3] at hb
          split at hb
          · rename_i hcn
            cases h4 : foldInst d3 ((others s m.name).map (fun x => padOpsD x m.name ops2)) m.insts with
            | none => simp [h4] at hb
            | some r4 =>
              obtain ⟨d4, ls4⟩ := r4
              simp only [h4, Option.some.injEq, Prod.mk.injEq] at hb
              obtain ⟨e1, e2, e3, e4⟩ := hb
              subst e1 e2 e3 e4
              -- entry
              have hLmem : L ∈ s.defs := hL.1
              have hens : s.ensure m.name = s := by unfold St.ensure; rw [hL.find]
              have hs1 : ∀ g : Def → Def, g L = L1 → s.upd m.name g = s.put m.name L1 s.next := by
                intro g hg
                have := upd_eq_put s m.name L g s.next hL
                rw [hg] at this; rw [← this]; cases s; rfl
              generalize hS1 : s.put m.name L1 s.next = S1
              have hS1wf : TableWF S1 := by
                rw [← hS1, ← hs1 (fun d => { d with lib := some "work" }) hL1]
                exact upd_meta_wf s m.name _ (fun _ => rfl) (fun _ => rfl) (fun _ => rfl) (fun _ => rfl) hwf
              have hH1 : Has S1 m.name L1 := by rw [← hS1]; exact hL.put L1 _ hL1n
              have hR1 : RowsFull S1 m.name L1.ports.length := by
                rw [← hS1, hL1p]
                have := rowsFull_of_wf hwf hLmem
                rw [hL.2.1] at this
                exact this.put _ _ _ hL1i
              have hS1n : S1.next = s.next := by rw [← hS1]; rfl
              -- header
              obtain ⟨g1, g2, g3, g4⟩ := hdr_foldL m.name (m.ports.map (·.name)) S1 L1 d1 n1 hH1 hL1i hR1 (by rw [hS1n]; exact h1)
              have hS2 : S1.put m.name d1 n1 = s.put m.name d1 n1 := by
                rw [← hS1, St.put_put s m.name L1 d1 _ _ (by rw [hL1n, hL.2.1])]
              rw [hS2] at g1
              have hH2 : Has (s.put m.name d1 n1) m.name d1 := hL.put d1 _ (g2.trans hL1n)
              have hwf2 : TableWF (s.put m.name d1 n1) := by
                apply foldlM_wf _ (fun a b c hw hh => headerPort_wf a c m.name ⟨b, none, none, none⟩ hw hh) _ _ _ hS1wf g1
              -- reorder
              have hd1names : d1.ports.map (·.name) = (m.ports.map (·.name)).map some := by
                rw [foldLocal_pres (fun d => d.ports.map (·.name)) hdrStepL hdrStepL_names _ _ _ _ _ h1, hL1p]
                exact hnames
              have hR : reorderPorts (s.put m.name d1 n1) m.name (m.ports.map (·.name)) = .ok (s.put m.name d1 n1) :=
                reorderPorts_id _ m.name d1 _ hH2 (filterMap_portIdx d1.ports _ hd1names hnd)
              -- body port declarations
              obtain ⟨f1, f2, f3, f4, f5⟩ := decl_foldA m.name m.ports (s.put m.name d1 n1) d1 d2 n2 ops2 hH2 g3
                (by rw [put_next]; exact h2)
              rw [padOps_put m.name d1 g3, St.put_put _ m.name d1 d2 _ _ (by rw [g2, hL1n, hL.2.1])] at f1
              have hHp : Has (padOps s m.name ops2) m.name L := hL.padOps hi ops2
              have hH3 : Has ((padOps s m.name ops2).put m.name d2 n2) m.name d2 :=
                hHp.put d2 _ ((f2.trans g2).trans hL1n)
              -- nets
              obtain ⟨w1, w2, w3, w4⟩ := wire_foldG m.name m.wires ((padOps s m.name ops2).put m.name d2 n2) d2 d3 n3 hH3
                (by rw [put_next]; exact h3)
              rw [St.put_put _ m.name d2 d3 _ _ (by rw [f2, g2, hL1n, hL.2.1])] at w1
              generalize hS3 : (padOps s m.name ops2).put m.name d3 n3 = S3 at w1
              have hd3n : d3.name = m.name := (((w2.trans f2).trans g2).trans hL1n).trans hL.2.1
              have hH4 : Has S3 m.name d3 := by rw [← hS3]; exact hHp.put d3 _ (hd3n.trans hL.2.1.symm)
              have hwf3a : TableWF ((padOps s m.name ops2).put m.name d2 n2) :=
                foldlM_wf _ (fun a b c hw hh => elabItem_wf a c m.name false b.item hw hh) _ _ _ hwf2 f1
              have hwf3 : TableWF S3 :=
                foldlM_wf _ (fun a b c hw hh => elabItem_wf a c m.name false b.item hw hh) _ _ _ hwf3a w1
              have hS3o : others S3 m.name = (others s m.name).map (fun x => padOpsD x m.name ops2) := by
                rw [← hS3]; exact others_put_padOps s m.name d3 n3 ops2 hd3n
              have hS3top : S3.top = some t := by rw [← hS3]; show (padOps s m.name ops2).top = _; rw [(padOps_defs m.name ops2 s).2.2.1]; exact htop
              have hS3ac : S3.acount = 0 := by rw [← hS3]; show (padOps s m.name ops2).acount = _; rw [(padOps_defs m.name ops2 s).2.2.2.1]; exact hac
              have hS3p : S3.pending = s.pending := by rw [← hS3]; show (padOps s m.name ops2).pending = _; rw [(padOps_defs m.name ops2 s).2.2.2.2]
              have hS3d : S3.defs = s.defs.map (fun x => if x.name == m.name then d3 else padOpsD x m.name ops2) := by
                rw [← hS3]; exact defs_put_padOps s m.name d3 n3 ops2
              -- instances
              obtain ⟨S4, i1, i2, i3, i4, i5, i6, i7, i8, i9, i10, new, in1, in2⟩ := insts_foldG m.name m.insts S3 d3 d4 ls4 hwf3 hH4
                (by
                  intro i hi'
                  rw [hS3top]
                  have := List.all_eq_true.mp hmods i hi'
                  intro e
                  have : i.mod = t := (Option.some.inj e).symm
                  simp [this] at *)
                hcn (by rw [hS3o]; exact h4)
              -- attributes
              have hfin : ∃ s', (if m.attrs.isEmpty = true then S4 else S4.upd m.name (fun d => { d with attrs := some m.attrs })) = s' ∧
                  TableWF s' ∧ Has s' m.name (withAttrs m.attrs d4) ∧ others s' m.name = ls4 ∧ s'.next = S4.next ∧
                  s'.top = S4.top ∧ s'.acount = S4.acount ∧ s'.pending = S4.pending ∧
                  s'.defs = S4.defs.map (fun x => if x.name == m.name then withAttrs m.attrs d4 else x) := by
                unfold withAttrs
                split
                · refine ⟨S4, rfl, i2, i3, i4, rfl, rfl, rfl, rfl, ?_⟩
                  conv => lhs; rw [← List.map_id S4.defs]
                  apply List.map_congr_left
                  intro x hx
                  by_cases e : x.name = m.name
                  · simp [e, i3.2.2 x hx e]
                  · simp [e]
                · refine ⟨_, rfl, upd_meta_wf S4 m.name _ (fun _ => rfl) (fun _ => rfl) (fun _ => rfl) (fun _ => rfl) i2,
                    i3.upd _ (fun _ => rfl), ?_, rfl, rfl, rfl, rfl, ?_⟩
                  · rw [← i4]
                    exact others_map S4 m.name _ (fun _ => rfl)
                  · show S4.defs.map _ = _
                    apply List.map_congr_left
                    intro x hx
                    by_cases e : x.name = m.name
                    · simp [e, i3.2.2 x hx e]
                    · simp [e]
              obtain ⟨s', k1, k2, k3, k4, k5, k6, k7, k8, k9⟩ := hfin
              refine ⟨s', ?_, k2, k3, k4, by rw [k5, i5, ← hS3]; rfl, by rw [k6, i6, hS3top, htop], by rw [k7, i7, hS3ac],
                by rw [k8, i8, hS3p], new, by rw [in1, hS3o], ?_⟩
              · -- the run
                unfold elabModule WModI.toModule
                simp only [hens, bind, Except.bind, getDef_has hL, hlib, Option.isSome_none, Bool.false_eq_true, if_false,
                  List.isEmpty_nil, if_true, List.foldlM_map, List.map_map, Function.comp_def, pure, Except.pure,
                  List.foldlM_append]
                rw [hs1 _ (by rw [← hL1]), hS1]
                have htop1 : S1.top = some t := by rw [← hS1]; exact htop
                have hac1 : S1.acount = 0 := by rw [← hS1]; exact hac
                have hS1e : ({ (if S1.top.isNone = true then { S1 with top := some m.name } else S1) with acount := 0 } : St) = S1 := by
                  rw [htop1]; exact acount_eta S1 hac1
                rw [hS1e]
                have g1' : List.foldlM (fun s (p : PDecl) => headerPort s m.name ⟨p.name, none, none, none⟩) S1 m.ports =
                    .ok (s.put m.name d1 n1) := by
                  have := g1; rwa [List.foldlM_map] at this
                have i1' : List.foldlM (fun s (x : NInst) => elabItem s m.name false x.item) S3 m.insts = .ok S4 := by
                  have := i1; rwa [List.foldlM_map] at this
                simp only [g1', hR, f1, w1, i1']
                exact congrArg Except.ok k1
              · rw [k9, in2, hS3d, List.map_append, List.map_map, List.map_map]
                congr 1
                · apply List.map_congr_left
                  intro x _
                  simp only [Function.comp]
                  by_cases e : x.name = m.name
                  · have e3 : (d3.name == m.name) = true := by simp [hd3n]
                    have e4 : (d4.name == m.name) = true := by simp [i9, hd3n]
                    simp only [e, beq_self_eq_true, if_true, e3, e4]
                  · simp [e, padOpsD_name]
                · conv => rhs; rw [← List.map_id new]
                  apply List.map_congr_left
                  intro x hx
                  have hxm : x ∈ others S4 m.name := by rw [i4, in1]; exact List.mem_append_right _ hx
                  have := (mem_others.mp hxm).2
                  simp [this]
          · cases hb
  · cases hb
end Spydr.Verilog.Elab
