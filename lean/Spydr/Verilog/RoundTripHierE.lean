/-
  Verilog engine — proof side, part 45 (hierarchy): a whole hierarchical file in the writer's order through the real
  `elabDesign` (`elabDesign_hier`): top module, then work modules and `celldefine` modules, each declared after a module
  that instantiates it; the pure table `buildHier`; non-vacuity `exHier_builds`.
-/
import Spydr.Verilog.RoundTripHierD
set_option maxHeartbeats 1600000
namespace Spydr.Verilog.Elab
open Spydr.Verilog

/-! ### a file: the top module, then the modules it reaches, each declared after it was instantiated -/

inductive WAny
  | work (m : WModI)
  | leaf (lf : WLeaf)

def WAny.name : WAny → String
  | .work m => m.name
  | .leaf lf => lf.name

def WAny.toModule : WAny → Module
  | .work m => m.toModule
  | .leaf lf => lf.toModule

/-- one later module of the file on the table (pure) -/
def lateStep (tbl : List Def) (n : Nat) (t : String) (M : WAny) : Option (List Def × Nat) :=
  match tbl.find? (fun d => d.name == M.name) with
  | none => none
  | some L =>
    match M with
    | .work m =>
      match buildLateW L (tbl.filter (fun x => x.name != m.name)) n m t with
      | some r => some (tbl.map (fun x => if x.name == m.name then r.1 else padOpsD x m.name r.2.2.2) ++
          r.2.1.drop (tbl.filter (fun x => x.name != m.name)).length, r.2.2.1)
      | none => none
    | .leaf lf =>
      match buildLeaf L n lf.ports with
      | some r => some (tbl.map (fun x => if x.name == lf.name then r.1 else padOpsD x lf.name r.2.2), r.2.1)
      | none => none

def foldLate : List Def → Nat → String → List WAny → Option (List Def × Nat)
  | tbl, n, _, [] => some (tbl, n)
  | tbl, n, t, M :: Ms =>
    match lateStep tbl n t M with
    | some r => foldLate r.1 r.2 t Ms
    | none => none

theorem late_step (s : St) (t : String) (M : WAny) (tbl' : List Def) (n' : Nat) (hwf : TableWF s) (htop : s.top = some t)
    (hac : s.acount = 0) (h : lateStep s.defs s.next t M = some (tbl', n')) :
    ∃ s', elabModule s M.toModule = .ok s' ∧ TableWF s' ∧ s'.defs = tbl' ∧ s'.next = n' ∧ s'.top = some t ∧ s'.acount = 0 ∧
      s'.pending = s.pending := by
  unfold lateStep at h
  cases hf : s.defs.find? (fun d => d.name == M.name) with
  | none => simp [hf] at h
  | some L =>
    simp only [hf] at h
    have hLm := List.mem_of_find?_eq_some hf
    have hLn : L.name = M.name := by simpa using List.find?_some hf
    have hL : Has s M.name L := by rw [← hLn]; exact has_of_mem hwf hLm
    cases M with
    | work m =>
      simp only at h
      cases hb : buildLateW L (s.defs.filter (fun x => x.name != m.name)) s.next m t with
      | none => simp [hb] at h
      | some r =>
        obtain ⟨D, ls', n1, ops⟩ := r
        simp only [hb, Option.some.injEq, Prod.mk.injEq] at h
        obtain ⟨e1, e2⟩ := h
        obtain ⟨s', g1, g2, g3, g4, g5, g6, g7, g8, new, g9, g10⟩ := elabModule_lateW s m t L D ls' n1 ops hwf hL htop hac hb
        refine ⟨s', g1, g2, ?_, by rw [g5, e2], by rw [g6, htop], g7, g8⟩
        rw [g10, ← e1]
        congr 1
        have : (others s m.name).length = ((others s m.name).map (fun x => padOpsD x m.name ops)).length := by simp
        show new = ls'.drop (others s m.name).length
        rw [g9, this, List.drop_left]
    | leaf lf =>
      simp only at h
      cases hb : buildLeaf L s.next lf.ports with
      | none => simp [hb] at h
      | some r =>
        obtain ⟨L', n1, ops⟩ := r
        simp only [hb, Option.some.injEq, Prod.mk.injEq] at h
        obtain ⟨e1, e2⟩ := h
        have hR : RowsFull s lf.name L.ports.length := by
          have := rowsFull_of_wf hwf hLm
          rw [hLn] at this; exact this
        obtain ⟨g1, g2, g3, g4, g5⟩ := elabModule_leaf s lf L L' n1 ops hL hR hb
        refine ⟨_, g1, elabModule_wf s _ _ hwf g1, ?_, by rw [← e2]; rfl, ?_, ?_, ?_⟩
        · rw [← e1]; exact defs_put_padOps s lf.name L' n1 ops
        · show (padOps s lf.name ops).top = _; rw [(padOps_defs lf.name ops s).2.2.1]; exact htop
        · show (padOps s lf.name ops).acount = _; rw [(padOps_defs lf.name ops s).2.2.2.1]; exact hac
        · show (padOps s lf.name ops).pending = _; rw [(padOps_defs lf.name ops s).2.2.2.2]

theorem late_fold (t : String) : ∀ (Ms : List WAny) (s : St) (tbl' : List Def) (n' : Nat), TableWF s → s.top = some t →
    s.acount = 0 → foldLate s.defs s.next t Ms = some (tbl', n') →
    ∃ s', (Ms.map WAny.toModule).foldlM elabModule s = .ok s' ∧ TableWF s' ∧ s'.defs = tbl' ∧ s'.next = n' ∧
      s'.top = some t ∧ s'.acount = 0 ∧ s'.pending = s.pending := by
  intro Ms
  induction Ms with
  | nil =>
    intro s tbl' n' hwf htop hac h
    simp only [foldLate, Option.some.injEq, Prod.mk.injEq] at h
    exact ⟨s, rfl, hwf, h.1, h.2, htop, hac, rfl⟩
  | cons M Ms ih =>
    intro s tbl' n' hwf htop hac h
    unfold foldLate at h
    cases hs : lateStep s.defs s.next t M with
    | none => simp [hs] at h
    | some r =>
      obtain ⟨tbl1, n1⟩ := r
      simp only [hs] at h
      obtain ⟨s1, g1, g2, g3, g4, g5, g6, g7⟩ := late_step s t M tbl1 n1 hwf htop hac hs
      rw [← g3, ← g4] at h
      obtain ⟨s2, f1, f2, f3, f4, f5, f6, f7⟩ := ih s1 tbl' n' g2 g5 g6 h
      refine ⟨s2, ?_, f2, f3, f4, f5, f6, f7.trans g7⟩
      simp only [List.map_cons, List.foldlM_cons, bind, Except.bind, g1]
      exact f1

/-- the table the reader builds for a hierarchical file in the writer's order (pure) -/
def buildHier (m : WModI) (Ms : List WAny) : Option (List Def × Nat) :=
  match buildW3 ⟨m.name, some "work", false, [], none, [], [], []⟩ 0 m.ports m.wires with
  | none => none
  | some r3 =>
    if (r3.1.cables.map (·.name)).Nodup then
      match foldInst r3.1 [] m.insts with
      | none => none
      | some r4 =>
        match foldLate (withAttrs m.attrs r4.1 :: r4.2) r3.2 m.name Ms with
        | none => none
        | some r5 => some (r5.1.map markBB, r5.2)
    else none

/-- **elabDesign_hier.**  A file that consists of the top module in the writer's shape followed by the modules it
    reaches — work modules with their own nets and instances, `celldefine` modules — each declared AFTER a module that
    instantiates it (the from-top order of `_compose`), through the REAL `elabDesign`: the table is `buildHier`. -/
theorem elabDesign_hier (m : WModI) (Ms : List WAny) (defs : List Def) (n : Nat) (hb : buildHier m Ms = some (defs, n)) :
    elabDesign (m.toModule :: Ms.map WAny.toModule) = .ok ⟨defs, n, some m.name, 0, []⟩ := by
  unfold buildHier at hb
  cases h3 : buildW3 ⟨m.name, some "work", false, [], none, [], [], []⟩ 0 m.ports m.wires with
  | none => simp [h3] at hb
  | some r3 =>
    obtain ⟨d3, n3⟩ := r3
    simp only [h3] at hb
    split at hb
    · rename_i hcn
      cases h4 : foldInst d3 [] m.insts with
      | none => simp [h4] at hb
      | some r4 =>
        obtain ⟨d4, ls4⟩ := r4
        simp only [h4] at hb
        cases h5 : foldLate (withAttrs m.attrs d4 :: ls4) n3 m.name Ms with
        | none => simp [h5] at hb
        | some r5 =>
          obtain ⟨tbl, n5⟩ := r5
          simp only [h5, Option.some.injEq, Prod.mk.injEq] at hb
          obtain ⟨hdefs, hn⟩ := hb
          obtain ⟨hE, _, _⟩ := elabModule_wtop m d3 n3 d4 ls4 h3 hcn h4
          have hE' : elabModule ⟨[], 0, none, 0, []⟩ m.toModule = .ok (S2 (withAttrs m.attrs d4) ls4 n3 (some m.name)) := by
            rw [hE]; rfl
          have hwf1 : TableWF (S2 (withAttrs m.attrs d4) ls4 n3 (some m.name)) := elabModule_wf _ _ _ tableWF_init hE'
          obtain ⟨s', g1, _, g3, g4, g5, g6, g7⟩ := late_fold m.name Ms (S2 (withAttrs m.attrs d4) ls4 n3 (some m.name)) tbl n5
            hwf1 rfl rfl h5
          unfold elabDesign
          simp only [List.foldlM_cons, bind, Except.bind, hE', g1]
          have hp : s'.pending = [] := g7
          simp only [hp, List.foldlM_nil, pure, Except.pure]
          rw [← hdefs, ← hn]
          congr 1
          apply St.ext'
          · show s'.defs.map _ = tbl.map markBB
            rw [g3]; rfl
          · exact g4
          · exact g5
          · exact g6
          · rfl
    · cases hb
/-- non-vacuity: `top` instantiates the work module `sub` (declared afterwards, with a two-bit port the instance connects
    whole) and the primitive `LUT1`; `sub` instantiates `LUT1` again; `LUT1` is declared last -/
def exHierTop : WModI :=
  ⟨"top", [],
   [⟨"a", .inp, some (1, 0), []⟩, ⟨"y", .out, none, []⟩],
   [⟨"w", "wire", none, []⟩, ⟨"y", "wire", none, []⟩, ⟨"a", "wire", some (1, 0), []⟩],
   [⟨"u0", "sub", [], [], [("p", .atom (.id "a")), ("q", .atom (.id "w"))]⟩,
    ⟨"u1", "LUT1", [], [], [("I0", .atom (.id "w")), ("O", .atom (.id "y"))]⟩]⟩

def exHierMs : List WAny :=
  [.work ⟨"sub", [("keep", none)],
     [⟨"p", .inp, some (1, 0), []⟩, ⟨"q", .out, none, [("mark", none)]⟩],
     [⟨"q", "wire", none, []⟩, ⟨"p", "wire", some (1, 0), []⟩],
     [⟨"g0", "LUT1", [], [], [("I0", .atom (.bit "p" 0)), ("O", .atom (.id "q"))]⟩]⟩,
   .leaf ⟨"LUT1", [⟨"I0", .inp, none, []⟩, ⟨"O", .out, none, []⟩]⟩]

theorem exHier_builds : (buildHier exHierTop exHierMs).isSome = true := by decide
end Spydr.Verilog.Elab
