/-
  Verilog engine — proof side, part 46 (hierarchy): what the declaration phases of a work module declared late build
  (`late_facts`): the declared ports, every port wired to the net of its name, distinct wire ids, the net table —
  the same facts as for a module met for the first time, so that the view lemmas apply.
-/
import Spydr.Verilog.RoundTripHierE
set_option maxHeartbeats 1600000
namespace Spydr.Verilog.Elab
open Spydr.Verilog

/-! ### what the late declaration of a work module builds: ports, nets, wire ids (the facts the view needs) -/

/-- the port is wired pin by pin to the net of its own name, same base -/
def Wired (d : Def) (P : Port) : Prop :=
  ∃ nm C, P.name = some nm ∧ d.cables.find? (fun c => c.name == nm) = some C ∧ P.pins = C.wires.map some ∧ P.lower = C.lower

theorem PC_iff (d : Def) : PC d ↔ ∀ P ∈ d.ports, Wired d P := Iff.rfl

theorem hdrStepL_spec (d : Def) (n : Nat) (a : String) (d' : Def) (n' : Nat) (h : hdrStepL d n a = some (d', n')) :
    ∃ (k : Nat) (hk : k < d.ports.length), portIdx d a = some k ∧ d.cables.find? (fun c => c.name == a) = none ∧
      d.ports[k].pins = List.replicate d.ports[k].pins.length none ∧ 1 ≤ d.ports[k].pins.length ∧
      d'.ports = d.ports.set k { d.ports[k] with pins := (ids n d.ports[k].pins.length).map some } ∧
      d'.cables = d.cables ++ [portCable a d.ports[k].lower true (ids n d.ports[k].pins.length)] ∧
      n' = n + d.ports[k].pins.length ∧ d'.name = d.name ∧ d'.lib = d.lib ∧ d'.insts = d.insts ∧ d'.attrs = d.attrs := by
  unfold hdrStepL at h
  split at h
  · rename_i k hk
    split at h
    · rename_i hc
      have hklt := portIdx_lt hk
      have hg : d.ports.getD k default = d.ports[k] := by
        rw [List.getD_eq_getElem?_getD, List.getElem?_eq_getElem hklt]; rfl
      rw [hg] at hc h
      obtain ⟨hcn, hpins, hlen, _⟩ := hc
      simp only [Option.some.injEq, Prod.mk.injEq] at h
      obtain ⟨h1, h2⟩ := h
      subst h1 h2
      exact ⟨k, hklt, hk, hcn, hpins, hlen, rfl, rfl, rfl, rfl, rfl, rfl, rfl⟩
    · cases h
  · cases h

theorem hdrStepL_WF (d : Def) (n : Nat) (a : String) (d' : Def) (n' : Nat) (h : WF d n)
    (hs : hdrStepL d n a = some (d', n')) : WF d' n' := by
  obtain ⟨k, hk, _, hcn, _, _, _, hcab, hn', _⟩ := hdrStepL_spec d n a d' n' hs
  have := WF_append d n (portCable a d.ports[k].lower true (ids n d.ports[k].pins.length)) d.ports[k].pins.length h hcn rfl
  rw [hn']
  exact ⟨⟨by rw [hcab]; exact this.1.1, by rw [hcab]; exact this.1.2⟩, by rw [hcab]; exact this.2⟩

theorem hdrStepL_pv (d : Def) (n : Nat) (a : String) (d' : Def) (n' : Nat) (hs : hdrStepL d n a = some (d', n')) :
    d'.ports.map pv = d.ports.map pv := by
  obtain ⟨k, hk, _, _, _, _, hp, _⟩ := hdrStepL_spec d n a d' n' hs
  rw [hp]
  apply map_set_same' d.ports k hk
  simp [pv, ids]

theorem hdrStepL_cab (d : Def) (n : Nat) (a : String) (d' : Def) (n' : Nat) (hs : hdrStepL d n a = some (d', n')) :
    ∃ lo len, cabOf d' = fun nm => if nm = a then some (lo, len, none, none) else cabOf d nm := by
  obtain ⟨k, hk, _, hcn, _, _, _, hcab, _⟩ := hdrStepL_spec d n a d' n' hs
  refine ⟨d.ports[k].lower, d.ports[k].pins.length, ?_⟩
  funext nm
  unfold cabOf
  rw [hcab, find_append_single d.cables (portCable a d.ports[k].lower true (ids n d.ports[k].pins.length)) nm hcn]
  by_cases e : nm = a
  · simp [e, portCable, ids]
  · simp [e, portCable]

/-- the header fold wires every port whose name it lists -/
theorem hdr_fold_wired : ∀ (names done : List String) (d : Def) (n : Nat) (d' : Def) (n' : Nat),
    (d.ports.map (·.name)).Nodup → (∀ P ∈ d.ports, ∀ nm, P.name = some nm → nm ∈ done → Wired d P) →
    foldLocal hdrStepL d n names = some (d', n') →
    ∀ P ∈ d'.ports, ∀ nm, P.name = some nm → nm ∈ done ++ names → Wired d' P := by
  intro names
  induction names with
  | nil =>
    intro done d n d' n' _ h0 h
    simp only [foldLocal, Option.some.injEq, Prod.mk.injEq] at h
    rw [← h.1]
    intro P hP nm hn hm
    exact h0 P hP nm hn (by simpa using hm)
  | cons a as ih =>
    intro done d n d' n' hnd h0 h
    unfold foldLocal at h
    cases hs : hdrStepL d n a with
    | none => simp [hs] at h
    | some r =>
      obtain ⟨d1, n1⟩ := r
      simp only [hs] at h
      obtain ⟨k, hk, hidx, hcn, _, _, hp, hcab, _⟩ := hdrStepL_spec d n a d1 n1 hs
      have hka : d.ports[k].name = some a := by
        unfold portIdx at hidx
        have := (List.findIdx?_eq_some_iff_getElem.mp hidx).2.1
        simpa using this
      generalize hP' : ({ d.ports[k] with pins := (ids n d.ports[k].pins.length).map some } : Port) = P' at hp
      have hP'n : P'.name = some a := by rw [← hP']; exact hka
      have hnames1 : d1.ports.map (·.name) = d.ports.map (·.name) := by
        rw [hp]; exact map_set_same' d.ports k hk P' (·.name) (by rw [hP'n, hka])
      have hP'mem : P' ∈ d1.ports := by
        rw [hp]; exact List.mem_iff_getElem.mpr ⟨k, by simpa using hk, by simp⟩
      have hfind1 : ∀ nm, d1.cables.find? (fun c => c.name == nm) =
          if nm = a then some (portCable a d.ports[k].lower true (ids n d.ports[k].pins.length)) else d.cables.find? (fun c => c.name == nm) := by
        intro nm
        rw [hcab, find_append_single d.cables _ nm hcn]
        rfl
      have h1 : ∀ P ∈ d1.ports, ∀ nm, P.name = some nm → nm ∈ done ++ [a] → Wired d1 P := by
        intro P hP nm hn hm
        by_cases ea : nm = a
        · -- the port named a is the new one
          have : P = P' := nodup_map_inj (·.name) d1.ports (by rw [hnames1]; exact hnd) P hP P' hP'mem (by rw [hn, hP'n, ea])
          rw [this]
          refine ⟨a, portCable a d.ports[k].lower true (ids n d.ports[k].pins.length), hP'n, by rw [hfind1]; simp,
            by rw [← hP']; rfl, by rw [← hP']; rfl⟩
        · have hmd : nm ∈ done := by
            rcases List.mem_append.mp hm with e | e
            · exact e
            · simp only [List.mem_singleton] at e; exact absurd e ea
          have hPold : P ∈ d.ports := by
            rw [hp] at hP
            rcases List.mem_or_eq_of_mem_set hP with e | e
            · exact e
            · rw [e, hP'n] at hn; exact absurd (Option.some.inj hn).symm ea
          obtain ⟨nm', C, g1, g2, g3, g4⟩ := h0 P hPold nm hn hmd
          have : nm' = nm := by rw [hn] at g1; exact (Option.some.inj g1).symm
          subst this
          exact ⟨nm', C, g1, by rw [hfind1]; simp [ea, g2], g3, g4⟩
      have := ih (done ++ [a]) d1 n1 d' n' (by rw [hnames1]; exact hnd) h1 h
      intro P hP nm hn hm
      exact this P hP nm hn (by simpa using hm)

/-- `foldDeclA` as a `foldLocal` -/
def declStepA' (d : Def) (n : Nat) (p : PDecl) : Option (Def × Nat) := (declStepA d n p).map (fun r => (r.1, r.2.1))

theorem foldDeclA_local : ∀ (ps : List PDecl) (d : Def) (n : Nat) (d' : Def) (n' : Nat) (ops : List (Nat × Nat)),
    foldDeclA d n ps = some (d', n', ops) → foldLocal declStepA' d n ps = some (d', n') := by
  intro ps
  induction ps with
  | nil =>
    intro d n d' n' ops h
    simp only [foldDeclA, Option.some.injEq, Prod.mk.injEq] at h
    simp [foldLocal, h.1, h.2.1]
  | cons p ps ih =>
    intro d n d' n' ops h
    unfold foldDeclA at h
    cases hs : declStepA d n p with
    | none => simp [hs] at h
    | some r =>
      simp only [hs, Option.map_eq_some_iff] at h
      obtain ⟨q, hq, he⟩ := h
      simp only [Prod.mk.injEq] at he
      unfold foldLocal
      simp only [declStepA', hs, Option.map_some]
      have := ih r.1 r.2.1 q.1 q.2.1 q.2.2 (by rw [hq])
      rw [this, he.1, he.2.1]

theorem declStepA_spec (d : Def) (n : Nat) (p : PDecl) (d' : Def) (n' k post : Nat)
    (h : declStepA d n p = some (d', n', k, post)) :
    ∃ (hk : k < d.ports.length) (c0 : Cable), portIdx d p.name = some k ∧ d.cables.find? (fun c => c.name == p.name) = some c0 ∧
      d.ports[k].pins = c0.wires.map some ∧ d.ports[k].name = some p.name ∧ 1 ≤ c0.wires.length ∧
      lenOK p.rng c0.wires.length ∧ (d.cables.map (·.name)).Nodup ∧ (d.ports.map (·.name)).Nodup ∧
      post = declPost p.rng c0.wires.length ∧ n' = n + post ∧
      d'.ports = d.ports.set k (grownPLA d.ports[k] p.rng (c0.wires ++ ids n post) p.dir p.attrs) ∧
      d'.cables = d.cables.map (fun y => if y.name == p.name then grownL c0 p.rng n else y) ∧
      d'.name = d.name ∧ d'.lib = d.lib ∧ d'.insts = d.insts ∧ d'.attrs = d.attrs := by
  unfold declStepA at h
  split at h
  · rename_i k0 c0 hk hc
    split at h
    · rename_i hcond
      obtain ⟨hpins, hpn, hlen, hok, hnc, hnp, _⟩ := hcond
      simp only [Option.some.injEq, Prod.mk.injEq] at h
      obtain ⟨h1, h2, h3, h4⟩ := h
      subst h1 h2 h3 h4
      have hklt := portIdx_lt hk
      have hg : d.ports.getD k0 default = d.ports[k0] := by
        rw [List.getD_eq_getElem?_getD, List.getElem?_eq_getElem hklt]; rfl
      rw [hg] at hpins hpn
      refine ⟨hklt, c0, hk, hc, hpins, hpn, hlen, lenOK_of_b _ _ hok, hnc, hnp, rfl, rfl, ?_, rfl, rfl, rfl, rfl, rfl⟩
      simp only [hg]
    · cases h
  · cases h

theorem declStepA'_WF (d : Def) (n : Nat) (p : PDecl) (d' : Def) (n' : Nat) (h : WF d n)
    (hs : declStepA' d n p = some (d', n')) : WF d' n' := by
  unfold declStepA' at hs
  simp only [Option.map_eq_some_iff] at hs
  obtain ⟨r, hr, he⟩ := hs
  obtain ⟨d1, n1, k, post⟩ := r
  simp only [Prod.mk.injEq] at he
  obtain ⟨e1, e2⟩ := he
  subst e1 e2
  obtain ⟨hk, c0, _, hc, _, _, _, _, _, _, hpost, hn', _, hcab, _⟩ := declStepA_spec d n p d1 n1 k post hr
  obtain ⟨⟨hn, hf⟩, hb⟩ := h
  have hc0m := List.mem_of_find?_eq_some hc
  have hc0n : c0.name = p.name := by simpa using List.find?_some hc
  obtain ⟨g1, g2, g3⟩ := WF_grow p.name (ids n post) n (n + post) d.cables c0 (grownL c0 p.rng n) hn hf hb hc0m hc0n hc0n
    (by simp [grownL, hpost]) (ids_nodup _ _) (fun w hw => ⟨ids_ge _ _ _ hw, ids_lt _ _ _ hw⟩) (by omega)
  unfold WF WInv
  rw [hn', hcab]
  exact ⟨⟨g1, g2⟩, g3⟩

theorem declStepA'_PC (d : Def) (n : Nat) (p : PDecl) (d' : Def) (n' : Nat) (h : PC d)
    (hs : declStepA' d n p = some (d', n')) : PC d' := by
  unfold declStepA' at hs
  simp only [Option.map_eq_some_iff] at hs
  obtain ⟨r, hr, he⟩ := hs
  obtain ⟨d1, n1, k, post⟩ := r
  simp only [Prod.mk.injEq] at he
  obtain ⟨e1, e2⟩ := he
  subst e1 e2
  obtain ⟨hk, c0, _, hc, hpins, hpn, _, _, _, hnp, hpost, _, hp, hcab, _⟩ := declStepA_spec d n p d1 n1 k post hr
  have hc0n : c0.name = p.name := by simpa using List.find?_some hc
  -- port k was wired to c0
  have hlow : d.ports[k].lower = c0.lower := by
    obtain ⟨nm, C, g1, g2, _, g4⟩ := h d.ports[k] (List.getElem_mem hk)
    rw [hpn] at g1
    have : nm = p.name := (Option.some.inj g1).symm
    subst this
    rw [hc] at g2
    rw [g4, ← Option.some.inj g2]
  intro P hP
  rw [hp] at hP
  obtain ⟨i, hi, hPi⟩ := List.getElem_of_mem hP
  simp only [List.length_set] at hi
  by_cases eik : i = k
  · subst eik
    rw [List.getElem_set_self] at hPi
    refine ⟨p.name, grownL c0 p.rng n, by rw [← hPi]; exact hpn, ?_, ?_, ?_⟩
    · rw [hcab, find_map_replace d.cables p.name p.name _ (show (grownL c0 p.rng n).name = p.name from hc0n)]
      simp [hc]
    · rw [← hPi]; simp [grownPLA, grownL, hpost]
    · rw [← hPi]; simp [grownPLA, grownL, hlow]
  · rw [List.getElem_set_ne (fun h' => eik h'.symm)] at hPi
    obtain ⟨nm, C, h1, h2, h3, h4⟩ := h P (by rw [← hPi]; exact List.getElem_mem hi)
    have en : nm ≠ p.name := by
      intro en
      apply eik
      have h6 : (d.ports.map (·.name))[i]'(by simpa using hi) = (d.ports.map (·.name))[k]'(by simpa using hk) := by
        simp only [List.getElem_map, hPi, h1, en, hpn]
      exact (List.getElem_inj hnp).mp h6
    refine ⟨nm, C, h1, ?_, h3, h4⟩
    rw [hcab, find_map_replace d.cables p.name nm _ (show (grownL c0 p.rng n).name = p.name from hc0n)]
    simp [en, h2]
theorem declStepA'_frame (d : Def) (n : Nat) (p : PDecl) (d' : Def) (n' : Nat) (hs : declStepA' d n p = some (d', n')) :
    d'.insts = d.insts ∧ d'.attrs = d.attrs ∧ d'.lib = d.lib ∧ d'.name = d.name := by
  unfold declStepA' at hs
  simp only [Option.map_eq_some_iff] at hs
  obtain ⟨r, hr, he⟩ := hs
  obtain ⟨d1, n1, k, post⟩ := r
  simp only [Prod.mk.injEq] at he
  obtain ⟨e1, _⟩ := he
  subst e1
  obtain ⟨_, _, _, _, _, _, _, _, _, _, _, _, _, _, a1, a2, a3, a4⟩ := declStepA_spec d n p d1 n1 k post hr
  exact ⟨a3, a4, a2, a1⟩

/-- the nets after the header fold: one per listed name, nothing else changes -/
theorem hdr_fold_cab : ∀ (names : List String) (d : Def) (n : Nat) (d' : Def) (n' : Nat),
    foldLocal hdrStepL d n names = some (d', n') →
    ∀ nm, (nm ∈ names → ∃ lo len, cabOf d' nm = some (lo, len, none, none)) ∧ (nm ∉ names → cabOf d' nm = cabOf d nm) := by
  intro names
  induction names with
  | nil =>
    intro d n d' n' h nm
    simp only [foldLocal, Option.some.injEq, Prod.mk.injEq] at h
    rw [← h.1]
    exact ⟨(fun hm => by cases hm), fun _ => rfl⟩
  | cons a as ih =>
    intro d n d' n' h nm
    unfold foldLocal at h
    cases hs : hdrStepL d n a with
    | none => simp [hs] at h
    | some r =>
      obtain ⟨d1, n1⟩ := r
      simp only [hs] at h
      obtain ⟨lo, len, hc⟩ := hdrStepL_cab d n a d1 n1 hs
      obtain ⟨i1, i2⟩ := ih d1 n1 d' n' h nm
      constructor
      · intro hm
        by_cases e : nm ∈ as
        · exact i1 e
        · have : nm = a := by
            rcases List.mem_cons.mp hm with e' | e'
            · exact e'
            · exact absurd e' e
          refine ⟨lo, len, ?_⟩
          rw [i2 e, hc]; simp [this]
      · intro hm
        have h1 : nm ≠ a := fun e => hm (by rw [e]; exact List.mem_cons_self)
        have h2 : nm ∉ as := fun e => hm (List.mem_cons_of_mem _ e)
        rw [i2 h2, hc]; simp [h1]

theorem declStepA_cab (d : Def) (n : Nat) (p : PDecl) (d' : Def) (n' k post : Nat)
    (h : declStepA d n p = some (d', n', k, post))
    (hlow : ∀ C, d.cables.find? (fun c => c.name == p.name) = some C → C.lower = 0) : cabOf d' = updD (cabOf d) p := by
  obtain ⟨hk, c0, _, hc, _, _, _, hok, _, _, hpost, _, _, hcab, _⟩ := declStepA_spec d n p d' n' k post h
  have hc0n : c0.name = p.name := by simpa using List.find?_some hc
  have hl0 := hlow c0 hc
  funext nm
  unfold cabOf updD
  simp only
  rw [hcab, find_map_replace d.cables p.name nm (grownL c0 p.rng n) hc0n]
  by_cases e : nm = p.name
  · subst e
    simp only [if_true, hc, Option.map_some]
    obtain ⟨a1, a2⟩ := declared_arith p.rng c0.wires.length hok
    simp [grownL, ids, hl0, a1, ← hpost]
    rw [← a2, hpost]
  · simp [e]

theorem decl_fold_cab : ∀ (ps : List PDecl) (d : Def) (n : Nat) (d' : Def) (n' : Nat) (ops : List (Nat × Nat)),
    foldDeclA d n ps = some (d', n', ops) → (ps.map (·.name)).Nodup →
    (∀ p ∈ ps, ∀ C, d.cables.find? (fun c => c.name == p.name) = some C → C.lower = 0) →
    cabOf d' = ps.foldl updD (cabOf d) := by
  intro ps
  induction ps with
  | nil =>
    intro d n d' n' ops h _ _
    simp only [foldDeclA, Option.some.injEq, Prod.mk.injEq] at h
    rw [← h.1]; rfl
  | cons p ps ih =>
    intro d n d' n' ops h hnd hlow
    unfold foldDeclA at h
    cases hs : declStepA d n p with
    | none => simp [hs] at h
    | some r =>
      obtain ⟨d1, n1, k, post⟩ := r
      simp only [hs, Option.map_eq_some_iff] at h
      obtain ⟨q, hq, he⟩ := h
      obtain ⟨d2, n2, ops2⟩ := q
      simp only [Prod.mk.injEq] at he
      obtain ⟨e1, _, _⟩ := he
      subst e1
      rw [List.map_cons, List.nodup_cons] at hnd
      have hc1 := declStepA_cab d n p d1 n1 k post hs (hlow p List.mem_cons_self)
      obtain ⟨_, c0, _, hc, _, _, _, _, _, _, _, _, _, hcab, _⟩ := declStepA_spec d n p d1 n1 k post hs
      have hc0n : c0.name = p.name := by simpa using List.find?_some hc
      rw [List.foldl_cons, ← hc1]
      apply ih d1 n1 d2 n2 ops2 hq hnd.2
      intro p' hp' C hC
      have hne : p'.name ≠ p.name := fun e => hnd.1 (List.mem_map.mpr ⟨p', hp', e⟩)
      rw [hcab, find_map_replace d.cables p.name p'.name (grownL c0 p.rng n) hc0n] at hC
      simp only [hne, if_false] at hC
      exact hlow p' (List.mem_cons_of_mem _ hp') C hC

/-- what the declaration makes of the port of its name -/
theorem foldDeclA_pv : ∀ (ps : List PDecl) (d : Def) (n : Nat) (d' : Def) (n' : Nat) (ops : List (Nat × Nat)),
    foldDeclA d n ps = some (d', n', ops) → (ps.map (·.name)).Nodup →
    (∀ P ∈ d.ports, ∀ p ∈ ps, P.name = some p.name → P.lower = 0 ∧ P.attrs = none) →
    (∀ p ∈ ps, ∃ P ∈ d'.ports, pv P = declV p) ∧ (∀ P ∈ d.ports, (∀ p ∈ ps, P.name ≠ some p.name) → P ∈ d'.ports) ∧
      d'.ports.map (·.name) = d.ports.map (·.name) := by
  intro ps
  induction ps with
  | nil =>
    intro d n d' n' ops h _ _
    simp only [foldDeclA, Option.some.injEq, Prod.mk.injEq] at h
    rw [← h.1]
    exact ⟨(by intro p hp; cases hp), fun P hP _ => hP, rfl⟩
  | cons p ps ih =>
    intro d n d' n' ops h hnd hlow
    unfold foldDeclA at h
    cases hs : declStepA d n p with
    | none => simp [hs] at h
    | some r =>
      obtain ⟨d1, n1, k, post⟩ := r
      simp only [hs, Option.map_eq_some_iff] at h
      obtain ⟨q, hq, he⟩ := h
      obtain ⟨d2, n2, ops2⟩ := q
      simp only [Prod.mk.injEq] at he
      obtain ⟨e1, _, _⟩ := he
      subst e1
      obtain ⟨hk, c0, _, _, hpins, a1, _, a2, _, _, hpost, _, a3, _⟩ := declStepA_spec d n p d1 n1 k post hs
      generalize hPn : grownPLA d.ports[k] p.rng (c0.wires ++ ids n post) p.dir p.attrs = Pn at a3
      have a4 : Pn.name = some p.name := by rw [← hPn]; exact a1
      rw [List.map_cons, List.nodup_cons] at hnd
      have hpnot : ∀ p' ∈ ps, p'.name ≠ p.name := fun p' hp' e => hnd.1 (List.mem_map.mpr ⟨p', hp', e⟩)
      have hPnmem : Pn ∈ d1.ports := by
        rw [a3]; exact List.mem_iff_getElem.mpr ⟨k, by simpa using hk, by simp⟩
      obtain ⟨i1, i2, i3⟩ := ih d1 n1 d2 n2 ops2 hq hnd.2 (by
        intro P hP p' hp' hn
        rw [a3] at hP
        rcases List.mem_or_eq_of_mem_set hP with hm | hm
        · exact hlow P hm p' (List.mem_cons_of_mem _ hp') hn
        · rw [hm, a4] at hn
          exact absurd (Option.some.inj hn).symm (hpnot p' hp'))
      refine ⟨?_, ?_, ?_⟩
      · intro p' hp'
        rcases List.mem_cons.mp hp' with e | e
        · subst e
          refine ⟨Pn, i2 Pn hPnmem (fun q hq' hn => by rw [a4] at hn; exact hpnot q hq' (Option.some.inj hn).symm), ?_⟩
          obtain ⟨hl0, hat0⟩ := hlow d.ports[k] (List.getElem_mem hk) p' List.mem_cons_self a1
          have hlen : d.ports[k].pins.length = c0.wires.length := by rw [hpins]; simp
          obtain ⟨b1, b2⟩ := declared_arith p'.rng c0.wires.length a2
          rw [← hPn]
          simp only [pv, declV, grownPLA, a1, hl0, hat0, b1, List.length_map, List.length_append, Prod.mk.injEq, true_and]
          refine ⟨?_, trivial⟩
          simp [ids, hpost, b2]
        · exact i1 p' e
      · intro P hP hnot
        apply i2 P
        · rw [a3]
          apply mem_set_other _ _ _ _ hP
          intro _ e
          rw [← e] at hnot
          exact hnot p List.mem_cons_self a1
        · intro q hq'; exact hnot q (List.mem_cons_of_mem _ hq')
      · rw [i3, a3]
        exact map_set_same' d.ports k hk Pn (·.name) (by rw [a4, a1])

theorem pv_ext (Ps : List Port) (ps : List PDecl) (hn : Ps.map (·.name) = (ps.map (·.name)).map some)
    (hnd : (ps.map (·.name)).Nodup) (h : ∀ p ∈ ps, ∃ P ∈ Ps, pv P = declV p) : Ps.map pv = ps.map declV := by
  have hlen : Ps.length = ps.length := by
    have := congrArg List.length hn; simpa using this
  have hget : ∀ i (h1 : i < Ps.length) (h2 : i < ps.length), Ps[i].name = some ps[i].name := by
    intro i h1 h2
    have e : (Ps.map (·.name))[i]'(by simpa using h1) = ((ps.map (·.name)).map some)[i]'(by simpa using h2) := by
      simp only [hn]
    simpa using e
  apply List.ext_getElem (by simp [hlen])
  intro j h1 h2
  simp only [List.length_map] at h1 h2
  simp only [List.getElem_map]
  obtain ⟨P, hP, hpv⟩ := h ps[j] (List.getElem_mem h2)
  obtain ⟨i, hi, e⟩ := List.mem_iff_getElem.mp hP
  have hPn : P.name = some ps[j].name := by
    have := congrArg (fun (x : PV) => x.1) hpv
    simpa [pv, declV] using this
  have hin : (ps[i]'(by omega)).name = ps[j].name := by
    have := hget i hi (by omega)
    rw [e, hPn] at this
    exact (Option.some.inj this).symm
  have hij : i = j := by
    have e2 : (ps.map (·.name))[i]'(by simp; omega) = (ps.map (·.name))[j]'(by simpa using h2) := by simpa using hin
    exact (List.getElem_inj hnd).mp e2
  subst hij
  rw [e, hpv]
theorem updS_fold : ∀ (names : List String) (f : String → Option CabV) (nm : String),
    (names.foldl updS f) nm = if nm ∈ names then some (0, 1, none, none) else f nm := by
  intro names
  induction names with
  | nil => intro f nm; simp
  | cons a as ih =>
    intro f nm
    rw [List.foldl_cons, ih]
    by_cases e : nm ∈ as
    · simp [e]
    · by_cases e2 : nm = a
      · simp [e, e2, updS]
      · simp [e, e2, updS]

/-- after the body declarations the nets of the ports are the same whether the header created one-bit stubs (a module
    met for the first time) or nets as wide as the ports the instances had created (a module declared late) -/
theorem updD_bridge (ps : List PDecl) (H : String → Option CabV) (hnd : (ps.map (·.name)).Nodup)
    (hH : ∀ nm, (nm ∈ ps.map (·.name) → ∃ lo len, H nm = some (lo, len, none, none)) ∧ (nm ∉ ps.map (·.name) → H nm = none)) :
    ps.foldl updD H = ps.foldl updD ((ps.map (·.name)).foldl updS (fun _ => none)) := by
  funext nm
  rw [foldl_pointwise (fun (p : PDecl) => p.name) (fun p v => v.map (fun v => (stubLo p.rng, 1 + stubExtra p.rng, v.2.2.1, v.2.2.2)))
      updD (fun f a x => rfl) nm,
    foldl_pointwise (fun (p : PDecl) => p.name) (fun p v => v.map (fun v => (stubLo p.rng, 1 + stubExtra p.rng, v.2.2.1, v.2.2.2)))
      updD (fun f a x => rfl) nm, updS_fold]
  rcases filter_key_nodup (fun (p : PDecl) => p.name) nm ps hnd with hp | hp
  · rw [hp.1]
    simp only [List.foldl_nil, hp.2, if_false]
    exact (hH nm).2 hp.2
  · obtain ⟨p, hpm, hpn, hpf⟩ := hp
    have hmem : nm ∈ ps.map (·.name) := List.mem_map.mpr ⟨p, hpm, hpn⟩
    obtain ⟨lo, len, e⟩ := (hH nm).1 hmem
    rw [hpf]
    simp [e, hmem]

/-- **late_facts.**  The declaration phases of a work module declared late (header on ports instances created, body
    declarations, nets) give the same facts as for a module met for the first time: the declared ports, every port
    wired to the net of its name, distinct wire ids, and the same net table. -/
theorem late_facts (L1 : Def) (n : Nat) (ports : List PDecl) (wires : List FWire) (d1 d2 d3 : Def) (n1 n2 n3 : Nat)
    (ops : List (Nat × Nat)) (hc : L1.cables = []) (hnames : L1.ports.map (·.name) = (ports.map (·.name)).map some)
    (hnd : (ports.map (·.name)).Nodup) (hlow : ∀ P ∈ L1.ports, P.lower = 0 ∧ P.attrs = none)
    (h1 : foldLocal hdrStepL L1 n (ports.map (·.name)) = some (d1, n1))
    (h2 : foldDeclA d1 n1 ports = some (d2, n2, ops)) (h3 : foldLocal wireStep d2 n2 wires = some (d3, n3)) :
    d3.ports.map pv = ports.map declV ∧ PC d3 ∧ WF d3 n3 ∧
      cabOf d3 = wires.foldl updW (ports.foldl updD ((ports.map (·.name)).foldl updS (fun _ => none))) ∧
      d3.insts = L1.insts ∧ d3.attrs = L1.attrs ∧ d3.lib = L1.lib ∧ d3.name = L1.name := by
  have hndP : (L1.ports.map (·.name)).Nodup := by
    rw [hnames]; exact List.Pairwise.map some (fun a b h e => h (Option.some.inj e)) hnd
  -- header
  have hWF1 : WF d1 n1 := foldLocal_inv WF hdrStepL hdrStepL_WF _ _ _ _ _
    ⟨⟨by rw [hc]; exact List.nodup_nil, by rw [hc]; exact List.nodup_nil⟩, by rw [hc]; intro c hc'; cases hc'⟩ h1
  have hpv1 : d1.ports.map pv = L1.ports.map pv := foldLocal_pres (fun d => d.ports.map pv) hdrStepL hdrStepL_pv _ _ _ _ _ h1
  have hn1 : d1.ports.map (·.name) = L1.ports.map (·.name) := by
    have := congrArg (List.map (fun (x : PV) => x.1)) hpv1
    simpa [List.map_map, pv, Function.comp_def] using this
  have hPC1 : PC d1 := by
    have hw := hdr_fold_wired (ports.map (·.name)) [] L1 n d1 n1 hndP (by intro P _ nm _ hm; cases hm) h1
    intro P hP
    have hPn : P.name ∈ d1.ports.map (·.name) := List.mem_map.mpr ⟨P, hP, rfl⟩
    rw [hn1, hnames] at hPn
    obtain ⟨nm, hnm, e⟩ := List.mem_map.mp hPn
    exact hw P hP nm e.symm (by simpa using hnm)
  have hcab1 := hdr_fold_cab (ports.map (·.name)) L1 n d1 n1 h1
  have hcabL : cabOf L1 = fun _ => none := by funext nm; unfold cabOf; rw [hc]; rfl
  have hlow1 : ∀ P ∈ d1.ports, P.lower = 0 ∧ P.attrs = none := by
    intro P hP
    have : pv P ∈ d1.ports.map pv := List.mem_map.mpr ⟨P, hP, rfl⟩
    rw [hpv1] at this
    obtain ⟨P0, hP0, e⟩ := List.mem_map.mp this
    have := hlow P0 hP0
    simp only [pv, Prod.mk.injEq] at e
    exact ⟨by rw [← e.2.2.1]; exact this.1, by rw [← e.2.2.2.2]; exact this.2⟩
  -- body declarations
  have h2' := foldDeclA_local ports d1 n1 d2 n2 ops h2
  have hWF2 : WF d2 n2 := foldLocal_inv WF declStepA' declStepA'_WF _ _ _ _ _ hWF1 h2'
  have hPC2 : PC d2 := foldLocal_inv (fun d _ => PC d) declStepA' (fun d n a d' n' hp hs => declStepA'_PC d n a d' n' hp hs)
    _ _ _ _ _ hPC1 h2'
  obtain ⟨i1, _, i3⟩ := foldDeclA_pv ports d1 n1 d2 n2 ops h2 hnd (fun P hP _ _ _ => hlow1 P hP)
  have hpv2 : d2.ports.map pv = ports.map declV := pv_ext d2.ports ports (by rw [i3, hn1, hnames]) hnd i1
  have hcab2 : cabOf d2 = ports.foldl updD (cabOf d1) := by
    apply decl_fold_cab ports d1 n1 d2 n2 ops h2 hnd
    intro p hp C hC
    -- the net of a port: same base as the port, which is 0
    have hpn : some p.name ∈ d1.ports.map (·.name) := by
      rw [hn1, hnames]; exact List.mem_map.mpr ⟨p.name, List.mem_map.mpr ⟨p, hp, rfl⟩, rfl⟩
    obtain ⟨P, hP, e⟩ := List.mem_map.mp hpn
    obtain ⟨nm, C', g1, g2, _, g4⟩ := hPC1 P hP
    have : nm = p.name := by rw [e] at g1; exact (Option.some.inj g1).symm
    subst this
    rw [hC] at g2
    rw [Option.some.inj g2, ← g4]
    exact (hlow1 P hP).1
  have hfr2 : d2.insts = d1.insts ∧ d2.attrs = d1.attrs ∧ d2.lib = d1.lib ∧ d2.name = d1.name :=
    ⟨foldLocal_pres (·.insts) declStepA' (fun d n a d' n' h => (declStepA'_frame d n a d' n' h).1) _ _ _ _ _ h2',
     foldLocal_pres (·.attrs) declStepA' (fun d n a d' n' h => (declStepA'_frame d n a d' n' h).2.1) _ _ _ _ _ h2',
     foldLocal_pres (·.lib) declStepA' (fun d n a d' n' h => (declStepA'_frame d n a d' n' h).2.2.1) _ _ _ _ _ h2',
     foldLocal_pres (·.name) declStepA' (fun d n a d' n' h => (declStepA'_frame d n a d' n' h).2.2.2) _ _ _ _ _ h2'⟩
  have hfr1 : d1.insts = L1.insts ∧ d1.attrs = L1.attrs ∧ d1.lib = L1.lib ∧ d1.name = L1.name := by
    have key : ∀ d n a d' n', hdrStepL d n a = some (d', n') → d'.insts = d.insts ∧ d'.attrs = d.attrs ∧ d'.lib = d.lib ∧ d'.name = d.name := by
      intro d n a d' n' h
      obtain ⟨_, _, _, _, _, _, _, _, _, b1, b2, b3, b4⟩ := hdrStepL_spec d n a d' n' h
      exact ⟨b3, b4, b2, b1⟩
    exact ⟨foldLocal_pres (·.insts) hdrStepL (fun d n a d' n' h => (key d n a d' n' h).1) _ _ _ _ _ h1,
      foldLocal_pres (·.attrs) hdrStepL (fun d n a d' n' h => (key d n a d' n' h).2.1) _ _ _ _ _ h1,
      foldLocal_pres (·.lib) hdrStepL (fun d n a d' n' h => (key d n a d' n' h).2.2.1) _ _ _ _ _ h1,
      foldLocal_pres (·.name) hdrStepL (fun d n a d' n' h => (key d n a d' n' h).2.2.2) _ _ _ _ _ h1⟩
  -- nets
  have hWF3 : WF d3 n3 := foldLocal_inv WF wireStep wireStep_WF _ _ _ _ _ hWF2 h3
  have hPC3 : PC d3 := foldLocal_inv (fun d _ => PC d) wireStep (fun d n a d' n' hp hs => wireStep_PC d n a d' n' hp hs)
    _ _ _ _ _ hPC2 h3
  have hpv3 : d3.ports.map pv = ports.map declV := by
    rw [foldLocal_pres (·.ports) wireStep wireStep_ports _ _ _ _ _ h3]; exact hpv2
  have hcab3 : cabOf d3 = wires.foldl updW (cabOf d2) := foldLocal_track cabOf updW wireStep wireStep_cab _ _ _ _ _ h3
  have hfr3 : d3.insts = d2.insts ∧ d3.attrs = d2.attrs ∧ d3.lib = d2.lib ∧ d3.name = d2.name := by
    have key : ∀ d n a d' n', wireStep d n a = some (d', n') → d'.insts = d.insts ∧ d'.attrs = d.attrs ∧ d'.lib = d.lib ∧ d'.name = d.name := by
      intro d n a d' n' h
      unfold wireStep at h
      split at h
      · simp only [Option.some.injEq, Prod.mk.injEq] at h; rw [← h.1]; exact ⟨rfl, rfl, rfl, rfl⟩
      · split at h
        · simp only [Option.some.injEq, Prod.mk.injEq] at h; rw [← h.1]; exact ⟨rfl, rfl, rfl, rfl⟩
        · cases h
    exact ⟨foldLocal_pres (·.insts) wireStep (fun d n a d' n' h => (key d n a d' n' h).1) _ _ _ _ _ h3,
      foldLocal_pres (·.attrs) wireStep (fun d n a d' n' h => (key d n a d' n' h).2.1) _ _ _ _ _ h3,
      foldLocal_pres (·.lib) wireStep (fun d n a d' n' h => (key d n a d' n' h).2.2.1) _ _ _ _ _ h3,
      foldLocal_pres (·.name) wireStep (fun d n a d' n' h => (key d n a d' n' h).2.2.2) _ _ _ _ _ h3⟩
  refine ⟨hpv3, hPC3, hWF3, ?_, by rw [hfr3.1, hfr2.1, hfr1.1], by rw [hfr3.2.1, hfr2.2.1, hfr1.2.1],
    by rw [hfr3.2.2.1, hfr2.2.2.1, hfr1.2.2.1], by rw [hfr3.2.2.2, hfr2.2.2.2, hfr1.2.2.2]⟩
  rw [hcab3, hcab2]
  congr 1
  apply updD_bridge ports (cabOf d1) hnd
  intro nm
  obtain ⟨c1, c2⟩ := hcab1 nm
  exact ⟨c1, fun hm => by rw [c2 hm, hcabL]⟩
end Spydr.Verilog.Elab
