/-
  Verilog engine — proof side, part 47 (hierarchy): the view of a definition from the facts about its declaration phases
  (`view_core`, the second half of `c04_view` for any way the definition was built) and `buildLateW_view`: a work module
  declared late shows the view of its definition in the netlist.
-/
import Spydr.Verilog.RoundTripHierF
set_option maxHeartbeats 1600000
namespace Spydr.Verilog.Elab
open Spydr.Verilog

/-! ### the view of a definition from the facts about its declaration phases and its instance fold -/

/-- **view_core.**  The second half of `c04_view`, for any definition `d3` that satisfies the four facts about the
    declaration phases (whichever way it was built): with the instances folded in and the attributes set, it shows the
    view of `T`. -/
theorem view_core (n : Text.WNet) (T : Text.WDef) (ports : List PDecl) (insts : List PInst) (d3 d4 : Def)
    (ls ls4 : List Def) (n3 : Nat) (hfrag : fragTop n T = true)
    (hports : T.ports.mapM (astPort T) = some ports) (hinsts : T.insts.mapM (astInst n T) = some insts)
    (hpv : d3.ports.map pv = ports.map declV) (hPC : PC d3) (hWF : WF d3 n3)
    (hcabE : cabOf d3 = (T.cables.reverse.map astWire).foldl updW (ports.foldl updD ((ports.map (·.name)).foldl updS (fun _ => none))))
    (hi3 : d3.insts = []) (ha3 : d3.attrs = none) (hl : LeafInv n ls)
    (h4 : foldInst d3 ls (insts.map PInst.toN) = some (d4, ls4)) :
    viewD (withAttrs (T.attrs.getD []) d4) = viewT n T ∧ LeafInv n ls4 ∧ d4.ports = d3.ports ∧ d4.cables = d3.cables := by
  simp only [fragTop, Bool.and_eq_true, decide_eq_true_eq, List.all_eq_true] at hfrag
  obtain ⟨⟨⟨⟨F1, F1w⟩, F2n⟩, F2⟩, F3⟩ := hfrag
  obtain ⟨hplen, hpidx⟩ := mapM_index _ _ _ hports
  have hpspec : ∀ mp ∈ ports, ∃ p ∈ T.ports, astPort T p = some mp := mapM_mem _ _ _ hports
  have H2 : ∀ c ∈ T.cables, 1 ≤ c.width := fun c hc => by simpa using F1w c hc
  have H4 : ∀ p ∈ ports, ∃ c ∈ T.cables, c.name = p.name ∧ p.rng = emitDeclRange c.lower c.width := by
    intro mp hmp
    obtain ⟨p, _, hp⟩ := hpspec mp hmp
    obtain ⟨nm, c, dir, _, hc, _, e⟩ := astPort_spec T p mp hp
    refine ⟨c, List.mem_of_find?_eq_some hc, ?_, by rw [e]⟩
    rw [e]; simpa using List.find?_some hc
  have hpnames : ports.map (fun p => some p.name) = T.ports.map (·.name) := by
    apply List.ext_getElem (by simp [hplen])
    intro k g1 g2
    simp only [List.length_map] at g1 g2
    simp only [List.getElem_map]
    obtain ⟨nm, c, dir, hn, _, _, e⟩ := astPort_spec T _ _ (hpidx k g2 g1)
    rw [e, hn]
  have H3 : (ports.map (·.name)).Nodup := by
    have : (ports.map (·.name)).map some = T.ports.map (·.name) := by rw [List.map_map]; exact hpnames
    have hn : ((ports.map (·.name)).map some).Nodup := by rw [this]; exact F2n
    exact (List.pairwise_map.mp hn).imp (fun h e => h (congrArg some e))
  have hcab : ∀ nm, (cabOf d3 nm).map normV =
      (T.cables.find? (fun c => c.name == nm)).map (fun c => (c.lower, c.width, c.ctype.getD "wire", c.attrs.getD [])) := by
    intro nm
    rw [hcabE]
    exact cables_view T.cables ports F1 H2 H3 H4 nm
  have hfragP : ∀ p ∈ T.ports, ∀ nm, p.name = some nm → ∀ c, T.cables.find? (fun c => c.name == nm) = some c →
      p.lower = c.lower ∧ p.width = c.width ∧ p.pins = (cableBits nm c.lower c.width).items.map some := by
    intro p hp nm hn c hc
    have := F2 p hp
    simp only [hn, hc, Bool.and_eq_true, decide_eq_true_eq] at this
    exact ⟨this.1.1, this.1.2, this.2⟩
  have hportsV := ports_view T ports d3 hports hfragP H2 hpv hPC hWF.1 hcab
  have henv : envOf d3 = Text.envOf T := by
    funext nm
    have := hcab nm
    unfold cabOf at this
    unfold envOf Text.envOf
    cases h1 : d3.cables.find? (fun c => c.name == nm) with
    | none =>
      rw [h1] at this
      cases h2 : T.cables.find? (fun c => c.name == nm) with
      | none => rfl
      | some c => rw [h2] at this; cases this
    | some C =>
      rw [h1] at this
      cases h2 : T.cables.find? (fun c => c.name == nm) with
      | none => rw [h2] at this; cases this
      | some c =>
        rw [h2] at this
        simp only [Option.map_some, normV, Option.some.injEq, Prod.mk.injEq] at this
        simp [this.1, this.2.1]
  have hfragI : ∀ i ∈ T.insts, ∀ r, Text.refOf n i.ref = some r → (r.ports.map (·.name)).Nodup ∧
      ((i.params.getD []).map (·.1)).Nodup ∧
      ∀ k, k < r.ports.length → i.pins.getD k [] ≠ [] ∧ ReaderShape (Text.envOf T) (i.pins.getD k []) := by
    intro i hi r hr
    have := F3 i hi
    simp only [hr, Bool.and_eq_true, decide_eq_true_eq, List.all_eq_true, List.mem_range, Bool.not_eq_eq_eq_not,
      Bool.not_true] at this
    obtain ⟨⟨⟨g1, _⟩, g3⟩, g4⟩ := this
    refine ⟨g1, g3, ?_⟩
    intro k hk
    obtain ⟨a, b⟩ := g4 k hk
    exact ⟨by intro e; rw [e] at a; simp at a, readerShape_sound _ _ b⟩
  obtain ⟨k1, k2, k3⟩ := insts_view n T T.insts insts d3 ls d4 ls4 hinsts h4 hWF.1 henv hfragI hl
  obtain ⟨q1, q2, q3⟩ := foldInst_frame _ d3 ls d4 ls4 h4
  refine ⟨?_, k3, q1, q2⟩
  have hbit : ∀ (dd : Def), dd.cables = d3.cables → pinBits dd = pinBits d3 := by
    intro dd h; funext row; unfold pinBits; rw [bitOf_cables d3 dd h]
  have hIV : ∀ (dd : Def), dd.cables = d3.cables → dd.insts = d4.insts →
      dd.insts.map (fun i => (⟨i.name, i.ref, i.params, i.attrs.getD [],
        i.pins.map (fun row => connectedBlock (pinBits dd row))⟩ : InstView)) = T.insts.map (instViewT n) := by
    intro dd h1 h2
    rw [h2, hbit dd h1]
    have := k1
    rw [hi3] at this
    simp only [List.map_nil, List.nil_append] at this
    exact this
  have hCV : ∀ (dd : Def), dd.cables = d3.cables → cabOf dd = cabOf d3 := by
    intro dd h; funext nm; unfold cabOf; rw [h]
  unfold withAttrs
  split
  · rename_i he
    unfold viewD viewT
    simp only [DefView.mk.injEq]
    refine ⟨?_, ?_, ?_, ?_⟩
    · rw [q3, ha3]
      simp only [Option.getD_none]
      exact (List.isEmpty_iff.mp he).symm
    · rw [q1, hbit d4 q2]; exact hportsV
    · funext nm; rw [hCV d4 q2]; exact hcab nm
    · exact hIV d4 q2 rfl
  · unfold viewD viewT
    simp only [DefView.mk.injEq]
    refine ⟨rfl, ?_, ?_, ?_⟩
    · show d4.ports.map _ = _
      have := hbit { d4 with attrs := some (T.attrs.getD []) } q2
      rw [this, q1]; exact hportsV
    · funext nm
      rw [hCV { d4 with attrs := some (T.attrs.getD []) } q2]; exact hcab nm
    · exact hIV { d4 with attrs := some (T.attrs.getD []) } q2 rfl
/-! ### a work module declared late shows the view of its definition -/

/-- what is known of a definition the file has not declared yet: no nets, no instances, ports based at 0 -/
def StubOK (L : Def) : Prop :=
  L.lib = none → L.cables = [] ∧ L.insts = [] ∧ L.attrs = none ∧ ∀ P ∈ L.ports, P.lower = 0 ∧ P.attrs = none

theorem firstStep_stub (d0 : Def) : ∀ (conns : List (String × XExpr)) (a b : List Port × List (List (Option Nat))),
    (∀ P ∈ a.1, P.lower = 0 ∧ P.attrs = none) → conns.foldlM (firstStep d0) a = some b →
    ∀ P ∈ b.1, P.lower = 0 ∧ P.attrs = none := by
  intro conns
  induction conns with
  | nil => intro a b h hf; simp only [List.foldlM_nil, pure, Option.some.injEq] at hf; rw [← hf]; exact h
  | cons c cs ih =>
    intro a b h hf
    rw [List.foldlM_cons] at hf
    cases hs : firstStep d0 a c with
    | none => simp [hs] at hf
    | some r =>
      simp only [hs, Option.bind_eq_bind, Option.bind_some] at hf
      refine ih r b ?_ hf
      have hnew : ∀ (w : Nat) (P : Port), P ∈ a.1 ++ [newPort c.1 w] → P.lower = 0 ∧ P.attrs = none := by
        intro w P hP
        rcases List.mem_append.mp hP with e | e
        · exact h P e
        · simp only [List.mem_singleton] at e; rw [e]; exact ⟨rfl, rfl⟩
      unfold firstStep at hs
      split at hs
      · split at hs
        · simp only [Option.some.injEq] at hs; rw [← hs]; exact hnew 1
        · cases hw : exprWires d0 c.2 with
          | none => simp [hw] at hs
          | some ws =>
            simp only [hw] at hs
            split at hs
            · simp only [Option.some.injEq] at hs; rw [← hs]; exact hnew ws.length
            · cases hs
      · cases hs

/-- the instance fold only appends definitions, all of them stubs -/
theorem foldInst_new : ∀ (is : List NInst) (d : Def) (ls : List Def) (d' : Def) (ls' : List Def),
    foldInst d ls is = some (d', ls') → ∃ new, ls' = ls ++ new ∧ ∀ x ∈ new, StubOK x ∧ x.lib = none := by
  intro is
  induction is with
  | nil =>
    intro d ls d' ls' h
    simp only [foldInst, Option.some.injEq, Prod.mk.injEq] at h
    exact ⟨[], by rw [← h.2]; simp, by intro x hx; cases hx⟩
  | cons i is ih =>
    intro d ls d' ls' h
    unfold foldInst at h
    cases hs : instStep2 d ls i with
    | none => simp [hs] at h
    | some r =>
      obtain ⟨d1, ls1⟩ := r
      simp only [hs] at h
      obtain ⟨new2, e2, h2⟩ := ih d1 ls1 d' ls' h
      have h1 : ∃ new1, ls1 = ls ++ new1 ∧ ∀ x ∈ new1, StubOK x ∧ x.lib = none := by
        unfold instStep2 at hs
        split at hs
        · cases hf : ls.find? (fun l => l.name == i.mod) with
          | some rd =>
            simp only [hf, Option.map_eq_some_iff] at hs
            obtain ⟨rows, _, he⟩ := hs
            simp only [Prod.mk.injEq] at he
            exact ⟨[], by rw [← he.2]; simp, by intro x hx; cases hx⟩
          | none =>
            simp only [hf, Option.map_eq_some_iff] at hs
            obtain ⟨r, hr, he⟩ := hs
            simp only [Prod.mk.injEq] at he
            refine ⟨[⟨i.mod, none, false, [], none, r.1, [], []⟩], by rw [← he.2], ?_⟩
            intro x hx
            simp only [List.mem_singleton] at hx
            rw [hx]
            exact ⟨fun _ => ⟨rfl, rfl, rfl, firstStep_stub d i.conns ([], []) r (by intro P hP; cases hP) hr⟩, rfl⟩
        · cases hs
      obtain ⟨new1, e1, h1'⟩ := h1
      refine ⟨new1 ++ new2, by rw [e2, e1, List.append_assoc], ?_⟩
      intro x hx
      rcases List.mem_append.mp hx with e | e
      · exact h1' x e
      · exact h2 x e

theorem foldInst_name : ∀ (is : List NInst) (d : Def) (ls : List Def) (d' : Def) (ls' : List Def),
    foldInst d ls is = some (d', ls') → d'.name = d.name := by
  intro is
  induction is with
  | nil => intro d ls d' ls' h; simp only [foldInst, Option.some.injEq, Prod.mk.injEq] at h; rw [← h.1]
  | cons i is ih =>
    intro d ls d' ls' h
    unfold foldInst at h
    cases hs : instStep2 d ls i with
    | none => simp [hs] at h
    | some r =>
      simp only [hs] at h
      refine (ih r.1 r.2 d' ls' h).trans ?_
      unfold instStep2 at hs
      split at hs
      · cases hf : ls.find? (fun l => l.name == i.mod) with
        | some rd =>
          simp only [hf, Option.map_eq_some_iff] at hs
          obtain ⟨_, _, he⟩ := hs
          rw [← he]
        | none =>
          simp only [hf, Option.map_eq_some_iff] at hs
          obtain ⟨_, _, he⟩ := hs
          rw [← he]
      · cases hs

theorem foldDeclA_bound : ∀ (ps : List PDecl) (d : Def) (n : Nat) (d' : Def) (n' : Nat) (ops : List (Nat × Nat)),
    foldDeclA d n ps = some (d', n', ops) → ∀ op ∈ ops, op.1 < d.ports.length := by
  intro ps
  induction ps with
  | nil =>
    intro d n d' n' ops h
    simp only [foldDeclA, Option.some.injEq, Prod.mk.injEq] at h
    rw [← h.2.2]; intro op hop; cases hop
  | cons p ps ih =>
    intro d n d' n' ops h
    unfold foldDeclA at h
    cases hs : declStepA d n p with
    | none => simp [hs] at h
    | some r =>
      obtain ⟨d1, n1, k, post⟩ := r
      simp only [hs, Option.map_eq_some_iff] at h
      obtain ⟨q, hq, he⟩ := h
      obtain ⟨d2, n2, ops2⟩ := q
      simp only [Prod.mk.injEq] at he
      obtain ⟨_, _, e3⟩ := he
      obtain ⟨hk, _, _, _, _, _, _, _, _, _, _, _, hp, _⟩ := declStepA_spec d n p d1 n1 k post hs
      have := ih d1 n1 d2 n2 ops2 hq
      rw [← e3]
      intro op hop
      rcases List.mem_cons.mp hop with e | e
      · rw [e]; exact hk
      · have := this op e
        rw [hp] at this
        simpa using this

/-- **buildLateW_view.**  The definition `buildLateW` ends with for a work module `W` of the netlist (its written syntax
    `astOf n W`) shows the view of `W`. -/
theorem buildLateW_view (n : Text.WNet) (W : Text.WDef) (mW : WModP) (L : Def) (ls : List Def) (nn : Nat) (t : String)
    (D : Def) (ls' : List Def) (n' : Nat) (ops : List (Nat × Nat))
    (hfrag : fragTop n W = true) (hm : astOf n W = some mW) (hstub : StubOK L) (hl : LeafInv n ls)
    (hb : buildLateW L ls nn mW.toI t = some (D, ls', n', ops)) :
    viewD D = viewT n W ∧ D.lib = some "work" ∧ D.name = L.name ∧ LeafInv n ls' ∧
      (∃ new, ls' = ls.map (fun x => padOpsD x W.name ops) ++ new ∧ ∀ x ∈ new, StubOK x ∧ x.lib = none) ∧
      (∀ op ∈ ops, op.1 < L.ports.length) ∧ D.ports.map (·.name) = W.ports.map (·.name) ∧
      D.ports.map (·.name) = L.ports.map (·.name) := by
  -- the syntax
  unfold astOf at hm
  cases hports : W.ports.mapM (astPort W) with
  | none => simp [hports] at hm
  | some ports =>
    cases hinsts : W.insts.mapM (astInst n W) with
    | none => simp [hports, hinsts] at hm
    | some insts =>
      simp only [hports, hinsts, Option.some.injEq] at hm
      subst hm
      unfold buildLateW WModP.toI at hb
      generalize hws : W.cables.reverse.map astWire = wires at hb
      simp only at hb
      split at hb
      · rename_i hc
        obtain ⟨hlib, hi, hnames, hnd, _⟩ := hc
        obtain ⟨hLc, _, hLa, hLp⟩ := hstub hlib
        generalize hL1 : ({ L with lib := some "work" } : Def) = L1 at hb
        cases h1 : foldLocal hdrStepL L1 nn (ports.map (·.name)) with
        | none => simp [h1] at hb
        | some r1 =>
          obtain ⟨d1, n1⟩ := r1
          simp only [h1] at hb
          cases h2 : foldDeclA d1 n1 ports with
          | none => simp [h2] at hb
          | some r2 =>
            obtain ⟨d2, n2, ops2⟩ := r2
            simp only [h2] at hb
            cases h3 : foldLocal wireStep d2 n2 wires with
            | none => simp [h3] at hb
            | some r3 =>
              obtain ⟨d3, n3⟩ := r3
              simp only [h3] at hb
              split at hb
              · cases h4 : foldInst d3 (ls.map (fun x => padOpsD x W.name ops2)) (insts.map PInst.toN) with
                | none => simp [h4] at hb
                | some r4 =>
                  obtain ⟨d4, ls4⟩ := r4
                  simp only [h4, Option.some.injEq, Prod.mk.injEq] at hb
                  obtain ⟨e1, e2, e3, e4⟩ := hb
                  subst e1 e2 e3 e4
                  have hf := late_facts L1 nn ports wires d1 d2 d3 n1 n2 n3 ops2 (by rw [← hL1]; exact hLc) (by rw [← hL1]; exact hnames)
                    hnd (by rw [← hL1]; exact hLp) h1 h2 h3
                  obtain ⟨f1, f2, f3, f4, f5, f6, f7, f8⟩ := hf
                  rw [← hws] at f4
                  have hlpad : LeafInv n (ls.map (fun x => padOpsD x W.name ops2)) := by
                    intro x hx
                    obtain ⟨y, hy, e⟩ := List.mem_map.mp hx
                    obtain ⟨r, hr, hp⟩ := hl y hy
                    rw [← e]
                    exact ⟨r, hr, hp⟩
                  obtain ⟨v1, v2, v3, v4⟩ := view_core n W ports insts d3 d4 _ ls4 n3 hfrag hports hinsts f1 f2 f3 f4
                    (by rw [f5, ← hL1]; exact hi) (by rw [f6, ← hL1]; exact hLa) hlpad h4
                  obtain ⟨new, en, hnew⟩ := foldInst_new _ d3 _ d4 ls4 h4
                  have hlib4 : d4.lib = some "work" := by rw [foldInst_lib _ d3 _ d4 ls4 h4, f7, ← hL1]
                  have hname4 : d4.name = L.name := by
                    have := (foldInst_frame _ d3 _ d4 ls4 h4)
                    have hn : d4.name = d3.name := foldInst_name _ d3 _ d4 ls4 h4
                    rw [hn, f8, ← hL1]
                  have hp4 : (withAttrs (W.attrs.getD []) d4).ports = d4.ports := by unfold withAttrs; split <;> rfl
                  have hnm4 : (withAttrs (W.attrs.getD []) d4).ports.map (·.name) = (ports.map (·.name)).map some := by
                    rw [hp4, v3]
                    have := congrArg (List.map (fun (x : PV) => x.1)) f1
                    simp only [List.map_map, pv, declV, Function.comp_def] at this
                    rw [this, List.map_map]; rfl
                  refine ⟨v1, ?_, ?_, v2, ⟨new, en, hnew⟩, ?_, ?_, by rw [hnm4, hnames]⟩
                  · unfold withAttrs; split <;> simp [hlib4]
                  · unfold withAttrs; split <;> simp [hname4]
                  · have := foldDeclA_bound ports d1 n1 d2 n2 ops2 h2
                    have hlen : d1.ports.length = L.ports.length := by
                      have := foldLocal_pres (fun d => d.ports.map (·.name)) hdrStepL hdrStepL_names _ _ _ _ _ h1
                      have := congrArg List.length this
                      simp only [List.length_map] at this
                      rw [this, ← hL1]
                    intro op hop
                    rw [← hlen]; exact this op hop
                  · have hp4 : (withAttrs (W.attrs.getD []) d4).ports = d4.ports := by unfold withAttrs; split <;> rfl
                    rw [hp4, v3]
                    have := congrArg (List.map (fun (x : PV) => x.1)) f1
                    simp only [List.map_map, pv, declV, Function.comp_def] at this
                    rw [this]
                    -- the names of the written ports are the names of the ports
                    obtain ⟨hplen, hpidx⟩ := mapM_index _ _ _ hports
                    apply List.ext_getElem (by simp [hplen])
                    intro k g1 g2
                    simp only [List.length_map] at g1 g2
                    simp only [List.getElem_map]
                    obtain ⟨nm, c, dir, hn, _, _, e⟩ := astPort_spec W _ _ (hpidx k g2 g1)
                    rw [e, hn]
              · cases hb
      · cases hb
end Spydr.Verilog.Elab
